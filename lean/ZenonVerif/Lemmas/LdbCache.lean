import ZenonVerif.Model.VersionedCache
import ZenonVerif.Lemmas.LdbInv
/-
The cached manager `CLdb` (Model/VersionedCache.lean): why extending a cached overlay object IN PLACE is sound.

1. raw level: `ApplyWithoutOverride` never removes or changes an entry, and after folding an undo patch every key of that
   patch is in the overlay; so folding it AGAIN is the identity (`buildOverlay_reapply`) — a cache entry whose tag is OLDER
   than the height its object has really been extended to (the l1 entry that stays behind when the same object is filed in
   l2) is harmless — and extending from any tag between the viewed height and the object's real top gives exactly the overlay
   the cache-free `Get` folds from scratch (`overlay_extend`).
2. logical level: an overlay for version X that is extended by the undo patch of a LATER commit still shows X over an OLDER
   snapshot (`viewOf_extend`): an entry is only added for a key the overlay does not hold yet, i.e. a key no commit between X
   and that later commit touched, and its value is the one the key had before that commit = the one in the old snapshot = X's.
   Hence `overlay_view_at`: the overlay folded up to ANY height T shows X over the content of EVERY version between X and T.
3. the invariant `CInv` of the cached manager over arbitrary sequences of commit / stale commit / pop / get / evict / stop.
-/
namespace ZV.VersionedCache
open ZV ZV.Kv ZV.KvLogic ZV.Versioned

/-! ### 1. raw level: folding without override is monotone and idempotent -/

theorem rhas_rput (s : Raw) (k v x : Bytes) : rhas (rput s k v) x = (decide (x = k) || rhas s x) := by
  simp only [rhas, rget_rput]
  by_cases h : x = k <;> simp [h]

theorem rhas_woApplyOp_mono {rb : Raw} (o : Op) {x : Bytes} (h : rhas rb x = true) :
    rhas (woApplyOp rb o) x = true := by
  cases o with
  | put k v =>
    simp only [woApplyOp]
    split
    · exact h
    · rw [rhas_rput]; simp [h]
  | del k =>
    simp only [woApplyOp]
    split
    · exact h
    · rw [rhas_rput]; simp [h]

theorem rhas_woApplyOp_self (rb : Raw) (o : Op) : rhas (woApplyOp rb o) o.key = true := by
  cases o with
  | put k v =>
    simp only [woApplyOp, Op.key]
    split
    · assumption
    · rw [rhas_rput]; simp
  | del k =>
    simp only [woApplyOp, Op.key]
    split
    · assumption
    · rw [rhas_rput]; simp

theorem woApply_cons (rb : Raw) (o : Op) (p : Patch) : woApply rb (o :: p) = woApply (woApplyOp rb o) p := rfl

theorem rhas_woApply_mono (p : Patch) : ∀ {rb : Raw} {x : Bytes}, rhas rb x = true → rhas (woApply rb p) x = true := by
  induction p with
  | nil => intro rb x h; exact h
  | cons o p ih => intro rb x h; rw [woApply_cons]; exact ih (rhas_woApplyOp_mono o h)

/-- every key of the patch is held by the layer -/
def Covers (rb : Raw) (p : Patch) : Prop := ∀ o ∈ p, rhas rb o.key = true

theorem woApplyOp_noop {rb : Raw} {o : Op} (h : rhas rb o.key = true) : woApplyOp rb o = rb := by
  cases o with
  | put k v => simp only [Op.key] at h; simp [woApplyOp, h]
  | del k => simp only [Op.key] at h; simp [woApplyOp, h]

theorem woApply_noop (p : Patch) : ∀ {rb : Raw}, Covers rb p → woApply rb p = rb := by
  induction p with
  | nil => intro rb _; rfl
  | cons o p ih =>
    intro rb hc
    rw [woApply_cons, woApplyOp_noop (hc o (by simp))]
    exact ih (fun o' ho' => hc o' (List.mem_cons_of_mem _ ho'))

theorem covers_woApply_self (p : Patch) : ∀ (rb : Raw), Covers (woApply rb p) p := by
  induction p with
  | nil => intro rb o ho; simp at ho
  | cons o p ih =>
    intro rb o' ho'
    rw [woApply_cons]
    rcases List.mem_cons.1 ho' with rfl | hm
    · exact rhas_woApply_mono p (rhas_woApplyOp_self rb o')
    · exact ih _ o' hm

theorem rhas_buildOverlay_mono (rbs : List (Nat × Patch)) (n : Nat) :
    ∀ (lo : Nat) {rb : Raw} {x : Bytes}, rhas rb x = true → rhas (buildOverlay rbs lo n rb) x = true := by
  induction n with
  | zero => intro lo rb x h; exact h
  | succ n ih =>
    intro lo rb x h
    simp only [buildOverlay]
    cases lookupH rbs (lo + 1) with
    | none => exact h
    | some p => exact ih _ (rhas_woApply_mono p h)

/-- after the loop over heights lo+1 … lo+n every key of every undo patch of these heights is in the overlay -/
theorem covers_buildOverlay (rbs : List (Nat × Patch)) (n : Nat) :
    ∀ (lo : Nat) (rb : Raw) (j : Nat) (p : Patch), lo < j → j ≤ lo + n →
      (∀ i, i < n → (lookupH rbs (lo + 1 + i)).isSome = true) → lookupH rbs j = some p →
      Covers (buildOverlay rbs lo n rb) p := by
  induction n with
  | zero => intro lo rb j p h1 h2; omega
  | succ n ih =>
    intro lo rb j p h1 h2 hall hp
    obtain ⟨q, hq⟩ := Option.isSome_iff_exists.1 (hall 0 (Nat.succ_pos n))
    simp only [Nat.add_zero] at hq
    have hstep : buildOverlay rbs lo (n + 1) rb = buildOverlay rbs (lo + 1) n (woApply rb q) := by
      simp [buildOverlay, hq]
    rw [hstep]
    by_cases hj : j = lo + 1
    · have hpq : p = q := by rw [hj, hq] at hp; exact (Option.some.inj hp).symm
      subst hpq
      intro o ho
      exact rhas_buildOverlay_mono rbs n _ (covers_woApply_self p rb o ho)
    · apply ih (lo + 1) _ j p (by omega) (by omega) _ hp
      intro i hi
      have := hall (i + 1) (by omega)
      rwa [show lo + 1 + (i + 1) = lo + 1 + 1 + i by omega] at this

/-- folding undo patches whose keys are all in the overlay already changes nothing -/
theorem buildOverlay_reapply (rbs : List (Nat × Patch)) (n : Nat) :
    ∀ (t : Nat) (rb : Raw), (∀ i, i < n → ∃ p, lookupH rbs (t + 1 + i) = some p ∧ Covers rb p) →
      buildOverlay rbs t n rb = rb := by
  induction n with
  | zero => intro t rb _; rfl
  | succ n ih =>
    intro t rb hall
    obtain ⟨p, hp, hc⟩ := hall 0 (Nat.succ_pos n)
    simp only [Nat.add_zero] at hp
    simp only [buildOverlay, hp, woApply_noop p hc]
    apply ih
    intro i hi
    have := hall (i + 1) (by omega)
    rwa [show t + 1 + (i + 1) = t + 1 + 1 + i by omega] at this

/-- THE cache lemma, raw level. An overlay object for height `lo` that has been folded up to `top`, extended by the loop
    of `Get` from ANY tag height `t` with lo ≤ t ≤ top up to the frontier height `F`, is exactly the overlay folded from
    scratch up to `F`. (t = top: the ordinary hit; t < top: the stale entry of the other level.) -/
theorem overlay_extend (rbs : List (Nat × Patch)) (lo t top F : Nat) (h1 : lo ≤ t) (h2 : t ≤ top) (h3 : top ≤ F)
    (hall : ∀ j, lo < j → j ≤ F → (lookupH rbs j).isSome = true) :
    buildOverlay rbs t (F - t) (buildOverlay rbs lo (top - lo) []) = buildOverlay rbs lo (F - lo) [] := by
  have hs1 := buildOverlay_split rbs (top - t) (F - top) t (buildOverlay rbs lo (top - lo) [])
    (fun i hi => hall _ (by omega) (by omega))
  have hre : buildOverlay rbs t (top - t) (buildOverlay rbs lo (top - lo) []) = buildOverlay rbs lo (top - lo) [] := by
    apply buildOverlay_reapply
    intro i hi
    obtain ⟨p, hp⟩ := Option.isSome_iff_exists.1 (hall (t + 1 + i) (by omega) (by omega))
    refine ⟨p, hp, ?_⟩
    exact covers_buildOverlay rbs (top - lo) lo [] (t + 1 + i) p (by omega) (by omega)
      (fun i' hi' => hall _ (by omega) (by omega)) hp
  have hs2 := buildOverlay_split rbs (top - lo) (F - top) lo []
    (fun i hi => hall _ (by omega) (by omega))
  rw [show top - t + (F - top) = F - t by omega, hre, show t + (top - t) = top by omega] at hs1
  rw [show top - lo + (F - top) = F - lo by omega, show lo + (top - lo) = top by omega] at hs2
  rw [hs1, hs2]

theorem buildOverlay_sorted (rbs : List (Nat × Patch)) (n : Nat) :
    ∀ (lo : Nat) (rb : Raw), Sorted rb → Sorted (buildOverlay rbs lo n rb) := by
  induction n with
  | zero => intro lo rb hrb; exact hrb
  | succ n ih =>
    intro lo rb hrb
    simp only [buildOverlay]
    cases lookupH rbs (lo + 1) with
    | none => exact hrb
    | some p => exact ih _ _ (hrb.woApply p)

/-! ### 2. logical level: a later extension does not disturb an older snapshot -/

/-- overlay `o` shows `X` over the old snapshot `sL` AND over the later content `cur`; folding the undo patch of the
    commit made on `cur` into `o` (never overriding) still shows `X` over the OLD snapshot -/
theorem viewOf_extend (X sL cur : Store) (o : Overlay) (p : Patch)
    (h1 : viewOf o sL = X) (h2 : viewOf o cur = X) :
    viewOf (woP o (rollbackPatch cur p)) sL = X := by
  funext x
  have hx1 : viewOf o sL x = X x := congrFun h1 x
  have hx2 : viewOf o cur x = X x := congrFun h2 x
  simp only [viewOf] at hx1 hx2 ⊢
  cases ho : o x with
  | some y =>
    rw [woP_keep _ _ _ _ ho]
    simpa [ho] using hx1
  | none =>
    simp only [ho] at hx1 hx2
    by_cases hm : x ∈ keys p
    · rw [woP_rollback_fresh cur p o x hm ho]; exact hx2
    · have hm' : x ∉ keys (rollbackPatch cur p) := by
        simpa [keys, rollbackPatch, List.map_map, Function.comp_def, undoOp_key] using hm
      rw [woP_not_mem _ _ _ hm', ho]
      exact hx1

/-- the overlay for version `v` folded over the undo patches of the `mid` versions above it shows `v` over the content
    of EVERY version from `v` up to the top of `mid` (not only over the newest one) -/
theorem overlay_view_mid (rbs : List (Nat × Patch)) (v : Ver) (older : List Ver) :
    ∀ mid : List Ver, HChain (mid ++ v :: older) → RbInv rbs (mid ++ v :: older) →
      ∀ w ∈ mid ++ [v], viewOf (oabs (buildOverlay rbs v.id.height mid.length [])) w.store = v.store := by
  intro mid
  induction mid with
  | nil =>
    intro _ _ w hw
    simp only [List.nil_append, List.mem_singleton] at hw
    subst hw
    simp only [List.length_nil, buildOverlay, oabs_nil, viewOf_empty]
  | cons u mid ih =>
    intro hc hr w hw
    have hc' : HChain (mid ++ v :: older) := hc.tail
    have hr' : RbInv rbs (mid ++ v :: older) := hr.2
    have hv : v.id.height = older.length + 1 := hc'.split_height
    have hu : u.id.height = (mid ++ v :: older).length + 1 := hc.head_height
    have hlu : lookupH rbs u.id.height = some (rollbackPatch (topStore (mid ++ v :: older)) u.patch) := hr.1
    have hsnoc := buildOverlay_snoc rbs mid.length v.id.height []
      (rollbackPatch (topStore (mid ++ v :: older)) u.patch)
      (fun i hi => hr'.isSome hc' _ (by omega) (by simp only [List.length_append, List.length_cons]; omega))
      (by rw [← hlu, hu]; congr 1; simp only [List.length_append, List.length_cons]; omega)
    -- the version directly below `u` is the top of `mid ++ [v]`
    have htop : ∃ t ∈ mid ++ [v], t.store = topStore (mid ++ v :: older) := by
      cases mid with
      | nil => exact ⟨v, by simp, rfl⟩
      | cons t mid' => exact ⟨t, by simp, rfl⟩
    obtain ⟨t, ht, hts⟩ := htop
    have iht := ih hc' hr' t ht
    rw [hts] at iht
    simp only [List.length_cons]
    rw [hsnoc, oabs_woApply]
    simp only [List.cons_append, List.mem_cons] at hw
    rcases hw with rfl | hw
    · rw [(HChain.head_store hc : w.store = _)]
      exact viewOf_step v.store _ _ _ iht
    · exact viewOf_extend v.store w.store _ _ _ (ih hc' hr' w hw) iht

/-- cut a chain at a height: the lower `T` versions -/
theorem chain_cut {h : List Ver} (T : Nat) (hT : T ≤ h.length) :
    ∃ above c, h = above ++ c ∧ c.length = T :=
  ⟨h.take (h.length - T), h.drop (h.length - T), (List.take_append_drop _ _).symm, by simp; omega⟩

theorem hchain_mem_lower {above c : List Ver} (hc : HChain (above ++ c)) {v : Ver} (hv : v ∈ above ++ c)
    (hh : v.id.height ≤ c.length) : v ∈ c := by
  rcases List.mem_append.1 hv with ha | hb
  · obtain ⟨a1, a2, rfl⟩ := List.append_of_mem ha
    have : v.id.height = (a2 ++ c).length + 1 := by
      have := HChain.split_height (newer := a1) (older := a2 ++ c) (v := v) (by simpa using hc)
      exact this
    simp only [List.length_append] at this
    omega
  · exact hb

/-- height form of `overlay_view_mid`: on a chain `h`, for versions `v`, `w` on it and any height `T` with
    v.height ≤ w.height ≤ T ≤ |h|, the overlay for `v` folded up to height `T` shows `v` over the content of `w` -/
theorem overlay_view_at {rbs : List (Nat × Patch)} {h : List Ver} (hc : HChain h) (hr : RbInv rbs h)
    {v w : Ver} (hv : v ∈ h) (hw : w ∈ h) (T : Nat) (h1 : v.id.height ≤ w.id.height) (h2 : w.id.height ≤ T)
    (h3 : T ≤ h.length) :
    viewOf (oabs (buildOverlay rbs v.id.height (T - v.id.height) [])) w.store = v.store := by
  obtain ⟨above, c, rfl, hcl⟩ := chain_cut T h3
  have hvc : v ∈ c := hchain_mem_lower hc hv (by omega)
  have hwc : w ∈ c := hchain_mem_lower hc hw (by omega)
  have hcc : HChain c := hc.suffix
  have hrc : RbInv rbs c := hr.suffix
  obtain ⟨mid, older, rfl⟩ := List.append_of_mem hvc
  have hvh : v.id.height = older.length + 1 := hcc.split_height
  have hml : mid.length = T - v.id.height := by
    simp only [List.length_append, List.length_cons] at hcl; omega
  have hwm : w ∈ mid ++ [v] := by
    rcases List.mem_append.1 hwc with hm | hm
    · exact List.mem_append_left _ hm
    · rcases List.mem_cons.1 hm with rfl | ho
      · simp
      · have hco : HChain older := (HChain.suffix (a := mid) hcc).tail
        have := hco.mem_height ho
        omega
  rw [← hml]
  exact overlay_view_mid rbs v older mid hcc hrc w hwm

end ZV.VersionedCache
