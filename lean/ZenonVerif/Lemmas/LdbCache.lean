import ZenonVerif.Model.VersionedCache
import ZenonVerif.Lemmas.LdbInv
/-
The cached manager `CLdb` (Model/VersionedCache.lean): why extending a cached overlay object IN PLACE is sound.

1. raw level: `ApplyWithoutOverride` never removes or changes an entry, and after folding an undo patch every key of that
   patch is in the overlay; so folding it AGAIN is the identity (`buildOverlay_reapply`) — a cache entry whose tag is OLDER
   than the height its object has really been extended to (the l1 entry that stays behind when the same object is filed in
   l2) is harmless — and extending from any tag between the viewed height and the object's real top gives exactly the overlay
   the cache-free `Get` folds from scratch (`overlay_extend`).
2. logical level: an overlay for version X that is extended by the undo patch of a LATER commit still shows X over an OLDER
   snapshot (`viewOf_extend`): an entry is only added for a key the overlay does not hold yet, i.e. a key no commit between X
   and that later commit touched, and its value is the one the key had before that commit = the one in the old snapshot = X's.
   Hence `overlay_view_at`: the overlay folded up to ANY height T shows X over the content of EVERY version between X and T.
3. the invariant `CInv` of the cached manager over arbitrary sequences of commit / stale commit / pop / get / evict / stop.
-/
namespace ZV.VersionedCache
open ZV ZV.Kv ZV.KvLogic ZV.Versioned

/-! ### 1. raw level: folding without override is monotone and idempotent -/

theorem rhas_rput (s : Raw) (k v x : Bytes) : rhas (rput s k v) x = (decide (x = k) || rhas s x) := by
  simp only [rhas, rget_rput]
  by_cases h : x = k <;> simp [h]

theorem rhas_woApplyOp_mono {rb : Raw} (o : Op) {x : Bytes} (h : rhas rb x = true) :
    rhas (woApplyOp rb o) x = true := by
  cases o with
  | put k v =>
    simp only [woApplyOp]
    split
    · exact h
    · rw [rhas_rput]; simp [h]
  | del k =>
    simp only [woApplyOp]
    split
    · exact h
    · rw [rhas_rput]; simp [h]

theorem rhas_woApplyOp_self (rb : Raw) (o : Op) : rhas (woApplyOp rb o) o.key = true := by
  cases o with
  | put k v =>
    simp only [woApplyOp, Op.key]
    split
    · assumption
    · rw [rhas_rput]; simp
  | del k =>
    simp only [woApplyOp, Op.key]
    split
    · assumption
    · rw [rhas_rput]; simp

theorem woApply_cons (rb : Raw) (o : Op) (p : Patch) : woApply rb (o :: p) = woApply (woApplyOp rb o) p := rfl

theorem rhas_woApply_mono (p : Patch) : ∀ {rb : Raw} {x : Bytes}, rhas rb x = true → rhas (woApply rb p) x = true := by
  induction p with
  | nil => intro rb x h; exact h
  | cons o p ih => intro rb x h; rw [woApply_cons]; exact ih (rhas_woApplyOp_mono o h)

/-- every key of the patch is held by the layer -/
def Covers (rb : Raw) (p : Patch) : Prop := ∀ o ∈ p, rhas rb o.key = true

theorem woApplyOp_noop {rb : Raw} {o : Op} (h : rhas rb o.key = true) : woApplyOp rb o = rb := by
  cases o with
  | put k v => simp only [Op.key] at h; simp [woApplyOp, h]
  | del k => simp only [Op.key] at h; simp [woApplyOp, h]

theorem woApply_noop (p : Patch) : ∀ {rb : Raw}, Covers rb p → woApply rb p = rb := by
  induction p with
  | nil => intro rb _; rfl
  | cons o p ih =>
    intro rb hc
    rw [woApply_cons, woApplyOp_noop (hc o (by simp))]
    exact ih (fun o' ho' => hc o' (List.mem_cons_of_mem _ ho'))

theorem covers_woApply_self (p : Patch) : ∀ (rb : Raw), Covers (woApply rb p) p := by
  induction p with
  | nil => intro rb o ho; simp at ho
  | cons o p ih =>
    intro rb o' ho'
    rw [woApply_cons]
    rcases List.mem_cons.1 ho' with rfl | hm
    · exact rhas_woApply_mono p (rhas_woApplyOp_self rb o')
    · exact ih _ o' hm

theorem rhas_buildOverlay_mono (rbs : List (Nat × Patch)) (n : Nat) :
    ∀ (lo : Nat) {rb : Raw} {x : Bytes}, rhas rb x = true → rhas (buildOverlay rbs lo n rb) x = true := by
  induction n with
  | zero => intro lo rb x h; exact h
  | succ n ih =>
    intro lo rb x h
    simp only [buildOverlay]
    cases lookupH rbs (lo + 1) with
    | none => exact h
    | some p => exact ih _ (rhas_woApply_mono p h)

/-- after the loop over heights lo+1 … lo+n every key of every undo patch of these heights is in the overlay -/
theorem covers_buildOverlay (rbs : List (Nat × Patch)) (n : Nat) :
    ∀ (lo : Nat) (rb : Raw) (j : Nat) (p : Patch), lo < j → j ≤ lo + n →
      (∀ i, i < n → (lookupH rbs (lo + 1 + i)).isSome = true) → lookupH rbs j = some p →
      Covers (buildOverlay rbs lo n rb) p := by
  induction n with
  | zero => intro lo rb j p h1 h2; omega
  | succ n ih =>
    intro lo rb j p h1 h2 hall hp
    obtain ⟨q, hq⟩ := Option.isSome_iff_exists.1 (hall 0 (Nat.succ_pos n))
    simp only [Nat.add_zero] at hq
    have hstep : buildOverlay rbs lo (n + 1) rb = buildOverlay rbs (lo + 1) n (woApply rb q) := by
      simp [buildOverlay, hq]
    rw [hstep]
    by_cases hj : j = lo + 1
    · have hpq : p = q := by rw [hj, hq] at hp; exact (Option.some.inj hp).symm
      subst hpq
      intro o ho
      exact rhas_buildOverlay_mono rbs n _ (covers_woApply_self p rb o ho)
    · apply ih (lo + 1) _ j p (by omega) (by omega) _ hp
      intro i hi
      have := hall (i + 1) (by omega)
      rwa [show lo + 1 + (i + 1) = lo + 1 + 1 + i by omega] at this

/-- folding undo patches whose keys are all in the overlay already changes nothing -/
theorem buildOverlay_reapply (rbs : List (Nat × Patch)) (n : Nat) :
    ∀ (t : Nat) (rb : Raw), (∀ i, i < n → ∃ p, lookupH rbs (t + 1 + i) = some p ∧ Covers rb p) →
      buildOverlay rbs t n rb = rb := by
  induction n with
  | zero => intro t rb _; rfl
  | succ n ih =>
    intro t rb hall
    obtain ⟨p, hp, hc⟩ := hall 0 (Nat.succ_pos n)
    simp only [Nat.add_zero] at hp
    simp only [buildOverlay, hp, woApply_noop p hc]
    apply ih
    intro i hi
    have := hall (i + 1) (by omega)
    rwa [show t + 1 + (i + 1) = t + 1 + 1 + i by omega] at this

/-- THE cache lemma, raw level. An overlay object for height `lo` that has been folded up to `top`, extended by the loop
    of `Get` from ANY tag height `t` with lo ≤ t ≤ top up to the frontier height `F`, is exactly the overlay folded from
    scratch up to `F`. (t = top: the ordinary hit; t < top: the stale entry of the other level.) -/
theorem overlay_extend (rbs : List (Nat × Patch)) (lo t top F : Nat) (h1 : lo ≤ t) (h2 : t ≤ top) (h3 : top ≤ F)
    (hall : ∀ j, lo < j → j ≤ F → (lookupH rbs j).isSome = true) :
    buildOverlay rbs t (F - t) (buildOverlay rbs lo (top - lo) []) = buildOverlay rbs lo (F - lo) [] := by
  have hs1 := buildOverlay_split rbs (top - t) (F - top) t (buildOverlay rbs lo (top - lo) [])
    (fun i hi => hall _ (by omega) (by omega))
  have hre : buildOverlay rbs t (top - t) (buildOverlay rbs lo (top - lo) []) = buildOverlay rbs lo (top - lo) [] := by
    apply buildOverlay_reapply
    intro i hi
    obtain ⟨p, hp⟩ := Option.isSome_iff_exists.1 (hall (t + 1 + i) (by omega) (by omega))
    refine ⟨p, hp, ?_⟩
    exact covers_buildOverlay rbs (top - lo) lo [] (t + 1 + i) p (by omega) (by omega)
      (fun i' hi' => hall _ (by omega) (by omega)) hp
  have hs2 := buildOverlay_split rbs (top - lo) (F - top) lo []
    (fun i hi => hall _ (by omega) (by omega))
  rw [show top - t + (F - top) = F - t by omega, hre, show t + (top - t) = top by omega] at hs1
  rw [show top - lo + (F - top) = F - lo by omega, show lo + (top - lo) = top by omega] at hs2
  rw [hs1, hs2]

theorem buildOverlay_sorted (rbs : List (Nat × Patch)) (n : Nat) :
    ∀ (lo : Nat) (rb : Raw), Sorted rb → Sorted (buildOverlay rbs lo n rb) := by
  induction n with
  | zero => intro lo rb hrb; exact hrb
  | succ n ih =>
    intro lo rb hrb
    simp only [buildOverlay]
    cases lookupH rbs (lo + 1) with
    | none => exact hrb
    | some p => exact ih _ _ (hrb.woApply p)

/-! ### 2. logical level: a later extension does not disturb an older snapshot -/

/-- overlay `o` shows `X` over the old snapshot `sL` AND over the later content `cur`; folding the undo patch of the
    commit made on `cur` into `o` (never overriding) still shows `X` over the OLD snapshot -/
theorem viewOf_extend (X sL cur : Store) (o : Overlay) (p : Patch)
    (h1 : viewOf o sL = X) (h2 : viewOf o cur = X) :
    viewOf (woP o (rollbackPatch cur p)) sL = X := by
  funext x
  have hx1 : viewOf o sL x = X x := congrFun h1 x
  have hx2 : viewOf o cur x = X x := congrFun h2 x
  simp only [viewOf] at hx1 hx2 ⊢
  cases ho : o x with
  | some y =>
    rw [woP_keep _ _ _ _ ho]
    simpa [ho] using hx1
  | none =>
    simp only [ho] at hx1 hx2
    by_cases hm : x ∈ keys p
    · rw [woP_rollback_fresh cur p o x hm ho]; exact hx2
    · have hm' : x ∉ keys (rollbackPatch cur p) := by
        simpa [keys, rollbackPatch, List.map_map, Function.comp_def, undoOp_key] using hm
      rw [woP_not_mem _ _ _ hm', ho]
      exact hx1

/-- the overlay for version `v` folded over the undo patches of the `mid` versions above it shows `v` over the content
    of EVERY version from `v` up to the top of `mid` (not only over the newest one) -/
theorem overlay_view_mid (rbs : List (Nat × Patch)) (v : Ver) (older : List Ver) :
    ∀ mid : List Ver, HChain (mid ++ v :: older) → RbInv rbs (mid ++ v :: older) →
      ∀ w ∈ mid ++ [v], viewOf (oabs (buildOverlay rbs v.id.height mid.length [])) w.store = v.store := by
  intro mid
  induction mid with
  | nil =>
    intro _ _ w hw
    simp only [List.nil_append, List.mem_singleton] at hw
    subst hw
    simp only [List.length_nil, buildOverlay, oabs_nil, viewOf_empty]
  | cons u mid ih =>
    intro hc hr w hw
    have hc' : HChain (mid ++ v :: older) := hc.tail
    have hr' : RbInv rbs (mid ++ v :: older) := hr.2
    have hv : v.id.height = older.length + 1 := hc'.split_height
    have hu : u.id.height = (mid ++ v :: older).length + 1 := hc.head_height
    have hlu : lookupH rbs u.id.height = some (rollbackPatch (topStore (mid ++ v :: older)) u.patch) := hr.1
    have hsnoc := buildOverlay_snoc rbs mid.length v.id.height []
      (rollbackPatch (topStore (mid ++ v :: older)) u.patch)
      (fun i hi => hr'.isSome hc' _ (by omega) (by simp only [List.length_append, List.length_cons]; omega))
      (by rw [← hlu, hu]; congr 1; simp only [List.length_append, List.length_cons]; omega)
    -- the version directly below `u` is the top of `mid ++ [v]`
    have htop : ∃ t ∈ mid ++ [v], t.store = topStore (mid ++ v :: older) := by
      cases mid with
      | nil => exact ⟨v, by simp, rfl⟩
      | cons t mid' => exact ⟨t, by simp, rfl⟩
    obtain ⟨t, ht, hts⟩ := htop
    have iht := ih hc' hr' t ht
    rw [hts] at iht
    simp only [List.length_cons]
    rw [hsnoc, oabs_woApply]
    simp only [List.cons_append, List.mem_cons] at hw
    rcases hw with rfl | hw
    · rw [(HChain.head_store hc : w.store = _)]
      exact viewOf_step v.store _ _ _ iht
    · exact viewOf_extend v.store w.store _ _ _ (ih hc' hr' w hw) iht

/-- cut a chain at a height: the lower `T` versions -/
theorem chain_cut {h : List Ver} (T : Nat) (hT : T ≤ h.length) :
    ∃ above c, h = above ++ c ∧ c.length = T :=
  ⟨h.take (h.length - T), h.drop (h.length - T), (List.take_append_drop _ _).symm, by simp; omega⟩

theorem hchain_mem_lower {above c : List Ver} (hc : HChain (above ++ c)) {v : Ver} (hv : v ∈ above ++ c)
    (hh : v.id.height ≤ c.length) : v ∈ c := by
  rcases List.mem_append.1 hv with ha | hb
  · obtain ⟨a1, a2, rfl⟩ := List.append_of_mem ha
    have : v.id.height = (a2 ++ c).length + 1 := by
      have := HChain.split_height (newer := a1) (older := a2 ++ c) (v := v) (by simpa using hc)
      exact this
    simp only [List.length_append] at this
    omega
  · exact hb

/-- height form of `overlay_view_mid`: on a chain `h`, for versions `v`, `w` on it and any height `T` with
    v.height ≤ w.height ≤ T ≤ |h|, the overlay for `v` folded up to height `T` shows `v` over the content of `w` -/
theorem overlay_view_at {rbs : List (Nat × Patch)} {h : List Ver} (hc : HChain h) (hr : RbInv rbs h)
    {v w : Ver} (hv : v ∈ h) (hw : w ∈ h) (T : Nat) (h1 : v.id.height ≤ w.id.height) (h2 : w.id.height ≤ T)
    (h3 : T ≤ h.length) :
    viewOf (oabs (buildOverlay rbs v.id.height (T - v.id.height) [])) w.store = v.store := by
  obtain ⟨above, c, rfl, hcl⟩ := chain_cut T h3
  have hvc : v ∈ c := hchain_mem_lower hc hv (by omega)
  have hwc : w ∈ c := hchain_mem_lower hc hw (by omega)
  have hcc : HChain c := hc.suffix
  have hrc : RbInv rbs c := hr.suffix
  obtain ⟨mid, older, rfl⟩ := List.append_of_mem hvc
  have hvh : v.id.height = older.length + 1 := hcc.split_height
  have hml : mid.length = T - v.id.height := by
    simp only [List.length_append, List.length_cons] at hcl; omega
  have hwm : w ∈ mid ++ [v] := by
    rcases List.mem_append.1 hwc with hm | hm
    · exact List.mem_append_left _ hm
    · rcases List.mem_cons.1 hm with rfl | ho
      · simp
      · have hco : HChain older := (HChain.suffix (a := mid) hcc).tail
        have := hco.mem_height ho
        omega
  rw [← hml]
  exact overlay_view_mid rbs v older mid hcc hrc w hwm

/-! ### 3. the invariant of the cached manager -/

/-- the entries of both levels -/
def CLdb.ents (s : CLdb) : List CEnt := s.l1 ++ s.l2

/-- what holds for an overlay object `o` that some cache entry references. `v` is the version it reconstructs, `top` the
    height it has REALLY been folded up to (≥ the tag of every entry that references it; the tag of an entry that stayed
    behind in the other level may be smaller). Every entry and every handed-out view that shares the object is for `v`;
    a view's snapshot is the content of some version between `v` and `top`. -/
structure ObjInv (s : CLdb) (h : List Ver) (o : Nat) (v : Ver) (top : Nat) : Prop where
  mem : v ∈ h
  lo : v.id.height ≤ top
  hi : top ≤ h.length
  obj : s.heap[o]? = some (buildOverlay s.ldb.rollbacks v.id.height (top - v.id.height) [])
  ents : ∀ e ∈ s.ents, e.obj = o →
    e.id = v.id ∧ (∃ w ∈ h, w.id = e.tag) ∧ v.id.height ≤ e.tag.height ∧ e.tag.height ≤ top
  views : ∀ vw ∈ s.views, vw.obj = o →
    vw.id = v.id ∧ Sorted vw.snap ∧ ∃ w ∈ h, KvLogic.abs vw.snap = w.store ∧ v.id.height ≤ w.id.height ∧ w.id.height ≤ top

/-- the invariant of the cached manager: the cache-free part satisfies `Inv`, every referenced object satisfies `ObjInv`,
    every handed-out view points into the heap -/
structure CInv (s : CLdb) (h : List Ver) : Prop where
  inv : Inv s.ldb h
  objs : ∀ e ∈ s.ents, ∃ v top, ObjInv s h e.obj v top
  viewsLt : ∀ vw ∈ s.views, vw.obj < s.heap.length

theorem lookupC_some {l : List CEnt} {i : Id} {e : CEnt} (h : lookupC l i = some e) : e ∈ l ∧ e.id = i := by
  induction l with
  | nil => simp [lookupC] at h
  | cons x t ih =>
    simp only [lookupC] at h
    split at h
    · rename_i hx
      cases h
      exact ⟨by simp, hx⟩
    · exact ⟨List.mem_cons_of_mem _ (ih h).1, (ih h).2⟩

theorem lookupC_none {l : List CEnt} {i : Id} (h : lookupC l i = none) : ∀ e ∈ l, e.id ≠ i := by
  induction l with
  | nil => intro e he; simp at he
  | cons x t ih =>
    simp only [lookupC] at h
    split at h
    · cases h
    · rename_i hx
      intro e he
      rcases List.mem_cons.1 he with rfl | he
      · exact hx
      · exact ih h e he

theorem mem_cacheAdd {l : List CEnt} {e x : CEnt} (h : x ∈ cacheAdd l e) : x = e ∨ x ∈ l := by
  simp only [cacheAdd, List.mem_cons, List.mem_filter] at h
  rcases h with h | h
  · exact Or.inl h
  · exact Or.inr h.1

theorem mem_cacheEvict {l : List CEnt} {i : Id} {x : CEnt} (h : x ∈ cacheEvict l i) : x ∈ l := by
  simp only [cacheEvict, List.mem_filter] at h
  exact h.1

/-- relation between the cached and the cache-free `Get`: same case distinction -/
theorem get_cases (cfg : Cfg) (s : CLdb) (i : Id) (hs : s.stopped = false) :
    (s.get cfg i = (s, none) ∧ s.ldb.get i = none) ∨
    (s.get cfg i = (s, some CRoot.mem) ∧ s.ldb.get i = some Root.mem) ∨
    (s.get cfg i = (s, some (CRoot.front s.ldb.frontier)) ∧ s.ldb.get i = some (Root.front s.ldb.frontier)) ∨
    (s.get cfg i = s.getHist cfg i ∧ i.isZero = false ∧ i ≠ s.ldb.frontierId ∧
      s.ldb.get i = some (Root.hist
        (buildOverlay s.ldb.rollbacks i.height (s.ldb.frontierId.height - i.height) []) s.ldb.frontier)) := by
  unfold CLdb.get Ldb.get
  simp only [hs, Bool.false_eq_true, if_false]
  by_cases hz : i.isZero = true
  · simp [hz]
  · by_cases hf : i = s.ldb.frontierId
    · right; right; left
      simp only [hz, Bool.false_eq_true, if_false, if_pos hf, and_self]
    · simp only [hz, Bool.false_eq_true, if_false, if_neg hf]
      cases hd : edDecode (rget s.ldb.frontier (keyHeightByHash i.hash)) with
      | none => left; simp
      | some hb =>
        by_cases hh : beVal hb = i.height
        · right; right; right
          simp [hh, hf]
        · left; simp [hh]

/-- the cached part of `Get` with the hit made explicit -/
def getHistWith (cfg : Cfg) (s : CLdb) (i to : Id) (o : Nat) (heap0 : List Raw) : CLdb × Option CRoot :=
  let f := s.ldb.frontierId
  let raw := buildOverlay s.ldb.rollbacks to.height (f.height - to.height) (objAt heap0 o)
  let e : CEnt := ⟨i, f, o⟩
  let near := decide (absDiff i.height f.height < cfg.maxDiff)
  ({ s with heap := heap0.set o raw,
            l1 := if near then cacheAdd s.l1 e else s.l1,
            l2 := if near then s.l2 else cacheAdd s.l2 e,
            views := ⟨i, s.ldb.frontier, o⟩ :: s.views },
   some (CRoot.hist o s.ldb.frontier))

theorem getHist_l1 {cfg : Cfg} {s : CLdb} {i : Id} {e : CEnt} (h : lookupC s.l1 i = some e) :
    s.getHist cfg i = getHistWith cfg s i e.tag e.obj s.heap := by
  simp [CLdb.getHist, getHistWith, h]

theorem getHist_l2 {cfg : Cfg} {s : CLdb} {i : Id} {e : CEnt} (h1 : lookupC s.l1 i = none)
    (h : lookupC s.l2 i = some e) : s.getHist cfg i = getHistWith cfg s i e.tag e.obj s.heap := by
  simp [CLdb.getHist, getHistWith, h1, h]

theorem getHist_fresh {cfg : Cfg} {s : CLdb} {i : Id} (h1 : lookupC s.l1 i = none) (h2 : lookupC s.l2 i = none) :
    s.getHist cfg i = getHistWith cfg s i i s.heap.length (s.heap ++ [[]]) := by
  simp [CLdb.getHist, getHistWith, h1, h2]

theorem mem_ents_getHistWith {cfg : Cfg} {s : CLdb} {i to : Id} {o : Nat} {heap0 : List Raw} {x : CEnt}
    (h : x ∈ (getHistWith cfg s i to o heap0).1.ents) : x = ⟨i, s.ldb.frontierId, o⟩ ∨ x ∈ s.ents := by
  simp only [getHistWith, CLdb.ents, List.mem_append] at h ⊢
  by_cases hn : absDiff i.height s.ldb.frontierId.height < cfg.maxDiff
  · simp only [hn, decide_true, if_true] at h
    rcases h with h | h
    · rcases mem_cacheAdd h with h | h
      · exact Or.inl h
      · exact Or.inr (Or.inl h)
    · exact Or.inr (Or.inr h)
  · simp only [hn, decide_false, Bool.false_eq_true, if_false] at h
    rcases h with h | h
    · exact Or.inr (Or.inl h)
    · rcases mem_cacheAdd h with h | h
      · exact Or.inl h
      · exact Or.inr (Or.inr h)

theorem inv0_frontierHeight {s : Ldb} {h : List Ver} (hi : Inv0 s h) : s.frontierId.height = h.length := by
  rw [hi.frontierId, hi.hchain.topHeight]

/-- the cached part of `Get` keeps the invariant, and the object it hands out is exactly the overlay the cache-free
    `Get` folds from scratch. `top` = the height the hit object has been folded up to, `to` = the tag found. -/
theorem CInv.getHistWith_inv {cfg : Cfg} {s : CLdb} {h : List Ver} (hi : CInv s h) {v : Ver} (hv : v ∈ h)
    (to : Id) (o : Nat) (heap0 : List Raw) (top : Nat)
    (hlo : v.id.height ≤ to.height) (hto : to.height ≤ top) (htop : top ≤ h.length)
    (hobj : heap0[o]? = some (buildOverlay s.ldb.rollbacks v.id.height (top - v.id.height) []))
    (hother : ∀ o', o' ≠ o → o' < s.heap.length → heap0[o']? = s.heap[o']?)
    (hlen : s.heap.length ≤ heap0.length)
    (hents : ∀ e ∈ s.ents, e.obj = o →
      e.id = v.id ∧ (∃ w ∈ h, w.id = e.tag) ∧ v.id.height ≤ e.tag.height ∧ e.tag.height ≤ top)
    (hviews : ∀ vw ∈ s.views, vw.obj = o →
      vw.id = v.id ∧ Sorted vw.snap ∧
        ∃ w ∈ h, KvLogic.abs vw.snap = w.store ∧ v.id.height ≤ w.id.height ∧ w.id.height ≤ top) :
    CInv (getHistWith cfg s v.id to o heap0).1 h ∧
    objAt (getHistWith cfg s v.id to o heap0).1.heap o =
      buildOverlay s.ldb.rollbacks v.id.height (s.ldb.frontierId.height - v.id.height) [] := by
  have hF : s.ldb.frontierId.height = h.length := inv0_frontierHeight hi.inv.inv0
  have hvh := hi.inv.inv0.hchain.mem_height hv
  have holt : o < heap0.length := by
    rcases Nat.lt_or_ge o heap0.length with hl | hl
    · exact hl
    · rw [List.getElem?_eq_none hl] at hobj; cases hobj
  have hraw : buildOverlay s.ldb.rollbacks to.height (s.ldb.frontierId.height - to.height) (objAt heap0 o) =
      buildOverlay s.ldb.rollbacks v.id.height (s.ldb.frontierId.height - v.id.height) [] := by
    have : objAt heap0 o = buildOverlay s.ldb.rollbacks v.id.height (top - v.id.height) [] := by
      simp [objAt, hobj]
    rw [this, hF]
    exact overlay_extend _ _ _ _ _ hlo hto htop
      (fun j h1 h2 => hi.inv.inv0.rb.isSome hi.inv.inv0.hchain j (by omega) h2)
  have hheap : (getHistWith cfg s v.id to o heap0).1.heap =
      heap0.set o (buildOverlay s.ldb.rollbacks v.id.height (s.ldb.frontierId.height - v.id.height) []) := by
    simp only [getHistWith, hraw]
  have hself : (getHistWith cfg s v.id to o heap0).1.heap[o]? =
      some (buildOverlay s.ldb.rollbacks v.id.height (s.ldb.frontierId.height - v.id.height) []) := by
    rw [hheap, List.getElem?_set_self holt]
  have hoth : ∀ o', o' ≠ o → o' < s.heap.length →
      (getHistWith cfg s v.id to o heap0).1.heap[o']? = s.heap[o']? := by
    intro o' hne hl
    rw [hheap, List.getElem?_set_ne (Ne.symm hne)]
    exact hother o' hne hl
  have hldb : (getHistWith cfg s v.id to o heap0).1.ldb = s.ldb := rfl
  have hvs : (getHistWith cfg s v.id to o heap0).1.views = ⟨v.id, s.ldb.frontier, o⟩ :: s.views := rfl
  -- the newest version: its identifier is the tag of the new entry, its content the snapshot of the new view
  obtain ⟨t, ht, htid, hts, hth⟩ : ∃ t ∈ h, t.id = s.ldb.frontierId ∧ KvLogic.abs s.ldb.frontier = t.store ∧
      t.id.height = h.length := by
    cases h with
    | nil => simp at hv
    | cons t h' =>
      refine ⟨t, by simp, ?_, ?_, ?_⟩
      · rw [hi.inv.inv0.frontierId]; rfl
      · rw [hi.inv.inv0.front]; rfl
      · rw [← hF, hi.inv.inv0.frontierId]; rfl
  refine ⟨⟨hi.inv, ?_, ?_⟩, ?_⟩
  · intro e' he'
    by_cases heo : e'.obj = o
    · refine ⟨v, h.length, hv, hvh.2, Nat.le_refl _, ?_, ?_, ?_⟩
      · rw [heo, hself, hldb, hF]
      · intro e'' he'' ho''
        rcases mem_ents_getHistWith he'' with rfl | hold
        · exact ⟨rfl, ⟨t, ht, htid⟩, by simp only []; rw [hF]; exact hvh.2, by simp only []; rw [hF]; exact Nat.le_refl _⟩
        · obtain ⟨a, b, c, d⟩ := hents e'' hold (by rw [ho'', heo])
          exact ⟨a, b, c, by omega⟩
      · intro vw hvw ho''
        rw [hvs] at hvw
        rcases List.mem_cons.1 hvw with rfl | hold
        · exact ⟨rfl, hi.inv.inv0.sorted, t, ht, hts, by omega, by omega⟩
        · obtain ⟨a, b, w, hw, c, d, e⟩ := hviews vw hold (by rw [ho'', heo])
          exact ⟨a, b, w, hw, c, d, by omega⟩
    · have hold : e' ∈ s.ents := by
        rcases mem_ents_getHistWith he' with rfl | hold
        · exact absurd rfl heo
        · exact hold
      obtain ⟨v', top', hoi⟩ := hi.objs e' hold
      have hlt : e'.obj < s.heap.length := by
        rcases Nat.lt_or_ge e'.obj s.heap.length with hl | hl
        · exact hl
        · have := hoi.obj; rw [List.getElem?_eq_none hl] at this; cases this
      refine ⟨v', top', hoi.mem, hoi.lo, hoi.hi, ?_, ?_, ?_⟩
      · rw [hoth _ heo hlt, hldb]; exact hoi.obj
      · intro e'' he'' ho''
        rcases mem_ents_getHistWith he'' with rfl | hold''
        · exact absurd ho''.symm heo
        · exact hoi.ents e'' hold'' ho''
      · intro vw hvw ho''
        rw [hvs] at hvw
        rcases List.mem_cons.1 hvw with rfl | hold''
        · exact absurd ho''.symm heo
        · exact hoi.views vw hold'' ho''
  · intro vw hvw
    rw [hvs] at hvw
    rw [hheap, List.length_set]
    rcases List.mem_cons.1 hvw with rfl | hold
    · exact holt
    · exact Nat.lt_of_lt_of_le (hi.viewsLt vw hold) hlen
  · simp [objAt, hself]

/-- the shape of a `Get` on a running manager: either nothing changes and the answer is the cache-free one, or it is the
    cached part with a hit entry of one of the levels / a fresh object when neither level knows the identifier -/
theorem get_shape (cfg : Cfg) (s : CLdb) (i : Id) (hs : s.stopped = false) :
    ((s.get cfg i).1 = s ∧ (s.get cfg i).2.map (CRoot.resolve s.heap) = s.ldb.get i) ∨
    (∃ to o heap0, s.get cfg i = getHistWith cfg s i to o heap0 ∧ i.isZero = false ∧ i ≠ s.ldb.frontierId ∧
      s.ldb.get i = some (Root.hist
        (buildOverlay s.ldb.rollbacks i.height (s.ldb.frontierId.height - i.height) []) s.ldb.frontier) ∧
      ((∃ e ∈ s.ents, e.id = i ∧ e.tag = to ∧ e.obj = o ∧ heap0 = s.heap) ∨
       (to = i ∧ o = s.heap.length ∧ heap0 = s.heap ++ [[]] ∧ ∀ e ∈ s.ents, e.id ≠ i))) := by
  rcases get_cases cfg s i hs with ⟨h1, h2⟩ | ⟨h1, h2⟩ | ⟨h1, h2⟩ | ⟨h1, hz, hf, h2⟩
  · left; rw [h1, h2]; exact ⟨rfl, rfl⟩
  · left; rw [h1, h2]; exact ⟨rfl, rfl⟩
  · left; rw [h1, h2]; exact ⟨rfl, rfl⟩
  · right
    cases hl1 : lookupC s.l1 i with
    | some e =>
      obtain ⟨hm, hid⟩ := lookupC_some hl1
      exact ⟨e.tag, e.obj, s.heap, by rw [h1, getHist_l1 hl1], hz, hf, h2,
        Or.inl ⟨e, List.mem_append_left _ hm, hid, rfl, rfl, rfl⟩⟩
    | none =>
      cases hl2 : lookupC s.l2 i with
      | some e =>
        obtain ⟨hm, hid⟩ := lookupC_some hl2
        exact ⟨e.tag, e.obj, s.heap, by rw [h1, getHist_l2 hl1 hl2], hz, hf, h2,
          Or.inl ⟨e, List.mem_append_right _ hm, hid, rfl, rfl, rfl⟩⟩
      | none =>
        refine ⟨i, s.heap.length, s.heap ++ [[]], by rw [h1, getHist_fresh hl1 hl2], hz, hf, h2,
          Or.inr ⟨rfl, rfl, rfl, ?_⟩⟩
        intro e he
        rcases List.mem_append.1 he with h | h
        · exact lookupC_none hl1 e h
        · exact lookupC_none hl2 e h

theorem ObjInv.obj_lt {s : CLdb} {h : List Ver} {o : Nat} {v : Ver} {top : Nat} (hoi : ObjInv s h o v top) :
    o < s.heap.length := by
  rcases Nat.lt_or_ge o s.heap.length with hl | hl
  · exact hl
  · have := hoi.obj; rw [List.getElem?_eq_none hl] at this; cases this

theorem new_ent_mem (cfg : Cfg) (s : CLdb) (i to : Id) (o : Nat) (heap0 : List Raw) :
    (⟨i, s.ldb.frontierId, o⟩ : CEnt) ∈ (getHistWith cfg s i to o heap0).1.ents := by
  simp only [getHistWith, CLdb.ents, List.mem_append]
  by_cases hn : absDiff i.height s.ldb.frontierId.height < cfg.maxDiff
  · left; simp [hn, cacheAdd]
  · right; simp [hn, cacheAdd]

/-- everything the later theorems need to know about one `Get` on a running manager in an invariant state -/
theorem CInv.get {cfg : Cfg} {s : CLdb} {h : List Ver} (hi : CInv s h) (hs : s.stopped = false) (i : Id) :
    CInv (s.get cfg i).1 h ∧ (s.get cfg i).1.ldb = s.ldb ∧ (s.get cfg i).1.stopped = false ∧
    (s.get cfg i).2.map (CRoot.resolve (s.get cfg i).1.heap) = s.ldb.get i ∧
    (∀ vw ∈ s.views, vw ∈ (s.get cfg i).1.views) ∧
    s.heap.length ≤ (s.get cfg i).1.heap.length ∧
    (∀ o', o' < s.heap.length → (∀ e ∈ (s.get cfg i).1.ents, e.obj ≠ o') →
      (s.get cfg i).1.heap[o']? = s.heap[o']?) ∧
    (∀ e ∈ (s.get cfg i).1.ents, e.obj < s.heap.length → ∃ e0 ∈ s.ents, e0.obj = e.obj) := by
  rcases get_shape cfg s i hs with ⟨h1, h2⟩ | ⟨to, o, heap0, hg, hz, hf, hans, hhit⟩
  · rw [h1]
    exact ⟨hi, rfl, hs, h2, fun _ hv => hv, Nat.le_refl _, fun _ _ _ => rfl, fun e he _ => ⟨e, he, rfl⟩⟩
  · -- the identifier is a version on the chain
    have hex : ∃ v ∈ h, v.id = i := by
      apply Classical.byContradiction
      intro hno
      have := hi.inv.get_unknown hz (fun v hv e => hno ⟨v, hv, e⟩)
      rw [this] at hans; cases hans
    obtain ⟨v, hv, rfl⟩ := hex
    have hvh := hi.inv.inv0.hchain.mem_height hv
    rw [hg]
    have hstop : (getHistWith cfg s v.id to o heap0).1.stopped = false := hs
    have hviews : ∀ vw ∈ s.views, vw ∈ (getHistWith cfg s v.id to o heap0).1.views :=
      fun vw hvw => List.mem_cons_of_mem _ hvw
    rcases hhit with ⟨e, he, heid, rfl, rfl, rfl⟩ | ⟨rfl, rfl, rfl, hnone⟩
    · -- hit: the object of entry `e`
      obtain ⟨v', top, hoi⟩ := hi.objs e he
      obtain ⟨hid, _, hlo, hto⟩ := hoi.ents e he rfl
      have hvv : v' = v := hi.inv.chain.hash_inj hoi.mem hv (by rw [← hid, heid])
      subst hvv
      obtain ⟨hinv, hobj⟩ := hi.getHistWith_inv (cfg := cfg) hv e.tag e.obj s.heap top hlo hto hoi.hi hoi.obj
        (fun _ _ _ => rfl) (Nat.le_refl _) hoi.ents hoi.views
      refine ⟨hinv, rfl, hstop, ?_, hviews, ?_, ?_, ?_⟩
      · simp only [getHistWith, Option.map_some, CRoot.resolve]
        rw [hans]
        have := hobj
        simp only [getHistWith] at this
        rw [this]
      · simp [getHistWith]
      · intro o' _ hno
        have hne : e.obj ≠ o' := hno ⟨v'.id, s.ldb.frontierId, e.obj⟩ (new_ent_mem cfg s v'.id e.tag e.obj s.heap)
        simp only [getHistWith]
        exact List.getElem?_set_ne hne
      · intro e' he' _
        rcases mem_ents_getHistWith he' with rfl | hold
        · exact ⟨e, he, rfl⟩
        · exact ⟨e', hold, rfl⟩
    · -- neither level knows the identifier: a fresh object
      have hget : (s.heap ++ [([] : Raw)])[s.heap.length]? = some [] := by simp
      obtain ⟨hinv, hobj⟩ := hi.getHistWith_inv (cfg := cfg) hv v.id s.heap.length (s.heap ++ [[]]) v.id.height
        (Nat.le_refl _) (Nat.le_refl _) hvh.2 (by rw [hget, Nat.sub_self]; rfl)
        (fun o' _ hl => List.getElem?_append_left hl) (by simp)
        (fun e he ho => absurd (ho ▸ (hi.objs e he).choose_spec.choose_spec.obj_lt) (Nat.lt_irrefl _))
        (fun vw hvw ho => absurd (ho ▸ hi.viewsLt vw hvw) (Nat.lt_irrefl _))
      refine ⟨hinv, rfl, hstop, ?_, hviews, ?_, ?_, ?_⟩
      · simp only [getHistWith, Option.map_some, CRoot.resolve]
        rw [hans]
        have := hobj
        simp only [getHistWith] at this
        rw [this]
      · simp [getHistWith]
      · intro o' hl _
        simp only [getHistWith]
        rw [List.getElem?_set_ne (by omega)]
        exact List.getElem?_append_left hl
      · intro e' he' hlt
        rcases mem_ents_getHistWith he' with rfl | hold
        · exact absurd hlt (Nat.lt_irrefl _)
        · exact ⟨e', hold, rfl⟩

theorem get_stopped (cfg : Cfg) (s : CLdb) (i : Id) (hs : s.stopped = true) : s.get cfg i = (s, none) := by
  simp [CLdb.get, hs]

/-- a view whose overlay object is still referenced by a cache entry shows its version (whatever height the object has
    been extended to in the meantime) -/
theorem CInv.view_live {s : CLdb} {h : List Ver} (hi : CInv s h) {e : CEnt} (he : e ∈ s.ents) {vw : CView}
    (hvw : vw ∈ s.views) (ho : vw.obj = e.obj) :
    ∃ v ∈ h, vw.id = v.id ∧ Sorted (objAt s.heap vw.obj) ∧ Sorted vw.snap ∧
      viewOf (oabs (objAt s.heap vw.obj)) (KvLogic.abs vw.snap) = v.store := by
  obtain ⟨v, top, hoi⟩ := hi.objs e he
  obtain ⟨hid, hss, w, hw, hws, h1, h2⟩ := hoi.views vw hvw ho
  have hobj : objAt s.heap vw.obj = buildOverlay s.ldb.rollbacks v.id.height (top - v.id.height) [] := by
    simp [objAt, ho, hoi.obj]
  refine ⟨v, hoi.mem, hid, ?_, hss, ?_⟩
  · rw [hobj]; exact buildOverlay_sorted _ _ _ _ Sorted.nil
  · rw [hobj, hws]
    exact overlay_view_at hi.inv.inv0.hchain hi.inv.inv0.rb hoi.mem hw top h1 h2 hoi.hi

/-! ### the other operations -/

theorem ObjInv.transfer {s s' : CLdb} {h : List Ver} {o : Nat} {v : Ver} {top : Nat} (hoi : ObjInv s h o v top)
    (hl : s'.ldb.rollbacks = s.ldb.rollbacks) (hh : s'.heap[o]? = s.heap[o]?)
    (he : ∀ e ∈ s'.ents, e ∈ s.ents) (hv : ∀ vw ∈ s'.views, vw ∈ s.views) : ObjInv s' h o v top :=
  ⟨hoi.mem, hoi.lo, hoi.hi, by rw [hh, hl]; exact hoi.obj, fun e hm => hoi.ents e (he e hm),
    fun vw hm => hoi.views vw (hv vw hm)⟩

theorem CInv.evict {s : CLdb} {h : List Ver} (hi : CInv s h) (l : Bool) (i : Id) : CInv (s.evict l i) h := by
  have hsub : ∀ e ∈ (s.evict l i).ents, e ∈ s.ents := by
    intro e he
    cases l
    · simp only [CLdb.evict, CLdb.ents, Bool.false_eq_true, if_false, List.mem_append] at he ⊢
      exact he.imp id mem_cacheEvict
    · simp only [CLdb.evict, CLdb.ents, if_true, List.mem_append] at he ⊢
      exact he.imp mem_cacheEvict id
  have hldb : (s.evict l i).ldb = s.ldb := by cases l <;> rfl
  have hheap : (s.evict l i).heap = s.heap := by cases l <;> rfl
  have hviews : (s.evict l i).views = s.views := by cases l <;> rfl
  refine ⟨hldb ▸ hi.inv, ?_, ?_⟩
  · intro e he
    obtain ⟨v, top, hoi⟩ := hi.objs e (hsub e he)
    exact ⟨v, top, hoi.transfer (by rw [hldb]) (by rw [hheap]) hsub (by rw [hviews]; exact fun _ x => x)⟩
  · rw [hviews, hheap]; exact hi.viewsLt

theorem CInv.stop {s : CLdb} {h : List Ver} (hi : CInv s h) : CInv s.stop h :=
  ⟨hi.inv, fun e he => by simp [CLdb.stop, CLdb.ents] at he, hi.viewsLt⟩

/-- `Pop` of a manager that purges both levels -/
theorem CInv.pop {cfg : Cfg} (hp1 : cfg.purgeL1 = true) (hp2 : cfg.purgeL2 = true) {s s' : CLdb} {v : Ver}
    {h : List Ver} (hi : CInv s (v :: h)) (hpop : s.pop cfg = some s') :
    CInv s' h ∧ s.ldb.pop = some s'.ldb ∧ s'.heap = s.heap ∧ s'.views = s.views ∧ s'.l1 = [] ∧ s'.l2 = [] ∧
      s'.stopped = false := by
  unfold CLdb.pop at hpop
  by_cases hs : s.stopped = true
  · simp [hs] at hpop
  · simp only [hs, Bool.false_eq_true, if_false] at hpop
    cases hl : s.ldb.pop with
    | none => simp [hl] at hpop
    | some l =>
      simp only [hl, hp1, hp2, if_true, Option.some.injEq] at hpop
      subst hpop
      refine ⟨⟨⟨hi.inv.chain.tail, hi.inv.inv0.pop hl⟩, ?_, hi.viewsLt⟩, rfl, rfl, rfl, rfl, rfl, rfl⟩
      intro e he
      simp [CLdb.ents] at he

/-- `Add` computes exactly what the cache-free `Add` computes; the caches only see the `Get(previous)` -/
theorem CInv.add_eq {cfg : Cfg} {s : CLdb} {h : List Ver} (hi : CInv s h) (hs : s.stopped = false)
    (prev id : Id) (ops : Patch) :
    s.add cfg prev id ops = (s.ldb.add prev id ops).map (fun l => { (s.get cfg prev).1 with ldb := l }) := by
  obtain ⟨_, hldb, _, hans, _⟩ := hi.get (cfg := cfg) hs prev
  unfold CLdb.add Ldb.add
  rw [← hans]
  generalize s.get cfg prev = g at hldb ⊢
  obtain ⟨s1, r⟩ := g
  simp only at hldb ⊢
  cases r with
  | none => rfl
  | some cr =>
    simp only [Option.map_some, hldb]
    by_cases hp : prev = s.ldb.frontierId
    · simp [hp]
    · simp only [hp, if_false, Option.map_some]
      rw [← hldb]

theorem add_stopped (cfg : Cfg) (s : CLdb) (prev id : Id) (ops : Patch) (hs : s.stopped = true) :
    s.add cfg prev id ops = none := by
  simp [CLdb.add, get_stopped cfg s prev hs]

theorem get_frontier_same (cfg : Cfg) (s : CLdb) (hs : s.stopped = false) : (s.get cfg s.ldb.frontierId).1 = s := by
  rcases get_shape cfg s s.ldb.frontierId hs with ⟨h1, _⟩ | ⟨_, _, _, _, _, hf, _⟩
  · exact h1
  · exact absurd rfl hf

/-- a commit on the frontier leaves heap, caches and views alone and keeps every cache entry valid -/
theorem CInv.add_frontier {cfg : Cfg} {s s' : CLdb} {h : List Ver} {id : Id} {ops : Patch} (hi : CInv s h)
    (hok : AddOk s.ldb.frontierId h id ops) (ha : s.add cfg s.ldb.frontierId id ops = some s') :
    CInv s' (commitVer h id ops :: h) ∧ s.ldb.add s.ldb.frontierId id ops = some s'.ldb ∧ s'.heap = s.heap ∧
      s'.views = s.views ∧ s'.l1 = s.l1 ∧ s'.l2 = s.l2 ∧ s'.stopped = false := by
  have hs : s.stopped = false := by
    cases hst : s.stopped with
    | false => rfl
    | true => rw [add_stopped cfg s _ _ _ hst] at ha; cases ha
  rw [hi.add_eq hs, get_frontier_same cfg s hs] at ha
  cases hl : s.ldb.add s.ldb.frontierId id ops with
  | none => simp [hl] at ha
  | some l =>
    simp only [hl, Option.map_some, Option.some.injEq] at ha
    subst ha
    have hfid := hi.inv.inv0.frontierId
    have hinv0 : Inv0 l (commitVer h id ops :: h) := hi.inv.inv0.add ops hok.toHOk hl
    have hleq := hi.inv.inv0.add_eq id ops hl
    have hidh : id.height = h.length + 1 := by
      rw [hok.height, hfid, hi.inv.inv0.hchain.topHeight]
    refine ⟨⟨⟨Chain.cons hi.inv.chain (hfid ▸ hok), hinv0⟩, ?_, hi.viewsLt⟩, rfl, rfl, rfl, rfl, rfl, hs⟩
    intro e he
    obtain ⟨v, top, hoi⟩ := hi.objs e he
    refine ⟨v, top, List.mem_cons_of_mem _ hoi.mem, hoi.lo, by simp only [List.length_cons]; have := hoi.hi; omega,
      ?_, ?_, ?_⟩
    · show s.heap[e.obj]? = some (buildOverlay l.rollbacks v.id.height (top - v.id.height) [])
      rw [hoi.obj]
      congr 1
      apply buildOverlay_congr
      intro i hlt
      have h1 := hoi.lo
      have h2 := hoi.hi
      have hne : v.id.height + 1 + i ≠ id.height := by omega
      rw [hleq]
      simp only []
      rw [lookupH_cons, if_neg (fun e => hne e.symm), lookupH_filter_ne _ _ _ hne]
    · intro e' he' ho'
      obtain ⟨a, ⟨w, hw, hwt⟩, c, d⟩ := hoi.ents e' he' ho'
      exact ⟨a, ⟨w, List.mem_cons_of_mem _ hw, hwt⟩, c, d⟩
    · intro vw hvw ho'
      obtain ⟨a, b, w, hw, c, d, e⟩ := hoi.views vw hvw ho'
      exact ⟨a, b, w, List.mem_cons_of_mem _ hw, c, d, e⟩

/-- a commit on a known stale parent is the `Get(previous)` and nothing else -/
theorem CInv.add_stale {cfg : Cfg} {s s' : CLdb} {h : List Ver} {prev id : Id} {ops : Patch} (hi : CInv s h)
    (hne : prev ≠ s.ldb.frontierId) (ha : s.add cfg prev id ops = some s') :
    s.stopped = false ∧ s' = (s.get cfg prev).1 ∧ s.ldb.add prev id ops = some s.ldb := by
  have hs : s.stopped = false := by
    cases hst : s.stopped with
    | false => rfl
    | true => rw [add_stopped cfg s _ _ _ hst] at ha; cases ha
  obtain ⟨_, hldb, _⟩ := hi.get (cfg := cfg) hs prev
  rw [hi.add_eq hs] at ha
  cases hl : s.ldb.add prev id ops with
  | none => simp [hl] at ha
  | some l =>
    have := add_stale_eq hne hl
    subst this
    simp only [hl, Option.map_some, Option.some.injEq] at ha
    refine ⟨hs, ?_, rfl⟩
    rw [← ha, ← hldb]

/-! ### steps, runs, reachability -/

/-- one operation of the cached manager; the second and fourth argument are the ghost histories of the current chain -/
inductive CStep (cfg : Cfg) : CLdb → List Ver → CLdb → List Ver → Prop
  | add {s s' h id ops} : AddOk s.ldb.frontierId h id ops → s.add cfg s.ldb.frontierId id ops = some s' →
      CStep cfg s h s' (commitVer h id ops :: h)
  | addStale {s s' h prev id ops} : prev ≠ s.ldb.frontierId → s.add cfg prev id ops = some s' → CStep cfg s h s' h
  | pop {s s' v h} : s.pop cfg = some s' → CStep cfg s (v :: h) s' h
  | get {s h} (i : Id) : CStep cfg s h (s.get cfg i).1 h
  | evict {s h} (level1 : Bool) (i : Id) : CStep cfg s h (s.evict level1 i) h
  | stop {s h} : CStep cfg s h s.stop h

inductive CSteps (cfg : Cfg) : CLdb → List Ver → CLdb → List Ver → Prop
  | refl {s h} : CSteps cfg s h s h
  | tail {s h s1 h1 s2 h2} : CSteps cfg s h s1 h1 → CStep cfg s1 h1 s2 h2 → CSteps cfg s h s2 h2

/-- reachable cached states (any interleaving of commits, stale commits, pops, gets, evictions, stop) -/
def CReach (cfg : Cfg) (s : CLdb) (h : List Ver) : Prop := CSteps cfg CLdb.empty [] s h

/-- the configuration purges both levels on `Pop` -/
def Cfg.Purges (cfg : Cfg) : Prop := cfg.purgeL1 = true ∧ cfg.purgeL2 = true

theorem CInv.init : CInv CLdb.empty [] :=
  ⟨Inv.init, fun e he => by simp [CLdb.empty, CLdb.ents] at he, fun vw hvw => by simp [CLdb.empty] at hvw⟩

theorem CStep.inv {cfg : Cfg} (hp : cfg.Purges) {s s' : CLdb} {h h' : List Ver} (hi : CInv s h)
    (hst : CStep cfg s h s' h') : CInv s' h' := by
  cases hst with
  | add hok ha => exact (hi.add_frontier hok ha).1
  | addStale hne ha =>
    obtain ⟨hs, rfl, _⟩ := hi.add_stale hne ha
    exact (hi.get hs _).1
  | pop hpop => exact (hi.pop hp.1 hp.2 hpop).1
  | get i =>
    cases hs : s.stopped with
    | false => exact (hi.get hs i).1
    | true => rw [get_stopped cfg s i hs]; exact hi
  | evict l i => exact hi.evict l i
  | stop => exact hi.stop

theorem CSteps.inv {cfg : Cfg} (hp : cfg.Purges) {s s' : CLdb} {h h' : List Ver} (hi : CInv s h)
    (hst : CSteps cfg s h s' h') : CInv s' h' := by
  induction hst with
  | refl => exact hi
  | tail _ st ih => exact st.inv hp ih

theorem CReach.inv {cfg : Cfg} (hp : cfg.Purges) {s : CLdb} {h : List Ver} (hr : CReach cfg s h) : CInv s h :=
  CSteps.inv hp CInv.init hr

/-- projection: forgetting heap, caches and views, every step of the cached manager is a step (or no step) of the
    cache-free manager `Ldb` of Model/Versioned.lean -/
theorem CStep.reach {cfg : Cfg} (hp : cfg.Purges) {s s' : CLdb} {h h' : List Ver} (hi : CInv s h)
    (hr : Reach s.ldb h) (hst : CStep cfg s h s' h') : Reach s'.ldb h' := by
  cases hst with
  | add hok ha => exact Reach.add hr hok (hi.add_frontier hok ha).2.1
  | addStale hne ha =>
    obtain ⟨hs, rfl, hadd⟩ := hi.add_stale hne ha
    rw [(hi.get hs _).2.1]
    exact Reach.addStale hr hne hadd
  | pop hpop => exact Reach.pop hr (hi.pop hp.1 hp.2 hpop).2.1
  | get i =>
    cases hs : s.stopped with
    | false => rw [(hi.get hs i).2.1]; exact hr
    | true => rw [get_stopped cfg s i hs]; exact hr
  | evict l i => cases l <;> exact hr
  | stop => exact hr

theorem CReach.reach {cfg : Cfg} (hp : cfg.Purges) {s : CLdb} {h : List Ver} (hr : CReach cfg s h) :
    Reach s.ldb h := by
  have : ∀ {s0 h0 s h}, CSteps cfg s0 h0 s h → CInv s0 h0 → Reach s0.ldb h0 → Reach s.ldb h := by
    intro s0 h0 s h hst
    induction hst with
    | refl => intro _ hr; exact hr
    | tail pre st ih => intro hi hr; exact st.reach hp (pre.inv hp hi) (ih hi hr)
  exact this hr CInv.init Reach.init

/-! ### views handed out earlier -/

/-- view `vw`, read through the heap of state `s` (its overlay pointer dereferenced NOW), shows the content `X` -/
structure ViewShows (s : CLdb) (vw : CView) (X : Store) : Prop where
  lt : vw.obj < s.heap.length
  sortedObj : Sorted (objAt s.heap vw.obj)
  sortedSnap : Sorted vw.snap
  shows : viewOf (oabs (objAt s.heap vw.obj)) (KvLogic.abs vw.snap) = X

theorem view_step_core {s s' : CLdb} {h : List Ver} (hi : CInv s h) (hi' : CInv s' h)
    (hmono : ∀ vw ∈ s.views, vw ∈ s'.views) (hlen : s.heap.length ≤ s'.heap.length)
    (hun : ∀ o', o' < s.heap.length → (∀ e ∈ s'.ents, e.obj ≠ o') → s'.heap[o']? = s.heap[o']?)
    (hback : ∀ e ∈ s'.ents, e.obj < s.heap.length → ∃ e0 ∈ s.ents, e0.obj = e.obj)
    {vw : CView} (hvw : vw ∈ s.views) {X : Store} (hsh : ViewShows s vw X) : ViewShows s' vw X := by
  by_cases href : ∃ e ∈ s'.ents, e.obj = vw.obj
  · obtain ⟨e, he, heo⟩ := href
    obtain ⟨e0, he0, h0⟩ := hback e he (heo ▸ hsh.lt)
    obtain ⟨v, hv, hid, _, _, hshow⟩ := hi.view_live he0 hvw (by rw [h0, heo])
    obtain ⟨v', hv', hid', hso', hss', hshow'⟩ := hi'.view_live he (hmono vw hvw) heo.symm
    have hvv : v' = v := hi.inv.chain.hash_inj hv' hv (by rw [← hid', hid])
    subst hvv
    have hX : X = v'.store := by rw [← hsh.shows, hshow]
    exact ⟨Nat.lt_of_lt_of_le hsh.lt hlen, hso', hss', by rw [hshow', hX]⟩
  · have hsame : s'.heap[vw.obj]? = s.heap[vw.obj]? :=
      hun vw.obj hsh.lt (fun e he heo => href ⟨e, he, heo⟩)
    have hobj : objAt s'.heap vw.obj = objAt s.heap vw.obj := by simp [objAt, hsame]
    exact ⟨Nat.lt_of_lt_of_le hsh.lt hlen, by rw [hobj]; exact hsh.sortedObj, hsh.sortedSnap,
      by rw [hobj]; exact hsh.shows⟩

theorem ViewShows.of_heap {s s' : CLdb} {vw : CView} {X : Store} (hh : s'.heap = s.heap) (hsh : ViewShows s vw X) :
    ViewShows s' vw X :=
  ⟨by rw [hh]; exact hsh.lt, by rw [hh]; exact hsh.sortedObj, hsh.sortedSnap, by rw [hh]; exact hsh.shows⟩

/-- one step of the manager — in particular a `Get` that extends the very object the view points to — does not change
    what a view handed out earlier shows -/
theorem CStep.view {cfg : Cfg} (hp : cfg.Purges) {s s' : CLdb} {h h' : List Ver} (hi : CInv s h)
    (hst : CStep cfg s h s' h') {vw : CView} (hvw : vw ∈ s.views) {X : Store} (hsh : ViewShows s vw X) :
    vw ∈ s'.views ∧ ViewShows s' vw X := by
  have hget : ∀ i, s.stopped = false → vw ∈ (s.get cfg i).1.views ∧ ViewShows (s.get cfg i).1 vw X := by
    intro i hs
    obtain ⟨hi', _, _, _, hmono, hlen, hun, hback⟩ := hi.get (cfg := cfg) hs i
    exact ⟨hmono vw hvw, view_step_core hi hi' hmono hlen hun hback hvw hsh⟩
  cases hst with
  | add hok ha =>
    obtain ⟨_, _, hh, hv, _⟩ := hi.add_frontier hok ha
    exact ⟨by rw [hv]; exact hvw, hsh.of_heap hh⟩
  | addStale hne ha =>
    obtain ⟨hs, rfl, _⟩ := hi.add_stale hne ha
    exact hget _ hs
  | pop hpop =>
    obtain ⟨_, _, hh, hv, _⟩ := hi.pop hp.1 hp.2 hpop
    exact ⟨by rw [hv]; exact hvw, hsh.of_heap hh⟩
  | get i =>
    cases hs : s.stopped with
    | false => exact hget i hs
    | true => rw [get_stopped cfg s i hs]; exact ⟨hvw, hsh⟩
  | evict l i => cases l <;> exact ⟨hvw, ViewShows.of_heap (s := s) rfl hsh⟩
  | stop => exact ⟨hvw, ViewShows.of_heap (s := s) rfl hsh⟩

theorem CSteps.view {cfg : Cfg} (hp : cfg.Purges) {s s' : CLdb} {h h' : List Ver} (hi : CInv s h)
    (hst : CSteps cfg s h s' h') {vw : CView} (hvw : vw ∈ s.views) {X : Store} (hsh : ViewShows s vw X) :
    vw ∈ s'.views ∧ ViewShows s' vw X := by
  induction hst with
  | refl => exact ⟨hvw, hsh⟩
  | tail pre st ih => exact st.view hp (pre.inv hp hi) ih.1 ih.2

/-- `Get` of a non-zero identifier below the frontier that the cache-free manager serves takes the cached path: the
    answer is a pointer to an overlay object over the current snapshot, and the view is recorded -/
theorem get_hist_shape (cfg : Cfg) (s : CLdb) (i : Id) (hs : s.stopped = false) (hz : i.isZero = false)
    (hf : i ≠ s.ldb.frontierId) (hsome : s.ldb.get i ≠ none) :
    ∃ o, (s.get cfg i).2 = some (CRoot.hist o s.ldb.frontier) ∧
      (s.get cfg i).1.views = ⟨i, s.ldb.frontier, o⟩ :: s.views := by
  unfold CLdb.get
  unfold Ldb.get at hsome
  simp only [hs, hz, Bool.false_eq_true, if_false, if_neg hf] at hsome ⊢
  cases hd : edDecode (rget s.ldb.frontier (keyHeightByHash i.hash)) with
  | none => simp [hd] at hsome
  | some hb =>
    simp only [hd] at hsome ⊢
    by_cases hh : beVal hb = i.height
    · simp only [hh, ne_eq, not_true_eq_false, if_false]
      exact ⟨_, rfl, rfl⟩
    · simp [hh] at hsome

/-! ### whole runs: the cached manager against the cache-free manager -/

/-- one operation of the CACHE-FREE manager (`Ldb` + the stopped flag): evictions do nothing -/
def stepU (u : Ldb × Bool) : COp → (Ldb × Bool) × CAns
  | .add prev id ops =>
    if u.2 then (u, CAns.err)
    else match u.1.add prev id ops with
      | none => (u, CAns.err)
      | some l => ((l, u.2), CAns.ok)
  | .pop =>
    if u.2 then (u, CAns.err)
    else match u.1.pop with
      | none => (u, CAns.err)
      | some l => ((l, u.2), CAns.ok)
  | .get i => (u, CAns.view (if u.2 then none else u.1.get i))
  | .evict _ _ => (u, CAns.silent)
  | .stop => ((u.1, true), CAns.silent)

/-- the ghost history after one operation of the cache-free manager -/
def ghostU (h : List Ver) (u : Ldb × Bool) : COp → List Ver
  | .add prev id ops =>
    if u.2 = false ∧ prev = u.1.frontierId ∧ (u.1.add prev id ops).isSome = true then commitVer h id ops :: h else h
  | .pop => if u.2 = false ∧ u.1.pop.isSome = true then h.tail else h
  | _ => h

/-- side conditions of a run, stated on the cache-free manager: every commit on the frontier of a running manager has
    height = frontier height + 1 < 2^64, a hash not on the chain and user keys outside the hash index -/
def OpOkU (h : List Ver) (u : Ldb × Bool) : COp → Prop
  | .add prev id ops => u.2 = false → prev = u.1.frontierId → AddOk u.1.frontierId h id ops
  | _ => True

def ValidU : List Ver → Ldb × Bool → List COp → Prop
  | _, _, [] => True
  | h, u, op :: t => OpOkU h u op ∧ ValidU (ghostU h u op) (stepU u op).1 t

def answersU : Ldb × Bool → List COp → List CAns
  | _, [] => []
  | u, op :: t => (stepU u op).2 :: answersU (stepU u op).1 t

def answersC (cfg : Cfg) : CLdb → List COp → List CAns
  | _, [] => []
  | s, op :: t => (s.step cfg op).2 :: answersC cfg (s.step cfg op).1 t

theorem pop_eq {cfg : Cfg} (hp : cfg.Purges) (s : CLdb) (hs : s.stopped = false) :
    s.pop cfg = s.ldb.pop.map (fun l => { s with ldb := l, l1 := [], l2 := [] }) := by
  simp only [CLdb.pop, hs, Bool.false_eq_true, if_false, hp.1, hp.2, if_true]
  cases s.ldb.pop <;> rfl

/-- one operation: the cached manager answers what the cache-free manager answers on the projection, its new projection is
    the cache-free manager's new state, and the invariant is kept for the new ghost history -/
theorem step_sim {cfg : Cfg} (hp : cfg.Purges) {s : CLdb} {h : List Ver} (hi : CInv s h) (op : COp)
    (hv : OpOkU h (s.ldb, s.stopped) op) :
    (s.step cfg op).2 = (stepU (s.ldb, s.stopped) op).2 ∧
    ((s.step cfg op).1.ldb, (s.step cfg op).1.stopped) = (stepU (s.ldb, s.stopped) op).1 ∧
    CInv (s.step cfg op).1 (ghostU h (s.ldb, s.stopped) op) := by
  cases op with
  | add prev id ops =>
    cases hs : s.stopped with
    | true => simp [CLdb.step, stepU, ghostU, add_stopped cfg s prev id ops hs, hs, hi]
    | false =>
      have heq := hi.add_eq (cfg := cfg) hs prev id ops
      cases hl : s.ldb.add prev id ops with
      | none =>
        rw [hl] at heq
        simp [CLdb.step, stepU, ghostU, heq, hl, hs, hi]
      | some l =>
        rw [hl] at heq
        simp only [Option.map_some] at heq
        obtain ⟨_, _, hst, _⟩ := hi.get (cfg := cfg) hs prev
        have hinv : CInv { (s.get cfg prev).1 with ldb := l } (ghostU h (s.ldb, false) (.add prev id ops)) := by
          by_cases hpf : prev = s.ldb.frontierId
          · have hok : AddOk s.ldb.frontierId h id ops := hv hs hpf
            have hg : ghostU h (s.ldb, false) (.add prev id ops) = commitVer h id ops :: h := by
              simp [ghostU, hpf, hpf ▸ hl]
            rw [hg]
            exact CStep.inv hp hi (CStep.add hok (hpf ▸ heq))
          · have hg : ghostU h (s.ldb, false) (.add prev id ops) = h := by simp [ghostU, hpf]
            rw [hg]
            exact CStep.inv hp hi (CStep.addStale hpf heq)
        simp only [CLdb.step, heq, stepU, hl, Bool.false_eq_true, if_false]
        exact ⟨by first | rfl | trivial, by simp [hst], hinv⟩
  | pop =>
    cases hs : s.stopped with
    | true => simp [CLdb.step, stepU, ghostU, CLdb.pop, hs, hi]
    | false =>
      have heq := pop_eq hp s hs
      cases hl : s.ldb.pop with
      | none =>
        rw [hl] at heq
        simp [CLdb.step, stepU, ghostU, heq, hl, hs, hi]
      | some l =>
        rw [hl] at heq
        simp only [Option.map_some] at heq
        cases h with
        | nil => rw [hi.inv.inv0.pop_empty] at hl; cases hl
        | cons v h' =>
          have hinv := CStep.inv hp hi (CStep.pop heq)
          simp only [CLdb.step, heq, stepU, hl, Bool.false_eq_true, if_false, ghostU, Option.isSome_some, and_self,
            if_true, List.tail_cons]
          exact ⟨by first | rfl | trivial, by simp [hs], hinv⟩
  | get i =>
    cases hs : s.stopped with
    | true => simp [CLdb.step, stepU, ghostU, get_stopped cfg s i hs, hs, hi]
    | false =>
      obtain ⟨hinv, hldb, hst, hans, _⟩ := hi.get (cfg := cfg) hs i
      simp only [CLdb.step, stepU, ghostU, Bool.false_eq_true, if_false]
      exact ⟨by rw [hans], by rw [hldb, hst], hinv⟩
  | evict l i =>
    refine ⟨rfl, ?_, hi.evict l i⟩
    cases l <;> rfl
  | stop => exact ⟨rfl, rfl, hi.stop⟩

/-- whole runs: from an invariant state, every operation of every valid run gets the same answer from the cached manager
    as from the cache-free manager -/
theorem answersC_eq_answersU {cfg : Cfg} (hp : cfg.Purges) (ops : List COp) :
    ∀ {s : CLdb} {h : List Ver}, CInv s h → ValidU h (s.ldb, s.stopped) ops →
      answersC cfg s ops = answersU (s.ldb, s.stopped) ops := by
  induction ops with
  | nil => intro s h _ _; rfl
  | cons op t ih =>
    intro s h hi hv
    obtain ⟨ha, hproj, hinv⟩ := step_sim hp hi op hv.1
    simp only [answersC, answersU]
    rw [ha, ih hinv (by rw [hproj]; exact hv.2), hproj]

/-- a run with its evictions left out -/
def dropEvicts (ops : List COp) : List COp :=
  ops.filter (fun op => match op with | .evict _ _ => false | _ => true)

/-- the answers that say something (evictions and `Stop` are silent) -/
def loud (as : List CAns) : List CAns :=
  as.filter (fun a => match a with | .silent => false | _ => true)

theorem validU_dropEvicts (ops : List COp) : ∀ (h : List Ver) (u : Ldb × Bool),
    ValidU h u ops ↔ ValidU h u (dropEvicts ops) := by
  induction ops with
  | nil => intro h u; exact Iff.rfl
  | cons op t ih =>
    intro h u
    cases op with
    | evict l i =>
      have : dropEvicts (COp.evict l i :: t) = dropEvicts t := by simp [dropEvicts]
      rw [this, ← ih]
      simp [ValidU, OpOkU, ghostU, stepU]
    | add prev id ops =>
      have : dropEvicts (COp.add prev id ops :: t) = COp.add prev id ops :: dropEvicts t := by simp [dropEvicts]
      rw [this]; simp only [ValidU]; rw [ih]
    | pop =>
      have : dropEvicts (COp.pop :: t) = COp.pop :: dropEvicts t := by simp [dropEvicts]
      rw [this]; simp only [ValidU]; rw [ih]
    | get i =>
      have : dropEvicts (COp.get i :: t) = COp.get i :: dropEvicts t := by simp [dropEvicts]
      rw [this]; simp only [ValidU]; rw [ih]
    | stop =>
      have : dropEvicts (COp.stop :: t) = COp.stop :: dropEvicts t := by simp [dropEvicts]
      rw [this]; simp only [ValidU]; rw [ih]

theorem answersU_dropEvicts (ops : List COp) : ∀ (u : Ldb × Bool),
    loud (answersU u ops) = loud (answersU u (dropEvicts ops)) := by
  induction ops with
  | nil => intro u; rfl
  | cons op t ih =>
    intro u
    cases op with
    | evict l i =>
      have : dropEvicts (COp.evict l i :: t) = dropEvicts t := by simp [dropEvicts]
      rw [this, ← ih]
      simp [answersU, stepU, loud]
    | add prev id ops =>
      have : dropEvicts (COp.add prev id ops :: t) = COp.add prev id ops :: dropEvicts t := by simp [dropEvicts]
      rw [this]; simp only [answersU, loud, List.filter_cons]; rw [← loud, ← loud, ih]
    | pop =>
      have : dropEvicts (COp.pop :: t) = COp.pop :: dropEvicts t := by simp [dropEvicts]
      rw [this]; simp only [answersU, loud, List.filter_cons]; rw [← loud, ← loud, ih]
    | get i =>
      have : dropEvicts (COp.get i :: t) = COp.get i :: dropEvicts t := by simp [dropEvicts]
      rw [this]; simp only [answersU, loud, List.filter_cons]; rw [← loud, ← loud, ih]
    | stop =>
      have : dropEvicts (COp.stop :: t) = COp.stop :: dropEvicts t := by simp [dropEvicts]
      rw [this]; simp only [answersU, loud, List.filter_cons]; rw [← loud, ← loud, ih]

end ZV.VersionedCache
