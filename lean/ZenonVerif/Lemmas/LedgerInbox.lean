import ZenonVerif.Lemmas.LedgerFifo
/-
Contract receives (C09): balance delta of the contract, progress of the inbox, the refund path cannot fail.
-/
namespace ZV.Ledger

/-! ### balance of the contract across an accepted receive -/

theorem getBal_recvCore (s : State) (a : Addr) (h : Hash) (snd : Send) (a' : Addr) (t : Tok) :
    getBal (recvCore s a h snd).bal a' t = getBal s.bal a' t + (if (a, snd.tok) = (a', t) then snd.amt else 0) :=
  getBal_credit s a snd.tok snd.amt a' t

theorem pair_eq_iff (c : Addr) (x t : Tok) : ((c, x) = (c, t)) ↔ x = t := by
  constructor
  · intro h; cases h; rfl
  · intro h; rw [h]

theorem pair_ne_of_ne {a c : Addr} (h : a ≠ c) (x t : Tok) : ¬ ((c, x) = (a, t)) := by
  intro he; cases he; exact h rfl

/-- plain shape: the contract's balance of every token moves by + received − Σ descendants (no truncation: stated
    with additions only); nobody else's balance moves -/
theorem balance_plain {s s' : State} {c : Addr} {h : Hash} {snd : Send} {ds : List Desc}
    (hds : applyDescs (recvCore s c h snd) c ds = .ok s') :
    (∀ t, getBal s'.bal c t + descSum ds t = getBal s.bal c t + (if snd.tok = t then snd.amt else 0)) ∧
    (∀ a, a ≠ c → ∀ t, getBal s'.bal a t = getBal s.bal a t) := by
  constructor
  · intro t
    have h1 := getBal_applyDescs hds c t
    have h2 := getBal_recvCore s c h snd c t
    simp only [if_true, pair_eq_iff] at h1 h2
    omega
  · intro a ha t
    have h1 := getBal_applyDescs hds a t
    have h2 := getBal_recvCore s c h snd a t
    have hca : ¬ c = a := fun e => ha e.symm
    simp only [hca, if_false, pair_ne_of_ne ha] at h1 h2
    omega

/-- token-applied shape: additionally + minted − burned of `out.mintTok` -/
theorem balance_token {s s' : State} {c : Addr} {h : Hash} {snd : Send} {out : TokOutcome} {ds : List Desc}
    (hburn : out.burn ≤ getBal (tokMint (recvCore s c h snd) c out).bal c out.mintTok)
    (hds : applyDescs (tokApply (recvCore s c h snd) c out) c ds = .ok s') :
    (∀ t, getBal s'.bal c t + descSum ds t + (if out.mintTok = t then out.burn else 0)
        = getBal s.bal c t + (if snd.tok = t then snd.amt else 0) + (if out.mintTok = t then out.mint else 0)) ∧
    (∀ a, a ≠ c → ∀ t, getBal s'.bal a t = getBal s.bal a t) := by
  constructor
  · intro t
    have h1 := getBal_applyDescs hds c t
    have h2 := getBal_recvCore s c h snd c t
    have h3 : getBal (tokMint (recvCore s c h snd) c out).bal c t
        = getBal (recvCore s c h snd).bal c t + (if (c, out.mintTok) = (c, t) then out.mint else 0) :=
      getBal_credit (recvCore s c h snd) c out.mintTok out.mint c t
    have h4 : getBal (tokApply (recvCore s c h snd) c out).bal c t + (if (c, out.mintTok) = (c, t) then out.burn else 0)
        = getBal (tokMint (recvCore s c h snd) c out).bal c t :=
      getBal_debit (tokMint (recvCore s c h snd) c out) c out.mintTok out.burn c t hburn
    simp only [if_true, pair_eq_iff] at h1 h2 h3 h4
    omega
  · intro a ha t
    have h1 := getBal_applyDescs hds a t
    have h2 := getBal_recvCore s c h snd a t
    have h3 : getBal (tokMint (recvCore s c h snd) c out).bal a t
        = getBal (recvCore s c h snd).bal a t + (if (c, out.mintTok) = (a, t) then out.mint else 0) :=
      getBal_credit (recvCore s c h snd) c out.mintTok out.mint a t
    have h4 : getBal (tokApply (recvCore s c h snd) c out).bal a t + (if (c, out.mintTok) = (a, t) then out.burn else 0)
        = getBal (tokMint (recvCore s c h snd) c out).bal a t :=
      getBal_debit (tokMint (recvCore s c h snd) c out) c out.mintTok out.burn a t hburn
    have hca : ¬ c = a := fun e => ha e.symm
    simp only [hca, if_false, pair_ne_of_ne ha] at h1 h2 h3 h4
    omega

/-! ### the inbox advances -/

theorem contains_false_iff {l : List (Addr × Hash)} {m : Addr × Hash} : l.contains m = false ↔ m ∉ l := by
  rw [← Bool.not_eq_true, List.contains_iff_mem]

theorem nextInLine_spec {s : State} {c : Addr} {nxt : Send} (hnext : nextInLine s c = some nxt) :
    nxt ∈ s.sends ∧ nxt.dst = c ∧ (c, nxt.hash) ∉ s.recv := by
  have hmem := List.mem_of_find?_eq_some hnext
  have hp := List.find?_some hnext
  simp only [Bool.and_eq_true, beq_iff_eq, Bool.not_eq_true', contains_false_iff] at hp
  exact ⟨hmem, hp.1, hp.2⟩

/-- what is next in line passes the `fromHash` checks (distinct hashes: it is *the* send with that hash) -/
theorem nextInLine_checkFrom {s : State} (hw : WF s) {c : Addr} {nxt : Send} (hnext : nextInLine s c = some nxt) :
    checkFrom s c nxt.hash = .ok nxt := by
  obtain ⟨hmem, hdst, hnot⟩ := nextInLine_spec hnext
  exact checkFrom_ok.2 ⟨findSend_of_mem hw.sendHashes hmem, fun _ => hdst, hnot⟩

theorem filter_hash_ne_of_nodup {l : List Send} {x : Send} (hnd : ((x :: l).map (·.hash)).Nodup) :
    l.filter (fun y => !(y.hash == x.hash)) = l := by
  rw [List.filter_eq_self]
  intro y hy
  simp only [List.map_cons, List.nodup_cons] at hnd
  simp only [Bool.not_eq_true', beq_eq_false_iff_ne, ne_eq]
  intro he
  exact hnd.1 (he ▸ List.mem_map.2 ⟨y, hy, rfl⟩)

/-- after an accepted receive of `h` by `c` the pending queue of `c` is the old one without its head (which was `h`),
    followed by whatever the receive's own descendants address to `c` -/
theorem pending_advances {s s' : State} {c : Addr} {h : Hash} {st : Nat} {ds : List Desc}
    (hw : WF s) (hf : Fresh s (.crecv c h st ds)) (hok : crecv s c h st ds = .ok s') :
    (∃ nxt tl, pendingFor s c = nxt :: tl ∧ nxt.hash = h) ∧
    pendingFor s' c = (pendingFor s c).tail ++ (ds.map (mkSend c)).filter (fun x => x.dst == c) := by
  have hstep : step s (.crecv c h st ds) = .ok s' := hok
  obtain ⟨_, hsends, hrecv⟩ := step_frame hstep
  obtain ⟨nxt, hnext, hh⟩ := crecv_next hok
  obtain ⟨hmem, _, _⟩ := nextInLine_spec hnext
  rw [nextInLine_eq_head] at hnext
  obtain ⟨tl, hpend⟩ : ∃ tl, pendingFor s c = nxt :: tl := by
    cases hp : pendingFor s c with
    | nil => rw [hp] at hnext; cases hnext
    | cons x tl => rw [hp] at hnext; simp only [List.head?_cons, Option.some.injEq] at hnext; subst hnext; exact ⟨tl, rfl⟩
  refine ⟨⟨nxt, tl, hpend, hh⟩, ?_⟩
  have hpnd : ((pendingFor s c).map (·.hash)).Nodup := by
    have hsub : List.Sublist ((pendingFor s c).map (·.hash)) (s.sends.map (·.hash)) :=
      List.Sublist.map _ List.filter_sublist
    exact hsub.nodup hw.sendHashes
  -- the predicate of the new state, split into the old predicate and `hash ≠ h`
  have hpred : ∀ x : Send, (x.dst == c && !s'.recv.contains (c, x.hash))
      = (!(x.hash == h) && (x.dst == c && !s.recv.contains (c, x.hash))) := by
    intro x
    rw [hrecv]
    simp only [Ev.markers, List.cons_append, List.nil_append, List.contains_cons, Bool.not_or]
    have : ((c, x.hash) == (c, h)) = (x.hash == h) := by
      rw [Bool.eq_iff_iff]; simp
    rw [this]
    generalize (x.dst == c) = b1
    generalize (x.hash == h) = b2
    generalize (s.recv.contains (c, x.hash)) = b3
    cases b1 <;> cases b2 <;> cases b3 <;> rfl
  have hold : s.sends.filter (fun x => x.dst == c && !s'.recv.contains (c, x.hash)) = tl := by
    rw [List.filter_congr (fun x _ => hpred x), ← List.filter_filter]
    show (pendingFor s c).filter (fun y => !(y.hash == h)) = tl
    rw [hpend, ← hh, List.filter_cons]
    simp only [beq_self_eq_true, Bool.not_true, Bool.false_eq_true, if_false]
    rw [hpend] at hpnd
    exact filter_hash_ne_of_nodup hpnd
  have hnew : (ds.map (mkSend c)).filter (fun x => x.dst == c && !s'.recv.contains (c, x.hash))
      = (ds.map (mkSend c)).filter (fun x => x.dst == c) := by
    apply List.filter_congr
    intro x hx
    have hxh : x.hash ∈ ds.map (·.hash) := by
      obtain ⟨d, hd, rfl⟩ := List.mem_map.1 hx
      exact List.mem_map.2 ⟨d, hd, rfl⟩
    have hfresh : x.hash ∉ s.sends.map (·.hash) := hf.2 _ hxh
    have hne : (x.hash == h) = false := by
      simp only [beq_eq_false_iff_ne, ne_eq]
      intro he
      apply hfresh
      rw [he, ← hh]
      exact List.mem_map.2 ⟨nxt, hmem, rfl⟩
    have hnr : s.recv.contains (c, x.hash) = false := by
      rw [contains_false_iff]
      intro hm
      exact hfresh (hw.recvConfirmed _ hm)
    rw [hpred x, hne, hnr]
    simp
  show s'.sends.filter (fun x => x.dst == c && !s'.recv.contains (c, x.hash)) = _
  rw [hsends, List.filter_append, hold, hpend]
  simp only [List.tail_cons, Ev.newSends]
  rw [hnew]

/-! ### the refund path cannot fail -/

/-- the refund descendant the VM emits for a failed call (`rollbackEmbedded`): the full amount back to the sender,
    nothing for an empty send; `h'` is the hash of the descendant block -/
def refundDescs (snd : Send) (h' : Hash) : List Desc :=
  if snd.amt > 0 then [⟨snd.src, snd.tok, snd.amt, h', TokCall.none⟩] else []

theorem descShape_refundDescs (snd : Send) (h' : Hash) : descShape (refundDescs snd h') = refundOf snd := by
  unfold refundDescs refundOf descShape
  split <;> rfl

/-- a plain receive by a contract other than the token contract reduces to the descendant list -/
theorem crecv_of_plain {s : State} {c : Addr} {h : Hash} {st : Nat} {ds : List Desc} {nxt snd : Send}
    (hnext : nextInLine s c = some nxt) (hh : nxt.hash = h) (hchk : checkFrom s c h = .ok snd)
    (hc : c ≠ tokenContract) (hst : st = 1 ∨ st = 2) (href : st = 2 → descShape ds = refundOf snd) :
    crecv s c h st ds = applyDescs (recvCore s c h snd) c ds := by
  unfold crecv
  simp only [hnext]
  have h1 : (nxt.hash != h) = false := by simp [hh]
  have h2 : (st != 1 && st != 2) = false := by
    rcases hst with rfl | rfl <;> rfl
  have h3 : (c == tokenContract) = false := by simpa using hc
  simp only [h1, Bool.false_eq_true, if_false, hchk, bind, Except.bind, h2, h3]
  split
  · rename_i h4
    have h4 : st = 2 := by simpa using h4
    have h5 : (descShape ds != refundOf snd) = false := by simp [href h4]
    simp only [h5, Bool.false_eq_true, if_false]
    rfl
  · rfl

theorem refund_ok {s : State} (hw : WF s) {c : Addr} (hc : c ≠ tokenContract) {nxt : Send}
    (hnext : nextInLine s c = some nxt) (h' : Hash) :
    ∃ s', crecv s c nxt.hash 2 (refundDescs nxt h') = .ok s' := by
  have hchk := nextInLine_checkFrom hw hnext
  rw [crecv_of_plain hnext rfl hchk hc (Or.inr rfl) (fun _ => descShape_refundDescs nxt h')]
  unfold refundDescs
  split
  · rename_i hpos
    obtain ⟨hmem, _, _⟩ := nextInLine_spec hnext
    have hz : nxt.tok = zeroTok → nxt.amt = 0 := hw.zeroAmt nxt hmem
    have hle : nxt.amt ≤ getBal (recvCore s c nxt.hash nxt).bal c nxt.tok := by
      rw [getBal_recvCore]; simp
    rw [applyDescs_cons_of (applySend_of (h := h') (dst := nxt.src) (call := TokCall.none) hz hle)]
    exact ⟨_, rfl⟩
  · exact ⟨_, rfl⟩

end ZV.Ledger
