import ZenonVerif.Model.CodecRLP
import ZenonVerif.Lemmas.Codec
/-
Helper lemmas for C13: generic RLP items are decoded back from their canonical encoding.
-/
namespace ZV.Codec
open ZV

/-! ### minimal big-endian bytes: no leading zero -/

theorem natBytesLEAux_getLast : ∀ (f n : Nat), n ≤ f → n ≠ 0 →
    ∃ d, (natBytesLEAux f n).getLast? = some d ∧ d ≠ 0 := by
  intro f
  induction f with
  | zero => intro n h h0; omega
  | succ f ih =>
    intro n h h0
    unfold natBytesLEAux
    simp only [h0, if_false]
    by_cases hq : n / 256 = 0
    · have hlt : n < 256 := by
        rcases Nat.lt_or_ge n 256 with h' | h'
        · exact h'
        · have : 0 < n / 256 := Nat.div_pos h' (by decide)
          omega
      refine ⟨n % 256, ?_, by omega⟩
      rw [hq]
      cases f <;> simp [natBytesLEAux]
    · have hle : n / 256 ≤ f := by
        have : n / 256 < n := Nat.div_lt_self (by omega) (by decide)
        omega
      obtain ⟨d, hd, hd0⟩ := ih (n / 256) hle hq
      refine ⟨d, ?_, hd0⟩
      rw [List.getLast?_cons]
      simp [hd]

theorem natBytesBE_head (n : Nat) (h0 : n ≠ 0) : (natBytesBE n).headD 0 ≠ 0 := by
  obtain ⟨d, hd, hd0⟩ := natBytesLEAux_getLast n n (Nat.le_refl n) h0
  simp only [natBytesBE, List.headD_eq_head?_getD, List.head?_reverse, hd, Option.getD_some]
  exact hd0

theorem natBytesBE_length_pos (n : Nat) (h0 : n ≠ 0) : 0 < (natBytesBE n).length := by
  have := natBytesBE_length_gt n 0 (by simp; omega)
  exact this

theorem natBytesBE_length_le8 (n : Nat) (h : n < two64) : (natBytesBE n).length ≤ 8 :=
  natBytesBE_length_le n 8 (by have e : (256 : Nat) ^ 8 = two64 := by rfl
                               omega)

/-! ### `rlp.Split` on an encoded head + payload -/

theorem rlpReadLong_ok (isList : Bool) (n : Nat) (p rest : Bytes) (hn : 55 < n) (hp : p.length = n) :
    rlpReadLong isList (natBytesBE n).length (natBytesBE n ++ (p ++ rest)) = some (isList, p, rest) := by
  subst hp
  have h0 : p.length ≠ 0 := by omega
  have hh := natBytesBE_head p.length h0
  unfold rlpReadLong
  simp only [List.length_append, List.take_left', List.drop_left', beVal_natBytesBE]
  have h1 : ¬ ((natBytesBE p.length).length + (p.length + rest.length) < (natBytesBE p.length).length) := by omega
  have h3 : ¬ (p.length ≤ 55) := by omega
  have h4 : ¬ (p.length + rest.length < p.length) := by omega
  simp only [h1, hh, h3, h4, if_false]

theorem rlpSplit_long (base : Nat) (isList : Bool) (p rest : Bytes) (hlen : 55 < p.length) (hp : p.length < two64)
    (hb : (base = 128 ∧ isList = false) ∨ (base = 192 ∧ isList = true)) :
    rlpSplit (rlpHead base p.length ++ (p ++ rest)) = some (isList, p, rest) := by
  have hl8 := natBytesBE_length_le8 p.length hp
  have hl1 := natBytesBE_length_pos p.length (by omega)
  have hr := rlpReadLong_ok isList p.length p rest hlen rfl
  unfold rlpHead
  simp only [show ¬ (p.length ≤ 55) by omega, if_false, List.cons_append]
  unfold rlpSplit
  rcases hb with ⟨rfl, rfl⟩ | ⟨rfl, rfl⟩
  · have a1 : ¬ (128 + 55 + (natBytesBE p.length).length < 128) := by omega
    have a2 : ¬ (128 + 55 + (natBytesBE p.length).length ≤ 183) := by omega
    have a3 : 128 + 55 + (natBytesBE p.length).length ≤ 191 := by omega
    have a4 : 128 + 55 + (natBytesBE p.length).length - 183 = (natBytesBE p.length).length := by omega
    simp only [a1, a2, a3, a4, if_true, if_false, hr]
  · have a1 : ¬ (192 + 55 + (natBytesBE p.length).length < 128) := by omega
    have a2 : ¬ (192 + 55 + (natBytesBE p.length).length ≤ 183) := by omega
    have a3 : ¬ (192 + 55 + (natBytesBE p.length).length ≤ 191) := by omega
    have a3' : ¬ (192 + 55 + (natBytesBE p.length).length ≤ 247) := by omega
    have a5 : 192 + 55 + (natBytesBE p.length).length ≤ 255 := by omega
    have a4 : 192 + 55 + (natBytesBE p.length).length - 247 = (natBytesBE p.length).length := by omega
    simp only [a1, a2, a3, a3', a5, a4, if_true, if_false, hr]

theorem rlpSplit_list (p rest : Bytes) (hp : p.length < two64) :
    rlpSplit (rlpHead 192 p.length ++ (p ++ rest)) = some (true, p, rest) := by
  by_cases hlen : p.length ≤ 55
  · unfold rlpHead
    simp only [hlen, if_true, List.cons_append, List.nil_append]
    unfold rlpSplit
    have a1 : ¬ (192 + p.length < 128) := by omega
    have a2 : ¬ (192 + p.length ≤ 183) := by omega
    have a3 : ¬ (192 + p.length ≤ 191) := by omega
    have a4 : 192 + p.length ≤ 247 := by omega
    have a5 : 192 + p.length - 192 = p.length := by omega
    have a6 : ¬ ((p ++ rest).length < p.length) := by simp
    simp only [a1, a2, a3, a4, a5, a6, if_true, if_false, List.take_left', List.drop_left']
  · exact rlpSplit_long 192 true p rest (by omega) hp (Or.inr ⟨rfl, rfl⟩)

theorem rlpSplit_str (b rest : Bytes) (hb : b.length < two64) :
    rlpSplit (rlpStr b ++ rest) = some (false, b, rest) := by
  unfold rlpStr
  split
  · next x =>
    by_cases hx : x < 128
    · simp [hx, rlpSplit]
    · simp only [hx, if_false, rlpHead, show (1 : Nat) ≤ 55 by decide, if_true, List.cons_append, List.nil_append]
      unfold rlpSplit
      simp only [show ¬ (128 + 1 < 128) by decide, show 128 + 1 ≤ 183 by decide, if_true, if_false,
        show 128 + 1 - 128 = 1 by decide, List.length_cons, List.headD_cons]
      have : ¬ (rest.length + 1 < 1) := by omega
      simp [this, hx]
  · next hns =>
    by_cases hlen : b.length ≤ 55
    · unfold rlpHead
      simp only [hlen, if_true, List.cons_append, List.nil_append]
      unfold rlpSplit
      have a1 : ¬ (128 + b.length < 128) := by omega
      have a2 : 128 + b.length ≤ 183 := by omega
      have a5 : 128 + b.length - 128 = b.length := by omega
      have a6 : ¬ ((b ++ rest).length < b.length) := by simp
      have a7 : ¬ (b.length = 1 ∧ (b ++ rest).headD 0 < 128) := by
        intro ⟨h1, _⟩
        obtain ⟨x, hx⟩ := List.length_eq_one_iff.mp h1
        exact hns x hx
      simp only [a1, a2, a5, a6, a7, if_true, if_false, List.take_left', List.drop_left']
    · rw [List.append_assoc]
      exact rlpSplit_long 128 false b rest (by omega) hb (Or.inl ⟨rfl, rfl⟩)

theorem rlpStr_length_pos (b : Bytes) : 0 < (rlpStr b).length := by
  unfold rlpStr
  split
  · split <;> simp [rlpHead]
  · unfold rlpHead; split <;> simp

theorem rlpHead_length_pos (base n : Nat) : 0 < (rlpHead base n).length := by
  unfold rlpHead; split <;> simp

theorem rlpStr_length_ge (b : Bytes) : b.length ≤ (rlpStr b).length := by
  unfold rlpStr
  split
  · split <;> simp [rlpHead]
  · simp

/-! ### round trip -/

theorem rlpEnc_length_pos (x : RItem) : 0 < (rlpEnc x).length := by
  cases x with
  | str b => rw [rlpEnc]; exact rlpStr_length_pos b
  | list l =>
    rw [rlpEnc]
    have := rlpHead_length_pos 192 (rlpEncList l).length
    simp only [List.length_append]; omega

theorem rlp_roundtrip_aux (x : RItem) :
    ∀ (f : Nat) (rest : Bytes), (rlpEnc x).length < two64 → 2 * (rlpEnc x).length ≤ f + 1 →
      rlpDecItem f (rlpEnc x ++ rest) = some (x, rest) := by
  refine RItem.rec
    (motive_1 := fun x => ∀ (f : Nat) (rest : Bytes), (rlpEnc x).length < two64 → 2 * (rlpEnc x).length ≤ f + 1 →
      rlpDecItem f (rlpEnc x ++ rest) = some (x, rest))
    (motive_2 := fun l => ∀ (f : Nat), (rlpEncList l).length < two64 → 2 * (rlpEncList l).length ≤ f →
      rlpDecItems f (rlpEncList l) = some l)
    ?_ ?_ ?_ ?_ x
  · intro b f rest hlen hf
    rw [rlpEnc] at hlen hf ⊢
    have hpos := rlpStr_length_pos b
    cases f with
    | zero => omega
    | succ f =>
      rw [rlpDecItem, rlpSplit_str b rest (by have := rlpStr_length_ge b; omega)]
      rfl
  · intro l ih f rest hlen hf
    rw [rlpEnc] at hlen hf ⊢
    simp only [List.length_append] at hlen hf
    have hpos := rlpHead_length_pos 192 (rlpEncList l).length
    cases f with
    | zero => omega
    | succ f =>
      rw [rlpDecItem]
      simp only [List.append_assoc]
      rw [rlpSplit_list (rlpEncList l) rest (by omega)]
      simp only [Option.bind_eq_bind, Option.bind_some, if_true]
      rw [ih f (by omega) (by omega)]
      rfl
  · intro f _ _
    cases f <;> simp [rlpEncList, rlpDecItems]
  · intro x xs ihx ihxs f hlen hf
    rw [rlpEncList] at hlen hf ⊢
    simp only [List.length_append] at hlen hf
    have hpos := rlpEnc_length_pos x
    cases hc : rlpEnc x ++ rlpEncList xs with
    | nil =>
      have := congrArg List.length hc
      simp only [List.length_append, List.length_nil] at this; omega
    | cons y ys =>
      cases f with
      | zero => omega
      | succ f =>
        rw [rlpDecItems]
        · rw [← hc, ihx f (rlpEncList xs) (by omega) (by omega)]
          simp only [Option.bind_eq_bind, Option.bind_some]
          rw [ihxs f (by omega) (by omega)]
          rfl
        · intro h; cases h

theorem rlpDec_rlpEnc (x : RItem) (hlen : (rlpEnc x).length < two64) : rlpDec (rlpEnc x) = some x := by
  unfold rlpDec
  have := rlp_roundtrip_aux x (2 * (rlpEnc x).length) [] hlen (by omega)
  simp only [List.append_nil] at this
  rw [this]

end ZV.Codec
