import ZenonVerif.Lemmas.LedgerReach
/-
A concrete history used by the `example`s of C01 / C04 / C09 to show that the hypotheses of the invariant theorems
are satisfiable by a non-trivial reachable state: token issue + mint + burn through the token contract, a plain
transfer that is received, a call to another embedded contract that fails and is refunded.
-/
namespace ZV.Ledger

/-- run a list of events, checking admissibility and acceptance of each -/
def runAdm (s : State) : List Ev → Option State
  | [] => some s
  | e :: es =>
    if Admissible s e then
      match step s e with
      | .ok s' => runAdm s' es
      | .error _ => none
    else none

theorem reach_of_runAdm : ∀ (es : List Ev) (s s' : State), runAdm s es = some s' → Reach s s'
  | [], s, s', h => by simp only [runAdm, Option.some.injEq] at h; subst h; exact .refl
  | e :: es, s, s', h => by
    simp only [runAdm] at h
    split at h
    · rename_i ha
      split at h
      · rename_i s1 hs
        exact (Reach.step e .refl ha hs).trans (reach_of_runAdm es s1 s' h)
      · cases h
    · cases h

/-- user 16 issues token 5 (supply 50, max 80), receives it, pays 7 to user 17 who receives them, mints 20 more to 17
    (left in flight), calls embedded contract 3 with 2 tokens — the call fails and is refunded (refund left in
    flight) —, sends 10 to the token contract to burn them, and two more calls to contract 3 queue up -/
def demoEvents : List Ev :=
  [ .usend 16 tokenContract zeroTok 0 100 (.issue 50 80 true true),
    .crecv tokenContract 100 1 [⟨16, 5, 50, 101, .none⟩],
    .urecv 16 101,
    .usend 16 17 5 7 102 .none,
    .urecv 17 102,
    .usend 16 tokenContract zeroTok 0 103 (.mint 5 20 17),
    .crecv tokenContract 103 1 [⟨17, 5, 20, 104, .none⟩],
    .usend 16 3 5 2 105 .none,
    .crecv 3 105 2 [⟨16, 5, 2, 106, .none⟩],
    .usend 16 tokenContract 5 10 107 .burn,
    .crecv tokenContract 107 1 [],
    .usend 16 3 5 1 108 .none,
    .usend 17 3 5 1 109 .none ]

def demoFinal : State :=
  { bal := [((16, 0), 0), ((0, 0), 0), ((0, 5), 0), ((16, 5), 30), ((17, 5), 6), ((3, 5), 0)],
    sends := [⟨100, 16, 0, 0, 0, .issue 50 80 true true⟩, ⟨101, 0, 16, 5, 50, .none⟩, ⟨102, 16, 17, 5, 7, .none⟩,
              ⟨103, 16, 0, 0, 0, .mint 5 20 17⟩, ⟨104, 0, 17, 5, 20, .none⟩, ⟨105, 16, 3, 5, 2, .none⟩,
              ⟨106, 3, 16, 5, 2, .none⟩, ⟨107, 16, 0, 5, 10, .burn⟩, ⟨108, 16, 3, 5, 1, .none⟩, ⟨109, 17, 3, 5, 1, .none⟩],
    recv := [(0, 107), (3, 105), (0, 103), (17, 102), (16, 101), (0, 100)],
    toks := [(5, ⟨60, 80, true, true, 16⟩)],
    gate := true }

end ZV.Ledger
