import ZenonVerif.Lemmas.Contracts
import ZenonVerif.Model.ContractsJoint
/-
Lemmas for the joint machine of Model/ContractsJoint.lean: the frame condition `KeepsBacking`, its preservation by one
receive of any contract, and its proof for every modelled method.
-/
namespace ZV.ContractsJoint
open ZV.Contracts

/-- the frame condition asked of a method that is not modelled: it does not lower balance − liabilities, i.e. what
    the contract owes afterwards plus what the call pays out is covered by what it owed before plus the amount that came
    with the call (and it keeps the contract's storage invariant `I`, assumed for calls satisfying `okc`) -/
def KeepsBacking {σ : Type} (I : σ → Prop) (okc : Ctx → Prop) (owed : σ → Tok → Nat) (m : Method σ) : Prop :=
  MethodBackedI I okc owed m

abbrev noInv {σ : Type} : σ → Prop := fun _ => True
abbrev anyCtx : Ctx → Prop := fun _ => True

/-- the frame condition of a receive, by contract; the pillar contract's storage invariant is "an active pillar is
    recorded with the collateral that Revoke pays back", its calls are received at a non-zero frontier time -/
def Call.KeepsBacking (P : Params) : Call → Prop
  | .plasma m => ZV.ContractsJoint.KeepsBacking noInv anyCtx plasmaOwed m
  | .stake m => ZV.ContractsJoint.KeepsBacking noInv anyCtx stakeOwed m
  | .htlc m => ZV.ContractsJoint.KeepsBacking noInv anyCtx htlcOwed m
  | .pillar m => ZV.ContractsJoint.KeepsBacking (PillarInv P) (fun c => c.now ≠ 0) pillarOwed m
  | .sentinel m => ZV.ContractsJoint.KeepsBacking noInv anyCtx sentinelOwed m
  | .liquidity m => ZV.ContractsJoint.KeepsBacking noInv anyCtx liquidityOwed m
  | .bridge _ => True
  | .other => True

/-- every modelled contract holds what it owes, in every real token -/
structure JBacked (P : Params) (s : JState) : Prop where
  plasma : Backed plasmaOwed s.plasma (s.bal .plasma)
  stake : Backed stakeOwed s.stake (s.bal .stake)
  htlc : Backed htlcOwed s.htlc (s.bal .htlc)
  pillarInv : PillarInv P s.pillar
  pillar : Backed pillarOwed s.pillar (s.bal .pillar)
  sentinel : Backed sentinelOwed s.sentinel (s.bal .sentinel)
  liquidity : Backed liquidityOwed s.liquidity (s.bal .liquidity)

theorem keepsBacking_of_methodBacked {σ : Type} {owed : σ → Tok → Nat} {m : Method σ} (h : MethodBacked owed m) :
    KeepsBacking noInv anyCtx owed m :=
  fun st c st' ps _ _ hm => ⟨trivial, h st c st' ps hm⟩

theorem step_noInv {σ : Type} {owed : σ → Tok → Nat} {m : Method σ} (hm : KeepsBacking noInv anyCtx owed m)
    {st : σ} {bal : Bal} (c : Ctx) (h : Backed owed st bal) :
    Backed owed (vmStep m st bal c).st (vmStep m st bal c).bal :=
  (vmStep_backedI hm c trivial trivial h).2

@[simp] theorem setB_self (bal : CId → Bal) (i : CId) (b : Bal) : setB bal i b i = b := by simp [setB]
theorem setB_ne (bal : CId → Bal) {i j : CId} (h : j ≠ i) (b : Bal) : setB bal i b j = bal j := by simp [setB, h]

/-- one receive of any contract keeps every contract backed -/
theorem step_backed (P : Params) (s : JState) (x : Call × Ctx) (hk : x.1.KeepsBacking P) (hnow : x.2.now ≠ 0)
    (h : JBacked P s) : JBacked P (step s x) := by
  obtain ⟨call, c⟩ := x
  obtain ⟨h1, h2, h3, h4i, h4, h5, h6⟩ := h
  cases call with
  | plasma m =>
    have := step_noInv hk c h1
    exact ⟨by simpa [step] using this, by simpa [step, setB] using h2, by simpa [step, setB] using h3,
      by simpa [step] using h4i, by simpa [step, setB] using h4, by simpa [step, setB] using h5, by simpa [step, setB] using h6⟩
  | stake m =>
    have := step_noInv hk c h2
    exact ⟨by simpa [step, setB] using h1, by simpa [step] using this, by simpa [step, setB] using h3,
      by simpa [step] using h4i, by simpa [step, setB] using h4, by simpa [step, setB] using h5, by simpa [step, setB] using h6⟩
  | htlc m =>
    have := step_noInv hk c h3
    exact ⟨by simpa [step, setB] using h1, by simpa [step, setB] using h2, by simpa [step] using this,
      by simpa [step] using h4i, by simpa [step, setB] using h4, by simpa [step, setB] using h5, by simpa [step, setB] using h6⟩
  | pillar m =>
    have := vmStep_backedI hk c hnow h4i h4
    exact ⟨by simpa [step, setB] using h1, by simpa [step, setB] using h2, by simpa [step, setB] using h3,
      by simpa [step] using this.1, by simpa [step] using this.2, by simpa [step, setB] using h5, by simpa [step, setB] using h6⟩
  | sentinel m =>
    have := step_noInv hk c h5
    exact ⟨by simpa [step, setB] using h1, by simpa [step, setB] using h2, by simpa [step, setB] using h3,
      by simpa [step] using h4i, by simpa [step, setB] using h4, by simpa [step] using this, by simpa [step, setB] using h6⟩
  | liquidity m =>
    have := step_noInv hk c h6
    exact ⟨by simpa [step, setB] using h1, by simpa [step, setB] using h2, by simpa [step, setB] using h3,
      by simpa [step] using h4i, by simpa [step, setB] using h4, by simpa [step, setB] using h5, by simpa [step] using this⟩
  | bridge m =>
    exact ⟨by simpa [step, setB] using h1, by simpa [step, setB] using h2, by simpa [step, setB] using h3,
      by simpa [step] using h4i, by simpa [step, setB] using h4, by simpa [step, setB] using h5, by simpa [step, setB] using h6⟩
  | other => exact ⟨h1, h2, h3, h4i, h4, h5, h6⟩

theorem runJ_backed (P : Params) (tr : List (Call × Ctx)) (hk : ∀ x ∈ tr, x.1.KeepsBacking P) (hnow : ∀ x ∈ tr, x.2.now ≠ 0)
    (s : JState) (h : JBacked P s) : JBacked P (runJ s tr) := by
  induction tr generalizing s with
  | nil => exact h
  | cons x r ih =>
    exact ih (fun y hy => hk y (by simp [hy])) (fun y hy => hnow y (by simp [hy])) _
      (step_backed P s x (hk x (by simp)) (hnow x (by simp)) h)


/-! ### what the VM skeleton guarantees whatever the method does -/

/-- the contract's balance of every real token moves by + amount − Σ descendant sends (stated with additions only: no
    subtraction truncated, i.e. every descendant was funded), for ANY method -/
theorem vmStep_balance_law {σ : Type} (m : Method σ) (st : σ) (bal : Bal) (c : Ctx) {tok : Tok} (ht : tok ≠ zeroTok) :
    (vmStep m st bal c).bal.get tok + payTotal tok (vmStep m st bal c).descs
      = bal.get tok + (if tok = c.token then c.amount else 0) := by
  have hrefund : (if c.amount > 0 then (bal.set c.token (bal.get c.token + c.amount)).set c.token
          ((bal.set c.token (bal.get c.token + c.amount)).get c.token - c.amount)
        else bal.set c.token (bal.get c.token + c.amount)).get tok + payTotal tok (refundOf c)
      = bal.get tok + (if tok = c.token then c.amount else 0) := by
    unfold refundOf
    by_cases hc : tok = c.token
    · subst hc
      split <;> simp [Bal.get_set_self, payTotal] <;> omega
    · have hc' : ¬ c.token = tok := fun e => hc e.symm
      split <;> simp [Bal.get_set_ne _ hc, payTotal, hc']
  unfold vmStep
  cases hmc : m st c with
  | none => simpa using hrefund
  | some r =>
    obtain ⟨st', ps⟩ := r
    simp only
    cases hap : applyPayouts (bal.set c.token (bal.get c.token + c.amount)) ps with
    | none => simpa using hrefund
    | some bal2 =>
      simp only
      have e := applyPayouts_get hap ht
      by_cases hc : tok = c.token
      · subst hc
        simp [Bal.get_set_self] at e ⊢
        omega
      · simp [Bal.get_set_ne _ hc, hc] at e ⊢
        omega

/-- a refused call (status 2) leaves the storage as it was and emits exactly the refund -/
theorem vmStep_refused {σ : Type} (m : Method σ) (st : σ) (bal : Bal) (c : Ctx) (h : (vmStep m st bal c).status = 2) :
    (vmStep m st bal c).st = st ∧ (vmStep m st bal c).descs = refundOf c := by
  unfold vmStep at h ⊢
  cases hmc : m st c with
  | none => simp
  | some r =>
    obtain ⟨st', ps⟩ := r
    simp only [hmc] at h ⊢
    cases hap : applyPayouts (bal.set c.token (bal.get c.token + c.amount)) ps with
    | none => simp
    | some bal2 => simp [hap] at h

/-- an applied call (status 1) stores the method's result and emits the method's descendants -/
theorem vmStep_applied {σ : Type} (m : Method σ) (st : σ) (bal : Bal) (c : Ctx) (h : (vmStep m st bal c).status = 1) :
    m st c = some ((vmStep m st bal c).st, (vmStep m st bal c).descs) := by
  unfold vmStep at h ⊢
  cases hmc : m st c with
  | none => simp [hmc] at h
  | some r =>
    obtain ⟨st', ps⟩ := r
    simp only [hmc] at h ⊢
    cases hap : applyPayouts (bal.set c.token (bal.get c.token + c.amount)) ps with
    | none => simp [hap] at h
    | some bal2 => simp

theorem vmStep_status {σ : Type} (m : Method σ) (st : σ) (bal : Bal) (c : Ctx) :
    (vmStep m st bal c).status = 1 ∨ (vmStep m st bal c).status = 2 := by
  unfold vmStep
  cases m st c with
  | none => exact Or.inr rfl
  | some r =>
    obtain ⟨st', ps⟩ := r
    simp only
    cases applyPayouts (bal.set c.token (bal.get c.token + c.amount)) ps with
    | none => exact Or.inr rfl
    | some bal2 => exact Or.inl rfl

/-! ### the frame condition of the methods modelled in Model/ContractsJoint.lean -/

/-- descendant blocks that carry no amount (Mint calls to the token contract) -/
theorem payTotal_map_zero {α : Type} (tok : Tok) (f : α → Payout) (hf : ∀ a, (f a).amt = 0) (l : List α) :
    payTotal tok (l.map f) = 0 := by
  induction l with
  | nil => rfl
  | cons a r ih => simp [payTotal, hf a, ih]

/-- a method that writes none of the entries and pays nothing out of the balance -/
theorem keepsBacking_frame {σ : Type} {I : σ → Prop} {okc : Ctx → Prop} {owed : σ → Tok → Nat} {m : Method σ}
    (hm : ∀ st c st' ps, m st c = some (st', ps) → st' = st ∧ ∀ tok, payTotal tok ps = 0) :
    KeepsBacking I okc owed m := by
  intro st c st' ps hI _ h
  obtain ⟨e, hp⟩ := hm st c st' ps h
  subst e
  exact ⟨hI, fun tok => by rw [hp tok]; omega⟩

theorem donate_keepsBacking {σ : Type} (I : σ → Prop) (okc : Ctx → Prop) (owed : σ → Tok → Nat) :
    KeepsBacking I okc owed (donate : Method σ) :=
  keepsBacking_frame fun st c st' ps h => by
    simp only [donate, Option.some.injEq, Prod.mk.injEq] at h
    exact ⟨h.1.symm, fun tok => by rw [← h.2]; rfl⟩

theorem rewardUpdate_keepsBacking {σ : Type} (I : σ → Prop) (okc : Ctx → Prop) (owed : σ → Tok → Nat) (ok : Bool) :
    KeepsBacking I okc owed (rewardUpdate ok : Method σ) :=
  keepsBacking_frame fun st c st' ps h => by
    unfold rewardUpdate at h
    split at h
    · cases h
    · split at h
      · simp only [Option.some.injEq, Prod.mk.injEq] at h
        exact ⟨h.1.symm, fun tok => by rw [← h.2]; rfl⟩
      · cases h

theorem collectReward_keepsBacking {σ : Type} (I : σ → Prop) (okc : Ctx → Prop) (owed : σ → Tok → Nat) (rw : List (Tok × Nat)) :
    KeepsBacking I okc owed (collectReward rw : Method σ) :=
  keepsBacking_frame fun st c st' ps h => by
    unfold collectReward at h
    split at h
    · cases h
    · split at h
      · cases h
      · simp only [Option.some.injEq, Prod.mk.injEq] at h
        exact ⟨h.1.symm, fun tok => by rw [← h.2]; exact payTotal_map_zero tok _ (fun _ => rfl) rw⟩

/-! ### deletion of cancelled stake entries by a reward epoch -/

theorem total_sweepStake_le (f : StakeE → Nat) (endT : Int) (l : List ((Addr × Hash) × StakeE)) :
    total f (sweepStake endT l) ≤ total f l := by
  induction l with
  | nil => exact Nat.le_refl _
  | cons x r ih =>
    obtain ⟨k, e⟩ := x
    simp only [sweepStake]
    split <;> simp only [total] <;> omega

theorem total_sweeps_le (f : StakeE → Nat) (ends : List Int) (l : List ((Addr × Hash) × StakeE)) :
    total f (ends.foldl (fun l e => sweepStake e l) l) ≤ total f l := by
  induction ends generalizing l with
  | nil => exact Nat.le_refl _
  | cons e r ih => exact Nat.le_trans (ih _) (total_sweepStake_le f e l)

/-- every stake entry that has been paid out is recorded with amount 0 -/
def StakeInv (s : Stake) : Prop := ∀ x ∈ s.entries, x.2.revoke ≠ 0 → x.2.amount = 0

/-- the deletion pass removes nothing that is owed: with `StakeInv` the liability sum is exactly what it was -/
theorem total_sweepStake_eq (endT : Int) (l : List ((Addr × Hash) × StakeE))
    (h : ∀ x ∈ l, x.2.revoke ≠ 0 → x.2.amount = 0) :
    total (·.amount) (sweepStake endT l) = total (·.amount) l := by
  induction l with
  | nil => rfl
  | cons x r ih =>
    obtain ⟨k, e⟩ := x
    have hr := ih (fun y hy => h y (by simp [hy]))
    simp only [sweepStake]
    split
    · rename_i hc
      have : e.amount = 0 := h (k, e) (by simp) hc.1
      simp only [total, this, hr]; omega
    · simp only [total, hr]

theorem mem_sweepStake {endT : Int} {l : List ((Addr × Hash) × StakeE)} {x : (Addr × Hash) × StakeE}
    (h : x ∈ sweepStake endT l) : x ∈ l := by
  induction l with
  | nil => simp [sweepStake] at h
  | cons y r ih =>
    obtain ⟨k, e⟩ := y
    simp only [sweepStake] at h
    split at h
    · exact List.mem_cons_of_mem _ (ih h)
    · rcases List.mem_cons.1 h with e1 | e1
      · subst e1; exact List.mem_cons_self ..
      · exact List.mem_cons_of_mem _ (ih e1)

/-- an entry that has not been cancelled survives the deletion pass: same key, same content -/
theorem lookup_sweepStake_active (endT : Int) (l : List ((Addr × Hash) × StakeE)) (k : Addr × Hash) (e : StakeE)
    (hl : lookup k l = some e) (ha : e.revoke = 0) : lookup k (sweepStake endT l) = some e := by
  induction l with
  | nil => simp [lookup] at hl
  | cons y r ih =>
    obtain ⟨k', e'⟩ := y
    simp only [lookup] at hl
    split at hl
    · rename_i hk
      cases hl
      subst hk
      simp [sweepStake, ha, lookup]
    · rename_i hk
      simp only [sweepStake]
      split
      · exact ih hl
      · simp only [lookup, hk, if_false]; exact ih hl

theorem stakeUpdate_keepsBacking (ends : List Int) : KeepsBacking noInv anyCtx stakeOwed (stakeUpdate ends) := by
  intro st c st' ps _ _ h
  unfold stakeUpdate at h
  split at h
  · cases h
  · simp only [Option.some.injEq, Prod.mk.injEq] at h
    obtain ⟨hs, hp⟩ := h
    subst hs; subst hp
    refine ⟨trivial, fun tok => ?_⟩
    have := total_sweeps_le (·.amount) ends st.entries
    simp only [stakeOwed, Stake.owed, payTotal]
    split <;> omega

theorem total_sweepLStake_le (f : LStakeE → Nat) (endT : Int) (l : List ((Addr × Hash) × LStakeE)) :
    total f (sweepLStake endT l) ≤ total f l := by
  induction l with
  | nil => exact Nat.le_refl _
  | cons x r ih =>
    obtain ⟨k, e⟩ := x
    simp only [sweepLStake]
    split <;> simp only [total] <;> omega

theorem total_lsweeps_le (f : LStakeE → Nat) (ends : List Int) (l : List ((Addr × Hash) × LStakeE)) :
    total f (ends.foldl (fun l e => sweepLStake e l) l) ≤ total f l := by
  induction ends generalizing l with
  | nil => exact Nat.le_refl _
  | cons e r ih => exact Nat.le_trans (ih _) (total_sweepLStake_le f e l)

theorem liquidityUpdate_keepsBacking (ends : List Int) (mints : List (Tok × Nat × Addr)) :
    KeepsBacking noInv anyCtx liquidityOwed (liquidityUpdate ends mints) := by
  intro st c st' ps _ _ h
  unfold liquidityUpdate at h
  split at h
  · cases h
  · simp only [Option.some.injEq, Prod.mk.injEq] at h
    obtain ⟨hs, hp⟩ := h
    subst hs; subst hp
    refine ⟨trivial, fun tok => ?_⟩
    have := total_lsweeps_le (fun e => if e.tok = tok then e.amount else 0) ends st.entries
    rw [payTotal_map_zero tok _ (fun _ => rfl) mints]
    simp only [liquidityOwed]
    omega

/-! ### legacy pillar registration -/

theorem registerLegacyPillar_spec {P : Params} {name : Hash} {producer reward : Addr} {pb pd : Nat} {ok slot : Bool}
    {s s' : Pillar} {c : Ctx} {ps : List Payout}
    (h : registerLegacyPillar P name producer reward pb pd ok slot s c = some (s', ps)) :
    c.token = znnTok ∧ c.amount = P.pillarStakeAmount ∧ lookup name s.pillars = none ∧ slot = true ∧
    ∃ d', consumeQsr s.deposits c.sender P.pillarQsrBase = some d' ∧
      s' = { s with pillars := put name ⟨c.sender, P.pillarStakeAmount, c.now, 0, producer, reward, ZV.Gen.LegacyPillarType, pb, pd⟩ s.pillars,
                    producing := put producer name s.producing, deposits := d' } ∧
      ps = [⟨tokenContract, qsrTok, P.pillarQsrBase, .burn⟩] := by
  unfold registerLegacyPillar at h
  split at h
  · cases h
  · split at h
    · cases h
    · split at h
      · cases h
      · rename_i h3
        split at h
        · cases h
        · rename_i hslot
          split at h
          · cases h
          · rename_i h4
            split at h
            · cases h
            · split at h
              · cases h
              · rename_i d' hd
                simp only [Option.some.injEq, Prod.mk.injEq] at h
                refine ⟨Decidable.byContradiction fun hn => h3 (Or.inl hn), Decidable.byContradiction fun hn => h3 (Or.inr hn), ?_, ?_, d', hd, h.1.symm, h.2.symm⟩
                · cases hl : lookup name s.pillars with
                  | none => rfl
                  | some v => simp [hl] at h4
                · cases slot with
                  | true => rfl
                  | false => simp at hslot

theorem registerLegacyPillar_keepsBacking (P : Params) (name : Hash) (producer reward : Addr) (pb pd : Nat) (ok slot : Bool) :
    KeepsBacking (PillarInv P) (fun c => c.now ≠ 0) pillarOwed (registerLegacyPillar P name producer reward pb pd ok slot) := by
  intro st c st' ps hI _ h
  obtain ⟨ht, ha, _, _, d', hd, hs, hp⟩ := registerLegacyPillar_spec h
  subst hs; subst hp
  have hcons := consumeQsr_law hd
  refine ⟨?_, pillar_law_of ?_ ?_ ?_⟩
  · intro x hx hrev
    rcases mem_put hx with e | e
    · subst e; rfl
    · exact hI x e hrev
  · have := total_put_le (fun e : PillarE => e.amount) name
      ⟨c.sender, P.pillarStakeAmount, c.now, 0, producer, reward, ZV.Gen.LegacyPillarType, pb, pd⟩ st.pillars
    simp [payTotal, ht, ha, znnTok, qsrTok] at this ⊢; omega
  · simp [payTotal, ht, znnTok, qsrTok]; omega
  · intro tok h1 h2
    have : qsrTok ≠ tok := fun e => h2 e.symm
    simp [payTotal, this]

/-- every modelled method obeys the frame condition -/
theorem modelled_keepsBacking (P : Params) (H : HashFn) {call : Call} (h : call.Modelled P H) : call.KeepsBacking P := by
  cases h with
  | plasma op => exact keepsBacking_of_methodBacked (plasma_methodBacked P op)
  | plasmaDonate => exact donate_keepsBacking _ _ _
  | stake op => exact keepsBacking_of_methodBacked (stake_methodBacked P op)
  | stakeUpdate ends => exact stakeUpdate_keepsBacking ends
  | stakeCollect rw => exact collectReward_keepsBacking _ _ _ rw
  | stakeDonate => exact donate_keepsBacking _ _ _
  | htlc op => exact keepsBacking_of_methodBacked (htlc_methodBacked H op)
  | htlcDonate => exact donate_keepsBacking _ _ _
  | pillar op => exact pillar_methodBackedI P op
  | pillarLegacy name producer reward pb pd nameOk slotOk => exact registerLegacyPillar_keepsBacking P name producer reward pb pd nameOk slotOk
  | pillarUpdate ok => exact rewardUpdate_keepsBacking _ _ _ ok
  | pillarCollect rw => exact collectReward_keepsBacking _ _ _ rw
  | pillarDonate => exact donate_keepsBacking _ _ _
  | sentinel op => exact keepsBacking_of_methodBacked (sentinel_methodBacked P op)
  | sentinelUpdate ok => exact rewardUpdate_keepsBacking _ _ _ ok
  | sentinelCollect rw => exact collectReward_keepsBacking _ _ _ rw
  | sentinelDonate => exact donate_keepsBacking _ _ _
  | liquidity op => exact keepsBacking_of_methodBacked (liquidity_methodBacked P op)
  | liquidityUpdate ends mints => exact liquidityUpdate_keepsBacking ends mints
  | liquidityCollect rw => exact collectReward_keepsBacking _ _ _ rw
  | liquidityDonate => exact donate_keepsBacking _ _ _
  | bridge m => exact trivial
  | other => exact trivial

end ZV.ContractsJoint
