import ZenonVerif.Model.CodecJson
import ZenonVerif.Lemmas.CodecText
/-
Helper lemmas and well-formedness predicates for Props/C13Json.lean.
-/
namespace ZV.CodecJson
open ZV ZV.Codec ZV.JsonRpc

/-- what the Go types of `types.HashHeight` guarantee -/
structure HHJ (h : HashHeight) : Prop where
  hash : h.hash.WF ∧ h.hash.length = Gen.HashSize
  height : h.height < two64

/-- what the Go types of the members of `nom.AccountBlock` guarantee: byte values < 256, array widths
    32 / 20 / 10 / 8, uint64 ranges. Nothing is asked of the amount (any integer, negative ones too). -/
structure BodyJ (b : ABody) : Prop where
  version : b.version < two64
  chainIdentifier : b.chainIdentifier < two64
  blockType : b.blockType < two64
  hash : b.hash.WF ∧ b.hash.length = Gen.HashSize
  previousHash : b.previousHash.WF ∧ b.previousHash.length = Gen.HashSize
  height : b.height < two64
  momentumAcknowledged : HHJ b.momentumAcknowledged
  address : b.address.WF ∧ b.address.length = Gen.AddressSize
  toAddress : b.toAddress.WF ∧ b.toAddress.length = Gen.AddressSize
  tokenStandard : b.tokenStandard.WF ∧ b.tokenStandard.length = Gen.ZtsSize
  fromBlockHash : b.fromBlockHash.WF ∧ b.fromBlockHash.length = Gen.HashSize
  data : b.data.WF
  fusedPlasma : b.fusedPlasma < two64
  difficulty : b.difficulty < two64
  nonce : b.nonce.WF ∧ b.nonce.length = 8
  basePlasma : b.basePlasma < two64
  totalPlasma : b.totalPlasma < two64
  changesHash : b.changesHash.WF ∧ b.changesHash.length = Gen.HashSize
  publicKey : b.publicKey.WF
  signature : b.signature.WF

mutual
def BlockJ : Block → Prop
  | ⟨body, ds⟩ => BodyJ body ∧ BlocksJ ds
def BlocksJ : List Block → Prop
  | [] => True
  | d :: ds => BlockJ d ∧ BlocksJ ds
end

structure HeaderJ (h : AccountHeader) : Prop where
  address : h.address.WF ∧ h.address.length = Gen.AddressSize
  hash : h.hash.WF ∧ h.hash.length = Gen.HashSize
  height : h.height < two64

structure MomentumJ (m : Momentum) : Prop where
  version : m.version < two64
  chainIdentifier : m.chainIdentifier < two64
  hash : m.hash.WF ∧ m.hash.length = Gen.HashSize
  previousHash : m.previousHash.WF ∧ m.previousHash.length = Gen.HashSize
  height : m.height < two64
  timestampUnix : m.timestampUnix < two64
  data : m.data.WF
  content : ∀ h ∈ m.content, HeaderJ h
  changesHash : m.changesHash.WF ∧ m.changesHash.length = Gen.HashSize
  publicKey : m.publicKey.WF
  signature : m.signature.WF

theorem parseU64_natLit (n : Nat) (h : n < two64) : parseU64 (natLit n) = some n := by
  have hne := natDigitsLE_ne_nil n n
  have hp := parse_show_nat n
  rw [List.map_reverse] at hp
  simp [parseU64, natLit, hne, hp, h]

theorem decU64_u64J (n cur : Nat) (h : n < two64) : decU64 (u64J n) cur = .ok n := by
  simp [decU64, u64J, parseU64_natLit n h]

theorem decString_amount (a : Int) (cur : String) : decString (amountJ a) cur = .ok (String.ofList (showAmount a)) := rfl
theorem decString_nonce (n : Bytes) (cur : String) : decString (nonceJ n) cur = .ok (String.ofList (hexChars n)) := rfl

theorem decText_ok (parse : String → Option Bytes) (e : Err) (s : String) (x cur : Bytes) (h : parse s = some x) :
    decText parse e (.str s) cur = .ok x := by
  simp [decText, h]

theorem decBytes_ok (L : Leaves) (hL : L.WF) (x : Bytes) (h : x.WF) : decBytes L (.str (L.b64Text x)) = .ok x := by
  simp [decBytes, hL.b64 x h]

theorem decHashHeight_mar (L : Leaves) (hL : L.WF) (h cur : HashHeight) (w : HHJ h) :
    decHashHeight L (marHashHeight L h) cur = .ok h := by
  have h1 : fieldOf hhTags "hash" = some .hash := by decide
  have h2 : fieldOf hhTags "height" = some .height := by decide
  simp [decHashHeight, marHashHeight, hhFill, h1, h2, decText_ok _ _ _ _ _ (hL.hash _ w.hash.1 w.hash.2),
    decU64_u64J _ _ w.height, bind, Except.bind]

theorem marshalBlock_obj (L : Leaves) (b : Block) : ∃ ms, marshalBlock L b = .obj ms := by
  cases b; simp [marshalBlock]

theorem unmBlocks_cons_ok (L : Leaves) (ms : List (String × Json)) (js : List Json) (b : Block)
    (r : List Block × Bool) (h1 : unmarshalBlock L (.obj ms) = .ok b) (h2 : unmBlocks L js = .ok r) :
    unmBlocks L (.obj ms :: js) = .ok (b :: r.1, r.2) := by
  rw [unmBlocks]
  · simp [h1, h2, bind, Except.bind, pure, Except.pure]
  · intro h; cases h

end ZV.CodecJson

namespace ZV.CodecJson
open ZV ZV.Codec ZV.JsonRpc

theorem stringToBigInt_showAmount (a : Int) : stringToBigInt (showAmount a) = a := by
  simp [stringToBigInt, setString10_showAmount]

theorem decHeader_mar (L : Leaves) (hL : L.WF) (h : AccountHeader) (cur : Option AccountHeader) (w : HeaderJ h) :
    decHeader L (marHeader L h) cur = .ok (some h) := by
  have h1 : fieldOf ahTags "address" = some .address := by decide
  have h2 : fieldOf ahTags "hash" = some .hash := by decide
  have h3 : fieldOf ahTags "height" = some .height := by decide
  simp [decHeader, marHeader, ahFill, h1, h2, h3, decText_ok _ _ _ _ _ (hL.hash _ w.hash.1 w.hash.2),
    decText_ok _ _ _ _ _ (hL.addr _ w.address.1 w.address.2), decU64_u64J _ _ w.height, bind, Except.bind,
    pure, Except.pure]

theorem decHeaders_mar (L : Leaves) (hL : L.WF) : ∀ (c : List AccountHeader) (cur : List (Option AccountHeader)),
    (∀ h ∈ c, HeaderJ h) → decHeaders L (c.map (marHeader L)) cur = .ok (c.map some) := by
  intro c
  induction c with
  | nil => intro cur _; simp [decHeaders]
  | cons h t ih =>
    intro cur w
    simp [decHeaders, decHeader_mar L hL h _ (w h (by simp)), ih cur.tail (fun x hx => w x (by simp [hx])),
      bind, Except.bind, pure, Except.pure]

theorem allSome_map_some : ∀ c : List AccountHeader, allSome (c.map some) = some c := by
  intro c
  induction c with
  | nil => rfl
  | cons h t ih => simp [allSome, ih]

/-- the Go type of every member: which decoder of the model stands for it -/
def abGoType : AF → String
  | .version | .chainIdentifier | .blockType | .height | .fusedPlasma | .difficulty | .basePlasma
  | .totalPlasma => "uint64"
  | .hash | .previousHash | .fromBlockHash | .changesHash => "types.Hash"
  | .momentumAcknowledged => "types.HashHeight"
  | .address | .toAddress => "types.Address"
  | .amount | .nonce => "string"
  | .tokenStandard => "types.ZenonTokenStandard"
  | .descendantBlocks => "[]*AccountBlock"
  | .data | .signature => "[]byte"
  | .publicKey => "ed25519.PublicKey"

def momGoType : MF → String
  | .version | .chainIdentifier | .height | .timestamp => "uint64"
  | .hash | .previousHash | .changesHash => "types.Hash"
  | .data | .signature => "[]byte"
  | .content => "MomentumContent"
  | .publicKey => "ed25519.PublicKey"

/-- members that take part in JSON: tagged, and the tag is not "-" -/
def jsonVisible (ms : List (String × String × String)) : List (String × String) :=
  (ms.filter (fun m => m.2.1 ≠ "" ∧ m.2.1 ≠ "-")).map (fun m => (m.2.1, m.2.2))

/-- the members of an object with the ones named `k` (exactly) removed -/
def dropMember (k : String) : Json → Json
  | .obj ms => .obj (ms.filter (fun kv => kv.1 ≠ k))
  | j => j

/-- the body with one member at its Go zero value -/
def zeroField : AF → Block → Block
  | .version, ⟨b, ds⟩ => ⟨{ b with version := 0 }, ds⟩
  | .chainIdentifier, ⟨b, ds⟩ => ⟨{ b with chainIdentifier := 0 }, ds⟩
  | .blockType, ⟨b, ds⟩ => ⟨{ b with blockType := 0 }, ds⟩
  | .hash, ⟨b, ds⟩ => ⟨{ b with hash := zeros Gen.HashSize }, ds⟩
  | .previousHash, ⟨b, ds⟩ => ⟨{ b with previousHash := zeros Gen.HashSize }, ds⟩
  | .height, ⟨b, ds⟩ => ⟨{ b with height := 0 }, ds⟩
  | .momentumAcknowledged, ⟨b, ds⟩ => ⟨{ b with momentumAcknowledged := hhZero }, ds⟩
  | .address, ⟨b, ds⟩ => ⟨{ b with address := zeros Gen.AddressSize }, ds⟩
  | .toAddress, ⟨b, ds⟩ => ⟨{ b with toAddress := zeros Gen.AddressSize }, ds⟩
  | .amount, ⟨b, ds⟩ => ⟨{ b with amount := 0 }, ds⟩
  | .tokenStandard, ⟨b, ds⟩ => ⟨{ b with tokenStandard := zeros Gen.ZtsSize }, ds⟩
  | .fromBlockHash, ⟨b, ds⟩ => ⟨{ b with fromBlockHash := zeros Gen.HashSize }, ds⟩
  | .descendantBlocks, ⟨b, _⟩ => ⟨b, []⟩
  | .data, ⟨b, ds⟩ => ⟨{ b with data := [] }, ds⟩
  | .fusedPlasma, ⟨b, ds⟩ => ⟨{ b with fusedPlasma := 0 }, ds⟩
  | .difficulty, ⟨b, ds⟩ => ⟨{ b with difficulty := 0 }, ds⟩
  | .nonce, ⟨b, ds⟩ => ⟨{ b with nonce := zeros Gen.NonceSize }, ds⟩
  | .basePlasma, ⟨b, ds⟩ => ⟨{ b with basePlasma := 0 }, ds⟩
  | .totalPlasma, ⟨b, ds⟩ => ⟨{ b with totalPlasma := 0 }, ds⟩
  | .changesHash, ⟨b, ds⟩ => ⟨{ b with changesHash := zeros Gen.HashSize }, ds⟩
  | .publicKey, ⟨b, ds⟩ => ⟨{ b with publicKey := [] }, ds⟩
  | .signature, ⟨b, ds⟩ => ⟨{ b with signature := [] }, ds⟩

/-- the Go member behind a JSON member of the block -/
def goFieldOf : AF → String
  | .version => "Version" | .chainIdentifier => "ChainIdentifier" | .blockType => "BlockType" | .hash => "Hash"
  | .previousHash => "PreviousHash" | .height => "Height" | .momentumAcknowledged => "MomentumAcknowledged"
  | .address => "Address" | .toAddress => "ToAddress" | .amount => "Amount" | .tokenStandard => "TokenStandard"
  | .fromBlockHash => "FromBlockHash" | .descendantBlocks => "DescendantBlocks" | .data => "Data"
  | .fusedPlasma => "FusedPlasma" | .difficulty => "Difficulty" | .nonce => "Nonce" | .basePlasma => "BasePlasma"
  | .totalPlasma => "TotalPlasma" | .changesHash => "ChangesHash" | .publicKey => "PublicKey"
  | .signature => "Signature"

/-- hex everywhere: a `Leaves` that satisfies `Leaves.WF` (non-vacuity witness; bech32 itself is not modelled) -/
def toyLeaves : Leaves := {
  addrText := hexHashText, addrParse := fun s => ofHexChars s.toList,
  ztsText := hexHashText, ztsParse := fun s => ofHexChars s.toList,
  b64Text := hexHashText, b64Parse := fun s => ofHexChars s.toList,
  hashText := hexHashText, hashParse := hexHashParse }

theorem toyLeaves_wf : toyLeaves.WF := by
  constructor
  · intro x hx _; simp [toyLeaves, hexHashText, ofHexChars_hexChars x hx]
  · intro x hx _; simp [toyLeaves, hexHashText, ofHexChars_hexChars x hx]
  · intro x hx; simp [toyLeaves, hexHashText, ofHexChars_hexChars x hx]
  · intro x hx hl
    have : (hexChars x).length = 2 * x.length := by
      clear hx hl
      induction x with
      | nil => rfl
      | cons a t ih => simp [hexChars, List.flatMap_cons] at ih ⊢; omega
    simp [toyLeaves, hexHashText, hexHashParse, ofHexChars_hexChars x hx, this, hl]

/-- what one member does to `aux` (the body of the loop of `unmMembers`) -/
def stepMember (L : Leaves) (f : Option AF) (v : Json) (a : Aux) : Except Err Aux :=
  match f with
  | none => .ok a
  | some .descendantBlocks =>
    match v with
    | .null => .ok { a with desc := [] }
    | .arr js => do
        let r ← unmBlocks L js
        pure { a with desc := r.1, nilSeen := a.nilSeen || r.2 }
    | _ => .error .typeMismatch
  | some f => setLeaf L f v a

theorem unmMembers_cons (L : Leaves) (k : String) (v : Json) (rest : List (String × Json)) (a : Aux) :
    unmMembers L ((k, v) :: rest) a = (stepMember L (fieldOf abTags k) v a).bind (unmMembers L rest) := by
  unfold unmMembers stepMember
  cases fieldOf abTags k with
  | none => rfl
  | some f =>
    cases f <;> first
      | rfl
      | (cases v <;> first | rfl | (simp only [bind, Except.bind, pure, Except.pure]; cases unmBlocks L _ <;> rfl))
      | (simp only [bind, Except.bind]; cases setLeaf L _ v a <;> rfl)

/-- the members of an object in reversed document order -/
def reverseMembers : Json → Json
  | .obj ms => .obj ms.reverse
  | j => j

end ZV.CodecJson
