import ZenonVerif.Model.CodecJson
import ZenonVerif.Lemmas.CodecText
/-
Helper lemmas and well-formedness predicates for Props/C13Json.lean.
-/
namespace ZV.CodecJson
open ZV ZV.Codec ZV.JsonRpc

/-- what the Go types of `types.HashHeight` guarantee -/
structure HHJ (h : HashHeight) : Prop where
  hash : h.hash.WF ∧ h.hash.length = Gen.HashSize
  height : h.height < two64

/-- what the Go types of the members of `nom.AccountBlock` guarantee: byte values < 256, array widths
    32 / 20 / 10 / 8, uint64 ranges. Nothing is asked of the amount (any integer, negative ones too). -/
structure BodyJ (b : ABody) : Prop where
  version : b.version < two64
  chainIdentifier : b.chainIdentifier < two64
  blockType : b.blockType < two64
  hash : b.hash.WF ∧ b.hash.length = Gen.HashSize
  previousHash : b.previousHash.WF ∧ b.previousHash.length = Gen.HashSize
  height : b.height < two64
  momentumAcknowledged : HHJ b.momentumAcknowledged
  address : b.address.WF ∧ b.address.length = Gen.AddressSize
  toAddress : b.toAddress.WF ∧ b.toAddress.length = Gen.AddressSize
  tokenStandard : b.tokenStandard.WF ∧ b.tokenStandard.length = Gen.ZtsSize
  fromBlockHash : b.fromBlockHash.WF ∧ b.fromBlockHash.length = Gen.HashSize
  data : b.data.WF
  fusedPlasma : b.fusedPlasma < two64
  difficulty : b.difficulty < two64
  nonce : b.nonce.WF ∧ b.nonce.length = 8
  basePlasma : b.basePlasma < two64
  totalPlasma : b.totalPlasma < two64
  changesHash : b.changesHash.WF ∧ b.changesHash.length = Gen.HashSize
  publicKey : b.publicKey.WF
  signature : b.signature.WF

mutual
def BlockJ : Block → Prop
  | ⟨body, ds⟩ => BodyJ body ∧ BlocksJ ds
def BlocksJ : List Block → Prop
  | [] => True
  | d :: ds => BlockJ d ∧ BlocksJ ds
end

structure HeaderJ (h : AccountHeader) : Prop where
  address : h.address.WF ∧ h.address.length = Gen.AddressSize
  hash : h.hash.WF ∧ h.hash.length = Gen.HashSize
  height : h.height < two64

structure MomentumJ (m : Momentum) : Prop where
  version : m.version < two64
  chainIdentifier : m.chainIdentifier < two64
  hash : m.hash.WF ∧ m.hash.length = Gen.HashSize
  previousHash : m.previousHash.WF ∧ m.previousHash.length = Gen.HashSize
  height : m.height < two64
  timestampUnix : m.timestampUnix < two64
  data : m.data.WF
  content : ∀ h ∈ m.content, HeaderJ h
  changesHash : m.changesHash.WF ∧ m.changesHash.length = Gen.HashSize
  publicKey : m.publicKey.WF
  signature : m.signature.WF

theorem parseU64_natLit (n : Nat) (h : n < two64) : parseU64 (natLit n) = some n := by
  have hne := natDigitsLE_ne_nil n n
  have hp := parse_show_nat n
  rw [List.map_reverse] at hp
  simp [parseU64, natLit, hne, hp, h]

theorem decU64_u64J (n cur : Nat) (h : n < two64) : decU64 (u64J n) cur = .ok n := by
  simp [decU64, u64J, parseU64_natLit n h]

theorem decString_amount (a : Int) (cur : String) : decString (amountJ a) cur = .ok (String.ofList (showAmount a)) := rfl
theorem decString_nonce (n : Bytes) (cur : String) : decString (nonceJ n) cur = .ok (String.ofList (hexChars n)) := rfl

theorem decText_ok (parse : String → Option Bytes) (e : Err) (s : String) (x cur : Bytes) (h : parse s = some x) :
    decText parse e (.str s) cur = .ok x := by
  simp [decText, h]

theorem decBytes_ok (L : Leaves) (hL : L.WF) (x : Bytes) (h : x.WF) : decBytes L (.str (L.b64Text x)) = .ok x := by
  simp [decBytes, hL.b64 x h]

theorem decHashHeight_mar (L : Leaves) (hL : L.WF) (h cur : HashHeight) (w : HHJ h) :
    decHashHeight L (marHashHeight L h) cur = .ok h := by
  have h1 : fieldOf hhTags "hash" = some .hash := by decide
  have h2 : fieldOf hhTags "height" = some .height := by decide
  simp [decHashHeight, marHashHeight, hhFill, h1, h2, decText_ok _ _ _ _ _ (hL.hash _ w.hash.1 w.hash.2),
    decU64_u64J _ _ w.height, bind, Except.bind]

theorem marshalBlock_obj (L : Leaves) (b : Block) : ∃ ms, marshalBlock L b = .obj ms := by
  cases b; simp [marshalBlock]

theorem unmBlocks_cons_ok (L : Leaves) (ms : List (String × Json)) (js : List Json) (b : Block)
    (r : List Block × Bool) (h1 : unmarshalBlock L (.obj ms) = .ok b) (h2 : unmBlocks L js = .ok r) :
    unmBlocks L (.obj ms :: js) = .ok (b :: r.1, r.2) := by
  rw [unmBlocks]
  · simp [h1, h2, bind, Except.bind, pure, Except.pure]
  · intro h; cases h

end ZV.CodecJson
