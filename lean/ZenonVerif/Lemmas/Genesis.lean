import ZenonVerif.Model.Genesis
/-
Helper lemmas for C20: `bytes.Compare` is a total order on byte strings, `AccountHeader.Bytes` is injective on
well-formed headers, arithmetic of the genesis validators. Core Lean only.
-/
namespace ZV.Genesis
open ZV

/-! ### lexicographic order on byte strings -/

theorem bytesLt_irrefl : ∀ a : Bytes, bytesLt a a = false
  | [] => rfl
  | x :: xs => by simp [bytesLt, bytesLt_irrefl xs]

theorem bytesLt_trans : ∀ a b c : Bytes, bytesLt a b = true → bytesLt b c = true → bytesLt a c = true
  | [], [], _, h, _ => by simp [bytesLt] at h
  | [], _ :: _, [], _, h => by simp [bytesLt] at h
  | [], _ :: _, _ :: _, _, _ => by simp [bytesLt]
  | _ :: _, [], _, h, _ => by simp [bytesLt] at h
  | _ :: _, _ :: _, [], _, h => by simp [bytesLt] at h
  | x :: xs, y :: ys, z :: zs, h1, h2 => by
    unfold bytesLt at h1 h2 ⊢
    by_cases hxy : x < y
    · by_cases hyz : y < z
      · have : x < z := by omega
        simp [this]
      · by_cases hzy : z < y
        · simp [hyz, hzy] at h2
        · have : y = z := by omega
          subst this; simp [hxy]
    · by_cases hyx : y < x
      · simp [hxy, hyx] at h1
      · have : x = y := by omega
        subst this
        simp only [Nat.lt_irrefl, if_false] at h1
        by_cases hxz : x < z
        · simp [hxz]
        · by_cases hzx : z < x
          · simp [hxz, hzx] at h2
          · simp only [hxz, hzx, if_false] at h2 ⊢
            exact bytesLt_trans xs ys zs h1 h2

theorem bytesLt_total : ∀ a b : Bytes, bytesLt a b = false → bytesLt b a = false → a = b
  | [], [], _, _ => rfl
  | [], _ :: _, h, _ => by simp [bytesLt] at h
  | _ :: _, [], _, h => by simp [bytesLt] at h
  | x :: xs, y :: ys, h1, h2 => by
    unfold bytesLt at h1 h2
    by_cases hxy : x < y
    · simp [hxy] at h1
    · by_cases hyx : y < x
      · simp [hyx] at h2
      · have : x = y := by omega
        subst this
        simp only [Nat.lt_irrefl, if_false] at h1 h2
        rw [bytesLt_total xs ys h1 h2]

theorem bytesLt_asymm (a b : Bytes) (h : bytesLt a b = true) : bytesLt b a = false := by
  cases hb : bytesLt b a with
  | false => rfl
  | true => have := bytesLt_trans a b a h hb; rw [bytesLt_irrefl] at this; cases this

theorem bytesLe_total (a b : Bytes) : (bytesLe a b || bytesLe b a) = true := by
  unfold bytesLe
  cases h : bytesLt b a with
  | false => simp
  | true => simp [bytesLt_asymm b a h]

theorem bytesLe_trans (a b c : Bytes) (h1 : bytesLe a b = true) (h2 : bytesLe b c = true) : bytesLe a c = true := by
  unfold bytesLe at *
  simp only [Bool.not_eq_true'] at *
  cases hca : bytesLt c a with
  | false => rfl
  | true =>
    cases hab : bytesLt a b with
    | true => have := bytesLt_trans c a b hca hab; rw [h2] at this; cases this
    | false => have := bytesLt_total a b hab h1; subst this; rw [h2] at hca; cases hca

theorem bytesLe_antisymm (a b : Bytes) (h1 : bytesLe a b = true) (h2 : bytesLe b a = true) : a = b := by
  unfold bytesLe at *
  simp only [Bool.not_eq_true'] at *
  exact bytesLt_total a b h2 h1

/-! ### header encoding -/

theorem leBytes_inj' (w a b : Nat) (ha : a < 256 ^ w) (hb : b < 256 ^ w) (h : leBytes w a = leBytes w b) : a = b := by
  have := congrArg leVal h
  rw [leVal_leBytes, leVal_leBytes, Nat.mod_eq_of_lt ha, Nat.mod_eq_of_lt hb] at this
  exact this

theorem Header.bytes_inj (a b : Header) (ha : a.WF) (hb : b.WF) (h : a.bytes = b.bytes) : a = b := by
  unfold Header.bytes at h
  obtain ⟨ha1, ha2, ha3⟩ := ha
  obtain ⟨hb1, hb2, hb3⟩ := hb
  have h1 := List.append_inj h (by omega)
  have h2 := List.append_inj h1.2 (by simp [beBytes, leBytes_length])
  have h3 : a.height = b.height := by
    have := List.reverse_inj.1 h2.1
    exact leBytes_inj' 8 _ _ (by simpa [two64] using ha3) (by simpa [two64] using hb3) this
  cases a; cases b; simp_all

theorem Header.bytes_length (a : Header) (ha : a.WF) : a.bytes.length = Gen.AccountBlockHeaderRawLen := by
  obtain ⟨h1, h2, _⟩ := ha
  simp [Header.bytes, beBytes, leBytes_length, h1, h2, Gen.AccountBlockHeaderRawLen, Gen.GnHashSize]

/-! ### validators -/

theorem checkGenesis_ok (c : Config) (h : checkGenesis c = .ok) :
    checkFieldsExist c = true ∧ checkPlasmaInfo c = true ∧ checkSwapAccount c = true ∧
      checkPillarBalance c = true ∧ checkTokenTotalSupply c = true := by
  unfold checkGenesis at h
  cases h1 : checkFieldsExist c <;> cases h2 : checkPlasmaInfo c <;> cases h3 : checkSwapAccount c <;>
    cases h4 : checkPillarBalance c <;> cases h5 : checkTokenTotalSupply c <;> simp_all

theorem lookup_some_mem {α : Type} : ∀ (m : List (Bytes × α)) (z : Bytes) (a : α), lookup m z = some a → (z, a) ∈ m
  | [], _, _, h => by simp [lookup] at h
  | (k, v) :: rest, z, a, h => by
    unfold lookup at h
    by_cases hk : k = z
    · simp [hk] at h; subst hk; subst h; simp
    · simp [hk] at h; exact List.mem_cons_of_mem _ (lookup_some_mem rest z a h)

theorem lookup_none_not_mem {α : Type} : ∀ (m : List (Bytes × α)) (z : Bytes), lookup m z = none → ∀ a, (z, a) ∉ m
  | [], _, _, _ => by simp
  | (k, v) :: rest, z, h, a => by
    unfold lookup at h
    by_cases hk : k = z
    · simp [hk] at h
    · simp [hk] at h
      intro hm
      rcases List.mem_cons.1 hm with heq | hm
      · exact hk (by cases heq; rfl)
      · exact lookup_none_not_mem rest z h a hm

/-- what `blockOK` gives for one token: the block's entry, if any, is the required amount (present, not nil); no entry
    only if the required amount is zero (or the token is not required at all) -/
theorem blockOK_lookup (R : List (Bytes × Int)) (b : Block) (h : blockOK R b = true) (z : Bytes) :
    (∀ a, lookup b.bal z = some a → ∃ r, lookup R z = some r ∧ a = some r) ∧
    (∀ r, lookup R z = some r → lookup b.bal z = none → r = 0) := by
  unfold blockOK at h
  rw [Bool.and_eq_true, List.all_eq_true, List.all_eq_true] at h
  constructor
  · intro a ha
    have hm := lookup_some_mem _ _ _ ha
    have := h.1 _ hm
    simp only at this
    cases hr : lookup R z with
    | none => simp [hr] at this
    | some r => simp [hr] at this; exact ⟨r, rfl, this⟩
  · intro r hr hn
    have hm := lookup_some_mem _ _ _ hr
    have := h.2 _ hm
    simp [hn] at this
    exact this

theorem fold_none (R : List (Bytes × Int)) (z : Bytes) (hz : lookup R z = none) :
    ∀ (L : List Block) (acc : Int), (∀ b ∈ L, blockOK R b = true) →
      L.foldl (fun acc b => ((lookup b.bal z).map storedOpt).getD acc) acc = acc
  | [], _, _ => rfl
  | b :: L, acc, h => by
    simp only [List.foldl_cons]
    have hb := (blockOK_lookup R b (h b (by simp)) z).1
    cases hl : lookup b.bal z with
    | some a =>
      obtain ⟨r, hr, _⟩ := hb a hl
      rw [hz] at hr; cases hr
    | none => simp only [Option.map_none, Option.getD_none]; exact fold_none R z hz L acc (fun x hx => h x (by simp [hx]))

theorem fold_some (R : List (Bytes × Int)) (z : Bytes) (r : Int) (hz : lookup R z = some r) :
    ∀ (L : List Block) (acc : Int), (∀ b ∈ L, blockOK R b = true) → (acc = stored r ∨ (L ≠ [] ∧ r ≠ 0)) →
      L.foldl (fun acc b => ((lookup b.bal z).map storedOpt).getD acc) acc = stored r
  | [], acc, _, hacc => by
    rcases hacc with h | h
    · simpa using h
    · exact absurd rfl h.1
  | b :: L, acc, h, hacc => by
    simp only [List.foldl_cons]
    have hb := blockOK_lookup R b (h b (by simp)) z
    have hL : ∀ x ∈ L, blockOK R x = true := fun x hx => h x (by simp [hx])
    cases hl : lookup b.bal z with
    | some a =>
      obtain ⟨r', hr', ha⟩ := hb.1 a hl
      rw [hz] at hr'
      cases hr'
      subst ha
      simp only [Option.map_some, Option.getD_some]
      exact fold_some R z r hz L _ hL (Or.inl (by simp [storedOpt]))
    | none =>
      have hr0 := hb.2 r hz hl
      simp only [Option.map_none, Option.getD_none]
      have : acc = stored r := by
        rcases hacc with h' | h'
        · exact h'
        · exact absurd hr0 h'.2
      exact fold_some R z r hz L acc hL (Or.inl this)

/-- the two parts of `checkAccountBalance`: every entry of the address passes, and (`found`) there is an entry unless
    every required amount is zero -/
theorem checkAccountBalance_parts (c : Config) (A : Bytes) (R : List (Bytes × Int))
    (h : checkAccountBalance c A R = true) :
    (∀ b ∈ ownBlocks c A, blockOK R b = true) ∧ (ownBlocks c A ≠ [] ∨ ∀ r ∈ R, r.2 = 0) := by
  unfold checkAccountBalance at h
  rw [Bool.and_eq_true, List.all_eq_true] at h
  refine ⟨h.1, ?_⟩
  cases hown : ownBlocks c A with
  | nil =>
    right
    have h2 := h.2
    rw [hown] at h2
    simpa using h2
  | cons b l => left; simp

theorem held_required (c : Config) (A : Bytes) (R : List (Bytes × Int)) (h : checkAccountBalance c A R = true)
    (z : Bytes) (r : Int) (hz : lookup R z = some r) : ledgerBalance c A z = stored r := by
  obtain ⟨hall, hfound⟩ := checkAccountBalance_parts c A R h
  unfold ledgerBalance
  apply fold_some R z r hz _ 0 hall
  by_cases hr : r = 0
  · left; subst hr; rfl
  · rcases hfound with hne | h0
    · exact Or.inr ⟨hne, hr⟩
    · exact absurd (h0 _ (lookup_some_mem R z r hz)) hr

theorem held_not_required (c : Config) (A : Bytes) (R : List (Bytes × Int)) (h : checkAccountBalance c A R = true)
    (z : Bytes) (hz : lookup R z = none) : ledgerBalance c A z = 0 := by
  unfold ledgerBalance
  exact fold_none R z hz _ 0 (checkAccountBalance_parts c A R h).1

/-! ### the first loop of `CheckTokenTotalSupply` -/

theorem amountOK_spec (a : Option Int) (h : amountOK a = true) : ∃ v : Int, a = some v ∧ 0 ≤ v := by
  cases a with
  | none => simp [amountOK] at h
  | some v => exact ⟨v, rfl, by simpa [amountOK] using h⟩

/-- `scanBlocks seen bs` passes iff no address of `bs` is in `seen` or occurs twice and every amount is present and
    non-negative (only the direction the soundness theorems need, and its converse below) -/
theorem scanBlocks_spec : ∀ (seen : List Bytes) (bs : List Block), scanBlocks seen bs = true →
    (∀ b ∈ bs, b.addr ∉ seen) ∧ (bs.map (·.addr)).Nodup ∧ ∀ b ∈ bs, ∀ e ∈ b.bal, amountOK e.2 = true
  | _, [], _ => by simp
  | seen, b :: rest, h => by
    unfold scanBlocks at h
    simp only [Bool.and_eq_true, Bool.not_eq_true', List.all_eq_true] at h
    obtain ⟨⟨h1, h2⟩, h3⟩ := h
    have h1' : b.addr ∉ seen := by
      intro hm
      have : seen.contains b.addr = true := List.contains_iff_mem.2 hm
      rw [h1] at this; cases this
    obtain ⟨i1, i2, i3⟩ := scanBlocks_spec (b.addr :: seen) rest h3
    refine ⟨?_, ?_, ?_⟩
    · intro x hx
      rcases List.mem_cons.1 hx with rfl | hx
      · exact h1'
      · exact fun hm => i1 x hx (List.mem_cons_of_mem _ hm)
    · simp only [List.map_cons, List.nodup_cons]
      refine ⟨?_, i2⟩
      intro hm
      obtain ⟨x, hx, hxa⟩ := List.mem_map.1 hm
      exact i1 x hx (by rw [hxa]; exact List.mem_cons_self)
    · intro x hx
      rcases List.mem_cons.1 hx with rfl | hx
      · exact h2
      · exact i3 x hx

theorem scanBlocks_complete : ∀ (seen : List Bytes) (bs : List Block),
    (∀ b ∈ bs, b.addr ∉ seen) → (bs.map (·.addr)).Nodup → (∀ b ∈ bs, ∀ e ∈ b.bal, amountOK e.2 = true) →
    scanBlocks seen bs = true
  | _, [], _, _, _ => rfl
  | seen, b :: rest, h1, h2, h3 => by
    unfold scanBlocks
    simp only [List.map_cons, List.nodup_cons] at h2
    simp only [Bool.and_eq_true, Bool.not_eq_true', List.all_eq_true]
    refine ⟨⟨?_, h3 b List.mem_cons_self⟩, ?_⟩
    · cases hc : seen.contains b.addr with
      | false => rfl
      | true => exact absurd (List.contains_iff_mem.1 hc) (h1 b List.mem_cons_self)
    · apply scanBlocks_complete (b.addr :: seen) rest _ h2.2 (fun x hx => h3 x (List.mem_cons_of_mem _ hx))
      intro x hx hm
      rcases List.mem_cons.1 hm with heq | hm
      · exact h2.1 (by rw [← heq]; exact List.mem_map_of_mem hx)
      · exact h1 x (List.mem_cons_of_mem _ hx) hm

/-! ### supply: ledger sum = sum over entries when every address has one entry -/

theorem isum_append (a b : List Int) : isum (a ++ b) = isum a + isum b := by
  induction a with
  | nil => simp [isum]
  | cons x xs ih => simp only [List.cons_append, isum, ih]; omega

theorem isum_nonneg : ∀ (l : List Int), (∀ x ∈ l, 0 ≤ x) → 0 ≤ isum l
  | [], _ => by simp [isum]
  | x :: xs, h => by
    have := isum_nonneg xs (fun y hy => h y (by simp [hy]))
    have := h x (by simp)
    simp only [isum]; omega

theorem dedup_nodup : ∀ (l : List Bytes), l.Nodup → dedup l = l
  | [], _ => rfl
  | a :: l, h => by
    have h' := List.nodup_cons.1 h
    simp [dedup, h'.1, dedup_nodup l h'.2]

theorem filter_addr_nodup : ∀ (l : List Block), (l.map (·.addr)).Nodup → ∀ b ∈ l,
    l.filter (fun x => x.addr = b.addr) = [b]
  | [], _, b, hb => by cases hb
  | x :: l, h, b, hb => by
    simp only [List.map_cons, List.nodup_cons] at h
    rcases List.mem_cons.1 hb with rfl | hb'
    · have : l.filter (fun x => x.addr = b.addr) = [] := by
        rw [List.filter_eq_nil_iff]
        intro y hy hya
        simp only [decide_eq_true_eq] at hya
        exact h.1 (by rw [← hya]; exact List.mem_map_of_mem hy)
      simp [this]
    · have hne : ¬ x.addr = b.addr := by
        intro he; exact h.1 (by rw [he]; exact List.mem_map_of_mem hb')
      simp only [List.filter_cons, hne, decide_false, Bool.false_eq_true, if_false]
      exact filter_addr_nodup l h.2 b hb'

theorem lookup_sum_nodup : ∀ (m : List (Bytes × Option Int)) (z : Bytes), (m.map (·.1)).Nodup →
    isum ((m.filter (fun e => e.1 = z)).map (fun e => e.2.getD 0)) = listed m z
  | [], _, _ => by simp [isum, lookup, listed]
  | (k, v) :: rest, z, h => by
    simp only [List.map_cons, List.nodup_cons] at h
    unfold listed lookup
    by_cases hk : k = z
    · subst hk
      have : rest.filter (fun e => e.1 = k) = [] := by
        rw [List.filter_eq_nil_iff]
        intro y hy hyk
        simp only [decide_eq_true_eq] at hyk
        exact h.1 (by rw [← hyk]; exact List.mem_map_of_mem hy)
      simp [this, isum]
    · simp only [List.filter_cons, hk, decide_false, Bool.false_eq_true, if_false]
      exact lookup_sum_nodup rest z h.2

theorem givenSum_blocks (bs : List Block) (z : Bytes) (hwf : ∀ b ∈ bs, (b.bal.map (·.1)).Nodup) :
    isum (((bs.flatMap (·.bal)).filter (fun e => e.1 = z)).map (fun e => e.2.getD 0)) =
      isum (bs.map (fun b => listed b.bal z)) := by
  induction bs with
  | nil => simp [isum]
  | cons b bs ih =>
    simp only [List.flatMap_cons, List.filter_append, List.map_append, isum_append, List.map_cons, isum]
    rw [lookup_sum_nodup b.bal z (hwf b (by simp)), ih (fun x hx => hwf x (by simp [hx]))]

theorem stored_nonneg (a : Int) (h : 0 ≤ a) : stored a = a := by unfold stored; omega

theorem lookup_stored_nonneg (m : List (Bytes × Option Int)) (z : Bytes) (h : ∀ e ∈ m, amountOK e.2 = true) :
    ((lookup m z).map storedOpt).getD 0 = listed m z := by
  unfold listed
  cases hl : lookup m z with
  | none => rfl
  | some a =>
    obtain ⟨v, hv, h0⟩ := amountOK_spec a (h _ (lookup_some_mem m z a hl))
    subst hv
    simp [storedOpt, stored_nonneg v h0]

/-- with one entry per address the ledger holds exactly what the entry lists -/
theorem ledgerBalance_single (c : Config) (hnd : (c.blocks.map (·.addr)).Nodup)
    (hok : ∀ b ∈ c.blocks, ∀ e ∈ b.bal, amountOK e.2 = true) (b : Block) (hb : b ∈ c.blocks) (z : Bytes) :
    ledgerBalance c b.addr z = listed b.bal z := by
  simp only [ledgerBalance, ownBlocks, filter_addr_nodup c.blocks hnd b hb, List.foldl_cons, List.foldl_nil]
  exact lookup_stored_nonneg b.bal z (hok b hb)

/-- an address without entry holds nothing -/
theorem ledgerBalance_absent (c : Config) (a : Bytes) (ha : a ∉ c.blocks.map (·.addr)) (z : Bytes) :
    ledgerBalance c a z = 0 := by
  have : ownBlocks c a = [] := by
    unfold ownBlocks
    rw [List.filter_eq_nil_iff]
    intro y hy hya
    simp only [decide_eq_true_eq] at hya
    exact ha (by rw [← hya]; exact List.mem_map_of_mem hy)
  simp [ledgerBalance, this]

theorem ledgerSupply_eq_givenSum (c : Config) (hwf : c.WF) (hscan : scanBlocks [] c.blocks = true) (z : Bytes) :
    ledgerSupply c z = givenSum c z := by
  obtain ⟨_, hnd, hok⟩ := scanBlocks_spec [] c.blocks hscan
  unfold ledgerSupply givenSum givenEntries
  rw [dedup_nodup _ hnd, givenSum_blocks c.blocks z hwf, List.map_map]
  congr 1
  apply List.map_congr_left
  intro b hb
  simp only [Function.comp]
  exact ledgerBalance_single c hnd hok b hb z

theorem listed_nonneg (m : List (Bytes × Option Int)) (z : Bytes) (h : ∀ e ∈ m, amountOK e.2 = true) :
    0 ≤ listed m z := by
  unfold listed
  cases hl : lookup m z with
  | none => simp
  | some a =>
    obtain ⟨v, hv, h0⟩ := amountOK_spec a (h _ (lookup_some_mem m z a hl))
    subst hv
    simpa using h0

/-- a required amount that passed `checkAccountBalance` and the first loop of `CheckTokenTotalSupply` is not negative:
    it is either zero (no entry, or an entry that does not list the token) or equal to a listed, non-negative amount -/
theorem required_nonneg (c : Config) (A : Bytes) (R : List (Bytes × Int)) (h : checkAccountBalance c A R = true)
    (hscan : scanBlocks [] c.blocks = true) (z : Bytes) (r : Int) (hz : lookup R z = some r) : 0 ≤ r := by
  obtain ⟨hall, hfound⟩ := checkAccountBalance_parts c A R h
  obtain ⟨_, _, hok⟩ := scanBlocks_spec [] c.blocks hscan
  cases hown : ownBlocks c A with
  | nil =>
    rcases hfound with hne | h0
    · exact absurd hown hne
    · have := h0 _ (lookup_some_mem R z r hz); simp at this; omega
  | cons b l =>
    have hbo : b ∈ ownBlocks c A := by rw [hown]; simp
    have hbc : b ∈ c.blocks := (List.mem_filter.1 hbo).1
    have hb := blockOK_lookup R b (hall b hbo) z
    cases hl : lookup b.bal z with
    | none => have := hb.2 r hz hl; omega
    | some a =>
      obtain ⟨r', hr', ha⟩ := hb.1 a hl
      rw [hz] at hr'; cases hr'
      obtain ⟨v, hv, h0⟩ := amountOK_spec a (hok b hbc _ (lookup_some_mem b.bal z a hl))
      rw [ha] at hv; cases hv; exact h0

end ZV.Genesis
