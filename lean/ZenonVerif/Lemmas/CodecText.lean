import ZenonVerif.Model.CodecText
/-
Helper lemmas for C13: decimal and hex text forms.
-/
namespace ZV.Codec
open ZV

def leVal10 : List Nat → Nat
  | [] => 0
  | d :: ds => d + 10 * leVal10 ds

theorem leVal10_natDigitsLE : ∀ (f n : Nat), n < f → leVal10 (natDigitsLE f n) = n := by
  intro f
  induction f with
  | zero => intro n h; omega
  | succ f ih =>
    intro n h
    unfold natDigitsLE
    split
    · simp [leVal10]
    · next hn =>
      have : n / 10 < f := by
        have : n / 10 < n := Nat.div_lt_self (by omega) (by decide)
        omega
      simp only [leVal10, ih _ this]
      omega

theorem natDigitsLE_lt10 : ∀ (f n : Nat), ∀ d ∈ natDigitsLE f n, d < 10 := by
  intro f
  induction f with
  | zero => intro n d hd; simp [natDigitsLE] at hd
  | succ f ih =>
    intro n d hd
    unfold natDigitsLE at hd
    split at hd
    · simp at hd; omega
    · simp only [List.mem_cons] at hd
      rcases hd with rfl | hd
      · omega
      · exact ih _ d hd

theorem natDigitsLE_ne_nil (f n : Nat) : natDigitsLE (f + 1) n ≠ [] := by
  unfold natDigitsLE
  split <;> simp

theorem digitChar_props : ∀ d, d < 10 →
    ('0' ≤ digitChar d ∧ digitChar d ≤ '9') ∧ (digitChar d).toNat - 48 = d ∧ digitChar d ≠ '-' ∧ digitChar d ≠ '+' := by
  decide

theorem parseDigitsAux_digits : ∀ (ds : List Nat) (acc : Nat), (∀ d ∈ ds, d < 10) →
    parseDigitsAux acc (ds.map digitChar) = some (ds.foldl (fun a d => a * 10 + d) acc) := by
  intro ds
  induction ds with
  | nil => intro acc _; rfl
  | cons d ds ih =>
    intro acc h
    have hd := digitChar_props d (h d (by simp))
    simp only [List.map_cons, parseDigitsAux, hd.1, and_self, if_true, hd.2.1, List.foldl_cons]
    exact ih _ (fun x hx => h x (by simp [hx]))

theorem foldl_reverse_leVal10 (l : List Nat) : l.reverse.foldl (fun a d => a * 10 + d) 0 = leVal10 l := by
  rw [List.foldl_reverse]
  induction l with
  | nil => rfl
  | cons d ds ih => simp only [List.foldr_cons, leVal10, ih]; omega

theorem parse_show_nat (n : Nat) :
    parseDigitsAux 0 ((natDigitsLE (n + 1) n).reverse.map digitChar) = some n := by
  rw [parseDigitsAux_digits _ 0 (fun d hd => natDigitsLE_lt10 (n + 1) n d (by simpa using hd))]
  rw [foldl_reverse_leVal10, leVal10_natDigitsLE (n + 1) n (by omega)]

theorem stripSign_digit (c : Char) (cs : List Char) (h1 : c ≠ '-') (h2 : c ≠ '+') :
    stripSign (c :: cs) = (false, c :: cs) := by
  unfold stripSign
  split
  · next r heq => exact absurd (List.cons.inj heq).1 h1
  · next r heq => exact absurd (List.cons.inj heq).1 h2
  · rfl

theorem setString10_showAmount (a : Int) : setString10 (showAmount a) = some a := by
  have hne : (natDigitsLE (a.natAbs + 1) a.natAbs).reverse.map digitChar ≠ [] := by
    simp [natDigitsLE_ne_nil]
  by_cases ha : a < 0
  · simp only [showAmount, ha, if_true, List.cons_append, List.nil_append, setString10, stripSign]
    cases hc : (natDigitsLE (a.natAbs + 1) a.natAbs).reverse.map digitChar with
    | nil => exact absurd hc hne
    | cons c cs =>
      rw [← hc, parse_show_nat]
      simp [hc]
      omega
  · simp only [showAmount, ha, if_false, List.nil_append]
    cases hc : (natDigitsLE (a.natAbs + 1) a.natAbs).reverse.map digitChar with
    | nil => exact absurd hc hne
    | cons c cs =>
      -- the first character is a digit, hence neither '-' nor '+'
      have hmem : c ∈ (natDigitsLE (a.natAbs + 1) a.natAbs).reverse.map digitChar := by rw [hc]; simp
      simp only [List.mem_map, List.mem_reverse] at hmem
      obtain ⟨d, hd, rfl⟩ := hmem
      have hp := digitChar_props d (natDigitsLE_lt10 _ _ d hd)
      simp only [setString10, stripSign_digit _ _ hp.2.2.1 hp.2.2.2]
      rw [← hc, parse_show_nat]
      simp [hc]
      omega

theorem hexVal_hexDigit : ∀ n, n < 16 → hexVal (hexDigit n) = some n := by decide

theorem ofHexChars_hexChars : ∀ (b : Bytes), b.WF → ofHexChars (hexChars b) = some b := by
  intro b
  induction b with
  | nil => intro _; rfl
  | cons x xs ih =>
    intro h
    have hx : x < 256 := h x (by simp)
    have ih' := ih (fun y hy => h y (by simp [hy]))
    simp only [hexChars, List.flatMap_cons, List.cons_append, List.nil_append] at *
    simp only [ofHexChars, hexVal_hexDigit (x / 16) (by omega), hexVal_hexDigit (x % 16) (by omega), ih']
    simp only [Option.bind_eq_bind, Option.bind_some, Option.pure_def]
    congr 2; omega

end ZV.Codec
