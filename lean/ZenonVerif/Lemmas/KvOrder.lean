import ZenonVerif.Model.Kv
import ZenonVerif.Lemmas.KvLogic
/-
Order theory of `bytesLt` (= bytes.Compare, the goleveldb default comparer), sortedness of raw layers, and the
correctness of the two-way merged iterator over sorted layers (C07-T5 groundwork).
-/
namespace ZV

/-! ### `bytesLt` is a strict total order -/

theorem bytesLt_irrefl (a : Bytes) : bytesLt a a = false := by
  induction a with
  | nil => rfl
  | cons x xs ih => simp [bytesLt, ih]

theorem bytesLt_asymm {a b : Bytes} (h : bytesLt a b = true) : bytesLt b a = false := by
  induction a generalizing b with
  | nil => cases b <;> simp_all [bytesLt]
  | cons x xs ih =>
    cases b with
    | nil => simp [bytesLt] at h
    | cons y ys =>
      simp only [bytesLt] at h ⊢
      by_cases h1 : x < y
      · have h2 : ¬ y < x := by omega
        simp [h1, h2]
      · by_cases h2 : y < x
        · simp [h1, h2] at h
        · simp only [h1, h2, if_false] at h ⊢
          exact ih h

theorem bytesLt_trans {a b c : Bytes} (hab : bytesLt a b = true) (hbc : bytesLt b c = true) :
    bytesLt a c = true := by
  induction a generalizing b c with
  | nil =>
    cases b with
    | nil => simp [bytesLt] at hab
    | cons y ys =>
      cases c with
      | nil => simp [bytesLt] at hbc
      | cons z zs => simp [bytesLt]
  | cons x xs ih =>
    cases b with
    | nil => simp [bytesLt] at hab
    | cons y ys =>
      cases c with
      | nil => simp [bytesLt] at hbc
      | cons z zs =>
        simp only [bytesLt] at hab hbc ⊢
        by_cases h1 : x < y
        · by_cases h3 : y < z
          · have : x < z := by omega
            simp [this]
          · by_cases h4 : z < y
            · simp [h3, h4] at hbc
            · have : x < z := by omega
              simp [this]
        · by_cases h2 : y < x
          · simp [h1, h2] at hab
          · simp only [h1, h2, if_false] at hab
            have hxy : x = y := by omega
            subst hxy
            by_cases h3 : x < z
            · simp [h3]
            · by_cases h4 : z < x
              · simp [h3, h4] at hbc
              · simp only [h3, h4, if_false] at hbc ⊢
                exact ih hab hbc

/-- trichotomy: two byte strings neither of which is below the other are equal -/
theorem bytesLt_trichotomy {a b : Bytes} (h1 : bytesLt a b = false) (h2 : bytesLt b a = false) : a = b := by
  induction a generalizing b with
  | nil => cases b <;> simp_all [bytesLt]
  | cons x xs ih =>
    cases b with
    | nil => simp [bytesLt] at h2
    | cons y ys =>
      simp only [bytesLt] at h1 h2
      by_cases hxy : x < y
      · simp [hxy] at h1
      · by_cases hyx : y < x
        · simp [hyx] at h2
        · simp only [hxy, hyx, if_false] at h1 h2
          have : x = y := by omega
          rw [this, ih h1 h2]

theorem bytesLt_ne {a b : Bytes} (h : bytesLt a b = true) : a ≠ b := by
  intro e; subst e; rw [bytesLt_irrefl] at h; exact Bool.false_ne_true h

theorem bytesLt_total (a b : Bytes) : bytesLt a b = true ∨ a = b ∨ bytesLt b a = true := by
  cases h1 : bytesLt a b with
  | true => exact Or.inl rfl
  | false =>
    cases h2 : bytesLt b a with
    | true => exact Or.inr (Or.inr rfl)
    | false => exact Or.inr (Or.inl (bytesLt_trichotomy h1 h2))

theorem isPrefix_append (p x : Bytes) : isPrefix p (p ++ x) = true := by
  induction p with
  | nil => rfl
  | cons a as ih => simp [isPrefix, ih]

theorem isPrefix_iff (p k : Bytes) : isPrefix p k = true ↔ ∃ x, k = p ++ x := by
  induction p generalizing k with
  | nil => simp [isPrefix]
  | cons a as ih =>
    cases k with
    | nil => simp [isPrefix]
    | cons b bs =>
      simp only [isPrefix, Bool.and_eq_true, beq_iff_eq, ih, List.cons_append, List.cons.injEq]
      constructor
      · rintro ⟨rfl, x, rfl⟩; exact ⟨x, rfl, rfl⟩
      · rintro ⟨x, rfl, rfl⟩; exact ⟨rfl, x, rfl⟩

end ZV

namespace ZV.Kv
open ZV ZV.KvLogic

/-- a raw layer in strictly ascending key order (what memdb / leveldb iterate); implies key uniqueness -/
def Sorted (r : Raw) : Prop := r.Pairwise (fun a b => bytesLt a.1 b.1 = true)

theorem Sorted.nil : Sorted [] := List.Pairwise.nil

theorem sorted_cons {e : Bytes × Bytes} {t : Raw} :
    Sorted (e :: t) ↔ (∀ x ∈ t, bytesLt e.1 x.1 = true) ∧ Sorted t := List.pairwise_cons

theorem Sorted.tail {e : Bytes × Bytes} {t : Raw} (h : Sorted (e :: t)) : Sorted t := (sorted_cons.1 h).2

/-! ### membership vs. lookup -/

theorem rget_eq_none_of_lt {t : Raw} {k : Bytes} (h : ∀ x ∈ t, bytesLt k x.1 = true) : rget t k = none := by
  induction t with
  | nil => rfl
  | cons e t ih =>
    obtain ⟨k', v⟩ := e
    have h1 : bytesLt k k' = true := h (k', v) (by simp)
    have hne : k' ≠ k := fun e => bytesLt_ne h1 e.symm
    simp only [rget, hne, if_false]
    exact ih (fun x hx => h x (by simp [hx]))

theorem mem_of_rget {r : Raw} {k v : Bytes} (h : rget r k = some v) : (k, v) ∈ r := by
  induction r with
  | nil => simp [rget] at h
  | cons e t ih =>
    obtain ⟨k', v'⟩ := e
    simp only [rget] at h
    by_cases hk : k' = k
    · simp only [hk, if_true, Option.some.injEq] at h
      simp [hk, h]
    · simp only [hk, if_false] at h
      exact List.mem_cons_of_mem _ (ih h)

theorem rget_of_mem {r : Raw} (hs : Sorted r) {k v : Bytes} (h : (k, v) ∈ r) : rget r k = some v := by
  induction r with
  | nil => simp at h
  | cons e t ih =>
    obtain ⟨k', v'⟩ := e
    obtain ⟨hlt, ht⟩ := sorted_cons.1 hs
    rcases List.mem_cons.1 h with h | h
    · cases h; simp [rget]
    · have : bytesLt k' k = true := hlt (k, v) h
      have hne : k' ≠ k := bytesLt_ne this
      simp only [rget, hne, if_false]
      exact ih ht h

/-- in a sorted layer the entries are exactly the graph of `rget` -/
theorem mem_iff_rget {r : Raw} (hs : Sorted r) (k v : Bytes) : (k, v) ∈ r ↔ rget r k = some v :=
  ⟨rget_of_mem hs, mem_of_rget⟩

theorem rget_none_iff {r : Raw} (k : Bytes) : rget r k = none ↔ ∀ v, (k, v) ∉ r := by
  induction r with
  | nil => simp [rget]
  | cons e t ih =>
    obtain ⟨k', v'⟩ := e
    by_cases hk : k' = k
    · subst hk
      simp only [rget, if_true]
      constructor
      · intro h; cases h
      · intro h; exact absurd (List.mem_cons_self) (h v')
    · simp only [rget, hk, if_false, ih, List.mem_cons, Prod.mk.injEq]
      constructor
      · intro h v hv
        rcases hv with ⟨h1, _⟩ | hv
        · exact hk h1.symm
        · exact h v hv
      · intro h v hv; exact h v (Or.inr hv)

/-- sorted layers are determined by their lookup function (canonical form) -/
theorem sorted_ext {a b : Raw} (ha : Sorted a) (hb : Sorted b) (h : ∀ k, rget a k = rget b k) : a = b := by
  induction a generalizing b with
  | nil =>
    cases b with
    | nil => rfl
    | cons e t =>
      obtain ⟨k, v⟩ := e
      have := h k
      simp [rget] at this
  | cons e ta ih =>
    obtain ⟨ka, va⟩ := e
    cases b with
    | nil =>
      have := h ka
      simp [rget] at this
    | cons e' tb =>
      obtain ⟨kb, vb⟩ := e'
      obtain ⟨hla, hta⟩ := sorted_cons.1 ha
      obtain ⟨hlb, htb⟩ := sorted_cons.1 hb
      have hk : ka = kb := by
        rcases bytesLt_total ka kb with hlt | heq | hgt
        · -- ka is below every key of b, yet b must answer for it
          have h1 := h ka
          have : rget ((kb, vb) :: tb) ka = none :=
            rget_eq_none_of_lt (fun x hx => by
              rcases List.mem_cons.1 hx with hx | hx
              · subst hx; exact hlt
              · exact bytesLt_trans hlt (hlb x hx))
          rw [this] at h1; simp [rget] at h1
        · exact heq
        · have h1 := h kb
          have : rget ((ka, va) :: ta) kb = none :=
            rget_eq_none_of_lt (fun x hx => by
              rcases List.mem_cons.1 hx with hx | hx
              · subst hx; exact hgt
              · exact bytesLt_trans hgt (hla x hx))
          rw [this] at h1; simp [rget] at h1
      subst hk
      have hv : va = vb := by
        have := h ka; simpa [rget] using this
      subst hv
      have htl : ∀ k, rget ta k = rget tb k := by
        intro k
        by_cases hk : ka = k
        · subst hk
          rw [rget_eq_none_of_lt hla, rget_eq_none_of_lt hlb]
        · have := h k
          simpa [rget, hk] using this
      rw [ih hta htb htl]

/-! ### `rput`, `rscan` keep a layer sorted -/

theorem mem_rput {s : Raw} {k v : Bytes} {x : Bytes × Bytes} (h : x ∈ rput s k v) : x = (k, v) ∨ x ∈ s := by
  induction s with
  | nil => simp [rput] at h; exact Or.inl h
  | cons e t ih =>
    obtain ⟨k', v'⟩ := e
    simp only [rput] at h
    split at h
    · rcases List.mem_cons.1 h with h | h
      · exact Or.inl h
      · exact Or.inr h
    · split at h
      · rcases List.mem_cons.1 h with h | h
        · exact Or.inl h
        · exact Or.inr (List.mem_cons_of_mem _ h)
      · rcases List.mem_cons.1 h with h | h
        · exact Or.inr (by simp [h])
        · rcases ih h with h | h
          · exact Or.inl h
          · exact Or.inr (List.mem_cons_of_mem _ h)

theorem Sorted.rput {s : Raw} (hs : Sorted s) (k v : Bytes) : Sorted (rput s k v) := by
  induction s with
  | nil => simp [Kv.rput, Sorted]
  | cons e t ih =>
    obtain ⟨k', v'⟩ := e
    obtain ⟨hlt, ht⟩ := sorted_cons.1 hs
    simp only [Kv.rput]
    by_cases h1 : bytesLt k k' = true
    · simp only [h1, if_true]
      refine sorted_cons.2 ⟨?_, hs⟩
      intro x hx
      rcases List.mem_cons.1 hx with hx | hx
      · subst hx; exact h1
      · exact bytesLt_trans h1 (hlt x hx)
    · by_cases h2 : k = k'
      · subst h2
        simp only [h1, if_true]
        exact sorted_cons.2 ⟨hlt, ht⟩
      · simp only [h1, h2, if_false]
        refine sorted_cons.2 ⟨?_, ih ht⟩
        intro x hx
        rcases mem_rput hx with hx | hx
        · subst hx
          rcases bytesLt_total k k' with h | h | h
          · exact absurd h h1
          · exact absurd h h2
          · exact h
        · exact hlt x hx

theorem Sorted.filter {s : Raw} (hs : Sorted s) (f : Bytes × Bytes → Bool) : Sorted (s.filter f) :=
  List.Pairwise.filter f hs

theorem Sorted.rscan {s : Raw} (hs : Sorted s) (p : Bytes) : Sorted (rscan s p) := hs.filter _

theorem Sorted.edApplyOp {s : Raw} (hs : Sorted s) (o : Op) : Sorted (edApplyOp s o) := by
  cases o <;> exact hs.rput _ _

theorem Sorted.edApply {s : Raw} (hs : Sorted s) (p : Patch) : Sorted (edApply s p) := by
  induction p generalizing s with
  | nil => exact hs
  | cons o t ih => exact ih (hs.edApplyOp o)

theorem Sorted.woApplyOp {s : Raw} (hs : Sorted s) (o : Op) : Sorted (woApplyOp s o) := by
  cases o <;> simp only [Kv.woApplyOp] <;> split <;> first | exact hs | exact hs.rput _ _

theorem Sorted.woApply {s : Raw} (hs : Sorted s) (p : Patch) : Sorted (woApply s p) := by
  induction p generalizing s with
  | nil => exact hs
  | cons o t ih => exact ih (hs.woApplyOp o)

/-- the consumer-side decoding of a scan keeps the key order -/
theorem Sorted.edEntries {s : Raw} (hs : Sorted s) : Sorted (edEntries s) := by
  induction s with
  | nil => exact Sorted.nil
  | cons e t ih =>
    obtain ⟨k, v⟩ := e
    obtain ⟨hlt, ht⟩ := sorted_cons.1 hs
    have hmem : ∀ x ∈ Kv.edEntries t, ∃ y ∈ t, y.1 = x.1 := by
      intro x hx
      simp only [Kv.edEntries, List.mem_filterMap] at hx
      obtain ⟨y, hy, hyx⟩ := hx
      refine ⟨y, hy, ?_⟩
      cases hv : y.2 with
      | nil => simp [hv] at hyx
      | cons c w => simp only [hv, Option.some.injEq] at hyx; rw [← hyx]
    cases v with
    | nil => simpa [Kv.edEntries] using ih ht
    | cons c w =>
      have : Kv.edEntries ((k, c :: w) :: t) = (k, w) :: Kv.edEntries t := by simp [Kv.edEntries]
      rw [this]
      refine sorted_cons.2 ⟨?_, ih ht⟩
      intro x hx
      obtain ⟨y, hy, hyx⟩ := hmem x hx
      rw [← hyx]; exact hlt y hy

/-! ### the two-way merged iterator -/

theorem merge2_nil_right (a : Raw) : merge2 a [] = a := by
  cases a <;> simp [merge2]

theorem merge2_nil_left (b : Raw) : merge2 [] b = b := by
  simp [merge2]

/-- every entry produced by the merged iterator comes from one of the layers -/
theorem mem_merge2 {a b : Raw} {x : Bytes × Bytes} (h : x ∈ merge2 a b) : x ∈ a ∨ x ∈ b := by
  fun_induction merge2 a b with
  | case1 b => exact Or.inr h
  | case2 a ta => exact Or.inl h
  | case3 ka va ta kb vb tb hlt ih =>
    rcases List.mem_cons.1 h with h | h
    · exact Or.inl (by simp [h])
    · rcases ih h with h | h
      · exact Or.inl (List.mem_cons_of_mem _ h)
      · exact Or.inr h
  | case4 ka va ta kb vb tb hlt hgt ih =>
    rcases List.mem_cons.1 h with h | h
    · exact Or.inr (by simp [h])
    · rcases ih h with h | h
      · exact Or.inl h
      · exact Or.inr (List.mem_cons_of_mem _ h)
  | case5 ka va ta kb vb tb hlt hgt ih =>
    rcases List.mem_cons.1 h with h | h
    · exact Or.inl (by simp [h])
    · rcases ih h with h | h
      · exact Or.inl (List.mem_cons_of_mem _ h)
      · exact Or.inr (List.mem_cons_of_mem _ h)

theorem Sorted.merge2 {a b : Raw} (ha : Sorted a) (hb : Sorted b) : Sorted (merge2 a b) := by
  fun_induction Kv.merge2 a b with
  | case1 b => exact hb
  | case2 a ta => exact ha
  | case3 ka va ta kb vb tb hlt ih =>
    obtain ⟨hla, hta⟩ := sorted_cons.1 ha
    obtain ⟨hlb, htb⟩ := sorted_cons.1 hb
    refine sorted_cons.2 ⟨?_, ih hta hb⟩
    intro x hx
    rcases mem_merge2 hx with hx | hx
    · exact hla x hx
    · rcases List.mem_cons.1 hx with hx | hx
      · subst hx; exact hlt
      · exact bytesLt_trans hlt (hlb x hx)
  | case4 ka va ta kb vb tb hlt hgt ih =>
    obtain ⟨hla, hta⟩ := sorted_cons.1 ha
    obtain ⟨hlb, htb⟩ := sorted_cons.1 hb
    refine sorted_cons.2 ⟨?_, ih ha htb⟩
    intro x hx
    rcases mem_merge2 hx with hx | hx
    · rcases List.mem_cons.1 hx with hx | hx
      · subst hx; exact hgt
      · exact bytesLt_trans hgt (hla x hx)
    · exact hlb x hx
  | case5 ka va ta kb vb tb hlt hgt ih =>
    obtain ⟨hla, hta⟩ := sorted_cons.1 ha
    obtain ⟨hlb, htb⟩ := sorted_cons.1 hb
    have hk : ka = kb := bytesLt_trichotomy (by simpa using hlt) (by simpa using hgt)
    subst hk
    refine sorted_cons.2 ⟨?_, ih hta htb⟩
    intro x hx
    rcases mem_merge2 hx with hx | hx
    · exact hla x hx
    · exact hlb x hx

/-- key/value characterisation of the merged iterator over sorted layers: it enumerates the merged lookup
    (`mergedDB.Get`: the first layer that holds the key answers) -/
theorem rget_merge2 {a b : Raw} (ha : Sorted a) (hb : Sorted b) (k : Bytes) :
    rget (merge2 a b) k = mget2 a b k := by
  fun_induction Kv.merge2 a b with
  | case1 b => simp [mget2, rget]
  | case2 a ta => simp only [mget2]; cases h : rget (a :: ta) k <;> simp [rget]
  | case3 ka va ta kb vb tb hlt ih =>
    obtain ⟨hla, hta⟩ := sorted_cons.1 ha
    rw [rget_cons, ih hta hb]
    simp only [mget2, rget_cons]
    by_cases h : k = ka <;> simp [h]
  | case4 ka va ta kb vb tb hlt hgt ih =>
    obtain ⟨hla, hta⟩ := sorted_cons.1 ha
    obtain ⟨hlb, htb⟩ := sorted_cons.1 hb
    rw [rget_cons, ih ha htb]
    simp only [mget2]
    by_cases h : k = kb
    · subst h
      have : rget ((ka, va) :: ta) k = none :=
        rget_eq_none_of_lt (fun x hx => by
          rcases List.mem_cons.1 hx with hx | hx
          · subst hx; exact hgt
          · exact bytesLt_trans hgt (hla x hx))
      simp [this, rget_cons]
    · simp [h, rget_cons]
  | case5 ka va ta kb vb tb hlt hgt ih =>
    obtain ⟨hla, hta⟩ := sorted_cons.1 ha
    obtain ⟨hlb, htb⟩ := sorted_cons.1 hb
    have hk : ka = kb := bytesLt_trichotomy (by simpa using hlt) (by simpa using hgt)
    subst hk
    rw [rget_cons, ih hta htb]
    simp only [mget2, rget_cons]
    by_cases h : k = ka <;> simp [h]

/-- membership characterisation of the merged iterator -/
theorem mem_merge2_iff {a b : Raw} (ha : Sorted a) (hb : Sorted b) (k v : Bytes) :
    (k, v) ∈ merge2 a b ↔ mget2 a b k = some v := by
  rw [mem_iff_rget (ha.merge2 hb), rget_merge2 ha hb]

theorem merge2_cons_lt (ka va : Bytes) (ta b : Raw) (h : ∀ x ∈ b, bytesLt ka x.1 = true) :
    merge2 ((ka, va) :: ta) b = (ka, va) :: merge2 ta b := by
  cases b with
  | nil => simp [merge2_nil_right]
  | cons e tb =>
    obtain ⟨kb, vb⟩ := e
    have : bytesLt ka kb = true := h (kb, vb) (by simp)
    simp [merge2, this]

theorem merge2_cons_gt (kb vb : Bytes) (a tb : Raw) (h : ∀ x ∈ a, bytesLt kb x.1 = true) :
    merge2 a ((kb, vb) :: tb) = (kb, vb) :: merge2 a tb := by
  cases a with
  | nil => simp [merge2]
  | cons e ta =>
    obtain ⟨ka, va⟩ := e
    have h1 : bytesLt kb ka = true := h (ka, va) (by simp)
    have h2 : bytesLt ka kb = false := bytesLt_asymm h1
    simp [merge2, h1, h2]

theorem mem_filter_lt {t : Raw} {k : Bytes} (f : Bytes × Bytes → Bool) (h : ∀ x ∈ t, bytesLt k x.1 = true) :
    ∀ x ∈ t.filter f, bytesLt k x.1 = true := fun x hx => h x (List.mem_filter.1 hx).1

/-- merging commutes with any key predicate filter on sorted layers -/
theorem merge2_filter {a b : Raw} (ha : Sorted a) (hb : Sorted b) (f : Bytes → Bool) :
    merge2 (a.filter (fun e => f e.1)) (b.filter (fun e => f e.1)) = (merge2 a b).filter (fun e => f e.1) := by
  fun_induction Kv.merge2 a b with
  | case1 b => simp [merge2]
  | case2 a ta => simp [merge2_nil_right]
  | case3 ka va ta kb vb tb hlt ih =>
    obtain ⟨hla, hta⟩ := sorted_cons.1 ha
    obtain ⟨hlb, htb⟩ := sorted_cons.1 hb
    have ih' := ih hta hb
    rw [List.filter_cons (x := (ka, va)) (xs := ta),
      List.filter_cons (x := (ka, va)) (xs := merge2 ta ((kb, vb) :: tb)), ← ih']
    by_cases hf : f ka = true
    · simp only [hf, if_true]
      apply merge2_cons_lt
      apply mem_filter_lt
      intro x hx
      rcases List.mem_cons.1 hx with hx | hx
      · subst hx; exact hlt
      · exact bytesLt_trans hlt (hlb x hx)
    · simp only [hf]; rfl
  | case4 ka va ta kb vb tb hlt hgt ih =>
    obtain ⟨hla, hta⟩ := sorted_cons.1 ha
    obtain ⟨hlb, htb⟩ := sorted_cons.1 hb
    have ih' := ih ha htb
    rw [List.filter_cons (x := (kb, vb)) (xs := tb),
      List.filter_cons (x := (kb, vb)) (xs := merge2 ((ka, va) :: ta) tb), ← ih']
    by_cases hf : f kb = true
    · simp only [hf, if_true]
      apply merge2_cons_gt
      apply mem_filter_lt
      intro x hx
      rcases List.mem_cons.1 hx with hx | hx
      · subst hx; exact hgt
      · exact bytesLt_trans hgt (hla x hx)
    · simp only [hf]; rfl
  | case5 ka va ta kb vb tb hlt hgt ih =>
    obtain ⟨hla, hta⟩ := sorted_cons.1 ha
    obtain ⟨hlb, htb⟩ := sorted_cons.1 hb
    have hk : ka = kb := bytesLt_trichotomy (by simpa using hlt) (by simpa using hgt)
    subst hk
    have ih' := ih hta htb
    rw [List.filter_cons (x := (ka, va)) (xs := ta), List.filter_cons (x := (ka, vb)) (xs := tb),
      List.filter_cons (x := (ka, va)) (xs := merge2 ta tb), ← ih']
    by_cases hf : f ka = true
    · simp [hf, merge2, bytesLt_irrefl]
    · simp only [hf]; rfl

/-- T5 core: the merged iterator over the prefix iterators of two sorted layers is the prefix scan of the merge -/
theorem merge2_rscan {a b : Raw} (ha : Sorted a) (hb : Sorted b) (p : Bytes) :
    merge2 (rscan a p) (rscan b p) = rscan (merge2 a b) p :=
  merge2_filter ha hb (fun k => isPrefix p k)

/-! ### "the key-ordered list of exactly the entries satisfying P" -/

/-- `l` is the key-ordered enumeration of the relation `P` -/
def OrderedEntries (l : Raw) (P : Bytes → Bytes → Prop) : Prop :=
  Sorted l ∧ ∀ k v, (k, v) ∈ l ↔ P k v

/-- such an enumeration is unique: the specification pins the scan result down completely -/
theorem OrderedEntries.unique {l l' : Raw} {P : Bytes → Bytes → Prop}
    (h : OrderedEntries l P) (h' : OrderedEntries l' P) : l = l' := by
  apply sorted_ext h.1 h'.1
  intro k
  cases hk : rget l k with
  | none =>
    symm; rw [rget_none_iff]; intro v hv
    have := (h.2 k v).2 ((h'.2 k v).1 hv)
    rw [mem_iff_rget h.1, hk] at this; cases this
  | some v =>
    symm; rw [← mem_iff_rget h'.1, h'.2, ← h.2, mem_iff_rget h.1]; exact hk

theorem mem_edEntries {s : Raw} {k v : Bytes} : (k, v) ∈ edEntries s ↔ ∃ c, (k, c :: v) ∈ s := by
  simp only [edEntries, List.mem_filterMap]
  constructor
  · rintro ⟨⟨k', w⟩, hm, he⟩
    cases w with
    | nil => simp at he
    | cons c w =>
      simp only [Option.some.injEq, Prod.mk.injEq] at he
      obtain ⟨rfl, rfl⟩ := he
      exact ⟨c, hm⟩
  · rintro ⟨c, hm⟩
    exact ⟨(k, c :: v), hm, rfl⟩

end ZV.Kv

namespace ZV.Kv
open ZV ZV.KvLogic

theorem edDecode_eq_some {x : Option Bytes} {v : Bytes} : edDecode x = some v ↔ ∃ c, x = some (c :: v) := by
  cases x with
  | none => simp [edDecode]
  | some w =>
    cases w with
    | nil => simp [edDecode]
    | cons c w =>
      simp only [edDecode, Option.some.injEq, List.cons.injEq]
      constructor
      · rintro rfl; exact ⟨c, rfl, rfl⟩
      · rintro ⟨c', _, h⟩; exact h

theorem mem_rscan {s : Raw} {p : Bytes} {x : Bytes × Bytes} : x ∈ rscan s p ↔ x ∈ s ∧ isPrefix p x.1 = true := by
  simp [rscan, List.mem_filter]

/-- the merged prefix scan of two sorted layers is the key-ordered enumeration of the merged lookup on that prefix -/
theorem merged_scan_entries {a b : Raw} (ha : Sorted a) (hb : Sorted b) (p : Bytes) :
    OrderedEntries (merge2 (rscan a p) (rscan b p)) (fun k v => isPrefix p k = true ∧ mget2 a b k = some v) := by
  refine ⟨(ha.rscan p).merge2 (hb.rscan p), ?_⟩
  intro k v
  rw [merge2_rscan ha hb, mem_rscan, mem_merge2_iff ha hb]
  exact And.comm

/-- logical entries a consumer gets from a scan through the rollback overlay + enableDelete stack: the key-ordered
    list of exactly the entries of the reconstructed version under the prefix (empty values included) -/
theorem hist_scan_entries {rb base : Raw} (hrb : Sorted rb) (hbase : Sorted base) (p : Bytes) :
    OrderedEntries (edEntries (merge2 (rscan rb p) (rscan base p)))
      (fun k v => isPrefix p k = true ∧ viewOf (oabs rb) (abs base) k = some v) := by
  refine ⟨((hrb.rscan p).merge2 (hbase.rscan p)).edEntries, ?_⟩
  intro k v
  show _ ↔ isPrefix p k = true ∧ viewOf (oabs rb) (abs base) k = some v
  rw [mem_edEntries, ← edDecode_mget2, edDecode_eq_some]
  constructor
  · rintro ⟨c, hc⟩
    have := ((merged_scan_entries hrb hbase p).2 k (c :: v)).1 hc
    exact ⟨this.1, c, this.2⟩
  · rintro ⟨hp, c, hc⟩
    exact ⟨c, ((merged_scan_entries hrb hbase p).2 k (c :: v)).2 ⟨hp, hc⟩⟩

/-- logical entries a consumer gets from a scan of a single sorted layer through enableDelete -/
theorem front_scan_entries {base : Raw} (hbase : Sorted base) (p : Bytes) :
    OrderedEntries (edEntries (rscan base p)) (fun k v => isPrefix p k = true ∧ abs base k = some v) := by
  refine ⟨(hbase.rscan p).edEntries, ?_⟩
  intro k v
  show _ ↔ isPrefix p k = true ∧ abs base k = some v
  rw [mem_edEntries]
  simp only [abs, edDecode_eq_some, mem_rscan, mem_iff_rget hbase]
  constructor
  · rintro ⟨c, h1, h2⟩; exact ⟨h2, c, h1⟩
  · rintro ⟨h2, c, h1⟩; exact ⟨c, h1, h2⟩

end ZV.Kv
