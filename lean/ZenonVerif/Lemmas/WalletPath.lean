import ZenonVerif.Model.Wallet
/-
Helper lemmas for C19-T1/T2: the automaton of `pathRegex`, `strings.Split`, `strings.TrimRight` and
`strconv.ParseUint` on strings of the path grammar. Core Lean only.
-/
namespace ZV.Wallet
open ZV

/-! ### digits -/

theorem isDigit_ne_slash {c : Nat} (h : isDigit c = true) : c ≠ cSlash := by
  simp [isDigit, cSlash] at *; omega

theorem isDigit_ne_quote {c : Nat} (h : isDigit c = true) : c ≠ cQuote := by
  simp [isDigit, cQuote] at *; omega

theorem isDigit_ne_m {c : Nat} (h : isDigit c = true) : c ≠ cM := by
  simp [isDigit, cM] at *; omega

theorem isDigit_slash : isDigit cSlash = false := by decide
theorem isDigit_quote : isDigit cQuote = false := by decide

/-- the body of a path after the leading `m` -/
def body (segs : List Bytes) : Bytes := segs.flatMap (fun d => cSlash :: (d ++ [cQuote]))

theorem body_nil : body [] = [] := rfl

theorem body_cons (d : Bytes) (segs : List Bytes) :
    body (d :: segs) = cSlash :: (d ++ cQuote :: body segs) := by
  simp [body]

theorem pathOf_eq (segs : List Bytes) : pathOf segs = cM :: body segs := rfl

/-! ### the automaton -/

theorem prun_dead (s : Bytes) : prun .dead s = .dead := by
  induction s with
  | nil => rfl
  | cons c cs ih => simpa [prun, pstep] using ih

theorem prun_inDigits_fwd (d rest : Bytes) (h : d.all isDigit = true) :
    prun .inDigits (d ++ cQuote :: rest) = prun .afterQuote rest := by
  induction d with
  | nil => simp [prun, pstep, isDigit_quote]
  | cons c cs ih =>
    simp only [List.all_cons, Bool.and_eq_true] at h
    simp [prun, pstep, h.1, ih h.2]

theorem prun_afterSlash_fwd (d rest : Bytes) (h : DigitStr d) :
    prun .afterSlash (d ++ cQuote :: rest) = prun .afterQuote rest := by
  obtain ⟨hne, hall⟩ := h
  cases d with
  | nil => exact absurd rfl hne
  | cons c cs =>
    simp only [List.all_cons, Bool.and_eq_true] at hall
    simp only [List.cons_append, prun, pstep, hall.1, if_true]
    exact prun_inDigits_fwd cs rest hall.2

theorem prun_afterQuote_body (segs : List Bytes) (h : ∀ d ∈ segs, DigitStr d) :
    prun .afterQuote (body segs) = .afterQuote := by
  induction segs with
  | nil => rfl
  | cons d segs ih =>
    rw [body_cons]
    simp only [prun, pstep, if_true]
    rw [prun_afterSlash_fwd d _ (h d (by simp))]
    exact ih (fun e he => h e (by simp [he]))

theorem prun_inDigits_inv (s : Bytes) (h : prun .inDigits s = .afterQuote) :
    ∃ d rest, d.all isDigit = true ∧ s = d ++ cQuote :: rest ∧ prun .afterQuote rest = .afterQuote := by
  induction s with
  | nil => simp [prun] at h
  | cons c cs ih =>
    simp only [prun, pstep] at h
    by_cases hd : isDigit c = true
    · simp only [hd, if_true] at h
      obtain ⟨d, rest, hall, hs, hr⟩ := ih h
      exact ⟨c :: d, rest, by simp [hd, hall], by simp [hs], hr⟩
    · simp only [hd] at h
      by_cases hq : c = cQuote
      · simp only [hq, if_true] at h
        exact ⟨[], cs, rfl, by simp [hq], h⟩
      · simp [hq, prun_dead] at h

theorem prun_afterSlash_inv (s : Bytes) (h : prun .afterSlash s = .afterQuote) :
    ∃ d rest, DigitStr d ∧ s = d ++ cQuote :: rest ∧ prun .afterQuote rest = .afterQuote := by
  cases s with
  | nil => simp [prun] at h
  | cons c cs =>
    simp only [prun, pstep] at h
    by_cases hd : isDigit c = true
    · simp only [hd, if_true] at h
      obtain ⟨d, rest, hall, hs, hr⟩ := prun_inDigits_inv cs h
      exact ⟨c :: d, rest, ⟨by simp, by simp [hd, hall]⟩, by simp [hs], hr⟩
    · simp [hd, prun_dead] at h

theorem prun_afterQuote_inv_aux (n : Nat) : ∀ s : Bytes, s.length ≤ n → prun .afterQuote s = .afterQuote →
    ∃ segs : List Bytes, (∀ d ∈ segs, DigitStr d) ∧ s = body segs := by
  induction n with
  | zero =>
    intro s hl _
    cases s with
    | nil => exact ⟨[], by simp, rfl⟩
    | cons c cs => simp at hl
  | succ n ih =>
    intro s hl h
    cases s with
    | nil => exact ⟨[], by simp, rfl⟩
    | cons c cs =>
      simp only [prun, pstep] at h
      by_cases hc : c = cSlash
      · simp only [hc, if_true] at h
        obtain ⟨d, rest, hd, hs, hr⟩ := prun_afterSlash_inv cs h
        have hlen : rest.length ≤ n := by
          have : cs.length = d.length + (rest.length + 1) := by rw [hs]; simp
          simp at hl; omega
        obtain ⟨segs, hsegs, hrest⟩ := ih rest hlen hr
        refine ⟨d :: segs, ?_, ?_⟩
        · intro e he
          rcases List.mem_cons.mp he with rfl | he
          · exact hd
          · exact hsegs e he
        · rw [body_cons, hc, hs, hrest]
      · simp [hc, prun_dead] at h

theorem prun_afterQuote_inv (s : Bytes) (h : prun .afterQuote s = .afterQuote) :
    ∃ segs : List Bytes, (∀ d ∈ segs, DigitStr d) ∧ s = body segs :=
  prun_afterQuote_inv_aux s.length s (Nat.le_refl _) h

theorem regexMatch_iff (p : Bytes) :
    regexMatch p = true ↔ ∃ segs : List Bytes, segs ≠ [] ∧ (∀ d ∈ segs, DigitStr d) ∧ p = pathOf segs := by
  constructor
  · intro h
    simp only [regexMatch, beq_iff_eq] at h
    cases p with
    | nil => simp [prun] at h
    | cons c cs =>
      simp only [prun, pstep] at h
      by_cases hc : c = cM
      · simp only [hc, if_true] at h
        cases cs with
        | nil => simp [prun] at h
        | cons c' cs' =>
          have h' : prun .afterQuote (c' :: cs') = .afterQuote := by
            simp only [prun, pstep] at h ⊢
            exact h
          obtain ⟨segs, hsegs, hb⟩ := prun_afterQuote_inv _ h'
          refine ⟨segs, ?_, hsegs, ?_⟩
          · intro hn
            rw [hn] at hb
            simp [body] at hb
          · rw [pathOf_eq, hc, hb]
      · simp [hc, prun_dead] at h
  · rintro ⟨segs, hne, hsegs, rfl⟩
    simp only [regexMatch, beq_iff_eq]
    cases segs with
    | nil => exact absurd rfl hne
    | cons d segs =>
      have := prun_afterQuote_body (d :: segs) hsegs
      rw [body_cons] at this
      rw [pathOf_eq, body_cons]
      simp only [prun, pstep, if_true] at this ⊢
      exact this

/-! ### `strings.Split` -/

theorem splitOn_ne_nil (sep : Nat) (s : Bytes) : splitOn sep s ≠ [] := by
  induction s with
  | nil => simp [splitOn]
  | cons c cs ih =>
    simp only [splitOn]
    split
    · simp
    · split <;> simp

theorem splitOn_nosep (sep : Nat) (d : Bytes) (h : ∀ c ∈ d, c ≠ sep) : splitOn sep d = [d] := by
  induction d with
  | nil => rfl
  | cons c cs ih =>
    have hc : c ≠ sep := h c (by simp)
    simp [splitOn, ih (fun e he => h e (by simp [he])), hc]

theorem splitOn_sep_cons (sep : Nat) (rest : Bytes) :
    splitOn sep (sep :: rest) = [] :: splitOn sep rest := by
  simp only [splitOn]
  split
  · next h => exact absurd h (splitOn_ne_nil sep rest)
  · next h => simp [h]

theorem splitOn_append_sep (sep : Nat) (d rest : Bytes) (h : ∀ c ∈ d, c ≠ sep) :
    splitOn sep (d ++ sep :: rest) = d :: splitOn sep rest := by
  induction d with
  | nil => simpa using splitOn_sep_cons sep rest
  | cons c cs ih =>
    have hc : c ≠ sep := h c (by simp)
    simp [splitOn, ih (fun e he => h e (by simp [he])), hc]

theorem digits_no_slash {d : Bytes} (h : d.all isDigit = true) : ∀ c ∈ d, c ≠ cSlash := by
  intro c hc
  exact isDigit_ne_slash (List.all_eq_true.mp h c hc)

theorem splitOn_body (x : Bytes) (hx : ∀ c ∈ x, c ≠ cSlash) (segs : List Bytes)
    (h : ∀ d ∈ segs, DigitStr d) :
    splitOn cSlash (x ++ body segs) = x :: segs.map (· ++ [cQuote]) := by
  induction segs generalizing x with
  | nil => simpa [body] using splitOn_nosep cSlash x hx
  | cons d segs ih =>
    rw [body_cons, splitOn_append_sep cSlash x _ hx]
    have hd : DigitStr d := h d (by simp)
    have := ih (d ++ [cQuote]) (by
      intro c hc
      rcases List.mem_append.mp hc with hc | hc
      · exact digits_no_slash hd.2 c hc
      · simp at hc; rw [hc]; decide) (fun e he => h e (by simp [he]))
    simp only [List.append_assoc, List.singleton_append] at this
    rw [this]
    simp

theorem segments_pathOf (segs : List Bytes) (h : ∀ d ∈ segs, DigitStr d) :
    segments (pathOf segs) = segs.map (· ++ [cQuote]) := by
  have := splitOn_body [cM] (by intro c hc; simp at hc; rw [hc]; decide) segs h
  simp only [List.singleton_append] at this
  rw [segments, pathOf_eq, this]
  rfl

/-! ### `strings.TrimRight` and `strconv.ParseUint` -/

theorem trimRight_quote (d : Bytes) (h : d.all isDigit = true) : trimRight cQuote (d ++ [cQuote]) = d := by
  have hall : d.reverse.all isDigit = true := by simpa using h
  have hdw : d.reverse.dropWhile (· == cQuote) = d.reverse := by
    cases hr : d.reverse with
    | nil => rfl
    | cons c cs =>
      rw [hr] at hall
      simp only [List.all_cons, Bool.and_eq_true] at hall
      have : c ≠ cQuote := isDigit_ne_quote hall.1
      simp [this]
  simp [trimRight, hdw]

theorem parseUint_digits (bits : Nat) (d : Bytes) (h : DigitStr d) :
    parseUint bits d = if decVal d < 2 ^ bits then some (decVal d) else none := by
  obtain ⟨hne, hall⟩ := h
  have : d.isEmpty = false := by
    cases d with
    | nil => exact absurd rfl hne
    | cons _ _ => rfl
  simp [parseUint, this, hall]

theorem parseBits_isValidPath : parseBits Gen.parseUintArgs_isValidPath = 32 := by decide

/-- T1 -/
theorem isValidPath_iff (p : Bytes) : isValidPath p = true ↔ PathGrammar p := by
  simp only [isValidPath, Bool.and_eq_true, regexMatch_iff, PathGrammar, parseBits_isValidPath]
  constructor
  · rintro ⟨⟨segs, hne, hsegs, rfl⟩, hall⟩
    refine ⟨segs, hne, ?_, rfl⟩
    intro d hd
    refine ⟨hsegs d hd, ?_⟩
    rw [segments_pathOf segs hsegs, List.all_eq_true] at hall
    have := hall (d ++ [cQuote]) (List.mem_map.mpr ⟨d, hd, rfl⟩)
    rw [trimRight_quote d (hsegs d hd).2, parseUint_digits 32 d (hsegs d hd)] at this
    rw [two32_eq]
    split at this
    · assumption
    · simp at this
  · rintro ⟨segs, hne, hsegs, rfl⟩
    refine ⟨⟨segs, hne, fun d hd => (hsegs d hd).1, rfl⟩, ?_⟩
    rw [segments_pathOf segs (fun d hd => (hsegs d hd).1), List.all_eq_true]
    intro seg hseg
    obtain ⟨d, hd, rfl⟩ := List.mem_map.mp hseg
    have hlt := (hsegs d hd).2
    rw [two32_eq] at hlt
    rw [trimRight_quote d (hsegs d hd).1.2, parseUint_digits 32 d (hsegs d hd).1]
    simp [hlt]

/-! ### decimal rendering -/

theorem decVal_append_single (l : Bytes) (c : Nat) : decVal (l ++ [c]) = 10 * decVal l + (c - 48) := by
  simp [decVal, List.foldl_append]

theorem decBytes_digitStr (n : Nat) : DigitStr (decBytes n) := by
  induction n using Nat.strongRecOn with
  | _ n ih =>
    rw [decBytes]
    split
    · next h =>
      refine ⟨by simp, ?_⟩
      simp [isDigit]; omega
    · next h =>
      have := ih (n / 10) (by omega)
      refine ⟨by simp, ?_⟩
      simp only [List.all_append, this.2, Bool.true_and]
      simp [isDigit]; omega

theorem decVal_decBytes (n : Nat) : decVal (decBytes n) = n := by
  induction n using Nat.strongRecOn with
  | _ n ih =>
    rw [decBytes]
    split
    · next h => simp [decVal]
    · next h =>
      rw [decVal_append_single, ih (n / 10) (by omega)]
      omega

theorem indexPath_eq (i : Nat) : indexPath i = pathOf [[52, 52], [55, 51, 52, 48, 52], decBytes i] := by
  simp [indexPath, pathOf, Gen.accountPathPrefix, Gen.accountPathSuffix, cM, cSlash, cQuote]

/-- the representation of a path by its digit strings is unique (needed to talk about "the segments of p") -/
theorem pathOf_injective (s₁ s₂ : List Bytes) (h₁ : ∀ d ∈ s₁, DigitStr d) (h₂ : ∀ d ∈ s₂, DigitStr d)
    (h : pathOf s₁ = pathOf s₂) : s₁ = s₂ := by
  have e : s₁.map (· ++ [cQuote]) = s₂.map (· ++ [cQuote]) := by
    rw [← segments_pathOf s₁ h₁, ← segments_pathOf s₂ h₂, h]
  exact (List.map_inj_right (fun a b hab => List.append_cancel_right hab)).mp e

end ZV.Wallet
