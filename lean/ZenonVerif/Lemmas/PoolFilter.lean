import ZenonVerif.Model.Pool
/-
Helper lemmas for C14-T5: invariants of the `filterBlocksToCommit` loop.
-/
namespace ZV.Pool

/-- a list ends at a batch boundary: it is empty or its last element is not a ContractSend -/
def Boundary {α : Type} (isCS : α → Bool) (l : List α) : Prop := ∀ x, l.getLast? = some x → isCS x = false

variable {α : Type} (isCS : α → Bool) (max : Nat)

theorem filterGo_prefix : ∀ (bs tc batch : List α), filterGo isCS max bs tc batch <+: tc ++ batch ++ bs := by
  intro bs
  induction bs with
  | nil => intro tc batch; simp only [filterGo, List.append_nil]; exact List.prefix_append _ _
  | cons b bs ih =>
    intro tc batch
    simp only [filterGo]
    split
    · have := ih tc (batch ++ [b]); simpa [List.append_assoc] using this
    · split
      · rw [List.append_assoc]; exact List.prefix_append _ _
      · have := ih (tc ++ (batch ++ [b])) []; simpa [List.append_assoc] using this

theorem filterGo_length : ∀ (bs tc batch : List α), tc.length ≤ max → (filterGo isCS max bs tc batch).length ≤ max := by
  intro bs
  induction bs with
  | nil => intro tc batch h; simpa [filterGo] using h
  | cons b bs ih =>
    intro tc batch h
    simp only [filterGo]
    split
    · exact ih _ _ h
    · split
      · exact h
      · apply ih; simp only [List.length_append] at *; omega

theorem filterGo_boundary : ∀ (bs tc batch : List α), Boundary isCS tc → Boundary isCS (filterGo isCS max bs tc batch) := by
  intro bs
  induction bs with
  | nil => intro tc batch h; simpa [filterGo] using h
  | cons b bs ih =>
    intro tc batch h
    simp only [filterGo]
    split
    · exact ih _ _ h
    · split
      · exact h
      · apply ih
        intro x hx
        rw [← List.append_assoc, List.getLast?_concat] at hx
        cases hx
        simpa using ‹¬ isCS b = true›

/-- a boundary prefix of `tc ++ batch`, where batch consists of ContractSends only, lies inside `tc` -/
theorem boundary_prefix_le (tc batch p : List α) (hb : ∀ x ∈ batch, isCS x = true)
    (hp : p <+: tc ++ batch) (hB : Boundary isCS p) : p.length ≤ tc.length := by
  apply Classical.byContradiction
  intro hlt
  have hlt : tc.length < p.length := by omega
  have e := List.prefix_iff_eq_take.mp hp
  rw [List.take_append, List.take_of_length_le (by omega)] at e
  generalize hq : List.take (p.length - tc.length) batch = q at e
  have hql : q.length = p.length - tc.length := by
    have := congrArg List.length e
    simp only [List.length_append] at this; omega
  have hqne : q ≠ [] := by intro h; rw [h] at hql; simp at hql; omega
  obtain ⟨x, hx⟩ : ∃ x, q.getLast? = some x := by
    cases h : q.getLast? with
    | none => exact absurd (List.getLast?_eq_none_iff.mp h) hqne
    | some x => exact ⟨x, rfl⟩
  have hxq : x ∈ q := by
    obtain ⟨ys, hys⟩ := List.getLast?_eq_some_iff.mp hx
    rw [hys]; simp
  have hxb : x ∈ batch := by rw [← hq] at hxq; exact List.mem_of_mem_take hxq
  have hpx : p.getLast? = some x := by rw [e, List.getLast?_append, hx]; rfl
  have := hB x hpx
  rw [hb x hxb] at this
  cases this

theorem filterGo_maximal : ∀ (bs tc batch p : List α), (∀ x ∈ batch, isCS x = true) →
    p <+: tc ++ batch ++ bs → Boundary isCS p → p.length ≤ max →
    p.length ≤ (filterGo isCS max bs tc batch).length := by
  intro bs
  induction bs with
  | nil =>
    intro tc batch p hb hp hB _
    simp only [filterGo]
    rw [List.append_nil] at hp
    exact boundary_prefix_le isCS tc batch p hb hp hB
  | cons b bs ih =>
    intro tc batch p hb hp hB hl
    simp only [filterGo]
    split
    · rename_i hcs
      apply ih tc (batch ++ [b]) p _ _ hB hl
      · intro x hx
        rcases List.mem_append.mp hx with h | h
        · exact hb x h
        · simp at h; rw [h]; exact hcs
      · simpa [List.append_assoc] using hp
    · split
      · rename_i hover
        apply boundary_prefix_le isCS tc batch p hb _ hB
        have h2 : tc ++ batch <+: tc ++ batch ++ (b :: bs) := List.prefix_append _ _
        apply List.prefix_of_prefix_length_le hp h2
        simp only [List.length_append, List.length_cons, List.length_nil] at *
        omega
      · apply ih (tc ++ (batch ++ [b])) [] p _ _ hB hl
        · intro x hx; cases hx
        · simpa [List.append_assoc] using hp

end ZV.Pool
