import ZenonVerif.Model.Crash
import ZenonVerif.Lemmas.LdbInv
/-
Helper lemmas for Props/C08Redeliver.lean: raw effect of replaying a patch (the keys of the patch end up with values that
depend on the patch alone, every other key is left as it was), and "commit, roll back, commit the same again" on `Ldb`.
-/
namespace ZV.CrashRedeliver
open ZV ZV.Kv ZV.KvLogic ZV.Versioned

theorem rget_edApplyOp (top : Raw) (o : Op) (x : Bytes) :
    rget (edApplyOp top o) x = if x = o.key then some (Crash.rawOf o) else rget top x := by
  cases o with
  | put k v => by_cases h : x = k <;> simp [edApplyOp, rget_rput, Op.key, Crash.rawOf, h]
  | del k => by_cases h : x = k <;> simp [edApplyOp, rget_rput, Op.key, Crash.rawOf, h]

theorem rget_edApply_not_mem (p : Patch) (top : Raw) (x : Bytes) (h : x ∉ keys p) :
    rget (edApply top p) x = rget top x := by
  induction p generalizing top with
  | nil => rfl
  | cons o t ih =>
    simp only [keys, List.map_cons, List.mem_cons, not_or] at h
    simp only [edApply, List.foldl_cons]
    have := ih (edApplyOp top o) (by simpa [keys] using h.2)
    simp only [edApply] at this
    rw [this, rget_edApplyOp, if_neg h.1]

/-- a key the patch touches holds, after the replay, a raw value that does not depend on the layer replayed onto -/
theorem rget_edApply_mem (p : Patch) (t1 t2 : Raw) (x : Bytes) (h : x ∈ keys p) :
    rget (edApply t1 p) x = rget (edApply t2 p) x := by
  induction p generalizing t1 t2 with
  | nil => simp [keys] at h
  | cons o t ih =>
    simp only [edApply, List.foldl_cons]
    by_cases hm : x ∈ keys t
    · have := ih (edApplyOp t1 o) (edApplyOp t2 o) hm
      simpa [edApply] using this
    · have hx : x = o.key := by
        simp only [keys, List.map_cons, List.mem_cons] at h
        rcases h with h | h
        · exact h
        · exact absurd (by simpa [keys] using h) hm
      have e1 := rget_edApply_not_mem t (edApplyOp t1 o) x hm
      have e2 := rget_edApply_not_mem t (edApplyOp t2 o) x hm
      simp only [edApply] at e1 e2
      rw [e1, e2, rget_edApplyOp, rget_edApplyOp, if_pos hx, if_pos hx]

theorem keys_rollbackPatch (g : Bytes → Option Bytes) (p : Patch) : keys (rollbackPatch g p) = keys p := by
  simp only [keys, rollbackPatch, List.map_map]
  apply List.map_congr_left
  intro o _
  exact undoOp_key g o

/-- replay, replay of ANY patch over the same keys, replay again: the raw layer is that after the first replay -/
theorem edApply_undo_redo {top : Raw} (hs : Sorted top) (p q : Patch) (hq : keys q = keys p) :
    edApply (edApply (edApply top p) q) p = edApply top p := by
  apply sorted_ext (((hs.edApply p).edApply q).edApply p) (hs.edApply p)
  intro k
  by_cases hk : k ∈ keys p
  · rw [rget_edApply_mem p _ top k hk]
  · rw [rget_edApply_not_mem p _ k hk, rget_edApply_not_mem q _ k (by rw [hq]; exact hk)]

theorem filter_ne_idem (l : List (Nat × Patch)) (h : Nat) (e : Patch) :
    ((h, e) :: l.filter (fun x => x.1 ≠ h)).filter (fun x => x.1 ≠ h) = l.filter (fun x => x.1 ≠ h) := by
  simp [List.filter_filter]

theorem isZero_eq {i : Id} (h : i.isZero = true) : i = Id.zero := by
  obtain ⟨n, b⟩ := i
  simp only [Id.isZero, Bool.and_eq_true, beq_iff_eq, List.isEmpty_iff] at h
  simp [Id.zero, h.1, h.2]

theorem frontierId_abs (s : Ldb) : s.frontierId = frontierIdOf (abs s.frontier) := rfl

theorem keyFrontierId_mem (ops : Patch) (id : Id) : keyFrontierId ∈ keys (ops ++ frontierOps id) := by
  simp [keys, frontierOps, Op.key]

/-- the view `Get(frontier)` hands to `Add`: the empty memdb for the zero identifier, else the frontier itself -/
theorem get_frontier (s : Ldb) :
    s.get s.frontierId = some (if s.frontierId.isZero then Root.mem else Root.front s.frontier) := by
  unfold Ldb.get
  by_cases hz : s.frontierId.isZero = true <;> simp [hz]

theorem root_front_get (b : Raw) : (Root.front b).get = abs b := rfl
theorem root_mem_get : Root.mem.get = fun _ => none := rfl

end ZV.CrashRedeliver
