import ZenonVerif.Model.Verify
/-
Helper lemmas for C03: what each check of the verifier model guarantees when it passes.
-/
namespace ZV.Verify
open ZV

theorem chk_ok {c : Bool} {r : Reason} : chk c r = .ok () ↔ c = false := by
  unfold chk; cases c <;> simp

theorem firstErr_nil : firstErr [] = .ok () := rfl

theorem firstErr_cons {x : R} {xs : List R} :
    firstErr (x :: xs) = .ok () ↔ x = .ok () ∧ firstErr xs = .ok () := by
  cases x with
  | ok u => simp [firstErr]
  | error e => simp [firstErr]

theorem firstErr_append {xs ys : List R} :
    firstErr (xs ++ ys) = .ok () ↔ firstErr xs = .ok () ∧ firstErr ys = .ok () := by
  induction xs with
  | nil => simp [firstErr]
  | cons x xs ih => simp [firstErr_cons, ih, and_assoc]

theorem firstErr_map {α : Type} {l : List α} {g : α → R} :
    firstErr (l.map g) = .ok () ↔ ∀ a ∈ l, g a = .ok () := by
  induction l with
  | nil => simp [firstErr]
  | cons a l ih => simp [firstErr_cons, ih]

/-- splits every `if`/`match` of the goal and closes the branches by simplification -/
macro "split_all" : tactic => `(tactic| ((repeat' split) <;> simp_all))

theorem getContext_ok {c : Cand} {f : Facts} (h : getContext c f = .ok ()) :
    c.b.h ≠ 0 ∧ (c.b.h = 1 → c.b.phz = true) ∧ (c.b.h ≠ 1 → c.b.phz = false) ∧
    c.b.maz = false ∧ f.maOn = true ∧ f.store = true := by
  simp only [getContext, getContextWith, heightChecks, firstErr_append, firstErr_cons, firstErr_nil, chk_ok, and_true] at h
  obtain ⟨⟨h1, h2, h3⟩, h4, h5, h6⟩ := h
  refine ⟨by simpa using h1, ?_, ?_, h4, by simpa using h5, ?_⟩
  · intro e; simpa [e] using h2
  · intro e; simpa [e] using h3
  · cases hs : f.store with
    | true => rfl
    | false =>
      simp only [hs] at h6
      exfalso; revert h6
      split_all

theorem version_ok {s : Subj} {f : Facts} (h : version s f = .ok ()) : s.b.ver = 1 := by
  simp only [version, firstErr_cons, firstErr_nil, chk_ok, and_true] at h
  simpa using h.2

theorem chainIdentifier_ok {s : Subj} {f : Facts} (h : chainIdentifier s f = .ok ()) :
    s.b.cid ≠ 0 ∧ s.b.cid = f.ccid := by
  simp only [chainIdentifier, firstErr_cons, firstErr_nil, chk_ok, and_true] at h
  exact ⟨by simpa using h.1, by simpa using h.2⟩

theorem blockType_ok {s : Subj} {f : Facts} (h : blockType s f = .ok ()) :
    (s.b.emb = true → s.b.bt = Gen.BlockTypeContractReceive ∨ s.b.bt = Gen.BlockTypeContractSend) ∧
    (s.b.emb = false → s.b.bt = Gen.BlockTypeUserReceive ∨ s.b.bt = Gen.BlockTypeUserSend) := by
  simp only [blockType, firstErr_cons, firstErr_nil, chk_ok, and_true] at h
  obtain ⟨_, _, _, h4⟩ := h
  constructor
  · intro e
    have h5 : ¬s.b.bt = Gen.BlockTypeContractReceive → s.b.bt = Gen.BlockTypeContractSend := by
      simpa [e, chk_ok] using h4
    exact Decidable.or_iff_not_imp_left.mpr h5
  · intro e
    have h5 : ¬s.b.bt = Gen.BlockTypeUserReceive → s.b.bt = Gen.BlockTypeUserSend := by
      simpa [e, chk_ok] using h4
    exact Decidable.or_iff_not_imp_left.mpr h5

theorem amounts_send_ok {s : Subj} {f : Facts} (h : amounts s f = .ok ()) (hs : isSend s.b = true) :
    ∃ a, s.b.amt = some a ∧ 0 ≤ a ∧ a.natAbs < 2 ^ Gen.AmountMaxBitLen ∧ (0 < a → s.b.tsz = false) ∧ s.b.fbz = true := by
  simp only [amounts, hs, if_true] at h
  cases ha : s.b.amt with
  | none => simp [ha] at h
  | some a =>
    simp only [ha, firstErr_cons, firstErr_nil, chk_ok, and_true, amountTooBig] at h
    obtain ⟨h1, h2, h3, h4⟩ := h
    refine ⟨a, rfl, by simpa using h1, by simpa using h2, ?_, by simpa using h4⟩
    intro hp
    cases ht : s.b.tsz with
    | false => rfl
    | true => simp [ht, hp] at h3

theorem amounts_receive_ok {s : Subj} {f : Facts} (h : amounts s f = .ok ()) (hs : isSend s.b = false) :
    (s.b.amt = none ∨ s.b.amt = some 0) ∧ s.b.tsz = true ∧ s.b.toz = true ∧ s.b.fbz = false := by
  simp only [amounts, hs] at h
  simp only [Bool.false_eq_true, if_false, firstErr_cons, firstErr_nil, chk_ok, and_true] at h
  obtain ⟨h1, h2, h3, h4⟩ := h
  refine ⟨?_, by simpa using h2, by simpa using h3, h4⟩
  cases ha : s.b.amt with
  | none => exact Or.inl rfl
  | some a => right; simp [ha] at h1; simp [h1]

theorem previous_ok {s : Subj} {f : Facts} (h : previous s f = .ok ()) :
    s.b.h ≠ 1 → s.b.emb = false → s.sfp = 1 := by
  intro h1 he
  simp only [previous, heightChecks, firstErr_append, firstErr_cons, firstErr_nil, chk_ok, and_true] at h
  have h4 := h.2
  have : (s.b.h == 1) = false := by simpa using h1
  simp only [this, he, Bool.false_eq_true, if_false, firstErr_cons, firstErr_nil, chk_ok, and_true] at h4
  simpa using h4.2

theorem momentumAcknowledged_user_ok {s : Subj} {f : Facts} (h : momentumAcknowledged s f = .ok ())
    (he : s.b.emb = false) (hz : s.prevZeroHH = false) : ∃ p, s.pmah = some p ∧ p ≤ s.b.mah := by
  simp only [momentumAcknowledged, isBatched, isContractReceive, he, Bool.and_false, Bool.false_eq_true, if_false, hz,
    Bool.not_false, if_true] at h
  cases hp : s.pmah with
  | none => simp [hp] at h
  | some p =>
    simp only [hp, chk_ok] at h
    exact ⟨p, rfl, by simpa using h⟩

theorem momentumAcknowledged_contract_ok {s : Subj} {f : Facts} (h : momentumAcknowledged s f = .ok ())
    (he : s.b.emb = true) (hr : isReceive s.b = true) (hns : isSend s.b = false) :
    s.top = true ∧ (∀ x ∈ s.descMaSame, x = true) ∧ f.fconf = s.b.mah := by
  simp only [momentumAcknowledged, isBatched, isContractReceive, he, hr, hns, Bool.and_true, Bool.false_eq_true, if_false,
    if_true] at h
  cases ht : s.top with
  | false => simp [ht] at h
  | true =>
    simp only [ht, Bool.not_true, Bool.false_eq_true, if_false, firstErr_cons, firstErr_nil, chk_ok, and_true] at h
    refine ⟨rfl, ?_, by simpa using h.2⟩
    have := h.1
    simpa using this

theorem fromHash_ok {s : Subj} {f : Facts} (h : fromHash s f = .ok ()) (hns : isSend s.b = false) :
    s.top = true ∧ f.fex = true ∧ (f.gate = true → f.ftome = true) ∧ f.recvd = false := by
  simp only [fromHash, hns, Bool.false_eq_true, if_false] at h
  cases ht : s.top with
  | false => simp [ht] at h
  | true =>
    simp only [ht, Bool.not_true, Bool.false_eq_true, if_false, firstErr_cons, firstErr_nil, chk_ok, and_true] at h
    obtain ⟨h1, h2, h3⟩ := h
    refine ⟨rfl, by simpa using h1, ?_, h3⟩
    intro hg
    cases hf : f.ftome with
    | true => rfl
    | false => simp [hf, hg] at h2

theorem sequencer_ok {s : Subj} {f : Facts} (h : sequencer s f = .ok ()) (he : s.b.emb = true)
    (hr : isReceive s.b = true) : f.seq = 1 := by
  simp only [sequencer, he, hr, Bool.and_true, if_true] at h
  cases ht : s.top with
  | false => simp [ht] at h
  | true =>
    simp only [ht, Bool.not_true, Bool.false_eq_true, if_false, firstErr_cons, firstErr_nil, chk_ok, and_true] at h
    simpa using h.2

/-- the nine checks, unfolded -/
theorem abAll_ok {s : Subj} {f : Facts} (h : abAll s f = .ok ()) :
    version s f = .ok () ∧ chainIdentifier s f = .ok () ∧ blockType s f = .ok () ∧ amounts s f = .ok () ∧
    powCheck s f = .ok () ∧ previous s f = .ok () ∧ momentumAcknowledged s f = .ok () ∧ fromHash s f = .ok () ∧
    sequencer s f = .ok () := by
  simpa only [abAll, allChecks, List.map, firstErr_cons, firstErr_nil, and_true] using h

theorem txHash_ok {c : Cand} {f : Facts} (h : txHash c f = .ok ()) :
    c.b.hz = false ∧ f.hok = true := by
  simp only [txHash, firstErr_cons, firstErr_nil, chk_ok, and_true] at h
  exact ⟨h.1, by simpa using h.2⟩

theorem txDescendantBlocks_user_ok {c : Cand} {f : Facts} (h : txDescendantBlocks c f = .ok ())
    (he : c.b.emb = false) : c.descs = [] := by
  have hcr : isContractReceive c.b = false := by simp [isContractReceive, he]
  simp only [txDescendantBlocks, hcr, Bool.false_eq_true, if_false, firstErr_cons, chk_ok] at h
  have h1 := h.1
  simp only [Bool.not_false, Bool.true_and] at h1
  have : ¬ c.descs.length > 0 := by simpa using h1
  exact List.eq_nil_of_length_eq_zero (by omega)

theorem isSend_isReceive_of_type {b : Blk} :
    (b.bt = Gen.BlockTypeUserSend → isSend b = true ∧ isReceive b = false) ∧
    (b.bt = Gen.BlockTypeUserReceive → isSend b = false ∧ isReceive b = true) ∧
    (b.bt = Gen.BlockTypeContractReceive → isSend b = false ∧ isReceive b = true) ∧
    (b.bt = Gen.BlockTypeContractSend → isSend b = true ∧ isReceive b = false) := by
  refine ⟨?_, ?_, ?_, ?_⟩ <;> intro e <;> simp [isSend, isReceive, e] <;> decide

end ZV.Verify
