import ZenonVerif.Lemmas.LedgerReach
/-
At-most-once receive and the FIFO discipline of contract inboxes (C04), inbox progress (C09).
-/
namespace ZV.Ledger

/-! ### monotonicity along a history -/

theorem findSend_append_left {l : List Send} {h : Hash} {y : Send} (hf : findSend l h = some y) (l' : List Send) :
    findSend (l ++ l') h = some y := by
  induction l with
  | nil => simp [findSend] at hf
  | cons x r ih =>
    simp only [List.cons_append, findSend] at hf ⊢
    split
    · rename_i he; simpa [he] using hf
    · rename_i he; simp only [he, if_false] at hf; exact ih hf

/-- confirmed sends and receive markers are never removed, the gate never changes -/
theorem Reach.mono {s0 s : State} (hr : Reach s0 s) :
    s.gate = s0.gate ∧ (∃ ss, s.sends = s0.sends ++ ss) ∧ ∃ mm, s.recv = mm ++ s0.recv := by
  induction hr with
  | refl => exact ⟨rfl, ⟨[], by simp⟩, ⟨[], by simp⟩⟩
  | step e _ _ hok ih =>
    obtain ⟨g, ⟨ss, hs⟩, ⟨mm, hm⟩⟩ := ih
    obtain ⟨g', hs', hm'⟩ := step_frame hok
    refine ⟨g'.trans g, ⟨ss ++ e.newSends, ?_⟩, ⟨e.markers ++ mm, ?_⟩⟩
    · rw [hs', hs, List.append_assoc]
    · rw [hm', hm, List.append_assoc]

/-! ### at most once -/

theorem nodup_map_of_inj_on {α β : Type} (f : α → β) : ∀ (l : List α), l.Nodup →
    (∀ x ∈ l, ∀ y ∈ l, f x = f y → x = y) → (l.map f).Nodup
  | [], _, _ => by simp
  | a :: r, hnd, hinj => by
    rw [List.nodup_cons] at hnd
    rw [List.map_cons, List.nodup_cons]
    refine ⟨?_, nodup_map_of_inj_on f r hnd.2 (fun x hx y hy => hinj x (List.mem_cons_of_mem _ hx) y (List.mem_cons_of_mem _ hy))⟩
    intro hm
    obtain ⟨y, hy, hfy⟩ := List.mem_map.1 hm
    have := hinj y (List.mem_cons_of_mem _ hy) a (List.mem_cons_self ..) hfy
    subst this
    exact hnd.1 hy

/-- under the gate every send hash occurs in at most one marker on the whole ledger -/
theorem WF.recv_hashes_nodup {s : State} (hw : WF s) (hg : s.gate = true) : (s.recv.map (·.2)).Nodup := by
  apply nodup_map_of_inj_on _ _ hw.recvNodup
  intro x hx y hy he
  obtain ⟨a, h⟩ := x
  obtain ⟨b, h'⟩ := y
  simp only at he
  subst he
  rw [hw.marker_unique hg hx hy]

theorem WF.marker_addressee {s : State} (hw : WF s) (hg : s.gate = true) {a : Addr} {h : Hash}
    (hm : (a, h) ∈ s.recv) : ∃ x, findSend s.sends h = some x ∧ x.dst = a := by
  obtain ⟨x, hx, hxh⟩ := List.mem_map.1 (hw.recvConfirmed _ hm)
  simp only at hxh
  refine ⟨x, ?_, hw.recvAddressee hg _ hm x hx hxh⟩
  rw [← hxh]; exact findSend_of_mem hw.sendHashes hx

/-- a second receive of the same send by the same account is refused, in every later state -/
theorem urecv_refused_later {s s1 s2 : State} {a : Addr} {h : Hash} (hok : urecv s a h = .ok s1)
    (hr : Reach s1 s2) : urecv s2 a h = .error .alreadyReceived := by
  obtain ⟨hemb, snd, hchk, rfl⟩ := urecv_ok hok
  obtain ⟨hfind, hdst, _⟩ := checkFrom_ok.1 hchk
  obtain ⟨hg, ⟨ss, hs⟩, ⟨mm, hm⟩⟩ := hr.mono
  have hfind2 : findSend s2.sends h = some snd := by
    rw [hs]; exact findSend_append_left hfind ss
  have hmem : (a, h) ∈ s2.recv := by
    rw [hm]; exact List.mem_append_right _ (List.mem_cons_self ..)
  have hg2 : (s2.gate && snd.dst != a) = false := by
    rw [hg]
    show (s.gate && snd.dst != a) = false
    cases hgs : s.gate with
    | false => rfl
    | true => simp [hdst hgs]
  unfold urecv
  simp only [hemb, Bool.false_eq_true, if_false]
  unfold checkFrom
  simp only [hfind2, hg2, Bool.false_eq_true, if_false, List.contains_iff_mem.2 hmem, if_true]
  rfl

/-- a contract cannot receive the same send again: it is never next in line once marked -/
theorem crecv_refused_of_marker {s : State} {c : Addr} {h : Hash} (hm : (c, h) ∈ s.recv) (st : Nat) (ds : List Desc) :
    crecv s c h st ds = .error .notNext := by
  unfold crecv
  split
  · rfl
  · rename_i nxt hnext
    split
    · rfl
    · rename_i hh
      simp only [bne_iff_ne, ne_eq, Decidable.not_not] at hh
      have hp := List.find?_some hnext
      simp only [Bool.and_eq_true, Bool.not_eq_true', beq_iff_eq] at hp
      rw [hh] at hp
      have := List.contains_iff_mem.2 hm
      rw [this] at hp
      exact absurd hp.2 (by simp)

/-! ### FIFO -/

/-- hashes received by `c`, oldest first (markers are consed, so this is the reverse) -/
def receivedBy (s : State) (c : Addr) : List Hash := ((s.recv.filter (fun m => m.1 == c)).map (·.2)).reverse

/-- hashes of the confirmed sends addressed to `c`, in confirmation order (the sequencer queue since genesis) -/
def inboxOf (s : State) (c : Addr) : List Hash := (s.sends.filter (fun x => x.dst == c)).map (·.hash)

/-- sends addressed to `c` that `c` has not received, in confirmation order (the live part of the sequencer queue) -/
def pendingFor (s : State) (c : Addr) : List Send :=
  s.sends.filter (fun x => x.dst == c && !s.recv.contains (c, x.hash))

def Fifo (s : State) : Prop := ∀ c, isEmbedded c = true → receivedBy s c <+: inboxOf s c

theorem mem_receivedBy {s : State} {c : Addr} {h : Hash} : h ∈ receivedBy s c ↔ (c, h) ∈ s.recv := by
  simp only [receivedBy, List.mem_reverse, List.mem_map, List.mem_filter, beq_iff_eq]
  constructor
  · rintro ⟨⟨a, h'⟩, ⟨hm, ha⟩, hh⟩
    simp only at ha hh
    subst ha; subst hh; exact hm
  · intro hm
    exact ⟨(c, h), ⟨hm, rfl⟩, rfl⟩

theorem nextInLine_eq_head (s : State) (c : Addr) : nextInLine s c = (pendingFor s c).head? := by
  simp only [nextInLine, pendingFor, List.head?_filter]

theorem nextInLine_eq_find (s : State) (c : Addr) :
    nextInLine s c = (s.sends.filter (fun x => x.dst == c)).find? (fun x => !s.recv.contains (c, x.hash)) := by
  simp only [nextInLine, List.find?_filter]
  congr 1
  funext a
  rw [Bool.eq_iff_iff]
  simp

/-- in a duplicate-free list whose first `R.length` keys are `R`, the first element whose key is not in `R` is the
    one right after the prefix -/
theorem find_after_prefix : ∀ (R : List Hash) (l : List Send) (rest : List Hash) (p : Send → Bool) (nxt : Send),
    l.map (·.hash) = R ++ rest → (l.map (·.hash)).Nodup → (∀ x ∈ l, p x = !R.contains x.hash) →
    l.find? p = some nxt → ∃ rest', rest = nxt.hash :: rest'
  | [], l, rest, p, nxt, hmap, _, hp, hf => by
    cases l with
    | nil => simp at hf
    | cons x l' =>
      have hpx : p x = true := by rw [hp x (List.mem_cons_self ..)]; simp
      simp only [List.find?_cons, hpx, Option.some.injEq] at hf
      subst hf
      simp only [List.map_cons, List.nil_append] at hmap
      exact ⟨l'.map (·.hash), hmap.symm⟩
  | r :: R', l, rest, p, nxt, hmap, hnd, hp, hf => by
    cases l with
    | nil => simp at hmap
    | cons x l' =>
      simp only [List.map_cons, List.cons_append, List.cons.injEq] at hmap
      obtain ⟨hxr, hmap'⟩ := hmap
      simp only [List.map_cons, List.nodup_cons] at hnd
      have hpx : p x = false := by
        rw [hp x (List.mem_cons_self ..), hxr]; simp
      simp only [List.find?_cons, hpx] at hf
      refine find_after_prefix R' l' rest p nxt hmap' hnd.2 ?_ hf
      intro y hy
      rw [hp y (List.mem_cons_of_mem _ hy)]
      have hne : y.hash ≠ r := by
        intro he
        apply hnd.1
        rw [hxr, ← he]
        exact List.mem_map.2 ⟨y, hy, rfl⟩
      simp [hne]

theorem inbox_nodup {s : State} (hw : WF s) (c : Addr) : (inboxOf s c).Nodup := by
  have hsub : List.Sublist ((s.sends.filter (fun x => x.dst == c)).map (·.hash)) (s.sends.map (·.hash)) :=
    List.Sublist.map _ List.filter_sublist
  exact hsub.nodup hw.sendHashes

/-- what is next in line is the entry of the queue right after the received prefix -/
theorem next_after_received {s : State} (hw : WF s) {c : Addr} {rest : List Hash} {nxt : Send}
    (hpre : inboxOf s c = receivedBy s c ++ rest) (hnext : nextInLine s c = some nxt) :
    ∃ rest', rest = nxt.hash :: rest' := by
  rw [nextInLine_eq_find] at hnext
  refine find_after_prefix (receivedBy s c) _ rest _ nxt hpre (inbox_nodup hw c) ?_ hnext
  intro x _
  congr 1
  rw [Bool.eq_iff_iff, List.contains_iff_mem, List.contains_iff_mem, mem_receivedBy]

theorem inboxOf_step {s s' : State} {e : Ev} (hok : step s e = .ok s') (c : Addr) :
    inboxOf s' c = inboxOf s c ++ (e.newSends.filter (fun x => x.dst == c)).map (·.hash) := by
  simp only [inboxOf, (step_frame hok).2.1, List.filter_append, List.map_append]

theorem receivedBy_step {s s' : State} {e : Ev} (hok : step s e = .ok s') (c : Addr) :
    receivedBy s' c = receivedBy s c ++ ((e.markers.filter (fun m => m.1 == c)).map (·.2)).reverse := by
  simp only [receivedBy, (step_frame hok).2.2, List.filter_append, List.map_append, List.reverse_append]

/-- the markers an accepted step adds for an embedded `c`: none, unless the step is `c`'s own contract receive -/
theorem markers_embedded {s s' : State} {e : Ev} (hok : step s e = .ok s') {c : Addr} (hc : isEmbedded c = true) :
    e.markers.filter (fun m => m.1 == c) = [] ∨ ∃ h st ds, e = .crecv c h st ds := by
  cases e with
  | usend src dst tok amt h call => left; rfl
  | urecv a h =>
    left
    obtain ⟨hemb, _⟩ := urecv_ok hok
    have : (a == c) = false := by
      simp only [beq_eq_false_iff_ne, ne_eq]
      intro he; subst he; rw [hc] at hemb; cases hemb
    simp [Ev.markers, this]
  | crecv c' h st ds =>
    by_cases he : c' = c
    · right; subst he; exact ⟨h, st, ds, rfl⟩
    · left
      have : (c' == c) = false := by simpa using he
      simp [Ev.markers, this]

theorem crecv_next {s s' : State} {c : Addr} {h : Hash} {st : Nat} {ds : List Desc}
    (hok : crecv s c h st ds = .ok s') : ∃ nxt, nextInLine s c = some nxt ∧ nxt.hash = h := by
  cases crecv_cases hok with
  | plain nxt snd hnext hh _ _ _ _ _ _ => exact ⟨nxt, hnext, hh⟩
  | token nxt snd out hnext hh _ _ _ _ _ _ _ => exact ⟨nxt, hnext, hh⟩

theorem step_fifo {s s' : State} {e : Ev} (hw : WF s) (hfifo : Fifo s) (hok : step s e = .ok s') : Fifo s' := by
  intro c hc
  obtain ⟨rest, hpre⟩ := hfifo c hc
  rw [inboxOf_step hok c, receivedBy_step hok c]
  generalize (e.newSends.filter (fun x => x.dst == c)).map (·.hash) = X
  rcases markers_embedded hok hc with hnone | ⟨h, st, ds, rfl⟩
  · rw [hnone]
    simp only [List.map_nil, List.reverse_nil, List.append_nil]
    exact ⟨rest ++ X, by rw [← List.append_assoc, hpre]⟩
  · obtain ⟨nxt, hnext, hh⟩ := crecv_next hok
    obtain ⟨rest', hrest⟩ := next_after_received hw hpre.symm hnext
    subst hrest
    subst hh
    simp only [Ev.markers, List.filter_cons, beq_self_eq_true, if_true, List.filter_nil, List.map_cons, List.map_nil,
      List.reverse_cons, List.reverse_nil, List.nil_append]
    refine ⟨rest' ++ X, ?_⟩
    rw [← hpre]
    simp only [List.append_assoc, List.cons_append, List.nil_append]

theorem Reach.fifo {s0 s : State} (hw : WF s0) (hf : Fifo s0) (hr : Reach s0 s) : WF s ∧ Fifo s := by
  induction hr with
  | refl => exact ⟨hw, hf⟩
  | step e _ ha hok ih => exact ⟨step_wf ih.1 ha.1 hok, step_fifo ih.1 ih.2 hok⟩

theorem fifo_init (g : Bool) : Fifo (State.init g) := by
  intro c _
  simp [receivedBy, inboxOf, State.init]

end ZV.Ledger
