import ZenonVerif.Model.EpochCursor
/-
Helper lemmas for Props/C11Node.lean (epoch cursor, deposits). Core Lean only.
-/
namespace ZV.EpochCursor

/-- the epochs `cur+1, cur+2, …, cur+n` -/
def consecutive (cur : Int) : Nat → List Int
  | 0 => []
  | n + 1 => (cur + 1) :: consecutive (cur + 1) n

theorem consecutive_length (cur : Int) (n : Nat) : (consecutive cur n).length = n := by
  induction n generalizing cur with
  | zero => rfl
  | succ n ih => simp [consecutive, ih]

theorem mem_consecutive {cur : Int} {n : Nat} {e : Int} : e ∈ consecutive cur n ↔ cur < e ∧ e ≤ cur + n := by
  induction n generalizing cur with
  | zero => simp [consecutive]; try omega
  | succ n ih =>
    simp only [consecutive, List.mem_cons, ih]
    omega

theorem consecutive_append (cur : Int) (m n : Nat) :
    consecutive cur m ++ consecutive (cur + m) n = consecutive cur (m + n) := by
  induction m generalizing cur with
  | zero => simp [consecutive]
  | succ m ih =>
    have : cur + ((m + 1 : Nat) : Int) = cur + 1 + (m : Int) := by omega
    rw [this]
    have e : m + 1 + n = (m + n) + 1 := by omega
    rw [e]
    simp only [consecutive, List.cons_append, ih]

theorem consecutive_pairwise (cur : Int) (n : Nat) : (consecutive cur n).Pairwise (· < ·) := by
  induction n generalizing cur with
  | zero => simp [consecutive]
  | succ n ih =>
    simp only [consecutive, List.pairwise_cons]
    refine ⟨?_, ih (cur + 1)⟩
    intro e he
    have := (mem_consecutive.mp he).1
    omega

theorem epochEnd_succ (c : Cfg) (e : Int) : epochEnd c (e + 1) = epochEnd c e + c.epochSec := by
  simp only [epochEnd, Int.mul_add, Int.mul_one]; omega

theorem epochEnd_mono (c : Cfg) {a b : Int} (h : a ≤ b) : epochEnd c a ≤ epochEnd c b := by
  unfold epochEnd
  have := Int.mul_le_mul_of_nonneg_left (show a + 1 ≤ b + 1 by omega) (Int.le_of_lt c.epochSec_pos)
  omega

theorem tooRecent_false_iff (c : Cfg) (cursor ts : Int) :
    tooRecent c cursor ts = false ↔ epochEnd c (cursor + 1) + c.rtl ≤ ts := by
  simp [tooRecent]

theorem tooRecent_true_iff (c : Cfg) (cursor ts : Int) :
    tooRecent c cursor ts = true ↔ ts < epochEnd c (cursor + 1) + c.rtl := by
  simp [tooRecent]

theorem catchUp_stop (c : Cfg) (ts cursor : Int) (h : tooRecent c cursor ts = true) : catchUp c ts cursor = (cursor, []) := by
  rw [catchUp]; simp [h]

theorem catchUp_step (c : Cfg) (ts cursor : Int) (h : tooRecent c cursor ts = false) :
    catchUp c ts cursor = ((catchUp c ts (cursor + 1)).1, (cursor + 1) :: (catchUp c ts (cursor + 1)).2) := by
  rw [catchUp]; simp [h]

theorem liqOrigin_stop (c : Cfg) (ts cursor : Int) (blocks : Nat) (h : tooRecent c cursor ts = true) :
    liqOrigin c ts cursor blocks = (cursor, []) := by
  rw [liqOrigin]; simp [h]

theorem liqOrigin_cap (c : Cfg) (ts cursor : Int) (blocks : Nat) (h : tooRecent c cursor ts = false) (hc : c.maxBlocks ≤ blocks) :
    liqOrigin c ts cursor blocks = (cursor + 1, []) := by
  rw [liqOrigin]; simp [h, hc]

theorem liqOrigin_step (c : Cfg) (ts cursor : Int) (blocks : Nat) (h : tooRecent c cursor ts = false) (hc : ¬ c.maxBlocks ≤ blocks) :
    liqOrigin c ts cursor blocks =
      ((liqOrigin c ts (cursor + 1) (blocks + 2)).1, (cursor + 1) :: (liqOrigin c ts (cursor + 1) (blocks + 2)).2) := by
  rw [liqOrigin]; simp [h, hc]

/-- everything `catchUp` does, in one statement -/
theorem catchUp_spec (c : Cfg) (ts cursor : Int) :
    ∃ n : Nat, catchUp c ts cursor = (cursor + n, consecutive cursor n) ∧
      (∀ e ∈ consecutive cursor n, epochEnd c e + c.rtl ≤ ts) ∧
      ts < epochEnd c (cursor + n + 1) + c.rtl := by
  induction cursor using catchUp.induct c ts with
  | case1 cursor h =>
    refine ⟨0, ?_, ?_, ?_⟩
    · rw [catchUp_stop c ts cursor h]; simp [consecutive]
    · simp [consecutive]
    · simpa using (tooRecent_true_iff c cursor ts).mp h
  | case2 cursor h ih =>
    obtain ⟨n, hn, hdue, hstop⟩ := ih
    have hf : tooRecent c cursor ts = false := by simpa using h
    refine ⟨n + 1, ?_, ?_, ?_⟩
    · rw [catchUp_step c ts cursor hf, hn]
      simp only [consecutive]
      congr 1
      omega
    · intro e he
      simp only [consecutive, List.mem_cons] at he
      rcases he with rfl | he
      · exact (tooRecent_false_iff c cursor ts).mp hf
      · exact hdue e he
    · have : cursor + ((n + 1 : Nat) : Int) + 1 = cursor + 1 + n + 1 := by omega
      rw [this]; exact hstop

/-- everything the origin-table liquidity loop does: it rewards `n` consecutive due epochs and then either stops at a
    not-yet-due epoch, or — when the block cap is reached while another epoch is due — moves the cursor over one more
    epoch without rewarding it -/
theorem liqOrigin_spec (c : Cfg) (ts cursor : Int) (blocks : Nat) :
    ∃ n : Nat, (liqOrigin c ts cursor blocks).2 = consecutive cursor n ∧
      (∀ e ∈ consecutive cursor n, epochEnd c e + c.rtl ≤ ts) ∧
      (n = 0 ∨ blocks + 2 * (n - 1) < c.maxBlocks) ∧
      (((liqOrigin c ts cursor blocks).1 = cursor + n ∧ ts < epochEnd c (cursor + n + 1) + c.rtl) ∨
       ((liqOrigin c ts cursor blocks).1 = cursor + n + 1 ∧ epochEnd c (cursor + n + 1) + c.rtl ≤ ts ∧
          c.maxBlocks ≤ blocks + 2 * n)) := by
  induction cursor, blocks using liqOrigin.induct c ts with
  | case1 cursor blocks h =>
    refine ⟨0, ?_, ?_, Or.inl rfl, Or.inl ⟨?_, ?_⟩⟩
    · rw [liqOrigin_stop c ts cursor blocks h]; simp [consecutive]
    · simp [consecutive]
    · rw [liqOrigin_stop c ts cursor blocks h]; simp
    · simpa using (tooRecent_true_iff c cursor ts).mp h
  | case2 cursor blocks h hcap =>
    have hf : tooRecent c cursor ts = false := by simpa using h
    refine ⟨0, ?_, ?_, Or.inl rfl, Or.inr ⟨?_, ?_, ?_⟩⟩
    · rw [liqOrigin_cap c ts cursor blocks hf hcap]; simp [consecutive]
    · simp [consecutive]
    · rw [liqOrigin_cap c ts cursor blocks hf hcap]; simp
    · simpa using (tooRecent_false_iff c cursor ts).mp hf
    · simpa using hcap
  | case3 cursor blocks h hcap ih =>
    have hf : tooRecent c cursor ts = false := by simpa using h
    obtain ⟨n, hl, hdue, hcnt, hend⟩ := ih
    have e1 : (liqOrigin c ts cursor blocks).2 = (cursor + 1) :: (liqOrigin c ts (cursor + 1) (blocks + 2)).2 := by
      rw [liqOrigin_step c ts cursor blocks hf hcap]
    have e2 : (liqOrigin c ts cursor blocks).1 = (liqOrigin c ts (cursor + 1) (blocks + 2)).1 := by
      rw [liqOrigin_step c ts cursor blocks hf hcap]
    refine ⟨n + 1, ?_, ?_, Or.inr ?_, ?_⟩
    · rw [e1, hl]; rfl
    · intro e he
      simp only [consecutive, List.mem_cons] at he
      rcases he with rfl | he
      · exact (tooRecent_false_iff c cursor ts).mp hf
      · exact hdue e he
    · rcases hcnt with rfl | hcnt
      · simp; omega
      · omega
    · have c1 : cursor + ((n + 1 : Nat) : Int) = cursor + 1 + n := by omega
      rw [e2, c1]
      rcases hend with ⟨a, b⟩ | ⟨a, b, d⟩
      · exact Or.inl ⟨a, b⟩
      · exact Or.inr ⟨a, b, by omega⟩

theorem liqOne_spec (c : Cfg) (ts cursor : Int) :
    (ts < epochEnd c (cursor + 1) + c.rtl ∧ liqOne c ts cursor = (cursor, [])) ∨
    (epochEnd c (cursor + 1) + c.rtl ≤ ts ∧ liqOne c ts cursor = (cursor + 1, [cursor + 1])) := by
  unfold liqOne checkAndPerformUpdateEpoch
  cases h : tooRecent c cursor ts
  · right; exact ⟨(tooRecent_false_iff c cursor ts).mp h, by simp⟩
  · left; exact ⟨(tooRecent_true_iff c cursor ts).mp h, by simp⟩

/-! ### Coins -/

@[simp] theorem Coins.add_znn (a b : Coins) : (a + b).znn = a.znn + b.znn := rfl
@[simp] theorem Coins.add_qsr (a b : Coins) : (a + b).qsr = a.qsr + b.qsr := rfl
@[simp] theorem Coins.zero_znn : Coins.zero.znn = 0 := rfl
@[simp] theorem Coins.zero_qsr : Coins.zero.qsr = 0 := rfl

theorem Coins.ext' {a b : Coins} (h1 : a.znn = b.znn) (h2 : a.qsr = b.qsr) : a = b := by
  cases a; cases b; simp_all

theorem Coins.add_assoc' (a b c : Coins) : a + b + c = a + (b + c) := Coins.ext' (by simp; omega) (by simp; omega)
theorem Coins.add_comm' (a b : Coins) : a + b = b + a := Coins.ext' (by simp; omega) (by simp; omega)
theorem Coins.zero_add' (a : Coins) : Coins.zero + a = a := Coins.ext' (by simp) (by simp)
theorem Coins.add_zero' (a : Coins) : a + Coins.zero = a := Coins.ext' (by simp) (by simp)

end ZV.EpochCursor
