import ZenonVerif.Model.Spork
/-
Helper lemmas for the spork state machine.
-/
namespace ZV.Spork

def UniqueIds (st : SState) : Prop := (st.map (·.id)).Nodup

theorem find_of_mem_unique (st : SState) (hu : UniqueIds st) (sp : SporkInfo) (hm : sp ∈ st) :
    find st sp.id = some sp := by
  induction st with
  | nil => cases hm
  | cons a t ih =>
    unfold UniqueIds at hu
    simp only [List.map_cons, List.nodup_cons] at hu
    unfold find
    simp only [List.find?_cons]
    by_cases ha : a.id = sp.id
    · simp only [ha, decide_true]
      rcases List.mem_cons.1 hm with h | h
      · rw [h]
      · exfalso
        apply hu.1
        rw [ha]
        exact List.mem_map.2 ⟨sp, h, rfl⟩
    · simp only [ha, decide_false]
      rcases List.mem_cons.1 hm with h | h
      · exact absurd (by rw [h]) ha
      · exact ih hu.2 h

theorem unique_filter_cons (st : SState) (hu : UniqueIds st) (x : SporkInfo) :
    UniqueIds (x :: st.filter (·.id ≠ x.id)) := by
  unfold UniqueIds at *
  simp only [List.map_cons, List.nodup_cons]
  constructor
  · intro hm
    obtain ⟨y, hy, hid⟩ := List.mem_map.1 hm
    have := (List.mem_filter.1 hy).2
    simp only [ne_eq, decide_not, Bool.not_eq_eq_eq_not, Bool.not_true, decide_eq_false_iff_not] at this
    exact this hid
  · exact List.Nodup.sublist (List.Sublist.map _ List.filter_sublist) hu

theorem create_unique (st st' : SState) (s : Sender) (fh id : Nat) (hu : UniqueIds st)
    (h : create st s fh id = some st') : UniqueIds st' := by
  unfold create at h
  split at h
  · cases h
  · cases h; exact unique_filter_cons st hu ⟨id, false, 0⟩

theorem activate_unique (st st' : SState) (s : Sender) (fh id : Nat) (hu : UniqueIds st)
    (h : activate st s fh id = some st') : UniqueIds st' := by
  unfold activate at h
  split at h
  · cases h
  · split at h
    · cases h
    · split at h
      · cases h
      · cases h; exact unique_filter_cons st hu ⟨id, true, fh + Gen.SporkMinHeightDelay⟩

theorem isActive_iff (st : SState) (h id : Nat) :
    isActive st h id = true ↔ h ≠ 1 ∧ ∃ sp ∈ st, sp.activated = true ∧ sp.enf ≤ h ∧ sp.id = id := by
  unfold isActive
  simp only [Bool.and_eq_true, bne_iff_ne, ne_eq, List.any_eq_true, decide_eq_true_eq]
  constructor
  · rintro ⟨h1, sp, hm, ⟨ha, he⟩, hi⟩; exact ⟨h1, sp, hm, ha, he, hi⟩
  · rintro ⟨h1, sp, hm, ha, he, hi⟩; exact ⟨h1, sp, hm, ⟨ha, he⟩, hi⟩

end ZV.Spork
