import ZenonVerif.Model.LedgerNode
import ZenonVerif.Lemmas.LedgerInbox
/-
Invariants of the node-level ledger (`Model/LedgerNode.lean`): the version stack is consistent with the momentum
contents, the pool applies on the frontier, stored inbox counters refine the list view, stored markers are the markers of
the confirmed receives. All by induction over operation lists.
-/
namespace ZV.LedgerNode
open ZV.Ledger

/-! ### confirmation -/

theorem confirmEv_ok {st st' : Store} {e : Ev} (h : confirmEv st e = .ok st') :
    Admissible st.led e ∧ step st.led e = .ok st'.led ∧ st'.seq = seqPush (seqPop st.seq e) e.newSends := by
  unfold confirmEv at h
  split at h
  · rename_i ha
    split at h
    · cases h
    · rename_i led' hs
      cases h
      exact ⟨ha, hs, rfl⟩
  · cases h

theorem confirmAll_cons_ok {st st' : Store} {e : Ev} {es : List Ev} (h : confirmAll st (e :: es) = .ok st') :
    ∃ s1, confirmEv st e = .ok s1 ∧ confirmAll s1 es = .ok st' := by
  simp only [confirmAll] at h
  split at h
  · cases h
  · rename_i s1 h1; exact ⟨s1, h1, h⟩

theorem confirmAll_reach {s0 : State} : ∀ {es : List Ev} {st st' : Store}, confirmAll st es = .ok st' →
    Reach s0 st.led → Reach s0 st'.led
  | [], st, st', h, hr => by simp only [confirmAll, Except.ok.injEq] at h; subst h; exact hr
  | e :: es, st, st', h, hr => by
    obtain ⟨s1, h1, h2⟩ := confirmAll_cons_ok h
    obtain ⟨ha, hs, _⟩ := confirmEv_ok h1
    exact confirmAll_reach h2 (.step e hr ha hs)

theorem confirmAll_append {st : Store} : ∀ {es fs : List Ev},
    confirmAll st (es ++ fs) = (match confirmAll st es with | .error err => .error err | .ok s1 => confirmAll s1 fs)
  | [], fs => by simp [confirmAll]
  | e :: es, fs => by
    simp only [List.cons_append, confirmAll]
    cases confirmEv st e with
    | error err => rfl
    | ok s1 => exact confirmAll_append

/-! ### the version stack -/

/-- every version is the previous one with the momentum's content confirmed on it -/
def ChainOk (g : Store) : List (List Ev × Store) → Prop
  | [] => True
  | (m, st) :: rest => confirmAll (topStore g rest) m = .ok st ∧ ChainOk g rest

theorem chainOk_drop {g : Store} : ∀ (k : Nat) {ch : List (List Ev × Store)}, ChainOk g ch → ChainOk g (ch.drop k)
  | 0, _, h => h
  | _ + 1, [], _ => trivial
  | k + 1, (_, _) :: rest, h => chainOk_drop k (ch := rest) h.2

theorem replay_snoc {st : Store} : ∀ {ms : List (List Ev)} {m : List Ev} {s1 s2 : Store},
    replay st ms = .ok s1 → confirmAll s1 m = .ok s2 → replay st (ms ++ [m]) = .ok s2
  | [], m, s1, s2, h1, h2 => by
    simp only [replay, Except.ok.injEq] at h1; subst h1
    simp [replay, h2]
  | x :: ms, m, s1, s2, h1, h2 => by
    simp only [replay] at h1
    simp only [List.cons_append, replay]
    split at h1
    · cases h1
    · exact replay_snoc h1 h2

/-- the frontier version is what replaying the momentum contents from genesis gives: a function of the chain alone -/
theorem chainOk_replay {g : Store} : ∀ {ch : List (List Ev × Store)}, ChainOk g ch →
    replay g ((ch.map (·.1)).reverse) = .ok (topStore g ch)
  | [], _ => rfl
  | (m, st) :: rest, h => by
    simp only [List.map_cons, List.reverse_cons]
    exact replay_snoc (chainOk_replay h.2) h.1

theorem chainOk_reach {g : Store} : ∀ {ch : List (List Ev × Store)}, ChainOk g ch → Reach g.led (topStore g ch).led
  | [], _ => .refl
  | (_, _) :: _, h => confirmAll_reach h.1 (chainOk_reach h.2)

/-! ### the pool -/

theorem poolEv_ok {b v v' : Store} {e : Ev} (h : poolEv b v e = .ok v') :
    poolCheck b v e = .ok () ∧ Admissible v.led e ∧ step v.led e = .ok v'.led ∧ v'.seq = seqPop v.seq e := by
  unfold poolEv at h
  split at h
  · cases h
  · rename_i hc
    split at h
    · rename_i ha
      split at h
      · cases h
      · rename_i led' hs
        cases h
        exact ⟨hc, ha, hs, rfl⟩
    · cases h

theorem poolAll_cons_ok {b v v' : Store} {e : Ev} {es : List Ev} (h : poolAll b v (e :: es) = .ok v') :
    ∃ v1, poolEv b v e = .ok v1 ∧ poolAll b v1 es = .ok v' := by
  simp only [poolAll] at h
  split at h
  · cases h
  · rename_i v1 h1; exact ⟨v1, h1, h⟩

theorem poolAll_reach {s0 : State} {b : Store} : ∀ {es : List Ev} {v v' : Store}, poolAll b v es = .ok v' →
    Reach s0 v.led → Reach s0 v'.led
  | [], v, v', h, hr => by simp only [poolAll, Except.ok.injEq] at h; subst h; exact hr
  | e :: es, v, v', h, hr => by
    obtain ⟨v1, h1, h2⟩ := poolAll_cons_ok h
    obtain ⟨_, ha, hs, _⟩ := poolEv_ok h1
    exact poolAll_reach h2 (.step e hr ha hs)

theorem poolRun_reach {s0 : State} {b : Store} : ∀ {p : Pool} {v w : Store}, poolRun b v p = .ok w →
    Reach s0 v.led → Reach s0 w.led
  | [], v, w, h, hr => by simp only [poolRun, Except.ok.injEq] at h; subst h; exact hr
  | (a, evs) :: rest, v, w, h, hr => by
    simp only [poolRun] at h
    split at h
    · cases h
    · rename_i v1 h1
      exact poolRun_reach h (poolAll_reach h1 hr)

/-- what `rebuild` keeps applies, and ends in the view it returns -/
theorem rebuild_run {b : Store} : ∀ (p : Pool) (v : Store), poolRun b v (rebuild b v p).1 = .ok (rebuild b v p).2
  | [], v => rfl
  | (a, evs) :: rest, v => by
    simp only [rebuild]
    split
    · rename_i v1 h1
      simp only [poolRun, h1]
      exact rebuild_run rest v1
    · exact rebuild_run rest v

/-- a pool that applies is kept whole by `rebuild` -/
theorem rebuild_of_run {b : Store} : ∀ {p : Pool} {v w : Store}, poolRun b v p = .ok w → rebuild b v p = (p, w)
  | [], v, w, h => by simp only [poolRun, Except.ok.injEq] at h; subst h; rfl
  | (a, evs) :: rest, v, w, h => by
    simp only [poolRun] at h
    split at h
    · cases h
    · rename_i v1 h1
      simp only [rebuild, h1, rebuild_of_run h]

theorem poolRun_snoc {b : Store} {a : Addr} {evs : List Ev} : ∀ {p : Pool} {v w w' : Store}, poolRun b v p = .ok w →
    poolAll b w evs = .ok w' → poolRun b v (p ++ [(a, evs)]) = .ok w'
  | [], v, w, w', h1, h2 => by
    simp only [poolRun, Except.ok.injEq] at h1; subst h1
    simp [poolRun, h2]
  | (a', evs') :: rest, v, w, w', h1, h2 => by
    simp only [poolRun] at h1
    simp only [List.cons_append, poolRun]
    split at h1
    · cases h1
    · exact poolRun_snoc h1 h2

/-! ### the node invariant -/

structure Inv (n : Node) : Prop where
  chain : ChainOk n.gen n.chain
  pool : ∃ w, poolRun n.frontier n.frontier n.pool = .ok w

theorem inv_genesis (g : Store) : Inv (Node.genesis g) := ⟨trivial, ⟨g, rfl⟩⟩

theorem putBlock_ok {n n' : Node} {k : Nat} {e : Ev} (h : n.putBlock k e = .ok n') :
    n'.gen = n.gen ∧ n'.chain = n.chain ∧
    ∃ w', poolRun n.frontier n.frontier n'.pool = .ok w' ∧
      n'.pool = (rebuild n.frontier n.frontier (n.pool.filter (fun x => x.1 != acct e))).1 ++
        [(acct e, (getPool n.pool (acct e)).take k ++ [e])] := by
  unfold Node.putBlock at h
  simp only at h
  split at h
  · cases h
  · split at h
    · cases h
    · rename_i w' hw
      cases h
      exact ⟨rfl, rfl, w', poolRun_snoc (rebuild_run _ _) hw, rfl⟩

theorem insertMomentum_ok {n n' : Node} {c : List (Addr × Nat)} (h : n.insertMomentum c = .ok n') :
    n'.gen = n.gen ∧ ∃ st, confirmAll n.frontier (contentEvents n.pool c) = .ok st ∧
      n'.chain = (contentEvents n.pool c, st) :: n.chain ∧
      ∃ rest, n'.pool = (rebuild st st rest).1 := by
  unfold Node.insertMomentum at h
  simp only at h
  split at h
  · cases h
  · split at h
    · cases h
    · rename_i st hst
      cases h
      exact ⟨rfl, st, hst, rfl, _, rfl⟩

theorem inv_apply {n : Node} (hi : Inv n) (o : Op) : Inv (n.apply o) := by
  cases o with
  | put k e =>
    simp only [Node.apply]
    split
    · rename_i n' h
      obtain ⟨hg, hc, w', hw, _⟩ := putBlock_ok h
      refine ⟨by rw [hg, hc]; exact hi.chain, ⟨w', ?_⟩⟩
      simp only [Node.frontier, hg, hc]
      exact hw
    · exact hi
  | insertMomentum c =>
    simp only [Node.apply]
    split
    · rename_i n' h
      obtain ⟨hg, st, hst, hc, rest, hp⟩ := insertMomentum_ok h
      refine ⟨?_, ?_⟩
      · rw [hg, hc]; exact ⟨hst, hi.chain⟩
      · have hf : n'.frontier = st := by simp only [Node.frontier, hc, topStore]
        rw [hf, hp]
        exact ⟨_, rebuild_run rest st⟩
    · exact hi
  | rollbackTo h =>
    simp only [Node.apply, Node.rollbackTo]
    split
    · exact ⟨chainOk_drop _ hi.chain, ⟨_, rfl⟩⟩
    · exact hi
  | restart => exact ⟨hi.chain, ⟨_, rfl⟩⟩

theorem gen_apply (n : Node) (o : Op) : (n.apply o).gen = n.gen := by
  cases o with
  | put k e =>
    simp only [Node.apply]
    split
    · rename_i n' h; exact (putBlock_ok h).1
    · rfl
  | insertMomentum c =>
    simp only [Node.apply]
    split
    · rename_i n' h; exact (insertMomentum_ok h).1
    · rfl
  | rollbackTo h => simp only [Node.apply, Node.rollbackTo]; split <;> rfl
  | restart => rfl

theorem inv_run : ∀ (ops : List Op) {n : Node}, Inv n → Inv (n.run ops)
  | [], _, hi => hi
  | o :: os, _, hi => inv_run os (inv_apply hi o)

theorem gen_run : ∀ (ops : List Op) (n : Node), (n.run ops).gen = n.gen
  | [], _ => rfl
  | o :: os, n => by rw [Node.run, gen_run os, gen_apply]

theorem Inv.frontier_reach {n : Node} (hi : Inv n) : Reach n.gen.led n.frontier.led := chainOk_reach hi.chain

theorem Inv.poolView_run {n : Node} (hi : Inv n) : poolRun n.frontier n.frontier n.pool = .ok n.poolView := by
  obtain ⟨w, hw⟩ := hi.pool
  rw [Node.poolView, rebuild_of_run hw]; exact hw

theorem Inv.poolView_reach {n : Node} (hi : Inv n) : Reach n.gen.led n.poolView.led :=
  poolRun_reach hi.poolView_run hi.frontier_reach

/-- the pool view extends the confirmed state -/
theorem Inv.poolView_over_frontier {n : Node} (hi : Inv n) : Reach n.frontier.led n.poolView.led :=
  poolRun_reach hi.poolView_run .refl

theorem moms_rollbackTo (n : Node) (h : Nat) (hh : h ≤ n.chain.length) : (n.rollbackTo h).moms = n.moms.take h := by
  simp only [Node.rollbackTo, Node.moms]
  split
  · simp only [List.map_drop]
    rw [List.take_reverse, List.length_map]
  · have : h = n.chain.length := by omega
    subst this
    rw [List.take_of_length_le (by simp)]

theorem Inv.replay {n : Node} (hi : Inv n) : replay n.gen n.moms = .ok n.frontier := chainOk_replay hi.chain

/-! ### stored markers = markers of the confirmed receives -/

/-- markers written by a list of events, newest first (as the ledger keeps them) -/
def markersOf : List Ev → List (Addr × Hash)
  | [] => []
  | e :: es => markersOf es ++ e.markers

theorem markersOf_append : ∀ (a b : List Ev), markersOf (a ++ b) = markersOf b ++ markersOf a
  | [], b => by simp [markersOf]
  | e :: a, b => by simp [markersOf, markersOf_append a b]

theorem confirmAll_markers : ∀ {es : List Ev} {st st' : Store}, confirmAll st es = .ok st' →
    st'.led.recv = markersOf es ++ st.led.recv
  | [], st, st', h => by simp only [confirmAll, Except.ok.injEq] at h; subst h; rfl
  | e :: es, st, st', h => by
    obtain ⟨s1, h1, h2⟩ := confirmAll_cons_ok h
    obtain ⟨_, hs, _⟩ := confirmEv_ok h1
    rw [confirmAll_markers h2, (step_frame hs).2.2, markersOf, List.append_assoc]

theorem chainOk_markers {g : Store} : ∀ {ch : List (List Ev × Store)}, ChainOk g ch →
    (topStore g ch).led.recv = markersOf ((ch.map (·.1)).reverse.flatten) ++ g.led.recv
  | [], _ => by simp [topStore, markersOf]
  | (m, st) :: rest, h => by
    simp only [List.map_cons, List.reverse_cons, List.flatten_append, List.flatten_cons, List.flatten_nil,
      List.append_nil, topStore]
    rw [confirmAll_markers h.1, chainOk_markers h.2, markersOf_append, List.append_assoc]

/-! ### stored inbox counters refine the list view -/

def SeqRef (st : Store) : Prop := ∀ c, isEmbedded c = true →
  (st.seq c).entries = inboxOf st.led c ∧ (st.seq c).back = (st.seq c).entries.length ∧
  (st.seq c).front = (receivedBy st.led c).length

theorem seqPush_spec : ∀ (l : List Send) (q : Addr → SeqC) (c : Addr), isEmbedded c = true →
    (seqPush q l c).entries = (q c).entries ++ (l.filter (fun x => x.dst == c)).map (·.hash) ∧
    (seqPush q l c).back = (q c).back + ((l.filter (fun x => x.dst == c)).map (·.hash)).length ∧
    (seqPush q l c).front = (q c).front
  | [], q, c, _ => by simp [seqPush]
  | x :: r, q, c, hc => by
    simp only [seqPush]
    have ih := seqPush_spec r (if isEmbedded x.dst then upd q x.dst ((q x.dst).pushBack x.hash) else q) c hc
    by_cases hd : x.dst = c
    · subst hd
      rw [if_pos hc] at ih ⊢
      have hu : upd q x.dst ((q x.dst).pushBack x.hash) x.dst = (q x.dst).pushBack x.hash := by simp [upd]
      rw [hu] at ih
      simp only [List.filter_cons, beq_self_eq_true, if_true, List.map_cons, List.length_cons]
      refine ⟨?_, ?_, ?_⟩
      · rw [ih.1]; simp [SeqC.pushBack]
      · rw [ih.2.1]; simp [SeqC.pushBack]; omega
      · rw [ih.2.2]; rfl
    · have hb : (x.dst == c) = false := by simpa using hd
      have hq : (if isEmbedded x.dst then upd q x.dst ((q x.dst).pushBack x.hash) else q) c = q c := by
        split
        · simp only [upd]; rw [if_neg (fun h => hd h.symm)]
        · rfl
      rw [hq] at ih
      simp only [List.filter_cons, hb]
      exact ih

theorem seqPop_spec {s s' : State} {e : Ev} (hok : step s e = .ok s') (q : Addr → SeqC) (c : Addr)
    (hc : isEmbedded c = true) :
    (seqPop q e c).entries = (q c).entries ∧ (seqPop q e c).back = (q c).back ∧
    (seqPop q e c).front = (q c).front + (((e.markers.filter (fun m => m.1 == c)).map (·.2)).reverse).length := by
  cases e with
  | usend src dst tok amt h call => simp [seqPop, Ev.markers]
  | urecv a h =>
    obtain ⟨hemb, _⟩ := urecv_ok hok
    have : (a == c) = false := by
      simp only [beq_eq_false_iff_ne, ne_eq]
      intro he; subst he; rw [hc] at hemb; cases hemb
    simp [seqPop, Ev.markers, this]
  | crecv c' h st ds =>
    by_cases he : c' = c
    · subst he
      simp [seqPop, Ev.markers, upd, SeqC.popFront]
    · have hb : (c' == c) = false := by simpa using he
      simp only [seqPop, upd, Ev.markers, List.filter_cons, hb]
      rw [if_neg (fun h => he h.symm)]
      simp

theorem confirmEv_seqRef {st st' : Store} {e : Ev} (hr : SeqRef st) (h : confirmEv st e = .ok st') : SeqRef st' := by
  obtain ⟨_, hs, hq⟩ := confirmEv_ok h
  intro c hc
  obtain ⟨r1, r2, r3⟩ := hr c hc
  obtain ⟨p1, p2, p3⟩ := seqPop_spec hs st.seq c hc
  obtain ⟨u1, u2, u3⟩ := seqPush_spec e.newSends (seqPop st.seq e) c hc
  rw [hq]
  refine ⟨?_, ?_, ?_⟩
  · rw [u1, p1, r1, inboxOf_step hs c]
  · rw [u2, u1, p2, p1, r2]; simp
  · rw [u3, p3, r3, receivedBy_step hs c]; simp

theorem confirmAll_seqRef : ∀ {es : List Ev} {st st' : Store}, SeqRef st → confirmAll st es = .ok st' → SeqRef st'
  | [], st, st', hr, h => by simp only [confirmAll, Except.ok.injEq] at h; subst h; exact hr
  | e :: es, st, st', hr, h => by
    obtain ⟨s1, h1, h2⟩ := confirmAll_cons_ok h
    exact confirmAll_seqRef (confirmEv_seqRef hr h1) h2

theorem chainOk_seqRef {g : Store} (hg : SeqRef g) : ∀ {ch : List (List Ev × Store)}, ChainOk g ch →
    SeqRef (topStore g ch)
  | [], _ => hg
  | (_, _) :: _, h => confirmAll_seqRef (chainOk_seqRef hg h.2) h.1

/-- in a duplicate-free list whose first keys are `R`, the elements whose key is not in `R` are the rest -/
theorem filter_after_prefix : ∀ (R : List Hash) (l : List Send) (rest : List Hash) (p : Send → Bool),
    l.map (·.hash) = R ++ rest → (l.map (·.hash)).Nodup → (∀ x ∈ l, p x = !R.contains x.hash) →
    (l.filter p).map (·.hash) = rest
  | [], l, rest, p, hmap, _, hp => by
    have : l.filter p = l := by
      apply List.filter_eq_self.2
      intro x hx; rw [hp x hx]; simp
    rw [this]; simpa using hmap
  | r :: R', l, rest, p, hmap, hnd, hp => by
    cases l with
    | nil => simp at hmap
    | cons x l' =>
      simp only [List.map_cons, List.cons_append, List.cons.injEq] at hmap
      obtain ⟨hxr, hmap'⟩ := hmap
      simp only [List.map_cons, List.nodup_cons] at hnd
      have hpx : p x = false := by
        rw [hp x (List.mem_cons_self ..), hxr]; simp
      simp only [List.filter_cons, hpx]
      refine filter_after_prefix R' l' rest p hmap' hnd.2 ?_
      intro y hy
      rw [hp y (List.mem_cons_of_mem _ hy)]
      have hne : y.hash ≠ r := by
        intro he
        apply hnd.1
        rw [hxr, ← he]
        exact List.mem_map.2 ⟨y, hy, rfl⟩
      simp [hne]

/-- the live part of the stored queue is the list of confirmed, not yet received sends to the contract -/
theorem seqRef_pending {st : Store} (hr : SeqRef st) (hw : WF st.led) (hf : Fifo st.led) {c : Addr}
    (hc : isEmbedded c = true) :
    (st.seq c).entries.drop (st.seq c).front = (pendingFor st.led c).map (·.hash) := by
  obtain ⟨r1, _, r3⟩ := hr c hc
  obtain ⟨rest, hpre⟩ := hf c hc
  rw [r1, r3, ← hpre, List.drop_left]
  have hpf : pendingFor st.led c =
      (st.led.sends.filter (fun x => x.dst == c)).filter (fun x => !st.led.recv.contains (c, x.hash)) := by
    simp only [pendingFor, List.filter_filter]
    congr 1
    funext x
    rw [Bool.and_comm]
  rw [hpf]
  symm
  refine filter_after_prefix (receivedBy st.led c) _ rest _ hpre.symm (inbox_nodup hw c) ?_
  intro x _
  congr 1
  rw [Bool.eq_iff_iff, List.contains_iff_mem, List.contains_iff_mem, mem_receivedBy]

/-! ### pooled receives name confirmed sends -/

theorem poolEv_marker {b v v' : Store} {e : Ev} (h : poolEv b v e = .ok v') :
    ∀ m ∈ v'.led.recv, m ∈ v.led.recv ∨ (findSend b.led.sends m.2).isSome = true := by
  obtain ⟨hc, _, hs, _⟩ := poolEv_ok h
  intro m hm
  rw [(step_frame hs).2.2, List.mem_append] at hm
  rcases hm with hm | hm
  · right
    cases e with
    | usend src dst tok amt hh call => simp [Ev.markers] at hm
    | urecv a hh =>
      simp only [Ev.markers, List.mem_singleton] at hm
      subst hm
      simp only [poolCheck] at hc
      split at hc
      · assumption
      · cases hc
    | crecv c hh st ds =>
      simp only [Ev.markers, List.mem_singleton] at hm
      subst hm
      simp only [poolCheck] at hc
      split at hc
      · assumption
      · cases hc
  · exact Or.inl hm

theorem poolAll_marker {b : Store} : ∀ {es : List Ev} {v v' : Store}, poolAll b v es = .ok v' →
    ∀ m ∈ v'.led.recv, m ∈ v.led.recv ∨ (findSend b.led.sends m.2).isSome = true
  | [], v, v', h, m, hm => by simp only [poolAll, Except.ok.injEq] at h; subst h; exact Or.inl hm
  | e :: es, v, v', h, m, hm => by
    obtain ⟨v1, h1, h2⟩ := poolAll_cons_ok h
    rcases poolAll_marker h2 m hm with h3 | h3
    · exact poolEv_marker h1 m h3
    · exact Or.inr h3

theorem poolRun_marker {b : Store} : ∀ {p : Pool} {v w : Store}, poolRun b v p = .ok w →
    ∀ m ∈ w.led.recv, m ∈ v.led.recv ∨ (findSend b.led.sends m.2).isSome = true
  | [], v, w, h, m, hm => by simp only [poolRun, Except.ok.injEq] at h; subst h; exact Or.inl hm
  | (a, evs) :: rest, v, w, h, m, hm => by
    simp only [poolRun] at h
    split at h
    · cases h
    · rename_i v1 h1
      rcases poolRun_marker h m hm with h3 | h3
      · exact poolAll_marker h1 m h3
      · exact Or.inr h3

theorem findSend_isSome_mem {l : List Send} {h : Hash} (hs : (findSend l h).isSome = true) : h ∈ l.map (·.hash) := by
  cases hf : findSend l h with
  | none => rw [hf] at hs; cases hs
  | some x =>
    obtain ⟨hx, hh⟩ := findSend_some hf
    exact List.mem_map.2 ⟨x, hx, hh⟩

end ZV.LedgerNode
