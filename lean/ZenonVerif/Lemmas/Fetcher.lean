import ZenonVerif.Model.Fetcher
/-!
Lemmas about Model/Fetcher.lean: counting under the list operations that stand for Go's map operations, and the invariant
`Inv` of the transition system (preserved by every handler, by the head of the loop, hence by `step`).
-/
set_option linter.unusedSimpArgs false

namespace ZV.Fetcher
open ZV.Gen

theorem foldl_inv {α : Type} (P : St → Prop) (f : St → α → St) (hf : ∀ s a, P s → P (f s a)) :
    ∀ (l : List α) (s : St), P s → P (l.foldl f s)
  | [], _, h => h
  | a :: l, s, h => foldl_inv P f hf l (f s a) (hf s a h)

/-! ### counting -/

theorem cntA_split (l : List Ann) (h p : Nat) :
    cntA (l.filter (fun a => !(a.hash == h))) p + cntA (l.filter (fun a => a.hash == h)) p = cntA l p := by
  induction l with
  | nil => simp [cntA]
  | cons a l ih =>
    simp only [cntA] at ih ⊢
    by_cases hh : a.hash = h <;> by_cases hp : a.origin = p <;>
      simp [List.filter_cons, List.countP_cons, hh, hp] <;> omega

theorem cntA_append_one (l : List Ann) (a : Ann) (p : Nat) :
    cntA (l ++ [a]) p = cntA l p + (if a.origin = p then 1 else 0) := by
  simp [cntA, List.countP_append, List.countP_cons]

theorem cntQ_append_one (l : List Inj) (a : Inj) (p : Nat) :
    cntQ (l ++ [a]) p = cntQ l p + (if a.origin = p then 1 else 0) := by
  simp [cntQ, List.countP_append, List.countP_cons]

theorem cntA_eraseP (l : List Ann) (q : Ann → Bool) (a : Ann) (p : Nat) (hf : l.find? q = some a) :
    cntA (l.eraseP q) p + (if a.origin = p then 1 else 0) = cntA l p := by
  induction l with
  | nil => simp at hf
  | cons x l ih =>
    by_cases hq : q x
    · simp [List.find?_cons, hq] at hf
      subst hf
      simp [cntA, List.eraseP_cons, hq, List.countP_cons]
    · simp [List.find?_cons, hq] at hf
      have := ih hf
      simp only [cntA] at this ⊢
      simp [List.eraseP_cons, hq, List.countP_cons]
      omega

theorem cntQ_eraseP (l : List Inj) (q : Inj → Bool) (a : Inj) (p : Nat) (hf : l.find? q = some a) :
    cntQ (l.eraseP q) p + (if a.origin = p then 1 else 0) = cntQ l p := by
  induction l with
  | nil => simp at hf
  | cons x l ih =>
    by_cases hq : q x
    · simp [List.find?_cons, hq] at hf
      subst hf
      simp [cntQ, List.eraseP_cons, hq, List.countP_cons]
    · simp [List.find?_cons, hq] at hf
      have := ih hf
      simp only [cntQ] at this ⊢
      simp [List.eraseP_cons, hq, List.countP_cons]
      omega

theorem cntQ_map (l : List Inj) (f : Inj → Inj) (hf : ∀ j, (f j).origin = j.origin) (p : Nat) :
    cntQ (l.map f) p = cntQ l p := by
  induction l with
  | nil => rfl
  | cons x l ih =>
    simp only [cntQ] at ih ⊢
    simp [List.countP_cons, hf, ih]

theorem length_split (l : List Inj) (p : Nat) :
    l.length = cntQ l p + (l.filter (fun i => !(i.origin == p))).length := by
  induction l with
  | nil => simp [cntQ]
  | cons x l ih =>
    simp only [cntQ] at ih ⊢
    by_cases hp : x.origin = p <;> simp [List.filter_cons, List.countP_cons, hp] <;> omega

/-- a list whose entries all come from `ps` and hold at most `B` entries per origin has at most `ps.length * B` entries -/
theorem length_le_peers (B : Nat) : ∀ (ps : List Nat) (l : List Inj),
    (∀ i ∈ l, i.origin ∈ ps) → (∀ p, cntQ l p ≤ B) → l.length ≤ ps.length * B
  | [], l, hm, _ => by
    cases l with
    | nil => simp
    | cons x l => exact absurd (hm x (by simp)) (by simp)
  | p :: ps, l, hm, hb => by
    have hlen := length_split l p
    have ih := length_le_peers B ps (l.filter (fun i => !(i.origin == p)))
      (by
        intro i hi
        simp only [List.mem_filter] at hi
        have := hm i hi.1
        simp only [List.mem_cons] at this
        rcases this with h | h
        · simp [h] at hi
        · exact h)
      (by
        intro q
        exact Nat.le_trans (List.Sublist.countP_le (List.filter_sublist)) (hb q))
    have h1 := hb p
    simp only [List.length_cons, Nat.succ_mul]
    omega

/-! ### the invariant -/

structure Inv (v : Variant) (s : St) : Prop where
  qcons : v.decOnForget = true → ∀ p, s.queues p = (cntQ s.queued p : Nat)
  qle : ∀ p, s.queues p ≤ (FeBlockLimit : Int)
  acons : v.countFetching = true → ∀ p, s.announces p = ((cntA s.announced p + cntA s.fetching p : Nat) : Int)
  ale : ∀ p, s.announces p ≤ (FeHashLimit : Int)
  dist : v.distTest = true → ∀ i ∈ s.queued, i.hAt ≤ i.blk.height + FeMaxUncleDist ∧ i.blk.height ≤ i.hAt + FeMaxQueueDist
  pop : ∀ i ∈ s.queued, ∀ ph, i.st = some ph → i.blk.height ≤ ph + 1 ∧ ph ≤ i.blk.height + FeMaxUncleDist
  nodup : (s.queued.map (fun i => i.blk.hash)).Nodup

/-- `Inv` reads five fields only -/
theorem Inv.congr {v : Variant} {s t : St} (h : Inv v s) (h1 : t.announces = s.announces) (h2 : t.announced = s.announced)
    (h3 : t.fetching = s.fetching) (h4 : t.queues = s.queues) (h5 : t.queued = s.queued) : Inv v t := by
  constructor
  · rw [h4, h5]; exact h.qcons
  · rw [h4]; exact h.qle
  · rw [h1, h2, h3]; exact h.acons
  · rw [h1]; exact h.ale
  · rw [h5]; exact h.dist
  · rw [h5]; exact h.pop
  · rw [h5]; exact h.nodup

theorem inv_init (v : Variant) (k : List Nat) (h : Nat) : Inv v { known := k, height := h } := by
  constructor <;> simp [cntQ, cntA] <;> omega

theorem forgetHash_inv {v : Variant} {s : St} (h : Nat) (hi : Inv v s) : Inv v (forgetHash s h) := by
  unfold forgetHash
  have hs := cntA_split s.announced h
  split
  · rename_i a hf
    constructor
    · exact hi.qcons
    · exact hi.qle
    · intro hv p
      have h1 := hi.acons hv p
      have h2 := cntA_eraseP s.fetching _ a p hf
      have h3 := hs p
      simp only [dec]
      split <;> rename_i hp
      · subst hp; simp at h2; omega
      · have : ¬ a.origin = p := fun e => hp e.symm
        simp [this] at h2; omega
    · intro p
      have := hi.ale p
      simp only [dec]
      split <;> omega
    · exact hi.dist
    · exact hi.pop
    · exact hi.nodup
  · constructor
    · exact hi.qcons
    · exact hi.qle
    · intro hv p
      have h1 := hi.acons hv p
      have h3 := hs p
      simp only []
      omega
    · intro p
      have := hi.ale p
      simp only []
      omega
    · exact hi.dist
    · exact hi.pop
    · exact hi.nodup

theorem forgetBlock_inv {v : Variant} {s : St} (h : Nat) (hi : Inv v s) : Inv v (forgetBlock v s h) := by
  unfold forgetBlock
  split
  · rename_i i hf
    constructor
    · intro hv p
      have h1 := hi.qcons hv p
      have h2 := cntQ_eraseP s.queued _ i p hf
      simp only [hv, if_true, dec]
      split <;> rename_i hp
      · subst hp; simp at h2; omega
      · have : ¬ i.origin = p := fun e => hp e.symm
        simp [this] at h2; omega
    · intro p
      have := hi.qle p
      simp only []
      split
      · simp only [dec]; split <;> omega
      · exact this
    · exact hi.acons
    · exact hi.ale
    · intro hv j hj
      exact hi.dist hv j (List.mem_of_mem_eraseP hj)
    · intro j hj
      exact hi.pop j (List.mem_of_mem_eraseP hj)
    · exact List.Nodup.sublist (List.Sublist.map _ (List.eraseP_sublist)) hi.nodup
  · exact hi

theorem onNotify_inv {v : Variant} {s : St} (p h : Nat) (t : Int) (hi : Inv v s) : Inv v (onNotify s p h t) := by
  unfold onNotify
  simp only []
  split
  · exact hi
  · rename_i hc
    split
    · exact hi
    · constructor
      · exact hi.qcons
      · exact hi.qle
      · intro hv q
        have h1 := hi.acons hv q
        have h2 := cntA_append_one s.announced ⟨h, p, t⟩ q
        simp only [setc]
        split <;> rename_i hq
        · subst hq; simp at h2; omega
        · have : ¬ p = q := fun e => hq e.symm
          simp [this] at h2; omega
      · intro q
        have := hi.ale q
        simp only [setc]
        split <;> omega
      · exact hi.dist
      · exact hi.pop
      · exact hi.nodup

theorem enqueue_inv {v : Variant} {s : St} (p : Nat) (b : Blk) (hi : Inv v s) : Inv v (enqueue v s p b) := by
  unfold enqueue
  simp only []
  split
  · exact hi
  · rename_i hc
    split
    · exact hi
    · rename_i hd
      split
      · exact hi
      · rename_i hdup
        constructor
        · intro hv q
          have h1 := hi.qcons hv q
          have h2 := cntQ_append_one s.queued ⟨p, b, s.height, none⟩ q
          simp only [setc]
          split <;> rename_i hq
          · subst hq; simp at h2; omega
          · have : ¬ p = q := fun e => hq e.symm
            simp [this] at h2; omega
        · intro q
          have := hi.qle q
          simp only [setc]
          split <;> omega
        · exact hi.acons
        · exact hi.ale
        · intro hv j hj
          simp only [List.mem_append, List.mem_singleton] at hj
          rcases hj with hj | hj
          · exact hi.dist hv j hj
          · subst hj
            simp only [hv, Bool.true_and, Bool.or_eq_true, decide_eq_true_eq, not_or] at hd
            simp only []
            omega
        · intro j hj ph hst
          simp only [List.mem_append, List.mem_singleton] at hj
          rcases hj with hj | hj
          · exact hi.pop j hj ph hst
          · subst hj; simp at hst
        · simp only [List.map_append, List.map_cons, List.map_nil]
          refine List.nodup_append.mpr ⟨hi.nodup, by simp, ?_⟩
          intro a ha b' hb'
          simp only [List.mem_singleton] at hb'
          subst hb'
          simp only [List.mem_map] at ha
          obtain ⟨j, hj, rfl⟩ := ha
          intro heq
          apply hdup
          simp only [List.any_eq_true, beq_iff_eq]
          exact ⟨j, hj, heq⟩

theorem timerOne_inv {v : Variant} (pick : Nat) {s : St} (h : Nat) (hi : Inv v s) : Inv v (timerOne v pick s h) := by
  unfold timerOne
  split
  · exact hi
  · rename_i a0 rest hg
    split
    · simp only []
      have hf := forgetHash_inv (v := v) h hi
      split
      · exact hf
      · -- the chosen announcement is one of the group, so forgetHash lowered its origin's counter
        have hidx : pick % (rest.length + 1) < (a0 :: rest).length := by
          simp only [List.length_cons]; exact Nat.mod_lt _ (by omega)
        have hamem : (a0 :: rest).getD (pick % (rest.length + 1)) a0 ∈ a0 :: rest := by
          simp only [List.getD_eq_getElem?_getD, List.getElem?_eq_getElem hidx, Option.getD_some]
          exact List.getElem_mem hidx
        generalize (a0 :: rest).getD (pick % (rest.length + 1)) a0 = a at hamem ⊢
        have hcnt : 1 ≤ cntA (s.announced.filter (fun a => a.hash == h)) a.origin := by
          rw [hg]
          simp only [cntA]
          exact List.countP_pos_iff.mpr ⟨a, hamem, by simp⟩
        have hle : (forgetHash s h).announces a.origin + 1 ≤ (FeHashLimit : Int) := by
          have h0 := hi.ale a.origin
          unfold forgetHash
          simp only []
          split
          · simp only [dec]; split <;> omega
          · simp only []; omega
        constructor
        · exact hf.qcons
        · exact hf.qle
        · intro hv q
          have h1 := hf.acons hv q
          have h2 := cntA_append_one (forgetHash s h).fetching a q
          simp only [hv, if_true, setc]
          split <;> rename_i hq
          · subst hq; simp at h2; omega
          · have : ¬ a.origin = q := fun e => hq e.symm
            simp [this] at h2; omega
        · intro q
          have := hf.ale q
          simp only []
          split
          · simp only [setc]; split <;> rename_i hq
            · subst hq; exact hle
            · exact this
          · exact this
        · exact hf.dist
        · exact hf.pop
        · exact hf.nodup
    · exact hi

theorem onTimer_inv {v : Variant} {s : St} (pick : Nat) (hi : Inv v s) : Inv v (onTimer v s pick) :=
  foldl_inv (Inv v) (timerOne v pick) (fun _ h => timerOne_inv pick h) _ _ hi

theorem deliverTwo_inv {v : Variant} {s : St} (b : Blk) (hi : Inv v s) : Inv v (deliverTwo v s b) := by
  unfold deliverTwo
  split
  · exact enqueue_inv _ _ hi
  · exact hi

theorem onDeliver_inv {v : Variant} {s : St} (bs : List Blk) (hi : Inv v s) : Inv v (onDeliver v s bs) := by
  unfold onDeliver
  exact foldl_inv (Inv v) (deliverTwo v) (fun _ b => deliverTwo_inv b) _ _
    (foldl_inv (Inv v) forgetHash (fun _ h => forgetHash_inv h) _ _ hi)

theorem goroutine_fields (s : St) (i : Inj) (nh : Nat) :
    (goroutine s i nh).announces = s.announces ∧ (goroutine s i nh).announced = s.announced ∧
    (goroutine s i nh).fetching = s.fetching ∧ (goroutine s i nh).queues = s.queues ∧ (goroutine s i nh).queued = s.queued := by
  unfold goroutine
  cases s.known.contains i.blk.parent <;> cases i.blk.vOk <;> cases i.blk.iOk <;> simp

theorem goroutine_dropped (s : St) (i : Inj) (nh : Nat) :
    (goroutine s i nh).dropped = if s.known.contains i.blk.parent && !i.blk.vOk then i.origin :: s.dropped else s.dropped := by
  unfold goroutine
  cases s.known.contains i.blk.parent <;> cases i.blk.vOk <;> cases i.blk.iOk <;> simp

theorem goroutine_handed (s : St) (i : Inj) (nh : Nat) :
    (goroutine s i nh).handed = if s.known.contains i.blk.parent && i.blk.vOk then i :: s.handed else s.handed := by
  unfold goroutine
  cases s.known.contains i.blk.parent <;> cases i.blk.vOk <;> cases i.blk.iOk <;> simp

theorem onFinish_inv {v : Variant} {s : St} (h nh : Nat) (hi : Inv v s) : Inv v (onFinish v s h nh) := by
  unfold onFinish
  split
  · exact hi
  · rename_i i _
    apply forgetBlock_inv
    apply forgetHash_inv
    obtain ⟨h1, h2, h3, h4, h5⟩ := goroutine_fields s i nh
    exact hi.congr h1 h2 h3 h4 h5

theorem handle_inv {v : Variant} {s : St} (e : Ev) (hi : Inv v s) : Inv v (handle v s e) := by
  cases e with
  | notify p h t => exact onNotify_inv p h t hi
  | enqueue p b => exact enqueue_inv p b hi
  | timer k => exact onTimer_inv k hi
  | deliver bs => exact onDeliver_inv bs hi
  | finish h nh => exact onFinish_inv h nh hi
  | tick d => exact hi.congr rfl rfl rfl rfl rfl
  | chain k h => exact hi.congr rfl rfl rfl rfl rfl
  | leave p => exact hi

theorem expire_inv {v : Variant} {s : St} (hi : Inv v s) : Inv v (expire s) :=
  foldl_inv (Inv v) forgetHash (fun _ h => forgetHash_inv h) _ _ hi

theorem foldl_inv_mem {α : Type} (P : St → Prop) (f : St → α → St) :
    ∀ (l : List α) (s : St), (∀ s a, a ∈ l → P s → P (f s a)) → P s → P (l.foldl f s)
  | [], _, _, h => h
  | a :: l, s, hf, h =>
    foldl_inv_mem P f l (f s a) (fun s b hb => hf s b (List.mem_cons_of_mem _ hb)) (hf s a (List.mem_cons_self) h)

theorem markPopped_inv {v : Variant} {s : St} (i : Inj) (height : Nat)
    (h1 : i.blk.height ≤ height + 1) (h2 : height ≤ i.blk.height + FeMaxUncleDist) (hi : Inv v s) :
    Inv v (markPopped s i height) := by
  unfold markPopped
  constructor
  · intro hv p
    have := hi.qcons hv p
    simp only []
    rw [cntQ_map]
    · exact this
    · intro j; split <;> rfl
  · exact hi.qle
  · exact hi.acons
  · exact hi.ale
  · intro hv j hj
    simp only [List.mem_map] at hj
    obtain ⟨j0, hj0, rfl⟩ := hj
    have := hi.dist hv j0 hj0
    split <;> exact this
  · intro j hj ph hst
    simp only [List.mem_map] at hj
    obtain ⟨j0, hj0, rfl⟩ := hj
    by_cases heq : (j0 == i) = true
    · have : j0 = i := by simpa using heq
      subst this
      simp only [heq, if_true, Option.some.injEq] at hst ⊢
      subst hst
      exact ⟨h1, h2⟩
    · simp only [heq, if_false] at hst ⊢
      exact hi.pop j0 hj0 ph hst
  · simp only [List.map_map]
    have : ((fun i : Inj => i.blk.hash) ∘ fun j => if (j == i) = true then { j with st := some height } else j)
        = fun i : Inj => i.blk.hash := by
      funext j
      simp only [Function.comp]
      split <;> rfl
    rw [this]
    exact hi.nodup

theorem importOne_inv {v : Variant} (height : Nat) {s : St} (i : Inj) (h1 : i.blk.height ≤ height + 1) (hi : Inv v s) :
    Inv v (importOne v height s i) := by
  unfold importOne
  split
  · exact forgetBlock_inv _ hi
  · rename_i hc
    simp only [Bool.or_eq_true, decide_eq_true_eq, not_or, Nat.not_lt] at hc
    exact markPopped_inv _ _ h1 hc.1 hi

theorem importPass_inv {v : Variant} {s : St} (hi : Inv v s) : Inv v (importPass v s) := by
  unfold importPass
  apply foldl_inv_mem (Inv v) (importOne v s.height) _ _ _ hi
  intro t i him ht
  simp only [List.mem_filter, Bool.and_eq_true, decide_eq_true_eq] at him
  exact importOne_inv _ i him.2.2 ht

theorem step_inv {v : Variant} {s : St} (e : Ev) (hi : Inv v s) : Inv v (step v s e) :=
  importPass_inv (expire_inv (handle_inv e hi))

theorem reach_inv {v : Variant} {s : St} (hr : Reach v s) : Inv v s := by
  induction hr with
  | init k h => exact inv_init v k h
  | step e _ ih => exact step_inv e ih

/-! ### what only `finish` writes: the logs (dropPeer, insertChain, broadcastBlock) and the chain -/

/-- the part of the state only the goroutine of `insert` (event `finish`) and `chain` write -/
def Env (s : St) : List Nat × List Inj × List (Nat × Bool) × List Nat × Nat := (s.dropped, s.handed, s.bcast, s.known, s.height)

theorem foldl_pres {α β : Type} (g : St → β) (f : St → α → St) (hf : ∀ s a, g (f s a) = g s) :
    ∀ (l : List α) (s : St), g (l.foldl f s) = g s
  | [], _ => rfl
  | a :: l, s => by rw [List.foldl_cons, foldl_pres g f hf l (f s a), hf]

theorem forgetHash_env (s : St) (h : Nat) : Env (forgetHash s h) = Env s := by
  unfold forgetHash; simp only []; split <;> rfl
theorem forgetBlock_env (v : Variant) (s : St) (h : Nat) : Env (forgetBlock v s h) = Env s := by
  unfold forgetBlock; split <;> rfl
theorem onNotify_env (s : St) (p h : Nat) (t : Int) : Env (onNotify s p h t) = Env s := by
  unfold onNotify; simp only []; split
  · rfl
  · split <;> rfl
theorem enqueue_env (v : Variant) (s : St) (p : Nat) (b : Blk) : Env (enqueue v s p b) = Env s := by
  unfold enqueue; simp only []; split
  · rfl
  · split
    · rfl
    · split <;> rfl
theorem timerOne_env (v : Variant) (pick : Nat) (s : St) (h : Nat) : Env (timerOne v pick s h) = Env s := by
  unfold timerOne; split
  · rfl
  · split
    · simp only []
      split
      · exact forgetHash_env s h
      · exact forgetHash_env s h
    · rfl
theorem onTimer_env (v : Variant) (s : St) (pick : Nat) : Env (onTimer v s pick) = Env s :=
  foldl_pres Env _ (timerOne_env v pick) _ _
theorem deliverTwo_env (v : Variant) (s : St) (b : Blk) : Env (deliverTwo v s b) = Env s := by
  unfold deliverTwo; split
  · exact enqueue_env _ _ _ _
  · rfl
theorem onDeliver_env (v : Variant) (s : St) (bs : List Blk) : Env (onDeliver v s bs) = Env s := by
  unfold onDeliver
  simp only []
  rw [foldl_pres Env _ (deliverTwo_env v), foldl_pres Env _ forgetHash_env]
theorem expire_env (s : St) : Env (expire s) = Env s := foldl_pres Env _ forgetHash_env _ _
theorem importOne_env (v : Variant) (height : Nat) (s : St) (i : Inj) : Env (importOne v height s i) = Env s := by
  unfold importOne; split
  · exact forgetBlock_env _ _ _
  · rfl
theorem importPass_env (v : Variant) (s : St) : Env (importPass v s) = Env s :=
  foldl_pres Env _ (importOne_env v s.height) _ _
theorem head_env (v : Variant) (s : St) : Env (head v s) = Env s := by
  unfold head; rw [importPass_env, expire_env]

/-- on a list with distinct keys, deleting the first entry of a key leaves no entry of that key -/
theorem nodup_eraseP_no_key (h : Nat) : ∀ (l : List Inj), (l.map (fun i => i.blk.hash)).Nodup →
    ∀ j ∈ l.eraseP (fun i => i.blk.hash == h), j.blk.hash ≠ h
  | [], _, j, hj => by simp at hj
  | x :: l, hn, j, hj => by
    simp only [List.map_cons, List.nodup_cons] at hn
    by_cases hx : x.blk.hash = h
    · simp [List.eraseP_cons, hx] at hj
      intro hjh
      apply hn.1
      simp only [List.mem_map]
      exact ⟨j, hj, by rw [hjh, hx]⟩
    · simp [List.eraseP_cons, hx] at hj
      rcases hj with hj | hj
      · subst hj; exact hx
      · exact nodup_eraseP_no_key h l hn.2 j hj

theorem nodup_eraseP_no_hash (h : Nat) : ∀ (l : List Ann), (l.map (fun a => a.hash)).Nodup →
    ∀ a ∈ l.eraseP (fun a => a.hash == h), a.hash ≠ h
  | [], _, a, ha => by simp at ha
  | x :: l, hn, a, ha => by
    simp only [List.map_cons, List.nodup_cons] at hn
    by_cases hx : x.hash = h
    · simp [List.eraseP_cons, hx] at ha
      intro hah
      exact hn.1 (List.mem_map.mpr ⟨a, ha, by rw [hah, hx]⟩)
    · simp [List.eraseP_cons, hx] at ha
      rcases ha with ha | ha
      · subst ha; exact hx
      · exact nodup_eraseP_no_hash h l hn.2 a ha

end ZV.Fetcher
