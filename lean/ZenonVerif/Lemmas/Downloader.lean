import ZenonVerif.Model.Downloader
/-
Lemmas for C15Sync: the invariant of the synchronisation state machine (`Inv`) and its preservation by every event
(code as it is: `Cfg.fixed`), the measure of `sync_terminates_under_silence`, the shape lemmas of `blame_deliverer`.
-/
namespace ZV.Dl

theorem hashTTL_eq : hashTTL = 50 := by decide
theorem blockTTL_eq : blockTTL = 90 := by decide

structure RunOk (pc : Option Bool) (r : Run) : Prop where
  armed : r.hf.waiting = true → r.timer.isSome = true
  range : ∀ t, r.timer = some t → 1 ≤ t ∧ t ≤ hashTTL
  off : r.bf = .off ↔ (r.hf = .probe ∨ ∃ lo hi, r.hf = .search lo hi)
  fin : r.bf = .run true → r.hf = .done
  notDone : r.bf ≠ .done
  flag : pc = some false → r.hf = .done
  transit : r.hf = .done → r.bf = .run false → pc = some false
  full : r.hf = .blocked → pc.isSome = true

structure Inv (s : State) : Prop where
  run : ∀ r, s.run = some r → RunOk s.processCh r
  left : ∀ q ∈ s.inflight, q.left ≤ blockTTL

@[simp] theorem dropPeer_run (s : State) (p : Nat) (w : Why) : (dropPeer s p w).1.run = s.run := by
  unfold dropPeer; split <;> rfl
@[simp] theorem dropPeer_processCh (s : State) (p : Nat) (w : Why) : (dropPeer s p w).1.processCh = s.processCh := by
  unfold dropPeer; split <;> rfl
@[simp] theorem dropPeer_inflight (s : State) (p : Nat) (w : Why) : (dropPeer s p w).1.inflight = s.inflight := by
  unfold dropPeer; split <;> rfl
@[simp] theorem dropPeer_pending (s : State) (p : Nat) (w : Why) : (dropPeer s p w).1.pending = s.pending := by
  unfold dropPeer; split <;> rfl
@[simp] theorem dropPeer_cache (s : State) (p : Nat) (w : Why) : (dropPeer s p w).1.cache = s.cache := by
  unfold dropPeer; split <;> rfl

@[simp] theorem abort_run (s : State) (r : Run) (w : Why) : (abort s r w).1.run = none := by
  unfold abort; simp only; split <;> simp [resetQueue]
@[simp] theorem abort_inflight (s : State) (r : Run) (w : Why) : (abort s r w).1.inflight = [] := by
  unfold abort; simp only; split <;> simp [resetQueue]
@[simp] theorem abort_processCh (s : State) (r : Run) (w : Why) : (abort s r w).1.processCh = s.processCh := by
  unfold abort; simp only; split <;> simp [resetQueue]

theorem inv_abort {s : State} (r : Run) (w : Why) : Inv (abort s r w).1 :=
  ⟨by simp, by simp⟩

theorem inv_norun {s : State} (h1 : s.run = none) (h2 : ∀ q ∈ s.inflight, q.left ≤ blockTTL) : Inv s :=
  ⟨by simp [h1], h2⟩


theorem inv_mk {s' : State} {r' : Run} (h1 : s'.run = some r') (h2 : RunOk s'.processCh r')
    (h3 : ∀ q ∈ s'.inflight, q.left ≤ blockTTL) : Inv s' :=
  ⟨fun r hr => by rw [h1] at hr; cases hr; exact h2, h3⟩

theorem inv_setRun {s : State} {r : Run} (h2 : ¬(r.hf = .done ∧ r.bf = .done) → RunOk s.processCh r)
    (h3 : ∀ q ∈ s.inflight, q.left ≤ blockTTL) : Inv (setRun s r) := by
  unfold setRun
  split
  · exact inv_norun rfl h3
  · next hn => exact inv_mk rfl (h2 hn) h3


/-! ### every event preserves the invariant -/


theorem inv_probe {s : State} {r : Run} (h : Inv s) (hr : s.run = some r) (hp : r.hf = .probe) (p : Nat) (pk : HashPack) :
    Inv (onProbe s r p pk).1 := by
  obtain ⟨o1, o2, o3, o4, o5, o6, o7, o8⟩ := h.run r hr
  unfold onProbe startFetch
  repeat' split
  all_goals first
    | exact h
    | exact inv_abort _ _
    | (refine inv_mk rfl ?_ h.left; constructor <;> simp_all [HF.waiting, hashTTL_eq])

theorem inv_search {s : State} {r : Run} (h : Inv s) (hr : s.run = some r) {lo hi : Nat} (hp : r.hf = .search lo hi)
    (p : Nat) (pk : HashPack) : Inv (onSearch s r lo hi p pk).1 := by
  obtain ⟨o1, o2, o3, o4, o5, o6, o7, o8⟩ := h.run r hr
  unfold onSearch startFetch
  simp only
  repeat' split
  all_goals first
    | exact h
    | exact inv_abort _ _
    | (refine inv_mk rfl ?_ h.left; constructor <;> simp_all [HF.waiting, hashTTL_eq])

theorem inv_fetch {s : State} {r : Run} (h : Inv s) (hr : s.run = some r) (hp : r.hf = .fetch)
    (p : Nat) (pk : HashPack) : Inv (onFetch .fixed s r p pk).1 := by
  obtain ⟨o1, o2, o3, o4, o5, o6, o7, o8⟩ := h.run r hr
  unfold onFetch
  simp only [Cfg.fixed, if_true]
  split
  · exact inv_mk rfl (h.run r hr) h.left
  · split
    · split
      · refine inv_setRun ?_ h.left
        intro _
        constructor <;> simp_all [HF.waiting]
      · refine inv_mk rfl ?_ h.left
        constructor <;> simp_all [HF.waiting]
    · split
      · exact inv_abort _ _
      · split
        · refine inv_mk rfl ?_ h.left
          constructor <;> simp_all [HF.waiting, hashTTL_eq]
        · refine inv_mk rfl ?_ h.left
          constructor <;> simp_all [HF.waiting, hashTTL_eq]

theorem inv_hashes {s : State} (h : Inv s) (p : Nat) (pk : HashPack) : Inv (onHashes .fixed s p pk).1 := by
  unfold onHashes
  split
  · exact h
  · next r hr =>
    split
    · next hp => exact inv_probe h hr hp p pk
    · next lo hi hp => exact inv_search h hr hp p pk
    · next hp => exact inv_fetch h hr hp p pk
    · split
      · exact ⟨h.run, h.left⟩
      · exact h



@[simp] theorem setIdle_run (s : State) (p : Nat) (b : Bool) : (setIdle s p b).run = s.run := rfl
@[simp] theorem setIdle_processCh (s : State) (p : Nat) (b : Bool) : (setIdle s p b).processCh = s.processCh := rfl
@[simp] theorem setIdle_inflight (s : State) (p : Nat) (b : Bool) : (setIdle s p b).inflight = s.inflight := rfl

theorem inv_congr {s s' : State} (h : Inv s) (h1 : s'.run = s.run) (h2 : s'.processCh = s.processCh)
    (h3 : ∀ q ∈ s'.inflight, q ∈ s.inflight) : Inv s' :=
  ⟨fun r hr => by rw [h2]; exact h.run r (h1 ▸ hr), fun q hq => h.left q (h3 q hq)⟩

theorem inv_blocksRun {s : State} {r : Run} (h : Inv s) (cfg : Cfg) (p : Nat) (items : List Item) :
    Inv (onBlocksRun cfg s r p items).1 := by
  unfold onBlocksRun
  split
  · exact inv_congr h rfl rfl (fun _ hq => hq)
  · simp only
    split
    · exact inv_abort _ _
    · split
      · refine inv_congr h (by simp) (by simp) ?_
        intro q hq
        simp at hq
        exact hq.1
      · split
        · refine inv_congr h rfl rfl ?_
          intro q hq
          simp at hq
          exact hq.1
        · refine inv_congr h rfl rfl ?_
          intro q hq
          simp at hq
          exact hq.1

theorem inv_blocks {s : State} (h : Inv s) (cfg : Cfg) (p : Nat) (items : List Item) : Inv (onBlocks cfg s p items).1 := by
  unfold onBlocks
  split
  · exact h
  · split
    · exact h
    · split
      · exact inv_blocksRun h cfg p items
      · exact h
    · split
      · exact inv_congr h rfl rfl (fun _ hq => hq)
      · exact h

theorem inv_tick {s : State} (h : Inv s) : Inv (onTick s).1 := by
  unfold onTick
  have hl : ∀ q ∈ s.inflight.map (fun (q : Req) => { q with left := q.left - 1 }), q.left ≤ blockTTL := by
    intro q hq
    simp at hq
    obtain ⟨a, ha, rfl⟩ := hq
    have := h.left a ha
    simp; omega
  simp only
  split
  · next hr => exact inv_norun hr hl
  · next r hr =>
    obtain ⟨o1, o2, o3, o4, o5, o6, o7, o8⟩ := h.run r hr
    split
    · exact inv_mk hr (h.run r hr) hl
    · next t ht =>
      split
      · exact inv_abort _ _
      · refine inv_mk rfl ?_ hl
        have := o2 t ht
        constructor <;> simp_all [HF.waiting] <;> omega



theorem expire_inflight_sub (q : Sched) : ∀ x ∈ (expire q).inflight, x ∈ q.inflight := by
  intro x hx
  simp [expire] at hx
  exact hx.1

theorem reserve_inflight (q : Sched) (rs : List (Nat × List Nat)) :
    ∀ x ∈ (reserve q rs).inflight, x ∈ q.inflight ∨ x.left = blockTTL := by
  induction rs generalizing q with
  | nil => intro x hx; exact Or.inl hx
  | cons a rest ih =>
    obtain ⟨p, ids⟩ := a
    intro x hx
    unfold reserve at hx
    split at hx
    · rcases ih _ x hx with h | h
      · simp at h
        rcases h with h | h
        · right; rw [h]
        · left; exact h
      · right; exact h
    · exact ih _ x hx

theorem runOk_takeProcess {pc : Option Bool} {r : Run} {fin : Bool} (h : RunOk pc r) (hb : r.bf = .run fin) :
    RunOk (takeProcess pc r.hf fin).1
      { r with hf := (takeProcess pc r.hf fin).2.1, bf := .run (takeProcess pc r.hf fin).2.2 } := by
  obtain ⟨o1, o2, o3, o4, o5, o6, o7, o8⟩ := h
  unfold takeProcess
  split
  · constructor <;> simp_all
  · next c =>
    split
    · cases c <;> cases fin <;> (constructor <;> simp_all [HF.waiting])
    · cases c <;> cases fin <;> (constructor <;> simp_all [HF.waiting])


@[simp] theorem withSched_run (s : State) (q : Sched) : (s.withSched q).run = s.run := rfl
@[simp] theorem withSched_processCh (s : State) (q : Sched) : (s.withSched q).processCh = s.processCh := rfl
@[simp] theorem withSched_inflight (s : State) (q : Sched) : (s.withSched q).inflight = q.inflight := rfl

theorem inv_update {s : State} (h : Inv s) (rs : List (Nat × List Nat)) : Inv (onUpdate s rs).1 := by
  unfold onUpdate
  split
  · exact h
  · next r hr =>
    split
    · next fin hb =>
      have ok := runOk_takeProcess (h.run r hr) hb
      have hle : ∀ x ∈ (expire s.sched).inflight, x.left ≤ blockTTL :=
        fun x hx => h.left x (expire_inflight_sub _ x hx)
      have hlr : ∀ x ∈ (reserve (expire s.sched) rs).inflight, x.left ≤ blockTTL := by
        intro x hx
        rcases reserve_inflight _ _ x hx with h1 | h1
        · exact hle x h1
        · omega
      simp only
      split
      · exact inv_abort _ _
      · split
        · split
          · next hfin =>
            refine inv_setRun ?_ hle
            intro hn
            exfalso
            apply hn
            simp at hfin
            exact ⟨ok.fin (by simp [hfin.2]), rfl⟩
          · exact inv_mk rfl ok hle
        · split
          · exact inv_abort _ _
          · exact inv_mk rfl ok hlr
    · exact h


theorem inv_imp {s : State} (h : Inv s) : Inv (onImp s).1 := by
  unfold onImp
  simp only
  split
  · exact h
  · split
    · exact inv_congr h rfl rfl (fun _ hq => hq)
    · split
      · exact inv_norun (by simp [resetQueue]) (by simp [resetQueue])
      · exact inv_norun (by simp [resetQueue]) (by simp [resetQueue])

theorem inv_sync {s : State} (h : Inv s) (p head : Nat) : Inv (onSync .fixed s p head).1 := by
  unfold onSync
  split
  · exact h
  · next hn =>
    split
    · exact h
    · simp only [Cfg.fixed, if_true]
      split
      · refine inv_norun ?_ (by simp [resetQueue])
        simp [resetQueue]
        simpa using hn
      · refine inv_mk (r' := ⟨p, head, .probe, some hashTTL, .off⟩) rfl ?_ (by simp [resetQueue])
        constructor <;> simp [HF.waiting, hashTTL_eq]

theorem inv_step {s : State} (h : Inv s) (e : Event) : Inv (step .fixed s e).1 := by
  cases e with
  | register p => simp only [step]; split <;> exact inv_congr h rfl rfl (fun _ hq => hq)
  | unregister p => exact inv_congr h rfl rfl (fun _ hq => hq)
  | sync p head => exact inv_sync h p head
  | hashes p pk => exact inv_hashes h p pk
  | blocks p items => exact inv_blocks h .fixed p items
  | tick => exact inv_tick h
  | update rs => exact inv_update h rs
  | requeue p =>
    refine inv_congr h rfl rfl ?_
    intro q hq
    simp [step] at hq
    exact hq.1
  | imp => exact inv_imp h
  | cancel => exact inv_norun rfl (by simp [step, resetQueue])


theorem inv_init : Inv {} := inv_norun rfl (by simp)

theorem inv_reach {s : State} (h : Reach .fixed s) : Inv s := by
  induction h with
  | init k => exact inv_norun rfl (by simp)
  | step e _ ih => exact inv_step ih e


/-! ### the measure of a silent run -/

set_option linter.unusedSimpArgs false


def flightW : List Req → Nat
  | [] => 0
  | q :: t => q.left + 1 + flightW t

def idleCount : List Peer → Nat
  | [] => 0
  | p :: t => (if p.idle then 1 else 0) + idleCount t

def phaseW (r : Run) : Nat :=
  match r.hf, r.bf with
  | .blocked, _ => 2
  | .done, .run false => 1
  | _, _ => 0

/-- what is left of a running synchronisation when nobody says anything: ticks of the armed hash time-out, ticks of the
    requests in flight, one full block time-out per peer that can still be asked, and the hand-over of the last flag -/
def measure (s : State) : Nat :=
  match s.run with
  | none => 0
  | some r => 1 + r.timer.getD 0 + flightW s.inflight + idleCount s.peers * (blockTTL + 2) + phaseW r

def dec (q : Req) : Req := { q with left := q.left - 1 }

theorem flightW_dec_le (l : List Req) : flightW (l.map dec) ≤ flightW l := by
  induction l with
  | nil => simp [flightW]
  | cons a t ih => simp [flightW, dec]; omega

theorem flightW_dec_lt (l : List Req) (h : ∃ x ∈ l, x.left ≠ 0) : flightW (l.map dec) < flightW l := by
  induction l with
  | nil => simp at h
  | cons a t ih =>
    have := flightW_dec_le t
    simp [flightW, dec]
    by_cases ha : a.left = 0
    · have : ∃ x ∈ t, x.left ≠ 0 := by
        obtain ⟨x, hx, hx0⟩ := h
        simp at hx
        rcases hx with rfl | hx
        · exact absurd ha hx0
        · exact ⟨x, hx, hx0⟩
      have := ih this
      omega
    · omega

theorem flightW_filter_le (l : List Req) : flightW (l.filter (·.left != 0)) ≤ flightW l := by
  induction l with
  | nil => simp [flightW]
  | cons a t ih =>
    simp only [List.filter]
    split <;> simp [flightW] <;> omega

theorem flightW_filter_lt (l : List Req) (h : ∃ x ∈ l, x.left = 0) : flightW (l.filter (·.left != 0)) < flightW l := by
  induction l with
  | nil => simp at h
  | cons a t ih =>
    have hle := flightW_filter_le t
    rw [List.filter_cons]
    by_cases ha : a.left = 0
    · simp [ha, flightW]; omega
    · have : ∃ x ∈ t, x.left = 0 := by
        obtain ⟨x, hx, hx0⟩ := h
        simp at hx
        rcases hx with rfl | hx
        · exact absurd hx0 ha
        · exact ⟨x, hx, hx0⟩
      have := ih this
      simp [ha, flightW]; omega

theorem markBusy_cons (a : Peer) (t : List Peer) (p : Nat) :
    markBusy (a :: t) p = (if a.id == p then { a with idle := false } else a) :: markBusy t p := rfl

theorem idleCount_markBusy (ps : List Peer) (p : Nat) : idleCount (markBusy ps p) ≤ idleCount ps := by
  induction ps with
  | nil => simp [markBusy, idleCount]
  | cons a t ih =>
    rw [markBusy_cons]
    cases hp : a.id == p <;> cases hi : a.idle <;> simp [idleCount, hi] <;> omega

theorem idleCount_markBusy_lt (ps : List Peer) (p : Nat) (h : ps.any (fun x => x.id == p && x.idle) = true) :
    idleCount (markBusy ps p) + 1 ≤ idleCount ps := by
  induction ps with
  | nil => simp at h
  | cons a t ih =>
    have hle := idleCount_markBusy t p
    rw [markBusy_cons]
    rw [List.any_cons, Bool.or_eq_true] at h
    cases hp : a.id == p <;> cases hi : a.idle <;> simp only [hp, hi, Bool.and_false, Bool.and_true, Bool.false_and, Bool.true_and, false_or, Bool.false_eq_true] at h <;>
      simp [idleCount, hi] <;> first | omega | (have := ih h; omega)


def schedW (q : Sched) : Nat := flightW q.inflight + idleCount q.peers * (blockTTL + 2)

theorem reserve_W (q : Sched) (rs : List (Nat × List Nat)) :
    q.inflight.length ≤ (reserve q rs).inflight.length ∧
    schedW (reserve q rs) + ((reserve q rs).inflight.length - q.inflight.length) ≤ schedW q := by
  induction rs generalizing q with
  | nil => simp [reserve]
  | cons a rest ih =>
    obtain ⟨p, ids⟩ := a
    unfold reserve
    split
    · next hc =>
      simp only [Bool.and_eq_true] at hc
      have h1 := idleCount_markBusy_lt q.peers p hc.1.1.1
      obtain ⟨i1, i2⟩ := ih ⟨markBusy q.peers p, q.pending.filter (fun h => !ids.contains h), ⟨p, ids, blockTTL⟩ :: q.inflight⟩
      simp only [List.length_cons] at i1 i2
      refine ⟨by omega, ?_⟩
      simp only [schedW, flightW] at i2 ⊢
      have : idleCount (markBusy q.peers p) * (blockTTL + 2) + (blockTTL + 2) ≤ idleCount q.peers * (blockTTL + 2) := by
        have := Nat.mul_le_mul_right (blockTTL + 2) h1
        rw [Nat.add_mul] at this
        omega
      omega
    · exact ih q

theorem reserve_eq_of_length (q : Sched) (rs : List (Nat × List Nat))
    (h : (reserve q rs).inflight.length = q.inflight.length) : reserve q rs = q := by
  induction rs generalizing q with
  | nil => rfl
  | cons a rest ih =>
    obtain ⟨p, ids⟩ := a
    unfold reserve at h ⊢
    split
    · next hc =>
      rw [if_pos hc] at h
      have := (reserve_W ⟨markBusy q.peers p, q.pending.filter (fun h => !ids.contains h), ⟨p, ids, blockTTL⟩ :: q.inflight⟩ rest).1
      simp only [List.length_cons] at this
      omega
    · next hc =>
      rw [if_neg hc] at h
      exact ih q h

theorem expire_peers (q : Sched) : (expire q).peers = q.peers := rfl

theorem expire_W_le (q : Sched) : schedW (expire q) ≤ schedW q := by
  simp only [schedW, expire]
  have := flightW_filter_le q.inflight
  omega

theorem expire_W_lt (q : Sched) (h : ∃ x ∈ q.inflight, x.left = 0) : schedW (expire q) < schedW q := by
  simp only [schedW, expire]
  have := flightW_filter_lt q.inflight h
  omega


/-- the requests handed out in an update leave no idle peer unasked while hashes are pending — what the loop
    `for _, peer := range d.peers.IdlePeers()` of fetchBlocks does -/
def MaximalAt (u : State) (rs : List (Nat × List Nat)) : Prop :=
  (reserve (expire u.sched) rs).pending = [] ∨ anyIdle (reserve (expire u.sched) rs) = false

theorem phaseW_take_le (pc : Option Bool) (r : Run) (fin : Bool) (hb : r.bf = .run fin) :
    phaseW { r with hf := (takeProcess pc r.hf fin).2.1, bf := .run (takeProcess pc r.hf fin).2.2 } ≤ phaseW r := by
  unfold takeProcess
  cases pc with
  | none => simp [phaseW, hb]
  | some c =>
    cases hh : r.hf <;> cases c <;> cases fin <;> simp [phaseW, hb, hh]

theorem phaseW_take_lt (pc : Option Bool) (r : Run) (fin : Bool) (hb : r.bf = .run fin) (ok : RunOk pc r)
    (hp : r.hf = .blocked ∨ (r.hf = .done ∧ fin = false)) :
    phaseW { r with hf := (takeProcess pc r.hf fin).2.1, bf := .run (takeProcess pc r.hf fin).2.2 } < phaseW r := by
  obtain ⟨o1, o2, o3, o4, o5, o6, o7, o8⟩ := ok
  unfold takeProcess
  rcases hp with hp | ⟨hp, hf⟩
  · have := o8 hp
    cases pc with
    | none => simp at this
    | some c => cases c <;> cases fin <;> simp [phaseW, hb, hp]
  · subst hf
    have := o7 hp hb
    subst this
    simp [phaseW, hp, hb]


theorem measure_run {s : State} {r : Run} (h : s.run = some r) :
    measure s = 1 + r.timer.getD 0 + schedW s.sched + phaseW r := by
  simp [measure, h, schedW, State.sched]; omega

theorem measure_le_of {u u' : State} {r r' : Run} (hr : u.run = some r) (hr' : u'.run = some r')
    (ht : r'.timer = r.timer) (hp : phaseW r' ≤ phaseW r) (hs : schedW u'.sched ≤ schedW u.sched) :
    measure u' ≤ measure u := by
  rw [measure_run hr, measure_run hr', ht]; omega

theorem measure_lt_of {u u' : State} {r r' : Run} (hr : u.run = some r) (hr' : u'.run = some r')
    (ht : r'.timer = r.timer) (hp : phaseW r' ≤ phaseW r) (hs : schedW u'.sched ≤ schedW u.sched)
    (hlt : phaseW r' < phaseW r ∨ schedW u'.sched < schedW u.sched) :
    measure u' < measure u := by
  rw [measure_run hr, measure_run hr', ht]; omega

theorem takeProcess_fin_true (pc : Option Bool) (hf : HF) : (takeProcess pc hf true).2.2 = true := by
  unfold takeProcess; split <;> (try split) <;> simp

theorem update_measure {u : State} {r : Run} (h : Inv u) (hr : u.run = some r) (rs : List (Nat × List Nat)) :
    (onUpdate u rs).1.run = none ∨
    (measure (onUpdate u rs).1 ≤ measure u ∧
      (r.timer = none → MaximalAt u rs →
        measure (onUpdate u rs).1 < measure u ∨ (u.inflight ≠ [] ∧ ∀ x ∈ u.inflight, x.left ≠ 0))) := by
  have ok := h.run r hr
  obtain ⟨o1, o2, o3, o4, o5, o6, o7, o8⟩ := ok
  unfold onUpdate
  simp only [hr]
  cases hb : r.bf with
  | off =>
    right
    refine ⟨Nat.le_refl _, ?_⟩
    intro ht _
    have : r.hf.waiting = true := by
      rcases o3.mp hb with h1 | ⟨lo, hi, h1⟩ <;> simp [h1, HF.waiting]
    have := o1 this
    simp [ht] at this
  | done => exact absurd hb o5
  | run fin =>
    simp only
    have ok' := runOk_takeProcess (h.run r hr) hb
    have ple := phaseW_take_le u.processCh r fin hb
    have plt := phaseW_take_lt u.processCh r fin hb (h.run r hr)
    have e1 := expire_W_le u.sched
    have e2 := expire_W_lt u.sched
    have r1 := reserve_W (expire u.sched) rs
    -- when neither the phase nor an expiry makes progress
    have hcase : ∀ (ht : r.timer = none), (r.hf = .blocked ∨ (r.hf = .done ∧ fin = false)) ∨ (r.hf = .done ∧ fin = true) := by
      intro ht
      cases hh : r.hf with
      | blocked => simp
      | done => cases fin <;> simp
      | _ => have := o1 (by simp [hh, HF.waiting]); simp [ht] at this
    split
    · left; simp
    · split
      · split
        · next hfin =>
          left
          simp at hfin
          have := ok'.fin (by simp [hfin.2])
          simp at this
          simp [setRun, this]
        · next hfin =>
          right
          refine ⟨measure_le_of hr rfl rfl ple e1, ?_⟩
          intro ht _
          rcases hcase ht with hp | ⟨hd, hf⟩
          · left; exact measure_lt_of hr rfl rfl ple e1 (Or.inl (plt hp))
          · by_cases hz : ∃ x ∈ u.inflight, x.left = 0
            · left; exact measure_lt_of hr rfl rfl ple e1 (Or.inr (e2 hz))
            · right
              have hall : ∀ x ∈ u.inflight, x.left ≠ 0 := fun x hx h0 => hz ⟨x, hx, h0⟩
              refine ⟨?_, hall⟩
              intro hnil
              apply hfin
              subst hf
              simp [takeProcess_fin_true, expire, State.sched, hnil]
      · next hpend =>
        split
        · left; simp
        · next hab =>
          right
          have hle : schedW (reserve (expire u.sched) rs) ≤ schedW u.sched := by omega
          refine ⟨measure_le_of hr rfl rfl ple hle, ?_⟩
          intro ht hm
          rcases hcase ht with hp | ⟨hd, hf⟩
          · left; exact measure_lt_of hr rfl rfl ple hle (Or.inl (plt hp))
          · by_cases hz : ∃ x ∈ u.inflight, x.left = 0
            · left; exact measure_lt_of hr rfl rfl ple hle (Or.inr (show schedW (reserve (expire u.sched) rs) < schedW u.sched by have := e2 hz; omega))
            · by_cases hlen : (reserve (expire u.sched) rs).inflight.length = (expire u.sched).inflight.length
              · right
                have hall : ∀ x ∈ u.inflight, x.left ≠ 0 := fun x hx h0 => hz ⟨x, hx, h0⟩
                refine ⟨?_, hall⟩
                intro hnil
                have heq := reserve_eq_of_length _ _ hlen
                unfold MaximalAt at hm
                rw [heq] at hm
                have hq : (expire u.sched).inflight = [] := by simp [expire, State.sched, hnil]
                apply hab
                change ((reserve (expire u.sched) rs).inflight.isEmpty && !anyIdle (reserve (expire u.sched) rs)) = true
                rw [heq, hq]
                rcases hm with hm | hm
                · exfalso; apply hpend; change (expire u.sched).pending.isEmpty = true; simp [hm]
                · simp [hm]
              · left
                exact measure_lt_of hr rfl rfl ple hle (Or.inr (show schedW (reserve (expire u.sched) rs) < schedW u.sched by omega))


theorem measure_pos {s : State} {r : Run} (h : s.run = some r) : 1 ≤ measure s := by
  rw [measure_run h]; omega

theorem measure_none {s : State} (h : s.run = none) : measure s = 0 := by simp [measure, h]

theorem measure_le_of' {u u' : State} {r r' : Run} (hr : u.run = some r) (hr' : u'.run = some r')
    (ht : r'.timer.getD 0 ≤ r.timer.getD 0) (hp : phaseW r' ≤ phaseW r) (hs : schedW u'.sched ≤ schedW u.sched) :
    measure u' ≤ measure u := by
  rw [measure_run hr, measure_run hr']; omega

theorem measure_lt_of' {u u' : State} {r r' : Run} (hr : u.run = some r) (hr' : u'.run = some r')
    (ht : r'.timer.getD 0 ≤ r.timer.getD 0) (hp : phaseW r' ≤ phaseW r) (hs : schedW u'.sched ≤ schedW u.sched)
    (hlt : r'.timer.getD 0 < r.timer.getD 0 ∨ schedW u'.sched < schedW u.sched) :
    measure u' < measure u := by
  rw [measure_run hr, measure_run hr']; omega

theorem tick_measure {s : State} {r : Run} (hr : s.run = some r) :
    (onTick s).1.run = none ∨
    (measure (onTick s).1 ≤ measure s ∧ (r.timer ≠ none → measure (onTick s).1 < measure s) ∧
      ((∃ x ∈ s.inflight, x.left ≠ 0) → measure (onTick s).1 < measure s) ∧
      (onTick s).1.inflight = s.inflight.map dec ∧
      ∃ r1, (onTick s).1.run = some r1 ∧ (r.timer = none → r1.timer = none)) := by
  unfold onTick
  simp only [hr]
  have d1 : schedW (⟨s.peers, s.pending, s.inflight.map dec⟩ : Sched) ≤ schedW s.sched := by
    have := flightW_dec_le s.inflight
    simp only [schedW, State.sched]; omega
  have d2 : (∃ x ∈ s.inflight, x.left ≠ 0) → schedW (⟨s.peers, s.pending, s.inflight.map dec⟩ : Sched) < schedW s.sched := by
    intro hx
    have := flightW_dec_lt s.inflight hx
    simp only [schedW, State.sched]; omega
  cases ht : r.timer with
  | none =>
    right
    simp only
    refine ⟨?_, by simp, ?_, rfl, r, rfl, fun _ => ht⟩
    · exact measure_le_of' hr rfl (Nat.le_refl _) (Nat.le_refl _) d1
    · intro hx
      exact measure_lt_of' hr rfl (Nat.le_refl _) (Nat.le_refl _) d1 (Or.inr (d2 hx))
  | some t =>
    simp only
    split
    · left; simp
    · next hlt =>
      right
      have hph : phaseW { r with timer := some (t - 1) } ≤ phaseW r := Nat.le_refl _
      have htl : (some (t - 1)).getD 0 < r.timer.getD 0 := by simp [ht]; omega
      refine ⟨?_, ?_, ?_, rfl, _, rfl, by simp [ht]⟩
      · exact measure_le_of' hr rfl (Nat.le_of_lt htl) hph d1
      · intro _; exact measure_lt_of' hr rfl (Nat.le_of_lt htl) hph d1 (Or.inl htl)
      · intro _; exact measure_lt_of' hr rfl (Nat.le_of_lt htl) hph d1 (Or.inl htl)


/-- 100 ms of silence: the ticker fires, the block fetcher runs its update and hands out the requests `rs` -/
def quiet (s : State) (rs : List (Nat × List Nat)) : State := (step .fixed (step .fixed s .tick).1 (.update rs)).1

def silentRun : State → List (List (Nat × List Nat)) → State
  | s, [] => s
  | s, c :: cs => silentRun (quiet s c) cs

/-- every update of the run offers a request to every idle peer -/
def MaximalRun : State → List (List (Nat × List Nat)) → Prop
  | _, [] => True
  | s, c :: cs => MaximalAt (step .fixed s .tick).1 c ∧ MaximalRun (quiet s c) cs

theorem quiet_measure {s : State} (h : Inv s) (rs : List (Nat × List Nat)) (hm : MaximalAt (step .fixed s .tick).1 rs)
    (hrun : s.run ≠ none) : measure (quiet s rs) < measure s := by
  cases hr : s.run with
  | none => exact absurd hr hrun
  | some r =>
    have hpos := measure_pos hr
    have hi1 : Inv (onTick s).1 := inv_tick h
    change measure (onUpdate (onTick s).1 rs).1 < measure s
    change MaximalAt (onTick s).1 rs at hm
    rcases tick_measure hr with h1 | ⟨t1, t2, t3, t4, r1, hr1, t5⟩
    · have : (onUpdate (onTick s).1 rs).1 = (onTick s).1 := by unfold onUpdate; simp [h1]
      rw [this, measure_none h1]; omega
    · rcases update_measure hi1 hr1 rs with h2 | ⟨u1, u2⟩
      · rw [measure_none h2]; omega
      · cases ht : r.timer with
        | some t => have := t2 (by simp [ht]); omega
        | none =>
          rcases u2 (t5 ht) hm with u3 | ⟨u3, u4⟩
          · omega
          · rw [t4] at u3 u4
            cases hl : s.inflight with
            | nil => simp [hl] at u3
            | cons x rest =>
              have hx := u4 (dec x) (by simp [hl])
              have : measure (onTick s).1 < measure s := t3 ⟨x, by simp [hl], by simp [dec] at hx; omega⟩
              omega

theorem quiet_run_none {s : State} (h : s.run = none) (rs : List (Nat × List Nat)) : (quiet s rs).run = none := by
  simp [quiet, step, onTick, onUpdate, h]

theorem silentRun_none {s : State} (h : s.run = none) (cs : List (List (Nat × List Nat))) : (silentRun s cs).run = none := by
  induction cs generalizing s with
  | nil => exact h
  | cons c cs ih => exact ih (quiet_run_none h c)

theorem inv_quiet {s : State} (h : Inv s) (rs : List (Nat × List Nat)) : Inv (quiet s rs) :=
  inv_step (inv_step h .tick) (.update rs)

theorem silent_terminates {s : State} (h : Inv s) (cs : List (List (Nat × List Nat))) (hm : MaximalRun s cs)
    (hn : measure s ≤ cs.length) : (silentRun s cs).run = none := by
  induction cs generalizing s with
  | nil =>
    cases hr : s.run with
    | none => exact hr
    | some r => have := measure_pos hr; simp at hn; omega
  | cons c cs ih =>
    cases hr : s.run with
    | none => exact silentRun_none hr _
    | some r =>
      have hlt := quiet_measure h c hm.1 (by simp [hr])
      exact ih (inv_quiet h c) hm.2 (by simp at hn; omega)

theorem flightW_le (l : List Req) (h : ∀ q ∈ l, q.left ≤ blockTTL) : flightW l ≤ l.length * (blockTTL + 2) := by
  induction l with
  | nil => simp [flightW]
  | cons a t ih =>
    have := ih (fun q hq => h q (by simp [hq]))
    have := h a (by simp)
    simp only [flightW, List.length_cons, Nat.add_mul]; omega

theorem idleCount_le (ps : List Peer) : idleCount ps ≤ ps.length := by
  induction ps with
  | nil => simp [idleCount]
  | cons a t ih => simp only [idleCount, List.length_cons]; split <;> omega

theorem measure_bound {s : State} (h : Inv s) :
    measure s ≤ hashTTL + 3 + (s.inflight.length + s.peers.length) * (blockTTL + 2) := by
  cases hr : s.run with
  | none => rw [measure_none hr]; omega
  | some r =>
    rw [measure_run hr]
    have f := flightW_le s.inflight h.left
    have i := Nat.mul_le_mul_right (blockTTL + 2) (idleCount_le s.peers)
    have t : r.timer.getD 0 ≤ hashTTL := by
      cases ht : r.timer with
      | none => simp
      | some t => simpa using ((h.run r hr).range t ht).2
    have p : phaseW r ≤ 2 := by unfold phaseW; split <;> omega
    simp only [schedW, State.sched, Nat.add_mul]; omega



/-! ### who is dropped, and for what -/


theorem dropPeer_drops {s : State} {p0 : Nat} {w0 : Why} {d : Drop} (h : d ∈ (dropPeer s p0 w0).2) : d = (p0, w0) := by
  unfold dropPeer at h
  split at h <;> simp at h
  exact h

theorem abort_drops {s : State} {r : Run} {w0 : Why} {d : Drop} (h : d ∈ (abort s r w0).2) :
    d = (r.origin, w0) ∧ w0.dropsOrigin = true := by
  unfold abort at h
  simp only at h
  split at h
  · next hd => exact ⟨dropPeer_drops h, hd⟩
  · simp at h

theorem deliverLoop_spec (p : Nat) (items : List Item) (a : DAcc) :
    ((deliverLoop .fixed p items a).forged = true →
        a.forged = true ∨ ∃ it ∈ items, it.hashOk = false ∧ it.id ∈ a.want) ∧
    ((deliverLoop .fixed p items a).invalid = true →
        a.invalid = true ∨ ∃ it ∈ items, it.hashOk = true ∧ it.inWin = false ∧ it.id ∈ a.want) ∧
    (∀ b ∈ (deliverLoop .fixed p items a).got,
        b ∈ a.got ∨ ∃ it ∈ items, it.id = b.id ∧ b.src = p ∧ b.ok = (it.valid && it.hashOk) ∧ it.id ∈ a.want) := by
  induction items generalizing a with
  | nil => simp [deliverLoop]
  | cons it rest ih =>
    unfold deliverLoop
    split
    · simp_all
    · split
      · have := ih { a with errs := a.errs + 1 }
        refine ⟨?_, ?_, ?_⟩
        · intro h; rcases this.1 h with h | ⟨x, hx, h⟩
          · exact Or.inl h
          · exact Or.inr ⟨x, by simp [hx], h⟩
        · intro h; rcases this.2.1 h with h | ⟨x, hx, h⟩
          · exact Or.inl h
          · exact Or.inr ⟨x, by simp [hx], h⟩
        · intro b hb; rcases this.2.2 b hb with h | ⟨x, hx, h⟩
          · exact Or.inl h
          · exact Or.inr ⟨x, by simp [hx], h⟩
      · next hw =>
        simp at hw
        split
        · next hh =>
          simp [Cfg.fixed] at hh
          have := ih { a with errs := a.errs + 1, forged := true }
          refine ⟨?_, ?_, ?_⟩
          · intro _; exact Or.inr ⟨it, by simp, hh, hw⟩
          · intro h; rcases this.2.1 h with h | ⟨x, hx, h⟩
            · exact Or.inl h
            · exact Or.inr ⟨x, by simp [hx], h⟩
          · intro b hb; rcases this.2.2 b hb with h | ⟨x, hx, h⟩
            · exact Or.inl h
            · exact Or.inr ⟨x, by simp [hx], h⟩
        · next hh =>
          simp [Cfg.fixed] at hh
          split
          · next hwin =>
            simp at hwin
            refine ⟨?_, ?_, ?_⟩
            · intro h; exact Or.inl h
            · intro _; exact Or.inr ⟨it, by simp, hh, hwin, hw⟩
            · intro b hb; exact Or.inl hb
          · have := ih { a with want := a.want.erase it.id, got := ⟨it.id, p, it.valid && it.hashOk⟩ :: a.got }
            have hsub : ∀ x, x ∈ a.want.erase it.id → x ∈ a.want := fun x hx => List.mem_of_mem_erase hx
            refine ⟨?_, ?_, ?_⟩
            · intro h; rcases this.1 h with h | ⟨x, hx, h1, h2⟩
              · exact Or.inl h
              · exact Or.inr ⟨x, by simp [hx], h1, hsub _ h2⟩
            · intro h; rcases this.2.1 h with h | ⟨x, hx, h1, h2, h3⟩
              · exact Or.inl h
              · exact Or.inr ⟨x, by simp [hx], h1, h2, hsub _ h3⟩
            · intro b hb; rcases this.2.2 b hb with h | ⟨x, hx, h1, h2, h3, h4⟩
              · simp at h
                rcases h with h | h
                · exact Or.inr ⟨it, by simp, by simp [h], by simp [h], by simp [h], hw⟩
                · exact Or.inl h
              · exact Or.inr ⟨x, by simp [hx], h1, h2, h3, hsub _ h4⟩


/-- the node synchronises from p -/
def isOrigin (s : State) (p : Nat) : Prop := ∃ r, s.run = some r ∧ r.origin = p

/-- the hash `id` is part of a request in flight at peer p -/
def requestedFrom (s : State) (p id : Nat) : Prop := ∃ q ∈ s.inflight, q.peer = p ∧ id ∈ q.ids

/-- what must have happened when event `e` in state `s` makes the node drop peer `p` for reason `w` -/
def Blame (s : State) (e : Event) (p : Nat) : Why → Prop
  | .forged => ∃ items, e = .blocks p items ∧ ∃ it ∈ items, it.hashOk = false ∧ requestedFrom s p it.id
  | .importFailed => e = .imp ∧ ∃ b ∈ s.cache, b.src = p ∧ b.ok = false
  | .timeout => isOrigin s p ∧ e = .tick ∧ ∃ r t, s.run = some r ∧ r.timer = some t ∧ t ≤ 1
  | .emptyHashSet => isOrigin s p ∧ ∃ pk, e = .hashes p pk ∧ pk.ids = []
  | .badPeer => isOrigin s p ∧ ∃ pk, e = .hashes p pk
  | .invalidChain => isOrigin s p ∧ ∃ q items, e = .blocks q items ∧
      ∃ it ∈ items, it.hashOk = true ∧ it.inWin = false ∧ requestedFrom s q it.id
  | .unavailable => isOrigin s p ∧ (∃ rs, e = .update rs) ∧ isIdle s p = false
  | .noPeers => False
  | .cancelled => False

theorem takeBlocks_mem (c : List Blk) (off n : Nat) : ∀ b ∈ takeBlocks c off n, b ∈ c := by
  induction n generalizing off with
  | zero => simp [takeBlocks]
  | succ n ih =>
    intro b hb
    unfold takeBlocks at hb
    split at hb
    · simp at hb
    · next x hx =>
      simp at hb
      rcases hb with rfl | hb
      · exact List.mem_of_find?_eq_some hx
      · exact ih _ b hb

theorem firstBad_spec (l : List Blk) (i : Nat) (h : firstBad l = some i) :
    ∃ b, (l.drop i).head? = some b ∧ b.ok = false ∧ b ∈ l := by
  induction l generalizing i with
  | nil => simp [firstBad] at h
  | cons a t ih =>
    unfold firstBad at h
    split at h
    · simp at h
      obtain ⟨j, hj, rfl⟩ := h
      obtain ⟨b, h1, h2, h3⟩ := ih j hj
      exact ⟨b, by simpa using h1, h2, by simp [h3]⟩
    · next ha =>
      simp at h
      subst h
      exact ⟨a, by simp, by simpa using ha, by simp⟩

theorem reserve_of_inflight_nil (q : Sched) (rs : List (Nat × List Nat)) (h : (reserve q rs).inflight = []) :
    reserve q rs = q := by
  apply reserve_eq_of_length
  have := (reserve_W q rs).1
  rw [h] at this ⊢
  simp only [List.length_nil] at this ⊢
  omega


theorem noPeers_no_drop : Why.dropsOrigin .noPeers = false := by decide

theorem blame_hashes (s : State) (p' : Nat) (pk : HashPack) (p : Nat) (w : Why)
    (h : (p, w) ∈ (onHashes .fixed s p' pk).2) : Blame s (.hashes p' pk) p w := by
  unfold onHashes at h
  split at h
  · simp at h
  · next r hr =>
    split at h
    · unfold onProbe at h
      split at h
      · simp at h
      · next hp =>
        simp at hp
        split at h
        · next hids =>
          have := (abort_drops h).1
          simp at this
          obtain ⟨rfl, rfl⟩ := this
          exact ⟨⟨r, hr, rfl⟩, pk, by rw [hp], hids⟩
        · split at h <;> simp at h
    · unfold onSearch at h
      split at h
      · simp at h
      · next hp =>
        simp at hp
        split at h
        · have := (abort_drops h).1
          simp at this
          obtain ⟨rfl, rfl⟩ := this
          exact ⟨⟨r, hr, rfl⟩, pk, by rw [hp]⟩
        · split at h
          · have := (abort_drops h).1
            simp at this
            obtain ⟨rfl, rfl⟩ := this
            exact ⟨⟨r, hr, rfl⟩, pk, by rw [hp]⟩
          · simp only at h
            split at h <;> (try split at h) <;> simp at h
    · unfold onFetch at h
      simp only [Cfg.fixed, if_true] at h
      split at h
      · simp at h
      · next hp =>
        simp at hp
        split at h
        · split at h <;> simp at h
        · split at h
          · have := (abort_drops h).1
            simp at this
            obtain ⟨rfl, rfl⟩ := this
            exact ⟨⟨r, hr, rfl⟩, pk, by rw [hp]⟩
          · simp at h
    · simp at h


theorem blame_blocks (s : State) (p' : Nat) (items : List Item) (p : Nat) (w : Why)
    (h : (p, w) ∈ (onBlocks .fixed s p' items).2) : Blame s (.blocks p' items) p w := by
  unfold onBlocks at h
  split at h
  · simp at h
  · next r hr =>
    split at h
    · simp at h
    · split at h
      · unfold onBlocksRun at h
        split at h
        · simp at h
        · next q hq =>
          have hq1 := List.mem_of_find?_eq_some hq
          have hq2 : q.peer = p' := by simpa using List.find?_some hq
          have spec := deliverLoop_spec p' items ⟨q.ids, [], 0, false, false⟩
          simp only at h
          split at h
          · next hinv =>
            have := (abort_drops h).1
            simp at this
            obtain ⟨rfl, rfl⟩ := this
            rcases spec.2.1 hinv with h0 | ⟨it, hit, h1, h2, h3⟩
            · simp at h0
            · exact ⟨⟨r, hr, rfl⟩, p', items, rfl, it, hit, h1, h2, q, hq1, hq2, h3⟩
          · split at h
            · next hf =>
              have := dropPeer_drops h
              simp at this
              obtain ⟨rfl, rfl⟩ := this
              rcases spec.1 hf with h0 | ⟨it, hit, h1, h2⟩
              · simp at h0
              · exact ⟨items, rfl, it, hit, h1, q, hq1, hq2, h2⟩
            · split at h <;> simp at h
      · simp at h
    · simp at h

theorem blame_tick (s : State) (p : Nat) (w : Why) (h : (p, w) ∈ (onTick s).2) : Blame s .tick p w := by
  unfold onTick at h
  simp only at h
  split at h
  · simp at h
  · next r hr =>
    split at h
    · simp at h
    · next t ht =>
      split at h
      · next hle =>
        have := (abort_drops h).1
        simp at this
        obtain ⟨rfl, rfl⟩ := this
        exact ⟨⟨r, hr, rfl⟩, rfl, r, t, hr, ht, hle⟩
      · simp at h

theorem isIdle_le_anyIdle (s : State) (p : Nat) (h : anyIdle s.sched = false) : isIdle s p = false := by
  unfold anyIdle at h
  unfold isIdle
  simp only [State.sched, List.any_eq_false] at h ⊢
  intro x hx
  have := h x hx
  simp_all

theorem blame_update (s : State) (rs : List (Nat × List Nat)) (p : Nat) (w : Why)
    (h : (p, w) ∈ (onUpdate s rs).2) : Blame s (.update rs) p w := by
  unfold onUpdate at h
  split at h
  · simp at h
  · next r hr =>
    split at h
    · next fin hb =>
      simp only at h
      split at h
      · have := (abort_drops h).2
        rw [noPeers_no_drop] at this
        cases this
      · split at h
        · split at h <;> simp at h
        · split at h
          · next hc =>
            have := (abort_drops h).1
            simp at this
            obtain ⟨rfl, rfl⟩ := this
            refine ⟨⟨r, hr, rfl⟩, ⟨rs, rfl⟩, ?_⟩
            simp only [Bool.and_eq_true, List.isEmpty_iff, Bool.not_eq_true'] at hc
            have heq := reserve_of_inflight_nil _ _ hc.1
            have hidle := hc.2
            rw [heq] at hidle
            exact isIdle_le_anyIdle s _ hidle
          · simp at h
    · simp at h

theorem blame_imp (s : State) (p : Nat) (w : Why) (h : (p, w) ∈ (onImp s).2) : Blame s .imp p w := by
  unfold onImp at h
  simp only at h
  split at h
  · simp at h
  · split at h
    · simp at h
    · next i hi =>
      obtain ⟨b, hb1, hb2, hb3⟩ := firstBad_spec _ _ hi
      simp only [hb1, Option.map_some] at h
      have := dropPeer_drops h
      simp at this
      obtain ⟨rfl, rfl⟩ := this
      exact ⟨rfl, b, takeBlocks_mem _ _ _ b hb3, rfl, hb2⟩

theorem sync_no_drop (s : State) (p head : Nat) : (onSync .fixed s p head).2 = [] := by
  unfold onSync
  simp only [Cfg.fixed, if_true]
  split
  · rfl
  · split
    · rfl
    · split <;> rfl

theorem blame_step (s : State) (e : Event) (p : Nat) (w : Why) (h : (p, w) ∈ (step .fixed s e).2) : Blame s e p w := by
  cases e with
  | register q => simp [step] at h
  | unregister q => simp [step] at h
  | sync q hd => simp [step, sync_no_drop] at h
  | hashes q pk => exact blame_hashes s q pk p w h
  | blocks q items => exact blame_blocks s q items p w h
  | tick => exact blame_tick s p w h
  | update rs => exact blame_update s rs p w h
  | requeue q => simp [step] at h
  | imp => exact blame_imp s p w h
  | cancel => simp [step] at h


theorem foldl_cacheInsert_mem (got c : List Blk) : ∀ b ∈ got.foldl cacheInsert c, b ∈ c ∨ b ∈ got := by
  induction got generalizing c with
  | nil => intro b hb; exact Or.inl hb
  | cons a t ih =>
    intro b hb
    simp only [List.foldl_cons] at hb
    rcases ih _ b hb with h | h
    · simp [cacheInsert] at h
      rcases h with h | h
      · right; simp [h]
      · left; exact h.1
    · right; simp [h]

@[simp] theorem abort_cache (s : State) (r : Run) (w : Why) : (abort s r w).1.cache = [] := by
  unfold abort; simp only; split <;> simp [resetQueue]

theorem cache_hashes (s : State) (p : Nat) (pk : HashPack) : ∀ b ∈ (onHashes .fixed s p pk).1.cache, b ∈ s.cache := by
  intro b
  unfold onHashes
  split
  · exact id
  · split
    · unfold onProbe startFetch
      repeat' split
      all_goals simp_all
    · unfold onSearch startFetch
      simp only
      repeat' split
      all_goals simp_all
    · unfold onFetch setRun
      simp only [Cfg.fixed, if_true]
      repeat' split
      all_goals simp_all
    · split <;> exact id

theorem cache_blocks (s : State) (p : Nat) (items : List Item) :
    ∀ b ∈ (onBlocks .fixed s p items).1.cache, b ∈ s.cache ∨
      ∃ it ∈ items, b.src = p ∧ it.id = b.id ∧ b.ok = (it.valid && it.hashOk) ∧ requestedFrom s p it.id := by
  intro b
  unfold onBlocks
  split
  · exact Or.inl
  · split
    · exact Or.inl
    · split
      · unfold onBlocksRun
        split
        · exact Or.inl
        · next q hq =>
          have hq1 := List.mem_of_find?_eq_some hq
          have hq2 : q.peer = p := by simpa using List.find?_some hq
          have spec := (deliverLoop_spec p items ⟨q.ids, [], 0, false, false⟩).2.2
          have key : b ∈ (deliverLoop .fixed p items ⟨q.ids, [], 0, false, false⟩).got.foldl cacheInsert s.cache →
              b ∈ s.cache ∨ ∃ it ∈ items, b.src = p ∧ it.id = b.id ∧ b.ok = (it.valid && it.hashOk) ∧ requestedFrom s p it.id := by
            intro hb
            rcases foldl_cacheInsert_mem _ _ b hb with h | h
            · exact Or.inl h
            · rcases spec b h with h0 | ⟨it, hit, h1, h2, h3, h4⟩
              · simp at h0
              · exact Or.inr ⟨it, hit, h2, h1, h3, q, hq1, hq2, h4⟩
          simp only
          split
          · simp
          · split
            · simpa using key
            · split
              · exact key
              · exact key
      · exact Or.inl
    · split <;> exact Or.inl

theorem cache_step (s : State) (e : Event) :
    ∀ b ∈ (step .fixed s e).1.cache, b ∈ s.cache ∨
      ∃ items, e = .blocks b.src items ∧ ∃ it ∈ items, it.id = b.id ∧ b.ok = (it.valid && it.hashOk) ∧
        requestedFrom s b.src it.id := by
  intro b hb
  cases e with
  | register q => left; simp only [step] at hb; split at hb <;> exact hb
  | unregister q => left; exact hb
  | sync q hd =>
    left
    simp only [step] at hb
    unfold onSync at hb
    simp only [Cfg.fixed, if_true] at hb
    split at hb
    · exact hb
    · split at hb
      · exact hb
      · split at hb <;> simp [resetQueue] at hb
  | hashes q pk => left; exact cache_hashes s q pk b hb
  | blocks q items =>
    rcases cache_blocks s q items b hb with h | ⟨it, hit, h1, h2, h3, h4⟩
    · exact Or.inl h
    · subst h1; exact Or.inr ⟨items, rfl, it, hit, h2, h3, h4⟩
  | tick =>
    left
    simp only [step] at hb
    unfold onTick at hb
    simp only at hb
    split at hb
    · exact hb
    · split at hb
      · exact hb
      · split at hb
        · simp at hb
        · exact hb
  | update rs =>
    left
    simp only [step] at hb
    unfold onUpdate at hb
    split at hb
    · exact hb
    · split at hb
      · simp only at hb
        unfold setRun at hb
        repeat' split at hb
        all_goals first | (simp at hb; done) | exact hb
      · exact hb
  | requeue q => left; exact hb
  | imp =>
    left
    simp only [step] at hb
    unfold onImp at hb
    simp only at hb
    split at hb
    · exact hb
    · split at hb
      · simp at hb; exact hb.1
      · split at hb <;> simp [resetQueue] at hb
  | cancel => simp [step, resetQueue] at hb


end ZV.Dl
