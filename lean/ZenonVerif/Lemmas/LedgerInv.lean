import ZenonVerif.Lemmas.LedgerStep
/-
Well-formedness of ledger states and its preservation by every accepted step; the outcome of a token method.
-/
namespace ZV.Ledger

/-- structural invariants of a ledger state -/
structure WF (s : State) : Prop where
  /-- at most one balance entry per (address, token) -/
  balKeys : (s.bal.map (·.1)).Nodup
  /-- confirmed sends have pairwise distinct hashes -/
  sendHashes : (s.sends.map (·.hash)).Nodup
  /-- at most one storage entry per token -/
  tokKeys : (s.toks.map (·.1)).Nodup
  /-- every receive marker refers to a confirmed send -/
  recvConfirmed : ∀ m ∈ s.recv, m.2 ∈ s.sends.map (·.hash)
  /-- no account has two markers for the same send -/
  recvNodup : s.recv.Nodup
  /-- above the receiver-enforcement height every marker belongs to the addressee of the send -/
  recvAddressee : s.gate = true → ∀ m ∈ s.recv, ∀ x ∈ s.sends, x.hash = m.2 → x.dst = m.1
  /-- sends of the zero token standard carry no amount -/
  zeroAmt : ∀ x ∈ s.sends, x.tok = zeroTok → x.amt = 0

theorem wf_iff (s : State) : WF s ↔
    (s.bal.map (·.1)).Nodup ∧ (s.sends.map (·.hash)).Nodup ∧ (s.toks.map (·.1)).Nodup ∧
    (∀ m ∈ s.recv, m.2 ∈ s.sends.map (·.hash)) ∧ s.recv.Nodup ∧
    (s.gate = true → ∀ m ∈ s.recv, ∀ x ∈ s.sends, x.hash = m.2 → x.dst = m.1) ∧
    (∀ x ∈ s.sends, x.tok = zeroTok → x.amt = 0) :=
  ⟨fun ⟨a, b, c, d, e, f, g⟩ => ⟨a, b, c, d, e, f, g⟩, fun ⟨a, b, c, d, e, f, g⟩ => ⟨a, b, c, d, e, f, g⟩⟩

instance (s : State) : Decidable (WF s) := decidable_of_iff _ (wf_iff s).symm

theorem wf_init (g : Bool) : WF (State.init g) := by
  constructor <;> simp [State.init]

/-- a fresh hash has no receive marker -/
theorem WF.not_received {s : State} (hw : WF s) {h : Hash} (hf : h ∉ s.sends.map (·.hash)) :
    s.isReceived h = false := by
  unfold State.isReceived
  rw [List.any_eq_false]
  intro m hm
  have := hw.recvConfirmed m hm
  simp only [beq_iff_eq]
  intro he; rw [he] at this; exact hf this

/-- under the gate a send hash has at most one marker, and it is the addressee's -/
theorem WF.marker_unique {s : State} (hw : WF s) (hg : s.gate = true) {a b : Addr} {h : Hash}
    (ha : (a, h) ∈ s.recv) (hb : (b, h) ∈ s.recv) : a = b := by
  have hc := hw.recvConfirmed _ ha
  obtain ⟨x, hx, hxh⟩ := List.mem_map.1 hc
  have h1 := hw.recvAddressee hg _ ha x hx hxh
  have h2 := hw.recvAddressee hg _ hb x hx hxh
  simp only at h1 h2
  rw [← h1, ← h2]

/-- balance-only changes keep well-formedness -/
theorem WF.of_frame {s s' : State} (hw : WF s) (hb : (s'.bal.map (·.1)).Nodup) (ht : (s'.toks.map (·.1)).Nodup)
    (hs : s'.sends = s.sends) (hr : s'.recv = s.recv) (hg : s'.gate = s.gate) : WF s' := by
  constructor
  · exact hb
  · rw [hs]; exact hw.sendHashes
  · exact ht
  · rw [hs, hr]; exact hw.recvConfirmed
  · rw [hr]; exact hw.recvNodup
  · rw [hs, hr, hg]; exact hw.recvAddressee
  · rw [hs]; exact hw.zeroAmt

theorem WF.credit {s : State} (hw : WF s) (a : Addr) (t : Tok) (n : Nat) : WF (s.credit a t n) :=
  hw.of_frame (nodup_keys_setBal _ _ _ _ hw.balKeys) hw.tokKeys rfl rfl rfl

theorem WF.debit {s : State} (hw : WF s) (a : Addr) (t : Tok) (n : Nat) : WF (s.debit a t n) :=
  hw.of_frame (nodup_keys_setBal _ _ _ _ hw.balKeys) hw.tokKeys rfl rfl rfl

theorem WF.pushSend {s : State} (hw : WF s) {x : Send} (hf : x.hash ∉ s.sends.map (·.hash))
    (hz : x.tok = zeroTok → x.amt = 0) : WF (pushSend s x) := by
  have hd := hw.debit x.src x.tok x.amt
  constructor
  · exact hd.balKeys
  · show ((s.sends ++ [x]).map (·.hash)).Nodup
    rw [List.map_append, List.nodup_append]
    refine ⟨hw.sendHashes, by simp, ?_⟩
    intro a ha b hb
    simp only [List.map_cons, List.map_nil, List.mem_singleton] at hb
    subst hb
    intro he; subst he; exact hf ha
  · exact hw.tokKeys
  · intro m hm
    show m.2 ∈ (s.sends ++ [x]).map (·.hash)
    rw [List.map_append]
    exact List.mem_append_left _ (hw.recvConfirmed m hm)
  · exact hw.recvNodup
  · intro hg m hm y hy hyh
    have hy' : y ∈ s.sends ++ [x] := hy
    rcases List.mem_append.1 hy' with h1 | h1
    · exact hw.recvAddressee hg m hm y h1 hyh
    · simp only [List.mem_singleton] at h1
      subst h1
      exact absurd (hyh ▸ hw.recvConfirmed m hm) hf
  · intro y hy
    have hy' : y ∈ s.sends ++ [x] := hy
    rcases List.mem_append.1 hy' with h1 | h1
    · exact hw.zeroAmt y h1
    · simp only [List.mem_singleton] at h1
      subst h1; exact hz

theorem WF.applySend {s s' : State} (hw : WF s) {src dst : Addr} {tok : Tok} {amt : Nat} {h : Hash} {call : TokCall}
    (hf : h ∉ s.sends.map (·.hash)) (hok : applySend s src dst tok amt h call = .ok s') : WF s' := by
  obtain ⟨hz, _, rfl⟩ := applySend_ok hok
  exact hw.pushSend hf hz

theorem WF.recvCore {s : State} (hw : WF s) {a : Addr} {h : Hash} {snd : Send}
    (hc : checkFrom s a h = .ok snd) : WF (recvCore s a h snd) := by
  obtain ⟨hfind, hdst, hnot⟩ := checkFrom_ok.1 hc
  obtain ⟨hmem, hh⟩ := findSend_some hfind
  have hcr := hw.credit a snd.tok snd.amt
  constructor
  · exact hcr.balKeys
  · exact hw.sendHashes
  · exact hw.tokKeys
  · intro m hm
    have hm' : m ∈ (a, h) :: s.recv := hm
    rcases List.mem_cons.1 hm' with rfl | h1
    · exact List.mem_map.2 ⟨snd, hmem, hh⟩
    · exact hw.recvConfirmed m h1
  · show ((a, h) :: s.recv).Nodup
    exact List.nodup_cons.2 ⟨hnot, hw.recvNodup⟩
  · intro hg m hm x hx hxh
    have hm' : m ∈ (a, h) :: s.recv := hm
    rcases List.mem_cons.1 hm' with rfl | h1
    · have hx' : x ∈ s.sends := hx
      have := findSend_of_mem hw.sendHashes hx'
      simp only at hxh
      rw [hxh, hfind] at this
      cases this
      exact hdst hg
    · exact hw.recvAddressee hg m h1 x hx hxh
  · exact hw.zeroAmt

/-! ### descendants -/

/-- freshness of a descendant list relative to a state -/
def FreshDescs (s : State) (ds : List Desc) : Prop :=
  (ds.map (·.hash)).Nodup ∧ ∀ h ∈ ds.map (·.hash), h ∉ s.sends.map (·.hash)

theorem FreshDescs.tail {s s1 : State} {c : Addr} {d : Desc} {ds : List Desc} (hf : FreshDescs s (d :: ds))
    (h1 : s1 = pushSend s (mkSend c d)) : FreshDescs s1 ds := by
  obtain ⟨hnd, hfr⟩ := hf
  simp only [List.map_cons, List.nodup_cons] at hnd
  refine ⟨hnd.2, ?_⟩
  intro h hh
  subst h1
  show h ∉ (s.sends ++ [mkSend c d]).map (·.hash)
  rw [List.map_append, List.mem_append]
  intro hor
  rcases hor with h2 | h2
  · exact hfr h (List.mem_cons_of_mem _ hh) h2
  · simp only [List.map_cons, List.map_nil, List.mem_singleton, mkSend] at h2
    subst h2; exact hnd.1 hh

theorem FreshDescs.head {s : State} {d : Desc} {ds : List Desc} (hf : FreshDescs s (d :: ds)) :
    d.hash ∉ s.sends.map (·.hash) := hf.2 d.hash (by simp)

theorem FreshDescs.of_frame {s s' : State} {ds : List Desc} (hf : FreshDescs s ds) (hs : s'.sends = s.sends) :
    FreshDescs s' ds := by
  unfold FreshDescs; rw [hs]; exact hf

theorem WF.descs {c : Addr} : ∀ {ds : List Desc} {s s' : State}, WF s → FreshDescs s ds →
    applyDescs s c ds = .ok s' → WF s'
  | [], s, s', hw, _, hok => by simp only [applyDescs] at hok; cases hok; exact hw
  | d :: ds, s, s', hw, hf, hok => by
    obtain ⟨s1, h1, h2⟩ := applyDescs_cons_ok hok
    have hw1 := hw.applySend hf.head h1
    obtain ⟨_, _, he⟩ := applySend_ok h1
    exact WF.descs hw1 (hf.tail (c := c) he) h2

/-! ### token methods -/

def supplyOfL (toks : List (Tok × TokInfo)) (t : Tok) : Nat :=
  match getTok toks t with | some i => i.supply | none => 0

/-- summary of a successful token method: one storage entry (that of `out.mintTok`) is written, its supply is the old
    one plus minted minus burned; a burn burns exactly the received amount of the received token -/
theorem tokenMethod_summary {toks : List (Tok × TokInfo)} {snd : Send} {n : Tok} {out : TokOutcome}
    (hm : tokenMethod toks snd n = some out) :
    ∃ i', out.toks = setTok toks out.mintTok i' ∧
      i'.supply = supplyOfL toks out.mintTok + out.mint - out.burn ∧
      (out.burn = 0 ∨ (out.burn = snd.amt ∧ out.mintTok = snd.tok ∧ out.mint = 0)) := by
  unfold tokenMethod at hm
  split at hm
  · cases hm
  · split at hm
    · cases hm
    · rename_i hg
      cases hm
      exact ⟨_, rfl, by simp [supplyOfL, hg], Or.inl rfl⟩
  · split at hm
    · cases hm
    · rename_i i hg
      split at hm
      · cases hm
      · split at hm
        · cases hm
        · split at hm
          · cases hm
          · split at hm
            · cases hm
            · cases hm
              exact ⟨_, rfl, by simp [supplyOfL, hg], Or.inl rfl⟩
  · split at hm
    · cases hm
    · rename_i i hg
      split at hm
      · cases hm
      · cases hm
        exact ⟨_, rfl, by simp [supplyOfL, hg], Or.inr ⟨rfl, rfl, rfl⟩⟩
  · split at hm
    · cases hm
    · rename_i i hg
      split at hm
      · cases hm
      · split at hm
        · cases hm
        · cases hm
          refine ⟨_, rfl, ?_, Or.inl rfl⟩
          simp only [supplyOfL, hg]
          split <;> simp

/-- T3 at the level of the token method: supply ≤ max is kept by issue (given the send-time check `total ≤ max`),
    mint (guard `max − supply ≥ amt`), burn (lowers both for non-mintable) and update (`max := supply`) -/
theorem tokenMethod_supply_le_max {toks : List (Tok × TokInfo)} {snd : Send} {n : Tok} {out : TokOutcome}
    (hinv : ∀ t i, getTok toks t = some i → i.supply ≤ i.max) (hcall : CallOk snd.call)
    (hm : tokenMethod toks snd n = some out) :
    ∀ t i, getTok out.toks t = some i → i.supply ≤ i.max := by
  intro t j hj
  unfold tokenMethod at hm
  split at hm
  · cases hm
  · rename_i total max mintable burnable hcl
    split at hm
    · cases hm
    · cases hm
      simp only [getTok_setTok] at hj
      split at hj
      · cases hj
        rw [hcl] at hcall
        exact hcall
      · exact hinv t j hj
  · split at hm
    · cases hm
    · rename_i i hg
      have hi := hinv _ _ hg
      split at hm
      · cases hm
      · split at hm
        · cases hm
        · rename_i hguard
          split at hm
          · cases hm
          · split at hm
            · cases hm
            · cases hm
              simp only [getTok_setTok] at hj
              split at hj
              · cases hj
                simp only
                omega
              · exact hinv t j hj
  · split at hm
    · cases hm
    · rename_i i hg
      have hi := hinv _ _ hg
      split at hm
      · cases hm
      · cases hm
        simp only [getTok_setTok] at hj
        split at hj
        · cases hj
          simp only
          split <;> omega
        · exact hinv t j hj
  · split at hm
    · cases hm
    · rename_i i hg
      have hi := hinv _ _ hg
      split at hm
      · cases hm
      · split at hm
        · cases hm
        · cases hm
          simp only [getTok_setTok] at hj
          split at hj
          · cases hj
            simp only
            split <;> simp only [Nat.le_refl, hi]
          · exact hinv t j hj

theorem WF.tokApply {s1 : State} (hw : WF s1) (c : Addr) {snd : Send} {n : Tok} {out : TokOutcome}
    (hm : tokenMethod s1.toks snd n = some out) : WF (tokApply s1 c out) := by
  obtain ⟨i', ht, _, _⟩ := tokenMethod_summary hm
  have h1 : WF (tokMint s1 c out) := by
    refine (hw.credit c out.mintTok out.mint).of_frame (s' := tokMint s1 c out) ?_ ?_ rfl rfl rfl
    · exact (hw.credit c out.mintTok out.mint).balKeys
    · show (out.toks.map (·.1)).Nodup
      rw [ht]
      exact nodup_keys_setTok _ _ _ hw.tokKeys
  exact h1.debit _ _ _

end ZV.Ledger
