import ZenonVerif.Model.ConsensusStore
import ZenonVerif.Lemmas.CodecPBDec
/-
Helper lemmas for Props/C05Store.lean: the codec of the consensus store reads back what it wrote; the cache
invariant of the store is preserved by every operation.
-/
namespace ZV.CStore
open ZV ZV.Codec

/-! ### queries on the new pieces -/

theorem lensOf_map_len {α : Type} (k j : Nat) (g : α → Bytes) (l : List α) :
    lensOf k (l.map (fun x => (⟨j, .len (g x)⟩ : WField))) = if j = k then l.map g else [] := by
  induction l with
  | nil => simp [lensOf]
  | cons x xs ih =>
    simp only [List.map_cons, lensOf, List.filterMap_cons] at *
    by_cases h : j = k <;> simp_all

theorem fixed32sOf_map_len {α : Type} (k j : Nat) (g : α → Bytes) (l : List α) :
    fixed32sOf k (l.map (fun x => (⟨j, .len (g x)⟩ : WField))) = [] := by
  induction l with
  | nil => simp [fixed32sOf]
  | cons x xs ih =>
    simp only [List.map_cons, fixed32sOf, List.filterMap_cons] at *
    by_cases h : j = k <;> simp_all

theorem fixed32sOf_append (k : Nat) (xs ys : List WField) :
    fixed32sOf k (xs ++ ys) = fixed32sOf k xs ++ fixed32sOf k ys := by
  simp [fixed32sOf]

theorem fixed32sOf_fBytes (k j : Nat) (b : Bytes) : fixed32sOf k (fBytes j b) = [] := by
  unfold fBytes; split <;> simp [fixed32sOf]

theorem lensOf_fFixed32 (k j v : Nat) : lensOf k (fFixed32 j v) = [] := by
  unfold fFixed32; split <;> simp [lensOf]

theorem fixed32sOf_fFixed32_ne (k j v : Nat) (h : j ≠ k) : fixed32sOf k (fFixed32 j v) = [] := by
  unfold fFixed32; split <;> simp [fixed32sOf, h]

theorem fixed32sOf_fFixed32_eq (k v : Nat) :
    fixed32sOf k (fFixed32 k v) = if v = 0 then [] else [leBytes 4 v] := by
  unfold fFixed32; split <;> simp [fixed32sOf]

theorem getFixed32_of (k : Nat) (fs : List WField) (v : Nat) (hv : v < two32)
    (h : fixed32sOf k fs = if v = 0 then [] else [leBytes 4 v]) : getFixed32 k fs = v := by
  unfold getFixed32
  rw [h]
  split
  · next h0 => simp [h0]
  · have e : (256 : Nat) ^ 4 = two32 := by decide
    simp [leVal_leBytes, e, Nat.mod_eq_of_lt hv]

theorem shape_fFixed32 (k v : Nat) (hk : numOK k) : ∀ f ∈ fFixed32 k v, f.Shape := by
  intro f hf
  unfold fFixed32 at hf
  split at hf
  · simp at hf
  · simp only [List.mem_singleton] at hf
    subst hf
    exact ⟨hk.1, hk.2, Or.inr ⟨rfl, leBytes_length 4 v⟩⟩

theorem shape_map_len {α : Type} (j : Nat) (hj : numOK j) (g : α → Bytes) (l : List α) :
    ∀ f ∈ l.map (fun x => (⟨j, .len (g x)⟩ : WField)), f.Shape := by
  intro f hf
  simp only [List.mem_map] at hf
  obtain ⟨x, _, rfl⟩ := hf
  exact ⟨hj.1, hj.2, trivial⟩

theorem weightOf_weightBytes (w : Nat) : weightOf (weightBytes w) = w := beVal_natBytesBE w

/-! ### `PillarDelegationProto` / `ElectionDataProto` -/

section
attribute [local simp] lensOf_append lensOf_fBytes_ne lensOf_fBytes_eq lensOf_fFixed32 fixed32sOf_append
  fixed32sOf_fBytes fixed32sOf_fFixed32_ne fixed32sOf_fFixed32_eq lensOf_map_len fixed32sOf_map_len

theorem delegation_shape (d : Delegation) : ∀ f ∈ delegationFields d, f.Shape := by
  simp only [delegationFields, List.forall_mem_append]
  exact ⟨⟨shape_fBytes 1 _ (by decide), shape_fBytes 2 _ (by decide)⟩, shape_fBytes 3 _ (by decide)⟩

theorem delegationOf_fields (d : Delegation) (w : d.WF) : delegationOf (delegationFields d) = some d := by
  have b1 : getBytes 1 (delegationFields d) = d.producing := by
    apply getBytes_of; simp [delegationFields]
  have b2 : getBytes 2 (delegationFields d) = d.name := by
    apply getBytes_of; simp [delegationFields]
  have b3 : getBytes 3 (delegationFields d) = weightBytes d.weight := by
    apply getBytes_of; simp [delegationFields]
  simp [delegationOf, b1, b2, b3, addressOf, w.1, weightOf_weightBytes]

theorem election_shape (e : ElectionData) : ∀ f ∈ electionFields e, f.Shape := by
  simp only [electionFields, producerRecs, delegationRecs, List.forall_mem_append]
  exact ⟨shape_map_len 1 (by decide) _ _, shape_map_len 2 (by decide) _ _⟩

theorem unmarshalED_marshalED (e : ElectionData) (w : e.WF) : unmarshalED (marshalED e) = some e := by
  obtain ⟨wp, wd, wfit⟩ := w
  have hfit : Fits (electionFields e) := wfit
  have hp : parseFields (marshalED e) = some (electionFields e) := parse_of_fits _ hfit (election_shape e)
  have l1 : lensOf 1 (electionFields e) = e.producers := by
    simp [electionFields, producerRecs, delegationRecs]
  have l2 : lensOf 2 (electionFields e) = e.delegations.map (fun d => encFields (delegationFields d)) := by
    simp [electionFields, producerRecs, delegationRecs]
  have hd : listMapM (fun x => (parseFields x).bind delegationOf) (lensOf 2 (electionFields e)) = some e.delegations := by
    rw [l2]
    apply listMapM_map
    intro d hd
    have hmem : ⟨2, .len (encFields (delegationFields d))⟩ ∈ electionFields e := by
      simp only [electionFields, delegationRecs, List.mem_append, List.mem_map]
      exact Or.inr ⟨d, hd, rfl⟩
    rw [parse_of_fits _ (fits_of_mem _ hfit 2 _ hmem) (delegation_shape d)]
    exact delegationOf_fields d (wd d hd)
  have hps : listMapM addressOf (lensOf 1 (electionFields e)) = some e.producers := by
    rw [l1]
    have := listMapM_map addressOf id e.producers (by
      intro x hx; simp [addressOf, wp x hx])
    simpa using this
  simp only [unmarshalED, hp, hd, hps, Option.bind_eq_bind, Option.bind_some]
  rfl

/-! ### `ProducerDetailProto` / `ConsensusPointProto` -/

theorem detail_shape (n : Bytes) (d : Detail) : ∀ f ∈ detailFields n d, f.Shape := by
  simp only [detailFields, List.forall_mem_append]
  exact ⟨⟨⟨shape_fBytes 1 _ (by decide), shape_fFixed32 2 _ (by decide)⟩, shape_fFixed32 3 _ (by decide)⟩,
    shape_fBytes 4 _ (by decide)⟩

theorem entryOf_fields (n : Bytes) (d : Detail) (he : d.expected < two32) (hf : d.factual < two32) :
    entryOf (detailFields n d) = (n, d) := by
  have b1 : getBytes 1 (detailFields n d) = n := by
    apply getBytes_of; simp [detailFields]
  have b4 : getBytes 4 (detailFields n d) = weightBytes d.weight := by
    apply getBytes_of; simp [detailFields]
  have f2 : getFixed32 2 (detailFields n d) = d.factual := by
    apply getFixed32_of _ _ _ hf; simp [detailFields]
  have f3 : getFixed32 3 (detailFields n d) = d.expected := by
    apply getFixed32_of _ _ _ he; simp [detailFields]
  simp [entryOf, b1, b4, f2, f3, weightOf_weightBytes]

theorem point_shape (p : Point) : ∀ f ∈ pointFields p, f.Shape := by
  simp only [pointFields, pillarRecs, List.forall_mem_append]
  exact ⟨⟨⟨shape_fBytes 1 _ (by decide), shape_fBytes 2 _ (by decide)⟩, shape_fBytes 3 _ (by decide)⟩,
    shape_map_len 4 (by decide) _ _⟩

theorem hashOf_of_length (b : Bytes) (h : b.length = Gen.HashSize) : hashOf b = some b := by
  have : b ≠ [] := by intro hb; rw [hb] at h; exact absurd h (by decide)
  simp [hashOf, h, this]

/-- inserting a name the map does not hold appends it -/
theorem mapInsert_new : ∀ (m : PMap) (k : Bytes) (v : Detail), k ∉ namesOf m → mapInsert m k v = m ++ [(k, v)] := by
  intro m
  induction m with
  | nil => intro k v _; rfl
  | cons x xs ih =>
    intro k v h
    obtain ⟨k', d⟩ := x
    simp only [namesOf, List.map_cons, List.mem_cons, not_or] at h
    have h1 : ¬ k' = k := fun e => h.1 e.symm
    simp only [mapInsert, h1, if_false, List.cons_append]
    rw [ih k v h.2]

theorem foldl_mapInsert : ∀ (es acc : PMap), (namesOf (acc ++ es)).Nodup →
    es.foldl (fun m e => mapInsert m e.1 e.2) acc = acc ++ es := by
  intro es
  induction es with
  | nil => intro acc _; simp
  | cons x xs ih =>
    intro acc h
    have hx : x.1 ∉ namesOf acc := by
      simp only [namesOf, List.map_append, List.map_cons] at h
      have := (List.nodup_append.mp h).2.2
      intro hm
      exact this _ hm _ (by simp) rfl
    simp only [List.foldl_cons]
    rw [mapInsert_new acc x.1 x.2 hx]
    have e : acc ++ [(x.1, x.2)] ++ xs = acc ++ x :: xs := by simp
    rw [ih (acc ++ [(x.1, x.2)]) (by rw [e]; exact h), e]

theorem mapOfEntries_nodup (m : PMap) (h : (namesOf m).Nodup) : mapOfEntries m = m := by
  have := foldl_mapInsert m [] (by simpa using h)
  simpa [mapOfEntries] using this

theorem unmarshalPoint_marshalPoint (p : Point) (w : p.WF) : unmarshalPoint (marshalPoint p) = some p := by
  obtain ⟨wprev, wend, went, wnd, wfit⟩ := w
  have hfit : Fits (pointFields p) := wfit
  have hp : parseFields (marshalPoint p) = some (pointFields p) := parse_of_fits _ hfit (point_shape p)
  have b1 : getBytes 1 (pointFields p) = p.prevHash := by
    apply getBytes_of; simp [pointFields, pillarRecs]
  have b2 : getBytes 2 (pointFields p) = p.endHash := by
    apply getBytes_of; simp [pointFields, pillarRecs]
  have b3 : getBytes 3 (pointFields p) = weightBytes p.totalWeight := by
    apply getBytes_of; simp [pointFields, pillarRecs]
  have l4 : lensOf 4 (pointFields p) = p.pillars.map (fun e => encFields (detailFields e.1 e.2)) := by
    simp [pointFields, pillarRecs]
  have hes : listMapM (fun x => (parseFields x).map entryOf) (lensOf 4 (pointFields p)) = some p.pillars := by
    rw [l4]
    apply listMapM_map
    intro x hx
    have hmem : ⟨4, .len (encFields (detailFields x.1 x.2))⟩ ∈ pointFields p := by
      simp only [pointFields, pillarRecs, List.mem_append, List.mem_map]
      exact Or.inr ⟨x, hx, rfl⟩
    rw [parse_of_fits _ (fits_of_mem _ hfit 4 _ hmem) (detail_shape x.1 x.2)]
    have := went x hx
    simp [entryOf_fields x.1 x.2 this.2.1 this.2.2]
  simp only [unmarshalPoint, hp, b1, b2, b3, hes, hashOf_of_length _ wprev, hashOf_of_length _ wend,
    mapOfEntries_nodup _ wnd, weightOf_weightBytes, Option.bind_eq_bind, Option.bind_some]
  rfl

end

/-! ### the value behind a point does not depend on the iteration order -/

theorem nameLe_total (a b : Bytes × Detail) : nameLe a b = true ∨ nameLe b a = true := by
  simp only [nameLe, decide_eq_true_eq]
  exact List.le_total a.1 b.1

theorem nameLe_trans (a b c : Bytes × Detail) (h1 : nameLe a b = true) (h2 : nameLe b c = true) :
    nameLe a c = true := by
  simp only [nameLe, decide_eq_true_eq] at *
  exact List.le_trans h1 h2

theorem perm_insertSorted (e : Bytes × Detail) : ∀ l : PMap, (insertSorted e l).Perm (e :: l) := by
  intro l
  induction l with
  | nil => exact List.Perm.refl _
  | cons x xs ih =>
    simp only [insertSorted]
    split
    · exact List.Perm.refl _
    · exact (List.Perm.cons x ih).trans (List.Perm.swap e x xs)

theorem perm_sortPillars : ∀ l : PMap, (sortPillars l).Perm l := by
  intro l
  induction l with
  | nil => exact List.Perm.refl _
  | cons x xs ih =>
    simp only [sortPillars, List.foldr_cons] at *
    exact (perm_insertSorted x _).trans (List.Perm.cons x ih)

theorem sorted_insertSorted (e : Bytes × Detail) : ∀ l : PMap, l.Pairwise (fun a b => nameLe a b = true) →
    (insertSorted e l).Pairwise (fun a b => nameLe a b = true) := by
  intro l
  induction l with
  | nil => intro _; simp [insertSorted]
  | cons x xs ih =>
    intro h
    simp only [insertSorted]
    split
    · next hle =>
      refine List.Pairwise.cons ?_ h
      intro y hy
      simp only [List.mem_cons] at hy
      rcases hy with rfl | hy
      · exact hle
      · exact nameLe_trans e x y hle (List.rel_of_pairwise_cons h hy)
    · next hle =>
      have hxe : nameLe x e = true := by
        rcases nameLe_total e x with h1 | h1
        · exact absurd h1 hle
        · exact h1
      refine List.Pairwise.cons ?_ (ih h.tail)
      intro y hy
      have := (perm_insertSorted e xs).mem_iff.mp hy
      simp only [List.mem_cons] at this
      rcases this with rfl | hy'
      · exact hxe
      · exact List.rel_of_pairwise_cons h hy'

theorem sorted_sortPillars : ∀ l : PMap, (sortPillars l).Pairwise (fun a b => nameLe a b = true) := by
  intro l
  induction l with
  | nil => simp [sortPillars]
  | cons x xs ih =>
    simp only [sortPillars, List.foldr_cons] at *
    exact sorted_insertSorted x _ ih

theorem eq_of_name_eq : ∀ (l : PMap), (namesOf l).Nodup → ∀ a b, a ∈ l → b ∈ l → a.1 = b.1 → a = b := by
  intro l
  induction l with
  | nil => intro _ a b ha; simp at ha
  | cons x xs ih =>
    intro h a b ha hb hab
    simp only [namesOf, List.map_cons, List.nodup_cons, List.mem_map, not_exists, not_and] at h
    simp only [List.mem_cons] at ha hb
    rcases ha with rfl | ha <;> rcases hb with rfl | hb
    · rfl
    · exact absurd hab.symm (h.1 b hb)
    · exact absurd hab (h.1 a ha)
    · exact ih h.2 a b ha hb hab

theorem sortPillars_eq_of_perm (l1 l2 : PMap) (hp : l1.Perm l2) (hn : (namesOf l2).Nodup) :
    sortPillars l1 = sortPillars l2 := by
  apply List.Perm.eq_of_pairwise (le := fun a b => nameLe a b = true) _ (sorted_sortPillars l1) (sorted_sortPillars l2)
  · exact (perm_sortPillars l1).trans (hp.trans (perm_sortPillars l2).symm)
  · intro a b ha hb h1 h2
    have ha2 : a ∈ l2 := hp.mem_iff.mp ((perm_sortPillars l1).mem_iff.mp ha)
    have hb2 : b ∈ l2 := (perm_sortPillars l2).mem_iff.mp hb
    simp only [nameLe, decide_eq_true_eq] at h1 h2
    exact eq_of_name_eq l2 hn a b ha2 hb2 (List.le_antisymm h1 h2)

/-! ### keys -/

theorem electionKey_inj {h1 h2 : Bytes} (h : electionKey h1 = electionKey h2) : h1 = h2 := by
  simpa [electionKey] using h

theorem pointKey_inj {i1 i2 t1 t2 : Nat} (b1 : t1 < two64) (b2 : t2 < two64)
    (h : pointKey i1 t1 = pointKey i2 t2) : i1 = i2 ∧ t1 = t2 := by
  simp only [pointKey, List.cons.injEq] at h
  exact ⟨h.1, u64_inj b1 b2 h.2⟩

theorem pointKey_ne_electionKey {i t : Nat} {h : Bytes} (hi : i < Gen.csNumPointTypes) :
    pointKey i t ≠ electionKey h := by
  intro e
  simp only [pointKey, electionKey, List.cons.injEq] at e
  have : Gen.csPrefixElectionResult = 10 := rfl
  have : Gen.csNumPointTypes = 2 := rfl
  omega

/-! ### the backing map -/

theorem kvGet_put (kv : KV) (k v k' : Bytes) :
    kvGet (kvPut kv k v) k' = if k = k' then some v else kvGet kv k' := rfl

theorem kvGet_put_ne (kv : KV) (k v k' : Bytes) (h : k ≠ k') : kvGet (kvPut kv k v) k' = kvGet kv k' := by
  simp [kvGet_put, h]

theorem kvGet_del_ne : ∀ (kv : KV) (k k' : Bytes), k ≠ k' → kvGet (kvDel kv k) k' = kvGet kv k' := by
  intro kv
  induction kv with
  | nil => intro _ _ _; rfl
  | cons x xs ih =>
    intro k k' h
    obtain ⟨a, b⟩ := x
    by_cases ha : a = k
    · subst ha
      have : kvDel ((a, b) :: xs) a = kvDel xs a := by simp [kvDel]
      rw [this, ih a k' h]
      simp [kvGet, h]
    · have : kvDel ((a, b) :: xs) k = (a, b) :: kvDel xs k := by simp [kvDel, ha]
      rw [this]
      simp only [kvGet]
      split
      · rfl
      · exact ih k k' h

theorem kvGet_del_eq : ∀ (kv : KV) (k : Bytes), kvGet (kvDel kv k) k = none := by
  intro kv
  induction kv with
  | nil => intro _; rfl
  | cons x xs ih =>
    intro k
    obtain ⟨a, b⟩ := x
    by_cases ha : a = k
    · subst ha
      have : kvDel ((a, b) :: xs) a = kvDel xs a := by simp [kvDel]
      rw [this]; exact ih a
    · have : kvDel ((a, b) :: xs) k = (a, b) :: kvDel xs k := by simp [kvDel, ha]
      rw [this]
      simp only [kvGet, ha, if_false]
      exact ih k

/-! ### the LRU: what it holds after an operation was there before, or is the entry just added -/

namespace Lru
variable {κ α : Type} [DecidableEq κ]

theorem find_mem : ∀ (items : List (κ × α)) (k : κ) (v : α), find items k = some v → (k, v) ∈ items := by
  intro items
  induction items with
  | nil => intro k v h; simp [find] at h
  | cons x xs ih =>
    intro k v h
    obtain ⟨a, b⟩ := x
    simp only [find] at h
    split at h
    · next hk => simp at h; subst hk; subst h; simp
    · exact List.mem_cons_of_mem _ (ih k v h)

theorem mem_without {items : List (κ × α)} {k : κ} {x : κ × α} (h : x ∈ without items k) :
    x ∈ items ∧ x.1 ≠ k := by
  simpa [without] using h

theorem mem_add {c : Lru κ α} {k : κ} {v : α} {x : κ × α} (h : x ∈ (c.add k v).items) :
    x = (k, v) ∨ (x ∈ c.items ∧ x.1 ≠ k) := by
  have := List.mem_of_mem_take h
  simp only [List.mem_cons] at this
  rcases this with rfl | hx
  · exact Or.inl rfl
  · exact Or.inr (mem_without hx)

theorem mem_remove {c : Lru κ α} {k : κ} {x : κ × α} (h : x ∈ (c.remove k).items) : x ∈ c.items ∧ x.1 ≠ k :=
  mem_without h

theorem get?_some {c : Lru κ α} {k : κ} {v : α} {c' : Lru κ α} (h : c.get? k = some (v, c')) :
    (k, v) ∈ c.items ∧ c'.cap = c.cap ∧ ∀ x ∈ c'.items, x = (k, v) ∨ (x ∈ c.items ∧ x.1 ≠ k) := by
  unfold get? at h
  cases hf : find c.items k with
  | none => simp [hf] at h
  | some w =>
    simp only [hf, Option.map_some, Option.some.injEq, Prod.mk.injEq] at h
    obtain ⟨rfl, rfl⟩ := h
    refine ⟨find_mem _ _ _ hf, rfl, ?_⟩
    intro x hx
    simp only [List.mem_cons] at hx
    rcases hx with rfl | hx
    · exact Or.inl rfl
    · exact Or.inr (mem_without hx)

theorem get?_add_self (c : Lru κ α) (k : κ) (v : α) (hc : 0 < c.cap) :
    ∃ c', (c.add k v).get? k = some (v, c') := by
  unfold get? add
  obtain ⟨n, hn⟩ : ∃ n, c.cap = n + 1 := ⟨c.cap - 1, by omega⟩
  simp [hn, find]

end Lru
end ZV.CStore

namespace ZV.CStore
open ZV ZV.Codec

/-! ### the cache invariant -/

theorem answerED_put_ne (kv : KV) (k v h : Bytes) (hne : k ≠ electionKey h) :
    answerED (kvPut kv k v) h = answerED kv h := by
  simp [answerED, kvGet_put_ne _ _ _ _ hne]

theorem answerPoint_put_ne (kv : KV) (k v : Bytes) (i t : Nat) (hne : k ≠ pointKey i t) :
    answerPoint (kvPut kv k v) i t = answerPoint kv i t := by
  simp [answerPoint, kvGet_put_ne _ _ _ _ hne]

theorem answerED_del_ne (kv : KV) (k h : Bytes) (hne : k ≠ electionKey h) :
    answerED (kvDel kv k) h = answerED kv h := by
  simp [answerED, kvGet_del_ne _ _ _ hne]

theorem answerPoint_del_ne (kv : KV) (k : Bytes) (i t : Nat) (hne : k ≠ pointKey i t) :
    answerPoint (kvDel kv k) i t = answerPoint kv i t := by
  simp [answerPoint, kvGet_del_ne _ _ _ hne]

theorem getElem?_set_cases {α : Type} (l : List α) (i j : Nat) (a c : α) (h : (l.set i a)[j]? = some c) :
    (j = i ∧ c = a ∧ i < l.length) ∨ (j ≠ i ∧ l[j]? = some c) := by
  rw [List.getElem?_set] at h
  by_cases hij : i = j
  · subst hij
    simp only [if_true] at h
    split at h
    · next hl => exact Or.inl ⟨rfl, by simpa using h.symm, hl⟩
    · simp at h
  · simp only [hij, if_false] at h
    exact Or.inr ⟨fun e => hij e.symm, h⟩

theorem lt_of_getElem?_some {α : Type} {l : List α} {i : Nat} {c : α} (h : l[i]? = some c) : i < l.length := by
  have := List.getElem?_eq_some_iff.mp h
  exact this.1

theorem coherent_openOn (kv : KV) (ecap pcap : Nat) : (Store.openOn kv ecap pcap).Coherent := by
  refine ⟨?_, ?_, by simp [Store.openOn]⟩
  · intro h e he; simp [Store.openOn, Lru.new] at he
  · intro i c hc ht p hp
    simp only [Store.openOn] at hc
    have := List.getElem?_eq_some_iff.mp hc
    obtain ⟨_, hget⟩ := this
    simp only [List.getElem_replicate] at hget
    subst hget
    simp [Lru.new] at hp

theorem coherent_reopen (s : Store) (hs : s.Coherent) : s.reopen.Coherent := by
  refine ⟨?_, ?_, by simpa [Store.reopen] using hs.2.2⟩
  · intro h e he; simp [Store.reopen, Lru.new] at he
  · intro i c hc ht p hp
    simp only [Store.reopen, List.getElem?_map] at hc
    cases hq : s.points[i]? with
    | none => simp [hq] at hc
    | some c0 =>
      simp only [hq, Option.map_some, Option.some.injEq] at hc
      subst hc
      simp [Lru.new] at hp

theorem coherent_storeElection (s : Store) (hs : s.Coherent) (h : Bytes) (e : ElectionData) (we : e.WF) :
    (storeElection s h e).Coherent := by
  obtain ⟨c1, c2, c3⟩ := hs
  refine ⟨?_, ?_, c3⟩
  · intro h' e' hm
    simp only [storeElection] at hm ⊢
    rcases Lru.mem_add hm with heq | ⟨hold, hne⟩
    · simp only [Prod.mk.injEq] at heq
      obtain ⟨rfl, rfl⟩ := heq
      simp [answerED, kvGet_put, unmarshalED_marshalED e' we]
    · rw [answerED_put_ne _ _ _ _ (fun e => hne (electionKey_inj e).symm)]
      exact c1 h' e' hold
  · intro i c hc ht p hp
    simp only [storeElection] at hc ⊢
    have hi : i < Gen.csNumPointTypes := by rw [← c3]; exact lt_of_getElem?_some hc
    rw [answerPoint_put_ne _ _ _ _ _ (fun e => pointKey_ne_electionKey hi e.symm)]
    exact c2 i c hc ht p hp

/-- a get answers what a cache-less node would answer, and leaves a coherent store over the same backing map -/
theorem getElection_spec (s : Store) (hs : s.Coherent) (h : Bytes) :
    (getElection s h).map (·.2) = answerED s.kv h ∧
    ∀ s' r, getElection s h = some (s', r) → s'.Coherent ∧ s'.kv = s.kv := by
  obtain ⟨c1, c2, c3⟩ := hs
  unfold getElection
  cases hg : s.elect.get? h with
  | some vc =>
    obtain ⟨v, c⟩ := vc
    obtain ⟨hm, _, hsub⟩ := Lru.get?_some hg
    refine ⟨by simp [c1 h v hm], ?_⟩
    intro s' r hr
    simp only [Option.some.injEq, Prod.mk.injEq] at hr
    obtain ⟨rfl, _⟩ := hr
    refine ⟨⟨?_, c2, c3⟩, rfl⟩
    intro h' e' hm'
    rcases hsub _ hm' with heq | ⟨hold, _⟩
    · simp only [Prod.mk.injEq] at heq
      obtain ⟨rfl, rfl⟩ := heq
      exact c1 _ _ hm
    · exact c1 _ _ hold
  | none =>
    simp only
    cases hk : kvGet s.kv (electionKey h) with
    | none =>
      refine ⟨by simp [answerED, hk], ?_⟩
      intro s' r hr
      simp only [Option.some.injEq, Prod.mk.injEq] at hr
      obtain ⟨rfl, _⟩ := hr
      exact ⟨⟨c1, c2, c3⟩, rfl⟩
    | some b =>
      simp only
      cases hu : unmarshalED b with
      | none => exact ⟨by simp [answerED, hk, hu], by intro s' r hr; simp at hr⟩
      | some v =>
        refine ⟨by simp [answerED, hk, hu], ?_⟩
        intro s' r hr
        simp only [Option.some.injEq, Prod.mk.injEq] at hr
        obtain ⟨rfl, _⟩ := hr
        refine ⟨⟨?_, c2, c3⟩, rfl⟩
        intro h' e' hm'
        rcases Lru.mem_add hm' with heq | ⟨hold, _⟩
        · simp only [Prod.mk.injEq] at heq
          obtain ⟨rfl, rfl⟩ := heq
          simp [answerED, hk, hu]
        · exact c1 _ _ hold

theorem coherent_storePoint (s : Store) (hs : s.Coherent) (i t : Nat) (p : Point) (ht : t < two64) (wp : p.WF)
    (s' : Store) (h : storePoint s i t p = some s') : s'.Coherent := by
  obtain ⟨c1, c2, c3⟩ := hs
  unfold storePoint at h
  cases hc : s.points[i]? with
  | none => simp [hc] at h
  | some c =>
    simp only [hc, Option.some.injEq] at h
    subst h
    have hi : i < Gen.csNumPointTypes := by rw [← c3]; exact lt_of_getElem?_some hc
    refine ⟨?_, ?_, by simpa using c3⟩
    · intro h' e' hm
      simp only at hm ⊢
      rw [answerED_put_ne _ _ _ _ (pointKey_ne_electionKey hi)]
      exact c1 h' e' hm
    · intro j cj hj t' p' hp'
      simp only at hj ⊢
      rcases getElem?_set_cases _ _ _ _ _ hj with ⟨rfl, rfl, _⟩ | ⟨hji, hold⟩
      · rcases Lru.mem_add hp' with heq | ⟨hin, hne⟩
        · simp only [Prod.mk.injEq] at heq
          obtain ⟨rfl, rfl⟩ := heq
          exact ⟨by simp [answerPoint, kvGet_put, unmarshalPoint_marshalPoint p' wp], ht⟩
        · have hb := (c2 j c hc t' p' hin).2
          rw [answerPoint_put_ne _ _ _ _ _ (fun e => hne (pointKey_inj ht hb e).2.symm)]
          exact c2 j c hc t' p' hin
      · have hb := (c2 j cj hold t' p' hp').2
        rw [answerPoint_put_ne _ _ _ _ _ (fun e => hji (pointKey_inj ht hb e).1.symm)]
        exact c2 j cj hold t' p' hp'

theorem coherent_deletePoint (s : Store) (hs : s.Coherent) (i t : Nat) (ht : t < two64)
    (s' : Store) (h : deletePoint s i t = some s') : s'.Coherent := by
  obtain ⟨c1, c2, c3⟩ := hs
  unfold deletePoint at h
  cases hc : s.points[i]? with
  | none => simp [hc] at h
  | some c =>
    simp only [hc, Option.some.injEq] at h
    subst h
    have hi : i < Gen.csNumPointTypes := by rw [← c3]; exact lt_of_getElem?_some hc
    refine ⟨?_, ?_, by simpa using c3⟩
    · intro h' e' hm
      simp only at hm ⊢
      rw [answerED_del_ne _ _ _ (pointKey_ne_electionKey hi)]
      exact c1 h' e' hm
    · intro j cj hj t' p' hp'
      simp only at hj ⊢
      rcases getElem?_set_cases _ _ _ _ _ hj with ⟨rfl, rfl, _⟩ | ⟨hji, hold⟩
      · obtain ⟨hin, hne⟩ := Lru.mem_remove hp'
        have hb := (c2 j c hc t' p' hin).2
        rw [answerPoint_del_ne _ _ _ _ (fun e => hne (pointKey_inj ht hb e).2.symm)]
        exact c2 j c hc t' p' hin
      · have hb := (c2 j cj hold t' p' hp').2
        rw [answerPoint_del_ne _ _ _ _ (fun e => hji (pointKey_inj ht hb e).1.symm)]
        exact c2 j cj hold t' p' hp'

theorem getPoint_spec (s : Store) (hs : s.Coherent) (i t : Nat) (hi : i < Gen.csNumPointTypes) (ht : t < two64) :
    (getPoint s i t).map (·.2) = answerPoint s.kv i t ∧
    ∀ s' r, getPoint s i t = some (s', r) → s'.Coherent ∧ s'.kv = s.kv := by
  obtain ⟨c1, c2, c3⟩ := hs
  unfold getPoint
  cases hc : s.points[i]? with
  | none =>
    have : i < s.points.length := by rw [c3]; exact hi
    simp at hc
    omega
  | some c =>
    simp only
    cases hg : c.get? t with
    | some vc =>
      obtain ⟨v, c'⟩ := vc
      obtain ⟨hm, _, hsub⟩ := Lru.get?_some hg
      refine ⟨by simp [(c2 i c hc t v hm).1], ?_⟩
      intro s' r hr
      simp only [Option.some.injEq, Prod.mk.injEq] at hr
      obtain ⟨rfl, _⟩ := hr
      refine ⟨⟨c1, ?_, by simpa using c3⟩, rfl⟩
      intro j cj hj t' p' hp'
      simp only at hj ⊢
      rcases getElem?_set_cases _ _ _ _ _ hj with ⟨rfl, rfl, _⟩ | ⟨_, hold⟩
      · rcases hsub _ hp' with heq | ⟨hin, _⟩
        · simp only [Prod.mk.injEq] at heq
          obtain ⟨rfl, rfl⟩ := heq
          exact c2 _ _ hc _ _ hm
        · exact c2 _ _ hc _ _ hin
      · exact c2 _ _ hold _ _ hp'
    | none =>
      simp only
      cases hk : kvGet s.kv (pointKey i t) with
      | none =>
        refine ⟨by simp [answerPoint, hk], ?_⟩
        intro s' r hr
        simp only [Option.some.injEq, Prod.mk.injEq] at hr
        obtain ⟨rfl, _⟩ := hr
        exact ⟨⟨c1, c2, c3⟩, rfl⟩
      | some b =>
        simp only
        cases hu : unmarshalPoint b with
        | none => exact ⟨by simp [answerPoint, hk, hu], by intro s' r hr; simp at hr⟩
        | some v =>
          refine ⟨by simp [answerPoint, hk, hu], ?_⟩
          intro s' r hr
          simp only [Option.some.injEq, Prod.mk.injEq] at hr
          obtain ⟨rfl, _⟩ := hr
          refine ⟨⟨c1, ?_, by simpa using c3⟩, rfl⟩
          intro j cj hj t' p' hp'
          simp only at hj ⊢
          rcases getElem?_set_cases _ _ _ _ _ hj with ⟨rfl, rfl, _⟩ | ⟨_, hold⟩
          · rcases Lru.mem_add hp' with heq | ⟨hin, _⟩
            · simp only [Prod.mk.injEq] at heq
              obtain ⟨rfl, rfl⟩ := heq
              exact ⟨by simp [answerPoint, hk, hu], ht⟩
            · exact c2 _ _ hc _ _ hin
          · exact c2 _ _ hold _ _ hp'

theorem coherent_step (s : Store) (hs : s.Coherent) (op : Op) (w : op.WF) (s' : Store) (h : step s op = some s') :
    s'.Coherent := by
  cases op with
  | storeE hh e =>
    simp only [step, Option.some.injEq] at h
    subst h
    exact coherent_storeElection s hs hh e w.2
  | getE hh =>
    simp only [step, Option.map_eq_some_iff] at h
    obtain ⟨⟨s1, r⟩, hg, rfl⟩ := h
    exact ((getElection_spec s hs hh).2 s1 r hg).1
  | storeP i t p => exact coherent_storePoint s hs i t p w.2.1 w.2.2 s' h
  | getP i t =>
    simp only [step, Option.map_eq_some_iff] at h
    obtain ⟨⟨s1, r⟩, hg, rfl⟩ := h
    exact ((getPoint_spec s hs i t w.1 w.2).2 s1 r hg).1
  | delP i t => exact coherent_deletePoint s hs i t w.2 s' h
  | restart =>
    simp only [step, Option.some.injEq] at h
    subst h
    exact coherent_reopen s hs

theorem coherent_run : ∀ (ops : List Op) (s : Store), s.Coherent → (∀ op ∈ ops, op.WF) → ∀ s', run s ops = some s' →
    s'.Coherent := by
  intro ops
  induction ops with
  | nil => intro s hs _ s' h; simp only [run, Option.some.injEq] at h; subst h; exact hs
  | cons op ops ih =>
    intro s hs w s' h
    simp only [run] at h
    cases hst : step s op with
    | none => simp [hst] at h
    | some s1 =>
      simp only [hst, Option.bind_some] at h
      exact ih s1 (coherent_step s hs op (w op (by simp)) s1 hst) (fun o ho => w o (by simp [ho])) s' h

/-! ### frame: an operation on another key leaves the backing bytes of a key alone -/

/-- the backing key an operation writes (stores and deletes), if any -/
def Op.writes : Op → Option Bytes
  | .storeE h _ => some (electionKey h)
  | .storeP i t _ => some (pointKey i t)
  | .delP i t => some (pointKey i t)
  | _ => none

theorem step_frame (s : Store) (hs : s.Coherent) (op : Op) (w : op.WF) (k : Bytes) (hk : op.writes ≠ some k)
    (s' : Store) (h : step s op = some s') : kvGet s'.kv k = kvGet s.kv k := by
  cases op with
  | storeE hh e =>
    simp only [step, Option.some.injEq] at h
    subst h
    exact kvGet_put_ne _ _ _ _ (fun e => hk (by simp [Op.writes, e]))
  | getE hh =>
    simp only [step, Option.map_eq_some_iff] at h
    obtain ⟨⟨s1, r⟩, hg, rfl⟩ := h
    rw [((getElection_spec s hs hh).2 s1 r hg).2]
  | storeP i t p =>
    simp only [step, storePoint] at h
    cases hc : s.points[i]? with
    | none => simp [hc] at h
    | some c =>
      simp only [hc, Option.some.injEq] at h
      subst h
      exact kvGet_put_ne _ _ _ _ (fun e => hk (by simp [Op.writes, e]))
  | getP i t =>
    simp only [step, Option.map_eq_some_iff] at h
    obtain ⟨⟨s1, r⟩, hg, rfl⟩ := h
    rw [((getPoint_spec s hs i t w.1 w.2).2 s1 r hg).2]
  | delP i t =>
    simp only [step, deletePoint] at h
    cases hc : s.points[i]? with
    | none => simp [hc] at h
    | some c =>
      simp only [hc, Option.some.injEq] at h
      subst h
      exact kvGet_del_ne _ _ _ (fun e => hk (by simp [Op.writes, e]))
  | restart =>
    simp only [step, Option.some.injEq] at h
    subst h
    rfl

theorem run_frame : ∀ (ops : List Op) (s : Store), s.Coherent → (∀ op ∈ ops, op.WF) → ∀ (k : Bytes),
    (∀ op ∈ ops, op.writes ≠ some k) → ∀ s', run s ops = some s' → kvGet s'.kv k = kvGet s.kv k := by
  intro ops
  induction ops with
  | nil => intro s _ _ k _ s' h; simp only [run, Option.some.injEq] at h; subst h; rfl
  | cons op ops ih =>
    intro s hs w k hk s' h
    simp only [run] at h
    cases hst : step s op with
    | none => simp [hst] at h
    | some s1 =>
      simp only [hst, Option.bind_some] at h
      have h1 := coherent_step s hs op (w op (by simp)) s1 hst
      rw [ih s1 h1 (fun o ho => w o (by simp [ho])) k (fun o ho => hk o (by simp [ho])) s' h]
      exact step_frame s hs op (w op (by simp)) k (hk op (by simp)) s1 hst

end ZV.CStore
