import ZenonVerif.Model.NodeCache
/-
Lemmas for Props/C06Node.lean: the invariant of the consensus database ("every stored entry is what a computation from
scratch gives on THE chain its hash names") does not mention the node's chain at all — which is why the delete events
have nothing to do — and every query re-establishes the link with the current chain by comparing hashes.
-/
namespace ZV.NodeCache

variable {El P : Type}

/-! ### cuts -/

theorem cut_cut (C : Chain) {e e' : Nat} (h : e' ≤ e) : cut (cut C e) e' = cut C e' := by
  induction C with
  | nil => rfl
  | cons m r ih =>
    by_cases hm : e ≤ m.ts
    · have hm' : e' ≤ m.ts := Nat.le_trans h hm
      have e1 : cut (m :: r) e = cut r e := by simp [cut, hm]
      have e2 : cut (m :: r) e' = cut r e' := by simp [cut, hm']
      rw [e1, e2, ih]
    · have e1 : cut (m :: r) e = m :: r := by simp [cut, hm]
      rw [e1]

theorem proofTime_le {len : Nat} (hlen : 0 < len) (t : Nat) : proofTime len t ≤ (t + 1) * len := by
  unfold proofTime
  split
  · exact Nat.mul_pos (Nat.succ_pos t) hlen
  · exact Nat.mul_le_mul_right len (by omega)

/-! ### hash chaining -/

theorem ChainWF.dropWhile {pf : Nat → Chain} {g : Nat} {C : Chain} (p : Mom → Bool) (h : ChainWF pf g C) :
    ChainWF pf g (C.dropWhile p) := by
  induction C with
  | nil => exact h
  | cons m r ih =>
    rw [List.dropWhile_cons]
    split
    · exact ih h.2
    · exact h

theorem ChainWF.drop {pf : Nat → Chain} {g : Nat} {C : Chain} (h : ChainWF pf g C) (k : Nat) : ChainWF pf g (C.drop k) := by
  induction k generalizing C with
  | zero => exact h
  | succ k ih =>
    cases C with
    | nil => exact h
    | cons m r => exact ih h.2

theorem ChainWF.head {pf : Nat → Chain} {g : Nat} {C : Chain} (h : ChainWF pf g C) : pf (headHash g C) = C := by
  cases C with
  | nil => exact h
  | cons m r => exact h.1

theorem ChainWF.cut {pf : Nat → Chain} {g : Nat} {C : Chain} (h : ChainWF pf g C) (e : Nat) :
    pf (headHash g (cut C e)) = cut C e := (h.dropWhile _).head

/-! ### a point computed on the chain cut at (or after) the end of its tick is the point of the whole chain -/

theorem periodOn_cut (S : Spec El P) (cfg : Cfg) (hlen : 0 < cfg.len) (C : Chain) {t e : Nat} (he : (t + 1) * cfg.len ≤ e) :
    periodOn S cfg (cut C e) t = periodOn S cfg C t := by
  unfold periodOn specElect content endCut
  rw [cut_cut C (Nat.le_trans (proofTime_le hlen t) he), cut_cut C he]

theorem mem_lowerTicks {cfg : Cfg} {T i : Nat} (h : i ∈ lowerTicks cfg T) : i + 1 ≤ (T + 1) * cfg.mult := by
  unfold lowerTicks at h
  simp only [List.mem_map, List.mem_reverse, List.mem_range] at h
  obtain ⟨j, hj, rfl⟩ := h
  rw [Nat.succ_mul]; omega

theorem lower_end_le {cfg : Cfg} {T i : Nat} (h : i ∈ lowerTicks cfg T) : (i + 1) * cfg.len ≤ (T + 1) * (cfg.len * cfg.mult) := by
  have h1 := Nat.mul_le_mul_right cfg.len (mem_lowerTicks h)
  rw [Nat.mul_assoc, Nat.mul_comm cfg.mult cfg.len] at h1
  exact h1

theorem lowers_full (S : Spec El P) (cfg : Cfg) (C : Chain) (T : Nat) (hf : finished (cfg.len * cfg.mult) C T = true) :
    (lowerTicks cfg T).filterMap (specPeriod S cfg C) = (lowerTicks cfg T).map (periodOn S cfg C) := by
  have hf' : (T + 1) * (cfg.len * cfg.mult) ≤ frontTs C := by simpa [finished] using hf
  have key : ∀ l : List Nat, (∀ i ∈ l, i ∈ lowerTicks cfg T) →
      l.filterMap (specPeriod S cfg C) = l.map (periodOn S cfg C) := by
    intro l
    induction l with
    | nil => intro _; rfl
    | cons i is ih =>
      intro hl
      have hi := lower_end_le (hl i (List.mem_cons_self ..))
      have hs : started cfg.len C i = true := by
        simp only [started, decide_eq_true_eq]
        have : i * cfg.len ≤ (i + 1) * cfg.len := Nat.mul_le_mul_right _ (Nat.le_succ i)
        omega
      rw [List.filterMap_cons, List.map_cons]
      simp only [specPeriod, hs, if_true]
      rw [ih (fun j hj => hl j (List.mem_cons_of_mem _ hj))]
  exact key _ (fun _ h => h)

theorem lowers_cut (S : Spec El P) (cfg : Cfg) (hlen : 0 < cfg.len) (C : Chain) (T : Nat) :
    (lowerTicks cfg T).map (periodOn S cfg (endCut (cfg.len * cfg.mult) C T)) = (lowerTicks cfg T).map (periodOn S cfg C) := by
  apply List.map_congr_left
  intro i hi
  exact periodOn_cut S cfg hlen C (lower_end_le hi)

/-! ### the invariant of the consensus database -/

/-- every stored entry is what a computation from scratch gives on the chain its hash names -/
structure CInv (S : Spec El P) (cfg : Cfg) (pf : Nat → Chain) (c : Caches El P) : Prop where
  el : ∀ h d, c.el h = some d → d = S.elect (pf h)
  pc : ∀ t h p, c.pc t = some (h, p) → p = periodOn S cfg (pf h) t
  ec : ∀ T h p, c.ec T = some (h, p) → p = epochFull S cfg (pf h) T

theorem CInv.empty (S : Spec El P) (cfg : Cfg) (pf : Nat → Chain) : CInv S cfg pf (Caches.empty : Caches El P) :=
  ⟨fun _ _ h => by simp [Caches.empty] at h, fun _ _ _ h => by simp [Caches.empty] at h,
   fun _ _ _ h => by simp [Caches.empty] at h⟩

theorem electC_ok (S : Spec El P) (cfg : Cfg) {pf : Nat → Chain} {c : Caches El P} (hc : CInv S cfg pf c)
    {proof : Chain} (hp : pf (headHash cfg.g proof) = proof) :
    (electC S cfg.g c proof).1 = S.elect proof ∧ CInv S cfg pf (electC S cfg.g c proof).2 ∧
    (electC S cfg.g c proof).2.pc = c.pc ∧ (electC S cfg.g c proof).2.ec = c.ec := by
  unfold electC
  split
  · next d hd =>
    refine ⟨?_, hc, rfl, rfl⟩
    have := hc.el _ d hd
    rw [hp] at this
    exact this
  · next hd =>
    refine ⟨rfl, ⟨?_, hc.pc, hc.ec⟩, rfl, rfl⟩
    intro h d hh
    simp only [upd] at hh
    split at hh
    · next heq =>
      subst heq
      rw [hp]
      exact (Option.some.inj hh).symm
    · exact hc.el h d hh

theorem genPeriod_ok (S : Spec El P) (cfg : Cfg) (hlen : 0 < cfg.len) {pf : Nat → Chain} {C : Chain}
    (hw : ChainWF pf cfg.g C) {c : Caches El P} (hc : CInv S cfg pf c) (t : Nat) :
    (genPeriod S cfg C c t).1 = some (periodOn S cfg C t) ∧ CInv S cfg pf (genPeriod S cfg C c t).2 ∧
    (genPeriod S cfg C c t).2.ec = c.ec := by
  obtain ⟨h1, h2, _, h4⟩ := electC_ok S cfg hc (hw.cut (proofTime cfg.len t))
  unfold genPeriod
  simp only
  rw [h1]
  refine ⟨rfl, ⟨h2.el, ?_, h2.ec⟩, h4⟩
  intro t' h p hh
  simp only [upd] at hh
  split at hh
  · next heq =>
    subst heq
    split at hh
    · have := Option.some.inj hh
      have e1 : h = headHash cfg.g (endCut cfg.len C t') := (Prod.mk.inj this).1.symm
      have e2 : p = _ := (Prod.mk.inj this).2.symm
      rw [e1, e2]
      unfold endCut
      rw [hw.cut, periodOn_cut S cfg hlen C (Nat.le_refl _)]
      rfl
    · cases hh
  · exact h2.pc t' h p hh

theorem periodC_ok (S : Spec El P) (cfg : Cfg) (hlen : 0 < cfg.len) {pf : Nat → Chain} {C : Chain}
    (hw : ChainWF pf cfg.g C) {c : Caches El P} (hc : CInv S cfg pf c) (t : Nat) :
    (periodC S cfg C c t).1 = specPeriod S cfg C t ∧ CInv S cfg pf (periodC S cfg C c t).2 ∧
    (periodC S cfg C c t).2.ec = c.ec := by
  obtain ⟨g1, g2, g3⟩ := genPeriod_ok S cfg hlen hw hc t
  unfold periodC specPeriod
  split
  · split
    · next h p hs =>
      split
      · next heq =>
        refine ⟨?_, hc, rfl⟩
        have := hc.pc t h p hs
        rw [heq] at this
        unfold endCut at this
        rw [hw.cut, periodOn_cut S cfg hlen C (Nat.le_refl _)] at this
        simp [this]
      · exact ⟨g1, g2, g3⟩
    · exact ⟨g1, g2, g3⟩
  · exact ⟨rfl, hc, rfl⟩

theorem lowerLoop_ok (S : Spec El P) (cfg : Cfg) (hlen : 0 < cfg.len) {pf : Nat → Chain} {C : Chain}
    (hw : ChainWF pf cfg.g C) (ticks : List Nat) : ∀ {c : Caches El P}, CInv S cfg pf c →
    (lowerLoop S cfg C c ticks).1 = ticks.filterMap (specPeriod S cfg C) ∧ CInv S cfg pf (lowerLoop S cfg C c ticks).2 ∧
    (lowerLoop S cfg C c ticks).2.ec = c.ec := by
  induction ticks with
  | nil => intro c hc; exact ⟨rfl, hc, rfl⟩
  | cons i is ih =>
    intro c hc
    obtain ⟨p1, p2, p3⟩ := periodC_ok S cfg hlen hw hc i
    obtain ⟨l1, l2, l3⟩ := ih p2
    unfold lowerLoop
    simp only
    refine ⟨?_, l2, by rw [l3, p3]⟩
    rw [List.filterMap_cons, ← p1, l1]
    cases (periodC S cfg C c i).1 <;> rfl

theorem genEpoch_ok (S : Spec El P) (cfg : Cfg) (hlen : 0 < cfg.len) {pf : Nat → Chain} {C : Chain}
    (hw : ChainWF pf cfg.g C) {c : Caches El P} (hc : CInv S cfg pf c) (T : Nat) :
    (genEpoch S cfg C c T).1 = some (S.compound ((lowerTicks cfg T).filterMap (specPeriod S cfg C))) ∧
    CInv S cfg pf (genEpoch S cfg C c T).2 := by
  obtain ⟨l1, l2, _⟩ := lowerLoop_ok S cfg hlen hw (lowerTicks cfg T) hc
  unfold genEpoch
  simp only
  rw [l1]
  refine ⟨rfl, ⟨l2.el, l2.pc, ?_⟩⟩
  intro T' h p hh
  simp only [upd] at hh
  split at hh
  · next heq =>
    subst heq
    split at hh
    · next hf =>
      have := Option.some.inj hh
      have e1 : h = headHash cfg.g (endCut (cfg.len * cfg.mult) C T') := (Prod.mk.inj this).1.symm
      have e2 : p = _ := (Prod.mk.inj this).2.symm
      rw [e1, e2]
      unfold endCut epochFull
      rw [hw.cut]
      have := lowers_cut S cfg hlen C T'
      unfold endCut at this
      rw [this, lowers_full S cfg C T' hf]
    · cases hh
  · exact l2.ec T' h p hh

/-- the epoch reader: it keeps the invariant and answers what a computation from scratch on the current chain gives -/
theorem epochC_ok (S : Spec El P) (cfg : Cfg) (hlen : 0 < cfg.len) {pf : Nat → Chain} {C : Chain}
    (hw : ChainWF pf cfg.g C) {c : Caches El P} (hc : CInv S cfg pf c) (T : Nat) :
    CInv S cfg pf (epochC S cfg C c T).2 ∧ (epochC S cfg C c T).1 = specEpoch S cfg C T := by
  obtain ⟨g1, g2⟩ := genEpoch_ok S cfg hlen hw hc T
  unfold epochC specEpoch
  split
  · split
    · next h p hs =>
      split
      · next hcond =>
        obtain ⟨heq, hf⟩ := hcond
        refine ⟨hc, ?_⟩
        have := hc.ec T h p hs
        rw [heq] at this
        unfold endCut epochFull at this
        rw [hw.cut] at this
        have h2 := lowers_cut S cfg hlen C T
        unfold endCut at h2
        rw [h2] at this
        rw [lowers_full S cfg C T hf, this]
      · exact ⟨g2, g1⟩
    · exact ⟨g2, g1⟩
  · exact ⟨hc, rfl⟩

/-! ### node level -/

structure NInv (S : Spec El P) (cfg : Cfg) (pf : Nat → Chain) (n : Node El P) : Prop where
  wf : ChainWF pf cfg.g n.chain
  c  : CInv S cfg pf n.caches

theorem foldl_period_inv (S : Spec El P) (cfg : Cfg) (hlen : 0 < cfg.len) {pf : Nat → Chain} {C : Chain}
    (hw : ChainWF pf cfg.g C) (ticks : List Nat) : ∀ {c : Caches El P}, CInv S cfg pf c →
    CInv S cfg pf (ticks.foldl (fun c i => (periodC S cfg C c i).2) c) := by
  induction ticks with
  | nil => intro c hc; exact hc
  | cons i is ih => intro c hc; exact ih (periodC_ok S cfg hlen hw hc i).2.1

theorem foldl_epoch_inv (S : Spec El P) (cfg : Cfg) (hlen : 0 < cfg.len) {pf : Nat → Chain} {C : Chain}
    (hw : ChainWF pf cfg.g C) (ticks : List Nat) : ∀ {c : Caches El P}, CInv S cfg pf c →
    CInv S cfg pf (ticks.foldl (fun c i => (epochC S cfg C c i).2) c) := by
  induction ticks with
  | nil => intro c hc; exact hc
  | cons i is ih => intro c hc; exact ih (epochC_ok S cfg hlen hw hc i).1

theorem insertMomentum_chain (S : Spec El P) (cfg : Cfg) (n : Node El P) (m : Mom) :
    (insertMomentum S cfg n m).chain = m :: n.chain := rfl

theorem insertMomentum_inv (S : Spec El P) (cfg : Cfg) (hlen : 0 < cfg.len) {pf : Nat → Chain} {n : Node El P}
    (hn : NInv S cfg pf n) (m : Mom) (hm : pf m.hash = m :: n.chain) : NInv S cfg pf (insertMomentum S cfg n m) := by
  have hw : ChainWF pf cfg.g (m :: n.chain) := ⟨hm, hn.wf⟩
  refine ⟨hw, ?_⟩
  have c1 := foldl_period_inv S cfg hlen hw (ticksFrom n.doneP (m.ts / cfg.len)) hn.c
  have c2 := foldl_epoch_inv S cfg hlen hw (ticksFrom n.doneE (m.ts / cfg.len / cfg.mult)) c1
  unfold insertMomentum
  simp only
  split
  · exact c2
  · exact (electC_ok S cfg c2 (hw.cut _)).2.1

theorem Reach.inv {S : Spec El P} {cfg : Cfg} (hlen : 0 < cfg.len) {pf : Nat → Chain} {n : Node El P}
    (h : Reach S cfg pf n) : NInv S cfg pf n := by
  induction h with
  | init h0 => exact ⟨h0, CInv.empty S cfg pf⟩
  | insert m _ hm ih => exact insertMomentum_inv S cfg hlen ih m hm
  | rollback k _ ih => exact ⟨ih.wf.drop k, ih.c⟩
  | qPeriod t _ ih => exact ⟨ih.wf, (periodC_ok S cfg hlen ih.wf ih.c t).2.1⟩
  | qEpoch T _ ih => exact ⟨ih.wf, (epochC_ok S cfg hlen ih.wf ih.c T).1⟩
  | qElect t _ ih => exact ⟨ih.wf, (electC_ok S cfg ih.c (ih.wf.cut _)).2.1⟩

theorem onlySaw_chain (S : Spec El P) (cfg : Cfg) (C : Chain) : (onlySaw S cfg C).chain = C := by
  induction C with
  | nil => rfl
  | cons m r ih =>
    show (insertMomentum S cfg (onlySaw S cfg r) m).chain = m :: r
    rw [insertMomentum_chain, ih]

theorem onlySaw_reach (S : Spec El P) (cfg : Cfg) {pf : Nat → Chain} {C : Chain} (hw : ChainWF pf cfg.g C) :
    Reach S cfg pf (onlySaw S cfg C) := by
  induction C with
  | nil => exact Reach.init hw
  | cons m r ih =>
    have := Reach.insert (S := S) (cfg := cfg) m (ih hw.2) (by rw [onlySaw_chain]; exact hw.1)
    exact this

/-! ### pool -/

namespace Pool

/-- every manager present was built from the ledger as it is now, and every pooled block acknowledges a momentum of it -/
def PInv (g : Nat) (n : PNode) : Prop :=
  ∀ a mg, n.mgrs a = some mg → mg.base = n.ledger ∧ ∀ b ∈ mg.blocks, onChain g n.ledger b.ack = true

theorem read_inv {g : Nat} {n : PNode} (h : PInv g n) (a : Nat) : PInv g (read n a) := by
  unfold read
  split
  · exact h
  · intro a' mg hm
    simp only [upd] at hm
    split at hm
    · cases hm
      exact ⟨rfl, fun b hb => by simp at hb⟩
    · exact h a' mg hm

theorem read_ledger (n : PNode) (a : Nat) : (read n a).ledger = n.ledger := by
  unfold read; split <;> rfl

theorem reads_inv {g : Nat} (as : List Nat) : ∀ {n : PNode}, PInv g n → PInv g (reads n as) := by
  induction as with
  | nil => intro n h; exact h
  | cons a r ih => intro n h; exact ih (read_inv h a)

theorem reads_ledger (as : List Nat) : ∀ (n : PNode), (reads n as).ledger = n.ledger := by
  induction as with
  | nil => intro n; rfl
  | cons a r ih => intro n; show (reads (read n a) r).ledger = _; rw [ih, read_ledger]

theorem notify_inv (g : Nat) (n : PNode) : PInv g (notify n) := by
  intro a mg hm; simp [notify] at hm

theorem add_inv {g : Nat} {n : PNode} (h : PInv g n) (a : Nat) (b : PBlk) : PInv g (add g n a b) := by
  unfold add
  split
  · next hon =>
    have h1 := read_inv h a
    have hl := read_ledger n a
    simp only
    split
    · next m hm =>
      intro a' mg hmg
      simp only [upd] at hmg
      split at hmg
      · next heq =>
        cases hmg
        obtain ⟨b1, b2⟩ := h1 a m (heq ▸ hm)
        refine ⟨b1, ?_⟩
        intro x hx
        rcases List.mem_append.mp hx with hx | hx
        · exact b2 x hx
        · have : x = b := by simpa using hx
          rw [this, hl]; exact hon
      · exact h1 a' mg hmg
    · exact h1
  · exact h

theorem onChain_cons {g : Nat} {l : List PMom} {h : Nat} (m : PMom) (ho : onChain g l h = true) : onChain g (m :: l) h = true := by
  unfold onChain at *
  simp only [Bool.or_eq_true, List.any_cons] at *
  rcases ho with ho | ho
  · exact Or.inl ho
  · exact Or.inr (Or.inr ho)

theorem insert_inv {g : Nat} {n : PNode} (h : PInv g n) (m : PMom) (cf : List Nat) : PInv g (insert n m cf) := by
  intro a mg hm
  simp only [insert] at hm
  split at hm
  · cases hm
  · next mg0 h0 =>
    split at hm
    · cases hm
    · cases hm
      refine ⟨rfl, ?_⟩
      intro b hb
      have hb' := (List.mem_filter.mp hb).1
      exact onChain_cons m ((h a mg0 h0).2 b hb')

theorem rollbackStep_inv (g : Nat) (n : PNode) (w : List Nat × List Nat) : PInv g (rollbackStep n w) :=
  reads_inv w.2 (notify_inv g _)

theorem rollbackTo_inv {g : Nat} (ws : List (List Nat × List Nat)) : ∀ {n : PNode}, PInv g n → PInv g (ws.foldl rollbackStep n) := by
  induction ws with
  | nil => intro n h; exact h
  | cons w r ih => intro n _; exact ih (rollbackStep_inv g n w)

theorem stepEv_inv {g : Nat} {n : PNode} (h : PInv g n) (e : Ev) : PInv g (stepEv g n e) := by
  cases e with
  | read a => exact read_inv h a
  | add a b => exact add_inv h a b
  | insert m cf => exact insert_inv h m cf
  | rollbackTo ws => exact rollbackTo_inv ws h

theorem run_inv (g : Nat) (evs : List Ev) : PInv g (run g evs) := by
  have key : ∀ (evs : List Ev) (n : PNode), PInv g n → PInv g (evs.foldl (stepEv g) n) := by
    intro evs
    induction evs with
    | nil => intro n h; exact h
    | cons e r ih => intro n h; exact ih _ (stepEv_inv h e)
  exact key evs _ (fun a mg hm => by simp [PNode.fresh] at hm)

/-- every manager present is a fresh snapshot of the current ledger with nothing pooled on top -/
def FreshInv (n : PNode) : Prop := ∀ a mg, n.mgrs a = some mg → mg.base = n.ledger ∧ mg.blocks = []

theorem read_fresh {n : PNode} (h : FreshInv n) (x : Nat) : FreshInv (read n x) := by
  intro a mg hm
  rw [read_ledger]
  unfold read at hm
  split at hm
  · exact h a mg hm
  · simp only [upd] at hm
    split at hm
    · cases hm; exact ⟨rfl, rfl⟩
    · exact h a mg hm

theorem reads_fresh (as : List Nat) : ∀ {n : PNode}, FreshInv n → FreshInv (reads n as) := by
  induction as with
  | nil => intro n h; exact h
  | cons a r ih => intro n h; exact ih (read_fresh h a)

theorem rollbackStep_fresh (n : PNode) (w : List Nat × List Nat) : FreshInv (rollbackStep n w) :=
  reads_fresh w.2 (fun a mg hm => by simp [notify] at hm)

theorem rollbackTo_fresh (ws : List (List Nat × List Nat)) : ∀ {n : PNode}, FreshInv n → FreshInv (ws.foldl rollbackStep n) := by
  induction ws with
  | nil => intro n h; exact h
  | cons w r ih => intro n _; exact ih (rollbackStep_fresh n w)

end Pool

end ZV.NodeCache
