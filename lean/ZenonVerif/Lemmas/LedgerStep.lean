import ZenonVerif.Lemmas.LedgerBasic
/-
The ledger as a state machine: events, `step`, freshness of new hashes, reachability, and the
decomposition of an accepted step into its primitive effects
(`recvCore` = credit + marker, `applySend` = debit + new confirmed send, `tokApply` = mint/burn + storage).
-/
namespace ZV.Ledger

/-! ### events -/

inductive Ev where
  | usend (src dst : Addr) (tok : Tok) (amt : Nat) (h : Hash) (call : TokCall)
  | urecv (a : Addr) (h : Hash)
  | crecv (c : Addr) (h : Hash) (status : Nat) (descs : List Desc)
  deriving Repr

def step (s : State) : Ev → Except Err State
  | .usend src dst tok amt h call => usend s src dst tok amt h call
  | .urecv a h => urecv s a h
  | .crecv c h st ds => crecv s c h st ds

/-- hashes of the send blocks an event adds to the ledger (the user send itself / the descendants of a contract receive) -/
def Ev.newHashes : Ev → List Hash
  | .usend _ _ _ _ h _ => [h]
  | .urecv _ _ => []
  | .crecv _ _ _ ds => ds.map (·.hash)

/-- decoded token calls carried by the sends an event adds -/
def Ev.newCalls : Ev → List TokCall
  | .usend _ _ _ _ _ call => [call]
  | .urecv _ _ => []
  | .crecv _ _ _ ds => ds.map (·.call)

/-- what the real chain guarantees about block hashes: a new send block's hash (and every descendant hash) is not the
    hash of an already confirmed send, and the descendants of one receive have pairwise distinct hashes -/
def Fresh (s : State) (e : Ev) : Prop :=
  e.newHashes.Nodup ∧ ∀ h ∈ e.newHashes, h ∉ s.sends.map (·.hash)

instance (s : State) (e : Ev) : Decidable (Fresh s e) :=
  inferInstanceAs (Decidable (e.newHashes.Nodup ∧ ∀ h ∈ e.newHashes, h ∉ s.sends.map (·.hash)))

/-- send-time validation of token calls that the model does not re-check at receive time:
    `IssueMethod.ValidateSendBlock` (checkToken) refuses `MaxSupply < TotalSupply` -/
def CallOk : TokCall → Prop
  | .issue total max _ _ => total ≤ max
  | _ => True

instance : (c : TokCall) → Decidable (CallOk c)
  | .issue total max _ _ => inferInstanceAs (Decidable (total ≤ max))
  | .none => isTrue trivial
  | .mint .. => isTrue trivial
  | .burn => isTrue trivial
  | .update .. => isTrue trivial

/-- side conditions of an event that the real chain guarantees and that the model takes as given -/
def Admissible (s : State) (e : Ev) : Prop := Fresh s e ∧ ∀ c ∈ e.newCalls, CallOk c

instance (s : State) (e : Ev) : Decidable (Admissible s e) :=
  inferInstanceAs (Decidable (Fresh s e ∧ ∀ c ∈ e.newCalls, CallOk c))

/-- states reachable from `s0` by accepted, admissible events -/
inductive Reach (s0 : State) : State → Prop where
  | refl : Reach s0 s0
  | step {s s' : State} (e : Ev) : Reach s0 s → Admissible s e → step s e = .ok s' → Reach s0 s'

/-! ### primitive effects -/

/-- credit + receive marker: the common part of `urecv` and `crecv` -/
def recvCore (s : State) (a : Addr) (h : Hash) (snd : Send) : State :=
  { (s.credit a snd.tok snd.amt) with recv := (a, h) :: s.recv }

/-- the confirmed send that a descendant of `c` becomes -/
def mkSend (c : Addr) (d : Desc) : Send := ⟨d.hash, c, d.dst, d.tok, d.amt, d.call⟩

def pushSend (s : State) (x : Send) : State :=
  { (s.debit x.src x.tok x.amt) with sends := s.sends ++ [x] }

/-- effect of a successful token-contract method on the contract's own balance and storage -/
def tokMint (s1 : State) (c : Addr) (out : TokOutcome) : State :=
  { (s1.credit c out.mintTok out.mint) with toks := out.toks }

def tokApply (s1 : State) (c : Addr) (out : TokOutcome) : State :=
  (tokMint s1 c out).debit c out.mintTok out.burn

def newTokOf (ds : List Desc) : Tok := match ds with | d :: _ => d.tok | [] => zeroTok

/-- Σ of the descendant amounts of token `t` -/
def descSum (ds : List Desc) (t : Tok) : Nat := (ds.map (fun d => if d.tok = t then d.amt else 0)).sum

/-! ### accepted `applySend` -/

theorem applySend_ok {s s' : State} {src dst : Addr} {tok : Tok} {amt : Nat} {h : Hash} {call : TokCall}
    (hok : applySend s src dst tok amt h call = .ok s') :
    (tok = zeroTok → amt = 0) ∧ amt ≤ getBal s.bal src tok ∧ s' = pushSend s ⟨h, src, dst, tok, amt, call⟩ := by
  unfold applySend at hok
  split at hok
  · cases hok
  · rename_i h1
    split at hok
    · cases hok
    · rename_i h2
      simp only [Bool.and_eq_true, decide_eq_true_eq, beq_iff_eq, not_and] at h1
      simp only [bne_iff_ne, ne_eq, Bool.and_eq_true, decide_eq_true_eq, not_and, Nat.not_lt] at h2
      have hz : tok = zeroTok → amt = 0 := by
        intro ht
        by_cases ha : amt > 0
        · exact absurd ht (h1 ha)
        · omega
      refine ⟨hz, ?_, ?_⟩
      · by_cases ht : tok = zeroTok
        · rw [hz ht]; exact Nat.zero_le _
        · exact h2 ht
      · cases hok; rfl

theorem applySend_of {s : State} {src dst : Addr} {tok : Tok} {amt : Nat} {h : Hash} {call : TokCall}
    (hz : tok = zeroTok → amt = 0) (hle : amt ≤ getBal s.bal src tok) :
    applySend s src dst tok amt h call = .ok (pushSend s ⟨h, src, dst, tok, amt, call⟩) := by
  unfold applySend
  have h1 : (decide (amt > 0) && tok == zeroTok) = false := by
    by_cases ht : tok = zeroTok
    · simp [hz ht]
    · simp [ht]
  have h2 : (tok != zeroTok && decide (getBal s.bal src tok < amt)) = false := by
    have : ¬ getBal s.bal src tok < amt := by omega
    simp [this]
  simp only [h1, h2]
  rfl

/-! ### accepted `checkFrom` -/

theorem checkFrom_ok {s : State} {a : Addr} {h : Hash} {snd : Send} :
    checkFrom s a h = .ok snd ↔
      findSend s.sends h = some snd ∧ (s.gate = true → snd.dst = a) ∧ (a, h) ∉ s.recv := by
  unfold checkFrom
  cases hf : findSend s.sends h with
  | none => simp
  | some x =>
    simp only
    by_cases hg : (s.gate && x.dst != a) = true
    · simp only [hg, if_true]
      simp only [Bool.and_eq_true, bne_iff_ne, ne_eq] at hg
      constructor
      · intro hc; cases hc
      · intro ⟨h1, h2, _⟩
        cases h1
        exact absurd (h2 hg.1) hg.2
    · simp only [hg]
      simp only [Bool.and_eq_true, bne_iff_ne, ne_eq, not_and, Decidable.not_not] at hg
      by_cases hc : s.recv.contains (a, h) = true
      · simp only [hc, if_true]
        constructor
        · intro hc'; cases hc'
        · intro ⟨_, _, h3⟩
          exact absurd (List.contains_iff_mem.1 hc) h3
      · simp only [hc]
        have hc' : (a, h) ∉ s.recv := fun hm => hc (List.contains_iff_mem.2 hm)
        constructor
        · intro he
          cases he
          exact ⟨rfl, hg, hc'⟩
        · intro ⟨h1, _, _⟩
          cases h1; rfl

/-! ### accepted user blocks -/

theorem usend_ok {s s' : State} {src dst : Addr} {tok : Tok} {amt : Nat} {h : Hash} {call : TokCall}
    (hok : usend s src dst tok amt h call = .ok s') :
    isEmbedded src = false ∧ applySend s src dst tok amt h call = .ok s' := by
  unfold usend at hok
  split at hok
  · cases hok
  · rename_i h1; exact ⟨by simpa using h1, hok⟩

theorem urecv_ok {s s' : State} {a : Addr} {h : Hash} (hok : urecv s a h = .ok s') :
    isEmbedded a = false ∧ ∃ snd, checkFrom s a h = .ok snd ∧ s' = recvCore s a h snd := by
  unfold urecv at hok
  split at hok
  · cases hok
  · rename_i h1
    refine ⟨by simpa using h1, ?_⟩
    cases hc : checkFrom s a h with
    | error e => rw [hc] at hok; cases hok
    | ok snd =>
      rw [hc] at hok
      refine ⟨snd, rfl, ?_⟩
      cases hok; rfl

/-! ### accepted descendant lists -/

theorem applyDescs_cons_ok {s s' : State} {c : Addr} {d : Desc} {ds : List Desc}
    (hok : applyDescs s c (d :: ds) = .ok s') :
    ∃ s1, applySend s c d.dst d.tok d.amt d.hash d.call = .ok s1 ∧ applyDescs s1 c ds = .ok s' := by
  simp only [applyDescs] at hok
  cases ha : applySend s c d.dst d.tok d.amt d.hash d.call with
  | error e => rw [ha] at hok; cases hok
  | ok s1 => rw [ha] at hok; exact ⟨s1, rfl, hok⟩

theorem applyDescs_cons_of {s s1 : State} {c : Addr} {d : Desc} {ds : List Desc}
    (ha : applySend s c d.dst d.tok d.amt d.hash d.call = .ok s1) :
    applyDescs s c (d :: ds) = applyDescs s1 c ds := by
  simp only [applyDescs, ha]; rfl

/-- what `applyDescs` leaves alone, and the sends it adds -/
theorem applyDescs_frame {c : Addr} : ∀ {ds : List Desc} {s s' : State}, applyDescs s c ds = .ok s' →
    s'.recv = s.recv ∧ s'.toks = s.toks ∧ s'.gate = s.gate ∧ s'.sends = s.sends ++ ds.map (mkSend c)
  | [], s, s', hok => by simp only [applyDescs] at hok; cases hok; simp
  | d :: ds, s, s', hok => by
    obtain ⟨s1, h1, h2⟩ := applyDescs_cons_ok hok
    obtain ⟨_, _, rfl⟩ := applySend_ok h1
    obtain ⟨r1, r2, r3, r4⟩ := applyDescs_frame h2
    refine ⟨r1, r2, r3, ?_⟩
    rw [r4]
    simp [pushSend, mkSend]

/-! ### accepted contract receive: the two shapes -/

/-- an accepted `crecv` is either *plain* (credit, marker, then the observed descendants — any contract; for status 2
    the descendants are the exact refund; for the token contract this shape occurs only with status 2) or
    *token-applied* (token contract, status 1: credit, marker, mint into / guarded burn from the contract's balance,
    new storage, then exactly the descendants the method prescribes) -/
inductive CrecvCase (s : State) (c : Addr) (h : Hash) (st : Nat) (ds : List Desc) (s' : State) : Prop where
  | plain (nxt snd : Send) (hnext : nextInLine s c = some nxt) (hh : nxt.hash = h)
      (hchk : checkFrom s c h = .ok snd) (hst : st = 1 ∨ st = 2)
      (href : st = 2 → descShape ds = refundOf snd) (htc : c = tokenContract → st = 2)
      (htm : c = tokenContract → ∀ out, tokenMethod s.toks snd (newTokOf ds) = some out →
        out.descs.any (fun d => isEmbedded d.1) = true)
      (hds : applyDescs (recvCore s c h snd) c ds = .ok s')
  | token (nxt snd : Send) (out : TokOutcome) (hnext : nextInLine s c = some nxt) (hh : nxt.hash = h)
      (hchk : checkFrom s c h = .ok snd) (hc : c = tokenContract) (hst : st = 1)
      (hm : tokenMethod s.toks snd (newTokOf ds) = some out) (hshape : descShape ds = out.descs)
      (hburn : out.burn ≤ getBal (tokMint (recvCore s c h snd) c out).bal c out.mintTok)
      (hds : applyDescs (tokApply (recvCore s c h snd) c out) c ds = .ok s')

theorem crecv_cases {s s' : State} {c : Addr} {h : Hash} {st : Nat} {ds : List Desc}
    (hok : crecv s c h st ds = .ok s') : CrecvCase s c h st ds s' := by
  unfold crecv at hok
  split at hok
  · cases hok
  · rename_i nxt hnext
    split at hok
    · cases hok
    · rename_i hh
      simp only [bne_iff_ne, ne_eq, Decidable.not_not] at hh
      cases hchk : checkFrom s c h with
      | error e => rw [hchk] at hok; cases hok
      | ok snd =>
        rw [hchk] at hok
        simp only [bind, Except.bind] at hok
        split at hok
        · cases hok
        · rename_i hst0
          have hst : st = 1 ∨ st = 2 := by
            simp only [bne_iff_ne, ne_eq, Bool.and_eq_true, not_and, Decidable.not_not] at hst0
            by_cases h1 : st = 1
            · exact Or.inl h1
            · exact Or.inr (hst0 h1)
          split at hok
          · rename_i hc
            have hc : c = tokenContract := by simpa using hc
            split at hok
            · -- method fails
              split at hok
              · cases hok
              · rename_i hcond
                simp only [bne_iff_ne, ne_eq, Bool.or_eq_true, not_or, Decidable.not_not] at hcond
                rename_i heq
                refine .plain nxt snd hnext hh hchk hst (fun _ => hcond.2) (fun _ => hcond.1) ?_ hok
                intro _ out hout
                have : (none : Option TokOutcome) = some out := heq.symm.trans hout
                cases this
            · rename_i out hm
              split at hok
              · rename_i hcond
                simp only [Bool.and_eq_true, beq_iff_eq] at hcond
                refine .plain nxt snd hnext hh hchk hst (fun _ => hcond.1.2) (fun _ => hcond.1.1) ?_ hok
                intro _ out' hout
                have : some out = some out' := hm.symm.trans hout
                cases this
                exact hcond.2
              · split at hok
                · cases hok
                · rename_i hcond
                  simp only [bne_iff_ne, ne_eq, Bool.or_eq_true, not_or, Decidable.not_not] at hcond
                  split at hok
                  · cases hok
                  · rename_i hb
                    exact .token nxt snd out hnext hh hchk hc hcond.1 hm hcond.2 (Nat.le_of_not_lt hb) hok
          · rename_i hc
            have hc : c ≠ tokenContract := by simpa using hc
            split at hok
            · rename_i h2
              have h2 : st = 2 := by simpa using h2
              split at hok
              · cases hok
              · rename_i hr
                exact .plain nxt snd hnext hh hchk hst (fun _ => by simpa using hr) (fun h' => absurd h' hc)
                  (fun h' => absurd h' hc) hok
            · rename_i h2
              have h2 : ¬ st = 2 := by simpa using h2
              exact .plain nxt snd hnext hh hchk hst (fun h' => absurd h' h2) (fun h' => absurd h' hc)
                (fun h' => absurd h' hc) hok

end ZV.Ledger
