import ZenonVerif.Model.Kv
/-
Logical (function-level) semantics of stores, patches and rollback overlays, and the abstraction maps from the
raw byte-level layers of Model/Kv.lean.
-/
namespace ZV.KvLogic
open ZV ZV.Kv

/-- a logical store: key ↦ value, `none` = absent -/
abbrev Store := Bytes → Option Bytes

def Store.empty : Store := fun _ => none

def applyOp (s : Store) : Op → Store
  | .put k v => fun x => if x = k then some v else s x
  | .del k => fun x => if x = k then none else s x

def applyP (s : Store) (p : Patch) : Store := p.foldl applyOp s

/-- a rollback overlay: `none` = key untouched since the viewed version, `some x` = value it had there -/
abbrev Overlay := Bytes → Option (Option Bytes)

def Overlay.empty : Overlay := fun _ => none

def woOp (o : Overlay) : Op → Overlay
  | .put k v => fun x => if x = k then (match o k with | none => some (some v) | some y => some y) else o x
  | .del k => fun x => if x = k then (match o k with | none => some none | some y => some y) else o x

def woP (o : Overlay) (p : Patch) : Overlay := p.foldl woOp o

/-- what a historical view shows: the overlay where it has an entry, the frontier elsewhere -/
def viewOf (o : Overlay) (s : Store) : Store := fun k => match o k with | some x => x | none => s k

def keys (p : Patch) : List Bytes := p.map Op.key

/-! ### patches -/

theorem applyOp_other (s : Store) (o : Op) (x : Bytes) (h : x ≠ o.key) : applyOp s o x = s x := by
  cases o <;> simp [applyOp, Op.key] at * <;> simp [h]

theorem applyP_not_mem (p : Patch) (s : Store) (x : Bytes) (h : x ∉ keys p) : applyP s p x = s x := by
  induction p generalizing s with
  | nil => rfl
  | cons o t ih =>
    simp only [keys, List.map_cons, List.mem_cons, not_or] at h
    simp only [applyP, List.foldl_cons]
    have := ih (applyOp s o) (by simpa [keys] using h.2)
    simp only [applyP] at this
    rw [this, applyOp_other s o x h.1]

theorem undoOp_key (s : Store) (o : Op) : (undoOp s o).key = o.key := by
  unfold undoOp; cases s o.key <;> rfl

theorem applyOp_undo_self (s t : Store) (o : Op) : applyOp t (undoOp s o) o.key = s o.key := by
  unfold undoOp; cases hs : s o.key <;> simp [applyOp]

/-- the undo patch recorded at commit time: every touched key gets the value it had in `s` -/
theorem rollback_restores (s t : Store) (p : Patch) (x : Bytes) :
    applyP t (rollbackPatch s p) x = if x ∈ keys p then s x else t x := by
  induction p generalizing t with
  | nil => simp [rollbackPatch, applyP, keys]
  | cons o tl ih =>
    have ih' := ih (applyOp t (undoOp s o))
    simp only [rollbackPatch, applyP, keys] at ih'
    simp only [rollbackPatch, List.map_cons, applyP, List.foldl_cons, keys, List.mem_cons]
    rw [ih']
    by_cases hm : x ∈ List.map Op.key tl
    · simp [hm]
    · simp only [hm, if_false, or_false]
      by_cases hx : x = o.key
      · subst hx; simp [applyOp_undo_self]
      · simp only [hx, if_false]
        exact applyOp_other t (undoOp s o) x (by rw [undoOp_key]; exact hx)

/-! ### overlays -/

theorem woOp_keep (o : Overlay) (op : Op) (x : Bytes) (y : Option Bytes) (h : o x = some y) :
    woOp o op x = some y := by
  cases op <;> simp only [woOp] <;> split <;> simp_all

theorem woP_keep (p : Patch) (o : Overlay) (x : Bytes) (y : Option Bytes) (h : o x = some y) :
    woP o p x = some y := by
  induction p generalizing o with
  | nil => simpa [woP] using h
  | cons op t ih =>
    simp only [woP, List.foldl_cons]
    exact ih (woOp o op) (woOp_keep o op x y h)

theorem woOp_other (o : Overlay) (op : Op) (x : Bytes) (h : x ≠ op.key) : woOp o op x = o x := by
  cases op <;> simp [woOp, Op.key] at * <;> simp [h]

theorem woP_not_mem (p : Patch) (o : Overlay) (x : Bytes) (h : x ∉ keys p) : woP o p x = o x := by
  induction p generalizing o with
  | nil => rfl
  | cons op t ih =>
    simp only [keys, List.map_cons, List.mem_cons, not_or] at h
    simp only [woP, List.foldl_cons]
    have := ih (woOp o op) (by simpa [keys] using h.2)
    simp only [woP] at this
    rw [this, woOp_other o op x h.1]

theorem woOp_undo_self (s : Store) (o : Overlay) (op : Op) (ho : o op.key = none) :
    woOp o (undoOp s op) op.key = some (s op.key) := by
  unfold undoOp
  cases hs : s op.key <;> simp [woOp, ho]

/-- folding the undo patch of a commit into an overlay that has no entry for `x` yet records the pre-commit value -/
theorem woP_rollback_fresh (s : Store) (p : Patch) (o : Overlay) (x : Bytes) (hx : x ∈ keys p) (ho : o x = none) :
    woP o (rollbackPatch s p) x = some (s x) := by
  induction p generalizing o with
  | nil => simp [keys] at hx
  | cons op t ih =>
    simp only [rollbackPatch, List.map_cons, woP, List.foldl_cons]
    by_cases hk : x = op.key
    · subst hk
      have h1 := woOp_undo_self s o op ho
      have := woP_keep (rollbackPatch s t) _ _ _ h1
      simpa [woP, rollbackPatch] using this
    · have hx' : x ∈ keys t := by
        simp only [keys, List.map_cons, List.mem_cons] at hx
        rcases hx with h | h
        · exact absurd h hk
        · simpa [keys] using h
      have hox : woOp o (undoOp s op) x = none := by
        rw [woOp_other _ _ _ (by rw [undoOp_key]; exact hk)]; exact ho
      have := ih _ hx' hox
      simpa [woP, rollbackPatch] using this

/-! ### raw layers refine the logical level -/

/-- logical content of a raw layer seen through enableDelete -/
def abs (r : Raw) : Store := fun k => edDecode (rget r k)

def decodeRaw : Bytes → Option Bytes
  | [] => none
  | _ :: v => some v

/-- logical content of a rollback overlay layer -/
def oabs (rb : Raw) : Overlay := fun k => (rget rb k).map decodeRaw

theorem rget_cons (k' v : Bytes) (t : Raw) (x : Bytes) :
    rget ((k', v) :: t) x = if x = k' then some v else rget t x := by
  simp only [rget]
  by_cases h : k' = x
  · simp [h]
  · have : ¬ x = k' := fun e => h e.symm
    simp [h, this]

theorem rget_rput (s : Raw) (k v x : Bytes) : rget (rput s k v) x = if x = k then some v else rget s x := by
  induction s with
  | nil => simp [rput, rget_cons, rget]
  | cons e t ih =>
    obtain ⟨k', v'⟩ := e
    simp only [rput]
    by_cases h1 : bytesLt k k' = true
    · simp [h1, rget_cons]
    · by_cases h2 : k = k'
      · subst h2
        by_cases h : x = k <;> simp [h1, h, rget_cons]
      · by_cases h3 : x = k'
        · subst h3
          have : ¬ (x = k) := fun e => h2 e.symm
          simp [h1, h2, this, rget_cons]
        · simp [h1, h2, h3, rget_cons, ih]

theorem abs_edApplyOp (top : Raw) (o : Op) : abs (edApplyOp top o) = applyOp (abs top) o := by
  funext x
  cases o with
  | put k v =>
    simp only [abs, edApplyOp, rget_rput, applyOp]
    by_cases h : x = k <;> simp [h, edDecode]
  | del k =>
    simp only [abs, edApplyOp, rget_rput, applyOp]
    by_cases h : x = k <;> simp [h, edDecode]

theorem abs_edApply (p : Patch) (top : Raw) : abs (edApply top p) = applyP (abs top) p := by
  induction p generalizing top with
  | nil => rfl
  | cons o t ih =>
    simp only [edApply, List.foldl_cons, applyP]
    have := ih (edApplyOp top o)
    simp only [edApply, applyP] at this
    rw [this, abs_edApplyOp]

theorem oabs_woApplyOp (rb : Raw) (o : Op) : oabs (woApplyOp rb o) = woOp (oabs rb) o := by
  funext x
  cases o with
  | put k v =>
    simp only [woApplyOp, rhas, woOp]
    by_cases hs : (rget rb k).isSome = true
    · obtain ⟨y, hy⟩ := Option.isSome_iff_exists.1 hs
      by_cases h : x = k
      · subst h; simp [oabs, hy]
      · simp [oabs, hy, h]
    · have hk : rget rb k = none := by simpa using hs
      by_cases h : x = k
      · subst h; simp [oabs, rget_rput, hk, decodeRaw]
      · simp [oabs, rget_rput, hk, h]
  | del k =>
    simp only [woApplyOp, rhas, woOp]
    by_cases hs : (rget rb k).isSome = true
    · obtain ⟨y, hy⟩ := Option.isSome_iff_exists.1 hs
      by_cases h : x = k
      · subst h; simp [oabs, hy]
      · simp [oabs, hy, h]
    · have hk : rget rb k = none := by simpa using hs
      by_cases h : x = k
      · subst h; simp [oabs, rget_rput, hk, decodeRaw]
      · simp [oabs, rget_rput, hk, h]

theorem oabs_woApply (p : Patch) (rb : Raw) : oabs (woApply rb p) = woP (oabs rb) p := by
  induction p generalizing rb with
  | nil => rfl
  | cons o t ih =>
    simp only [woApply, List.foldl_cons, woP]
    have := ih (woApplyOp rb o)
    simp only [woApply, woP] at this
    rw [this, oabs_woApplyOp]

/-- reading a historical view (rollback overlay over the frontier snapshot) at the byte level is `viewOf` -/
theorem edDecode_mget2 (rb base : Raw) (k : Bytes) :
    edDecode (mget2 rb base k) = viewOf (oabs rb) (abs base) k := by
  simp only [mget2, viewOf, oabs, abs]
  cases h : rget rb k with
  | none => simp
  | some v => cases v <;> simp [edDecode, decodeRaw]

/-! ### the two logical key steps (used by Props/C07 `view_step`, Props/C06 `rollback_exact` and the manager invariant) -/

/-- one commit keeps the reconstruction invariant: overlay `o` over `cur` shows `sX` ⇒ after committing `p`
    (undo patch folded in without overriding) it still shows `sX` -/
theorem viewOf_step (sX cur : Store) (o : Overlay) (p : Patch)
    (h : viewOf o cur = sX) :
    viewOf (woP o (rollbackPatch cur p)) (applyP cur p) = sX := by
  funext x
  have hx : viewOf o cur x = sX x := congrFun h x
  simp only [viewOf] at hx ⊢
  cases ho : o x with
  | some y =>
    rw [woP_keep _ _ _ _ ho]
    simpa [ho] using hx
  | none =>
    simp only [ho] at hx
    by_cases hm : x ∈ keys p
    · rw [woP_rollback_fresh cur p o x hm ho]; exact hx
    · have hm' : x ∉ keys (rollbackPatch cur p) := by
        simpa [keys, rollbackPatch, List.map_map, Function.comp_def, undoOp_key] using hm
      rw [woP_not_mem _ _ _ hm', ho]
      simp only []
      rw [applyP_not_mem p cur x hm]; exact hx

/-- applying the undo patch recorded at commit time to the committed state gives the previous state -/
theorem applyP_undo (s : Store) (p : Patch) : applyP (applyP s p) (rollbackPatch s p) = s := by
  funext x
  rw [rollback_restores]
  by_cases h : x ∈ keys p
  · simp [h]
  · simp [h, applyP_not_mem p s x h]

theorem applyP_append (s : Store) (p q : Patch) : applyP s (p ++ q) = applyP (applyP s p) q := by
  simp [applyP, List.foldl_append]

/-- reading a historical root = `viewOf` of the abstractions, as functions -/
theorem viewOf_empty (s : Store) : viewOf Overlay.empty s = s := by
  funext k; simp [viewOf, Overlay.empty]

theorem oabs_nil : oabs [] = Overlay.empty := by
  funext k; simp [oabs, rget, Overlay.empty]

theorem abs_nil : abs [] = Store.empty := by
  funext k; simp [abs, rget, edDecode, Store.empty]

end ZV.KvLogic
