import ZenonVerif.Model.Versioned
import ZenonVerif.Lemmas.KvLogic
import ZenonVerif.Lemmas.KvOrder
import ZenonVerif.Lemmas.KvChanges
/-
Ordered scans through a first-level view: a private top layer (the view's own writes) over a root
(memdb / frontier snapshot / historical overlay). Generalises the root-only scan specifications of KvOrder.
-/
namespace ZV.Versioned
open ZV ZV.Kv ZV.KvLogic

/-- the layers of a root are in key order -/
def Root.WF : Root → Prop
  | .mem => True
  | .front base => Sorted base
  | .hist rb base => Sorted rb ∧ Sorted base

/-- which raw values the root's iterator lets through (`skipDeletedIterator` sits only in historical roots) -/
def Root.keeps : Root → Bytes → Prop
  | .hist _ _, raw => raw.length > 1
  | _, _ => True

def Root.isHist : Root → Bool
  | .hist _ _ => true
  | _ => false

/-- raw scan of a root = key-ordered enumeration of its raw lookup under the prefix, minus what the iterator skips -/
theorem Root.rawScan_entries {root : Root} (hw : root.WF) (p : Bytes) :
    OrderedEntries (root.rawScan p) (fun k raw => isPrefix p k = true ∧ root.rawGet k = some raw ∧ root.keeps raw) := by
  cases root with
  | mem =>
    refine ⟨Sorted.nil, ?_⟩
    intro k raw
    simp [Root.rawScan, Root.rawGet]
  | front base =>
    refine ⟨Sorted.rscan hw p, ?_⟩
    intro k raw
    simp only [Root.rawScan, Root.rawGet, Root.keeps, and_true]
    rw [mem_rscan, mem_iff_rget hw]
    exact And.comm
  | hist rb base =>
    obtain ⟨hrb, hbase⟩ := hw
    refine ⟨((hrb.rscan p).merge2 (hbase.rscan p)).skipDel, ?_⟩
    intro k raw
    simp only [Root.rawScan, Root.rawGet, Root.keeps]
    rw [mem_skipDel, (merged_scan_entries hrb hbase p).2]
    exact and_assoc

theorem rget_rscan (s : Raw) (p k : Bytes) :
    rget (rscan s p) k = if isPrefix p k = true then rget s k else none := by
  induction s with
  | nil => simp [rscan, rget]
  | cons e t ih =>
    obtain ⟨k', v⟩ := e
    simp only [rscan] at ih ⊢
    rw [List.filter_cons]
    by_cases hp : isPrefix p k' = true
    · simp only [hp, if_true, rget_cons, ih]
      by_cases hk : k = k'
      · subst hk; simp [hp]
      · simp [hk]
    · simp only [hp, Bool.false_eq_true, if_false]
      rw [ih, rget_cons]
      by_cases hk : k = k'
      · subst hk; simp [hp]
      · simp [hk]

/-- raw read through a first-level view -/
def layerRawGet (top : Raw) (root : Root) (k : Bytes) : Option Bytes :=
  match rget top k with
  | some v => some v
  | none => root.rawGet k

/-- logical read through a first-level view (`enableDeleteDB.Get` over merged [top, root]) -/
def layerGet (top : Raw) (root : Root) (k : Bytes) : Option Bytes := edDecode (layerRawGet top root k)

/-- raw scan through a first-level view -/
def layerRawScan (top : Raw) (root : Root) (p : Bytes) : Raw := merge2 (rscan top p) (root.rawScan p)

/-- ordered scan through a first-level view: the key-ordered list of exactly the entries the view READS under the
    prefix; over a historical root, keys that the view did not write itself and that hold the empty value are
    missing (F3b) -/
theorem layer_scan_entries {top : Raw} (hs : Sorted top) {root : Root} (hw : root.WF) (p : Bytes) :
    OrderedEntries (edEntries (layerRawScan top root p))
      (fun k v => isPrefix p k = true ∧ layerGet top root k = some v ∧
        ((rget top k).isSome = true ∨ root.isHist = false ∨ v ≠ [])) := by
  have hR := Root.rawScan_entries hw p
  have hL : Sorted (layerRawScan top root p) := (hs.rscan p).merge2 hR.1
  refine ⟨hL.edEntries, ?_⟩
  intro k v
  show _ ↔ isPrefix p k = true ∧ layerGet top root k = some v ∧
        ((rget top k).isSome = true ∨ root.isHist = false ∨ v ≠ [])
  rw [mem_edEntries]
  simp only [layerRawScan, mem_merge2_iff (hs.rscan p) hR.1, mget2, rget_rscan, layerGet, edDecode_eq_some,
    layerRawGet]
  by_cases hp : isPrefix p k = true
  · simp only [hp, if_true, true_and]
    cases ht : rget top k with
    | some r => simp
    | none =>
      simp only [Option.isSome_none, Bool.false_eq_true, false_or]
      constructor
      · rintro ⟨c, hc⟩
        have := (hR.2 k (c :: v)).1 (mem_of_rget hc)
        refine ⟨⟨c, this.2.1⟩, ?_⟩
        cases root with
        | mem => exact Or.inl rfl
        | front base => exact Or.inl rfl
        | hist rb base =>
          refine Or.inr ?_
          have hk := this.2.2
          simp only [Root.keeps, List.length_cons] at hk
          intro hv; subst hv; simp at hk
      · rintro ⟨⟨c, hc⟩, hor⟩
        refine ⟨c, (mem_iff_rget hR.1 _ _).1 ((hR.2 k (c :: v)).2 ⟨hp, hc, ?_⟩)⟩
        cases root with
        | mem => trivial
        | front base => trivial
        | hist rb base =>
          simp only [Root.keeps, List.length_cons]
          rcases hor with h | h
          · simp [Root.isHist] at h
          · cases v with
            | nil => exact absurd rfl h
            | cons x xs => simp
  · simp only [hp]
    have : rget (root.rawScan p) k = none := by
      rw [rget_none_iff]; intro raw hm
      exact hp ((hR.2 k raw).1 hm).1
    simp [this]

end ZV.Versioned
