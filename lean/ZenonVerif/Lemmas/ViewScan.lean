import ZenonVerif.Model.Versioned
import ZenonVerif.Lemmas.KvLogic
import ZenonVerif.Lemmas.KvOrder
import ZenonVerif.Lemmas.KvChanges
/-
Ordered scans through a first-level view: a private top layer (the view's own writes) over a root
(memdb / frontier snapshot / historical overlay). Generalises the root-only scan specifications of KvOrder.
-/
namespace ZV.Versioned
open ZV ZV.Kv ZV.KvLogic

/-- the layers of a root are in key order -/
def Root.WF : Root → Prop
  | .mem => True
  | .front base => Sorted base
  | .hist rb base => Sorted rb ∧ Sorted base

/-- raw scan of a root = key-ordered enumeration of its raw lookup under the prefix (tombstones included: they are
    what hides the lower layers; the delete-enabled iterator on top drops them) -/
theorem Root.rawScan_entries {root : Root} (hw : root.WF) (p : Bytes) :
    OrderedEntries (root.rawScan p) (fun k raw => isPrefix p k = true ∧ root.rawGet k = some raw) := by
  cases root with
  | mem =>
    refine ⟨Sorted.nil, ?_⟩
    intro k raw
    simp [Root.rawScan, Root.rawGet]
  | front base =>
    refine ⟨Sorted.rscan hw p, ?_⟩
    intro k raw
    simp only [Root.rawScan, Root.rawGet]
    rw [mem_rscan, mem_iff_rget hw]
    exact And.comm
  | hist rb base =>
    obtain ⟨hrb, hbase⟩ := hw
    exact merged_scan_entries hrb hbase p

theorem rget_rscan (s : Raw) (p k : Bytes) :
    rget (rscan s p) k = if isPrefix p k = true then rget s k else none := by
  induction s with
  | nil => simp [rscan, rget]
  | cons e t ih =>
    obtain ⟨k', v⟩ := e
    simp only [rscan] at ih ⊢
    rw [List.filter_cons]
    by_cases hp : isPrefix p k' = true
    · simp only [hp, if_true, rget_cons, ih]
      by_cases hk : k = k'
      · subst hk; simp [hp]
      · simp [hk]
    · simp only [hp, Bool.false_eq_true, if_false]
      rw [ih, rget_cons]
      by_cases hk : k = k'
      · subst hk; simp [hp]
      · simp [hk]

/-- raw read through a first-level view -/
def layerRawGet (top : Raw) (root : Root) (k : Bytes) : Option Bytes :=
  match rget top k with
  | some v => some v
  | none => root.rawGet k

/-- logical read through a first-level view (`enableDeleteDB.Get` over merged [top, root]) -/
def layerGet (top : Raw) (root : Root) (k : Bytes) : Option Bytes := edDecode (layerRawGet top root k)

/-- raw scan through a first-level view -/
def layerRawScan (top : Raw) (root : Root) (p : Bytes) : Raw := merge2 (rscan top p) (root.rawScan p)

/-- ordered scan through a first-level view over ANY root (memdb, frontier snapshot, historical overlay): the
    key-ordered list of exactly the entries the view READS under the prefix -/
theorem layer_scan_entries {top : Raw} (hs : Sorted top) {root : Root} (hw : root.WF) (p : Bytes) :
    OrderedEntries (edEntries (layerRawScan top root p))
      (fun k v => isPrefix p k = true ∧ layerGet top root k = some v) := by
  have hR := Root.rawScan_entries hw p
  have hL : Sorted (layerRawScan top root p) := (hs.rscan p).merge2 hR.1
  refine ⟨hL.edEntries, ?_⟩
  intro k v
  show _ ↔ isPrefix p k = true ∧ layerGet top root k = some v
  rw [mem_edEntries]
  simp only [layerRawScan, mem_merge2_iff (hs.rscan p) hR.1, mget2, rget_rscan, layerGet, edDecode_eq_some,
    layerRawGet]
  by_cases hp : isPrefix p k = true
  · simp only [hp, if_true, true_and]
    cases ht : rget top k with
    | some r => simp
    | none =>
      constructor
      · rintro ⟨c, hc⟩
        exact ⟨c, ((hR.2 k (c :: v)).1 (mem_of_rget hc)).2⟩
      · rintro ⟨c, hc⟩
        exact ⟨c, (mem_iff_rget hR.1 _ _).1 ((hR.2 k (c :: v)).2 ⟨hp, hc⟩)⟩
  · simp only [hp]
    have : rget (root.rawScan p) k = none := by
      rw [rget_none_iff]; intro raw hm
      exact hp ((hR.2 k raw).1 hm).1
    simp [this]

end ZV.Versioned
