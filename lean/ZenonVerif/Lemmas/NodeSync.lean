import ZenonVerif.Model.NodeSync
/-
Invariants of the node-level model (C02): every pooled patch and every confirmed patch is the value of `exec` in the
context the block states; the pool of an account is a chain on top of its confirmed chain.
-/
namespace ZV.NodeSync

variable {P L : Type}

/-- the patch of `t` is what the VM computes on the account chain `view`, in the ledger as of the acknowledged momentum,
    and the block links to `view` -/
def TxOk (W : VM P L) (hist : List (Entry P)) (view : List (Tx P)) (t : Tx P) : Prop :=
  t.1.prev = lastId view ∧ t.1.height = view.length + 1 ∧
    ∃ l, ledgerAt W hist t.1.ack = some l ∧ W.exec l view t.1 = some t.2

/-- a stack of transactions on top of `view`, each one sound on top of the ones below -/
def StackSound (W : VM P L) (hist : List (Entry P)) : List (Tx P) → List (Tx P) → Prop
  | _, [] => True
  | view, t :: rest => TxOk W hist view t ∧ StackSound W hist (view ++ [t]) rest

/-- a sequence of transactions of several accounts, each sound on its own account's chain -/
def TxsSound (W : VM P L) (hist : List (Entry P)) : (Nat → List (Tx P)) → List (Tx P) → Prop
  | _, [] => True
  | views, t :: ts =>
    TxOk W hist (views t.1.acct) t ∧ TxsSound W hist (upd views t.1.acct (views t.1.acct ++ [t])) ts

/-- pool and per-account base chains fit -/
def PoolOver (W : VM P L) (hist : List (Entry P)) (views pool : Nat → List (Tx P)) : Prop :=
  ∀ a, (∀ t ∈ pool a, t.1.acct = a) ∧ StackSound W hist (views a) (pool a)

/-- INVARIANT (a): every pooled patch is `exec (ledger as of b.ack) (account chain up to b.prev) b` -/
def PoolSound (W : VM P L) (s : Node P) : Prop := PoolOver W s.hist (conf W s.hist) s.pool

/-- every confirmed patch is exec-determined, the momentum's patch is `pack` of them, the content lists them -/
def HistSound (W : VM P L) : List (Entry P) → Prop
  | [] => True
  | e :: older =>
    HistSound W older ∧ TxsSound W older (conf W older) e.txs ∧ e.txs.map (·.1.hdr) = e.m.content ∧
      e.patch = W.pack (ledger W older) e.txs

/-- every accepted momentum passed the changes-hash comparison -/
def HashOk (W : VM P L) (hist : List (Entry P)) : Prop := ∀ e ∈ hist, W.hash e.patch = e.m.changesHash

/-- all blocks a node holds belong to `U` -/
def BlocksIn (U : Block → Prop) (s : Node P) : Prop :=
  (∀ a, ∀ t ∈ s.pool a, U t.1) ∧ (∀ e ∈ s.hist, ∀ t ∈ e.txs, U t.1)

/-! ### ledgerAt / soundness are stable when the chain grows -/

theorem ledgerAt_cons {W : VM P L} {older : List (Entry P)} {x : Nat} {l : L} (e : Entry P)
    (h : ledgerAt W older x = some l) : ledgerAt W (e :: older) x = some l := by
  simp [ledgerAt, h]

theorem TxOk.mono {W : VM P L} {hist : List (Entry P)} {view : List (Tx P)} {t : Tx P} (e : Entry P)
    (h : TxOk W hist view t) : TxOk W (e :: hist) view t := by
  obtain ⟨h1, h2, l, h3, h4⟩ := h
  exact ⟨h1, h2, l, ledgerAt_cons e h3, h4⟩

theorem StackSound.mono {W : VM P L} {hist : List (Entry P)} (e : Entry P) :
    ∀ {view st : List (Tx P)}, StackSound W hist view st → StackSound W (e :: hist) view st := by
  intro view st
  induction st generalizing view with
  | nil => intro _; trivial
  | cons t rest ih => intro h; exact ⟨h.1.mono e, ih h.2⟩

theorem StackSound.append {W : VM P L} {hist : List (Entry P)} :
    ∀ {view xs ys : List (Tx P)}, StackSound W hist view (xs ++ ys) ↔
      StackSound W hist view xs ∧ StackSound W hist (view ++ xs) ys := by
  intro view xs ys
  induction xs generalizing view with
  | nil => simp [StackSound]
  | cons x xs ih =>
    simp only [List.cons_append, StackSound, ih, List.append_assoc, List.nil_append, and_assoc]

theorem StackSound.take {W : VM P L} {hist : List (Entry P)} {view st : List (Tx P)} (k : Nat)
    (h : StackSound W hist view st) : StackSound W hist view (st.take k) := by
  have := (List.take_append_drop k st) ▸ h
  exact (StackSound.append.1 this).1

/-- position of a pooled transaction is fixed by its height -/
theorem StackSound.height_at {W : VM P L} {hist : List (Entry P)} :
    ∀ {view st : List (Tx P)}, StackSound W hist view st → ∀ (j : Nat) (t : Tx P), st[j]? = some t →
      t.1.height = view.length + j + 1 := by
  intro view st
  induction st generalizing view with
  | nil => intro _ j t h; simp at h
  | cons x rest ih =>
    intro h j t hj
    cases j with
    | zero => simp at hj; subst hj; exact h.1.2.1
    | succ j =>
      simp at hj
      have := ih h.2 j t hj
      simp at this; omega

/-! ### pushAll -/

theorem pushAll_nil (views : Nat → List (Tx P)) : pushAll views [] = views := by
  funext a; simp [pushAll]

/-- appending transaction by transaction -/
theorem pushAll_cons (views : Nat → List (Tx P)) (t : Tx P) (ts : List (Tx P)) :
    pushAll views (t :: ts) = pushAll (upd views t.1.acct (views t.1.acct ++ [t])) ts := by
  funext a
  simp only [pushAll, upd, List.filter_cons]
  by_cases ha : a = t.1.acct
  · subst ha; simp
  · have : (t.1.acct == a) = false := by simpa using fun h => ha h.symm
    simp [ha, this]

/-! ### addBlock -/

theorem splitFor_some {cf st kept popped : List (Tx P)} {b : Block} (h : splitFor cf st b = some (kept, popped)) :
    ∃ k, k ≤ st.length ∧ kept = st.take k ∧ popped = st.drop k ∧ b.height = cf.length + k + 1 ∧
      lastId (cf ++ kept) = b.prev := by
  unfold splitFor at h
  simp only at h
  split at h
  · rename_i hc
    simp only [Option.some.injEq, Prod.mk.injEq] at h
    refine ⟨b.height - 1 - cf.length, by omega, h.1.symm, h.2.symm, by omega, ?_⟩
    rw [← h.1]; exact hc.2.2
  · cases h

/-- what a successful `addBlock` (context at the stated previous) did -/
theorem addBlock_some {W : VM P L} {force : Bool} {s s' : Node P} {b : Block}
    (h : addBlock W true force s b = some s') :
    s' = s ∨ ∃ l kept popped p, ledgerAt W s.hist b.ack = some l ∧
      splitFor (conf W s.hist b.acct) (s.pool b.acct) b = some (kept, popped) ∧
      W.exec l (conf W s.hist b.acct ++ kept) b = some p ∧
      s' = { s with pool := upd s.pool b.acct (kept ++ [(b, p)]) } := by
  unfold addBlock at h
  simp only at h
  split at h
  · left; simpa using h.symm
  · split at h
    · rename_i l kept popped hl hs
      simp only [if_true] at h
      split at h
      · cases h
      · rename_i p hp
        right
        refine ⟨l, kept, popped, p, hl, hs, hp, ?_⟩
        split at h
        · simpa using h.symm
        · split at h
          · simpa using h.symm
          · cases h
    · cases h

theorem addBlock_hist {W : VM P L} {force : Bool} {s s' : Node P} {b : Block}
    (h : addBlock W true force s b = some s') : s'.hist = s.hist := by
  rcases addBlock_some h with h | ⟨_, _, _, _, _, _, _, h⟩ <;> simp [h]

theorem addBlock_sound {W : VM P L} {force : Bool} {s s' : Node P} {b : Block}
    (h : addBlock W true force s b = some s') (hp : PoolSound W s) : PoolSound W s' := by
  rcases addBlock_some h with h | ⟨l, kept, popped, p, hl, hs, he, h⟩
  · rw [h]; exact hp
  · obtain ⟨k, hk, hkept, _, hh, hlast⟩ := splitFor_some hs
    subst h
    intro a
    simp only [upd]
    by_cases ha : a = b.acct
    · subst ha
      simp only [if_true]
      obtain ⟨hacct, hst⟩ := hp b.acct
      constructor
      · intro t ht
        rcases List.mem_append.1 ht with ht | ht
        · exact hacct t (by rw [hkept] at ht; exact List.mem_of_mem_take ht)
        · simp at ht; simp [ht]
      · refine StackSound.append.2 ⟨by rw [hkept]; exact hst.take k, ?_, trivial⟩
        refine ⟨hlast.symm, ?_, l, hl, he⟩
        simp [hkept, List.length_take, Nat.min_eq_left hk, hh]
    · simp only [ha, if_false]; exact hp a

theorem addBlock_blocksIn {W : VM P L} {U : Block → Prop} {force : Bool} {s s' : Node P} {b : Block}
    (h : addBlock W true force s b = some s') (hb : U b) (hu : BlocksIn U s) : BlocksIn U s' := by
  rcases addBlock_some h with h | ⟨l, kept, popped, p, hl, hs, he, h⟩
  · rw [h]; exact hu
  · obtain ⟨k, hk, hkept, _, hh, hlast⟩ := splitFor_some hs
    subst h
    refine ⟨?_, hu.2⟩
    intro a t ht
    simp only [upd] at ht
    by_cases ha : a = b.acct
    · subst ha
      simp only [if_true] at ht
      rcases List.mem_append.1 ht with ht | ht
      · exact hu.1 b.acct t (by rw [hkept] at ht; exact List.mem_of_mem_take ht)
      · simp at ht; simpa [ht] using hb
    · simp only [ha, if_false] at ht; exact hu.1 a t ht

/-! ### consume -/

theorem consume_cons {pool q : Nat → List (Tx P)} {h : Hdr} {hs : List Hdr} {ts : List (Tx P)}
    (hc : consume pool (h :: hs) = some (q, ts)) :
    ∃ t rest ts', pool h.1 = t :: rest ∧ t.1.id = h.2 ∧ consume (upd pool h.1 rest) hs = some (q, ts') ∧
      ts = t :: ts' := by
  simp only [consume] at hc
  split at hc
  · cases hc
  · rename_i t rest hp
    split at hc
    · rename_i hid
      split at hc
      · rename_i q' ts' hc'
        simp only [Option.some.injEq, Prod.mk.injEq] at hc
        exact ⟨t, rest, ts', hp, hid, by rw [hc', hc.1], hc.2.symm⟩
      · cases hc
    · cases hc

theorem consume_sound {W : VM P L} {hist : List (Entry P)} :
    ∀ (hs : List Hdr) {views pool q : Nat → List (Tx P)} {ts : List (Tx P)},
      PoolOver W hist views pool → consume pool hs = some (q, ts) →
      TxsSound W hist views ts ∧ PoolOver W hist (pushAll views ts) q ∧ ts.map (·.1.hdr) = hs := by
  intro hs
  induction hs with
  | nil =>
    intro views pool q ts hp hc
    simp only [consume, Option.some.injEq, Prod.mk.injEq] at hc
    obtain ⟨rfl, rfl⟩ := hc
    exact ⟨trivial, by rw [pushAll_nil]; exact hp, rfl⟩
  | cons h hs ih =>
    intro views pool q ts hp hc
    obtain ⟨t, rest, ts', hpl, hid, hc', rfl⟩ := consume_cons hc
    obtain ⟨hacct, hst⟩ := hp h.1
    rw [hpl] at hacct hst
    have hta : t.1.acct = h.1 := hacct t (by simp)
    have hp' : PoolOver W hist (upd views t.1.acct (views t.1.acct ++ [t])) (upd pool h.1 rest) := by
      intro a
      simp only [upd, hta]
      by_cases ha : a = h.1
      · subst ha
        simp only [if_true]
        exact ⟨fun x hx => hacct x (by simp [hx]), hst.2⟩
      · simp only [ha, if_false]; exact hp a
    obtain ⟨h1, h2, h3⟩ := ih hp' hc'
    refine ⟨⟨by rw [hta]; exact hst.1, h1⟩, by rw [pushAll_cons]; exact h2, ?_⟩
    rw [List.map_cons, h3]
    show (t.1.acct, t.1.id) :: hs = h :: hs
    rw [hta, hid]

theorem consume_mem :
    ∀ (hs : List Hdr) {pool q : Nat → List (Tx P)} {ts : List (Tx P)}, consume pool hs = some (q, ts) →
      (∀ t ∈ ts, ∃ a, t ∈ pool a) ∧ (∀ a, ∀ t ∈ q a, t ∈ pool a) := by
  intro hs
  induction hs with
  | nil =>
    intro pool q ts hc
    simp only [consume, Option.some.injEq, Prod.mk.injEq] at hc
    obtain ⟨rfl, rfl⟩ := hc
    exact ⟨by simp, fun _ _ h => h⟩
  | cons h hs ih =>
    intro pool q ts hc
    obtain ⟨t, rest, ts', hpl, _, hc', rfl⟩ := consume_cons hc
    obtain ⟨h1, h2⟩ := ih hc'
    have sub : ∀ a, ∀ x ∈ upd pool h.1 rest a, x ∈ pool a := by
      intro a x hx
      simp only [upd] at hx
      by_cases ha : a = h.1
      · subst ha; simp only [if_true] at hx; rw [hpl]; simp [hx]
      · simpa [ha] using hx
    constructor
    · intro x hx
      rcases List.mem_cons.1 hx with rfl | hx
      · exact ⟨h.1, by rw [hpl]; simp⟩
      · obtain ⟨a, ha⟩ := h1 x hx; exact ⟨a, sub a x ha⟩
    · intro a x hx; exact sub a x (h2 a x hx)

/-! ### the invariant through every operation -/

/-- everything that holds of a reachable node -/
structure Inv (U : Block → Prop) (W : VM P L) (s : Node P) : Prop where
  pool : PoolSound W s
  hist : HistSound W s.hist
  hash : HashOk W s.hist
  blocks : BlocksIn U s

theorem PoolOver.mono {W : VM P L} {hist : List (Entry P)} {views pool : Nat → List (Tx P)} (e : Entry P)
    (h : PoolOver W hist views pool) : PoolOver W (e :: hist) views pool :=
  fun a => ⟨(h a).1, (h a).2.mono e⟩

theorem addBlock_inv {W : VM P L} {U : Block → Prop} {force : Bool} {s s' : Node P} {b : Block}
    (h : addBlock W true force s b = some s') (hb : U b) (hi : Inv U W s) : Inv U W s' :=
  ⟨addBlock_sound h hi.pool, by rw [addBlock_hist h]; exact hi.hist, by rw [addBlock_hist h]; exact hi.hash,
    addBlock_blocksIn h hb hi.blocks⟩

theorem blockLoop_inv {W : VM P L} {U : Block → Prop} {force : Bool} :
    ∀ (bs : List Block) {s s' : Node P} {ok : Bool}, blockLoop W true force s bs = (s', ok) →
      (∀ b ∈ bs, U b) → Inv U W s → Inv U W s' ∧ s'.hist = s.hist := by
  intro bs
  induction bs with
  | nil =>
    intro s s' ok h _ hi
    simp only [blockLoop, Prod.mk.injEq] at h
    rw [← h.1]; exact ⟨hi, rfl⟩
  | cons b bs ih =>
    intro s s' ok h hu hi
    simp only [blockLoop] at h
    split at h
    · rename_i s1 h1
      obtain ⟨h2, h3⟩ := ih h (fun x hx => hu x (by simp [hx])) (addBlock_inv h1 (hu b (by simp)) hi)
      exact ⟨h2, by rw [h3, addBlock_hist h1]⟩
    · simp only [Prod.mk.injEq] at h
      rw [← h.1]; exact ⟨hi, rfl⟩

/-- what an accepted momentum did to the node -/
theorem stepMomentum_true {W : VM P L} {force : Bool} {s s' : Node P} {d : DM}
    (h : stepMomentum W true force s d = (s', true)) :
    ∃ s1 q txs, blockLoop W true force s d.blocks = (s1, true) ∧ d.m.prev = frontierId W s1.hist ∧
      contentOk d = true ∧ consume s1.pool d.m.content = some (q, txs) ∧
      W.hash (W.pack (ledger W s1.hist) txs) = d.m.changesHash ∧ W.mvalid (ledger W s1.hist) d.m = true ∧
      s' = { hist := ⟨d.m, txs, W.pack (ledger W s1.hist) txs⟩ :: s1.hist, pool := q } := by
  unfold stepMomentum at h
  split at h
  · simp at h
  · rename_i s1 hb
    split at h
    · simp at h
    · rename_i hc
      split at h
      · simp at h
      · rename_i q txs hq
        simp only at h
        split at h
        · rename_i hh
          simp only [Prod.mk.injEq, and_true] at h
          refine ⟨s1, q, txs, hb, ?_, ?_, hq, hh.1, hh.2, h.symm⟩
          · exact Classical.byContradiction fun hn => hc (Or.inl hn)
          · cases hco : contentOk d
            · exact absurd (Or.inr hco) hc
            · rfl
        · simp at h

/-- a refused momentum leaves the chain alone (blocks may have entered the pool) -/
theorem stepMomentum_false_hist {W : VM P L} {force : Bool} {s s' : Node P} {d : DM}
    (h : stepMomentum W true force s d = (s', false)) :
    ∃ ok, blockLoop W true force s d.blocks = (s', ok) := by
  unfold stepMomentum at h
  split at h
  · rename_i s1 hb; simp only [Prod.mk.injEq, and_true] at h; exact ⟨false, by rw [hb, h]⟩
  · rename_i s1 hb
    split at h
    · simp only [Prod.mk.injEq, and_true] at h; exact ⟨true, by rw [hb, h]⟩
    · split at h
      · simp only [Prod.mk.injEq, and_true] at h; exact ⟨true, by rw [hb, h]⟩
      · simp only at h
        split at h
        · simp at h
        · simp only [Prod.mk.injEq, and_true] at h; exact ⟨true, by rw [hb, h]⟩

theorem stepMomentum_inv {W : VM P L} {U : Block → Prop} {force : Bool} {s s' : Node P} {d : DM} {ok : Bool}
    (h : stepMomentum W true force s d = (s', ok)) (hu : ∀ b ∈ d.blocks, U b) (hi : Inv U W s) : Inv U W s' := by
  cases ok with
  | false =>
    obtain ⟨ok, hb⟩ := stepMomentum_false_hist h
    exact (blockLoop_inv _ hb hu hi).1
  | true =>
    obtain ⟨s1, q, txs, hb, _, _, hq, hh, _, rfl⟩ := stepMomentum_true h
    obtain ⟨hi1, _⟩ := blockLoop_inv _ hb hu hi
    obtain ⟨c1, c2, c3⟩ := consume_sound _ hi1.pool hq
    obtain ⟨m1, m2⟩ := consume_mem _ hq
    refine ⟨?_, ⟨hi1.hist, c1, c3, rfl⟩, ?_, ?_, ?_⟩
    · exact PoolOver.mono _ c2
    · intro e he
      rcases List.mem_cons.1 he with rfl | he
      · exact hh
      · exact hi1.hash e he
    · intro a t ht; exact hi1.blocks.1 a t (m2 a t ht)
    · intro e he t ht
      rcases List.mem_cons.1 he with rfl | he
      · obtain ⟨a, ha⟩ := m1 t ht; exact hi1.blocks.1 a t ha
      · exact hi1.blocks.2 e he t ht

theorem deliverGo_inv {W : VM P L} {U : Block → Prop} {force : Bool} :
    ∀ (ds : List DM) {s s' : Node P} {idx : Nat} {r : Option Nat},
      deliverGo W true force s idx ds = (s', r) → (∀ d ∈ ds, ∀ b ∈ d.blocks, U b) → Inv U W s → Inv U W s' := by
  intro ds
  induction ds with
  | nil => intro s s' idx r h _ hi; simp only [deliverGo, Prod.mk.injEq] at h; rw [← h.1]; exact hi
  | cons d ds ih =>
    intro s s' idx r h hu hi
    simp only [deliverGo] at h
    split at h
    · rename_i s1 h1
      exact ih h (fun x hx => hu x (by simp [hx])) (stepMomentum_inv h1 (hu d (by simp)) hi)
    · rename_i s1 h1
      simp only [Prod.mk.injEq] at h
      rw [← h.1]; exact stepMomentum_inv h1 (hu d (by simp)) hi

theorem deliver_inv {W : VM P L} {U : Block → Prop} {force : Bool} {s : Node P} {batch : List DM}
    (hu : ∀ d ∈ batch, ∀ b ∈ d.blocks, U b) (hi : Inv U W s) : Inv U W (deliver W true force s batch).1 := by
  unfold deliver
  simp only
  generalize htodo : batch.dropWhile (fun d => known s.hist d.m) = todo
  have hsub : ∀ x ∈ todo, x ∈ batch := by
    intro x hx; rw [← htodo] at hx; exact (List.dropWhile_sublist _).subset hx
  cases todo with
  | nil => exact hi
  | cons d rest =>
    simp only
    split
    · exact hi
    · generalize hg : deliverGo W true force s _ (d :: rest) = r
      obtain ⟨s', r'⟩ := r
      exact deliverGo_inv _ hg (fun x hx => hu x (hsub x hx)) hi

theorem step_inv {W : VM P L} {U : Block → Prop} {s : Node P} (o : Op) (hu : ∀ b ∈ opBlocks [o], U b)
    (hi : Inv U W s) : Inv U W (step W s o) := by
  cases o with
  | gossip b =>
    simp only [step]
    cases h : addBlock W true false s b with
    | none => exact hi
    | some s' => exact addBlock_inv h (hu b (by simp [opBlocks])) hi
  | deliver batch =>
    exact deliver_inv (fun d hd b hb => hu b (by simp only [opBlocks, List.append_nil, List.mem_flatMap]; exact ⟨d, hd, hb⟩)) hi
  | restart =>
    exact ⟨fun a => ⟨by simp [step], by simp [step, StackSound]⟩, hi.hist, hi.hash, ⟨by simp [step], hi.blocks.2⟩⟩

theorem opBlocks_append (xs ys : List Op) : opBlocks (xs ++ ys) = opBlocks xs ++ opBlocks ys := by
  induction xs with
  | nil => rfl
  | cons o xs ih => cases o <;> simp [opBlocks, ih]

theorem init_inv (W : VM P L) (U : Block → Prop) : Inv U W Node.init :=
  ⟨fun _ => ⟨by simp [Node.init], by simp [Node.init, StackSound]⟩, trivial, by simp [HashOk, Node.init],
    ⟨by simp [Node.init], by simp [Node.init]⟩⟩

/-- the invariant holds in every reachable state -/
theorem run_inv (W : VM P L) (U : Block → Prop) (ops : List Op) (hu : ∀ b ∈ opBlocks ops, U b) :
    Inv U W (run W ops) := by
  unfold run
  suffices h : ∀ (s : Node P), Inv U W s → Inv U W (ops.foldl (step W) s) from h _ (init_inv W U)
  induction ops with
  | nil => intro s hi; exact hi
  | cons o ops ih =>
    intro s hi
    have e : o :: ops = [o] ++ ops := rfl
    rw [e, opBlocks_append] at hu
    exact ih (fun b hb => hu b (List.mem_append.2 (Or.inr hb))) _
      (step_inv o (fun b hb => hu b (List.mem_append.2 (Or.inl hb))) hi)

/-! ### the accepted chain determines the stored history -/

theorem TxsSound.det {W : VM P L} {hist : List (Entry P)} {U : Block → Prop}
    (hinj : ∀ b b', U b → U b' → b.id = b'.id → b = b') :
    ∀ (ts1 ts2 : List (Tx P)) (views : Nat → List (Tx P)), TxsSound W hist views ts1 → TxsSound W hist views ts2 →
      ts1.map (·.1.hdr) = ts2.map (·.1.hdr) → (∀ t ∈ ts1, U t.1) → (∀ t ∈ ts2, U t.1) → ts1 = ts2 := by
  intro ts1
  induction ts1 with
  | nil => intro ts2 _ _ _ hm _ _; cases ts2 with | nil => rfl | cons _ _ => simp at hm
  | cons t1 ts1 ih =>
    intro ts2 views h1 h2 hm hu1 hu2
    cases ts2 with
    | nil => simp at hm
    | cons t2 ts2 =>
      simp only [List.map_cons, List.cons.injEq] at hm
      have hb : t1.1 = t2.1 :=
        hinj _ _ (hu1 t1 (by simp)) (hu2 t2 (by simp)) (by have := hm.1; simp only [Block.hdr, Prod.mk.injEq] at this; exact this.2)
      obtain ⟨b1, p1⟩ := t1
      obtain ⟨b2, p2⟩ := t2
      simp only at hb
      subst hb
      obtain ⟨⟨_, _, l1, hl1, he1⟩, hr1⟩ := h1
      obtain ⟨⟨_, _, l2, hl2, he2⟩, hr2⟩ := h2
      simp only at hl1 hl2 he1 he2 hr1 hr2
      rw [hl1] at hl2
      cases hl2
      rw [he1] at he2
      cases he2
      rw [ih ts2 _ hr1 hr2 hm.2 (fun t ht => hu1 t (by simp [ht])) (fun t ht => hu2 t (by simp [ht]))]

/-- two sound histories of the same momentum sequence are the same history: same blocks, same patches -/
theorem hist_det {W : VM P L} {U : Block → Prop} (hinj : ∀ b b', U b → U b' → b.id = b'.id → b = b') :
    ∀ (h1 h2 : List (Entry P)), HistSound W h1 → HistSound W h2 →
      (∀ e ∈ h1, ∀ t ∈ e.txs, U t.1) → (∀ e ∈ h2, ∀ t ∈ e.txs, U t.1) →
      h1.map (·.m) = h2.map (·.m) → h1 = h2 := by
  intro h1
  induction h1 with
  | nil => intro h2 _ _ _ _ hm; cases h2 with | nil => rfl | cons _ _ => simp at hm
  | cons e1 o1 ih =>
    intro h2 s1 s2 hu1 hu2 hm
    cases h2 with
    | nil => simp at hm
    | cons e2 o2 =>
      simp only [List.map_cons, List.cons.injEq] at hm
      have ho : o1 = o2 := ih o2 s1.1 s2.1 (fun e he => hu1 e (by simp [he])) (fun e he => hu2 e (by simp [he])) hm.2
      subst ho
      obtain ⟨m1, txs1, p1⟩ := e1
      obtain ⟨m2, txs2, p2⟩ := e2
      simp only at hm
      obtain ⟨rfl, _⟩ := hm
      obtain ⟨_, t1, c1, q1⟩ := s1
      obtain ⟨_, t2, c2, q2⟩ := s2
      simp only at t1 t2 c1 c2 q1 q2
      have ht : txs1 = txs2 :=
        TxsSound.det hinj txs1 txs2 _ t1 t2 (by rw [c1, c2]) (hu1 _ (List.mem_cons_self ..)) (hu2 _ (List.mem_cons_self ..))
      subst ht
      rw [q1, q2]

/-- with an injective changes hash the momentum sequence pins the ledger even between nodes whose VMs differ -/
theorem ledger_of_hash {W1 W2 : VM P L} (hinit : W1.init = W2.init) (hcommit : W1.commit = W2.commit)
    (hhash : W1.hash = W2.hash) (hinj : ∀ p q, W1.hash p = W1.hash q → p = q) :
    ∀ (h1 h2 : List (Entry P)), HashOk W1 h1 → HashOk W2 h2 → h1.map (·.m) = h2.map (·.m) →
      ledger W1 h1 = ledger W2 h2 := by
  intro h1
  induction h1 with
  | nil => intro h2 _ _ hm; cases h2 with | nil => exact hinit | cons _ _ => simp at hm
  | cons e1 o1 ih =>
    intro h2 k1 k2 hm
    cases h2 with
    | nil => simp at hm
    | cons e2 o2 =>
      simp only [List.map_cons, List.cons.injEq] at hm
      have ho := ih o2 (fun e he => k1 e (by simp [he])) (fun e he => k2 e (by simp [he])) hm.2
      have hp : e1.patch = e2.patch := by
        apply hinj
        rw [k1 e1 (by simp), hhash, k2 e2 (by simp), hm.1]
      simp only [ledger, ho, hp, hm.1, hcommit]

/-! ### an honest momentum is accepted whatever the pool holds -/

theorem pushAll_eq_append (ts : List (Tx P)) (views : Nat → List (Tx P)) (a : Nat) :
    pushAll views ts a = views a ++ pushAll (fun _ => []) ts a := by
  simp [pushAll]

theorem lastId_append_take {cf d r : List (Tx P)} : lastId (cf ++ (d ++ r).take d.length) = lastId (cf ++ d) := by
  rw [List.take_left']
  rfl

/-- the delivered block, executed in its stated context and force-inserted, leaves the producer's transaction at the
    producer's position — whether it was pooled before, competes with a pooled block, or extends the pool -/
theorem addBlock_honest {W : VM P L} {U : Block → Prop} (hinj : ∀ b b', U b → U b' → b.id = b'.id → b = b')
    {t : Node P} {x : Tx P} {d r : List (Tx P)} (hi : Inv U W t) (hx : U x.1)
    (hok : TxOk W t.hist (conf W t.hist x.1.acct ++ d) x) (hp : t.pool x.1.acct = d ++ r) :
    ∃ t' r', addBlock W true true t x.1 = some t' ∧ t'.pool x.1.acct = (d ++ [x]) ++ r' ∧
      ∀ a, a ≠ x.1.acct → t'.pool a = t.pool a := by
  obtain ⟨b, p⟩ := x
  obtain ⟨hprev, hheight, l, hl, he⟩ := hok
  simp only at hprev hheight hl he hx hp
  obtain ⟨hacct, hst⟩ := hi.pool b.acct
  by_cases hany : (t.pool b.acct).any (fun y => y.1.id == b.id) = true
  · -- pooled under the same identifier: it is the producer's transaction, at the producer's position
    refine ⟨t, ?_⟩
    obtain ⟨y, hy, hyid⟩ := List.any_eq_true.1 hany
    have hyb : y.1 = b := hinj _ _ (hi.blocks.1 _ y hy) hx (by simpa using hyid)
    obtain ⟨j, hjlt, hj⟩ := List.getElem_of_mem hy
    have hj' : (t.pool b.acct)[j]? = some y := by rw [List.getElem?_eq_getElem hjlt, hj]
    have hh := hst.height_at j y hj'
    rw [hyb, hheight, List.length_append] at hh
    have hjd : j = d.length := by omega
    subst hjd
    rw [hp] at hj'
    rw [List.getElem?_append_right (Nat.le_refl _), Nat.sub_self] at hj'
    cases r with
    | nil => simp at hj'
    | cons y' r' =>
      simp only [List.getElem?_cons_zero, Option.some.injEq] at hj'
      subst hj'
      rw [hp] at hst
      have hty := (StackSound.append.1 hst).2.1
      obtain ⟨_, _, l', hl', he'⟩ := hty
      rw [hyb] at hl' he'
      rw [hl] at hl'
      cases hl'
      rw [he] at he'
      cases he'
      refine ⟨r', ?_, ?_, fun _ _ => rfl⟩
      · unfold addBlock; simp only [hany, if_true]
      · rw [hp]
        have : y' = (b, y'.2) := by rw [← hyb]
        rw [← this]; simp
  · -- not pooled: executed on the account chain up to its previous, inserted with force
    have hsplit : splitFor (conf W t.hist b.acct) (t.pool b.acct) b = some (d, r) := by
      unfold splitFor
      have hk : b.height - 1 - (conf W t.hist b.acct).length = d.length := by
        rw [hheight, List.length_append]; omega
      simp only [hk]
      rw [hp, lastId_append_take, List.take_left' rfl, List.drop_left' rfl, if_pos]
      refine ⟨by rw [hheight, List.length_append]; omega, ?_, hprev.symm⟩
      rw [hheight]; simp only [List.length_append]; omega
    refine ⟨{ t with pool := upd t.pool b.acct (d ++ [(b, p)]) }, [], ?_, by simp [upd], ?_⟩
    · unfold addBlock
      simp only [hany, hl, hsplit, if_true, he, Bool.true_or]
      cases r <;> simp
    · intro a ha; simp [upd, ha]

theorem blockLoop_honest {W : VM P L} {U : Block → Prop} (hinj : ∀ b b', U b → U b' → b.id = b'.id → b = b') :
    ∀ (txs : List (Tx P)) (t : Node P) (done : Nat → List (Tx P)), Inv U W t → (∀ x ∈ txs, U x.1) →
      TxsSound W t.hist (fun a => conf W t.hist a ++ done a) txs → (∀ a, ∃ r, t.pool a = done a ++ r) →
      ∃ t', blockLoop W true true t (txs.map (·.1)) = (t', true) ∧ t'.hist = t.hist ∧ Inv U W t' ∧
        ∀ a, ∃ r, t'.pool a = pushAll done txs a ++ r := by
  intro txs
  induction txs with
  | nil => intro t done hi _ _ hp; exact ⟨t, rfl, rfl, hi, by rw [pushAll_nil]; exact hp⟩
  | cons x xs ih =>
    intro t done hi hu hs hp
    obtain ⟨r, hr⟩ := hp x.1.acct
    obtain ⟨t1, r1, h1, h2, h3⟩ := addBlock_honest hinj hi (hu x (by simp)) hs.1 hr
    have hh1 := addBlock_hist h1
    have hs' : TxsSound W t1.hist (fun a => conf W t1.hist a ++ upd done x.1.acct (done x.1.acct ++ [x]) a) xs := by
      rw [hh1]
      have e : (fun a => conf W t.hist a ++ upd done x.1.acct (done x.1.acct ++ [x]) a) =
          upd (fun a => conf W t.hist a ++ done a) x.1.acct ((conf W t.hist x.1.acct ++ done x.1.acct) ++ [x]) := by
        funext a
        simp only [upd]
        by_cases ha : a = x.1.acct
        · subst ha; simp
        · simp [ha]
      rw [e]; exact hs.2
    have hp' : ∀ a, ∃ r, t1.pool a = upd done x.1.acct (done x.1.acct ++ [x]) a ++ r := by
      intro a
      simp only [upd]
      by_cases ha : a = x.1.acct
      · subst ha; exact ⟨r1, by simpa using h2⟩
      · simp only [ha, if_false]; rw [h3 a ha]; exact hp a
    obtain ⟨t', g1, g2, g3, g4⟩ :=
      ih t1 _ (addBlock_inv h1 (hu x (by simp)) hi) (fun y hy => hu y (by simp [hy])) hs' hp'
    refine ⟨t', ?_, by rw [g2, hh1], g3, by rw [pushAll_cons]; exact g4⟩
    simp only [List.map_cons, blockLoop, h1, g1]

theorem consume_prefix :
    ∀ (txs : List (Tx P)) (pool : Nat → List (Tx P)), (∀ a, ∃ r, pool a = pushAll (fun _ => []) txs a ++ r) →
      ∃ q, consume pool (txs.map (·.1.hdr)) = some (q, txs) := by
  intro txs
  induction txs with
  | nil => intro pool _; exact ⟨pool, rfl⟩
  | cons x xs ih =>
    intro pool hp
    have hx : ∀ a, ∃ r, pool a = (if a = x.1.acct then [x] else []) ++ (pushAll (fun _ => []) xs a ++ r) := by
      intro a
      obtain ⟨r, hr⟩ := hp a
      refine ⟨r, ?_⟩
      rw [hr, pushAll_cons, pushAll_eq_append]
      simp only [upd, List.nil_append, List.append_assoc]
    obtain ⟨r, hr⟩ := hx x.1.acct
    simp only [if_true, List.singleton_append] at hr
    obtain ⟨q, hq⟩ := ih (upd pool x.1.acct (pushAll (fun _ => []) xs x.1.acct ++ r)) (by
      intro a
      simp only [upd]
      by_cases ha : a = x.1.acct
      · subst ha; exact ⟨r, by simp⟩
      · obtain ⟨r', hr'⟩ := hx a
        simp only [ha, if_false, List.nil_append] at hr' ⊢
        exact ⟨r', hr'⟩)
    refine ⟨q, ?_⟩
    simp only [Block.hdr] at hq
    simp only [List.map_cons, consume, Block.hdr, hr, if_true, hq]

theorem contentOk_of_txs (m : Momentum) (txs : List (Tx P)) (h : txs.map (·.1.hdr) = m.content) :
    contentOk ⟨m, txs.map (·.1)⟩ = true := by
  simp only [contentOk, ← h, List.length_map, beq_self_eq_true, Bool.true_and, List.all_eq_true, List.any_eq_true,
    List.mem_map]
  rintro _ ⟨t, ht, rfl⟩
  exact ⟨t.1, ⟨t, ht, rfl⟩, by simp⟩

theorem stepMomentum_honest {W : VM P L} {U : Block → Prop} (hinj : ∀ b b', U b → U b' → b.id = b'.id → b = b')
    {t : Node P} {m : Momentum} {txs : List (Tx P)} (hi : Inv U W t) (hu : ∀ x ∈ txs, U x.1)
    (hs : TxsSound W t.hist (conf W t.hist) txs) (hc : txs.map (·.1.hdr) = m.content)
    (hprev : m.prev = frontierId W t.hist) (hh : W.hash (W.pack (ledger W t.hist) txs) = m.changesHash)
    (hv : W.mvalid (ledger W t.hist) m = true) :
    ∃ q, stepMomentum W true true t ⟨m, txs.map (·.1)⟩ =
      ({ hist := ⟨m, txs, W.pack (ledger W t.hist) txs⟩ :: t.hist, pool := q }, true) := by
  have e : conf W t.hist = fun a => conf W t.hist a ++ (fun _ => ([] : List (Tx P))) a := by funext a; simp
  rw [e] at hs
  obtain ⟨t', g1, g2, _, g4⟩ := blockLoop_honest hinj txs t (fun _ => []) hi hu hs (fun a => ⟨t.pool a, by simp⟩)
  obtain ⟨q, hq⟩ := consume_prefix txs t'.pool g4
  refine ⟨q, ?_⟩
  unfold stepMomentum
  simp only [g1, g2, hprev, contentOk_of_txs m txs hc, ← hc, hq, hh, hv, ne_eq, not_true_eq_false, or_self,
    Bool.true_eq_false, if_false, and_self, if_true]

theorem deliver_honest {W : VM P L} {U : Block → Prop} (hinj : ∀ b b', U b → U b' → b.id = b'.id → b = b')
    {t : Node P} {m : Momentum} {txs : List (Tx P)} (hi : Inv U W t) (hu : ∀ x ∈ txs, U x.1)
    (hs : TxsSound W t.hist (conf W t.hist) txs) (hc : txs.map (·.1.hdr) = m.content)
    (hprev : m.prev = frontierId W t.hist) (hh : W.hash (W.pack (ledger W t.hist) txs) = m.changesHash)
    (hv : W.mvalid (ledger W t.hist) m = true) :
    (deliver W true true t [⟨m, txs.map (·.1)⟩]).2 = none ∧
      (known t.hist m = false → (deliver W true true t [⟨m, txs.map (·.1)⟩]).1.chain = m :: t.chain) := by
  obtain ⟨q, hq⟩ := stepMomentum_honest hinj hi hu hs hc hprev hh hv
  unfold deliver
  cases hk : known t.hist m
  · simp only [List.dropWhile, hk, hprev, ne_eq, not_true_eq_false, if_false, deliverGo, hq]
    exact ⟨trivial, fun _ => rfl⟩
  · simp [List.dropWhile, hk]

end ZV.NodeSync
