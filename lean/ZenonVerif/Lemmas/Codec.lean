import ZenonVerif.Model.Codec
/-
Helper lemmas for C13 (pre-image splitting, big-integer bytes).
-/
namespace ZV.Codec
open ZV

theorem leVal_append (a b : Bytes) : leVal (a ++ b) = leVal a + 256 ^ a.length * leVal b := by
  induction a with
  | nil => simp [leVal]
  | cons h t ih =>
    simp only [List.cons_append, leVal, ih, List.length_cons, Nat.pow_succ]
    rw [Nat.mul_add, Nat.mul_assoc, Nat.mul_left_comm]; omega

theorem leVal_replicate_zero (k : Nat) : leVal (List.replicate k 0) = 0 := by
  induction k with
  | zero => rfl
  | succ k ih => simp [List.replicate_succ, leVal, ih]

theorem beVal_zeros_append (k : Nat) (s : Bytes) : beVal (List.replicate k 0 ++ s) = beVal s := by
  simp [beVal, leVal_append, leVal_replicate_zero]

/-! ### `u64` -/

theorem u64_length (n : Nat) : (u64 n).length = 8 := by simp [u64, beBytes, leBytes_length]

theorem u64_inj {n m : Nat} (hn : n < two64) (hm : m < two64) (h : u64 n = u64 m) : n = m := by
  have h' : leBytes 8 n = leBytes 8 m := by
    have := congrArg List.reverse h
    simpa [u64, beBytes] using this
  have hv := congrArg leVal h'
  rw [leVal_leBytes, leVal_leBytes] at hv
  have e : (256 : Nat) ^ 8 = two64 := by decide
  rw [e, Nat.mod_eq_of_lt hn, Nat.mod_eq_of_lt hm] at hv
  exact hv

/-! ### `big.Int.Bytes()` -/

theorem leVal_natBytesLEAux : ∀ (f n : Nat), n ≤ f → leVal (natBytesLEAux f n) = n := by
  intro f
  induction f with
  | zero => intro n h; have : n = 0 := by omega
            subst this; rfl
  | succ f ih =>
    intro n h
    unfold natBytesLEAux
    split
    · next h0 => subst h0; rfl
    · next h0 =>
      have hle : n / 256 ≤ f := by
        have : n / 256 < n := Nat.div_lt_self (by omega) (by decide)
        omega
      simp only [leVal, ih _ hle]
      omega

theorem beVal_natBytesBE (n : Nat) : beVal (natBytesBE n) = n := by
  simp [beVal, natBytesBE, leVal_natBytesLEAux n n (Nat.le_refl n)]

/-- number of base-256 digits: `n < 256^k ↔ len ≤ k` -/
theorem natBytesLEAux_length_le : ∀ (f n k : Nat), n < 256 ^ k → (natBytesLEAux f n).length ≤ k := by
  intro f
  induction f with
  | zero => intro n k _; simp [natBytesLEAux]
  | succ f ih =>
    intro n k h
    unfold natBytesLEAux
    split
    · simp
    · next h0 =>
      cases k with
      | zero => simp at h; omega
      | succ k =>
        have : n / 256 < 256 ^ k := by
          rw [Nat.pow_succ] at h
          exact Nat.div_lt_of_lt_mul (by rw [Nat.mul_comm]; exact h)
        have := ih (n / 256) k this
        simp only [List.length_cons]; omega

theorem natBytesLEAux_length_gt : ∀ (f n k : Nat), n ≤ f → 256 ^ k ≤ n → k < (natBytesLEAux f n).length := by
  intro f
  induction f with
  | zero => intro n k h1 h2
            have : 0 < 256 ^ k := Nat.pow_pos (by decide)
            omega
  | succ f ih =>
    intro n k h1 h2
    have hpos : 0 < 256 ^ k := Nat.pow_pos (by decide)
    unfold natBytesLEAux
    split
    · omega
    · next h0 =>
      cases k with
      | zero => simp
      | succ k =>
        have hle : n / 256 ≤ f := by
          have : n / 256 < n := Nat.div_lt_self (by omega) (by decide)
          omega
        have : 256 ^ k ≤ n / 256 := by
          rw [Nat.pow_succ] at h2
          exact (Nat.le_div_iff_mul_le (by decide)).mpr h2
        have := ih (n / 256) k hle this
        simp only [List.length_cons]; omega

theorem natBytesBE_length_le (n k : Nat) (h : n < 256 ^ k) : (natBytesBE n).length ≤ k := by
  simpa [natBytesBE] using natBytesLEAux_length_le n n k h

theorem natBytesBE_length_gt (n k : Nat) (h : 256 ^ k ≤ n) : k < (natBytesBE n).length := by
  simpa [natBytesBE] using natBytesLEAux_length_gt n n k (Nat.le_refl n) h

/-! ### `LeftPadBytes`, `BigIntToBytes` -/

theorem leftPad_length (l : Nat) (s : Bytes) : (leftPad l s).length = max l s.length := by
  unfold leftPad
  split
  · omega
  · simp; omega

theorem beVal_leftPad (l : Nat) (s : Bytes) : beVal (leftPad l s) = beVal s := by
  unfold leftPad
  split
  · rfl
  · exact beVal_zeros_append _ _

theorem beVal_bigIntToBytes (a : Int) : beVal (bigIntToBytes a) = a.natAbs := by
  simp [bigIntToBytes, beVal_leftPad, beVal_natBytesBE]

theorem bigIntToBytes_inj {a b : Int} (ha : 0 ≤ a) (hb : 0 ≤ b) (h : bigIntToBytes a = bigIntToBytes b) : a = b := by
  have := congrArg beVal h
  rw [beVal_bigIntToBytes, beVal_bigIntToBytes] at this
  omega

theorem bigIntToBytes_length_ge (a : Int) : Gen.BigIntPadWidth ≤ (bigIntToBytes a).length := by
  simp [bigIntToBytes, leftPad_length]; omega

theorem bigIntToBytes_length_fixed (a : Int) (h : a.natAbs < 2 ^ 256) :
    (bigIntToBytes a).length = Gen.BigIntPadWidth := by
  have e : (2 : Nat) ^ 256 = 256 ^ Gen.BigIntPadWidth := by decide
  have := natBytesBE_length_le a.natAbs Gen.BigIntPadWidth (by omega)
  simp [bigIntToBytes, leftPad_length]; omega

theorem bigIntToBytes_length_var (a : Int) (h : 2 ^ 256 ≤ a.natAbs) :
    Gen.BigIntPadWidth < (bigIntToBytes a).length := by
  have e : (2 : Nat) ^ 256 = 256 ^ Gen.BigIntPadWidth := by decide
  have := natBytesBE_length_gt a.natAbs Gen.BigIntPadWidth (by omega)
  simp [bigIntToBytes, leftPad_length]; omega

/-! ### splitting a concatenation of chunks of known width -/

theorem flatten_chunks_inj (w : Nat) (hw : 0 < w) :
    ∀ (xs ys : List Bytes), (∀ x ∈ xs, x.length = w) → (∀ y ∈ ys, y.length = w) →
      xs.flatten = ys.flatten → xs = ys := by
  intro xs
  induction xs with
  | nil =>
    intro ys _ hy h
    cases ys with
    | nil => rfl
    | cons y ys =>
      have hl := congrArg List.length h
      have := hy y (by simp)
      simp only [List.flatten_nil, List.flatten_cons, List.length_nil, List.length_append] at hl; omega
  | cons x xs ih =>
    intro ys hx hy h
    cases ys with
    | nil =>
      have hl := congrArg List.length h
      have := hx x (by simp)
      simp only [List.flatten_nil, List.flatten_cons, List.length_nil, List.length_append] at hl; omega
    | cons y ys =>
      simp only [List.flatten_cons] at h
      have hxl := hx x (by simp)
      have hyl := hy y (by simp)
      have ⟨h1, h2⟩ := List.append_inj h (by omega)
      rw [h1, ih ys (fun z hz => hx z (by simp [hz])) (fun z hz => hy z (by simp [hz])) h2]

end ZV.Codec

namespace ZV.Codec
open ZV

/-! ### unique splitting of the account-block pre-image -/

/-- the fields of an account block that enter the pre-image directly (not through a digest) -/
structure ABody.DirectEq (x y : ABody) : Prop where
  version : x.version = y.version
  chainIdentifier : x.chainIdentifier = y.chainIdentifier
  blockType : x.blockType = y.blockType
  previousHash : x.previousHash = y.previousHash
  height : x.height = y.height
  momentumAcknowledged : x.momentumAcknowledged = y.momentumAcknowledged
  address : x.address = y.address
  toAddress : x.toAddress = y.toAddress
  amount : x.amount = y.amount
  tokenStandard : x.tokenStandard = y.tokenStandard
  fromBlockHash : x.fromBlockHash = y.fromBlockHash
  fusedPlasma : x.fusedPlasma = y.fusedPlasma
  difficulty : x.difficulty = y.difficulty
  nonce : x.nonce = y.nonce

theorem abPreimage_eq (H : Bytes → Bytes) (b : Block) : abPreimage H b =
    u64 b.body.version ++ (u64 b.body.chainIdentifier ++ (u64 b.body.blockType ++ (b.body.previousHash ++
    (u64 b.body.height ++ ((b.body.momentumAcknowledged.hash ++ u64 b.body.momentumAcknowledged.height) ++
    (b.body.address ++ (b.body.toAddress ++ (bigIntToBytes b.body.amount ++ (b.body.tokenStandard ++
    (b.body.fromBlockHash ++ (H (descSource b.desc) ++ (H b.body.data ++ (u64 b.body.fusedPlasma ++
    (u64 b.body.difficulty ++ b.body.nonce)))))))))))))) := by
  simp [abPreimage, abHashParts, joinParts, hashHeightBytes, hashHeightParts]

theorem abPreimage_length (H : Bytes → Bytes) (hHlen : ∀ x, (H x).length = Gen.HashSize) (b : Block)
    (w : b.body.WF) : (abPreimage H b).length = abPreimageRestWidth + (bigIntToBytes b.body.amount).length := by
  have l1 := hHlen (descSource b.desc)
  have l2 := hHlen b.body.data
  have wp := w.previousHash
  have wmh := w.momentumAcknowledged.1
  have wa := w.address
  have wt := w.toAddress
  have wts := w.tokenStandard
  have wf := w.fromBlockHash
  have wn := w.nonce
  rw [abPreimage_eq]
  simp only [List.length_append, u64_length, abPreimageRestWidth]
  rw [l1, l2, wp, wmh, wa, wt, wts, wf, wn]
  generalize List.length (bigIntToBytes b.body.amount) = k
  clear w hHlen
  simp only [Gen.HashSize, Gen.AddressSize, Gen.ZtsSize, Gen.NonceSize]
  omega

theorem abPreimage_split (H : Bytes → Bytes) (hHlen : ∀ x, (H x).length = Gen.HashSize)
    (b1 b2 : Block) (w1 : b1.body.WF) (w2 : b2.body.WF)
    (a1 : 0 ≤ b1.body.amount) (a2 : 0 ≤ b2.body.amount)
    (h : abPreimage H b1 = abPreimage H b2) :
    ABody.DirectEq b1.body b2.body ∧ H (descSource b1.desc) = H (descSource b2.desc) ∧
      H b1.body.data = H b2.body.data := by
  rw [abPreimage_eq, abPreimage_eq] at h
  have l1 := hHlen (descSource b1.desc)
  have l2 := hHlen (descSource b2.desc)
  have l3 := hHlen b1.body.data
  have l4 := hHlen b2.body.data
  obtain ⟨w1v, w1c, w1b, _, w1p, w1h, ⟨w1mh, w1mt⟩, w1a, w1t, w1ts, w1f, w1fp, w1d, w1n⟩ := w1
  obtain ⟨w2v, w2c, w2b, _, w2p, w2h, ⟨w2mh, w2mt⟩, w2a, w2t, w2ts, w2f, w2fp, w2d, w2n⟩ := w2
  obtain ⟨e1, h⟩ := List.append_inj h (by simp [u64_length])
  obtain ⟨e2, h⟩ := List.append_inj h (by simp [u64_length])
  obtain ⟨e3, h⟩ := List.append_inj h (by simp [u64_length])
  obtain ⟨e4, h⟩ := List.append_inj h (by omega)
  obtain ⟨e5, h⟩ := List.append_inj h (by simp [u64_length])
  obtain ⟨e6, h⟩ := List.append_inj h (by simp [u64_length]; omega)
  obtain ⟨e6a, e6b⟩ := List.append_inj e6 (by omega)
  obtain ⟨e7, h⟩ := List.append_inj h (by omega)
  obtain ⟨e8, h⟩ := List.append_inj h (by omega)
  obtain ⟨e9, h⟩ := List.append_inj' h (by simp [u64_length]; omega)
  obtain ⟨e10, h⟩ := List.append_inj h (by omega)
  obtain ⟨e11, h⟩ := List.append_inj h (by omega)
  obtain ⟨e12, h⟩ := List.append_inj h (by omega)
  obtain ⟨e13, h⟩ := List.append_inj h (by omega)
  obtain ⟨e14, h⟩ := List.append_inj h (by simp [u64_length])
  obtain ⟨e15, e16⟩ := List.append_inj h (by simp [u64_length])
  refine ⟨⟨u64_inj w1v w2v e1, u64_inj w1c w2c e2, u64_inj w1b w2b e3, e4, u64_inj w1h w2h e5, ?_, e7, e8,
    bigIntToBytes_inj a1 a2 e9, e10, e11, u64_inj w1fp w2fp e14, u64_inj w1d w2d e15, e16⟩, e12, e13⟩
  have := u64_inj w1mt w2mt e6b
  cases hm1 : b1.body.momentumAcknowledged
  cases hm2 : b2.body.momentumAcknowledged
  simp_all

end ZV.Codec

namespace ZV.Codec
open ZV

theorem descSource_inj : ∀ (ds1 ds2 : List Block),
    (∀ d ∈ ds1, d.body.hash.length = Gen.HashSize) → (∀ d ∈ ds2, d.body.hash.length = Gen.HashSize) →
    descSource ds1 = descSource ds2 → ds1.map (·.body.hash) = ds2.map (·.body.hash) := by
  intro ds1 ds2 h1 h2 h
  apply flatten_chunks_inj Gen.HashSize (by decide) _ _ _ _ h
  · intro x hx; simp only [List.mem_map] at hx; obtain ⟨d, hd, rfl⟩ := hx; exact h1 d hd
  · intro x hx; simp only [List.mem_map] at hx; obtain ⟨d, hd, rfl⟩ := hx; exact h2 d hd

theorem deepWFList_hash : ∀ (ds : List Block), DeepWFList ds → ∀ d ∈ ds, d.body.hash.length = Gen.HashSize := by
  intro ds
  induction ds with
  | nil => intro _ d hd; simp at hd
  | cons x xs ih =>
    intro h d hd
    rw [DeepWFList] at h
    simp only [List.mem_cons] at hd
    rcases hd with rfl | hd
    · obtain ⟨body, ds'⟩ := d
      rw [Block.DeepWF] at h
      exact h.1.1.hash
    · exact ih h.2 d hd

theorem ABody.strip_eq_of {x y : ABody} (hd : ABody.DirectEq x y) (hh : x.hash = y.hash) (hdata : x.data = y.data) :
    x.strip = y.strip := by
  obtain ⟨h1, h2, h3, h4, h5, h6, h7, h8, h9, h10, h11, h12, h13, h14⟩ := hd
  cases x; cases y
  simp_all [ABody.strip]

/-- T1, recursive form -/
theorem strip_eq_of_hash_eq (H : Bytes → Bytes) (hHlen : ∀ x, (H x).length = Gen.HashSize)
    (S : Bytes → Prop) (hH : InjOn H S) (b1 : Block) :
    ∀ b2 : Block, (∀ x ∈ b1.hashInputs H, S x) → (∀ x ∈ b2.hashInputs H, S x) →
      b1.DeepWF → b2.DeepWF → b1.Consistent H → b2.Consistent H →
      b1.body.hash = b2.body.hash → b1.strip = b2.strip := by
  refine Block.rec
    (motive_1 := fun b1 => ∀ b2 : Block, (∀ x ∈ b1.hashInputs H, S x) → (∀ x ∈ b2.hashInputs H, S x) →
      b1.DeepWF → b2.DeepWF → b1.Consistent H → b2.Consistent H →
      b1.body.hash = b2.body.hash → b1.strip = b2.strip)
    (motive_2 := fun ds1 => ∀ ds2 : List Block, (∀ x ∈ hashInputsList H ds1, S x) → (∀ x ∈ hashInputsList H ds2, S x) →
      DeepWFList ds1 → DeepWFList ds2 → ConsistentList H ds1 → ConsistentList H ds2 →
      ds1.map (·.body.hash) = ds2.map (·.body.hash) → stripList ds1 = stripList ds2)
    ?_ ?_ ?_ b1
  · intro body ds ih b2 s1 s2 w1 w2 c1 c2 hh
    obtain ⟨body2, ds2⟩ := b2
    rw [Block.hashInputs] at s1 s2
    rw [Block.DeepWF] at w1 w2
    rw [Block.Consistent] at c1 c2
    simp only at hh
    have hpre : abPreimage H ⟨body, ds⟩ = abPreimage H ⟨body2, ds2⟩ := by
      apply hH _ _ (s1 _ (by simp)) (s2 _ (by simp))
      have := c1.1; have := c2.1
      simp only [abComputeHash] at *
      simp_all
    obtain ⟨hd, hdesc, hdata⟩ := abPreimage_split H hHlen _ _ w1.1 w2.1 w1.2.1 w2.2.1 hpre
    have hdata' : body.data = body2.data := hH _ _ (s1 _ (by simp)) (s2 _ (by simp)) hdata
    have hdesc' : descSource ds = descSource ds2 := hH _ _ (s1 _ (by simp)) (s2 _ (by simp)) hdesc
    have hmap := descSource_inj ds ds2 (deepWFList_hash ds w1.2.2) (deepWFList_hash ds2 w2.2.2) hdesc'
    have hl := ih ds2 (fun x hx => s1 x (by simp [hx])) (fun x hx => s2 x (by simp [hx])) w1.2.2 w2.2.2 c1.2 c2.2 hmap
    rw [Block.strip, Block.strip, hl, ABody.strip_eq_of hd hh hdata']
  · intro ds2 _ _ _ _ _ _ h
    cases ds2 with
    | nil => rfl
    | cons d ds => simp at h
  · intro d ds ihd ihds ds2 s1 s2 w1 w2 c1 c2 h
    cases ds2 with
    | nil => simp at h
    | cons d2 ds2 =>
      rw [hashInputsList] at s1 s2
      rw [DeepWFList] at w1 w2
      rw [ConsistentList] at c1 c2
      simp only [List.map_cons, List.cons.injEq] at h
      rw [stripList, stripList,
        ihd d2 (fun x hx => s1 x (by simp [hx])) (fun x hx => s2 x (by simp [hx])) w1.1 w2.1 c1.1 c2.1 h.1,
        ihds ds2 (fun x hx => s1 x (by simp [hx])) (fun x hx => s2 x (by simp [hx])) w1.2 w2.2 c1.2 c2.2 h.2]

end ZV.Codec

namespace ZV.Codec
open ZV

/-! ### momentums -/

theorem momentumPreimage_eq (H : Bytes → Bytes) (m : Momentum) : momentumPreimage H m =
    u64 m.version ++ (u64 m.chainIdentifier ++ (m.previousHash ++ (u64 m.height ++ (u64 m.timestampUnix ++
    (H m.data ++ (H (contentBytes m.content) ++ m.changesHash)))))) := by
  simp [momentumPreimage, momentumHashParts, joinParts]

theorem accountHeaderBytes_eq (h : AccountHeader) :
    accountHeaderBytes h = h.address ++ (u64 h.height ++ h.hash) := by
  simp [accountHeaderBytes, accountHeaderParts, joinParts]

theorem accountHeaderBytes_length (h : AccountHeader) (w : h.WF) :
    (accountHeaderBytes h).length = Gen.AddressSize + 8 + Gen.HashSize := by
  obtain ⟨wa, wh, _⟩ := w
  simp [accountHeaderBytes_eq, u64_length]; omega

theorem accountHeaderBytes_inj {x y : AccountHeader} (wx : x.WF) (wy : y.WF)
    (h : accountHeaderBytes x = accountHeaderBytes y) : x = y := by
  rw [accountHeaderBytes_eq, accountHeaderBytes_eq] at h
  obtain ⟨wxa, wxh, wxt⟩ := wx
  obtain ⟨wya, wyh, wyt⟩ := wy
  obtain ⟨e1, h⟩ := List.append_inj h (by omega)
  obtain ⟨e2, e3⟩ := List.append_inj h (by simp [u64_length])
  have := u64_inj wxt wyt e2
  cases x; cases y; simp_all

theorem map_inj_on {α β : Type} (f : α → β) (P : α → Prop) (hf : ∀ x y, P x → P y → f x = f y → x = y) :
    ∀ (xs ys : List α), (∀ x ∈ xs, P x) → (∀ y ∈ ys, P y) → xs.map f = ys.map f → xs = ys := by
  intro xs
  induction xs with
  | nil => intro ys _ _ h; cases ys with
    | nil => rfl
    | cons y ys => simp at h
  | cons x xs ih =>
    intro ys hx hy h
    cases ys with
    | nil => simp at h
    | cons y ys =>
      simp only [List.map_cons, List.cons.injEq] at h
      rw [hf x y (hx x (by simp)) (hy y (by simp)) h.1,
        ih ys (fun z hz => hx z (by simp [hz])) (fun z hz => hy z (by simp [hz])) h.2]

theorem contentBytes_inj (c1 c2 : List AccountHeader) (w1 : ∀ h ∈ c1, h.WF) (w2 : ∀ h ∈ c2, h.WF)
    (h : contentBytes c1 = contentBytes c2) : c1 = c2 := by
  have hm : c1.map accountHeaderBytes = c2.map accountHeaderBytes := by
    apply flatten_chunks_inj (Gen.AddressSize + 8 + Gen.HashSize) (by decide) _ _ _ _ h
    · intro x hx; simp only [List.mem_map] at hx; obtain ⟨d, hd, rfl⟩ := hx
      exact accountHeaderBytes_length d (w1 d hd)
    · intro x hx; simp only [List.mem_map] at hx; obtain ⟨d, hd, rfl⟩ := hx
      exact accountHeaderBytes_length d (w2 d hd)
  exact map_inj_on accountHeaderBytes AccountHeader.WF (fun x y wx wy => accountHeaderBytes_inj wx wy) c1 c2 w1 w2 hm

structure Momentum.DirectEq (x y : Momentum) : Prop where
  version : x.version = y.version
  chainIdentifier : x.chainIdentifier = y.chainIdentifier
  previousHash : x.previousHash = y.previousHash
  height : x.height = y.height
  timestampUnix : x.timestampUnix = y.timestampUnix
  changesHash : x.changesHash = y.changesHash

theorem momentumPreimage_split (H : Bytes → Bytes) (hHlen : ∀ x, (H x).length = Gen.HashSize)
    (m1 m2 : Momentum) (w1 : m1.WF) (w2 : m2.WF) (h : momentumPreimage H m1 = momentumPreimage H m2) :
    Momentum.DirectEq m1 m2 ∧ H m1.data = H m2.data ∧ H (contentBytes m1.content) = H (contentBytes m2.content) := by
  rw [momentumPreimage_eq, momentumPreimage_eq] at h
  have l1 := hHlen m1.data
  have l2 := hHlen m2.data
  have l3 := hHlen (contentBytes m1.content)
  have l4 := hHlen (contentBytes m2.content)
  obtain ⟨w1v, w1c, _, w1p, w1h, w1t, _, w1ch⟩ := w1
  obtain ⟨w2v, w2c, _, w2p, w2h, w2t, _, w2ch⟩ := w2
  obtain ⟨e1, h⟩ := List.append_inj h (by simp [u64_length])
  obtain ⟨e2, h⟩ := List.append_inj h (by simp [u64_length])
  obtain ⟨e3, h⟩ := List.append_inj h (by omega)
  obtain ⟨e4, h⟩ := List.append_inj h (by simp [u64_length])
  obtain ⟨e5, h⟩ := List.append_inj h (by simp [u64_length])
  obtain ⟨e6, h⟩ := List.append_inj h (by omega)
  obtain ⟨e7, e8⟩ := List.append_inj h (by omega)
  exact ⟨⟨u64_inj w1v w2v e1, u64_inj w1c w2c e2, e3, u64_inj w1h w2h e4, u64_inj w1t w2t e5, e8⟩, e6, e7⟩

theorem momentum_strip_eq_of_hash_eq (H : Bytes → Bytes) (hHlen : ∀ x, (H x).length = Gen.HashSize)
    (S : Bytes → Prop) (hH : InjOn H S) (m1 m2 : Momentum)
    (s1 : ∀ x ∈ m1.hashInputs H, S x) (s2 : ∀ x ∈ m2.hashInputs H, S x) (w1 : m1.WF) (w2 : m2.WF)
    (c1 : m1.hash = momentumComputeHash H m1) (c2 : m2.hash = momentumComputeHash H m2)
    (hh : m1.hash = m2.hash) : m1.strip = m2.strip := by
  have hpre : momentumPreimage H m1 = momentumPreimage H m2 := by
    apply hH _ _ (s1 _ (by simp [Momentum.hashInputs])) (s2 _ (by simp [Momentum.hashInputs]))
    simp only [momentumComputeHash] at c1 c2
    rw [← c1, ← c2, hh]
  obtain ⟨hd, hdata, hcontent⟩ := momentumPreimage_split H hHlen m1 m2 w1 w2 hpre
  have hdata' : m1.data = m2.data :=
    hH _ _ (s1 _ (by simp [Momentum.hashInputs])) (s2 _ (by simp [Momentum.hashInputs])) hdata
  have hc' : contentBytes m1.content = contentBytes m2.content :=
    hH _ _ (s1 _ (by simp [Momentum.hashInputs])) (s2 _ (by simp [Momentum.hashInputs])) hcontent
  have hc := contentBytes_inj _ _ w1.content w2.content hc'
  obtain ⟨h1, h2, h3, h4, h5, h6⟩ := hd
  clear hpre hdata hcontent hc' c1 c2 s1 s2 w1 w2 hH hHlen
  cases m1; cases m2
  simp only [Momentum.strip] at *
  simp_all

end ZV.Codec

/-! ### concrete instances for the non-vacuity examples of Props/C13.lean -/
namespace ZV.Codec.Example
open ZV ZV.Codec

/-- toy hash: 32 bytes, separates the few inputs of the examples -/
def toyH (x : Bytes) : Bytes := leBytes 32 (leVal x + 7 * x.length)

def body0 : ABody := { (default : ABody) with
  version := 1, chainIdentifier := 3, blockType := 5,
  hash := List.replicate 32 0, previousHash := List.replicate 32 9,
  momentumAcknowledged := ⟨List.replicate 32 4, 77⟩, address := List.replicate 20 1,
  toAddress := List.replicate 20 0, tokenStandard := List.replicate 10 0,
  fromBlockHash := List.replicate 32 2, nonce := List.replicate 8 0, amount := 0, data := [1, 2, 3],
  changesHash := List.replicate 32 0 }

def child0 : ABody := { body0 with blockType := 4, amount := 1000, data := [], height := 2 }
def child : Block := ⟨{ child0 with hash := abComputeHash toyH ⟨child0, []⟩ }, []⟩
/-- a contract-receive block with one descendant; signature and plasma are free (uncovered) -/
def parent (sig : Bytes) (plasma : Nat) : Block :=
  ⟨{ body0 with hash := abComputeHash toyH ⟨body0, [child]⟩, signature := sig, totalPlasma := plasma }, [child]⟩

def mom0 : Momentum := { (default : Momentum) with
  version := 1, chainIdentifier := 3, hash := List.replicate 32 0, previousHash := List.replicate 32 5,
  height := 10, timestampUnix := 1000, data := [],
  content := [⟨List.replicate 20 1, List.replicate 32 7, 4⟩, ⟨List.replicate 20 2, List.replicate 32 8, 1⟩],
  changesHash := List.replicate 32 6 }
def mom (sig : Bytes) : Momentum := { mom0 with hash := momentumComputeHash toyH mom0, signature := sig }

end ZV.Codec.Example
