import ZenonVerif.Model.Rewards
/-
Helper lemmas for C11: sums of rounded-down shares.
-/
namespace ZV.Rewards

theorem tdiv_mul_le_of_nonneg (a W : Int) (ha : 0 ≤ a) (hW : 0 < W) : Int.tdiv a W * W ≤ a := by
  rw [Int.tdiv_eq_ediv_of_nonneg ha]
  exact Int.ediv_mul_le a (by omega)

theorem tdiv_le_of_le_mul (a b c : Int) (ha : 0 ≤ a) (hc : 0 < c) (h : a ≤ b * c) : Int.tdiv a c ≤ b := by
  rw [Int.tdiv_eq_ediv_of_nonneg ha]
  exact Int.ediv_le_of_le_mul hc h

theorem share_nonneg (T w W : Int) (hT : 0 ≤ T) (hw : 0 ≤ w) (hW : 0 ≤ W) : 0 ≤ share T w W :=
  Int.tdiv_nonneg (Int.mul_nonneg hT hw) hW

theorem sum_nonneg : ∀ (l : List Int), (∀ x ∈ l, 0 ≤ x) → 0 ≤ l.sum
  | [], _ => by simp
  | x :: xs, h => by
    have h1 := h x (by simp)
    have h2 := sum_nonneg xs (fun y hy => h y (by simp [hy]))
    simp only [List.sum_cons]; omega

/-- Σ ⌊T·wᵢ/W⌋ · W ≤ T · Σ wᵢ -/
theorem sum_share_mul_le (T W : Int) (hT : 0 ≤ T) (hW : 0 < W) :
    ∀ ws : List Int, (∀ w ∈ ws, 0 ≤ w) → (ws.map (fun w => share T w W)).sum * W ≤ T * ws.sum
  | [], _ => by simp
  | w :: ws, h => by
    have hw := h w (by simp)
    have ih := sum_share_mul_le T W hT hW ws (fun y hy => h y (by simp [hy]))
    have h1 : share T w W * W ≤ T * w := tdiv_mul_le_of_nonneg (T * w) W (Int.mul_nonneg hT hw) hW
    simp only [List.map_cons, List.sum_cons, Int.add_mul, Int.mul_add]
    omega

/-- general form: Σ ⌊T·wᵢ/W⌋ ≤ T whenever Σ wᵢ ≤ W -/
theorem sum_share_le (T W : Int) (hT : 0 ≤ T) (hW : 0 < W) (ws : List Int) (hw : ∀ w ∈ ws, 0 ≤ w)
    (hs : ws.sum ≤ W) : (ws.map (fun w => share T w W)).sum ≤ T := by
  have h1 := sum_share_mul_le T W hT hW ws hw
  have h2 : T * ws.sum ≤ T * W := Int.mul_le_mul_of_nonneg_left hs hT
  exact Int.le_of_mul_le_mul_right (Int.le_trans h1 h2) hW

theorem sum_share_nonneg (T W : Int) (hT : 0 ≤ T) (hW : 0 ≤ W) (ws : List Int) (hw : ∀ w ∈ ws, 0 ≤ w) :
    0 ≤ (ws.map (fun w => share T w W)).sum := by
  apply sum_nonneg
  intro x hx
  obtain ⟨w, hwm, rfl⟩ := List.mem_map.mp hx
  exact share_nonneg T w W hT (hw w hwm) hW

/-- one pillar's delegation reward times the total weight is at most d·E·weight when it produced at most what was
    expected of it -/
theorem pillar_deleg_mul_le (d W E : Int) (s : PillarStat) (hd : 0 ≤ d) (hW : 0 < W) (hE : 0 ≤ E)
    (hpe : s.produced ≤ s.expected) (hw : 0 ≤ s.weight) (hex : s.expected ≠ 0) :
    Int.tdiv (Int.tdiv (d * (s.produced : Int) * s.weight * E) (s.expected : Int)) W * W ≤ d * E * s.weight := by
  have hpr : (0 : Int) ≤ (s.produced : Int) := Int.natCast_nonneg _
  have hexp : (0 : Int) < (s.expected : Int) := by omega
  have hle : (s.produced : Int) ≤ (s.expected : Int) := by omega
  have hN : 0 ≤ d * (s.produced : Int) * s.weight * E :=
    Int.mul_nonneg (Int.mul_nonneg (Int.mul_nonneg hd hpr) hw) hE
  have hK : 0 ≤ d * E * s.weight := Int.mul_nonneg (Int.mul_nonneg hd hE) hw
  have h1 := tdiv_mul_le_of_nonneg _ _ hN hexp
  have h2 : d * (s.produced : Int) * s.weight * E ≤ d * E * s.weight * (s.expected : Int) := by
    have : d * (s.produced : Int) * s.weight * E = d * E * s.weight * (s.produced : Int) := by ac_rfl
    rw [this]
    exact Int.mul_le_mul_of_nonneg_left hle hK
  have h3 : Int.tdiv (d * (s.produced : Int) * s.weight * E) (s.expected : Int) ≤ d * E * s.weight :=
    Int.le_of_mul_le_mul_right (Int.le_trans h1 h2) hexp
  have h4 : 0 ≤ Int.tdiv (d * (s.produced : Int) * s.weight * E) (s.expected : Int) :=
    Int.tdiv_nonneg hN (Int.le_of_lt hexp)
  exact Int.le_trans (tdiv_mul_le_of_nonneg _ _ h4 hW) h3

/-- sums over a list of pillars, total weight positive -/
theorem pillar_sums (d p W E : Int) (hd : 0 ≤ d) (hp : 0 ≤ p) (hW : 0 ≤ W) (hE : 0 ≤ E) :
    ∀ qs : List PillarStat, (∀ s ∈ qs, s.produced ≤ s.expected) → (∀ s ∈ qs, 0 ≤ s.weight) →
      (qs.map (fun s => (pillarRewardWith d p W E s).delegation)).sum * W ≤ d * E * (qs.map (·.weight)).sum ∧
      (qs.map (fun s => (pillarRewardWith d p W E s).block)).sum ≤ p * ((qs.map (·.expected)).sum : Nat) ∧
      0 ≤ (qs.map (·.weight)).sum
  | [], _, _ => by simp
  | s :: qs, h1, h2 => by
    obtain ⟨ih1, ih2, ih3⟩ := pillar_sums d p W E hd hp hW hE qs (fun x hx => h1 x (by simp [hx]))
      (fun x hx => h2 x (by simp [hx]))
    have hpe := h1 s (by simp)
    have hw := h2 s (by simp)
    have hK : 0 ≤ d * E * s.weight := Int.mul_nonneg (Int.mul_nonneg hd hE) hw
    simp only [List.map_cons, List.sum_cons, Int.add_mul, Int.mul_add, Int.natCast_add]
    have hdel : (pillarRewardWith d p W E s).delegation * W ≤ d * E * s.weight := by
      unfold pillarRewardWith
      by_cases hex : s.expected = 0
      · simp [hex, hK]
      · simp only [hex, if_false]
        by_cases hW0 : W = 0
        · simp [hW0, hK]
        · simp only [ne_eq, hW0, not_false_eq_true, if_true]
          exact pillar_deleg_mul_le d W E s hd (by omega) hE hpe hw hex
    have hblk : (pillarRewardWith d p W E s).block ≤ p * (s.expected : Int) := by
      unfold pillarRewardWith
      by_cases hex : s.expected = 0
      · simp [hex]
      · simp only [hex, if_false]
        exact Int.mul_le_mul_of_nonneg_left (by omega) hp
    refine ⟨by omega, by omega, by omega⟩

/-- for every uint64 epoch the table lookup succeeds and returns an entry of the table, provided the table is not
    empty and a tick lasts at least two epochs (so that `int(epoch / tick)` cannot turn negative) -/
theorem network_mem (tbl : List Int) (epoch : Nat) (hne : tbl ≠ []) (hR : 2 ≤ Gen.RewardTickDurationInEpochs) :
    ∃ x ∈ tbl, networkRewardPerEpoch tbl epoch = some x := by
  unfold networkRewardPerEpoch
  have hR0 : Gen.RewardTickDurationInEpochs ≠ 0 := by omega
  simp only [hR0, if_false]
  have hlt : epoch % two64 / Gen.RewardTickDurationInEpochs < two63 := by
    have h1 : epoch % two64 < two64 := Nat.mod_lt _ (by decide)
    have h2 : epoch % two64 / Gen.RewardTickDurationInEpochs ≤ epoch % two64 / 2 :=
      Nat.div_le_div_left hR (by decide)
    have h3 : two64 = 2 * two63 := by decide
    omega
  generalize epoch % two64 / Gen.RewardTickDurationInEpochs = t at hlt
  have hnt : ¬ t ≥ two63 := by omega
  simp only [hnt, if_false]
  by_cases hge : (t : Int) ≥ (tbl.length : Int)
  · simp only [hge, if_true]
    cases hl : tbl.getLast? with
    | none => exact absurd (List.getLast?_eq_none_iff.mp hl) hne
    | some x =>
      refine ⟨x, ?_, rfl⟩
      obtain ⟨ys, hys⟩ := List.getLast?_eq_some_iff.mp hl
      rw [hys]; simp
  · simp only [hge, if_false]
    have hn : ¬ (t : Int) < 0 := by omega
    simp only [hn, if_false, Int.toNat_natCast]
    have hlt' : t < tbl.length := by omega
    refine ⟨tbl[t], List.getElem_mem hlt', ?_⟩
    simp [hlt']

/-- the ZNN pieces computed (in wrapping int64 arithmetic) from a network emission `n` exist, are non-negative, and a
    whole epoch of pillar rewards plus sentinel plus liquidity stays within `n` -/
def znnOK (n : Int) : Bool :=
  match znnPieces n with
  | some (d, p, s, l) =>
    decide (0 ≤ d ∧ 0 ≤ p ∧ 0 ≤ s ∧ 0 ≤ l ∧ d * Gen.MomentumsPerEpoch + p * Gen.MomentumsPerEpoch + s + l ≤ n)
  | none => false

def qsrOK (n : Int) : Bool :=
  match qsrPieces n with
  | some (st, s, l) => decide (0 ≤ st ∧ 0 ≤ s ∧ 0 ≤ l ∧ st + s + l ≤ n)
  | none => false

end ZV.Rewards
