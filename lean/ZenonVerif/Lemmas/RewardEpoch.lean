import ZenonVerif.Model.RewardEpoch
import ZenonVerif.Lemmas.Rewards
import ZenonVerif.Lemmas.EpochCursor
/-
Helper lemmas for Props/C11Epoch.lean. Core Lean only.
-/
namespace ZV.RewardEpoch
open ZV ZV.Rewards ZV.EpochCursor

/-! ### int64 -/

theorem wrap64_id (x : Int) (h0 : 0 ≤ x) (h1 : x < (two63 : Int)) : wrap64 x = x := by
  unfold wrap64
  have e3 : (two63 : Int) = 9223372036854775808 := by decide
  have e4 : (two64 : Int) = 18446744073709551616 := by decide
  rw [e3, e4]; rw [e3] at h1
  omega

theorem epoch_len (c : Cfg) (e : Int) : epochEnd c e - epochStart c e = c.epochSec := by
  unfold epochEnd epochStart
  rw [Int.mul_add]; omega

/-- a weighted stake over an epoch is never negative when the epoch length is an int64 -/
theorem weightedStake_nonneg (st rv : Int) (amt : Nat) (s e : Int) (hlen : e - s < (two63 : Int)) :
    0 ≤ weightedStake st rv amt s e := by
  unfold weightedStake
  simp only
  generalize hs' : max s st = s'
  generalize he' : (if rv ≠ 0 then min e rv else e) = e'
  have h1 : s ≤ s' := by omega
  have h2 : e' ≤ e := by subst he'; split <;> omega
  by_cases h : s' ≥ e'
  · simp [h]
  · simp only [h, if_false]
    rw [wrap64_id (e' - s') (by omega) (by omega)]
    exact Int.mul_nonneg (by omega) (Int.natCast_nonneg _)

theorem stakeW_nonneg (c : Cfg) (hdur : c.epochSec < (two63 : Int)) (e : Int) (x : StakeEntry) : 0 ≤ stakeW c e x := by
  unfold stakeW
  exact weightedStake_nonneg _ _ _ _ _ (by rw [epoch_len]; exact hdur)

theorem liqW_nonneg (c : Cfg) (hdur : c.epochSec < (two63 : Int)) (e : Int) (x : LiqEntry) : 0 ≤ liqW c e x := by
  unfold liqW
  exact weightedStake_nonneg _ _ _ _ _ (by rw [epoch_len]; exact hdur)

theorem sentinelW_nonneg (c : Cfg) (e : Int) (x : SentinelEntry) : 0 ≤ sentinelW c e x := by
  unfold sentinelW weightedSentinel
  simp only
  split
  · omega
  · split <;> omega

/-! ### credits -/

theorem toCoins_some {z q : Int} {x : Coins} (h : toCoins z q = some x) : (x.znn : Int) = z ∧ (x.qsr : Int) = q := by
  unfold toCoins at h
  split at h
  · rename_i hz
    cases h
    exact ⟨Int.toNat_of_nonneg hz.1, Int.toNat_of_nonneg hz.2⟩
  · cases h

theorem toCredits_sums : ∀ (l : List ICredit) (cs : List Credit), toCredits l = some cs →
    (sumZ cs : Int) = isumZ l ∧ (sumQ cs : Int) = isumQ l
  | [], cs, h => by
    simp only [toCredits, Option.some.injEq] at h; subst h; simp [sumZ, sumQ, isumZ, isumQ]
  | (a, z, q) :: r, cs, h => by
    unfold toCredits at h
    cases h1 : toCoins z q with
    | none => simp [h1] at h
    | some x =>
      cases h2 : toCredits r with
      | none => simp [h1, h2] at h
      | some rs =>
        simp only [h1, h2, Option.some.injEq] at h
        subst h
        obtain ⟨i1, i2⟩ := toCredits_sums r rs h2
        obtain ⟨x1, x2⟩ := toCoins_some h1
        simp only [sumZ, sumQ, isumZ, isumQ, List.map_cons, List.sum_cons, Int.natCast_add] at *
        omega

theorem toCredits_addrs : ∀ (l : List ICredit) (cs : List Credit), toCredits l = some cs →
    cs.map (·.1) = l.map (·.1)
  | [], cs, h => by simp only [toCredits, Option.some.injEq] at h; subst h; rfl
  | (a, z, q) :: r, cs, h => by
    unfold toCredits at h
    cases h1 : toCoins z q with
    | none => simp [h1] at h
    | some x =>
      cases h2 : toCredits r with
      | none => simp [h1, h2] at h
      | some rs =>
        simp only [h1, h2, Option.some.injEq] at h
        subst h
        simp [toCredits_addrs r rs h2]

/-- sum over a filtered list of non-negative numbers -/
theorem sum_filter_le {α : Type} (f : α → Int) (p : α → Bool) (hf : ∀ x, 0 ≤ f x) :
    ∀ l : List α, ((l.filter p).map f).sum ≤ (l.map f).sum
  | [] => by simp
  | x :: l => by
    have ih := sum_filter_le f p hf l
    have := hf x
    by_cases hp : p x = true
    · simp only [List.filter_cons, hp, if_true, List.map_cons, List.sum_cons]; omega
    · simp only [List.filter_cons, hp, List.map_cons, List.sum_cons]; simp only [Bool.false_eq_true, if_false]; omega

theorem sum_map_zero {α : Type} (l : List α) : (l.map (fun _ => (0 : Int))).sum = 0 := by
  induction l with
  | nil => rfl
  | cons x l ih => simp only [List.map_cons, List.sum_cons, ih]; rfl

/-! ### stake -/

theorem stake_sum (c : Cfg) (hdur : c.epochSec < (two63 : Int)) (es : List StakeEntry) (e : Nat) (T : Int) (hT : 0 ≤ T)
    (hTe : stakeQsrRewardPerEpoch e = some T) (ic : List ICredit) (h : stakeCredits c es e = some ic) :
    isumZ ic = 0 ∧ isumQ ic ≤ T ∧ 0 ≤ isumQ ic := by
  unfold stakeCredits at h
  simp only [hTe] at h
  have hw : ∀ w ∈ es.map (stakeW c e), 0 ≤ w := by
    intro w hw
    obtain ⟨x, _, rfl⟩ := List.mem_map.mp hw
    exact stakeW_nonneg c hdur e x
  have hs := sum_nonneg _ hw
  by_cases h0 : (es.map (stakeW c e)).sum = 0
  · simp only [h0, if_true, Option.some.injEq] at h
    subst h; simp [isumZ, isumQ, hT]
  · simp only [h0, if_false, Option.some.injEq] at h
    subst h
    have eq : isumQ (es.map (fun x => (x.addr, (0 : Int), share T (stakeW c e x) (es.map (stakeW c e)).sum))) =
        ((es.map (stakeW c e)).map (fun w => share T w (es.map (stakeW c e)).sum)).sum := by
      simp [isumQ, List.map_map, Function.comp_def]
    refine ⟨?_, ?_, ?_⟩
    · simp only [isumZ, List.map_map, Function.comp_def]; exact sum_map_zero es
    · rw [eq]; exact sum_share_le T _ hT (by omega) _ hw (Int.le_refl _)
    · rw [eq]; exact sum_share_nonneg T _ hT hs _ hw

/-! ### sentinel -/

theorem sentinel_sum (c : Cfg) (es : List SentinelEntry) (e : Nat) (Tz Tq : Int) (hz : 0 ≤ Tz) (hq : 0 ≤ Tq)
    (hTe : sentinelRewardForEpoch e = some (Tz, Tq)) (ic : List ICredit) (h : sentinelCredits c es e = some ic) :
    isumZ ic ≤ Tz ∧ isumQ ic ≤ Tq := by
  unfold sentinelCredits at h
  simp only [hTe] at h
  have hw : ∀ w ∈ es.map (sentinelW c e), 0 ≤ w := by
    intro w hw
    obtain ⟨x, _, rfl⟩ := List.mem_map.mp hw
    exact sentinelW_nonneg c e x
  have hs := sum_nonneg _ hw
  by_cases h0 : (es.map (sentinelW c e)).sum = 0
  · simp only [h0, if_true, Option.some.injEq] at h
    subst h; simp [isumZ, isumQ, hz, hq]
  · simp only [h0, if_false, Option.some.injEq] at h
    subst h
    generalize hW : (es.map (sentinelW c e)).sum = W at *
    generalize hfs : es.filter (fun x => decide (sentinelW c e x ≠ 0)) = fs
    have hw' : ∀ w ∈ fs.map (sentinelW c e), 0 ≤ w := by
      intro w hw
      obtain ⟨x, _, rfl⟩ := List.mem_map.mp hw
      exact sentinelW_nonneg c e x
    have hle : (fs.map (sentinelW c e)).sum ≤ W := by
      rw [← hfs, ← hW]; exact sum_filter_le _ _ (sentinelW_nonneg c e) es
    have eqz : isumZ (fs.map (fun x => (x.owner, share Tz (sentinelW c e x) W, share Tq (sentinelW c e x) W))) =
        ((fs.map (sentinelW c e)).map (fun w => share Tz w W)).sum := by
      simp [isumZ, List.map_map, Function.comp_def]
    have eqq : isumQ (fs.map (fun x => (x.owner, share Tz (sentinelW c e x) W, share Tq (sentinelW c e x) W))) =
        ((fs.map (sentinelW c e)).map (fun w => share Tq w W)).sum := by
      simp [isumQ, List.map_map, Function.comp_def]
    rw [eqz, eqq]
    exact ⟨sum_share_le Tz W hz (by omega) _ hw' hle, sum_share_le Tq W hq (by omega) _ hw' hle⟩

/-! ### association lists (Go maps) -/

theorem lookup_map_snd {β γ : Type} (f : β → γ) (k : String) :
    ∀ l : List (String × β), (l.map (fun p => (p.1, f p.2))).lookup k = (l.lookup k).map f
  | [] => rfl
  | (k', b) :: l => by
    simp only [List.map_cons, List.lookup_cons]
    cases k == k' with
    | true => rfl
    | false => exact lookup_map_snd f k l

theorem mem_of_lookup {β : Type} : ∀ (m : List (String × β)) (k : String) (v : β), m.lookup k = some v → (k, v) ∈ m
  | [], _, _, h => by simp at h
  | (k', v') :: m, k, v, h => by
    simp only [List.lookup_cons] at h
    by_cases hk : k = k'
    · subst hk; simp at h; subst h; simp
    · have : (k == k') = false := by simpa using hk
      simp only [this] at h
      exact List.mem_cons_of_mem _ (mem_of_lookup m k v h)

theorem sum_ite_le (k0 : String) (v0 : Int) (g : String → Int) (hv : 0 ≤ v0) (hg : ∀ k, 0 ≤ g k) :
    ∀ ks : List String, ks.Nodup → (ks.map (fun k => if k = k0 then v0 else g k)).sum ≤ v0 + (ks.map g).sum
  | [], _ => by simp [hv]
  | k :: ks, hnd => by
    have hnd' := List.nodup_cons.mp hnd
    have ih := sum_ite_le k0 v0 g hv hg ks hnd'.2
    simp only [List.map_cons, List.sum_cons]
    by_cases hk : k = k0
    · subst hk
      have hcongr : ks.map (fun x => if x = k then v0 else g x) = ks.map g := by
        apply List.map_congr_left
        intro a ha
        have : a ≠ k := fun h => hnd'.1 (h ▸ ha)
        simp [this]
      rw [hcongr]
      have := hg k
      simp only [if_true]; omega
    · simp only [hk, if_false]; omega

/-- distinct keys pick distinct entries of a map: the values looked up sum to at most the sum of all values -/
theorem lookup_sum_le : ∀ (m : List (String × Int)), (∀ kv ∈ m, 0 ≤ kv.2) → ∀ ks : List String, ks.Nodup →
    (ks.map (fun k => (m.lookup k).getD 0)).sum ≤ (m.map (·.2)).sum
  | [], _, ks, _ => by
    simp only [List.lookup_nil, Option.getD_none, List.map_nil, List.sum_nil]
    rw [sum_map_zero]; exact Int.le_refl _
  | (k0, v0) :: m, hpos, ks, hnd => by
    have hv : 0 ≤ v0 := hpos (k0, v0) (by simp)
    have hpos' : ∀ kv ∈ m, 0 ≤ kv.2 := fun kv h => hpos kv (by simp [h])
    have ih := lookup_sum_le m hpos' ks hnd
    have hg : ∀ k, 0 ≤ (m.lookup k).getD 0 := by
      intro k
      cases hl : m.lookup k with
      | none => simp
      | some v =>
        have := mem_of_lookup m k v hl
        simpa using hpos' (k, v) this
    have hcongr : ks.map (fun k => (((k0, v0) :: m).lookup k).getD 0) =
        ks.map (fun k => if k = k0 then v0 else (m.lookup k).getD 0) := by
      apply List.map_congr_left
      intro k _
      simp only [List.lookup_cons]
      by_cases hk : k = k0
      · simp [hk]
      · have : (k == k0) = false := by simpa using hk
        simp [this, hk]
    rw [hcongr]
    have := sum_ite_le k0 v0 (fun k => (m.lookup k).getD 0) hv hg ks hnd
    simp only [List.map_cons, List.sum_cons]
    omega

/-! ### pillar -/

/-- what the pillar reward bound needs from the consensus input of one epoch (named premises; see Props/C11Epoch for
    which of them are theorems elsewhere) -/
structure ConsOK (mpe : Int) (st : EpochStats) (dl : Delegs) : Prop where
  /-- a pillar produced at most the momentums expected of it (C05: a momentum is accepted only from the slot's producer) -/
  produced_le_expected : ∀ x ∈ st.pillars, x.2.produced ≤ x.2.expected
  weight_nonneg : ∀ x ∈ st.pillars, 0 ≤ x.2.weight
  /-- TotalWeight is (at least) the sum of the pillar weights (C11Points.epoch_point_total: equal) -/
  weights_le_total : (st.pillars.map (fun x => x.2.weight)).sum ≤ st.totalWeight
  /-- an epoch expects at most MomentumsPerEpoch momentums -/
  expected_le_slots : (((st.pillars.map (fun x => x.2.expected)).sum : Nat) : Int) ≤ mpe
  /-- `GetPillarDelegationsByEpoch` returns a Go map keyed by pillar name -/
  deleg_keys : (dl.map (fun x => x.1)).Nodup

theorem isumZ_append (a b : List ICredit) : isumZ (a ++ b) = isumZ a + isumZ b := by
  simp [isumZ, List.map_append, List.sum_append]
theorem isumQ_append (a b : List ICredit) : isumQ (a ++ b) = isumQ a + isumQ b := by
  simp [isumQ, List.map_append, List.sum_append]

theorem sum_map_sub {α : Type} (f g : α → Int) : ∀ l : List α,
    (l.map (fun x => f x - g x)).sum = (l.map f).sum - (l.map g).sum
  | [] => by simp
  | x :: l => by simp only [List.map_cons, List.sum_cons, sum_map_sub f g l]; omega

theorem pillarReward_nonneg (d p W E : Int) (hd : 0 ≤ d) (hp : 0 ≤ p) (hW : 0 ≤ W) (hE : 0 ≤ E) (s : PillarStat)
    (hw : 0 ≤ s.weight) :
    0 ≤ (pillarRewardWith d p W E s).block ∧ 0 ≤ (pillarRewardWith d p W E s).delegation ∧
    (pillarRewardWith d p W E s).total = (pillarRewardWith d p W E s).block + (pillarRewardWith d p W E s).delegation := by
  unfold pillarRewardWith
  by_cases hex : s.expected = 0
  · simp [hex]
  · simp only [hex, if_false]
    have hpr : (0 : Int) ≤ (s.produced : Int) := Int.natCast_nonneg _
    refine ⟨Int.mul_nonneg hp hpr, ?_, by trivial⟩
    by_cases hW0 : W = 0
    · simp [hW0]
    · simp only [ne_eq, hW0, not_false_eq_true, if_true]
      exact Int.tdiv_nonneg (Int.tdiv_nonneg (Int.mul_nonneg (Int.mul_nonneg (Int.mul_nonneg hd hpr) hw) hE)
        (Int.natCast_nonneg _)) hW

theorem toGiveOf_nonneg (i : PillarInfo) (r : PillarReward) (hb : 0 ≤ r.block) (hd : 0 ≤ r.delegation) : 0 ≤ toGiveOf i r := by
  unfold toGiveOf
  exact Int.tdiv_nonneg (Int.add_nonneg (Int.mul_nonneg (Int.natCast_nonneg _) hb)
    (Int.mul_nonneg (Int.natCast_nonneg _) hd)) (by decide)

theorem backerCredits_sum (infos : List PillarInfo) (name : String) (tb : Int) (htb : 0 ≤ tb) (bs : List (Addr × Nat)) :
    isumZ (backerCredits infos name tb bs) ≤ tb ∧ isumQ (backerCredits infos name tb bs) = 0 := by
  unfold backerCredits
  simp only
  have hw : ∀ w ∈ bs.map (fun b => (b.2 : Int)), 0 ≤ w := by
    intro w hw
    obtain ⟨x, _, rfl⟩ := List.mem_map.mp hw
    exact Int.natCast_nonneg _
  have hs := sum_nonneg _ hw
  by_cases hA : (bs.map (fun b => (b.2 : Int))).sum = 0
  · simp only [hA, if_true]
    cases infos.find? (fun i => i.name == name) with
    | none => simp [isumZ, isumQ, htb]
    | some i => simp [isumZ, isumQ]
  · simp only [hA, if_false]
    generalize hAA : (bs.map (fun b => (b.2 : Int))).sum = A at *
    have eqz : isumZ (bs.map (fun b => (b.1, share tb (b.2 : Int) A, (0 : Int)))) =
        ((bs.map (fun b => (b.2 : Int))).map (fun w => share tb w A)).sum := by
      simp [isumZ, List.map_map, Function.comp_def]
    refine ⟨?_, ?_⟩
    · rw [eqz]; exact sum_share_le tb A htb (by omega) _ hw (by omega)
    · simp only [isumQ, List.map_map, Function.comp_def]; exact sum_map_zero bs

theorem delegCredits_sum (infos : List PillarInfo) (toGive : List (String × Int)) (hpos : ∀ kv ∈ toGive, 0 ≤ kv.2) :
    ∀ (dl : Delegs) (back : List ICredit), delegCredits infos toGive dl = some back →
      isumZ back ≤ (dl.map (fun x => (toGive.lookup x.1).getD 0)).sum ∧ isumQ back = 0
  | [], back, h => by
    simp only [delegCredits, Option.some.injEq] at h; subst h; simp [isumZ, isumQ]
  | (name, bs) :: rest, back, h => by
    unfold delegCredits at h
    cases h1 : toGive.lookup name with
    | none => simp [h1] at h
    | some tb =>
      cases h2 : delegCredits infos toGive rest with
      | none => simp [h1, h2] at h
      | some more =>
        simp only [h1, h2, Option.some.injEq] at h
        subst h
        obtain ⟨i1, i2⟩ := delegCredits_sum infos toGive hpos rest more h2
        have htb : 0 ≤ tb := by simpa using hpos (name, tb) (mem_of_lookup toGive name tb h1)
        obtain ⟨b1, b2⟩ := backerCredits_sum infos name tb htb bs
        rw [isumZ_append, isumQ_append]
        simp only [List.map_cons, List.sum_cons, h1, Option.getD_some]
        omega

theorem found_sum (d p : Int) (st : EpochStats) (F : PillarReward → Int) : ∀ infos : List PillarInfo,
    ((foundPillars d p st infos).map (fun x => F x.2)).sum =
      ((infos.map (fun i => i.name)).map (fun k =>
        (((st.pillars.map (fun q => (q.1, F (pillarRewardForEpoch d p st.totalWeight (st.pillars.map (·.2)) q.2)))).lookup k).getD 0))).sum
  | [] => by simp [foundPillars]
  | i :: infos => by
    have ih := found_sum d p st F infos
    unfold foundPillars at ih ⊢
    simp only [List.map_cons, List.sum_cons, List.filterMap_cons]
    rw [lookup_map_snd (fun s => F (pillarRewardForEpoch d p st.totalWeight (st.pillars.map (·.2)) s))]
    cases st.pillars.lookup i.name with
    | none => simp only [Option.map_none, Option.getD_none]; rw [ih]; omega
    | some s => simp only [Option.map_some, Option.getD_some, List.map_cons, List.sum_cons]; rw [ih]

/-- every reward of a found pillar is the reward of a pillar of the statistics -/
theorem found_mem (d p : Int) (st : EpochStats) (infos : List PillarInfo) (x : PillarInfo × PillarReward)
    (hx : x ∈ foundPillars d p st infos) :
    ∃ s, (x.1.name, s) ∈ st.pillars ∧ x.2 = pillarRewardForEpoch d p st.totalWeight (st.pillars.map (·.2)) s := by
  unfold foundPillars at hx
  obtain ⟨i, _, hi⟩ := List.mem_filterMap.mp hx
  cases hl : st.pillars.lookup i.name with
  | none => simp [hl] at hi
  | some s =>
    simp only [hl, Option.map_some, Option.some.injEq] at hi
    subst hi
    exact ⟨s, mem_of_lookup _ _ _ hl, rfl⟩

/-- the pillar credits of one epoch add up to at most the raw rewards `TotalReward` of the epoch's pillars -/
theorem pillar_sum_le_totals (mpe d p : Int) (hd : 0 ≤ d) (hp : 0 ≤ p) (infos : List PillarInfo)
    (hinf : (infos.map (fun i => i.name)).Nodup) (st : EpochStats) (dl : Delegs) (hc : ConsOK mpe st dl) (e : Nat)
    (hdp : pillarPerMomentum mpe e = some (d, p)) (ic : List ICredit) (h : pillarCredits mpe infos st dl e = some ic) :
    isumQ ic = 0 ∧
    isumZ ic ≤ ((st.pillars.map (·.2)).map (fun s => (pillarRewardForEpoch d p st.totalWeight (st.pillars.map (·.2)) s).total)).sum := by
  unfold pillarCredits at h
  simp only [hdp] at h
  split at h
  · cases h
  · cases hb : delegCredits infos ((foundPillars d p st infos).map (fun x => (x.1.name, toGiveOf x.1 x.2))) dl with
    | none => simp [hb] at h
    | some back =>
      simp only [hb, Option.some.injEq] at h
      subst h
      generalize hfound : foundPillars d p st infos = found at *
      have hW : 0 ≤ st.totalWeight := by
        have := sum_nonneg (st.pillars.map (fun x => x.2.weight)) (by
          intro w hw
          obtain ⟨x, hx, rfl⟩ := List.mem_map.mp hw
          exact hc.weight_nonneg x hx)
        have := hc.weights_le_total
        omega
      have hE : (0 : Int) ≤ (totalExpected (st.pillars.map (·.2)) : Int) := Int.natCast_nonneg _
      have hR : ∀ x ∈ found, 0 ≤ x.2.block ∧ 0 ≤ x.2.delegation ∧ x.2.total = x.2.block + x.2.delegation := by
        intro x hx
        rw [← hfound] at hx
        obtain ⟨s, hs, hxe⟩ := found_mem d p st infos x hx
        rw [hxe]
        exact pillarReward_nonneg d p _ _ hd hp hW hE s (hc.weight_nonneg _ hs)
      have hpos : ∀ kv ∈ found.map (fun x => (x.1.name, toGiveOf x.1 x.2)), 0 ≤ kv.2 := by
        intro kv hkv
        obtain ⟨x, hx, rfl⟩ := List.mem_map.mp hkv
        obtain ⟨h1, h2, _⟩ := hR x hx
        exact toGiveOf_nonneg x.1 x.2 h1 h2
      obtain ⟨b1, b2⟩ := delegCredits_sum infos _ hpos dl back hb
      have b3 := lookup_sum_le _ hpos (dl.map (fun x => x.1)) hc.deleg_keys
      simp only [List.map_map, Function.comp_def] at b3
      -- the pillars' own part
      have own_z : isumZ (found.map (fun x => ((x.1.withdraw, x.2.total - toGiveOf x.1 x.2, (0 : Int)) : ICredit))) =
          (found.map (fun x => x.2.total)).sum - (found.map (fun x => toGiveOf x.1 x.2)).sum := by
        simp only [isumZ, List.map_map, Function.comp_def]
        exact sum_map_sub (fun x => x.2.total) (fun x => toGiveOf x.1 x.2) found
      have own_q : isumQ (found.map (fun x => ((x.1.withdraw, x.2.total - toGiveOf x.1 x.2, (0 : Int)) : ICredit))) = 0 := by
        simp only [isumQ, List.map_map, Function.comp_def]; exact sum_map_zero found
      -- the found totals against all totals
      have ftot := found_sum d p st (fun r => r.total) infos
      rw [hfound] at ftot
      have hmpos : ∀ kv ∈ st.pillars.map (fun q => (q.1, (pillarRewardForEpoch d p st.totalWeight (st.pillars.map (·.2)) q.2).total)),
          0 ≤ kv.2 := by
        intro kv hkv
        obtain ⟨q, hq, rfl⟩ := List.mem_map.mp hkv
        obtain ⟨h1, h2, h3⟩ := pillarReward_nonneg d p st.totalWeight (totalExpected (st.pillars.map (·.2))) hd hp hW hE q.2
          (hc.weight_nonneg q hq)
        show 0 ≤ (pillarRewardForEpoch d p st.totalWeight (st.pillars.map (·.2)) q.2).total
        unfold pillarRewardForEpoch
        omega
      have t1 := lookup_sum_le _ hmpos (infos.map (fun i => i.name)) hinf
      simp only [List.map_map, Function.comp_def] at t1 ftot ⊢
      rw [isumZ_append, isumQ_append, own_z, own_q]
      refine ⟨by omega, ?_⟩
      omega

/-! ### liquidity -/

theorem liqSplit_spec (c : Cfg) (st : LiqState) (e : Nat) (Tz Tq : Int) (bz bq : Nat) (o : LiqOut)
    (h : liqSplit c st e Tz Tq bz bq = some o) :
    isumZ o.credits + o.mintZ = Tz ∧ isumQ o.credits + o.mintQ = Tq ∧ 0 ≤ o.mintZ ∧ 0 ≤ o.mintQ ∧
    o.burnZ = bz ∧ o.burnQ = bq := by
  unfold liqSplit at h
  simp only at h
  split at h
  · cases h
  · rename_i hg
    obtain ⟨g1, g2⟩ := not_or.mp hg
    simp only [Option.some.injEq] at h
    subst h
    refine ⟨?_, ?_, ?_, ?_, rfl, rfl⟩ <;> simp only <;> omega

theorem liqBurn_le (st : LiqState) : (liqBurn st).1 ≤ st.balZnn ∧ (liqBurn st).2 ≤ st.balQsr := by
  unfold liqBurn
  split
  · rename_i h; exact h
  · exact ⟨Nat.zero_le _, Nat.zero_le _⟩

/-- the guard of `computeLiquidityStakeRewardsForEpoch` (`totalFunds > totalAmount → ErrInvalidRewards`) makes the
    epoch's accounts exact: credits + remainder minted to the contract = emission + what was burned from its balance;
    what is burned is covered by the balance -/
theorem liq_stake_sum (c : Cfg) (st : LiqState) (e : Nat) (Tz0 Tq0 : Int)
    (hT : liquidityRewardForEpoch e = some (Tz0, Tq0)) (hz : 0 ≤ Tz0) (hq : 0 ≤ Tq0) (o : LiqOut)
    (h : liqStakeOut c st e = some o) :
    isumZ o.credits + o.mintZ = Tz0 + (o.burnZ : Int) ∧ isumQ o.credits + o.mintQ = Tq0 + (o.burnQ : Int) ∧
    0 ≤ o.mintZ ∧ 0 ≤ o.mintQ ∧ o.burnZ ≤ st.balZnn ∧ o.burnQ ≤ st.balQsr := by
  unfold liqStakeOut at h
  simp only [hT] at h
  by_cases hh : st.halted = true
  · simp only [hh, if_true, Option.some.injEq] at h
    subst h
    simp [isumZ, isumQ, hz, hq]
  · simp only [hh, Bool.false_eq_true, if_false] at h
    obtain ⟨h1, h2, h3, h4, h5, h6⟩ := liqSplit_spec c st e _ _ _ _ o h
    have := liqBurn_le st
    rw [h5, h6]
    omega

/-! ### the composed machine -/

/-- everything minted to `a` along a trace of the composed machine -/
def mintedTo (a : Addr) : List ROut → Coins
  | [] => Coins.zero
  | .minted ms :: os => paid ms a + mintedTo a os
  | .rewarded _ :: os => mintedTo a os
  | .refused :: os => mintedTo a os
  | .mutated :: os => mintedTo a os

theorem updateEpoch_pillars (k : Kind) (rc : RCfg) (cons : Cons) (st : Store) (e : Nat) (o : EpochOut)
    (h : updateEpoch k rc cons st e = some o) : o.store.pillars = st.pillars := by
  unfold updateEpoch at h
  cases k <;> simp only at h
  all_goals
    split at h
    · cases h
    · obtain ⟨cs, _, rfl⟩ := Option.map_eq_some_iff.mp h; rfl

theorem rewardAll_spec (k : Kind) (rc : RCfg) (cons : Cons) :
    ∀ (es : List Int) (st st' : Store) (outs : List (Int × EpochOut)), rewardAll k rc cons st es = some (st', outs) →
      outs.map (·.1) = es ∧ st'.pillars = st.pillars ∧
      ∀ x ∈ outs, ∃ s : Store, s.pillars = st.pillars ∧ updateEpoch k rc cons s x.1.toNat = some x.2
  | [], st, st', outs, h => by
    simp only [rewardAll, Option.some.injEq, Prod.mk.injEq] at h
    obtain ⟨h1, h2⟩ := h
    subst h1 h2
    simp
  | e :: es, st, st', outs, h => by
    unfold rewardAll at h
    cases hu : updateEpoch k rc cons st e.toNat with
    | none => simp [hu] at h
    | some o =>
      cases hr : rewardAll k rc cons o.store es with
      | none => simp [hu, hr] at h
      | some r =>
        obtain ⟨st2, rest⟩ := r
        simp only [hu, hr, Option.some.injEq, Prod.mk.injEq] at h
        obtain ⟨h1, h2⟩ := h
        subst h1 h2
        obtain ⟨i1, i2, i3⟩ := rewardAll_spec k rc cons es o.store st2 rest hr
        have hp := updateEpoch_pillars k rc cons st e.toNat o hu
        refine ⟨by simp [i1], by rw [i2, hp], ?_⟩
        intro x hx
        rcases List.mem_cons.mp hx with rfl | hx
        · exact ⟨st, rfl, hu⟩
        · obtain ⟨s, hs1, hs2⟩ := i3 x hx
          exact ⟨s, by rw [hs1, hp], hs2⟩

theorem run_credits (c : Cfg) (v : Variant) : ∀ (cs : List Credit) (s : CState) (rest : List Op),
    EpochCursor.run c v s (cs.map (fun x => Op.credit x.1 x.2) ++ rest) =
      ((EpochCursor.run c v (creditAll s cs) rest).1,
        List.replicate cs.length Out.credited ++ (EpochCursor.run c v (creditAll s cs) rest).2)
  | [], s, rest => by simp [creditAll]
  | x :: cs, s, rest => by
    have ih := run_credits c v cs (credit s x.1 x.2) rest
    simp only [List.map_cons, List.cons_append, EpochCursor.run, EpochCursor.step, List.length_cons, List.replicate_succ]
    rw [ih]
    simp [creditAll]

theorem rewardedOf_credited (n : Nat) (os : List Out) : rewardedOf (List.replicate n Out.credited ++ os) = rewardedOf os := by
  induction n with
  | zero => simp
  | succ n ih => simp only [List.replicate_succ, List.cons_append, rewardedOf]; exact ih

theorem mintedOf_credited (a : Addr) (n : Nat) (os : List Out) :
    mintedOf a (List.replicate n Out.credited ++ os) = mintedOf a os := by
  induction n with
  | zero => simp
  | succ n ih => simp only [List.replicate_succ, List.cons_append, mintedOf]; exact ih

theorem creditedOf_credits (a : Addr) : ∀ (cs : List Credit) (rest : List Op),
    creditedOf a (cs.map (fun x => Op.credit x.1 x.2) ++ rest) = creditedTo a cs + creditedOf a rest
  | [], rest => by simp [creditedTo, Coins.zero_add']
  | x :: cs, rest => by
    simp only [List.map_cons, List.cons_append, creditedOf, creditedTo, List.foldr_cons]
    rw [creditedOf_credits a cs rest]
    simp only [creditedTo]
    rw [Coins.add_assoc']

theorem creditedTo_append (a : Addr) (xs ys : List Credit) : creditedTo a (xs ++ ys) = creditedTo a xs + creditedTo a ys := by
  induction xs with
  | nil => simp [creditedTo, Coins.zero_add']
  | cons x xs ih =>
    simp only [List.cons_append, creditedTo, List.foldr_cons] at ih ⊢
    rw [ih, Coins.add_assoc']

theorem update_some (k : Kind) (rc : RCfg) (cons : Cons) (s s' : RState) (h : Nat) (ts : Int) (outs : List (Int × EpochOut))
    (hu : update k rc cons s h ts = some (s', outs)) :
    ∃ cs' es, EpochCursor.update rc.c (variantOf k) s.cs h ts = some (cs', es) ∧
      rewardAll k rc cons s.store es = some (s'.store, outs) ∧ s'.cs = creditAll cs' (creditsOf outs) := by
  unfold update at hu
  cases h1 : EpochCursor.update rc.c (variantOf k) s.cs h ts with
  | none => simp [h1] at hu
  | some r =>
    obtain ⟨cs', es⟩ := r
    simp only [h1] at hu
    cases h2 : rewardAll k rc cons s.store es with
    | none => simp [h2] at hu
    | some q =>
      obtain ⟨st', outs'⟩ := q
      simp only [h2, Option.some.injEq, Prod.mk.injEq] at hu
      obtain ⟨e1, e2⟩ := hu
      subst e1 e2
      exact ⟨cs', es, rfl, h2, rfl⟩

/-- SIMULATION: a history of the composed machine is a history of the cursor/deposit machine of Model/EpochCursor.lean
    (`lower`): same cursor, deposits and last-update height at the end, same rewarded epochs, same mints, and the `credit`
    calls of the lower history are exactly the `addReward` calls the reward computations made -/
theorem lower_run (k : Kind) (rc : RCfg) (cons : Cons) : ∀ (ops : List ROp) (s : RState),
    (EpochCursor.run rc.c (variantOf k) s.cs (lower k rc cons s ops)).1 = (run k rc cons s ops).1.cs ∧
    rewardedOf (EpochCursor.run rc.c (variantOf k) s.cs (lower k rc cons s ops)).2 = rewardedEpochs (run k rc cons s ops).2 ∧
    (∀ a, mintedOf a (EpochCursor.run rc.c (variantOf k) s.cs (lower k rc cons s ops)).2 = mintedTo a (run k rc cons s ops).2) ∧
    (∀ a, creditedOf a (lower k rc cons s ops) = creditedTo a (allCredits (run k rc cons s ops).2))
  | [], s => by simp [lower, run, EpochCursor.run, rewardedOf, rewardedEpochs, epochOuts, mintedOf, mintedTo, creditedOf,
      allCredits, creditsOf, creditedTo]
  | .update h ts :: os, s => by
    cases hu : update k rc cons s h ts with
    | none =>
      obtain ⟨i1, i2, i3, i4⟩ := lower_run k rc cons os s
      simp only [lower, run, step, hu]
      refine ⟨i1, ?_, ?_, ?_⟩
      · simpa [rewardedEpochs, epochOuts] using i2
      · intro a; simpa [mintedTo] using i3 a
      · intro a; simpa [allCredits, epochOuts] using i4 a
    | some r =>
      obtain ⟨s', outs⟩ := r
      obtain ⟨cs', es, h1, h2, h3⟩ := update_some k rc cons s s' h ts outs hu
      obtain ⟨r1, _, _⟩ := rewardAll_spec k rc cons es s.store s'.store outs h2
      obtain ⟨i1, i2, i3, i4⟩ := lower_run k rc cons os s'
      simp only [lower, run, step, hu]
      simp only [EpochCursor.run, EpochCursor.step, h1]
      rw [run_credits, ← h3]
      refine ⟨i1, ?_, ?_, ?_⟩
      · simp only [rewardedOf, rewardedOf_credited, i2, rewardedEpochs, epochOuts, List.map_append, r1]
      · intro a; simp only [mintedOf, mintedOf_credited, i3 a, mintedTo]
      · intro a
        simp only [creditedOf, creditedOf_credits, i4 a, allCredits, epochOuts, creditsOf, List.flatMap_append]
        rw [creditedTo_append]
  | .collect a :: os, s => by
    cases hc : collect s.cs a with
    | none =>
      have hs : (step k rc cons s (.collect a)).1 = s := by simp [step, hc]
      obtain ⟨i1, i2, i3, i4⟩ := lower_run k rc cons os s
      simp only [lower, run, hs]
      simp only [EpochCursor.run, EpochCursor.step, hc, step]
      refine ⟨i1, ?_, ?_, ?_⟩
      · simpa [rewardedOf, rewardedEpochs, epochOuts] using i2
      · intro b; simpa [mintedOf, mintedTo] using i3 b
      · intro b; simpa [creditedOf, allCredits, epochOuts] using i4 b
    | some r =>
      obtain ⟨ms, cs'⟩ := r
      have hs : (step k rc cons s (.collect a)).1 = { s with cs := cs' } := by simp [step, hc]
      obtain ⟨i1, i2, i3, i4⟩ := lower_run k rc cons os { s with cs := cs' }
      simp only [lower, run, hs]
      simp only [EpochCursor.run, EpochCursor.step, hc, step]
      refine ⟨i1, ?_, ?_, ?_⟩
      · simpa [rewardedOf, rewardedEpochs, epochOuts] using i2
      · intro b; simp only [mintedOf, mintedTo, i3 b]
      · intro b; simpa [creditedOf, allCredits, epochOuts] using i4 b
  | .mutate st :: os, s => by
    obtain ⟨i1, i2, i3, i4⟩ := lower_run k rc cons os { s with store := st }
    simp only [lower, run, step]
    refine ⟨i1, ?_, ?_, ?_⟩
    · simpa [rewardedEpochs, epochOuts] using i2
    · intro b; simpa [mintedTo] using i3 b
    · intro b; simpa [allCredits, epochOuts] using i4 b
