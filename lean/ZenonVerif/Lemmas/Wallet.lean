import ZenonVerif.Model.Wallet
import ZenonVerif.Lemmas.WalletPath
/-
Helper lemmas for C19 (derivation log, outcome on grammar paths, key store glue) and the toy `Crypto` instance used
to show that the hypotheses of the theorems are satisfiable. Core Lean only.
-/
namespace ZV.Wallet
open ZV

/-! ### hardened indices only -/

def QueryOK (seed : Bytes) (q : Query) : Prop :=
  q = .master seed ∨ ∃ chain key i, q = .child chain key i ∧ two31 ≤ i ∧ i < two32

theorem hardened_index_range (v : Nat) (h : ¬ hardenedIndex v < Gen.FirstHardenedIndex) :
    two31 ≤ hardenedIndex v ∧ hardenedIndex v < two32 := by
  unfold hardenedIndex at *
  refine ⟨?_, Nat.mod_lt _ (by decide)⟩
  have : Gen.FirstHardenedIndex = two31 := by decide
  omega

/-- the in-line step of `deriveSegs` is `key.derive` -/
theorem deriveSegs_step (C : CryptoFns) (k : Key) (i : Nat) :
    derive C k i = if i < Gen.FirstHardenedIndex then .error .noPublicDerivation
      else .ok (ask C (.child k.chain k.key i)) := by
  rw [derive]

theorem deriveSegs_hardened (C : CryptoFns) (seed : Bytes) (segs : List Bytes) :
    ∀ (k : Key) (log : List Query), (∀ q ∈ log, QueryOK seed q) →
      ∀ q ∈ (deriveSegs C segs k log).1, QueryOK seed q := by
  induction segs with
  | nil => intro k log h; simpa [deriveSegs] using h
  | cons seg rest ih =>
    intro k log h
    rw [deriveSegs]
    cases hp : parseUint (parseBits Gen.parseUintArgs_DeriveForPath) (trimRight cQuote seg) with
    | none => simpa using h
    | some v =>
      simp only
      by_cases hlt : hardenedIndex v < Gen.FirstHardenedIndex
      · rw [if_pos hlt]; simpa using h
      · rw [if_neg hlt]
        apply ih
        intro q hq
        rcases List.mem_append.1 hq with hq | hq
        · exact h q hq
        · simp only [List.mem_singleton] at hq
          have hr := hardened_index_range v hlt
          exact Or.inr ⟨k.chain, k.key, _, hq, hr.1, hr.2⟩

theorem deriveForPathLog_hardened (C : CryptoFns) (path seed : Bytes) :
    ∀ q ∈ (deriveForPathLog C path seed).1,
      q = .master seed ∨ ∃ chain key i, q = .child chain key i ∧ two31 ≤ i ∧ i < two32 := by
  unfold deriveForPathLog
  split
  · simp
  · apply deriveSegs_hardened C seed
    intro q hq
    simp only [List.mem_singleton] at hq
    exact Or.inl hq

/-! ### outcome on paths of the grammar -/

theorem parseBits_derive : parseBits Gen.parseUintArgs_DeriveForPath = 32 := by decide

theorem parse_seg (d : Bytes) (h : DigitStr d ∧ decVal d < two32) :
    parseUint (parseBits Gen.parseUintArgs_DeriveForPath) (trimRight cQuote (d ++ [cQuote])) = some (decVal d) := by
  rw [trimRight_quote d h.1.2, parseBits_derive, parseUint_digits 32 d h.1]
  have : decVal d < 2 ^ 32 := by rw [← two32_eq]; exact h.2
  simp [this]

theorem hardenedIndex_lt_iff (v : Nat) (hv : v < two32) : hardenedIndex v < Gen.FirstHardenedIndex ↔ two31 ≤ v := by
  unfold hardenedIndex
  have h1 : Gen.FirstHardenedIndex = two31 := by decide
  have h2 : two32 = 2 * two31 := by decide
  rw [h1, Nat.mod_eq_of_lt hv]
  by_cases hge : two31 ≤ v
  · have : (v + two31) % two32 = v + two31 - two32 := by
      rw [Nat.mod_eq_sub_mod (by omega), Nat.mod_eq_of_lt (by omega)]
    omega
  · have : (v + two31) % two32 = v + two31 := Nat.mod_eq_of_lt (by omega)
    omega

theorem deriveSegs_outcome (C : CryptoFns) (segs : List Bytes) (h : ∀ d ∈ segs, DigitStr d ∧ decVal d < two32) :
    ∀ (k : Key) (log : List Query),
    (if ∀ d ∈ segs, decVal d < two31 then ∃ k', (deriveSegs C (segs.map (· ++ [cQuote])) k log).2 = .ok k'
     else (deriveSegs C (segs.map (· ++ [cQuote])) k log).2 = .error .noPublicDerivation) := by
  induction segs with
  | nil => intro k log; simp [deriveSegs]
  | cons d rest ih =>
    intro k log
    have hd := h d (by simp)
    have hrest : ∀ e ∈ rest, DigitStr e ∧ decVal e < two32 := fun e he => h e (by simp [he])
    rw [List.map_cons, deriveSegs, parse_seg d hd]
    simp only
    by_cases hlt : hardenedIndex (decVal d) < Gen.FirstHardenedIndex
    · have hge := (hardenedIndex_lt_iff _ hd.2).1 hlt
      rw [if_pos hlt]
      have : ¬ ∀ e ∈ d :: rest, decVal e < two31 := by
        intro hall; have := hall d (by simp); omega
      rw [if_neg this]
    · have hsm : decVal d < two31 := by
        have : ¬ two31 ≤ decVal d := fun hh => hlt ((hardenedIndex_lt_iff _ hd.2).2 hh)
        omega
      rw [if_neg hlt]
      have := ih hrest (ask C (.child k.chain k.key (hardenedIndex (decVal d))))
        (log ++ [.child k.chain k.key (hardenedIndex (decVal d))])
      by_cases hall : ∀ e ∈ rest, decVal e < two31
      · rw [if_pos hall] at this
        have hall' : ∀ e ∈ d :: rest, decVal e < two31 := by
          intro e he; rcases List.mem_cons.1 he with rfl | he
          · exact hsm
          · exact hall e he
        rw [if_pos hall']; exact this
      · rw [if_neg hall] at this
        have hall' : ¬ ∀ e ∈ d :: rest, decVal e < two31 := fun hh => hall (fun e he => hh e (by simp [he]))
        rw [if_neg hall']; exact this

theorem isValidPath_pathOf (segs : List Bytes) (hne : segs ≠ []) (h : ∀ d ∈ segs, DigitStr d ∧ decVal d < two32) :
    isValidPath (pathOf segs) = true := (isValidPath_iff _).2 ⟨segs, hne, h, rfl⟩

theorem deriveKey_outcome (C : CryptoFns) (segs : List Bytes) (seed : Bytes) (hne : segs ≠ [])
    (h : ∀ d ∈ segs, DigitStr d ∧ decVal d < two32) :
    (if ∀ d ∈ segs, decVal d < two31 then ∃ k, deriveKey C (pathOf segs) seed = .ok k
     else deriveKey C (pathOf segs) seed = .error .noPublicDerivation) := by
  unfold deriveKey deriveForPathLog
  rw [isValidPath_pathOf segs hne h, segments_pathOf segs (fun d hd => (h d hd).1)]
  simp only [Bool.not_true, Bool.false_eq_true, if_false]
  exact deriveSegs_outcome C segs h _ _

theorem deriveWithIndex_ok_iff (C : CryptoFns) (i : Nat) (seed : Bytes) (hi : i < two32) :
    (∃ kp, deriveWithIndex C i seed = .ok kp) ↔ i < two31 := by
  have hsegs : ∀ d ∈ [[52, 52], [55, 51, 52, 48, 52], decBytes i], DigitStr d ∧ decVal d < two32 := by
    intro d hd
    simp only [List.mem_cons, List.mem_nil_iff, or_false] at hd
    rcases hd with rfl | rfl | rfl
    · exact ⟨⟨by simp, by decide⟩, by decide⟩
    · exact ⟨⟨by simp, by decide⟩, by decide⟩
    · exact ⟨decBytes_digitStr i, by rw [decVal_decBytes]; exact hi⟩
  have hout := deriveKey_outcome C _ seed (by simp) hsegs
  unfold deriveWithIndex deriveForPath
  rw [indexPath_eq]
  have hall : (∀ d ∈ [[52, 52], [55, 51, 52, 48, 52], decBytes i], decVal d < two31) ↔ i < two31 := by
    constructor
    · intro hh; have := hh (decBytes i) (by simp); rwa [decVal_decBytes] at this
    · intro hh d hd
      simp only [List.mem_cons, List.mem_nil_iff, or_false] at hd
      rcases hd with rfl | rfl | rfl
      · decide
      · decide
      · rw [decVal_decBytes]; exact hh
  by_cases hlt : i < two31
  · rw [if_pos (hall.2 hlt)] at hout
    obtain ⟨k, hk⟩ := hout
    exact ⟨fun _ => hlt, fun _ => ⟨toKeyPair C k, by rw [hk]; rfl⟩⟩
  · rw [if_neg (fun hh => hlt (hall.1 hh))] at hout
    constructor
    · intro ⟨kp, hkp⟩; rw [hout] at hkp; cases hkp
    · intro hh; exact absurd hh hlt

/-! ### layout -/

theorem leBytes_inj (w a b : Nat) (ha : a < 256 ^ w) (hb : b < 256 ^ w) (h : leBytes w a = leBytes w b) : a = b := by
  have := congrArg leVal h
  rw [leVal_leBytes, leVal_leBytes, Nat.mod_eq_of_lt ha, Nat.mod_eq_of_lt hb] at this
  exact this

theorem deriveInput_inj (k₁ k₂ : Bytes) (i₁ i₂ : Nat) (h₁ : k₁.length = 32) (h₂ : k₂.length = 32)
    (hi₁ : i₁ < two32) (hi₂ : i₂ < two32) (h : deriveInput k₁ i₁ = deriveInput k₂ i₂) : k₁ = k₂ ∧ i₁ = i₂ := by
  unfold deriveInput at h
  have h' := List.tail_eq_of_cons_eq h
  have hk := List.append_inj h' (by omega)
  refine ⟨hk.1, ?_⟩
  have hb := hk.2
  unfold beBytes at hb
  have := List.reverse_inj.1 hb
  exact leBytes_inj 4 i₁ i₂ (by simpa [two32] using hi₁) (by simpa [two32] using hi₂) this

/-! ### hex text round trip -/

theorem hexVal_hexDigit : ∀ n : Fin 16, hexVal (hexDigit n.val) = some n.val := by decide

theorem ofHexChars_toHexChars : ∀ (b : Bytes), b.WF → ofHexChars (toHexChars b) = some b
  | [], _ => rfl
  | x :: xs, h => by
    have hx : x < 256 := h x (by simp)
    have hxs : Bytes.WF xs := fun y hy => h y (by simp [hy])
    have h1 := hexVal_hexDigit ⟨x / 16, by omega⟩
    have h2 := hexVal_hexDigit ⟨x % 16, by omega⟩
    simp only at h1 h2
    have ih := ofHexChars_toHexChars xs hxs
    unfold toHexChars at ih ⊢
    simp only [List.flatMap_cons, List.cons_append, List.nil_append, ofHexChars, h1, h2, ih]
    simp only [Option.bind_eq_bind, Option.bind_some, Option.pure_def, Option.some.injEq, List.cons.injEq, and_true]
    omega

theorem hexutil_roundtrip (b : Bytes) (h : b.WF) : hexutilDecode (hexutilEncode b) = some b := by
  simp only [hexutilEncode, hexutilDecode]
  exact ofHexChars_toHexChars b h

/-! ### key store glue -/

theorem keyStoreFromEntropy_entropy (C : CryptoFns) (entropy : Bytes) (ks : KeyStore)
    (h : keyStoreFromEntropy C entropy = .ok ks) : ks.entropy = entropy := by
  unfold keyStoreFromEntropy at h
  split at h
  · cases h
  · simp only at h
    split at h
    · cases h
    · cases h; rfl

theorem keyStoreFromEntropy_base (C : CryptoFns) (entropy : Bytes) (ks : KeyStore)
    (h : keyStoreFromEntropy C entropy = .ok ks) (pw salt nonce : Bytes) :
    ∃ kp, deriveWithIndex C 0 ks.seed = .ok kp ∧ (encrypt C ks pw salt nonce).baseAddress = kp.address := by
  unfold keyStoreFromEntropy at h
  split at h
  · cases h
  · rename_i mn _
    simp only at h
    split at h
    · cases h
    · rename_i kp hkp
      cases h
      exact ⟨kp, hkp, rfl⟩

/-! ### a toy instance: the structure `Crypto` is inhabited (laws are consistent) -/

def toyFns : CryptoFns where
  hmac := fun _ _ => List.replicate 64 1
  sha3 := fun _ => List.replicate 32 2
  edPub := fun sk => sk
  edSign := fun sk msg => sk ++ msg
  edVerify := fun pk msg sig => sig == pk ++ msg
  kdf := fun _ pw salt => (pw ++ salt ++ List.replicate 32 0).take 32
  aeadSeal := fun k n ad m => m ++ (k ++ n ++ ad)
  aeadOpen := fun k n ad c =>
    let t := k ++ n ++ ad
    if c.drop (c.length - t.length) == t ∧ t.length ≤ c.length then some (c.take (c.length - t.length)) else none
  mnemonic := fun e => if e.length = 16 ∨ e.length = 20 ∨ e.length = 24 ∨ e.length = 28 ∨ e.length = 32 then some e else none
  seed := fun m => m

def toyCrypto : Crypto where
  toCryptoFns := toyFns
  open_seal := by
    intro k n ad m
    simp [toyFns]
  verify_sign := by intro sk msg; simp [toyFns]
  hmac_len := by intro k m; simp [toyFns]
  sha3_len := by intro m; simp [toyFns]

end ZV.Wallet
