import ZenonVerif.Model.Consensus
/-
Helper lemmas for C05 (core Lean only).
-/
namespace ZV.Consensus
open ZV

/-! ### bytewise order -/

theorem bytesLt_irrefl : ∀ a : Bytes, bytesLt a a = false
  | [] => rfl
  | x :: xs => by simp [bytesLt, bytesLt_irrefl xs]

theorem bytesLt_asymm : ∀ a b : Bytes, bytesLt a b = true → bytesLt b a = false
  | [], [] => by simp [bytesLt]
  | [], _ :: _ => by simp [bytesLt]
  | _ :: _, [] => by simp [bytesLt]
  | x :: xs, y :: ys => by
    unfold bytesLt
    by_cases h1 : x < y
    · have : ¬ y < x := by omega
      simp [h1, this]
    · by_cases h2 : y < x
      · simp [h1, h2]
      · simp only [h1, h2, if_false]
        exact bytesLt_asymm xs ys

theorem bytesLt_tri : ∀ a b : Bytes, bytesLt a b = false → bytesLt b a = false → a = b
  | [], [] => by simp
  | [], _ :: _ => by simp [bytesLt]
  | _ :: _, [] => by simp [bytesLt]
  | x :: xs, y :: ys => by
    unfold bytesLt
    by_cases h1 : x < y
    · simp [h1]
    · by_cases h2 : y < x
      · simp [h1, h2]
      · simp only [h1, h2, if_false]
        intro ha hb
        have : x = y := by omega
        rw [this, bytesLt_tri xs ys ha hb]

theorem bytesLt_trans : ∀ a b c : Bytes, bytesLt a b = true → bytesLt b c = true → bytesLt a c = true
  | [], [], _ => by simp [bytesLt]
  | [], _ :: _, [] => by simp [bytesLt]
  | [], _ :: _, _ :: _ => by simp [bytesLt]
  | _ :: _, [], _ => by simp [bytesLt]
  | _ :: _, _ :: _, [] => by simp [bytesLt]
  | x :: xs, y :: ys, z :: zs => by
    unfold bytesLt
    by_cases h1 : x < y
    · by_cases h2 : y < z
      · have : x < z := by omega
        simp [this]
      · by_cases h3 : z < y
        · simp [h2, h3]
        · have : x < z := by omega
          simp [this]
    · by_cases h1' : y < x
      · simp [h1, h1']
      · have hxy : x = y := by omega
        subst hxy
        simp only [h1, if_false]
        by_cases h2 : x < z
        · simp [h2]
        · by_cases h3 : z < x
          · simp [h2, h3]
          · simp only [h2, h3, if_false]
            exact bytesLt_trans xs ys zs

/-- negation of `bytesLt` is transitive (≤ on a total order) -/
theorem bytesLe_trans (a b c : Bytes) (h1 : bytesLt b a = false) (h2 : bytesLt c b = false) :
    bytesLt c a = false := by
  cases h : bytesLt c a with
  | false => rfl
  | true =>
    -- c < a; b ≤ ... : either a ≤ b so c < b (contradiction) — case split on bytesLt a b
    cases hab : bytesLt a b with
    | true => have := bytesLt_trans c a b h hab; simp [this] at h2
    | false =>
      have := bytesLt_tri a b hab h1
      subst this
      simp [h] at h2

/-! ### the sort key -/

theorem pdLe_iff (a b : PD) :
    pdLe a b = true ↔ b.weight < a.weight ∨ (a.weight = b.weight ∧ bytesLt b.name a.name = false) := by
  unfold pdLe pdLess
  by_cases h : a.weight = b.weight
  · simp [h]
  · simp only [h, if_false]
    simp only [Bool.not_eq_true', decide_eq_false_iff_not, false_and, or_false]
    omega

theorem pdLe_total (a b : PD) : (pdLe a b || pdLe b a) = true := by
  rw [Bool.or_eq_true, pdLe_iff, pdLe_iff]
  by_cases h : a.weight = b.weight
  · cases h1 : bytesLt b.name a.name with
    | false => exact Or.inl (Or.inr ⟨h, rfl⟩)
    | true => exact Or.inr (Or.inr ⟨h.symm, bytesLt_asymm _ _ h1⟩)
  · omega

theorem pdLe_trans (a b c : PD) (h1 : pdLe a b = true) (h2 : pdLe b c = true) : pdLe a c = true := by
  rw [pdLe_iff] at *
  rcases h1 with h1 | ⟨h1, n1⟩ <;> rcases h2 with h2 | ⟨h2, n2⟩
  · left; omega
  · left; omega
  · left; omega
  · right; exact ⟨by omega, bytesLe_trans _ _ _ n1 n2⟩

/-- the only ties of the order are entries with the same weight AND the same name -/
theorem pdLe_antisymm (a b : PD) (h1 : pdLe a b = true) (h2 : pdLe b a = true) :
    a.weight = b.weight ∧ a.name = b.name := by
  rw [pdLe_iff] at *
  rcases h1 with h1 | ⟨h1, n1⟩ <;> rcases h2 with h2 | ⟨h2, n2⟩
  · omega
  · omega
  · omega
  · exact ⟨h1, bytesLt_tri _ _ n2 n1⟩

/-- distinct names in a list: equal names ⇒ same entry -/
theorem eq_of_name_eq {l : List PD} (hn : (l.map PD.name).Nodup) {a b : PD} (ha : a ∈ l) (hb : b ∈ l)
    (h : a.name = b.name) : a = b := by
  induction l with
  | nil => cases ha
  | cons x xs ih =>
    simp only [List.map_cons, List.nodup_cons, List.mem_map, not_exists, not_and] at hn
    rcases List.mem_cons.mp ha with rfl | ha' <;> rcases List.mem_cons.mp hb with rfl | hb'
    · rfl
    · exact absurd h.symm (hn.1 b hb')
    · exact absurd h (hn.1 a ha')
    · exact ih hn.2 ha' hb'

/-! ### the concrete sort is a sort -/

theorem insertPD_perm (x : PD) (l : List PD) : (insertPD x l).Perm (x :: l) := by
  induction l with
  | nil => exact List.Perm.refl _
  | cons y ys ih =>
    unfold insertPD
    split
    · exact List.Perm.refl _
    · exact ((List.Perm.cons y ih).trans (List.Perm.swap x y ys))

theorem insertPD_sorted (x : PD) (l : List PD) (h : l.Pairwise (fun a b => pdLe a b = true)) :
    (insertPD x l).Pairwise (fun a b => pdLe a b = true) := by
  induction l with
  | nil => simp [insertPD]
  | cons y ys ih =>
    unfold insertPD
    have hy := List.pairwise_cons.mp h
    split
    · rename_i hxy
      refine List.pairwise_cons.mpr ⟨?_, h⟩
      intro z hz
      rcases List.mem_cons.mp hz with rfl | hz
      · exact hxy
      · exact pdLe_trans _ _ _ hxy (hy.1 z hz)
    · rename_i hxy
      have hyx : pdLe y x = true := by
        have := pdLe_total x y
        simp only [Bool.or_eq_true] at this
        rcases this with h' | h'
        · exact absurd h' hxy
        · exact h'
      refine List.pairwise_cons.mpr ⟨?_, ih hy.2⟩
      intro z hz
      have : z ∈ x :: ys := (insertPD_perm x ys).subset hz
      rcases List.mem_cons.mp this with rfl | hz
      · exact hyx
      · exact hy.1 z hz

theorem sortPD_isSort : IsSort sortPD := by
  intro l
  induction l with
  | nil => exact ⟨List.Perm.refl _, List.Pairwise.nil⟩
  | cons x xs ih =>
    exact ⟨(insertPD_perm x _).trans (List.Perm.cons x ih.1), insertPD_sorted x _ ih.2⟩

/-- any two sorts agree on permuted inputs with distinct names: sorting by a total order is canonical -/
theorem sort_canonical {s1 s2 : List PD → List PD} (h1 : IsSort s1) (h2 : IsSort s2)
    {l1 l2 : List PD} (hp : l1.Perm l2) (hn : (l1.map PD.name).Nodup) : s1 l1 = s2 l2 := by
  have p1 := (h1 l1).1
  have p2 := (h2 l2).1
  apply List.Perm.eq_of_pairwise (le := fun a b => pdLe a b = true) _ (h1 l1).2 (h2 l2).2
    (p1.trans (hp.trans p2.symm))
  intro a b ha hb hab hba
  have ha' : a ∈ l1 := p1.subset ha
  have hb' : b ∈ l1 := hp.symm.subset (p2.subset hb)
  exact eq_of_name_eq hn ha' hb' (pdLe_antisymm a b hab hba).2

/-! ### `pick` -/

theorem getD_of_lt (g : List PD) (i : Nat) (h : i < g.length) : g.getD i default = g[i] := by
  rw [List.getD_eq_getElem?_getD, List.getElem?_eq_getElem h, Option.getD_some]

theorem pick_eq {g : List PD} {idx : List Nat} {r : List PD} (h : pick g idx = some r) :
    r = idx.map (fun i => g.getD i default) ∧ ∀ i ∈ idx, i < g.length := by
  unfold pick at h
  split at h
  · rename_i hall
    simp only [Option.some.injEq] at h
    refine ⟨h.symm, ?_⟩
    intro i hi
    have := List.all_eq_true.mp hall i hi
    simpa using this
  · cases h

theorem pick_of_lt {g : List PD} {idx : List Nat} (h : ∀ i ∈ idx, i < g.length) :
    pick g idx = some (idx.map (fun i => g.getD i default)) := by
  unfold pick
  rw [if_pos]
  apply List.all_eq_true.mpr
  intro i hi
  simpa using h i hi

theorem pick_length {g : List PD} {idx : List Nat} {r : List PD} (h : pick g idx = some r) :
    r.length = idx.length := by
  rw [(pick_eq h).1, List.length_map]

theorem pick_mem {g : List PD} {idx : List Nat} {r : List PD} (h : pick g idx = some r) :
    ∀ x ∈ r, x ∈ g := by
  obtain ⟨rfl, hlt⟩ := pick_eq h
  intro x hx
  obtain ⟨i, hi, rfl⟩ := List.mem_map.mp hx
  have := hlt i hi
  rw [getD_of_lt _ _ this]
  exact List.getElem_mem _

theorem pick_take {g : List PD} {idx : List Nat} {r : List PD} (h : pick g idx = some r) (k : Nat) :
    pick g (idx.take k) = some (r.take k) := by
  obtain ⟨rfl, hlt⟩ := pick_eq h
  rw [pick_of_lt (fun i hi => hlt i (List.mem_of_mem_take hi)), List.map_take]

theorem pick_drop {g : List PD} {idx : List Nat} {r : List PD} (h : pick g idx = some r) (k : Nat) :
    pick g (idx.drop k) = some (r.drop k) := by
  obtain ⟨rfl, hlt⟩ := pick_eq h
  rw [pick_of_lt (fun i hi => hlt i (List.mem_of_mem_drop hi)), List.map_drop]

theorem map_getD_range (g : List PD) : (List.range g.length).map (fun i => g.getD i default) = g := by
  apply List.ext_getElem
  · simp
  · intro i h1 h2
    simp only [List.getElem_map, List.getElem_range]
    exact getD_of_lt _ _ h2

/-- picking along a permutation of the indices yields a permutation of the list -/
theorem pick_perm {g : List PD} {idx : List Nat} (h : idx.Perm (List.range g.length)) :
    ∃ r, pick g idx = some r ∧ r.Perm g := by
  refine ⟨_, pick_of_lt (fun i hi => List.mem_range.mp (h.subset hi)), ?_⟩
  have := h.map (fun i => g.getD i default)
  rwa [map_getD_range] at this

/-! ### `fillLoop` -/

theorem fillLoop_ok {r : List PD} (hr : r ≠ []) (total : Nat) :
    ∀ (fuel : Nat) (acc : List PD), total ≤ acc.length + fuel →
      ∃ out, fillLoop (some r) total fuel acc = .ok out ∧ total ≤ out.length ∧
        ∀ x ∈ out, x ∈ acc ∨ x ∈ r := by
  intro fuel
  induction fuel with
  | zero =>
    intro acc h
    refine ⟨acc, ?_, by omega, fun x hx => Or.inl hx⟩
    simp only [fillLoop]
    rw [if_neg (by omega)]
  | succ n ih =>
    intro acc h
    simp only [fillLoop]
    by_cases hlt : acc.length < total
    · rw [if_pos hlt]
      have hlen : 0 < r.length := List.length_pos_iff.mpr hr
      obtain ⟨out, h1, h2, h3⟩ := ih (acc ++ r) (by simp only [List.length_append]; omega)
      refine ⟨out, h1, h2, ?_⟩
      intro x hx
      rcases h3 x hx with h' | h'
      · rcases List.mem_append.mp h' with h'' | h''
        · exact Or.inl h''
        · exact Or.inr h''
      · exact Or.inr h'
    · rw [if_neg hlt]
      exact ⟨acc, rfl, by omega, fun x hx => Or.inl hx⟩

/-- whatever the loop returns only contains elements of `acc` and of the round -/
theorem fillLoop_mem (round : Option (List PD)) (total : Nat) :
    ∀ (fuel : Nat) (acc out : List PD), fillLoop round total fuel acc = .ok out →
      ∀ x ∈ out, x ∈ acc ∨ ∃ r, round = some r ∧ x ∈ r := by
  intro fuel
  induction fuel with
  | zero =>
    intro acc out h x hx
    simp only [fillLoop] at h
    split at h
    · cases h
    · cases h; exact Or.inl hx
  | succ n ih =>
    intro acc out h x hx
    simp only [fillLoop] at h
    split at h
    · cases round with
      | none => cases h
      | some r =>
        simp only at h
        rcases ih _ _ h x hx with h' | h'
        · rcases List.mem_append.mp h' with h'' | h''
          · exact Or.inl h''
          · exact Or.inr ⟨r, rfl, h''⟩
        · exact Or.inr h'
    · cases h; exact Or.inl hx

/-! ### structure of the election -/

theorem selectProducers_eq (sort : List PD → List PD) (perm : Int → Nat → List Nat) (n r : Nat)
    (delegs : List PD) (height : Nat) :
    selectProducers sort perm n r delegs height =
      match filterRandomSorted perm n r (sort (filterByWeight sort n delegs).1)
          (sort (filterByWeight sort n delegs).2) (findSeed height) with
      | .ok producers => shuffleOrder perm producers (findSeed height)
      | o => o := rfl

theorem isSort_nil {s : List PD → List PD} (h : IsSort s) : s [] = [] :=
  List.Perm.eq_nil (h []).1

theorem isSort_length {s : List PD → List PD} (h : IsSort s) (l : List PD) : (s l).length = l.length :=
  (h l).1.length_eq

/-- the two sorted groups together are a permutation of the delegations -/
theorem groups_perm {sort : List PD → List PD} (hs : IsSort sort) (n : Nat) (delegs : List PD) :
    (sort (filterByWeight sort n delegs).1 ++ sort (filterByWeight sort n delegs).2).Perm delegs := by
  unfold filterByWeight
  split
  · simp only [isSort_nil hs, List.append_nil]
    exact (hs delegs).1
  · simp only
    have h1 := (hs ((sort delegs).take n)).1
    have h2 := (hs ((sort delegs).drop n)).1
    have := (h1.append h2)
    rw [List.take_append_drop] at this
    exact this.trans (hs delegs).1

theorem groupA_length {sort : List PD → List PD} (hs : IsSort sort) (n : Nat) (delegs : List PD) :
    (sort (filterByWeight sort n delegs).1).length = min n delegs.length := by
  unfold filterByWeight
  split
  · rw [isSort_length hs]; simp only; omega
  · rw [isSort_length hs]; simp only [List.length_take, isSort_length hs]

/-- `shuffleOrder` with a real permutation returns a permutation of its input -/
theorem shuffle_perm {perm : Int → Nat → List Nat} (hp : IsPerm perm) (l : List PD) (seed : Int) :
    ∃ r, shuffleOrder perm l seed = .ok r ∧ r.Perm l := by
  obtain ⟨r, h1, h2⟩ := pick_perm (g := l) (hp seed l.length)
  exact ⟨r, by simp [shuffleOrder, h1], h2⟩

theorem shuffle_mem {perm : Int → Nat → List Nat} {l r : List PD} {seed : Int}
    (h : shuffleOrder perm l seed = .ok r) : ∀ x ∈ r, x ∈ l := by
  unfold shuffleOrder at h
  split at h
  · rename_i r' hr
    cases h
    exact pick_mem hr
  · cases h

/-- the main branch (as many sorted candidates as slots): top picks and promoted picks -/
theorem filterRandomSorted_split {perm : Int → Nat → List Nat} (hp : IsPerm perm) {n r : Nat} (hr : r ≤ n)
    {gA : List PD} (gB : List PD) (hA : gA.length = n) (seed : Int) :
    ∃ f f2 : List PD, f.Perm gA ∧ f2.Perm (gB ++ f.drop (n - r)) ∧
      filterRandomSorted perm n r gA gB seed = .ok (f.take (n - r) ++ f2.take r) := by
  obtain ⟨f, hf, hfp⟩ := pick_perm (g := gA) (hp seed gA.length)
  have hflen : f.length = n := by rw [hfp.length_eq, hA]
  have hidx : (perm seed gA.length).length = n := by rw [← pick_length hf, hflen]
  have hrest : (f.drop (n - r)).take r = f.drop (n - r) := by
    apply List.take_of_length_le
    rw [List.length_drop]; omega
  obtain ⟨f2, hf2, hf2p⟩ := pick_perm (g := gB ++ f.drop (n - r))
    (hp (wrap64 (seed + 1)) (gB ++ f.drop (n - r)).length)
  refine ⟨f, f2, hfp, hf2p, ?_⟩
  unfold filterRandomSorted
  rw [if_neg (by omega), if_neg (by omega)]
  simp only
  rw [if_neg (by omega)]
  rw [pick_take hf, pick_take (pick_drop hf (n - r)) r, hrest]
  simp only
  have hlen2 : (perm (wrap64 (seed + 1)) (gB ++ f.drop (n - r)).length).length = (gB ++ f.drop (n - r)).length := by
    rw [← pick_length hf2, hf2p.length_eq]
  rw [if_neg (by rw [hlen2]; simp only [List.length_append, List.length_drop]; omega)]
  rw [pick_take hf2]

/-- the repeat branch (fewer candidates than slots) -/
theorem filterRandomSorted_repeat {perm : Int → Nat → List Nat} (hp : IsPerm perm) {n r : Nat}
    {gA : List PD} (gB : List PD) (hA : gA.length ≠ n) (hne : gA ≠ []) (seed : Int) :
    ∃ out : List PD, filterRandomSorted perm n r gA gB seed = .ok (out.take n) ∧ n ≤ out.length ∧ ∀ x ∈ out, x ∈ gA := by
  obtain ⟨f, hf, hfp⟩ := pick_perm (g := gA) (hp seed gA.length)
  have hfne : f ≠ [] := by
    intro h; rw [h] at hfp; exact hne (List.Perm.eq_nil hfp.symm)
  obtain ⟨out, h1, h2, h3⟩ := fillLoop_ok hfne n n [] (by simp)
  refine ⟨out, ?_, h2, ?_⟩
  · unfold filterRandomSorted
    rw [if_pos (by omega), hf, h1]
  · intro x hx
    rcases h3 x hx with h | h
    · cases h
    · exact hfp.subset h

/-- whatever `filterRandomSorted` returns consists of candidates -/
theorem filterRandomSorted_mem {perm : Int → Nat → List Nat} {n r : Nat} {gA gB l : List PD} {seed : Int}
    (h : filterRandomSorted perm n r gA gB seed = .ok l) : ∀ x ∈ l, x ∈ gA ∨ x ∈ gB := by
  unfold filterRandomSorted at h
  split at h
  · split at h
    · rename_i out hout
      cases h
      intro x hx
      rcases fillLoop_mem _ _ _ _ _ hout x (List.mem_of_mem_take hx) with h' | ⟨rd, hrd, hx'⟩
      · cases h'
      · exact Or.inl (pick_mem hrd x hx')
    · rename_i hno
      exact absurd h (hno l)
  · split at h
    · cases h
    · simp only at h
      split at h
      · cases h
      · split at h
        · rename_i top rest htop hrest
          split at h
          · cases h
          · split at h
            · rename_i promo hpromo
              cases h
              intro x hx
              rcases List.mem_append.mp hx with hx | hx
              · exact Or.inl (pick_mem htop x hx)
              · rcases List.mem_append.mp (pick_mem hpromo x hx) with hx | hx
                · exact Or.inr hx
                · exact Or.inl (pick_mem hrest x hx)
            · cases h
        · cases h

/-! ### integer conversions in range -/

theorem toInt64_of_lt (n : Nat) (h : n < two63) : toInt64 n = (n : Int) := by
  unfold toInt64
  have : n % two64 = n := Nat.mod_eq_of_lt (by simp only [two63, two64] at *; omega)
  simp only [this]
  rw [if_pos h]

theorem wrap64_of_range (i : Int) (h1 : minDuration ≤ i) (h2 : i ≤ maxDuration) : wrap64 i = i := by
  unfold wrap64 toInt64
  simp only
  by_cases h : (i % two64i).toNat % two64 < two63
  · rw [if_pos h]; simp only [two63, two64, two64i, minDuration, maxDuration] at *; omega
  · rw [if_neg h]; simp only [two63, two64, two64i, minDuration, maxDuration] at *; omega

theorem toUInt64_of_nonneg (i : Int) (h1 : 0 ≤ i) (h2 : i < two64i) : toUInt64 i = i.toNat := by
  unfold toUInt64
  rw [Int.emod_eq_of_lt h1 h2]

theorem timeSub_of_range (t u : Int) (h1 : minDuration ≤ t - u) (h2 : t - u ≤ maxDuration) :
    timeSub t u = t - u := by
  unfold timeSub
  simp only
  rw [if_neg (by omega), if_neg (by omega)]

theorem durSeconds_mul (x : Nat) : durSeconds (nsPerSec * (x : Int)) = (x : Int) := by
  unfold durSeconds
  rw [Int.tdiv_eq_ediv_of_nonneg (by unfold nsPerSec; omega)]
  exact Int.mul_ediv_cancel_left _ (by unfold nsPerSec; omega)

/-! ### schedule -/

/-- slot i of the generated list: starts at `s + B·i`, ends at `s + B·(i+1)`, belongs to `addrs[i]`
    (B = the block time as a wrapped int64 nanosecond Duration) -/
theorem genEvents_getElem? (bt : Int) : ∀ (addrs : List Bytes) (s : Int) (i : Nat),
    (genEvents bt s addrs)[i]? = addrs[i]?.map (fun a =>
      ⟨s + wrap64 (bt * nsPerSec) * i, s + wrap64 (bt * nsPerSec) * (i + 1), a⟩)
  | [], _, _ => by simp [genEvents]
  | a :: as, s, 0 => by simp [genEvents]
  | a :: as, s, i + 1 => by
    simp only [genEvents, List.getElem?_cons_succ]
    rw [genEvents_getElem? bt as _ i]
    congr 1
    funext x
    have e1 : s + wrap64 (bt * nsPerSec) + wrap64 (bt * nsPerSec) * (i : Int)
        = s + wrap64 (bt * nsPerSec) * ((i + 1 : Nat) : Int) := by
      rw [Int.natCast_succ, Int.mul_add, Int.mul_one]; omega
    have e2 : s + wrap64 (bt * nsPerSec) + wrap64 (bt * nsPerSec) * ((i : Int) + 1)
        = s + wrap64 (bt * nsPerSec) * (((i + 1 : Nat) : Int) + 1) := by
      rw [Int.natCast_succ, Int.mul_add, Int.mul_add, Int.mul_add, Int.mul_one]; omega
    rw [e1, e2]

theorem genEvents_length (bt : Int) : ∀ (addrs : List Bytes) (s : Int), (genEvents bt s addrs).length = addrs.length
  | [], _ => rfl
  | _ :: as, s => by simp [genEvents, genEvents_length bt as]

/-- whatever `find? (StartTime == t)` returns is slot i for some i with `t = s + B·i` -/
theorem genEvents_find_sound (bt : Int) (t : Int) : ∀ (addrs : List Bytes) (s : Int) (p : ProducerEvent),
    (genEvents bt s addrs).find? (fun p => p.startTime == t) = some p →
    ∃ i : Nat, addrs[i]? = some p.producer ∧ t = s + wrap64 (bt * nsPerSec) * i
  | [], _, _, h => by simp [genEvents] at h
  | a :: as, s, p, h => by
    simp only [genEvents, List.find?_cons] at h
    split at h
    · rename_i heq
      cases h
      refine ⟨0, by simp, ?_⟩
      have : s = t := by simpa using heq
      simp [this]
    · obtain ⟨i, h1, h2⟩ := genEvents_find_sound bt t as _ p h
      refine ⟨i + 1, by simpa using h1, ?_⟩
      rw [h2, Int.natCast_succ, Int.mul_add, Int.mul_one]; omega

/-- with a positive block time the slot starts are distinct, so the slot starting at `s + B·i` is found -/
theorem genEvents_find_complete (bt : Int) (hB : 0 < wrap64 (bt * nsPerSec)) :
    ∀ (addrs : List Bytes) (s : Int) (i : Nat) (a : Bytes), addrs[i]? = some a →
    (genEvents bt s addrs).find? (fun p => p.startTime == s + wrap64 (bt * nsPerSec) * i) =
      some ⟨s + wrap64 (bt * nsPerSec) * i, s + wrap64 (bt * nsPerSec) * (i + 1), a⟩
  | [], _, _, _, h => by simp at h
  | x :: xs, s, 0, a, h => by
    simp only [List.getElem?_cons_zero, Option.some.injEq] at h
    subst h
    simp [genEvents]
  | x :: xs, s, i + 1, a, h => by
    simp only [List.getElem?_cons_succ] at h
    simp only [genEvents, List.find?_cons]
    have hpos : 0 < wrap64 (bt * nsPerSec) * ((i + 1 : Nat) : Int) :=
      Int.mul_pos hB (by omega)
    have hne : (s == s + wrap64 (bt * nsPerSec) * ((i + 1 : Nat) : Int)) = false := by
      simp only [beq_eq_false_iff_ne, ne_eq]; omega
    rw [hne]
    simp only
    have := genEvents_find_complete bt hB xs (s + wrap64 (bt * nsPerSec)) i a h
    have e1 : s + wrap64 (bt * nsPerSec) + wrap64 (bt * nsPerSec) * (i : Int)
        = s + wrap64 (bt * nsPerSec) * ((i + 1 : Nat) : Int) := by
      rw [Int.natCast_succ, Int.mul_add, Int.mul_one]; omega
    have e2 : s + wrap64 (bt * nsPerSec) + wrap64 (bt * nsPerSec) * ((i : Int) + 1)
        = s + wrap64 (bt * nsPerSec) * (((i + 1 : Nat) : Int) + 1) := by
      rw [Int.natCast_succ, Int.mul_add, Int.mul_add, Int.mul_add, Int.mul_one]; omega
    rw [e1, e2] at this
    exact this

/-! ### verifier checks: what `ok` means for each -/

theorem getContext_ok {s : VState} {m : Momentum} {v : StoreView} (h : getContext s m = .ok v) :
    m.height ≠ 1 ∧ isZeroHash m.prevHash = false ∧ s.storeAt m.prevHash (prevHeight m) = some v := by
  unfold getContext at h
  split at h
  · cases h
  · split at h
    · cases h
    · split at h
      · cases h
      · rename_i hz _ v' hv
        cases h
        exact ⟨by assumption, by simpa using hz, hv⟩

theorem chkChainIdentifier_ok {v : StoreView} {m : Momentum} (h : chkChainIdentifier v m = .ok ()) :
    m.chainId ≠ 0 ∧ m.chainId = v.chainId := by
  unfold chkChainIdentifier at h
  split at h
  · cases h
  · split at h
    · cases h
    · rename_i h1 h2
      exact ⟨h1, by simpa using h2⟩

theorem chkVersion_ok {m : Momentum} (h : chkVersion m = .ok ()) : m.version = 1 := by
  unfold chkVersion at h
  split at h
  · cases h
  · split at h
    · cases h
    · rename_i h2; simpa using h2

theorem chkTimestamp_ok {v : StoreView} {now : Int} {m : Momentum} (h : chkTimestamp v now m = .ok ()) :
    m.tsCache / nsPerSec ≠ 0 ∧ m.tsCache ≤ now + nsPerSec * Gen.MomentumFutureSeconds ∧ v.fTs < m.tsUnix := by
  unfold chkTimestamp at h
  split at h
  · cases h
  · split at h
    · cases h
    · split at h
      · cases h
      · rename_i h1 h2 h3
        exact ⟨h1, by omega, by omega⟩

theorem chkPrevious_ok {v : StoreView} {m : Momentum} (h : chkPrevious v m = .ok ()) :
    m.prevHash = v.fHash ∧ prevHeight m = v.fHeight := by
  unfold chkPrevious at h
  split at h
  · cases h
  · split at h
    · cases h
    · split at h
      · cases h
      · rename_i h3
        simp only [ne_eq, not_or, Decidable.not_not] at h3
        exact h3

theorem chkData_ok {m : Momentum} (h : chkData m = .ok ()) : m.dataLen = 0 := by
  unfold chkData at h
  split at h
  · cases h
  · rename_i h1; simpa using h1

/-- every header the loop accepts has a prefetched block with the same identifier -/
theorem contentLoop_ok {v : StoreView} {blocks : List PBlock} :
    ∀ (content : List Header) (heads : List (Bytes × Bytes × Nat)), contentLoop v blocks heads content = .ok () →
      ∀ h ∈ content, ∃ b, lookupBlock blocks h.hash h.height = some b
  | [], _, _ => by intro h hh; cases hh
  | x :: rest, heads, hok => by
    intro h hh
    simp only [contentLoop] at hok
    split at hok
    · cases hok
    · rename_i b hb
      rcases List.mem_cons.mp hh with rfl | hh'
      · exact ⟨b, hb⟩
      · split at hok
        · exact contentLoop_ok rest _ hok h hh'
        · split at hok
          · cases hok
          · exact contentLoop_ok rest _ hok h hh'

theorem lookupBlock_some {blocks : List PBlock} {hash : Bytes} {height : Nat} {b : PBlock}
    (h : lookupBlock blocks hash height = some b) : b ∈ blocks ∧ b.hash = hash ∧ b.height = height := by
  unfold lookupBlock at h
  have h1 := List.mem_of_find?_eq_some h
  have h2 := List.find?_some h
  simp only [Bool.and_eq_true, beq_iff_eq] at h2
  exact ⟨List.mem_reverse.mp h1, h2.1, h2.2⟩

theorem chkContent_ok {v : StoreView} {m : Momentum} {blocks : List PBlock} (h : chkContent v m blocks = .ok ()) :
    m.content.length ≤ Gen.MaxAccountBlocksInMomentum ∧ distinctIds blocks = m.content.length ∧
    ∀ hd ∈ m.content, ∃ b ∈ blocks, b.hash = hd.hash ∧ b.height = hd.height := by
  unfold chkContent at h
  split at h
  · cases h
  · split at h
    · cases h
    · rename_i h1 h2
      refine ⟨by omega, by simpa using h2, ?_⟩
      intro hd hhd
      obtain ⟨b, hb⟩ := contentLoop_ok _ _ h hd hhd
      obtain ⟨hb1, hb2, hb3⟩ := lookupBlock_some hb
      exact ⟨b, hb1, hb2, hb3⟩

theorem chkChangesHash_ok {m : Momentum} {o : Oracle} (h : chkChangesHash m o = .ok ()) : o.patchHash = m.changesHash := by
  unfold chkChangesHash at h
  split at h
  · cases h
  · rename_i h1; simpa using h1

theorem chkHash_ok {m : Momentum} {o : Oracle} (h : chkHash m o = .ok ()) : o.computedHash = m.hash := by
  unfold chkHash at h
  split at h
  · cases h
  · rename_i h1; simpa using h1

theorem chkSignature_ok {m : Momentum} {o : Oracle} (h : chkSignature m o = .ok ()) :
    m.sigLen ≠ 0 ∧ m.pubKeyLen ≠ 0 ∧ o.sigOk = true := by
  unfold chkSignature at h
  split at h
  · cases h
  · split at h
    · cases h
    · split at h
      · cases h
      · split at h
        · cases h
        · rename_i h1 h2 _ h4
          exact ⟨h1, h2, by simpa using h4⟩

theorem chkProducer_ok {s : VState} {m : Momentum} {o : Oracle} (h : chkProducer s m o = .ok ()) :
    s.expected m.tsCache = .ok o.producer := by
  unfold chkProducer at h
  split at h
  · cases h
  · rename_i exp hexp
    split at h
    · rename_i heq; rw [hexp, heq]
    · cases h

theorem runAll_cons_ok {f : String → Except Reason Unit} {n : String} {ns : List String}
    (h : runAll f (n :: ns) = .ok ()) : f n = .ok () ∧ runAll f ns = .ok () := by
  simp only [runAll] at h
  split at h
  · rename_i h1; exact ⟨h1, h⟩
  · cases h

end ZV.Consensus
