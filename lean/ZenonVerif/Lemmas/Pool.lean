import ZenonVerif.Model.Pool
/-
Helper lemmas for C14: `bytesLt` is a strict total order; cross-multiplication order on (total, base) pairs;
characterisation of `higherPriority`.
-/
namespace ZV

theorem bytesLt_irrefl_x : ∀ a : Bytes, bytesLt a a = false
  | [] => rfl
  | x :: xs => by simp [bytesLt, bytesLt_irrefl_x xs]

theorem bytesLt_asymm_x : ∀ a b : Bytes, bytesLt a b = true → bytesLt b a = false
  | [], [] => by simp [bytesLt]
  | [], _ :: _ => by simp [bytesLt]
  | _ :: _, [] => by simp [bytesLt]
  | x :: xs, y :: ys => by
    intro h
    simp only [bytesLt] at h ⊢
    by_cases h1 : x < y
    · have : ¬ y < x := by omega
      simp [this, h1]
    · by_cases h2 : y < x
      · simp [h1, h2] at h
      · simp only [h1, h2, if_false] at h ⊢
        exact bytesLt_asymm_x xs ys h

theorem bytesLt_trans_x : ∀ a b c : Bytes, bytesLt a b = true → bytesLt b c = true → bytesLt a c = true
  | [], [], _ => by simp [bytesLt]
  | [], _ :: _, [] => by simp [bytesLt]
  | [], _ :: _, _ :: _ => by simp [bytesLt]
  | _ :: _, [], _ => by simp [bytesLt]
  | _ :: _, _ :: _, [] => by simp [bytesLt]
  | x :: xs, y :: ys, z :: zs => by
    intro h1 h2
    simp only [bytesLt] at h1 h2 ⊢
    by_cases hxy : x < y
    · by_cases hyz : y < z
      · have : x < z := by omega
        simp [this]
      · by_cases hzy : z < y
        · simp [hyz, hzy] at h2
        · have : x < z := by omega
          simp [this]
    · by_cases hyx : y < x
      · simp [hxy, hyx] at h1
      · simp only [hxy, hyx, if_false] at h1
        have hxy' : x = y := by omega
        subst hxy'
        by_cases hxz : x < z
        · simp [hxz]
        · by_cases hzx : z < x
          · simp [hxz, hzx] at h2
          · simp only [hxz, hzx, if_false] at h2 ⊢
            exact bytesLt_trans_x xs ys zs h1 h2

theorem bytesLt_total_x : ∀ a b : Bytes, a ≠ b → bytesLt a b = true ∨ bytesLt b a = true
  | [], [] => by simp
  | [], _ :: _ => by simp [bytesLt]
  | _ :: _, [] => by simp [bytesLt]
  | x :: xs, y :: ys => by
    intro h
    simp only [bytesLt]
    by_cases hxy : x < y
    · simp [hxy]
    · by_cases hyx : y < x
      · simp [hyx]
      · simp only [hxy, hyx, if_false]
        have : x = y := by omega
        subst this
        exact bytesLt_total_x xs ys (fun e => h (by rw [e]))

namespace Pool

/-- left product of `higherPriority a b` as computed in uint64 -/
def prodL (a b : Blk) : Nat := (a.total * b.base) % two64

theorem hp_ok_iff (a b : Blk) :
    higherPriority a b = .ok ↔
      prodL b a < prodL a b ∨ (prodL a b = prodL b a ∧ bytesLt a.hash b.hash = true) := by
  unfold higherPriority prodL
  simp only
  by_cases h1 : a.total * b.base % two64 < b.total * a.base % two64
  · simp only [h1, if_true]
    constructor
    · intro h; cases h
    · intro h; omega
  · simp only [h1, if_false]
    by_cases h2 : a.total * b.base % two64 = b.total * a.base % two64
    · cases hb : bytesLt a.hash b.hash <;> simp [h2]
    · have : b.total * a.base % two64 < a.total * b.base % two64 := by omega
      simp [h2, this]

theorem hp_ratio_iff (a b : Blk) : higherPriority a b = .ratioWorse ↔ prodL a b < prodL b a := by
  unfold higherPriority prodL
  simp only
  by_cases h1 : a.total * b.base % two64 < b.total * a.base % two64
  · simp [h1]
  · simp only [h1, if_false, iff_false]
    split <;> simp

/-- order on (total, base) pairs by cross-multiplication over unbounded integers: `geR a b` = ratio a ≥ ratio b -/
def geR (a b : Blk) : Prop := b.total * a.base ≤ a.total * b.base

instance (a b : Blk) : Decidable (geR a b) := by unfold geR; infer_instance

/-- not both plasma fields zero -/
def NZ (a : Blk) : Prop := a.total ≠ 0 ∨ a.base ≠ 0

instance (a : Blk) : Decidable (NZ a) := by unfold NZ; infer_instance

theorem geR_total (a b : Blk) : geR a b ∨ geR b a := by unfold geR; omega

/-- transitivity of the cross-multiplication order needs the middle pair to be different from (0,0) -/
theorem geR_trans (a b c : Blk) (hb : NZ b) (h1 : geR a b) (h2 : geR b c) : geR a c := by
  unfold geR at *
  by_cases hb0 : b.base = 0
  · have ht : b.total ≠ 0 := by
      rcases hb with h | h
      · exact h
      · exact absurd hb0 h
    rw [hb0] at h1 h2
    simp only [Nat.mul_zero, Nat.le_zero_eq] at h1
    have : a.base = 0 := by
      rcases Nat.mul_eq_zero.mp h1 with h | h
      · exact absurd h ht
      · exact h
    rw [this]; simp
  · have hpos : 0 < b.base := Nat.pos_of_ne_zero hb0
    apply Nat.le_of_mul_le_mul_right _ hpos
    calc c.total * a.base * b.base = (c.total * b.base) * a.base := by ac_rfl
      _ ≤ (b.total * c.base) * a.base := Nat.mul_le_mul_right _ h2
      _ = (b.total * a.base) * c.base := by ac_rfl
      _ ≤ (a.total * b.base) * c.base := Nat.mul_le_mul_right _ h1
      _ = a.total * c.base * b.base := by ac_rfl

/-- plasma fields small enough that the uint64 products are the true products -/
def Small (a : Blk) : Prop := a.total < two32 ∧ a.base < two32

instance (a : Blk) : Decidable (Small a) := by unfold Small; infer_instance

theorem prodL_small (a b : Blk) (ha : Small a) (hb : Small b) : prodL a b = a.total * b.base := by
  unfold prodL
  apply Nat.mod_eq_of_lt
  have h1 : a.total * b.base ≤ (two32 - 1) * (two32 - 1) :=
    Nat.mul_le_mul (by have := ha.1; omega) (by have := hb.2; omega)
  have : (two32 - 1) * (two32 - 1) < two64 := by decide
  omega

/-- without wrap-around `higherPriority a b` succeeds iff a's ratio is strictly higher, or the ratios are equal
    and a's hash is smaller -/
theorem hp_ok_small (a b : Blk) (ha : Small a) (hb : Small b) :
    higherPriority a b = .ok ↔ ¬ geR b a ∨ (geR a b ∧ geR b a ∧ bytesLt a.hash b.hash = true) := by
  rw [hp_ok_iff, prodL_small a b ha hb, prodL_small b a hb ha]
  unfold geR
  constructor
  · rintro (h | ⟨h1, h2⟩)
    · left; omega
    · right; exact ⟨by omega, by omega, h2⟩
  · rintro (h | ⟨h1, h2, h3⟩)
    · left; omega
    · right; exact ⟨by omega, h3⟩

/-- the plasma values an accepted block can carry (vm.enoughPlasma / GetBasePlasmaForAccountBlock):
    TotalPlasma ≤ MaxPlasmaForAccountBlock, BasePlasma ≤ base + 68·MaxDataLength or an embedded method's cost -/
def Bounded (a : Blk) : Prop :=
  a.total ≤ Gen.MaxPlasmaForAccountBlock ∧
  a.base ≤ max (Gen.AccountBlockBasePlasma + Gen.ABByteDataPlasma * Gen.MaxDataLength)
               (max Gen.PT_EmbeddedSimple (max Gen.PT_EmbeddedWWithdraw Gen.PT_EmbeddedWDoubleWithdraw))

instance (a : Blk) : Decidable (Bounded a) := by unfold Bounded; infer_instance

/-- the competitors for one height are all of one kind: all with some plasma, or all without any -/
def Uniform (l : List Blk) : Prop := (∀ x ∈ l, NZ x) ∨ (∀ x ∈ l, ¬ NZ x)

end Pool
end ZV
