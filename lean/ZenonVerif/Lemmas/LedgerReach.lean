import ZenonVerif.Lemmas.LedgerCons
/-
Every accepted step preserves the invariants; lifting to reachable states.
-/
namespace ZV.Ledger

/-- the confirmed sends an event adds -/
def Ev.newSends : Ev → List Send
  | .usend src dst tok amt h call => [⟨h, src, dst, tok, amt, call⟩]
  | .urecv _ _ => []
  | .crecv c _ _ ds => ds.map (mkSend c)

/-- the receive marker an event adds -/
def Ev.markers : Ev → List (Addr × Hash)
  | .usend .. => []
  | .urecv a h => [(a, h)]
  | .crecv c h _ _ => [(c, h)]

theorem Fresh.descs {s : State} {c : Addr} {h : Hash} {st : Nat} {ds : List Desc}
    (hf : Fresh s (.crecv c h st ds)) : FreshDescs s ds := hf

theorem Fresh.usend {s : State} {src dst : Addr} {tok : Tok} {amt : Nat} {h : Hash} {call : TokCall}
    (hf : Fresh s (.usend src dst tok amt h call)) : h ∉ s.sends.map (·.hash) := hf.2 h (by simp [Ev.newHashes])

/-- what a step leaves alone, the sends and the marker it adds -/
theorem step_frame {s s' : State} {e : Ev} (hok : step s e = .ok s') :
    s'.gate = s.gate ∧ s'.sends = s.sends ++ e.newSends ∧ s'.recv = e.markers ++ s.recv := by
  cases e with
  | usend src dst tok amt h call =>
    obtain ⟨_, h1⟩ := usend_ok hok
    obtain ⟨_, _, rfl⟩ := applySend_ok h1
    exact ⟨rfl, rfl, rfl⟩
  | urecv a h =>
    obtain ⟨_, snd, _, rfl⟩ := urecv_ok hok
    exact ⟨rfl, by simp [Ev.newSends, recvCore, State.credit], rfl⟩
  | crecv c h st ds =>
    cases crecv_cases hok with
    | plain nxt snd _ _ _ _ _ _ _ hds =>
      obtain ⟨r1, _, r3, r4⟩ := applyDescs_frame hds
      exact ⟨r3, r4, r1⟩
    | token nxt snd out _ _ _ _ _ _ _ _ hds =>
      obtain ⟨r1, _, r3, r4⟩ := applyDescs_frame hds
      exact ⟨r3, r4, r1⟩

theorem step_wf {s s' : State} {e : Ev} (hw : WF s) (hf : Fresh s e) (hok : step s e = .ok s') : WF s' := by
  cases e with
  | usend src dst tok amt h call =>
    obtain ⟨_, h1⟩ := usend_ok hok
    exact hw.applySend hf.usend h1
  | urecv a h =>
    obtain ⟨_, snd, hc, rfl⟩ := urecv_ok hok
    exact hw.recvCore hc
  | crecv c h st ds =>
    cases crecv_cases hok with
    | plain nxt snd _ _ hchk _ _ _ _ hds =>
      exact (hw.recvCore hchk).descs (hf.descs.of_frame rfl) hds
    | token nxt snd out _ _ hchk _ _ hm _ _ hds =>
      have hw1 := hw.recvCore hchk
      have hw2 : WF (tokApply (recvCore s c h snd) c out) := hw1.tokApply c hm
      exact hw2.descs (hf.descs.of_frame rfl) hds

theorem step_conserved {s s' : State} {e : Ev} (hg : s.gate = true) (hw : WF s) (hc : Conserved s)
    (hf : Fresh s e) (hok : step s e = .ok s') : Conserved s' := by
  cases e with
  | usend src dst tok amt h call =>
    obtain ⟨_, h1⟩ := usend_ok hok
    obtain ⟨_, _, he⟩ := applySend_ok h1
    exact hc.of_total (by rw [he]; rfl) (total_applySend hw hf.usend h1)
  | urecv a h =>
    obtain ⟨_, snd, hchk, rfl⟩ := urecv_ok hok
    exact hc.of_total rfl (total_recvCore hw hg hchk)
  | crecv c h st ds =>
    cases crecv_cases hok with
    | plain nxt snd _ _ hchk _ _ _ _ hds =>
      have hw1 := hw.recvCore hchk
      have hc1 : Conserved (recvCore s c h snd) := hc.of_total rfl (total_recvCore hw hg hchk)
      exact hc1.of_total (applyDescs_frame hds).2.1 (total_applyDescs hw1 (hf.descs.of_frame rfl) hds)
    | token nxt snd out _ _ hchk _ _ hm _ hburn hds =>
      have hw1 := hw.recvCore hchk
      have hc1 : Conserved (recvCore s c h snd) := hc.of_total rfl (total_recvCore hw hg hchk)
      have hw2 : WF (tokApply (recvCore s c h snd) c out) := hw1.tokApply c hm
      have hc2 : Conserved (tokApply (recvCore s c h snd) c out) := hc1.tokStep c hm hburn
      exact hc2.of_total (applyDescs_frame hds).2.1 (total_applyDescs hw2 (hf.descs.of_frame rfl) hds)

/-- token storage changes only in a status-1 receive of the token contract -/
theorem step_toks {s s' : State} {e : Ev} (hok : step s e = .ok s')
    (hne : ∀ h ds, e ≠ .crecv tokenContract h 1 ds) : s'.toks = s.toks := by
  cases e with
  | usend src dst tok amt h call =>
    obtain ⟨_, h1⟩ := usend_ok hok
    obtain ⟨_, _, rfl⟩ := applySend_ok h1
    rfl
  | urecv a h =>
    obtain ⟨_, snd, _, rfl⟩ := urecv_ok hok
    rfl
  | crecv c h st ds =>
    cases crecv_cases hok with
    | plain nxt snd _ _ _ _ _ _ _ hds => exact (applyDescs_frame hds).2.1
    | token nxt snd out _ _ _ hc hst _ _ _ _ => subst hc; subst hst; exact absurd rfl (hne h ds)

theorem step_supplyLeMax {s s' : State} {e : Ev} (hs : SupplyLeMax s) (hcalls : CallsOk s)
    (hok : step s e = .ok s') : SupplyLeMax s' := by
  cases e with
  | usend src dst tok amt h call =>
    rw [SupplyLeMax, step_toks hok (by intro _ _ h; cases h)]; exact hs
  | urecv a h =>
    rw [SupplyLeMax, step_toks hok (by intro _ _ h; cases h)]; exact hs
  | crecv c h st ds =>
    cases crecv_cases hok with
    | plain nxt snd _ _ _ _ _ _ _ hds => rw [SupplyLeMax, (applyDescs_frame hds).2.1]; exact hs
    | token nxt snd out _ _ hchk _ _ hm _ _ hds =>
      rw [SupplyLeMax, (applyDescs_frame hds).2.1]
      obtain ⟨hfind, _, _⟩ := checkFrom_ok.1 hchk
      exact tokenMethod_supply_le_max hs (hcalls snd (findSend_some hfind).1) hm

theorem Ev.newSends_calls (e : Ev) : e.newSends.map (·.call) = e.newCalls := by
  cases e <;> simp [Ev.newSends, Ev.newCalls, mkSend]

theorem Ev.newSends_hashes (e : Ev) : e.newSends.map (·.hash) = e.newHashes := by
  cases e <;> simp [Ev.newSends, Ev.newHashes, mkSend]

theorem step_callsOk {s s' : State} {e : Ev} (hcalls : CallsOk s) (ha : ∀ c ∈ e.newCalls, CallOk c)
    (hok : step s e = .ok s') : CallsOk s' := by
  intro x hx
  rw [(step_frame hok).2.1] at hx
  rcases List.mem_append.1 hx with h1 | h1
  · exact hcalls x h1
  · apply ha
    rw [← Ev.newSends_calls]
    exact List.mem_map.2 ⟨x, h1, rfl⟩

/-! ### reachable states -/

/-- the full invariant carried along a history -/
structure Inv (s : State) : Prop where
  wf : WF s
  conserved : Conserved s
  supplyLeMax : SupplyLeMax s
  callsOk : CallsOk s

theorem step_inv {s s' : State} {e : Ev} (hg : s.gate = true) (hi : Inv s) (ha : Admissible s e)
    (hok : step s e = .ok s') : Inv s' :=
  ⟨step_wf hi.wf ha.1 hok, step_conserved hg hi.wf hi.conserved ha.1 hok,
   step_supplyLeMax hi.supplyLeMax hi.callsOk hok, step_callsOk hi.callsOk ha.2 hok⟩

theorem Reach.gate {s0 s : State} (hr : Reach s0 s) : s.gate = s0.gate := by
  induction hr with
  | refl => rfl
  | step e _ _ hok ih => rw [(step_frame hok).1, ih]

theorem Reach.inv {s0 s : State} (hg : s0.gate = true) (hi : Inv s0) (hr : Reach s0 s) : Inv s := by
  induction hr with
  | refl => exact hi
  | step e hr' ha hok ih => exact step_inv (hr'.gate.trans hg) ih ha hok

/-- well-formedness alone does not need the gate -/
theorem Reach.wf {s0 s : State} (hw : WF s0) (hr : Reach s0 s) : WF s := by
  induction hr with
  | refl => exact hw
  | step e _ ha hok ih => exact step_wf ih ha.1 hok

theorem Reach.trans {s0 s1 s2 : State} (h1 : Reach s0 s1) (h2 : Reach s1 s2) : Reach s0 s2 := by
  induction h2 with
  | refl => exact h1
  | step e _ ha hok ih => exact .step e ih ha hok

theorem inv_init (g : Bool) : Inv (State.init g) := by
  refine ⟨wf_init g, ?_, ?_, ?_⟩
  · intro t _; simp [State.init, supplyOf, supplyOfL, getTok, sumBal, sumBalL, inflightSum, State.unreceived]
  · intro t i h; simp [State.init, getTok] at h
  · intro x hx; simp [State.init] at hx

theorem Reach.conserved {s0 s : State} (hg : s0.gate = true) (hw : WF s0) (hc : Conserved s0) (hr : Reach s0 s) :
    WF s ∧ Conserved s := by
  induction hr with
  | refl => exact ⟨hw, hc⟩
  | step e hr' ha hok ih =>
    exact ⟨step_wf ih.1 ha.1 hok, step_conserved (hr'.gate.trans hg) ih.1 ih.2 ha.1 hok⟩

theorem Reach.supplyLeMax {s0 s : State} (hs : SupplyLeMax s0) (hcalls : CallsOk s0) (hr : Reach s0 s) :
    SupplyLeMax s ∧ CallsOk s := by
  induction hr with
  | refl => exact ⟨hs, hcalls⟩
  | step e _ ha hok ih => exact ⟨step_supplyLeMax ih.1 ih.2 hok, step_callsOk ih.2 ha.2 hok⟩

/-- Σ balances + Σ in flight is unchanged by every step that is not a status-1 receive of the token contract -/
theorem step_total {s s' : State} {e : Ev} (hg : s.gate = true) (hw : WF s) (hf : Fresh s e)
    (hok : step s e = .ok s') (hne : ∀ h ds, e ≠ .crecv tokenContract h 1 ds) (t : Tok) : total s' t = total s t := by
  cases e with
  | usend src dst tok amt h call =>
    obtain ⟨_, h1⟩ := usend_ok hok
    exact total_applySend hw hf.usend h1 t
  | urecv a h =>
    obtain ⟨_, snd, hchk, rfl⟩ := urecv_ok hok
    exact total_recvCore hw hg hchk t
  | crecv c h st ds =>
    cases crecv_cases hok with
    | plain nxt snd _ _ hchk _ _ _ _ hds =>
      rw [total_applyDescs (hw.recvCore hchk) (hf.descs.of_frame rfl) hds t, total_recvCore hw hg hchk t]
    | token nxt snd out _ _ _ hc hst _ _ _ _ => subst hc; subst hst; exact absurd rfl (hne h ds)

/-! ### no truncated subtraction truncates -/

/-- every descendant of the list is debited from a balance that covers it (the state `sm` is the one the debit is applied to) -/
def GuardedDescs (base : State) (c : Addr) (ds : List Desc) : Prop :=
  ∀ pre d post, ds = pre ++ d :: post → ∃ sm, applyDescs base c pre = .ok sm ∧ d.amt ≤ getBal sm.bal c d.tok

theorem guardedDescs_of_ok {c : Addr} : ∀ {ds : List Desc} {s s' : State}, applyDescs s c ds = .ok s' →
    GuardedDescs s c ds
  | [], s, s', _ => by
    intro pre d post he
    exact absurd he (by simp)
  | d0 :: ds, s, s', hok => by
    obtain ⟨s1, h1, h2⟩ := applyDescs_cons_ok hok
    intro pre d post he
    cases pre with
    | nil =>
      simp only [List.nil_append, List.cons.injEq] at he
      obtain ⟨rfl, _⟩ := he
      exact ⟨s, rfl, (applySend_ok h1).2.1⟩
    | cons p pre' =>
      simp only [List.cons_append, List.cons.injEq] at he
      obtain ⟨rfl, he'⟩ := he
      obtain ⟨sm, hsm, hle⟩ := guardedDescs_of_ok h2 pre' d post he'
      exact ⟨sm, by rw [applyDescs_cons_of h1]; exact hsm, hle⟩

/-- the debits of an accepted step, each with the balance it is applied to -/
def NoUnderflow (s : State) : Ev → Prop
  | .usend src _ tok amt _ _ => amt ≤ getBal s.bal src tok
  | .urecv _ _ => True
  | .crecv c h _ ds => ∃ snd, checkFrom s c h = .ok snd ∧
      (GuardedDescs (recvCore s c h snd) c ds ∨
       ∃ out, tokenMethod s.toks snd (newTokOf ds) = some out ∧
         out.burn ≤ getBal (tokMint (recvCore s c h snd) c out).bal c out.mintTok ∧
         GuardedDescs (tokApply (recvCore s c h snd) c out) c ds)

theorem step_noUnderflow {s s' : State} {e : Ev} (hok : step s e = .ok s') : NoUnderflow s e := by
  cases e with
  | usend src dst tok amt h call =>
    obtain ⟨_, h1⟩ := usend_ok hok
    exact (applySend_ok h1).2.1
  | urecv a h => trivial
  | crecv c h st ds =>
    cases crecv_cases hok with
    | plain nxt snd _ _ hchk _ _ _ _ hds => exact ⟨snd, hchk, Or.inl (guardedDescs_of_ok hds)⟩
    | token nxt snd out _ _ hchk _ _ hm _ hburn hds =>
      exact ⟨snd, hchk, Or.inr ⟨out, hm, hburn, guardedDescs_of_ok hds⟩⟩

/-- the amount of any receivable send is within the recorded supply of its token (so `supply − amount` in Burn is exact) -/
theorem receivable_le_supply {s : State} (hg : s.gate = true) (hw : WF s) (hc : Conserved s)
    {a : Addr} {h : Hash} {snd : Send} (hchk : checkFrom s a h = .ok snd) : snd.amt ≤ supplyOf s snd.tok := by
  by_cases hz : snd.tok = zeroTok
  · obtain ⟨hfind, _, _⟩ := checkFrom_ok.1 hchk
    rw [hw.zeroAmt snd (findSend_some hfind).1 hz]; exact Nat.zero_le _
  · have h1 := inflight_recvCore hw hg hchk snd.tok
    have h2 := hc _ hz
    simp only [if_true] at h1
    omega

/-! ### balance of one account across a descendant list -/

theorem getBal_pushSend (s : State) (x : Send) (a : Addr) (t : Tok) (hle : x.amt ≤ getBal s.bal x.src x.tok) :
    getBal (pushSend s x).bal a t + (if (x.src, x.tok) = (a, t) then x.amt else 0) = getBal s.bal a t :=
  getBal_debit s x.src x.tok x.amt a t hle

theorem getBal_applyDescs {c : Addr} : ∀ {ds : List Desc} {s s' : State}, applyDescs s c ds = .ok s' →
    ∀ a t, getBal s'.bal a t + (if c = a then descSum ds t else 0) = getBal s.bal a t
  | [], s, s', hok, a, t => by
    simp only [applyDescs] at hok; cases hok; simp [descSum]
  | d :: ds, s, s', hok, a, t => by
    obtain ⟨s1, h1, h2⟩ := applyDescs_cons_ok hok
    obtain ⟨_, hle, he⟩ := applySend_ok h1
    have ih := getBal_applyDescs h2 a t
    have h3 := getBal_pushSend s ⟨d.hash, c, d.dst, d.tok, d.amt, d.call⟩ a t hle
    rw [← he] at h3
    simp only [descSum, List.map_cons, List.sum_cons] at ih ⊢
    by_cases hca : c = a
    · subst hca
      simp only [if_true] at ih ⊢
      by_cases hdt : d.tok = t
      · simp only [hdt, if_true] at h3 ⊢; omega
      · have : ¬ (c, d.tok) = (c, t) := by intro h; cases h; exact hdt rfl
        simp only [this, hdt, if_false] at h3 ⊢; omega
    · have : ¬ (c, d.tok) = (a, t) := by intro h; cases h; exact hca rfl
      simp only [hca, this, if_false] at ih h3 ⊢; omega

theorem descSum_refund {ds : List Desc} {snd : Send} (h : descShape ds = refundOf snd) (t : Tok) :
    descSum ds t = if snd.tok = t then snd.amt else 0 := by
  unfold refundOf at h
  split at h
  · cases ds with
    | nil => simp [descShape] at h
    | cons d r =>
      cases r with
      | nil =>
        simp only [descShape, List.map_cons, List.map_nil, List.cons.injEq, Prod.mk.injEq, and_true] at h
        obtain ⟨_, h2, h3⟩ := h
        simp [descSum, h2, h3]
      | cons d2 r2 => simp [descShape] at h
  · rename_i hz
    have : snd.amt = 0 := by omega
    cases ds with
    | nil => simp [descSum, this]
    | cons d r => simp [descShape] at h

end ZV.Ledger
