import ZenonVerif.Lemmas.Abi
/-
Helper lemmas for C09 `unpack_pack`: decoding the canonical encoding (Arguments.Pack, which every ValidateSendBlock
re-packs the call data with) returns the encoded values.
-/
namespace ZV.Abi
open ZV

/-! ## big-endian words -/

theorem leBytes_take : ∀ (w k n : Nat), k ≤ w → (leBytes w n).take k = leBytes k n := by
  intro w
  induction w with
  | zero => intro k n hk; have : k = 0 := by omega
            subst this; rfl
  | succ w ih =>
    intro k n hk
    cases k with
    | zero => rfl
    | succ k =>
      simp only [leBytes, List.take_succ_cons]
      rw [ih k (n / 256) (by omega)]

theorem beBytes_length (w n : Nat) : (beBytes w n).length = w := by
  unfold beBytes; rw [List.length_reverse, leBytes_length]

theorem beBytes_drop (k n : Nat) (hk : k ≤ 32) : (beBytes 32 n).drop (32 - k) = beBytes k n := by
  unfold beBytes
  rw [List.drop_reverse, leBytes_length]
  have : 32 - (32 - k) = k := by omega
  rw [this, leBytes_take 32 k n hk]

theorem beVal_beBytes (w n : Nat) : beVal (beBytes w n) = n % 256 ^ w := by
  unfold beVal beBytes; rw [List.reverse_reverse, leVal_leBytes]

theorem beBytes_last (n : Nat) : (beBytes 32 n).getD 31 0 = n % 256 := by
  have h := beBytes_drop 1 n (by omega)
  have hl := beBytes_length 32 n
  have h1 : beBytes 1 n = [n % 256] := rfl
  rw [h1] at h
  have : (beBytes 32 n).drop 31 = [n % 256] := h
  rw [List.getD_eq_getElem?_getD]
  have h2 : (beBytes 32 n)[31]? = ((beBytes 32 n).drop 31)[0]? := by
    rw [List.getElem?_drop]
  rw [h2, this]; rfl

theorem packNum_nat (n : Nat) (h : n < two256) : packNum (n : Int) = beBytes 32 n := by
  unfold packNum
  have : ((n : Int) % (two256 : Int)).toNat = n := by
    have : ((n : Int) % (two256 : Int)) = (n : Int) := Int.emod_eq_of_lt (by omega) (by exact_mod_cast h)
    rw [this]; rfl
  rw [this]

theorem packNum_length (n : Int) : (packNum n).length = 32 := by
  unfold packNum; exact beBytes_length 32 _

/-! ## reading a static word back -/

/-- the part of `toGoType` after `returnOutput = output[index:index+32]` for the static elementary types -/
def readWord : Ty → Bytes → Res Val
  | .uint bits, w => readInteger false bits w
  | .int bits, w => readInteger true bits w
  | .bool, w => readBool w
  | .address, w => do
      let a ← goSlice w (wordSize - Gen.abiAddressSize) wordSize
      pure (.bytes a)
  | .tokenStandard, w => do
      let a ← goSlice w (wordSize - Gen.abiTokenStandardSize) wordSize
      pure (.bytes a)
  | .hash, w => do
      let a ← goSlice w (wordSize - Gen.abiHashSize) wordSize
      if a.length = Gen.abiHashSize then pure (.bytes a) else .err
  | .fixedBytes n, w => readFixedBytes n w
  | _, _ => .err

def Ty.isStaticElem : Ty → Bool
  | .uint _ | .int _ | .bool | .address | .tokenStandard | .hash | .fixedBytes _ => true
  | _ => false

/-- the 32 bytes at `idx` of `A ++ w ++ B` with `|A| = idx` -/
theorem goSlice_window (A w B : Bytes) (hw : w.length = 32) :
    goSlice (A ++ w ++ B) (A.length : Int) ((A.length : Int) + 32) = .ok w := by
  rw [goSlice_ok (by omega) (by omega) (by simp [List.length_append]; omega)]
  congr 1
  have h1 : ((A.length : Int) + 32).toNat - ((A.length : Int)).toNat = 32 := by omega
  have h2 : ((A.length : Int)).toNat = A.length := by omega
  rw [h1, h2, List.append_assoc, List.drop_left' rfl, List.take_left' hw]

theorem toGoType_static (t : Ty) (ht : t.isStaticElem = true) (A w B : Bytes) (hw : w.length = 32)
    (hb : (A.length : Int) ≤ idxBound) :
    toGoType t (A.length : Int) (A ++ w ++ B) = readWord t w := by
  have hidx : iadd (A.length : Int) wordSize = (A.length : Int) + 32 := iadd_index (by omega) hb
  have hchk : ¬ ((A.length : Int) + 32 > ((A ++ w ++ B).length : Int)) := by
    simp [List.length_append]; omega
  cases t <;> simp only [Ty.isStaticElem] at ht <;> first
    | (exact absurd ht (by decide))
    | (unfold toGoType; rw [hidx, if_neg hchk]; simp only [goSlice_window A w B hw, Res.bind_ok]; rfl)

/-! ## integers -/

theorem readInteger_u8 (n : Nat) (h : n < 256) : readInteger false 8 (beBytes 32 n) = .ok (.num n) := by
  unfold readInteger
  simp only [if_true]
  have hl : ((beBytes 32 n).length : Int) = 32 := by rw [beBytes_length]; rfl
  have hi : isub ((beBytes 32 n).length : Int) 1 = 31 := by rw [hl]; decide
  rw [hi]
  unfold goIndex
  rw [if_pos (by rw [hl]; omega)]
  simp only [Res.bind_ok, Res.pure_eq]
  have : (31 : Int).toNat = 31 := rfl
  rw [this, beBytes_last, Nat.mod_eq_of_lt h]
  rfl

/-- machine widths 16/32/64: the low `bits/8` bytes -/
theorem readInteger_low (sg : Bool) (bits : Nat) (hb : bits = 16 ∨ bits = 32 ∨ bits = 64) (n : Nat) :
    readInteger sg bits (beBytes 32 n) =
      .ok (.num (if sg then signed bits (n % 256 ^ (bits / 8)) else ((n % 256 ^ (bits / 8) : Nat) : Int))) := by
  unfold readInteger
  have h8 : ¬ bits = 8 := by omega
  rw [if_neg h8, if_pos hb]
  have hk : bits / 8 ≤ 32 ∧ 1 ≤ bits / 8 := by omega
  have hl : ((beBytes 32 n).length : Int) = 32 := by rw [beBytes_length]; rfl
  have hlo : isub ((beBytes 32 n).length : Int) ((bits / 8 : Nat) : Int) = 32 - ((bits / 8 : Nat) : Int) := by
    rw [hl]; apply isub_eq <;> (unfold i63; omega)
  unfold goSliceFrom
  rw [hlo, goSlice_ok (by omega) (by omega) (by rw [hl]; omega)]
  simp only [Res.bind_ok]
  have e1 : (32 - ((bits / 8 : Nat) : Int)).toNat = 32 - bits / 8 := by omega
  have e2 : ((beBytes 32 n).length : Int).toNat = 32 := by rw [beBytes_length]; rfl
  rw [e1, e2, beBytes_drop (bits / 8) n hk.1]
  have e3 : 32 - (32 - bits / 8) = bits / 8 := by omega
  rw [e3, List.take_of_length_le (by rw [beBytes_length]; omega)]
  rw [if_neg (by rw [beBytes_length]; omega), List.take_of_length_le (by rw [beBytes_length]; omega), beVal_beBytes]
  rfl

theorem readInteger_big (sg : Bool) (bits : Nat) (hb : ¬ bits = 8 ∧ ¬ (bits = 16 ∨ bits = 32 ∨ bits = 64)) (n : Nat) (h : n < two256) :
    readInteger sg bits (beBytes 32 n) = .ok (.num n) := by
  unfold readInteger
  rw [if_neg hb.1, if_neg hb.2, beVal_beBytes]
  have : (256 : Nat) ^ 32 = two256 := by unfold two256; decide
  rw [this, Nat.mod_eq_of_lt h]
  rfl


theorem pow256_2 : (256 : Nat) ^ (16 / 8) = 65536 := by decide
theorem pow256_4 : (256 : Nat) ^ (32 / 8) = 4294967296 := by decide
theorem pow256_8 : (256 : Nat) ^ (64 / 8) = 18446744073709551616 := by decide
theorem two256_val : two256 = 115792089237316195423570985008687907853269984665640564039457584007913129639936 := by
  unfold two256; decide

theorem signed64 (n : Int) (h1 : -9223372036854775808 ≤ n) (h2 : n < 9223372036854775808) :
    signed 64 ((n % (two256 : Int)).toNat % 18446744073709551616) = n := by
  unfold signed
  have e1 : (2 : Nat) ^ (64 - 1) = 9223372036854775808 := by decide
  have e2 : ((2 : Nat) ^ 64 : Nat) = 18446744073709551616 := by decide
  rw [e1, e2, two256_val]
  split <;> omega

theorem signed32 (n : Int) (h1 : -2147483648 ≤ n) (h2 : n < 2147483648) :
    signed 32 ((n % (two256 : Int)).toNat % 4294967296) = n := by
  unfold signed
  have e1 : (2 : Nat) ^ (32 - 1) = 2147483648 := by decide
  have e2 : ((2 : Nat) ^ 32 : Nat) = 4294967296 := by decide
  rw [e1, e2, two256_val]
  split <;> omega
/-! ## typed values, static words -/

/-- the values a decoded argument of type `t` can have (the Go type's range) -/
def HasTy : Ty → Val → Prop
  | .uint bits, .num n => (bits = 8 ∨ bits = 16 ∨ bits = 32 ∨ bits = 64 ∨ bits = 256) ∧ 0 ≤ n ∧ n < ((2 ^ bits : Nat) : Int)
  | .int bits, .num n => (bits = 32 ∨ bits = 64) ∧ -((2 ^ (bits - 1) : Nat) : Int) ≤ n ∧ n < ((2 ^ (bits - 1) : Nat) : Int)
  | .bool, .bool _ => True
  | .address, .bytes b => b.length = 20
  | .tokenStandard, .bytes b => b.length = 10
  | .hash, .bytes b => b.length = 32
  | .fixedBytes k, .bytes b => b.length = k ∧ k ≤ 32
  | .string, .bytes _ => True
  | .bytes, .bytes _ => True
  | .slice e, .list vs => ∀ v ∈ vs, HasTy e v
  | _, _ => False

theorem readWord_uint (bits : Nat) (n : Int) (h : HasTy (.uint bits) (.num n)) :
    ∃ w, pack (.uint bits) (.num n) = some w ∧ w.length = 32 ∧ readWord (.uint bits) w = .ok (.num n) := by
  obtain ⟨hb, h0, hn⟩ := h
  refine ⟨packNum n, rfl, packNum_length n, ?_⟩
  obtain ⟨m, rfl⟩ := Int.eq_ofNat_of_zero_le h0
  have hm : m < 2 ^ bits := by exact_mod_cast hn
  have hm256 : m < two256 := by
    rw [two256_val]
    rcases hb with rfl | rfl | rfl | rfl | rfl <;> omega
  rw [packNum_nat m hm256]
  show readInteger false bits (beBytes 32 m) = _
  rcases hb with rfl | rfl | rfl | rfl | rfl
  · exact readInteger_u8 m (by omega)
  · rw [readInteger_low false 16 (by omega) m, pow256_2, Nat.mod_eq_of_lt (by omega)]; rfl
  · rw [readInteger_low false 32 (by omega) m, pow256_4, Nat.mod_eq_of_lt (by omega)]; rfl
  · rw [readInteger_low false 64 (by omega) m, pow256_8, Nat.mod_eq_of_lt (by omega)]; rfl
  · exact readInteger_big false 256 (by omega) m hm256

theorem readWord_int (bits : Nat) (n : Int) (h : HasTy (.int bits) (.num n)) :
    ∃ w, pack (.int bits) (.num n) = some w ∧ w.length = 32 ∧ readWord (.int bits) w = .ok (.num n) := by
  obtain ⟨hb, h0, hn⟩ := h
  refine ⟨packNum n, rfl, packNum_length n, ?_⟩
  show readInteger true bits (packNum n) = _
  unfold packNum
  rcases hb with rfl | rfl
  · rw [readInteger_low true 32 (by omega), pow256_4]
    simp only [if_true]
    rw [signed32 n (by simpa using h0) (by simpa using hn)]
  · rw [readInteger_low true 64 (by omega), pow256_8]
    simp only [if_true]
    rw [signed64 n (by simpa using h0) (by simpa using hn)]


theorem readWord_bool (b : Bool) :
    ∃ w, pack .bool (.bool b) = some w ∧ w.length = 32 ∧ readWord .bool w = .ok (.bool b) := by
  refine ⟨packNum (if b then 1 else 0), rfl, packNum_length _, ?_⟩
  cases b <;> rfl

theorem goSlice_leftPad (b : Bytes) (k : Nat) (hk : b.length = k) (hk32 : k ≤ 32) :
    goSlice (leftPad b 32) (32 - (k : Int)) 32 = .ok b := by
  have hl : (leftPad b 32).length = 32 := by
    unfold leftPad; split
    · omega
    · rw [List.length_append, List.length_replicate]; omega
  rw [goSlice_ok (by omega) (by omega) (by rw [hl]; omega)]
  congr 1
  have e1 : (32 - (k : Int)).toNat = 32 - k := by omega
  have e2 : (32 : Int).toNat - (32 - k) = k := by
    have : (32 : Int).toNat = 32 := rfl
    rw [this]; omega
  rw [e1, e2]
  unfold leftPad
  split
  · have : k = 32 := by omega
    subst this
    simp only [Nat.sub_self, List.drop_zero]
    exact List.take_of_length_le (by omega)
  · rw [List.drop_left' (by rw [List.length_replicate]; omega)]
    exact List.take_of_length_le (by omega)

theorem readWord_address (b : Bytes) (h : b.length = 20) :
    ∃ w, pack .address (.bytes b) = some w ∧ w.length = 32 ∧ readWord .address w = .ok (.bytes b) := by
  refine ⟨leftPad b 32, ?_, ?_, ?_⟩
  · show (if b.length = Gen.abiAddressSize then some (leftPad b 32) else none) = _
    rw [if_pos (show b.length = Gen.abiAddressSize from h)]
  · unfold leftPad; rw [if_neg (by omega), List.length_append, List.length_replicate]; omega
  · simp only [readWord]
    have : goSlice (leftPad b 32) (wordSize - Gen.abiAddressSize) wordSize = .ok b := goSlice_leftPad b 20 h (by omega)
    rw [this]; rfl

theorem readWord_tokenStandard (b : Bytes) (h : b.length = 10) :
    ∃ w, pack .tokenStandard (.bytes b) = some w ∧ w.length = 32 ∧ readWord .tokenStandard w = .ok (.bytes b) := by
  refine ⟨leftPad b 32, ?_, ?_, ?_⟩
  · show (if b.length = Gen.abiTokenStandardSize then some (leftPad b 32) else none) = _
    rw [if_pos (show b.length = Gen.abiTokenStandardSize from h)]
  · unfold leftPad; rw [if_neg (by omega), List.length_append, List.length_replicate]; omega
  · simp only [readWord]
    have : goSlice (leftPad b 32) (wordSize - Gen.abiTokenStandardSize) wordSize = .ok b := goSlice_leftPad b 10 h (by omega)
    rw [this]; rfl

theorem readWord_hash (b : Bytes) (h : b.length = 32) :
    ∃ w, pack .hash (.bytes b) = some w ∧ w.length = 32 ∧ readWord .hash w = .ok (.bytes b) := by
  refine ⟨leftPad b 32, ?_, ?_, ?_⟩
  · show (if b.length = Gen.abiHashSize then some (leftPad b 32) else none) = _
    rw [if_pos (show b.length = Gen.abiHashSize from h)]
  · unfold leftPad; rw [if_pos (by omega)]; exact h
  · simp only [readWord]
    have : goSlice (leftPad b 32) (wordSize - Gen.abiHashSize) wordSize = .ok b := goSlice_leftPad b 32 h (by omega)
    rw [this]
    simp only [Res.bind_ok]
    rw [if_pos (show b.length = Gen.abiHashSize from h)]; rfl

theorem readWord_fixed (k : Nat) (b : Bytes) (h : b.length = k) (hk : k ≤ 32) :
    ∃ w, pack (.fixedBytes k) (.bytes b) = some w ∧ w.length = 32 ∧ readWord (.fixedBytes k) w = .ok (.bytes b) := by
  have hl : (rightPad b 32).length = 32 := by
    unfold rightPad; split
    · omega
    · rw [List.length_append, List.length_replicate]; omega
  refine ⟨rightPad b 32, ?_, hl, ?_⟩
  · show (if b.length = k then some (rightPad b 32) else none) = _
    rw [if_pos h]
  · show readFixedBytes k (rightPad b 32) = _
    unfold readFixedBytes
    rw [goSlice_ok (by omega) (by omega) (by rw [hl]; omega)]
    show Res.ok (Val.bytes _) = _
    congr 2
    have e : (k : Int).toNat - (0 : Int).toNat = k := by omega
    have e0 : (0 : Int).toNat = 0 := rfl
    rw [e, e0, List.drop_zero]
    unfold rightPad
    split
    · exact List.take_of_length_le (by omega)
    · exact List.take_left' h


theorem readWord_pack (t : Ty) (ht : t.isStaticElem = true) (v : Val) (h : HasTy t v) :
    ∃ w, pack t v = some w ∧ w.length = 32 ∧ readWord t w = .ok v := by
  match t, v, ht, h with
  | .uint _, .num _, _, h => exact readWord_uint _ _ h
  | .int _, .num _, _, h => exact readWord_int _ _ h
  | .bool, .bool _, _, _ => exact readWord_bool _
  | .address, .bytes _, _, h => exact readWord_address _ h
  | .tokenStandard, .bytes _, _, h => exact readWord_tokenStandard _ h
  | .hash, .bytes _, _, h => exact readWord_hash _ h
  | .fixedBytes _, .bytes _, _, h => exact readWord_fixed _ _ h.1 h.2

/-! ## dynamic heads -/

theorem bitLen_small {n : Nat} (h : n < 2 ^ 63) : ¬ bitLen n > 63 := by
  unfold bitLen
  split
  · omega
  · rename_i h0
    have := (Nat.log2_lt h0).mpr h
    omega

theorem beVal_packNum (n : Nat) (h : n < two256) : beVal (packNum (n : Int)) = n := by
  rw [packNum_nat n h, beVal_beBytes]
  have : (256 : Nat) ^ 32 = two256 := by unfold two256; decide
  rw [this, Nat.mod_eq_of_lt h]

theorem maxAlloc_lt_two256 : maxAlloc < two256 := by rw [two256_val]; unfold maxAlloc; omega

theorem isub_off (o : Nat) (h : o + 32 ≤ 281474976710656) : isub ((o + 32 : Nat) : Int) wordSize = (o : Int) := by
  rw [wordSize_eq, isub_eq] <;> (try unfold i63) <;> omega

theorem u64_small (n : Nat) (h : n ≤ 281474976710656) : u64 n = n := by apply u64_eq; unfold two64; omega
theorem toInt64_small (n : Nat) (h : n ≤ 281474976710656) : toInt64 n = (n : Int) := by apply toInt64_eq; unfold i63; omega

/-- `lengthPrefixPointsTo` on a canonical head: the head word at `|A0|` holds the offset `o`, and at `o` stands a length word
    `len` followed by at least `len` bytes -/
theorem lpp_canonical (data A0 B0 A tail B : Bytes) (o len : Nat)
    (hd1 : data = A0 ++ packNum (o : Int) ++ B0)
    (hd2 : data = A ++ packNum (len : Int) ++ (tail ++ B)) (hA : A.length = o)
    (htl : len ≤ tail.length) (hlen : data.length ≤ maxAlloc) (hidx : (A0.length : Int) ≤ idxBound) :
    lengthPrefixPointsTo (A0.length : Int) data = .ok (((o + 32 : Nat) : Int), (len : Int)) := by
  have hM := maxAlloc_eq
  have hdl : data.length = o + 32 + (tail.length + B.length) := by
    rw [hd2]; simp only [List.length_append, packNum_length, hA]
  have hob : o + 32 + len ≤ 281474976710656 := by omega
  have b1 : o + 32 ≤ 281474976710656 := by omega
  have b2 : len ≤ 281474976710656 := by omega
  have e : ((o + 32 : Nat) : Int) = (o : Int) + 32 := by omega
  have c1 : ¬ (o + 32 > data.length) := by omega
  have c2 : o + 32 < 2 ^ 63 := by omega
  have c3 : o + 32 + len < 2 ^ 63 := by omega
  have c4 : ¬ (o + 32 + len > data.length) := by omega
  have hA0 : (0 : Int) ≤ (A0.length : Int) := by omega
  have ho' : o < maxAlloc := by omega
  have hl' : len < maxAlloc := by omega
  have hu : u64 (o + 32) = o + 32 := u64_small _ b1
  have ht : toInt64 (o + 32) = ((o + 32 : Nat) : Int) := toInt64_small _ b1
  have hs : isub ((o + 32 : Nat) : Int) wordSize = (o : Int) := isub_off o b1
  have hu2 : u64 len = len := u64_small _ b2
  have ht2 : toInt64 len = (len : Int) := toInt64_small _ b2
  have ho : o < two256 := Nat.lt_trans ho' maxAlloc_lt_two256
  have hl : len < two256 := Nat.lt_trans hl' maxAlloc_lt_two256
  unfold lengthPrefixPointsTo
  rw [iadd_index hA0 hidx]
  have hw1 : goSlice data (A0.length : Int) ((A0.length : Int) + 32) = .ok (packNum (o : Int)) := by
    rw [hd1]; exact goSlice_window A0 _ B0 (packNum_length _)
  rw [hw1]
  simp only [Res.bind_ok, beVal_packNum o ho]
  rw [if_neg c1, if_neg (bitLen_small c2)]
  rw [hu, ht]
  have hw2 : goSlice data (o : Int) ((o + 32 : Nat) : Int) = .ok (packNum (len : Int)) := by
    have := goSlice_window A (packNum (len : Int)) (tail ++ B) (packNum_length _)
    rw [hA] at this
    rw [hd2, e]; exact this
  rw [hs, hw2]
  simp only [Res.bind_ok, beVal_packNum len hl]
  rw [if_neg (bitLen_small c3), if_neg c4]
  rw [hu2, ht2]
  rfl


theorem rightPad_prefix (b : Bytes) (n : Nat) : ∃ z, rightPad b n = b ++ z := by
  unfold rightPad; split
  · exact ⟨[], by simp⟩
  · exact ⟨_, rfl⟩

theorem iadd_small (a b : Nat) (h : a + b ≤ 281474976710656) : iadd (a : Int) (b : Int) = ((a + b : Nat) : Int) := by
  rw [iadd_eq] <;> (try unfold i63) <;> omega

/-- decoding a canonical `string` / `bytes` argument: head word at `|A0|` = offset `o`; at `o` the packed bytes -/
theorem toGoType_bytes_canonical (t : Ty) (ht : t = .string ∨ t = .bytes) (data A0 B0 A B b : Bytes) (o : Nat)
    (hd1 : data = A0 ++ packNum (o : Int) ++ B0)
    (hd2 : data = A ++ packBytesSlice b b.length ++ B) (hA : A.length = o)
    (hlen : data.length ≤ maxAlloc) (hidx : (A0.length : Int) ≤ idxBound) :
    toGoType t (A0.length : Int) data = .ok (.bytes b) := by
  obtain ⟨z, hz⟩ := rightPad_prefix b (ceil32 b.length)
  have hd2' : data = A ++ packNum (b.length : Int) ++ ((b ++ z) ++ B) := by
    rw [hd2]; unfold packBytesSlice; rw [hz]; simp only [List.append_assoc]
  have hM := maxAlloc_eq
  have hdl : data.length = o + 32 + (b.length + z.length + B.length) := by
    rw [hd2']; simp only [List.length_append, packNum_length, hA]
  have hdl1 : data.length = A0.length + 32 + B0.length := by
    rw [hd1]; simp only [List.length_append, packNum_length]
  have b1 : o + 32 + b.length ≤ 281474976710656 := by omega
  have c0 : ¬ ((A0.length : Int) + 32 > (data.length : Int)) := by omega
  have hA0 : (0 : Int) ≤ (A0.length : Int) := by omega
  have e1 : (((o + 32 : Nat) : Int)).toNat = o + 32 := by omega
  have e2 : (((o + 32 + b.length : Nat) : Int)).toNat - (o + 32) = b.length := by omega
  have g1 : (0 : Int) ≤ ((o + 32 : Nat) : Int) := by omega
  have g2 : ((o + 32 : Nat) : Int) ≤ ((o + 32 + b.length : Nat) : Int) := by omega
  have g3 : ((o + 32 + b.length : Nat) : Int) ≤ (data.length : Int) := by omega
  have hlpp := lpp_canonical data A0 B0 A (b ++ z) B o b.length hd1 hd2' hA (by simp) hlen hidx
  have hia := iadd_small (o + 32) b.length b1
  have hsl : goSlice data ((o + 32 : Nat) : Int) ((o + 32 + b.length : Nat) : Int) = .ok b := by
    rw [goSlice_ok g1 g2 g3, e1, e2]
    apply congrArg Res.ok
    have : data = (A ++ packNum (b.length : Int)) ++ (b ++ (z ++ B)) := by
      rw [hd2']; simp only [List.append_assoc]
    rw [this, List.drop_left' (by simp only [List.length_append, packNum_length, hA]), List.take_left' rfl]
  have hi := iadd_index hA0 hidx
  rcases ht with rfl | rfl
  · unfold toGoType
    rw [hi, if_neg c0, hlpp, Res.bind_ok]
    show (goSlice data ((o + 32 : Nat) : Int) (iadd ((o + 32 : Nat) : Int) (b.length : Int)) >>= fun s => pure (Val.bytes s)) = _
    rw [hia, hsl]
    rfl
  · unfold toGoType
    rw [hi, if_neg c0, hlpp, Res.bind_ok]
    show (goSlice data ((o + 32 : Nat) : Int) (iadd ((o + 32 : Nat) : Int) (b.length : Int)) >>= fun s => pure (Val.bytes s)) = _
    rw [hia, hsl]
    rfl

/-! ## Arguments.Pack / Arguments.Unpack -/

/-- decoding a canonical dynamic argument of type `t`: the head word at `|A0|` holds the offset `o`, and at `o` stands the
    packed value -/
def DynOK (t : Ty) : Prop :=
  ∀ (v : Val) (p : Bytes), HasTy t v → pack t v = some p →
    ∀ (data A0 B0 A B : Bytes) (o : Nat), data = A0 ++ packNum (o : Int) ++ B0 → data = A ++ p ++ B → A.length = o →
      data.length ≤ maxAlloc → (A0.length : Int) ≤ idxBound → toGoType t (A0.length : Int) data = .ok v

/-- argument types covered by `unpack_pack`: the static elementary types, and the dynamic types whose canonical encoding is
    shown to decode (`string`, `bytes`, slices of static elementary types — `flatb_sound`) -/
def Ty.Flat (t : Ty) : Prop := t.isStaticElem = true ∨ (t.isDynamic = true ∧ DynOK t)

theorem flat_dynamic {t : Ty} (h : t.Flat) (hd : t.isDynamic = true) : DynOK t := by
  rcases h with h | h
  · cases t <;> simp_all [Ty.isStaticElem, Ty.isDynamic]
  · exact h.2

theorem flat_static {t : Ty} (h : t.Flat) (hd : ¬ t.isDynamic = true) : t.isStaticElem = true := by
  rcases h with h | h
  · exact h
  · exact absurd h.1 hd

theorem pack_bytes {t : Ty} (ht : t = .string ∨ t = .bytes) {v : Val} {p : Bytes} (h : pack t v = some p) :
    ∃ b, v = .bytes b ∧ p = packBytesSlice b b.length := by
  rcases ht with rfl | rfl
  · match v, h with
    | .bytes b, h => simp only [pack] at h; injection h with h; exact ⟨b, rfl, h.symm⟩
  · match v, h with
    | .bytes b, h => simp only [pack] at h; injection h with h; exact ⟨b, rfl, h.symm⟩

theorem dynOK_bytes (t : Ty) (ht : t = .string ∨ t = .bytes) : DynOK t := by
  intro v p _ hp data A0 B0 A B o hd1 hd2 hA hlen hidx
  obtain ⟨b, hv, hpb⟩ := pack_bytes ht hp
  subst hv; subst hpb
  exact toGoType_bytes_canonical t ht data A0 B0 A B b o hd1 hd2 hA hlen hidx

/-- the argument values have the arguments' types -/
inductive HasTys : List Ty → List Val → Prop where
  | nil : HasTys [] []
  | cons {t : Ty} {v : Val} {ts : List Ty} {vs : List Val} : HasTy t v → HasTys ts vs → HasTys (t :: ts) (v :: vs)

/-- the tail buffer only grows, and the head grows by one word per argument -/
theorem packArgsLoop_shape : ∀ (tys : List Ty) (vs : List Val) (io : Nat) (vi ret vi' : Bytes),
    (∀ t ∈ tys, t.Flat) → HasTys tys vs → packArgsLoop io tys vs vi = some (ret, vi') →
    ret.length = 32 * tys.length ∧ ∃ T, vi' = vi ++ T := by
  intro tys
  induction tys with
  | nil =>
    intro vs io vi ret vi' _ hty hp
    cases hty
    simp only [packArgsLoop] at hp
    injection hp with hp; injection hp with h1 h2
    subst h1; subst h2
    exact ⟨rfl, [], by simp⟩
  | cons t ts ih =>
    intro vs io vi ret vi' hflat hty hp
    cases hty with
    | cons hv hvs =>
      rename_i v vs'
      have hft : t.Flat := hflat t (List.mem_cons_self ..)
      have hfts : ∀ t' ∈ ts, t'.Flat := fun t' h' => hflat t' (List.mem_cons_of_mem _ h')
      simp only [packArgsLoop] at hp
      cases hpk : pack t v with
      | none => rw [hpk] at hp; cases hp
      | some packed =>
        rw [hpk] at hp
        simp only [Option.bind_eq_bind, Option.bind_some] at hp
        by_cases hd : t.isDynamic = true
        · rw [if_pos hd] at hp
          cases hr : packArgsLoop io ts vs' (vi ++ packed) with
          | none => rw [hr] at hp; cases hp
          | some r =>
            obtain ⟨ret', vi2⟩ := r
            rw [hr] at hp
            simp only [Option.bind_some] at hp
            injection hp with hp; injection hp with h1 h2
            obtain ⟨hl, T, hT⟩ := ih vs' io (vi ++ packed) ret' vi2 hfts hvs hr
            subst h1; subst h2
            refine ⟨?_, packed ++ T, ?_⟩
            · rw [List.length_append, packNum_length, hl, List.length_cons]; omega
            · rw [hT, List.append_assoc]
        · rw [if_neg hd] at hp
          cases hr : packArgsLoop io ts vs' vi with
          | none => rw [hr] at hp; cases hp
          | some r =>
            obtain ⟨ret', vi2⟩ := r
            rw [hr] at hp
            simp only [Option.bind_some] at hp
            injection hp with hp; injection hp with h1 h2
            obtain ⟨hl, T, hT⟩ := ih vs' io vi ret' vi2 hfts hvs hr
            obtain ⟨w, hw1, hw2, _⟩ := readWord_pack t (flat_static hft hd) v hv
            rw [hpk] at hw1; injection hw1 with hw1
            subst h1; subst h2
            refine ⟨?_, T, hT⟩
            rw [List.length_append, hw1, hw2, hl, List.length_cons]; omega


theorem idx_arith (k : Nat) (hk : k ≤ 1048576) :
    imul (iadd (k : Int) 0) wordSize = ((32 * k : Nat) : Int) ∧ iadd (k : Int) 1 = ((k + 1 : Nat) : Int) := by
  have h1 : iadd (k : Int) 0 = (k : Int) := by rw [iadd_eq] <;> (try unfold i63) <;> omega
  have h2 : imul (k : Int) wordSize = ((32 * k : Nat) : Int) := by
    rw [wordSize_eq, imul_eq] <;> (try unfold i63) <;> omega
  have h3 : iadd (k : Int) 1 = ((k + 1 : Nat) : Int) := by rw [iadd_eq] <;> (try unfold i63) <;> omega
  rw [h1]; exact ⟨h2, h3⟩

theorem not_array_of_flat {t : Ty} (h : t.Flat) : ∀ n e, t ≠ .array n e := by
  intro n e he; subst he
  rcases h with h | h
  · simp [Ty.isStaticElem] at h
  · have := h.1; simp [Ty.isDynamic] at this

theorem unpackValues_cons_nonarray (t : Ty) (ts : List Ty) (index va : Int) (data : Bytes) (h : ∀ n e, t ≠ .array n e) :
    unpackValues (t :: ts) index va data =
      (toGoType t (imul (iadd index va) wordSize) data >>= fun v =>
        unpackValues ts (iadd index 1) va data >>= fun vs => pure (v :: vs)) := by
  cases t <;> first | rfl | exact absurd rfl (h _ _)

/-- decoding the heads `k, k+1, …` of a canonical encoding `Hd ++ ret ++ vi' ++ post` returns the packed values -/
theorem unpackValues_canonical : ∀ (tys : List Ty) (vs : List Val) (io : Nat) (Hd vi ret vi' post : Bytes) (k : Nat),
    (∀ t ∈ tys, t.Flat) → HasTys tys vs → packArgsLoop io tys vs vi = some (ret, vi') →
    Hd.length = 32 * k → io = Hd.length + ret.length → (Hd ++ ret ++ vi' ++ post).length ≤ maxAlloc →
    k + tys.length ≤ 1048576 →
    unpackValues tys (k : Int) 0 (Hd ++ ret ++ vi' ++ post) = .ok vs := by
  intro tys
  induction tys with
  | nil =>
    intro vs io Hd vi ret vi' post k _ hty _ _ _ _ _
    cases hty
    rfl
  | cons t ts ih =>
    intro vs io Hd vi ret vi' post k hflat hty hp hHd hio hlen hk
    cases hty with
    | cons hv hvs =>
      rename_i v vs'
      have hft : t.Flat := hflat t (List.mem_cons_self ..)
      have hfts : ∀ t' ∈ ts, t'.Flat := fun t' h' => hflat t' (List.mem_cons_of_mem _ h')
      have hkk : k ≤ 1048576 := by omega
      obtain ⟨hi1, hi2⟩ := idx_arith k hkk
      have hidxB : ((Hd.length : Nat) : Int) ≤ idxBound := by rw [idxBound_eq, hHd]; omega
      have hlen' : k + 1 + ts.length ≤ 1048576 := by simp only [List.length_cons] at hk; omega
      have hidx32 : ((32 * k : Nat) : Int) = (Hd.length : Int) := by rw [hHd]
      have hp0 := hp
      simp only [packArgsLoop] at hp
      cases hpk : pack t v with
      | none => rw [hpk] at hp; cases hp
      | some packed =>
        rw [hpk] at hp
        simp only [Option.bind_eq_bind, Option.bind_some] at hp
        by_cases hd : t.isDynamic = true
        · rw [if_pos hd] at hp
          cases hr : packArgsLoop io ts vs' (vi ++ packed) with
          | none => rw [hr] at hp; cases hp
          | some r =>
            obtain ⟨ret', vi2⟩ := r
            rw [hr] at hp
            simp only [Option.bind_some] at hp
            have hp' := Prod.mk.inj (Option.some.inj hp)
            have h1 := hp'.1
            have h2 := hp'.2
            obtain ⟨_, T, hT⟩ := packArgsLoop_shape ts vs' io (vi ++ packed) ret' vi2 hfts hvs hr
            subst h1; subst h2
            -- the buffer, seen from the head word and from the tail
            have hd1 : Hd ++ (packNum ((io + vi.length : Nat) : Int) ++ ret') ++ vi2 ++ post
                = Hd ++ packNum ((io + vi.length : Nat) : Int) ++ (ret' ++ vi2 ++ post) := by
              simp only [List.append_assoc]
            have hd2 : Hd ++ (packNum ((io + vi.length : Nat) : Int) ++ ret') ++ vi2 ++ post
                = (Hd ++ packNum ((io + vi.length : Nat) : Int) ++ ret' ++ vi) ++ packed ++ (T ++ post) := by
              rw [hT]; simp only [List.append_assoc]
            have hAlen : (Hd ++ packNum ((io + vi.length : Nat) : Int) ++ ret' ++ vi).length = io + vi.length := by
              simp only [List.length_append, packNum_length] at hio ⊢; omega
            have hdec := flat_dynamic hft hd v packed hv hpk _ Hd (ret' ++ vi2 ++ post)
              (Hd ++ packNum ((io + vi.length : Nat) : Int) ++ ret' ++ vi) (T ++ post) (io + vi.length) hd1 hd2 hAlen hlen hidxB
            have hrest := ih vs' io (Hd ++ packNum ((io + vi.length : Nat) : Int)) (vi ++ packed) ret' vi2 post (k + 1)
              hfts hvs hr
              (by rw [List.length_append, packNum_length, hHd]; omega)
              (by simp only [List.length_append, packNum_length] at hio ⊢; omega)
              (by have e : Hd ++ packNum ((io + vi.length : Nat) : Int) ++ ret' ++ vi2 ++ post
                      = Hd ++ (packNum ((io + vi.length : Nat) : Int) ++ ret') ++ vi2 ++ post := by simp only [List.append_assoc]
                  rw [e]; exact hlen)
              hlen'
            have e : Hd ++ (packNum ((io + vi.length : Nat) : Int) ++ ret') ++ vi2 ++ post
                = Hd ++ packNum ((io + vi.length : Nat) : Int) ++ ret' ++ vi2 ++ post := by simp only [List.append_assoc]
            have hc : ((io : Int) + (vi.length : Int)) = ((io + vi.length : Nat) : Int) := by omega
            rw [unpackValues_cons_nonarray _ _ _ _ _ (not_array_of_flat hft)]
            simp only [hi1, hi2, hidx32]
            rw [hc, hdec, Res.bind_ok, e, hrest]
            rfl
        · rw [if_neg hd] at hp
          cases hr : packArgsLoop io ts vs' vi with
          | none => rw [hr] at hp; cases hp
          | some r =>
            obtain ⟨ret', vi2⟩ := r
            rw [hr] at hp
            simp only [Option.bind_some] at hp
            have hp' := Prod.mk.inj (Option.some.inj hp)
            have h1 := hp'.1
            have h2 := hp'.2
            obtain ⟨w, hw1, hw2, hw3⟩ := readWord_pack t (flat_static hft hd) v hv
            rw [hpk] at hw1
            have hw1 := Option.some.inj hw1
            subst h1; subst h2; subst hw1
            have e1 : Hd ++ (packed ++ ret') ++ vi2 ++ post = Hd ++ packed ++ (ret' ++ vi2 ++ post) := by
              simp only [List.append_assoc]
            have hdec := toGoType_static t (flat_static hft hd) Hd packed (ret' ++ vi2 ++ post) hw2 hidxB
            have hrest := ih vs' io (Hd ++ packed) vi ret' vi2 post (k + 1) hfts hvs hr
              (by rw [List.length_append, hw2, hHd]; omega)
              (by simp only [List.length_append] at hio ⊢; omega)
              (by have e : Hd ++ packed ++ ret' ++ vi2 ++ post = Hd ++ (packed ++ ret') ++ vi2 ++ post := by
                    simp only [List.append_assoc]
                  rw [e]; exact hlen)
              hlen'
            have e2 : Hd ++ (packed ++ ret') ++ vi2 ++ post = Hd ++ packed ++ ret' ++ vi2 ++ post := by
              simp only [List.append_assoc]
            rw [unpackValues_cons_nonarray _ _ _ _ _ (not_array_of_flat hft)]
            simp only [hi1, hi2, hidx32]
            rw [e1, hdec, hw3, Res.bind_ok, ← e1, e2, hrest]
            rfl


theorem headSize_flat : ∀ (tys : List Ty), (∀ t ∈ tys, t.Flat) → headSize tys = 32 * tys.length := by
  intro tys
  induction tys with
  | nil => intro _; rfl
  | cons t ts ih =>
    intro h
    have hft := h t (List.mem_cons_self ..)
    have hts := ih (fun t' h' => h t' (List.mem_cons_of_mem _ h'))
    have : headSize (t :: ts) = 32 + headSize ts := by
      cases t <;> first | rfl | exact absurd rfl (not_array_of_flat hft _ _)
    rw [this, hts, List.length_cons]; omega

/-- decoding the canonical encoding returns the encoded values (flat argument types) -/
theorem unpack_packArgs (tys : List Ty) (vs : List Val) (data : Bytes)
    (hflat : ∀ t ∈ tys, t.Flat) (hty : HasTys tys vs) (hp : packArgs tys vs = some data)
    (hlen : data.length ≤ maxAlloc) (hne : tys ≠ []) (hk : tys.length ≤ 1048576) :
    unpack tys data = .ok vs := by
  unfold packArgs at hp
  cases hr : packArgsLoop (headSize tys) tys vs [] with
  | none => rw [hr] at hp; cases hp
  | some r =>
    obtain ⟨ret, vi⟩ := r
    rw [hr] at hp
    simp only [Option.bind_eq_bind, Option.bind_some] at hp
    have hd : ret ++ vi = data := Option.some.inj hp
    obtain ⟨hl, _⟩ := packArgsLoop_shape tys vs (headSize tys) [] ret vi hflat hty hr
    have hh := headSize_flat tys hflat
    have hmain := unpackValues_canonical tys vs (headSize tys) [] [] ret vi [] 0 hflat hty hr rfl
      (by rw [hh, hl]; simp) (by simpa [hd] using hlen) (by omega)
    have e : ([] : Bytes) ++ ret ++ vi ++ [] = data := by simp [hd]
    rw [e] at hmain
    unfold unpack
    have h0 : ((0 : Nat) : Int) = 0 := rfl
    rw [h0] at hmain
    rw [hmain, Res.bind_ok]
    have : ¬ tys.length = 0 := by
      intro h; exact hne (List.length_eq_zero_iff.mp h)
    rw [if_neg this]; rfl


theorem packArgs_length_ge (tys : List Ty) (vs : List Val) (data : Bytes)
    (hflat : ∀ t ∈ tys, t.Flat) (hty : HasTys tys vs) (hp : packArgs tys vs = some data) :
    32 * tys.length ≤ data.length := by
  unfold packArgs at hp
  cases hr : packArgsLoop (headSize tys) tys vs [] with
  | none => rw [hr] at hp; cases hp
  | some r =>
    obtain ⟨ret, vi⟩ := r
    rw [hr] at hp
    simp only [Option.bind_eq_bind, Option.bind_some] at hp
    have hd : ret ++ vi = data := Option.some.inj hp
    obtain ⟨hl, _⟩ := packArgsLoop_shape tys vs (headSize tys) [] ret vi hflat hty hr
    rw [← hd, List.length_append, hl]; omega

/-- `UnpackMethod` of `PackMethod` -/
theorem unpackMethod_packMethod (sel : Bytes) (hsel : sel.length = 4) (tys : List Ty) (vs : List Val) (input : Bytes)
    (hflat : ∀ t ∈ tys, t.Flat) (hty : HasTys tys vs) (hp : packMethod sel tys vs = some input)
    (hlen : input.length ≤ maxAlloc) (hne : tys ≠ []) (hk : tys.length ≤ 1048576) :
    unpackMethod sel tys input = .ok vs := by
  unfold packMethod at hp
  cases ha : packArgs tys vs with
  | none => rw [ha] at hp; cases hp
  | some data =>
    rw [ha] at hp
    simp only [Option.bind_eq_bind, Option.bind_some] at hp
    have hin : sel ++ data = input := Option.some.inj hp
    have hge := packArgs_length_ge tys vs data hflat hty ha
    have hpos : 0 < tys.length := by
      cases tys with
      | nil => exact absurd rfl hne
      | cons _ _ => simp
    have hil : input.length = 4 + data.length := by rw [← hin, List.length_append, hsel]
    unfold unpackMethod
    rw [if_neg (by omega)]
    have hid : goSlice input 0 4 = .ok sel := by
      rw [goSlice_ok (by omega) (by omega) (by omega)]
      apply congrArg Res.ok
      have e0 : (0 : Int).toNat = 0 := rfl
      have e4 : (4 : Int).toNat - 0 = 4 := rfl
      rw [e0, e4, List.drop_zero, ← hin, List.take_left' hsel]
    rw [hid, Res.bind_ok, if_pos rfl]
    have hb : goSliceFrom input 4 = .ok data := by
      unfold goSliceFrom
      rw [goSlice_ok (by omega) (by omega) (by omega)]
      apply congrArg Res.ok
      have e4 : (4 : Int).toNat = 4 := rfl
      have el : ((input.length : Int)).toNat - 4 = data.length := by omega
      rw [e4, el, ← hin, List.drop_left' hsel, List.take_length]
    rw [hb, Res.bind_ok]
    exact unpack_packArgs tys vs data hflat hty ha (by omega) hne hk

/-! ## slices of static elements -/

theorem ceil32_le (n : Nat) : ceil32 n ≤ 32 * n := by unfold ceil32; omega

theorem static_not_dynamic {e : Ty} (he : e.isStaticElem = true) : e.isDynamic = false := by
  cases e <;> simp_all [Ty.isStaticElem, Ty.isDynamic]

theorem packElems_static (e : Ty) (he : e.isStaticElem = true) :
    ∀ (vs : List Val) (offset : Nat), (∀ v ∈ vs, HasTy e v) →
      ∃ packed, packElems (pack e) false vs offset = some ([], packed) ∧ packed.length = 32 * vs.length ∧
        ∀ (pre post : Bytes) (j0 : Nat), pre.length = 32 * j0 → (pre ++ packed ++ post).length ≤ maxAlloc →
          unpackLoop (toGoType e) wordSize (pre ++ packed ++ post) ((32 * j0 : Nat) : Int) vs.length = .ok vs := by
  intro vs
  induction vs with
  | nil =>
    intro offset _
    refine ⟨[], rfl, rfl, ?_⟩
    intro pre post j0 _ _
    rfl
  | cons v vs' ih =>
    intro offset hall
    have hv : HasTy e v := hall v (List.mem_cons_self ..)
    have hvs : ∀ v' ∈ vs', HasTy e v' := fun v' h' => hall v' (List.mem_cons_of_mem _ h')
    obtain ⟨w, hw1, hw2, hw3⟩ := readWord_pack e he v hv
    obtain ⟨packed', hp1, hp2, hp3⟩ := ih (offset + w.length) hvs
    refine ⟨w ++ packed', ?_, ?_, ?_⟩
    · simp only [packElems, hw1, Option.bind_eq_bind, Option.bind_some, hp1]
      rfl
    · rw [List.length_append, hw2, hp2, List.length_cons]; omega
    · intro pre post j0 hpre hlen
      have hM := maxAlloc_eq
      have hl : (pre ++ (w ++ packed') ++ post).length = 32 * j0 + 32 + packed'.length + post.length := by
        simp only [List.length_append, hw2, hpre]; omega
      have hb1 : 32 * j0 + 32 ≤ 281474976710656 := by omega
      have hidx : ((pre.length : Nat) : Int) ≤ idxBound := by rw [idxBound_eq, hpre]; omega
      have e1 : pre ++ (w ++ packed') ++ post = pre ++ w ++ (packed' ++ post) := by simp only [List.append_assoc]
      have e2 : pre ++ (w ++ packed') ++ post = (pre ++ w) ++ packed' ++ post := by simp only [List.append_assoc]
      have hdec := toGoType_static e he pre w (packed' ++ post) hw2 hidx
      have hia : iadd ((32 * j0 : Nat) : Int) wordSize = ((32 * (j0 + 1) : Nat) : Int) := by
        have := iadd_small (32 * j0) 32 (by omega)
        rw [wordSize_eq]
        have e : ((32 : Nat) : Int) = 32 := rfl
        rw [e] at this
        rw [this]
        congr 1
      have hrest := hp3 (pre ++ w) post (j0 + 1) (by rw [List.length_append, hw2, hpre]; omega) (by rw [← e2]; exact hlen)
      have hi : ((32 * j0 : Nat) : Int) = ((pre.length : Nat) : Int) := by rw [hpre]
      show unpackLoop (toGoType e) wordSize _ _ (vs'.length + 1) = _
      unfold unpackLoop
      rw [hia, hi, e1, hdec, hw3, Res.bind_ok, ← e1, e2, hrest]
      rfl


theorem imul_small (n : Nat) (h : 32 * n ≤ 281474976710656) : imul wordSize (n : Int) = ((32 * n : Nat) : Int) := by
  rw [wordSize_eq, imul_eq] <;> (try unfold i63) <;> omega

theorem dynOK_slice_static (e : Ty) (he : e.isStaticElem = true) : DynOK (.slice e) := by
  intro v p hv hp data A0 B0 A B o hd1 hd2 hA hlen hidx
  match v, hv, hp with
  | .list vs, hv, hp =>
    have hv' : ∀ v ∈ vs, HasTy e v := hv
    obtain ⟨packed, hpe, hpl, hdecl⟩ := packElems_static e he vs 0 hv'
    have hnd := static_not_dynamic he
    have hp' : p = packNum (vs.length : Int) ++ packed := by
      simp only [pack, hnd, Bool.false_eq_true, if_false, hpe, Option.bind_eq_bind, Option.bind_some] at hp
      have := Option.some.inj hp
      rw [← this]
      unfold packBytesSlice rightPad
      rw [if_pos (by rw [List.nil_append, hpl]; exact ceil32_le _)]
      rfl
    subst hp'
    have hM := maxAlloc_eq
    have hd2' : data = A ++ packNum (vs.length : Int) ++ (packed ++ B) := by
      rw [hd2]; simp only [List.append_assoc]
    have hdl : data.length = o + 32 + (32 * vs.length + B.length) := by
      rw [hd2']; simp only [List.length_append, packNum_length, hA, hpl]
    have hdl1 : data.length = A0.length + 32 + B0.length := by
      rw [hd1]; simp only [List.length_append, packNum_length]
    have c0 : ¬ ((A0.length : Int) + 32 > (data.length : Int)) := by omega
    have hA0 : (0 : Int) ≤ (A0.length : Int) := by omega
    have b1 : 32 * vs.length ≤ 281474976710656 := by omega
    have g1 : (0 : Int) ≤ ((o + 32 : Nat) : Int) := by omega
    have g2 : ((o + 32 : Nat) : Int) ≤ (data.length : Int) := by omega
    have e1 : (((o + 32 : Nat) : Int)).toNat = o + 32 := by omega
    have e2 : ((data.length : Int)).toNat - (o + 32) = 32 * vs.length + B.length := by omega
    have csz : ¬ ((vs.length : Int) < 0) := by omega
    have cchk : ¬ (((32 * vs.length : Nat) : Int) > (((packed ++ B).length : Nat) : Int)) := by
      rw [List.length_append, hpl]; omega
    have cms : (0 : Int) ≤ (vs.length : Int) ∧ (vs.length : Int) * (maxElemSize : Int) ≤ (maxAlloc : Int) := by
      unfold maxElemSize; rw [hM]; omega
    have etn : ((vs.length : Int)).toNat = vs.length := by omega
    have hlpp := lpp_canonical data A0 B0 A packed B o vs.length hd1 hd2' hA (by rw [hpl]; omega) hlen hidx
    have hsub : goSliceFrom data ((o + 32 : Nat) : Int) = .ok (packed ++ B) := by
      unfold goSliceFrom
      rw [goSlice_ok g1 g2 (Int.le_refl _), e1, e2]
      apply congrArg Res.ok
      have : data = (A ++ packNum (vs.length : Int)) ++ (packed ++ B) := by rw [hd2']
      rw [this, List.drop_left' (by simp only [List.length_append, packNum_length, hA])]
      exact List.take_of_length_le (by rw [List.length_append, hpl]; omega)
    have him := imul_small vs.length b1
    have hia0 : iadd (0 : Int) ((32 * vs.length : Nat) : Int) = ((32 * vs.length : Nat) : Int) := by
      have := iadd_small 0 (32 * vs.length) (by omega)
      simpa using this
    have hloop := hdecl [] B 0 rfl (by
      have : ([] ++ packed ++ B).length ≤ data.length := by
        simp only [List.nil_append, List.length_append, hpl]; omega
      omega)
    have hi := iadd_index hA0 hidx
    unfold toGoType
    rw [hi, if_neg c0, hlpp, Res.bind_ok]
    show (goSliceFrom data ((o + 32 : Nat) : Int) >>= fun sub =>
        forEachUnpack (toGoType e) true wordSize sub 0 (vs.length : Int)) = _
    rw [hsub, Res.bind_ok]
    unfold forEachUnpack
    rw [if_neg csz, him, hia0, if_neg cchk]
    simp only [if_true]
    unfold makeSlice
    rw [if_pos cms, Res.bind_ok, etn]
    have e0 : ((32 * 0 : Nat) : Int) = 0 := rfl
    rw [e0] at hloop
    simp only [List.nil_append] at hloop
    rw [hloop]
    rfl


/-! ## slices of dynamic elements -/

theorem packElems_dyn (e : Ty) (hok : DynOK e) :
    ∀ (vs : List Val) (offset : Nat), (∀ v ∈ vs, HasTy e v) →
      (∃ offs packed, packElems (pack e) true vs offset = some (offs, packed) ∧ offs.length = 32 * vs.length ∧
        ∀ (Opre Tpre post : Bytes) (j0 : Nat), Opre.length = 32 * j0 →
          offset = Opre.length + offs.length + Tpre.length →
          (Opre ++ offs ++ Tpre ++ packed ++ post).length ≤ maxAlloc →
          unpackLoop (toGoType e) wordSize (Opre ++ offs ++ Tpre ++ packed ++ post) ((32 * j0 : Nat) : Int) vs.length = .ok vs)
      ∨ packElems (pack e) true vs offset = none := by
  intro vs
  induction vs with
  | nil =>
    intro offset _
    left
    refine ⟨[], [], rfl, rfl, ?_⟩
    intro _ _ _ _ _ _ _
    rfl
  | cons v vs' ih =>
    intro offset hall
    have hv : HasTy e v := hall v (List.mem_cons_self ..)
    have hvs : ∀ v' ∈ vs', HasTy e v' := fun v' h' => hall v' (List.mem_cons_of_mem _ h')
    cases hpk : pack e v with
    | none => right; simp only [packElems, hpk, Option.bind_eq_bind, Option.bind_none]
    | some val =>
      rcases ih (offset + val.length) hvs with ⟨offs', packed', hp1, hp2, hp3⟩ | hnone
      · left
        refine ⟨packNum (offset : Int) ++ offs', val ++ packed', ?_, ?_, ?_⟩
        · simp only [packElems, hpk, Option.bind_eq_bind, Option.bind_some, hp1, if_true]
          rfl
        · rw [List.length_append, packNum_length, hp2, List.length_cons]; omega
        · intro Opre Tpre post j0 hO hoff hlen
          have hM := maxAlloc_eq
          have hoff' : offset = Opre.length + (32 + offs'.length) + Tpre.length := by
            rw [hoff, List.length_append, packNum_length]
          have hl : (Opre ++ (packNum (offset : Int) ++ offs') ++ Tpre ++ (val ++ packed') ++ post).length
              = Opre.length + 32 + offs'.length + Tpre.length + val.length + packed'.length + post.length := by
            simp only [List.length_append, packNum_length]; omega
          have hb1 : 32 * j0 + 32 ≤ 281474976710656 := by omega
          have hidx : ((Opre.length : Nat) : Int) ≤ idxBound := by rw [idxBound_eq, hO]; omega
          have hd1 : Opre ++ (packNum (offset : Int) ++ offs') ++ Tpre ++ (val ++ packed') ++ post
              = Opre ++ packNum (offset : Int) ++ (offs' ++ Tpre ++ (val ++ packed') ++ post) := by
            simp only [List.append_assoc]
          have hd2 : Opre ++ (packNum (offset : Int) ++ offs') ++ Tpre ++ (val ++ packed') ++ post
              = (Opre ++ packNum (offset : Int) ++ offs' ++ Tpre) ++ val ++ (packed' ++ post) := by
            simp only [List.append_assoc]
          have hA : (Opre ++ packNum (offset : Int) ++ offs' ++ Tpre).length = offset := by
            simp only [List.length_append, packNum_length]; omega
          have hdec := hok v val hv hpk _ Opre (offs' ++ Tpre ++ (val ++ packed') ++ post)
            (Opre ++ packNum (offset : Int) ++ offs' ++ Tpre) (packed' ++ post) offset hd1 hd2 hA hlen hidx
          have e3 : Opre ++ (packNum (offset : Int) ++ offs') ++ Tpre ++ (val ++ packed') ++ post
              = (Opre ++ packNum (offset : Int)) ++ offs' ++ (Tpre ++ val) ++ packed' ++ post := by
            simp only [List.append_assoc]
          have hrest := hp3 (Opre ++ packNum (offset : Int)) (Tpre ++ val) post (j0 + 1)
            (by rw [List.length_append, packNum_length, hO]; omega)
            (by simp only [List.length_append, packNum_length]; omega)
            (by rw [← e3]; exact hlen)
          have hia : iadd ((32 * j0 : Nat) : Int) wordSize = ((32 * (j0 + 1) : Nat) : Int) := by
            have := iadd_small (32 * j0) 32 (by omega)
            rw [wordSize_eq]
            have e : ((32 : Nat) : Int) = 32 := rfl
            rw [e] at this
            rw [this]
            congr 1
          have hi : ((32 * j0 : Nat) : Int) = ((Opre.length : Nat) : Int) := by rw [hO]
          show unpackLoop (toGoType e) wordSize _ _ (vs'.length + 1) = _
          unfold unpackLoop
          rw [hia, hi, hdec, Res.bind_ok, e3, hrest]
          rfl
      · right
        simp only [packElems, hpk, Option.bind_eq_bind, Option.bind_some, hnone, Option.bind_none]


theorem typeSize_dynamic {e : Ty} (h : e.isDynamic = true) : typeSize e = 32 := by
  cases e <;> simp_all [Ty.isDynamic, typeSize]

theorem dynOK_slice_dyn (e : Ty) (hd : e.isDynamic = true) (hok : DynOK e) : DynOK (.slice e) := by
  intro v p hv hp data A0 B0 A B o hd1 hd2 hA hlen hidx
  match v, hv, hp with
  | .list vs, hv, hp =>
    have hv' : ∀ v ∈ vs, HasTy e v := hv
    have hts := typeSize_dynamic hd
    simp only [pack, hd, if_true, hts, Option.bind_eq_bind] at hp
    rcases packElems_dyn e hok vs (32 * vs.length) hv' with ⟨offs, packed, hpe, hol, hdecl⟩ | hnone
    · rw [hpe] at hp
      simp only [Option.bind_some] at hp
      have hp' : p = packNum (vs.length : Int) ++ (offs ++ packed) := by
        have := Option.some.inj hp
        rw [← this]
        unfold packBytesSlice rightPad
        rw [if_pos (by rw [List.length_append, hol]; have := ceil32_le vs.length; omega)]
      subst hp'
      have hM := maxAlloc_eq
      have hd2' : data = A ++ packNum (vs.length : Int) ++ ((offs ++ packed) ++ B) := by
        rw [hd2]; simp only [List.append_assoc]
      have hdl : data.length = o + 32 + (32 * vs.length + packed.length + B.length) := by
        rw [hd2']; simp only [List.length_append, packNum_length, hA, hol]
      have hdl1 : data.length = A0.length + 32 + B0.length := by
        rw [hd1]; simp only [List.length_append, packNum_length]
      have c0 : ¬ ((A0.length : Int) + 32 > (data.length : Int)) := by omega
      have hA0 : (0 : Int) ≤ (A0.length : Int) := by omega
      have b1 : 32 * vs.length ≤ 281474976710656 := by omega
      have g1 : (0 : Int) ≤ ((o + 32 : Nat) : Int) := by omega
      have g2 : ((o + 32 : Nat) : Int) ≤ (data.length : Int) := by omega
      have e1 : (((o + 32 : Nat) : Int)).toNat = o + 32 := by omega
      have e2 : ((data.length : Int)).toNat - (o + 32) = 32 * vs.length + packed.length + B.length := by omega
      have csz : ¬ ((vs.length : Int) < 0) := by omega
      have cchk : ¬ (((32 * vs.length : Nat) : Int) > ((((offs ++ packed) ++ B).length : Nat) : Int)) := by
        simp only [List.length_append, hol]; omega
      have cms : (0 : Int) ≤ (vs.length : Int) ∧ (vs.length : Int) * (maxElemSize : Int) ≤ (maxAlloc : Int) := by
        unfold maxElemSize; rw [hM]; omega
      have etn : ((vs.length : Int)).toNat = vs.length := by omega
      have hlpp := lpp_canonical data A0 B0 A (offs ++ packed) B o vs.length hd1 hd2' hA
        (by rw [List.length_append, hol]; omega) hlen hidx
      have hsub : goSliceFrom data ((o + 32 : Nat) : Int) = .ok ((offs ++ packed) ++ B) := by
        unfold goSliceFrom
        rw [goSlice_ok g1 g2 (Int.le_refl _), e1, e2]
        apply congrArg Res.ok
        have : data = (A ++ packNum (vs.length : Int)) ++ ((offs ++ packed) ++ B) := by rw [hd2']
        rw [this, List.drop_left' (by simp only [List.length_append, packNum_length, hA])]
        exact List.take_of_length_le (by simp only [List.length_append, hol]; omega)
      have him := imul_small vs.length b1
      have hia0 : iadd (0 : Int) ((32 * vs.length : Nat) : Int) = ((32 * vs.length : Nat) : Int) := by
        have := iadd_small 0 (32 * vs.length) (by omega)
        simpa using this
      have hloop := hdecl [] [] B 0 rfl (by simp [hol]) (by
        have : ([] ++ offs ++ [] ++ packed ++ B).length ≤ data.length := by
          simp only [List.nil_append, List.append_nil, List.length_append, hol]; omega
        omega)
      have hi := iadd_index hA0 hidx
      unfold toGoType
      rw [hi, if_neg c0, hlpp, Res.bind_ok]
      show (goSliceFrom data ((o + 32 : Nat) : Int) >>= fun sub =>
          forEachUnpack (toGoType e) true wordSize sub 0 (vs.length : Int)) = _
      rw [hsub, Res.bind_ok]
      unfold forEachUnpack
      rw [if_neg csz, him, hia0, if_neg cchk]
      simp only [if_true]
      unfold makeSlice
      rw [if_pos cms, Res.bind_ok, etn]
      have e0 : ((32 * 0 : Nat) : Int) = 0 := rfl
      rw [e0] at hloop
      simp only [List.nil_append, List.append_nil] at hloop
      rw [hloop]
      rfl
    · rw [hnone] at hp
      cases hp


/-- executable form of `Ty.Flat`: static elementary types, `string`, `bytes`, and slices (of slices …) of those -/
def Ty.flatb : Ty → Bool
  | .string => true
  | .bytes => true
  | .slice e => e.isStaticElem || (e.isDynamic && e.flatb)
  | t => t.isStaticElem

theorem Ty.flatb_sound : ∀ (t : Ty), t.flatb = true → t.Flat := by
  intro t
  induction t with
  | string => intro _; exact Or.inr ⟨rfl, dynOK_bytes _ (Or.inl rfl)⟩
  | bytes => intro _; exact Or.inr ⟨rfl, dynOK_bytes _ (Or.inr rfl)⟩
  | slice e ih =>
    intro h
    simp only [Ty.flatb, Bool.or_eq_true, Bool.and_eq_true] at h
    rcases h with h | ⟨hd, hf⟩
    · exact Or.inr ⟨rfl, dynOK_slice_static e h⟩
    · exact Or.inr ⟨rfl, dynOK_slice_dyn e hd (flat_dynamic (ih hf) hd)⟩
  | array n e _ => intro h; simp [Ty.flatb, Ty.isStaticElem] at h
  | uint _ => intro h; exact Or.inl h
  | int _ => intro h; exact Or.inl h
  | bool => intro h; exact Or.inl h
  | address => intro h; exact Or.inl h
  | tokenStandard => intro h; exact Or.inl h
  | hash => intro h; exact Or.inl h
  | fixedBytes _ => intro h; exact Or.inl h

end ZV.Abi
