import ZenonVerif.Model.Num
import ZenonVerif.Gen.Consts
/-
L4 (part) — proof-of-work threshold and plasma arithmetic.
Stands for pow/pow.go {getTargetByDifficulty, greaterDifficulty} and
vm/plasma.go {DifficultyToPlasma, FussedAmountToPlasma, GetDifficultyForPlasma}.
-/
namespace ZV.Pow
open ZV

/-- `pow.getTargetByDifficulty` as the uint64 value it stores (little-endian) in the target:
    `x := 2^64; y := x / d; x - y; Uint64()` (low 64 bits), and all-zero for d = 0. -/
def target (d : Nat) : Nat :=
  if d = 0 then 0 else (two64 - two64 / d) % two64

def targetBytes (d : Nat) : Bytes := leBytes 8 (target d)

/-- `greaterDifficulty x y`: scan from byte 7 down to 0; first difference decides; equal ⇒ true.
    Written on the reversed (most significant first) lists. -/
def geMSB : Bytes → Bytes → Bool
  | a :: as, b :: bs => if a > b then true else if a < b then false else geMSB as bs
  | _, _ => true

def greaterDifficulty (x y : Bytes) : Bool := geMSB x.reverse y.reverse

/-- `vm.DifficultyToPlasma` -/
def difficultyToPlasma (d : Nat) : Nat :=
  if d = 0 then 0
  else if d > Gen.MaxDifficultyForAccountBlock then Gen.MaxPoWPlasmaForAccountBlock
  else d / Gen.PoWDifficultyPerPlasma

/-- `vm.FussedAmountToPlasma` on a (possibly negative) big integer -/
def fusedAmountToPlasma (a : Int) : Nat :=
  if a ≤ 0 then 0
  else if a ≥ (Gen.MaxFussedAmountForAccountBig : Int) then Gen.MaxFusionPlasmaForAccount
  else (a.toNat % two64) / Gen.CostPerFusionUnit * Gen.PlasmaPerFusionUnit

/-- `vm.GetDifficultyForPlasma` : none = ErrForbiddenParam -/
def difficultyForPlasma (p : Nat) : Option Nat :=
  if p > Gen.MaxPoWPlasmaForAccountBlock then none
  else if p = 0 then some 0
  else some ((p * Gen.PoWDifficultyPerPlasma) % two64)

/-- `pow.CheckPoWNonce` with the hash prefix `h8` (first 8 bytes of SHA3(nonce ‖ dataHash)) as a parameter -/
def checkPoWNonce (h8 : Bytes) (d : Nat) : Bool := greaterDifficulty h8 (targetBytes d)

/-- A session of PoW checks as a node performs them one after the other (publish, gossip, momentum insertion, pool
    rebuild; several blocks interleaved): each query is the hash prefix of (nonce ‖ data hash) and the claimed difficulty.
    The checker has no memory: the answers are the pure predicate applied query by query, whatever was asked before
    (in particular an earlier successful check of the same (data hash, nonce) under another difficulty). -/
def checkSeq (qs : List (Bytes × Nat)) : List Bool := qs.map (fun q => checkPoWNonce q.1 q.2)

end ZV.Pow

namespace ZV.Pow
open ZV

/-- `vm.AvailablePlasma`: fused plasma of the beneficiary + plasma committed on the confirmed chain − plasma committed on
    the (unconfirmed) chain the block extends. `none` = "got negative available plasma" (the caller panics → the block
    is rejected as a VM panic). The result is capped by MaxFussedAmountForAccount as coded. -/
def availablePlasma (fusedQsr : Int) (committed uncommitted : Nat) : Option Nat :=
  let a : Int := (fusedAmountToPlasma fusedQsr : Int) + committed - uncommitted
  if a < 0 then none
  else if a > (Gen.MaxFussedAmountForAccountBig : Int) then some Gen.MaxFussedAmountForAccount
  else some a.toNat

inductive PlasmaVerdict where
  | ok (total : Nat)
  | negativeAvailable
  | notEnoughPlasma
  | limitReached
  | notEnoughTotal
  deriving DecidableEq, Repr

/-- `vm.enoughPlasma` for a user block: fused ≤ available, total = pow plasma + fused (uint64), total ≤ cap, total ≥ base -/
def enoughPlasma (fusedQsr : Int) (committed uncommitted fused difficulty base : Nat) : PlasmaVerdict :=
  match availablePlasma fusedQsr committed uncommitted with
  | none => .negativeAvailable
  | some avail =>
    if avail < fused then .notEnoughPlasma
    else
      let total := (difficultyToPlasma difficulty + fused) % two64
      if total > Gen.MaxPlasmaForAccountBlock then .limitReached
      else if total < base then .notEnoughTotal
      else .ok total

/-- base cost of a user block: receive / plain send with data / embedded method cost from the table -/
def basePlasma (isReceive : Bool) (methodCost : Option Nat) (dataLen : Nat) : Nat :=
  if isReceive then Gen.AccountBlockBasePlasma
  else match methodCost with
    | some c => c
    | none => dataLen * Gen.ABByteDataPlasma + Gen.AccountBlockBasePlasma

/-- `vm.GetBasePlasmaForAccountBlock` as the node evaluates it for a user's block: the base cost depends on the block type,
    on the cost of the called embedded method (when the destination is an embedded contract and the selector names one of
    its methods) and on the data length ONLY - the destination of a plain send (an ordinary account, the zero address, the
    sender itself) plays no role; a plain send whose data exceeds `MaxDataLength` has no base cost (ErrABDataTooBig) -/
def basePlasmaChecked (isReceive : Bool) (methodCost : Option Nat) (dataLen : Nat) : Option Nat :=
  if isReceive then some (basePlasma true methodCost dataLen)
  else match methodCost with
    | some c => some (basePlasma false (some c) dataLen)
    | none => if dataLen > Gen.MaxDataLength then none else some (basePlasma false none dataLen)

end ZV.Pow
