import ZenonVerif.Model.Num
import ZenonVerif.Gen.Consts
/-
L4 (part) — proof-of-work threshold and plasma arithmetic.
Stands for pow/pow.go {getTargetByDifficulty, greaterDifficulty} and
vm/plasma.go {DifficultyToPlasma, FussedAmountToPlasma, GetDifficultyForPlasma}.
-/
namespace ZV.Pow
open ZV

/-- `pow.getTargetByDifficulty` as the uint64 value it stores (little-endian) in the target:
    `x := 2^64; y := x / d; x - y; Uint64()` (low 64 bits), and all-zero for d = 0. -/
def target (d : Nat) : Nat :=
  if d = 0 then 0 else (two64 - two64 / d) % two64

def targetBytes (d : Nat) : Bytes := leBytes 8 (target d)

/-- `greaterDifficulty x y`: scan from byte 7 down to 0; first difference decides; equal ⇒ true.
    Written on the reversed (most significant first) lists. -/
def geMSB : Bytes → Bytes → Bool
  | a :: as, b :: bs => if a > b then true else if a < b then false else geMSB as bs
  | _, _ => true

def greaterDifficulty (x y : Bytes) : Bool := geMSB x.reverse y.reverse

/-- `vm.DifficultyToPlasma` -/
def difficultyToPlasma (d : Nat) : Nat :=
  if d = 0 then 0
  else if d > Gen.MaxDifficultyForAccountBlock then Gen.MaxPoWPlasmaForAccountBlock
  else d / Gen.PoWDifficultyPerPlasma

/-- `vm.FussedAmountToPlasma` on a (possibly negative) big integer -/
def fusedAmountToPlasma (a : Int) : Nat :=
  if a ≤ 0 then 0
  else if a ≥ (Gen.MaxFussedAmountForAccountBig : Int) then Gen.MaxFusionPlasmaForAccount
  else (a.toNat % two64) / Gen.CostPerFusionUnit * Gen.PlasmaPerFusionUnit

/-- `vm.GetDifficultyForPlasma` : none = ErrForbiddenParam -/
def difficultyForPlasma (p : Nat) : Option Nat :=
  if p > Gen.MaxPoWPlasmaForAccountBlock then none
  else if p = 0 then some 0
  else some ((p * Gen.PoWDifficultyPerPlasma) % two64)

/-- `pow.CheckPoWNonce` with the hash prefix `h8` (first 8 bytes of SHA3(nonce ‖ dataHash)) as a parameter -/
def checkPoWNonce (h8 : Bytes) (d : Nat) : Bool := greaterDifficulty h8 (targetBytes d)

/-- A session of PoW checks as a node performs them one after the other (publish, gossip, momentum insertion, pool
    rebuild; several blocks interleaved): each query is the hash prefix of (nonce ‖ data hash) and the claimed difficulty.
    The checker has no memory: the answers are the pure predicate applied query by query, whatever was asked before
    (in particular an earlier successful check of the same (data hash, nonce) under another difficulty). -/
def checkSeq (qs : List (Bytes × Nat)) : List Bool := qs.map (fun q => checkPoWNonce q.1 q.2)

end ZV.Pow

namespace ZV.Pow
open ZV

/-- `vm.AvailablePlasma`: fused plasma of the beneficiary + plasma committed on the confirmed chain − plasma committed on
    the (unconfirmed) chain the block extends. `none` = "got negative available plasma" (the caller panics → the block
    is rejected as a VM panic). The result is capped by MaxFussedAmountForAccount as coded. -/
def availablePlasma (fusedQsr : Int) (committed uncommitted : Nat) : Option Nat :=
  let a : Int := (fusedAmountToPlasma fusedQsr : Int) + committed - uncommitted
  if a < 0 then none
  else if a > (Gen.MaxFussedAmountForAccountBig : Int) then some Gen.MaxFussedAmountForAccount
  else some a.toNat

inductive PlasmaVerdict where
  | ok (total : Nat)
  | negativeAvailable
  | notEnoughPlasma
  | limitReached
  | notEnoughTotal
  deriving DecidableEq, Repr

/-- `vm.enoughPlasma` for a user block: fused ≤ available, total = pow plasma + fused (uint64), total ≤ cap, total ≥ base -/
def enoughPlasma (fusedQsr : Int) (committed uncommitted fused difficulty base : Nat) : PlasmaVerdict :=
  match availablePlasma fusedQsr committed uncommitted with
  | none => .negativeAvailable
  | some avail =>
    if avail < fused then .notEnoughPlasma
    else
      let total := (difficultyToPlasma difficulty + fused) % two64
      if total > Gen.MaxPlasmaForAccountBlock then .limitReached
      else if total < base then .notEnoughTotal
      else .ok total

/-- base cost of a user block: receive / plain send with data / embedded method cost from the table -/
def basePlasma (isReceive : Bool) (methodCost : Option Nat) (dataLen : Nat) : Nat :=
  if isReceive then Gen.AccountBlockBasePlasma
  else match methodCost with
    | some c => c
    | none => dataLen * Gen.ABByteDataPlasma + Gen.AccountBlockBasePlasma

/-- `vm.GetBasePlasmaForAccountBlock` as the node evaluates it for a user's block: the base cost depends on the block type,
    on the cost of the called embedded method (when the destination is an embedded contract and the selector names one of
    its methods) and on the data length ONLY - the destination of a plain send (an ordinary account, the zero address, the
    sender itself) plays no role; a plain send whose data exceeds `MaxDataLength` has no base cost (ErrABDataTooBig) -/
def basePlasmaChecked (isReceive : Bool) (methodCost : Option Nat) (dataLen : Nat) : Option Nat :=
  if isReceive then some (basePlasma true methodCost dataLen)
  else match methodCost with
    | some c => some (basePlasma false (some c) dataLen)
    | none => if dataLen > Gen.MaxDataLength then none else some (basePlasma false none dataLen)

end ZV.Pow

namespace ZV.Pow
open ZV

/-! ## base cost of the embedded methods: the REVIEWED expectation

The statement prices a call of an embedded contract method by the KIND of the method: a method whose embedded receive
only changes the contract's storage is `simple` (2.5 base costs), a method whose receive answers with ONE descendant send
block (a withdrawal, a refund of a locked amount, a payout, a mint) is `withdraw` (3.5), one that answers with TWO is
`doubleWithdraw` (4.5). Two more kinds exist in the unchanged tree and are recorded as such: the registration of a pillar
costs two simple calls (`twoSimple`; it burns the deposited QSR through the token contract) and the reward collection of
pillars, sentinels and stakers costs a simple call + a withdrawal in the origin method table and a simple call in the accelerator table and the later
tables built on it
(`reward`; "it's not called enough to cause issues", common.go).

The table below is HAND-WRITTEN from a reading of vm/embedded/implementation/*.go (what each `ReceiveBlock` emits) - it is
not generated. `Props/C12.lean` proves that it names exactly the methods the real `GetEmbeddedMethod` resolves (a method
added later fails the theorem until it is reviewed here) and that the real `GetPlasma` of every method under every spork
regime is the cost of its reviewed kind. The driver answers `plasma-method` lines with `reviewedCost`. -/

inductive PlasmaClass where
  | simple          -- storage only
  | withdraw        -- one descendant send
  | doubleWithdraw  -- two descendant sends
  | twoSimple       -- pillar registration
  | reward          -- CollectReward of pillar / sentinel / stake: simple + withdraw in the origin table, simple in the later ones
  deriving DecidableEq, Repr

/-- cost of a kind with the (regenerated) plasma table; `accelerator` = the method table in force is the accelerator
    table or one of the later ones, which are built on top of it (bridge-and-liquidity, htlc): any spork is enforced -/
def classCost (accelerator : Bool) : PlasmaClass → Nat
  | .simple => Gen.PT_EmbeddedSimple
  | .withdraw => Gen.PT_EmbeddedWWithdraw
  | .doubleWithdraw => Gen.PT_EmbeddedWDoubleWithdraw
  | .twoSimple => 2 * Gen.PT_EmbeddedSimple
  | .reward => if accelerator then Gen.PT_EmbeddedSimple else Gen.PT_EmbeddedSimple + Gen.PT_EmbeddedWWithdraw

open PlasmaClass in
/-- contract.Method ↦ kind, in the order of the generated `Gen.methodNames` (sorted) -/
def reviewedClasses : List (String × PlasmaClass) := [
  ("accelerator.AddPhase", simple),
  ("accelerator.CreateProject", simple),
  ("accelerator.Donate", simple),
  ("accelerator.Update", withdraw),            -- pays the due phases
  ("accelerator.UpdatePhase", simple),
  ("accelerator.VoteByName", simple),
  ("accelerator.VoteByProdAddress", simple),
  ("bridge.ChangeAdministrator", simple),
  ("bridge.ChangeTssECDSAPubKey", simple),
  ("bridge.Emergency", simple),
  ("bridge.Halt", simple),
  ("bridge.NominateGuardians", simple),
  ("bridge.ProposeAdministrator", simple),
  ("bridge.Redeem", withdraw),                 -- pays / mints the unwrapped amount
  ("bridge.RemoveNetwork", simple),
  ("bridge.RemoveTokenPair", simple),
  ("bridge.RevokeUnwrapRequest", simple),
  ("bridge.SetAllowKeyGen", simple),
  ("bridge.SetBridgeMetadata", simple),
  ("bridge.SetNetwork", simple),
  ("bridge.SetNetworkMetadata", simple),
  ("bridge.SetOrchestratorInfo", simple),
  ("bridge.SetTokenPair", simple),
  ("bridge.Unhalt", simple),
  ("bridge.UnwrapToken", simple),
  ("bridge.UpdateWrapRequest", simple),
  ("bridge.WrapToken", simple),
  ("htlc.AllowProxyUnlock", simple),
  ("htlc.Create", simple),
  ("htlc.DenyProxyUnlock", simple),
  ("htlc.Reclaim", withdraw),                  -- pays the locked amount back
  ("htlc.Unlock", withdraw),                   -- pays the locked amount out
  ("liquidity.BurnZnn", simple),
  ("liquidity.CancelLiquidityStake", withdraw),-- pays the staked amount back
  ("liquidity.ChangeAdministrator", simple),
  ("liquidity.CollectReward", doubleWithdraw), -- ZNN and QSR reward
  ("liquidity.Donate", simple),
  ("liquidity.Emergency", simple),
  ("liquidity.Fund", simple),
  ("liquidity.LiquidityStake", simple),
  ("liquidity.NominateGuardians", simple),
  ("liquidity.ProposeAdministrator", simple),
  ("liquidity.SetAdditionalReward", simple),
  ("liquidity.SetIsHalted", simple),
  ("liquidity.SetTokenTuple", simple),
  ("liquidity.UnlockLiquidityStakeEntries", simple),
  ("liquidity.Update", simple),
  ("pillar.CollectReward", reward),
  ("pillar.Delegate", simple),
  ("pillar.DepositQsr", simple),
  ("pillar.Register", twoSimple),
  ("pillar.RegisterLegacy", twoSimple),
  ("pillar.Revoke", withdraw),                 -- pays the ZNN stake back
  ("pillar.Undelegate", simple),
  ("pillar.Update", simple),
  ("pillar.UpdatePillar", simple),
  ("pillar.WithdrawQsr", withdraw),            -- pays the deposited QSR back
  ("plasma.CancelFuse", withdraw),             -- pays the fused QSR back
  ("plasma.Fuse", simple),
  ("sentinel.CollectReward", reward),
  ("sentinel.DepositQsr", simple),
  ("sentinel.Register", simple),
  ("sentinel.Revoke", doubleWithdraw),         -- pays ZNN and QSR back
  ("sentinel.Update", simple),
  ("sentinel.WithdrawQsr", withdraw),          -- pays the deposited QSR back
  ("spork.ActivateSpork", simple),
  ("spork.CreateSpork", simple),
  ("stake.Cancel", withdraw),                  -- pays the staked ZNN back
  ("stake.CollectReward", reward),
  ("stake.Stake", simple),
  ("stake.Update", simple),
  ("swap.RetrieveAssets", doubleWithdraw),     -- pays ZNN and QSR out
  ("token.Burn", simple),
  ("token.IssueToken", withdraw),              -- sends the initial supply to the owner
  ("token.Mint", withdraw),                    -- sends the minted amount to the receiver
  ("token.UpdateToken", simple)]

/-- reviewed kind of a method by name -/
def reviewedClass (name : String) : Option PlasmaClass :=
  (reviewedClasses.find? (fun e => e.1 == name)).map (·.2)

/-- reviewed base cost of a call of `name` under spork regime `regime` (= accelerator + 2·bridge + 4·htlc); `none` = the
    method was never reviewed -/
def reviewedCost (regime : Nat) (name : String) : Option Nat :=
  (reviewedClass name).map (classCost (regime != 0))

/-- the generated row (regime, index into the generated names, plasma of the real GetPlasma) agrees with the review -/
def rowAsReviewed (names : List String) (row : Nat × Nat × Nat) : Bool :=
  match names[row.2.1]? with
  | none => false
  | some name => reviewedCost row.1 name == some row.2.2

/-- verdict on a call of an embedded method that carries `total` plasma the account really owns (fused and/or worked for):
    refused for too little total plasma iff it is below the reviewed cost -/
def methodCallPaid (regime : Nat) (name : String) (total : Nat) : Option Bool :=
  (reviewedCost regime name).map (fun c => decide (c ≤ total))

end ZV.Pow

namespace ZV.Pow
open ZV

/-! ## plasma accounting on a CHAIN (reorganisations, pool operations)

`vm.AvailablePlasma(momentumStore(M), accountStore)` reads three figures: the QSR fused for the account in the plasma
contract's storage AS OF the acknowledged momentum M, the account's chain-plasma counter as of M (`committed`) and the
counter on the chain of blocks the new block extends (`uncommitted`). On a chain these are sums over what the chain holds:
the Fuse / CancelFuse receives of the plasma contract confirmed up to M, and the fused plasma of the account's own blocks.
Nothing else - in particular nothing of a branch the node was on before - may enter. -/

/-- a Fuse (+amount) / CancelFuse (−amount) receive of the plasma contract for the account, confirmed by the momentum of
    height `height` of the chain -/
structure FuseEv where
  height : Nat
  delta : Int
  deriving Repr, DecidableEq

/-- a block of the account's chain below the new block: `conf` = height of the momentum of this chain that confirms it
    (`none` = it sits in the unconfirmed pool), `fused` = its FusedPlasma -/
structure AccBlk where
  conf : Option Nat
  fused : Nat
  deriving Repr, DecidableEq

def sumInt : List Int → Int
  | [] => 0
  | x :: xs => x + sumInt xs

def sumNat : List Nat → Nat
  | [] => 0
  | x :: xs => x + sumNat xs

/-- QSR fused for the account as of the momentum of height h: genesis entries + what the receives confirmed up to h moved -/
def fusedQsrAt (genesis : Int) (evs : List FuseEv) (h : Nat) : Int :=
  genesis + sumInt ((evs.filter (fun e => e.height ≤ h)).map (·.delta))

def confirmedBy (h : Nat) (b : AccBlk) : Bool :=
  match b.conf with
  | some c => c ≤ h
  | none => false

/-- the account's chain-plasma counter as of momentum h (`GetChainPlasma` of the momentum store's account store) -/
def committedAt (blocks : List AccBlk) (h : Nat) : Nat := sumNat ((blocks.filter (confirmedBy h)).map (·.fused))

/-- the counter on the chain the new block extends (every earlier block, confirmed or pooled) -/
def uncommittedOf (blocks : List AccBlk) : Nat := sumNat (blocks.map (·.fused))

/-- `vm.AvailablePlasma` for a block of the account that acknowledges the momentum of height h of this chain -/
def availableOnChain (genesis : Int) (evs : List FuseEv) (blocks : List AccBlk) (h : Nat) : Option Nat :=
  availablePlasma (fusedQsrAt genesis evs h) (committedAt blocks h) (uncommittedOf blocks)

end ZV.Pow
