/-
Peer-delivered contract receive blocks (vm/vm.go `VM.applyBlock`, case BlockTypeContractReceive, reached through
`Supervisor.ApplyBlock` from protocol.chainBridge {AddAccountBlocks, InsertChain} and ledger.publishRawTransaction).

A contract receive is unsigned. Its hash covers its own fields and the HASH FIELDS of its descendant (contract-send)
blocks; nothing covers the content of a descendant. The node regenerates the block for the named send and accepts the
delivered one iff the changes hash and the hash are those of the regenerated block (the verifier has checked before that
the delivered hash field is the hash of the delivered block's own fields). What is stored are the REGENERATED
descendants: the delivered descendant objects are not used for anything but their hash fields.
`α` is whatever stands for the content of a descendant block (the ledger model's `Desc` in Props/C01Peer, the printed
content in the driver).
-/
namespace ZV.PeerDesc

/-- a delivered contract receive as far as acceptance is concerned -/
structure Delivery (α : Type) where
  ownOk : Bool        -- verifier: delivered hash field = hash of the delivered block's own covered fields and descendant hash fields
  changesSame : Bool  -- delivered changes hash = regenerated changes hash
  hashSame : Bool     -- delivered hash field = hash of the regenerated block
  descs : List α      -- the delivered descendant objects (content chosen by the peer)

/-- `gen` = the descendants the node regenerates; result = the descendants it stores, `none` = refused -/
def accept {α : Type} (gen : List α) (d : Delivery α) : Option (List α) :=
  if d.ownOk && d.changesSame && d.hashSame then some gen else none

/-- the node already holds a block under the delivered identifier (chainBridge: `GetPatch(...) != nil → continue`):
    the delivery changes nothing -/
def acceptHeld {α : Type} (held : List α) (_ : Delivery α) : List α := held

end ZV.PeerDesc
