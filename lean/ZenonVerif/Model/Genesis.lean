import ZenonVerif.Model.Num
import ZenonVerif.Gen.Genesis
/-
C20 — genesis. Stands for
  chain/nom/momentum_content.go   NewMomentumContent, AccountBlockHeaderComparer
  common/types/account_header.go  AccountHeader.Bytes
  chain/genesis/shared_tests.go   CheckGenesis and its five validators, checkAccountBalance
  chain/genesis/account_block.go  wrap (how GenesisBlocks entries become ledger balances: SetBalance per entry,
                                  in list order, for every entry of the address — later entries overwrite)
  chain/chain.go                  checkGenesisCompatibility
Core Lean only.
-/
namespace ZV.Genesis
open ZV

/-! ### momentum content: header order -/

/-- `types.AccountHeader` -/
structure Header where
  addr : Bytes
  height : Nat
  hash : Bytes
  deriving DecidableEq, Repr

/-- `AccountHeader.Bytes()` = Address ‖ Uint64ToBytes(Height) ‖ Hash (field order = `Gen.gnAccountHeaderBytesFields`) -/
def Header.bytes (h : Header) : Bytes := h.addr ++ (beBytes 8 h.height ++ h.hash)

/-- what the Go types guarantee: 20-byte address, 32-byte hash, uint64 height -/
def Header.WF (h : Header) : Prop := h.addr.length = 20 ∧ h.hash.length = Gen.GnHashSize ∧ h.height < two64

/-- `AccountBlockHeaderComparer`: `bytes.Compare(a.Bytes(), b.Bytes()) <= 0` -/
def hdrLe (a b : Header) : Bool := bytesLe a.bytes b.bytes

/-- `NewMomentumContent`: the headers sorted with that comparer (Go: `sort.Slice`, an unstable pdqsort; the model
    uses merge sort — `C20.content_sorted_unique` shows the result does not depend on the algorithm) -/
def newMomentumContent (l : List Header) : List Header := l.mergeSort hdrLe

/-! ### the part of a genesis configuration the validators look at -/

/-- `GenesisBlockConfig`: `BalanceList` is a Go map — modelled as an association list (keys distinct: `Config.WF`) -/
structure Block where
  addr : Bytes
  bal : List (Bytes × Int)
  deriving DecidableEq, Repr

/-- `definition.TokenInfo` (the three fields that matter here) -/
structure Token where
  zts : Bytes
  total : Int
  max : Int
  deriving DecidableEq, Repr

/-- `GenesisConfig`; the `has…` flags say whether the pointer field is non-nil -/
structure Config where
  hasBlocks : Bool := true
  hasTokens : Bool := true
  hasPillars : Bool := true
  hasSporkAddr : Bool := true
  hasPlasma : Bool := true
  hasSwap : Bool := true
  blocks : List Block := []
  tokens : List Token := []
  /-- `PillarConfig.Pillars[i].Amount` -/
  pillars : List Int := []
  /-- `PlasmaConfig.Fusions[i].Amount`; `none` = nil entry -/
  fusions : List (Option Int) := []
  /-- `SwapConfig.Entries[i].(Znn, Qsr)`; `none` = nil amount -/
  swaps : List (Option Int × Option Int) := []
  deriving DecidableEq, Repr

/-- representation invariant of the Go types: map keys are distinct -/
def Config.WF (c : Config) : Prop := ∀ b ∈ c.blocks, (b.bal.map (·.1)).Nodup

def isum : List Int → Int
  | [] => 0
  | x :: xs => x + isum xs

/-- map lookup -/
def lookup (m : List (Bytes × Int)) (z : Bytes) : Option Int :=
  match m with
  | [] => none
  | (k, v) :: rest => if k = z then some v else lookup rest z

/-- the two loops of `checkAccountBalance` for one block: every given token is required with the same amount;
    every required token with a non-zero amount is given. (Go iterates maps in random order and returns the first
    error; acceptance does not depend on that order.) -/
def blockOK (required : List (Bytes × Int)) (b : Block) : Bool :=
  b.bal.all (fun e => match lookup required e.1 with
                      | none => false
                      | some r => r == e.2) &&
  required.all (fun r => (lookup b.bal r.1).isSome || r.2 == 0)

/-- `checkAccountBalance(g, addr, required)`: only the entries OF THAT ADDRESS are looked at — none at all is fine -/
def checkAccountBalance (c : Config) (addr : Bytes) (required : List (Bytes × Int)) : Bool :=
  (c.blocks.filter (fun b => b.addr = addr)).all (blockOK required)

def fusionSum (c : Config) : Int := isum (c.fusions.map (fun f => f.getD 0))
def pillarSum (c : Config) : Int := isum c.pillars

/-- `CheckFieldsExist` -/
def checkFieldsExist (c : Config) : Bool :=
  c.hasBlocks && c.hasTokens && c.hasPillars && c.hasSporkAddr && c.hasPlasma && c.hasSwap

/-- `CheckPlasmaInfo` -/
def checkPlasmaInfo (c : Config) : Bool :=
  c.fusions.all (·.isSome) && checkAccountBalance c Gen.PlasmaContract [(Gen.QsrTokenStandard, fusionSum c)]

/-- `CheckSwapAccount` -/
def checkSwapAccount (c : Config) : Bool :=
  c.swaps.all (fun e => e.1.isSome && e.2.isSome) &&
    checkAccountBalance c Gen.SwapContract [(Gen.ZnnTokenStandard, 0), (Gen.QsrTokenStandard, 0)]

/-- `CheckPillarBalance` -/
def checkPillarBalance (c : Config) : Bool :=
  checkAccountBalance c Gen.PillarContract [(Gen.ZnnTokenStandard, pillarSum c)]

/-- all `(zts, amount)` entries of all blocks -/
def givenEntries (c : Config) : List (Bytes × Int) := c.blocks.flatMap (·.bal)

/-- the `given` map of `CheckTokenTotalSupply`: sum over ALL entries of all blocks -/
def givenSum (c : Config) (z : Bytes) : Int := isum (((givenEntries c).filter (fun e => e.1 = z)).map (·.2))

def givenHas (c : Config) (z : Bytes) : Bool := (givenEntries c).any (fun e => e.1 = z)

/-- `CheckTokenTotalSupply` (MaxSupply is not looked at) -/
def checkTokenTotalSupply (c : Config) : Bool :=
  c.tokens.all (fun t => givenHas c t.zts && t.total == givenSum c t.zts) &&
    (givenEntries c).all (fun e => c.tokens.any (fun t => t.zts = e.1))

inductive Verdict
  | ok | fields | plasma | swap | pillar | supply
  deriving DecidableEq, Repr

def Verdict.show : Verdict → String
  | .ok => "ok"
  | .fields => "reject fields"
  | .plasma => "reject plasma"
  | .swap => "reject swap"
  | .pillar => "reject pillar"
  | .supply => "reject supply"

/-- `CheckGenesis`: the validators in the order of `Gen.checkGenesisOrder`, first refusal wins -/
def checkGenesis (c : Config) : Verdict :=
  if !checkFieldsExist c then .fields
  else if !checkPlasmaInfo c then .plasma
  else if !checkSwapAccount c then .swap
  else if !checkPillarBalance c then .pillar
  else if !checkTokenTotalSupply c then .supply
  else .ok

/-! ### what the ledger holds after genesis (specification side) -/

/-- what `accountStore.SetBalance` keeps of an amount: `common.BigIntToBytes` writes `big.Int.Bytes()`, the ABSOLUTE
    value, and `GetBalance` reads it back with `SetBytes` — the sign is lost -/
def stored (a : Int) : Int := a.natAbs

/-- `wrap`: for every entry of the address, in list order, `SetBalance(zts, amount)` for each map entry — a later
    entry overwrites an earlier one; an address without entries holds nothing -/
def ledgerBalance (c : Config) (addr z : Bytes) : Int :=
  (c.blocks.filter (fun b => b.addr = addr)).foldl (fun acc b => ((lookup b.bal z).map stored).getD acc) 0

/-- no negative amount in any balance list (nothing in the code checks this) -/
def Config.NonNeg (c : Config) : Prop := ∀ b ∈ c.blocks, ∀ e ∈ b.bal, 0 ≤ e.2

def dedup : List Bytes → List Bytes
  | [] => []
  | a :: l => if a ∈ l then dedup l else a :: dedup l

/-- total amount of token `z` on the ledger: one balance per address -/
def ledgerSupply (c : Config) (z : Bytes) : Int :=
  isum ((dedup (c.blocks.map (·.addr))).map (fun a => ledgerBalance c a z))

/-! ### start-up comparison -/

inductive Startup
  | inserted   -- empty store: genesis momentum inserted
  | matches    -- stored height-1 momentum hash = configured genesis hash
  | refused    -- "The genesis state is incorrect"
  deriving DecidableEq, Repr

/-- `chain.checkGenesisCompatibility`: `stored` = hash of the height-1 momentum of the database (`none` = empty
    database, frontier identifier is zero); returns the outcome and the height-1 hash afterwards -/
def checkGenesisCompatibility (stored : Option Bytes) (configured : Bytes) : Startup × Option Bytes :=
  match stored with
  | none => (.inserted, some configured)
  | some h => if h ≠ configured then (.refused, some h) else (.matches, some h)

/-! ### writes with one key per entry (the genesis writers) -/

/-- a store as a function; `put` overwrites -/
def put (s : Bytes → Option Bytes) (k v : Bytes) : Bytes → Option Bytes := fun x => if x = k then some v else s x

def applyWrites (s : Bytes → Option Bytes) : List (Bytes × Bytes) → Bytes → Option Bytes
  | [] => s
  | (k, v) :: rest => applyWrites (put s k v) rest

end ZV.Genesis
