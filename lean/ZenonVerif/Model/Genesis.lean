import ZenonVerif.Model.Num
import ZenonVerif.Gen.Genesis
/-
C20 — genesis. Stands for
  chain/nom/momentum_content.go   NewMomentumContent, AccountBlockHeaderComparer
  common/types/account_header.go  AccountHeader.Bytes
  chain/genesis/shared_tests.go   CheckGenesis and its five validators, checkAccountBalance (as repaired by 842d79c,
                                  bf6e6a8, 5b5b1ec, 4c4dee5, feb4686: no-entry, duplicate-entry, nil/negative-amount,
                                  MaxSupply checks, nil/negative fusion, pillar and swap amounts)
  chain/genesis/account_block.go  wrap (how GenesisBlocks entries become ledger balances: SetBalance per entry,
                                  in list order, for every entry of the address — later entries overwrite)
  chain/chain.go                  checkGenesisCompatibility
Core Lean only.
-/
namespace ZV.Genesis
open ZV

/-! ### momentum content: header order -/

/-- `types.AccountHeader` -/
structure Header where
  addr : Bytes
  height : Nat
  hash : Bytes
  deriving DecidableEq, Repr

/-- `AccountHeader.Bytes()` = Address ‖ Uint64ToBytes(Height) ‖ Hash (field order = `Gen.gnAccountHeaderBytesFields`) -/
def Header.bytes (h : Header) : Bytes := h.addr ++ (beBytes 8 h.height ++ h.hash)

/-- what the Go types guarantee: 20-byte address, 32-byte hash, uint64 height -/
def Header.WF (h : Header) : Prop := h.addr.length = 20 ∧ h.hash.length = Gen.GnHashSize ∧ h.height < two64

/-- `AccountBlockHeaderComparer`: `bytes.Compare(a.Bytes(), b.Bytes()) <= 0` -/
def hdrLe (a b : Header) : Bool := bytesLe a.bytes b.bytes

/-- `NewMomentumContent`: the headers sorted with that comparer (Go: `sort.Slice`, an unstable pdqsort; the model
    uses merge sort — `C20.content_sorted_unique` shows the result does not depend on the algorithm) -/
def newMomentumContent (l : List Header) : List Header := l.mergeSort hdrLe

/-! ### the part of a genesis configuration the validators look at -/

/-- `GenesisBlockConfig`: `BalanceList` is a Go map `map[ZenonTokenStandard]*big.Int` — modelled as an association list
    (keys distinct: `Config.WF`); the amount `none` is the nil pointer (a `null` / what a hand-built configuration can
    carry) -/
structure Block where
  addr : Bytes
  bal : List (Bytes × Option Int)
  deriving DecidableEq, Repr

/-- `definition.TokenInfo` (the three fields that matter here); `max = none` is a nil `MaxSupply` (field missing in the
    file). A nil `TotalSupply` is outside the model: the validator dereferences it (see the note at `checkGenesis`). -/
structure Token where
  zts : Bytes
  total : Int
  max : Option Int
  deriving DecidableEq, Repr

/-- `GenesisConfig`; the `has…` flags say whether the pointer field is non-nil -/
structure Config where
  hasBlocks : Bool := true
  hasTokens : Bool := true
  hasPillars : Bool := true
  hasSporkAddr : Bool := true
  hasPlasma : Bool := true
  hasSwap : Bool := true
  blocks : List Block := []
  tokens : List Token := []
  /-- `PillarConfig.Pillars[i].Amount`; `none` = nil amount -/
  pillars : List (Option Int) := []
  /-- `PlasmaConfig.Fusions[i]`: `none` = nil entry, `some none` = entry with a nil `Amount`, `some (some a)` = amount `a` -/
  fusions : List (Option (Option Int)) := []
  /-- `SwapConfig.Entries[i].(Znn, Qsr)`; `none` = nil amount -/
  swaps : List (Option Int × Option Int) := []
  deriving DecidableEq, Repr

/-- representation invariant of the Go types: the keys of a Go map are distinct (the JSON decoder keeps the last of two
    equal keys, so a file cannot break it either) -/
def Config.WF (c : Config) : Prop := ∀ b ∈ c.blocks, (b.bal.map (·.1)).Nodup

def isum : List Int → Int
  | [] => 0
  | x :: xs => x + isum xs

/-- map lookup (`v, ok := m[z]`: `none` = not ok) -/
def lookup {α : Type} (m : List (Bytes × α)) (z : Bytes) : Option α :=
  match m with
  | [] => none
  | (k, v) :: rest => if k = z then some v else lookup rest z

/-- the two loops of `checkAccountBalance` for one block: every given token is required with the same amount;
    every required token with a non-zero amount is given (the KEY is present — `_, ok := block.BalanceList[token]`).
    (Go iterates maps in random order and returns the first error; acceptance does not depend on that order.)
    A nil amount under a token that is not required is the "Extra token" error; under a required token Go dereferences
    nil (`requiredAmount.Cmp(nil)`): never accepted — the model refuses in the same validator. -/
def blockOK (required : List (Bytes × Int)) (b : Block) : Bool :=
  b.bal.all (fun e => match lookup required e.1 with
                      | none => false
                      | some r => e.2 == some r) &&
  required.all (fun r => (lookup b.bal r.1).isSome || r.2 == 0)

/-- the `GenesisBlocks` entries of one address -/
def ownBlocks (c : Config) (addr : Bytes) : List Block := c.blocks.filter (fun b => b.addr = addr)

/-- `checkAccountBalance(g, addr, required)`: first the loop over the entries OF THAT ADDRESS (`blockOK` each), then
    `if !found`: an address without any entry is fine only when every required amount is zero -/
def checkAccountBalance (c : Config) (addr : Bytes) (required : List (Bytes × Int)) : Bool :=
  (ownBlocks c addr).all (blockOK required) &&
    (!(ownBlocks c addr).isEmpty || required.all (fun r => r.2 == 0))

/-- `amount == nil || amount.Sign() < 0` is the error (balance lists since 5b5b1ec; fusion, pillar and swap amounts
    since feb4686) -/
def amountOK (a : Option Int) : Bool :=
  match a with
  | none => false
  | some v => decide (0 ≤ v)

/-- the amount of a fusion entry (0 for a nil entry / nil amount: never summed, the loop has returned before) -/
def fusionAmt (f : Option (Option Int)) : Int := (f.getD none).getD 0

/-- the loop body of `CheckPlasmaInfo` before the addition: `fusion == nil` is the first error, then
    `fusion.Amount == nil || fusion.Amount.Sign() < 0` -/
def fusionOK (f : Option (Option Int)) : Bool :=
  match f with
  | none => false
  | some a => amountOK a

def fusionSum (c : Config) : Int := isum (c.fusions.map fusionAmt)
def pillarSum (c : Config) : Int := isum (c.pillars.map (fun p => p.getD 0))

/-- `CheckFieldsExist` -/
def checkFieldsExist (c : Config) : Bool :=
  c.hasBlocks && c.hasTokens && c.hasPillars && c.hasSporkAddr && c.hasPlasma && c.hasSwap

/-- `CheckPlasmaInfo`: the loop over the fusions (entry present, amount present and non-negative, add), then the
    plasma contract must hold the sum in QSR -/
def checkPlasmaInfo (c : Config) : Bool :=
  c.fusions.all fusionOK && checkAccountBalance c Gen.PlasmaContract [(Gen.QsrTokenStandard, fusionSum c)]

/-- `CheckSwapAccount`: every entry has both amounts present and non-negative
    (`Qsr == nil || Znn == nil || Qsr.Sign() < 0 || Znn.Sign() < 0` is the error), then the swap contract holds 0 / 0 -/
def checkSwapAccount (c : Config) : Bool :=
  c.swaps.all (fun e => amountOK e.1 && amountOK e.2) &&
    checkAccountBalance c Gen.SwapContract [(Gen.ZnnTokenStandard, 0), (Gen.QsrTokenStandard, 0)]

/-- `CheckPillarBalance`: the loop over the pillars (amount present and non-negative, add), then the pillar contract
    must hold the sum in ZNN -/
def checkPillarBalance (c : Config) : Bool :=
  c.pillars.all amountOK && checkAccountBalance c Gen.PillarContract [(Gen.ZnnTokenStandard, pillarSum c)]

/-- first loop of `CheckTokenTotalSupply`, block by block in list order with the `seen` set: an address seen before is
    the error "more than one genesis block"; then every amount of the block must be present and non-negative -/
def scanBlocks : List Bytes → List Block → Bool
  | _, [] => true
  | seen, b :: rest => !(seen.contains b.addr) && b.bal.all (fun e => amountOK e.2) && scanBlocks (b.addr :: seen) rest

/-- all `(zts, amount)` entries of all blocks -/
def givenEntries (c : Config) : List (Bytes × Option Int) := c.blocks.flatMap (·.bal)

/-- the `given` map of `CheckTokenTotalSupply`: sum over ALL entries of all blocks (once `scanBlocks` has passed every
    amount is present, so `getD` never takes its default) -/
def givenSum (c : Config) (z : Bytes) : Int :=
  isum (((givenEntries c).filter (fun e => e.1 = z)).map (fun e => e.2.getD 0))

def givenHas (c : Config) (z : Bytes) : Bool := (givenEntries c).any (fun e => e.1 = z)

/-- `MaxSupply == nil || TotalSupply.Cmp(MaxSupply) > 0` is the error -/
def maxOK (t : Token) : Bool :=
  match t.max with
  | none => false
  | some m => decide (t.total ≤ m)

/-- second loop of `CheckTokenTotalSupply`, per declared token in this order: given at all, `TotalSupply` equals the
    sum given, `MaxSupply` present and not below `TotalSupply` -/
def tokenOK (c : Config) (t : Token) : Bool := givenHas c t.zts && t.total == givenSum c t.zts && maxOK t

/-- `CheckTokenTotalSupply`: the three loops in the order of the code; every refusal is one verdict class, so which of
    several applicable errors Go reports does not show in the verdict -/
def checkTokenTotalSupply (c : Config) : Bool :=
  scanBlocks [] c.blocks &&
    c.tokens.all (tokenOK c) &&
    (givenEntries c).all (fun e => c.tokens.any (fun t => t.zts = e.1))

inductive Verdict
  | ok | fields | plasma | swap | pillar | supply
  deriving DecidableEq, Repr

def Verdict.show : Verdict → String
  | .ok => "ok"
  | .fields => "reject fields"
  | .plasma => "reject plasma"
  | .swap => "reject swap"
  | .pillar => "reject pillar"
  | .supply => "reject supply"

/-- `CheckGenesis`: the validators in the order of `Gen.checkGenesisOrder`, first refusal wins.
    Domain: the verdict CLASS is the real one wherever the real validators return (nil or an error). They dereference nil
    — a Go panic, which `ReadGenesisConfigFromFile` now turns into `ErrInvalidGenesisConfig` — on a missing `TotalSupply`
    (not representable here: never accepted) and on a nil amount under the required token in an entry of the plasma /
    pillar / swap contract (the model refuses it in that validator). A missing pillar / fusion `Amount` is a refusal
    since feb4686 and is inside the model. -/
def checkGenesis (c : Config) : Verdict :=
  if !checkFieldsExist c then .fields
  else if !checkPlasmaInfo c then .plasma
  else if !checkSwapAccount c then .swap
  else if !checkPillarBalance c then .pillar
  else if !checkTokenTotalSupply c then .supply
  else .ok

/-! ### what the ledger holds after genesis (specification side) -/

/-- what `accountStore.SetBalance` keeps of an amount: `common.BigIntToBytes` writes `big.Int.Bytes()`, the ABSOLUTE
    value, and `GetBalance` reads it back with `SetBytes` — the sign is lost -/
def stored (a : Int) : Int := a.natAbs

/-- … and `BigIntToBytes(nil)` writes zero -/
def storedOpt (a : Option Int) : Int := stored (a.getD 0)

/-- `wrap`: for every entry of the address, in list order, `SetBalance(zts, amount)` for each map entry — a later
    entry overwrites an earlier one; an address without entries holds nothing -/
def ledgerBalance (c : Config) (addr z : Bytes) : Int :=
  (ownBlocks c addr).foldl (fun acc b => ((lookup b.bal z).map storedOpt).getD acc) 0

/-- the amount a balance list gives for a token: 0 when the token is not listed (or listed with a nil amount) -/
def listed (m : List (Bytes × Option Int)) (z : Bytes) : Int := ((lookup m z).map (fun a => a.getD 0)).getD 0

def dedup : List Bytes → List Bytes
  | [] => []
  | a :: l => if a ∈ l then dedup l else a :: dedup l

/-- total amount of token `z` on the ledger: one balance per address -/
def ledgerSupply (c : Config) (z : Bytes) : Int :=
  isum ((dedup (c.blocks.map (·.addr))).map (fun a => ledgerBalance c a z))

/-! ### start-up comparison -/

inductive Startup
  | inserted   -- empty store: genesis momentum inserted
  | matches    -- stored height-1 momentum hash = configured genesis hash
  | refused    -- "The genesis state is incorrect"
  deriving DecidableEq, Repr

/-- `chain.checkGenesisCompatibility`: `stored` = hash of the height-1 momentum of the database (`none` = empty
    database, frontier identifier is zero); returns the outcome and the height-1 hash afterwards -/
def checkGenesisCompatibility (stored : Option Bytes) (configured : Bytes) : Startup × Option Bytes :=
  match stored with
  | none => (.inserted, some configured)
  | some h => if h ≠ configured then (.refused, some h) else (.matches, some h)

/-! ### writes with one key per entry (the genesis writers) -/

/-- a store as a function; `put` overwrites -/
def put (s : Bytes → Option Bytes) (k v : Bytes) : Bytes → Option Bytes := fun x => if x = k then some v else s x

def applyWrites (s : Bytes → Option Bytes) : List (Bytes × Bytes) → Bytes → Option Bytes
  | [] => s
  | (k, v) :: rest => applyWrites (put s k v) rest

/-! ### the header of the genesis momentum (`chain/genesis/momentum.go` `newGenesisMomentum`) -/

/-- the scalar members of `GenesisConfig` (`ChainIdentifier uint64`, `ExtraData string`, `GenesisTimestampSec int64`):
    everything of the configuration that reaches the momentum HEADER (the lists reach `Content` / `ChangesHash`).
    A member left out of the genesis file is the zero value: `0`, `""`, `0`. -/
structure HeaderCfg where
  chainIdentifier : Nat := 0
  extraData : Bytes := []
  genesisTimestampSec : Int := 0
  deriving DecidableEq, Repr

/-- the header fields of `nom.Momentum` that `newGenesisMomentum` sets (`Gen.gnHeaderLiteral`); `PreviousHash` stays zero -/
structure MomentumHeader where
  version : Nat
  chainIdentifier : Nat
  height : Nat
  timestampUnix : Nat
  data : Bytes
  deriving DecidableEq, Repr

/-- Go's conversion `uint64(x)` of an `int64`: two's complement -/
def toUint64 (x : Int) : Nat := (x % (two64 : Int)).toNat

/-- `newGenesisMomentum`, header part, line by line:
      timestamp := time.Unix(genesisConfig.GenesisTimestampSec, 0)
      m := &nom.Momentum{Version: 1, ChainIdentifier: genesisConfig.ChainIdentifier, Height: 1,
                         TimestampUnix: uint64(timestamp.Unix()), Data: []byte(genesisConfig.ExtraData), …}
    `time.Unix(s, 0).Unix() = s` for every int64 `s` (the constant `unixToInternal` is added and subtracted in wrapping
    int64 arithmetic), so the timestamp is `uint64(GenesisTimestampSec)` — for EVERY value, 0 (= the member left out of
    the file) included. The function has no argument besides the configuration: no clock, no environment. -/
def genesisHeader (c : HeaderCfg) : MomentumHeader :=
  { version := 1, chainIdentifier := c.chainIdentifier, height := 1,
    timestampUnix := toUint64 c.genesisTimestampSec, data := c.extraData }

/-- the shape the model excludes (seeded defect C20-r5-2 and its siblings): a header that falls back to a reading of
    the process' surroundings (`amb`: clock, environment, host, random state) when a member has its zero value -/
def genesisHeaderAmbient (amb : Int) (c : HeaderCfg) : MomentumHeader :=
  { genesisHeader c with timestampUnix := toUint64 (if c.genesisTimestampSec = 0 then amb else c.genesisTimestampSec) }

end ZV.Genesis
