import ZenonVerif.Model.NodeSync
import ZenonVerif.Gen.Proto
/-
L9 — the node-level model WITH reorganisations (C02 / C06 / C16 in one state machine). Extends `ZV.NodeSync` (imported, not
copied: `Block`, `Momentum`, `DM`, `VM`, `Node`, `ledger`, `ledgerAt`, `conf`, `addBlock`, `blockLoop`, `stepMomentum`,
`consume`, `produce`) by the side-chain branch of the delivery operation. Stands for
  protocol/chain_bridge.go   {InsertChain — ALL of it: emptiness test, skip loop, side-chain tests, RollbackTo, insert loop}
  chain/momentum_pool.go     {RollbackTo: pop the ledger, then tell the listeners, once per momentum;
                              AddMomentumTransaction: only on top of the frontier (9a5065f)}
  chain/account_pool.go      {DeleteMomentum: `ap.managers = make(map…)` — the whole unconfirmed pool is dropped, nothing of
                              the deleted momentum is put back}
Core Lean only.

Heights. The genesis momentum has height 1; the node's momentum at height h ≥ 2 is the entry at position h − 2 counted from
the oldest (`hist` is newest first), so the frontier height is `hist.length + 1`. `Momentum.id` / `.prev` stand for
`Identifier()` / `Previous()` — (hash, height) pairs in the code; the model keeps the claimed `height` next to them and the
insert loop refuses a momentum whose claimed height is not frontier + 1 (in the code that is part of the comparison
`momentum.Previous() != frontier` of the verifier and of `AddMomentumTransaction`, because an identifier contains its height).
`head.Height − 1` is a uint64 subtraction in the code: for a claimed height 0 it wraps to 2^64 − 1, a height no node
holds; `Nat` subtraction gives 0, a height no node holds either (`byHeight … 0 = none`).

Pool and rollback. `RollbackTo` pops at least one momentum whenever `InsertChain` reaches it (the target is an own momentum
other than the frontier), every pop is followed by `DeleteMomentum` on the account pool, which drops every manager: the
pool is EMPTY when the insert loop starts, and blocks of the abandoned momentums come back only if somebody gossips them
again (`gossip`, judged against the adopted chain like any other block). `keepPool = true` is the variant that forgets to
drop the pool (negative witness only).
-/
namespace ZV.NodeReorg
open ZV ZV.NodeSync

variable {P L : Type}

/-- `Momentum.Height` of the genesis momentum -/
def genesisHeight : Nat := 1

/-- `ourFrontier.Height` -/
def frontierHeight (hist : List (Entry P)) : Nat := hist.length + genesisHeight

/-- `store.GetMomentumByHeight(h)` as far as `InsertChain` uses it: the identifier of the own momentum at that height;
    none = nil (height 0, or above the frontier) -/
def byHeight (W : VM P L) (hist : List (Entry P)) (h : Nat) : Option Nat :=
  if h = genesisHeight then some W.gid
  else if genesisHeight < h ∧ h ≤ frontierHeight hist then (hist[frontierHeight hist - h]?).map (·.m.id)
  else none

/-- the test of the skip loop ("remove momentums which we already have"): we hold a momentum at that height and it is this one -/
def knownR (W : VM P L) (hist : List (Entry P)) (m : Momentum) : Bool :=
  byHeight W hist m.height == some m.id

/-- what `InsertChain` returns: `(0, nil)`, or an index with one of the four error classes -/
inductive Res where
  | ok                    -- (0, nil)
  | link                  -- (0, "can't link momentums to insert …") — both texts
  | tooFar                -- (0, "can't rollback to … Too far")
  | notLonger             -- (0, "won't insert side-chain which is not longer")
  | verify (index : Nat)  -- (index + start, error out of ApplyBlock / Force…Transaction / ApplyMomentum / AddMomentumTransaction)
  deriving DecidableEq, Repr

/-- `chain.RollbackTo(target)` seen from the node: `k` = number of momentums above the target. Every popped momentum is
    announced to the account pool (`DeleteMomentum`), which drops everything it holds. -/
def rollback (keepPool : Bool) (s : Node P) (k : Nat) : Node P :=
  if k = 0 then s else { hist := s.hist.drop k, pool := if keepPool then s.pool else fun _ => [] }

/-- one pass of the insert loop: `NodeSync.stepMomentum` (block loop with `exec`, `ApplyMomentum` with the changes hash
    recomputed and compared, `AddMomentumTransaction`), where "previous = frontier" includes the height. A momentum with
    another claimed height fails in `ApplyMomentum` — after the block loop, whose pool insertions stay. -/
def stepR (W : VM P L) (s : Node P) (d : DM) : Node P × Bool :=
  if d.m.height = frontierHeight s.hist + 1 then stepMomentum W true true s d
  else ((blockLoop W true true s d.blocks).1, false)

/-- "Insert momentum now": stops at the first failure; `idx` = `index + start` -/
def loopR (W : VM P L) : Node P → Nat → List DM → Node P × Res
  | s, _, [] => (s, .ok)
  | s, idx, d :: rest =>
    match stepR W s d with
    | (s', true) => loopR W s' (idx + 1) rest
    | (s', false) => (s', .verify idx)

/-- `chainBridge.InsertChain`, line by line. -/
def deliverR (W : VM P L) (keepPool : Bool) (s : Node P) (batch : List DM) : Node P × Res :=
  -- `len(momentums) == 0` and `start == len(momentums)` both return (0, nil)
  let todo := batch.dropWhile (fun d => knownR W s.hist d.m)
  match todo with
  | [] => (s, .ok)
  | head :: more =>
    let start := batch.length - todo.length
    let tail := (head :: more).getLastD head
    if head.m.prev = frontierId W s.hist then loopR W s start todo
    else
      -- side chain: `target, err := store.GetMomentumByHeight(head.Height - 1)`
      match byHeight W s.hist (head.m.height - 1) with
      | none => (s, .link)                                                            -- `target == nil`
      | some target =>
        if target ≠ head.m.prev then (s, .link)                                       -- `target.Identifier() != head.Previous()`
        else if frontierHeight s.hist - (head.m.height - 1) > Gen.InsertChainWindow then (s, .tooFar)
        else if tail.m.height ≤ frontierHeight s.hist then (s, .notLonger)
        else loopR W (rollback keepPool s (frontierHeight s.hist - (head.m.height - 1))) start todo

/-- what can happen to a node, in any order -/
inductive Op where
  | gossip (b : Block)            -- `AddAccountBlocks [b]`
  | deliver (batch : List DM)     -- `InsertChain batch` — extension, side chain, refused, failing half-way
  | restart                       -- the pool lives in memory only
  deriving Repr

/-- the code: context at the stated previous, priority rule for gossip, force on delivery, pool dropped by a rollback -/
def stepOp (W : VM P L) (s : Node P) : Op → Node P
  | .gossip b => (addBlock W true false s b).getD s
  | .deliver batch => (deliverR W false s batch).1
  | .restart => { s with pool := fun _ => [] }

def runR (W : VM P L) (ops : List Op) : Node P := ops.foldl (stepOp W) Node.init

/-- every block an operation sequence mentions -/
def opBlocksR : List Op → List Block
  | [] => []
  | .gossip b :: ops => b :: opBlocksR ops
  | .deliver batch :: ops => batch.flatMap (·.blocks) ++ opBlocksR ops
  | .restart :: ops => opBlocksR ops

/-- `ChainBridge.GetBlock` for every momentum of the node's chain, oldest first: what the node serves to a syncing peer
    (account blocks in content order) -/
def served (hist : List (Entry P)) : List DM := hist.reverse.map (fun e => ⟨e.m, e.txs.map (·.1)⟩)

/-- the same operation sequence in the vocabulary of the model without reorganisations (`NodeSync.deliver` refuses every
    side chain) — used to state that a node which was only ever given its final chain is the `NodeSync` node -/
def Op.toNS : Op → NodeSync.Op
  | .gossip b => .gossip b
  | .deliver batch => .deliver batch
  | .restart => .restart

end ZV.NodeReorg
