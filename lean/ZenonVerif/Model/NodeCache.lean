/-
L6n — the two stateful components of a node that are NOT the versioned store and that live across a
reorganisation (C06, also C02 and C14):

 (A) the consensus layer's caches: election results keyed by the hash of the proof momentum
     (consensus/election.go `generateProducers`, consensus/storage/db.go `Get/StoreElectionResultByHash`) and the
     statistics points of election periods and of epochs keyed by TICK, each stored with the hash of the last momentum
     of its tick (an epoch point is served only while its epoch is finished: b4e9eef) (consensus/points.go `periodPoints.GetPoint`, `compoundPoints.GetPoint`, `points.InsertMomentum`;
     `points.DeleteMomentum` and `electionManager.DeleteMomentum` do nothing);
 (B) the account pool's lazily built per-account managers (chain/account_pool.go `getAccountManager`,
     `DeleteMomentum`, `rebuild`) under `momentumPool.RollbackTo` (chain/momentum_pool.go), which pops one momentum
     from the ledger and THEN tells the listeners, once per momentum.

Core Lean only. A chain is the list of its momentums NEWEST FIRST; the genesis momentum is not listed (it has
timestamp 0 = start of tick 0, hash `Cfg.g`, and is never part of a tick's content: `chainTicker.GetContent` starts
above it). Timestamps are seconds after genesis. `cut C e` is `GetMomentumBeforeTime(e)` (the momentums strictly
before instant `e`; = the real search for chains with increasing timestamps, proved for the real loop in C05).
-/
namespace ZV.NodeCache

/-- what the consensus layer looks at in a momentum -/
structure Mom where
  hash : Nat
  ts   : Nat
  prod : Nat
  deriving DecidableEq, Repr, Inhabited

abbrev Chain := List Mom

/-- `g` = hash of the genesis momentum, `len` = seconds per election period (BlockTime × NodeCount),
    `mult` = periods per epoch (`TickMultiplier`) -/
structure Cfg where
  g    : Nat
  len  : Nat
  mult : Nat
  deriving Repr

def headHash (g : Nat) : Chain → Nat
  | [] => g
  | m :: _ => m.hash

/-- timestamp of the frontier momentum -/
def frontTs : Chain → Nat
  | [] => 0
  | m :: _ => m.ts

/-- the chain up to `GetMomentumBeforeTime(e)`: everything strictly before instant `e` -/
def cut (C : Chain) (e : Nat) : Chain := C.dropWhile (fun m => decide (e ≤ m.ts))

/-- `chainTicker.HasStarted` for a ticker of `L` seconds per tick -/
def started (L : Nat) (C : Chain) (t : Nat) : Bool := decide (t * L ≤ frontTs C)
/-- `chainTicker.IsFinished` -/
def finished (L : Nat) (C : Chain) (t : Nat) : Bool := decide ((t + 1) * L ≤ frontTs C)
/-- the chain up to `chainTicker.GetEndBlock(t)` -/
def endCut (L : Nat) (C : Chain) (t : Nat) : Chain := cut C ((t + 1) * L)
/-- `chainTicker.GetContent(t)`, newest first -/
def content (L : Nat) (C : Chain) (t : Nat) : List Mom := (endCut L C t).takeWhile (fun m => decide (t * L ≤ m.ts))
/-- `electionManager.genProofTime` -/
def proofTime (len t : Nat) : Nat := if t < 2 then 1 else (t - 1) * len

/-! ## (A) consensus caches -/

/-- What is computed, as pure functions: `elect` = election data from the ledger AT the proof momentum (a function of
    the chain up to it); `period` = `generatePointFromChain` from the tick's election and the tick's content;
    `compound` = `generatePointFromLower` from the lower points that have started, newest first. -/
structure Spec (El P : Type) where
  elect    : Chain → El
  period   : El → List Mom → Nat → P
  compound : List P → P

variable {El P : Type}

/-- the period ticks of epoch `T`, newest first (the loop `for i := end - 1; ; i--`) -/
def lowerTicks (cfg : Cfg) (T : Nat) : List Nat := (List.range cfg.mult).reverse.map (fun j => T * cfg.mult + j)

/-- election of tick `t` on chain `C`, computed from scratch -/
def specElect (S : Spec El P) (cfg : Cfg) (C : Chain) (t : Nat) : El := S.elect (cut C (proofTime cfg.len t))
/-- the period point of tick `t` on chain `C`, computed from scratch (tick started or not) -/
def periodOn (S : Spec El P) (cfg : Cfg) (C : Chain) (t : Nat) : P :=
  S.period (specElect S cfg C t) (content cfg.len C t) t
/-- what `GetPeriodPoints().GetPoint(t)` answers on a node without any cache -/
def specPeriod (S : Spec El P) (cfg : Cfg) (C : Chain) (t : Nat) : Option P :=
  if started cfg.len C t then some (periodOn S cfg C t) else none
/-- what `GetEpochPoints().GetPoint(T)` answers on a node without any cache -/
def specEpoch (S : Spec El P) (cfg : Cfg) (C : Chain) (T : Nat) : Option P :=
  if started (cfg.len * cfg.mult) C T then some (S.compound ((lowerTicks cfg T).filterMap (specPeriod S cfg C))) else none
/-- the epoch point of a FINISHED epoch: all its periods count -/
def epochFull (S : Spec El P) (cfg : Cfg) (C : Chain) (T : Nat) : P :=
  S.compound ((lowerTicks cfg T).map (periodOn S cfg C))

/-- finite maps as functions -/
def upd {α : Type} (f : Nat → Option α) (k : Nat) (v : Option α) : Nat → Option α := fun x => if x = k then v else f x

/-- the consensus database: election results by proof hash; period and epoch points by tick, with their end hash -/
structure Caches (El P : Type) where
  el : Nat → Option El
  pc : Nat → Option (Nat × P)
  ec : Nat → Option (Nat × P)

def Caches.empty : Caches El P := ⟨fun _ => none, fun _ => none, fun _ => none⟩

/-- `electionManager.generateProducers(proofBlock)`: look the proof hash up, else compute and store -/
def electC (S : Spec El P) (g : Nat) (c : Caches El P) (proof : Chain) : El × Caches El P :=
  match c.el (headHash g proof) with
  | some d => (d, c)
  | none => (S.elect proof, { c with el := upd c.el (headHash g proof) (some (S.elect proof)) })

/-- the tail of `periodPoints.GetPoint`: `generatePointFromChain`, then `StorePointByHeight` if the tick is finished
    (a mismatching stored point was deleted before) -/
def genPeriod (S : Spec El P) (cfg : Cfg) (C : Chain) (c : Caches El P) (t : Nat) : Option P × Caches El P :=
  let r := electC S cfg.g c (cut C (proofTime cfg.len t))
  let p := S.period r.1 (content cfg.len C t) t
  let v := if finished cfg.len C t then some (headHash cfg.g (endCut cfg.len C t), p) else none
  (some p, { r.2 with pc := upd r.2.pc t v })

/-- `periodPoints.GetPoint(t)`: a stored point is served only if its end hash is the hash the CURRENT chain has at
    the end of the tick -/
def periodC (S : Spec El P) (cfg : Cfg) (C : Chain) (c : Caches El P) (t : Nat) : Option P × Caches El P :=
  if started cfg.len C t then
    match c.pc t with
    | some (h, p) => if h = headHash cfg.g (endCut cfg.len C t) then (some p, c) else genPeriod S cfg C c t
    | none => genPeriod S cfg C c t
  else (none, c)

/-- the loop of `generatePointFromLower`: ask the lower reader tick by tick, skip the ticks that have not started -/
def lowerLoop (S : Spec El P) (cfg : Cfg) (C : Chain) : Caches El P → List Nat → List P × Caches El P
  | c, [] => ([], c)
  | c, i :: is =>
    let r := periodC S cfg C c i
    let rs := lowerLoop S cfg C r.2 is
    (match r.1 with
     | some p => p :: rs.1
     | none => rs.1, rs.2)

def genEpoch (S : Spec El P) (cfg : Cfg) (C : Chain) (c : Caches El P) (T : Nat) : Option P × Caches El P :=
  let r := lowerLoop S cfg C c (lowerTicks cfg T)
  let p := S.compound r.1
  let v := if finished (cfg.len * cfg.mult) C T then some (headHash cfg.g (endCut (cfg.len * cfg.mult) C T), p) else none
  (some p, { r.2 with ec := upd r.2.ec T v })

/-- `compoundPoints.GetPoint(T)` (since b4e9eef): a stored point is served only if its end hash is the hash the current
    chain has at the end of the epoch AND the epoch is finished on the current chain; otherwise it is deleted and the
    point regenerated (`genEpoch` stores it again iff the epoch is finished) -/
def epochC (S : Spec El P) (cfg : Cfg) (C : Chain) (c : Caches El P) (T : Nat) : Option P × Caches El P :=
  if started (cfg.len * cfg.mult) C T then
    match c.ec T with
    | some (h, p) =>
      if h = headHash cfg.g (endCut (cfg.len * cfg.mult) C T) ∧ finished (cfg.len * cfg.mult) C T = true then (some p, c)
      else genEpoch S cfg C c T
    | none => genEpoch S cfg C c T
  else (none, c)

/-- the epoch reader before b4e9eef (finding FX1): the end hash alone decides — a point stored when the epoch was
    finished is served again when a rollback to exactly the epoch's last momentum has made the epoch unfinished -/
def epochCServeUnfinished (S : Spec El P) (cfg : Cfg) (C : Chain) (c : Caches El P) (T : Nat) : Option P × Caches El P :=
  if started (cfg.len * cfg.mult) C T then
    match c.ec T with
    | some (h, p) => if h = headHash cfg.g (endCut (cfg.len * cfg.mult) C T) then (some p, c) else genEpoch S cfg C c T
    | none => genEpoch S cfg C c T
  else (none, c)

/-- `ElectionByTick(t)` (as far as the cache is concerned) -/
def electTickC (S : Spec El P) (cfg : Cfg) (C : Chain) (c : Caches El P) (t : Nat) : El × Caches El P :=
  electC S cfg.g c (cut C (proofTime cfg.len t))

/-- a node: its chain, its consensus database, and the two counters of `points` (`lastCompletedPeriod + 1`,
    `lastCompletedEpoch + 1`), which are never rolled back -/
structure Node (El P : Type) where
  chain  : Chain
  caches : Caches El P
  doneP  : Nat
  doneE  : Nat

def Node.fresh : Node El P := ⟨[], Caches.empty, 0, 0⟩

/-- the ticks `a, a+1, …, b-1` -/
def ticksFrom (a b : Nat) : List Nat := (List.range (b - a)).map (· + a)

/-- the momentum-insert event as the consensus layer sees it: the momentum is on the chain, then
    `points.InsertMomentum` precomputes the period ticks and the epochs completed since the last insert, then
    `electionManager.InsertMomentum` precomputes the election whose proof is the end of the previous tick -/
def insertMomentum (S : Spec El P) (cfg : Cfg) (n : Node El P) (m : Mom) : Node El P :=
  let C := m :: n.chain
  let tick := m.ts / cfg.len
  let eTick := tick / cfg.mult
  let c1 := (ticksFrom n.doneP tick).foldl (fun c i => (periodC S cfg C c i).2) n.caches
  let c2 := (ticksFrom n.doneE eTick).foldl (fun c i => (epochC S cfg C c i).2) c1
  let c3 := if tick = 0 then c2 else (electC S cfg.g c2 (cut C (tick * cfg.len))).2
  ⟨C, c3, max n.doneP tick, max n.doneE eTick⟩

/-- `RollbackTo` as the consensus layer sees it: `k` momentums leave the chain; `DeleteMomentum` of the points and of
    the election manager do nothing -/
def rollback (n : Node El P) (k : Nat) : Node El P := { n with chain := n.chain.drop k }

inductive Op where
  | insert (m : Mom)
  | rollback (k : Nat)
  | qPeriod (t : Nat)
  | qEpoch (T : Nat)
  | qElect (t : Nat)
  deriving Repr

def step (S : Spec El P) (cfg : Cfg) (n : Node El P) : Op → Node El P
  | .insert m => insertMomentum S cfg n m
  | .rollback k => rollback n k
  | .qPeriod t => { n with caches := (periodC S cfg n.chain n.caches t).2 }
  | .qEpoch T => { n with caches := (epochC S cfg n.chain n.caches T).2 }
  | .qElect t => { n with caches := (electTickC S cfg n.chain n.caches t).2 }

/-- the node that only ever saw chain `C`: its momentums inserted one by one, oldest first, nothing else -/
def onlySaw (S : Spec El P) (cfg : Cfg) (C : Chain) : Node El P :=
  C.foldr (fun m n => insertMomentum S cfg n m) Node.fresh

/-- Hash chaining, as an explicit hypothesis: `pf` names, for a hash, THE chain that ends in the momentum with this
    hash (a momentum hash covers the previous hash, so by collision resistance it determines the whole prefix; the
    genesis hash names the empty chain). `ChainWF pf g C`: every momentum of `C` is named that way. -/
def ChainWF (pf : Nat → Chain) (g : Nat) : Chain → Prop
  | [] => pf g = []
  | m :: rest => pf m.hash = m :: rest ∧ ChainWF pf g rest

/-- the states a node can be in: any sequence of momentum inserts (of momentums that respect the hash chaining),
    rollbacks of any depth and queries at any time -/
inductive Reach (S : Spec El P) (cfg : Cfg) (pf : Nat → Chain) : Node El P → Prop where
  | init : pf cfg.g = [] → Reach S cfg pf Node.fresh
  | insert {n : Node El P} (m : Mom) : Reach S cfg pf n → pf m.hash = m :: n.chain →
      Reach S cfg pf (step S cfg n (.insert m))
  | rollback {n : Node El P} (k : Nat) : Reach S cfg pf n → Reach S cfg pf (step S cfg n (.rollback k))
  | qPeriod {n : Node El P} (t : Nat) : Reach S cfg pf n → Reach S cfg pf (step S cfg n (.qPeriod t))
  | qEpoch {n : Node El P} (T : Nat) : Reach S cfg pf n → Reach S cfg pf (step S cfg n (.qEpoch T))
  | qElect {n : Node El P} (t : Nat) : Reach S cfg pf n → Reach S cfg pf (step S cfg n (.qElect t))

/-! ### the seeded variant: a stored point is served without looking at the end hash once the next tick is finished -/

def periodCNoCheck (S : Spec El P) (cfg : Cfg) (C : Chain) (c : Caches El P) (t : Nat) : Option P × Caches El P :=
  if started cfg.len C t then
    match c.pc t with
    | some (h, p) =>
      if finished cfg.len C (t + 1) then (some p, c)
      else if h = headHash cfg.g (endCut cfg.len C t) then (some p, c) else genPeriod S cfg C c t
    | none => genPeriod S cfg C c t
  else (none, c)

/-! ### the instance the driver evaluates: a point = how many momentums each producer has in the tick -/

/-- add `k` to the counter of `p` in an association list sorted by producer -/
def bump : List (Nat × Nat) → Nat → Nat → List (Nat × Nat)
  | [], p, k => [(p, k)]
  | (q, c) :: rest, p, k =>
    if p < q then (p, k) :: (q, c) :: rest
    else if p = q then (q, c + k) :: rest
    else (q, c) :: bump rest p k

def counts (ms : List Mom) : List (Nat × Nat) := ms.foldl (fun acc m => bump acc m.prod 1) []
def mergeCounts (ps : List (List (Nat × Nat))) : List (Nat × Nat) :=
  ps.foldl (fun acc p => p.foldl (fun a e => bump a e.1 e.2) acc) []

/-- a statistics point as far as a chain alone determines it: the number of period points merged into it (each adds
    `NodeCount` expected momentums: `sum ExpectedNum / NodeCount`; `generatePointFromLower` divides the weights by this
    number) and `FactualNum` per producer. The election is not evaluated (oracle on the Go side). -/
abbrev CountPoint := Nat × List (Nat × Nat)

def countSpec : Spec Unit CountPoint where
  elect _ := ()
  period _ ms _ := (1, counts ms)
  compound ps := (ps.length, mergeCounts (ps.map (·.2)))

/-! ## (B) account pool managers across `RollbackTo` -/

namespace Pool

/-- a momentum as the pool sees it: its hash and the accounts that have blocks in it -/
structure PMom where
  hash  : Nat
  accts : List Nat
  deriving DecidableEq, Repr

/-- a pooled (unconfirmed) block: its identifier and the hash of the momentum it acknowledges -/
structure PBlk where
  id  : Nat
  ack : Nat
  deriving DecidableEq, Repr

/-- `db.NewMemDBManager(stable.GetStableAccountDB(address))` plus the blocks added on top: `base` = the ledger (chain)
    the snapshot was taken from -/
structure Mgr where
  base   : List PMom
  blocks : List PBlk
  deriving DecidableEq, Repr

structure PNode where
  ledger : List PMom
  mgrs   : Nat → Option Mgr

def PNode.fresh : PNode := ⟨[], fun _ => none⟩

/-- is `h` the genesis hash `g` or the hash of a momentum of the ledger? -/
def onChain (g : Nat) (l : List PMom) (h : Nat) : Bool := h == g || l.any (fun m => m.hash == h)

/-- any reader (`GetFrontierAccountStore`, `GetPatch`, …): `getAccountManager` builds the manager lazily from the
    CURRENT ledger -/
def read (n : PNode) (a : Nat) : PNode :=
  match n.mgrs a with
  | some _ => n
  | none => { n with mgrs := upd n.mgrs a (some ⟨n.ledger, []⟩) }

def reads (n : PNode) (as : List Nat) : PNode := as.foldl read n

/-- `AddAccountBlockTransaction`: the verifier has checked that the acknowledged momentum is on the chain -/
def add (g : Nat) (n : PNode) (a : Nat) (b : PBlk) : PNode :=
  if onChain g n.ledger b.ack then
    let n1 := read n a
    match n1.mgrs a with
    | some m => { n1 with mgrs := upd n1.mgrs a (some { m with blocks := m.blocks ++ [b] }) }
    | none => n1
  else n

/-- `chainManager.Pop()` -/
def pop (n : PNode) : PNode := { n with ledger := n.ledger.drop 1 }

/-- `accountPool.DeleteMomentum`: `ap.managers = make(map…)` — ALL managers go -/
def notify (n : PNode) : PNode := { n with mgrs := fun _ => none }

/-- `accountPool.InsertMomentum` → `rebuild`: every manager is rebuilt on the new ledger with the blocks the momentum
    did not confirm; a manager with nothing left is dropped -/
def insert (n : PNode) (m : PMom) (confirmed : List Nat) : PNode :=
  { ledger := m :: n.ledger,
    mgrs := fun a => match n.mgrs a with
      | none => none
      | some mg =>
        let bs := mg.blocks.filter (fun b => !confirmed.contains b.id)
        if bs.isEmpty then none else some ⟨m :: n.ledger, bs⟩ }

/-- one round of the loop of `momentumPool.RollbackTo`: `Pop()`, then (lock released) `broadcastDeleteMomentum`;
    `w.1` = the accounts read by other goroutines after the pop and before the pool is told, `w.2` = those read
    after it was told (before the next round / the return) -/
def rollbackStep (n : PNode) (w : List Nat × List Nat) : PNode := reads (notify (reads (pop n) w.1)) w.2

inductive Ev where
  | read (a : Nat)
  | add (a : Nat) (b : PBlk)
  | insert (m : PMom) (confirmed : List Nat)
  | rollbackTo (ws : List (List Nat × List Nat))   -- one entry per deleted momentum
  deriving Repr

def stepEv (g : Nat) (n : PNode) : Ev → PNode
  | .read a => read n a
  | .add a b => add g n a b
  | .insert m cf => insert n m cf
  | .rollbackTo ws => ws.foldl rollbackStep n

def run (g : Nat) (evs : List Ev) : PNode := evs.foldl (stepEv g) PNode.fresh

/-- seeded order (C14-r2-1 = C06-r2-2): the listeners are told BEFORE the pop -/
def rollbackStepNotifyFirst (n : PNode) (w : List Nat × List Nat) : PNode := reads (pop (reads (notify n) w.1)) w.2

/-- seeded `DeleteMomentum` (C01-3 = C02-3): only the managers of the accounts with blocks in the deleted momentum go -/
def notifyPartial (n : PNode) (deleted : PMom) : PNode :=
  { n with mgrs := fun a => if deleted.accts.contains a then none else n.mgrs a }

def rollbackStepPartial (n : PNode) (w : List Nat × List Nat) : PNode :=
  match n.ledger with
  | [] => n
  | d :: _ => reads (notifyPartial (reads (pop n) w.1) d) w.2

end Pool

end ZV.NodeCache
