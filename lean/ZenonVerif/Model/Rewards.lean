import ZenonVerif.Model.Num
import ZenonVerif.Gen.Rewards
/-
L5 (part) — reward arithmetic. Stands for vm/constants/embedded.go {NetworkZnnRewardPerEpoch, NetworkQsrRewardPerEpoch,
PillarRewardPerMomentum, SentinelRewardForEpoch, LiquidityRewardForEpoch, StakeQsrRewardPerEpoch} and
vm/embedded/implementation {pillars.go computePillarRewardForEpoch / computeDetailedPillarReward, stake.go
getWeightedStake / computeStakeRewardsForEpoch, sentinel.go getWeightedSentinel / computeSentinelRewardsForEpoch,
liquidity.go getWeightedLiquidityStake / computeLiquidityStakeRewardsForEpoch}. Core Lean only.

Go `int64` arithmetic wraps (`wrap64`), `/` on int64 and `big.Int.Quo` truncate toward zero (`Int.tdiv`), a division by
zero or an index out of range panics (`none`).
-/
namespace ZV.Rewards
open ZV

/-- two's complement wrap of an integer into int64 -/
def wrap64 (x : Int) : Int := (x + (two63 : Int)) % (two64 : Int) - (two63 : Int)

/-- int64 `a * b` -/
def mul64 (a b : Int) : Int := wrap64 (a * b)

/-- int64 `a / b`; none = runtime panic (integer divide by zero) -/
def div64 (a b : Int) : Option Int := if b = 0 then none else some (wrap64 (Int.tdiv a b))

/-- `NetworkZnnRewardPerEpoch` / `NetworkQsrRewardPerEpoch` over the table `tbl`:
    `tick := int(epoch / RewardTickDurationInEpochs)`; `tick >= len` → last entry, else `tbl[tick]`.
    none = panic (division by zero, index -1 of an empty table, negative index after the uint64→int conversion). -/
def networkRewardPerEpoch (tbl : List Int) (epoch : Nat) : Option Int :=
  if Gen.RewardTickDurationInEpochs = 0 then none
  else
    let t := (epoch % two64) / Gen.RewardTickDurationInEpochs
    let tick : Int := if t ≥ two63 then (t : Int) - (two64 : Int) else (t : Int)
    if tick ≥ (tbl.length : Int) then tbl.getLast?
    else if tick < 0 then none
    else tbl[tick.toNat]?

def networkZnnRewardPerEpoch (epoch : Nat) : Option Int := networkRewardPerEpoch Gen.NetworkZnnRewardConfig epoch
def networkQsrRewardPerEpoch (epoch : Nat) : Option Int := networkRewardPerEpoch Gen.NetworkQsrRewardConfig epoch

/-- rpc/api/embedded/shared.go `getFrontierRewardByPage`: the first (newest) epoch of a page of the reward history,
    `lastEpoch.LastEpoch - int64(pageIndex)*int64(pageSize)` in int64 (both factors < 2^32) -/
def rewardHistoryFirstEpoch (last : Int) (pageIndex pageSize : Nat) : Int :=
  wrap64 (last - mul64 (pageIndex : Int) (pageSize : Int))

/-- `(n * pct) / 100` in int64 -/
def pctOf (n pct : Int) : Option Int := div64 (mul64 n pct) 100

/-- the ZNN pieces of one epoch computed from the network emission `n`:
    (delegation per momentum, producing per momentum, sentinel, liquidity) -/
def znnPieces (n : Int) : Option (Int × Int × Int × Int) := do
  let d ← div64 (← pctOf n Gen.DelegationZnnRewardPercentage) Gen.MomentumsPerEpoch
  let p ← div64 (← pctOf n Gen.MomentumProducingZnnRewardPercentage) Gen.MomentumsPerEpoch
  let s ← pctOf n Gen.SentinelZnnRewardPercentage
  let l ← pctOf n Gen.LiquidityZnnRewardPercentage
  pure (d, p, s, l)

/-- the QSR pieces of one epoch: (stake, sentinel, liquidity) -/
def qsrPieces (n : Int) : Option (Int × Int × Int) := do
  let st ← pctOf n Gen.StakingQsrRewardPercentage
  let s ← pctOf n Gen.SentinelQsrRewardPercentage
  let l ← pctOf n Gen.LiquidityQsrRewardPercentage
  pure (st, s, l)

/-- `constants.PillarRewardPerMomentum` = (delegation, producing) -/
def pillarRewardPerMomentum (epoch : Nat) : Option (Int × Int) := do
  let (d, p, _, _) ← znnPieces (← networkZnnRewardPerEpoch epoch)
  pure (d, p)

/-- `constants.SentinelRewardForEpoch` = (znn, qsr) -/
def sentinelRewardForEpoch (epoch : Nat) : Option (Int × Int) := do
  let (_, _, s, _) ← znnPieces (← networkZnnRewardPerEpoch epoch)
  let (_, sq, _) ← qsrPieces (← networkQsrRewardPerEpoch epoch)
  pure (s, sq)

/-- `constants.LiquidityRewardForEpoch` = (znn, qsr) -/
def liquidityRewardForEpoch (epoch : Nat) : Option (Int × Int) := do
  let (_, _, _, l) ← znnPieces (← networkZnnRewardPerEpoch epoch)
  let (_, _, lq) ← qsrPieces (← networkQsrRewardPerEpoch epoch)
  pure (l, lq)

/-- `constants.StakeQsrRewardPerEpoch` -/
def stakeQsrRewardPerEpoch (epoch : Nat) : Option Int := do
  let (st, _, _) ← qsrPieces (← networkQsrRewardPerEpoch epoch)
  pure st

/-! ### pro-rata splits (big.Int arithmetic, `Quo` truncates toward zero) -/

/-- `reward.Mul(total, weight).Quo(reward, cumulated)` -/
def share (T w W : Int) : Int := Int.tdiv (T * w) W

/-- `getWeightedStake` / `getWeightedLiquidityStake`: the entry's weighted amount times the seconds of the epoch
    `[startTime, endTime)` it was active; `endTime - startTime` is an int64 subtraction -/
def weightedStake (infoStart infoRevoke weightedAmount startTime endTime : Int) : Int :=
  let s := max startTime infoStart
  let e := if infoRevoke ≠ 0 then min endTime infoRevoke else endTime
  if s ≥ e then 0 else wrap64 (e - s) * weightedAmount

/-- `getWeightedSentinel`: 1 iff the sentinel was registered for more than 90% of the epoch -/
def weightedSentinel (reg revoke startTime endTime : Int) : Int :=
  let dur := wrap64 (endTime - startTime)
  let s := max startTime reg
  let e := if revoke ≠ 0 then min endTime revoke else endTime
  if s ≥ e then 0
  else if mul64 dur 90 < mul64 (wrap64 (e - s)) 100 then 1 else 0

/-- second loop of `computeStakeRewardsForEpoch`: one QSR deposit per entry (nothing at all when the cumulated
    weight is zero) -/
def stakeRewardsForEpoch (T : Int) (ws : List Int) : List Int :=
  let W := ws.sum
  if W = 0 then [] else ws.map (fun w => share T w W)

/-- second loop of `computeSentinelRewardsForEpoch`: entries of weight zero are skipped (credited nothing),
    the others get (znn, qsr) shares -/
def sentinelRewardsForEpoch (Tz Tq : Int) (ws : List Int) : List (Int × Int) :=
  let W := ws.sum
  if W = 0 then [] else ws.map (fun w => if w = 0 then (0, 0) else (share Tz w W, share Tq w W))

/-- statistics of one pillar in `api.EpochStats` -/
structure PillarStat where
  produced : Nat     -- BlockNum (uint64)
  expected : Nat     -- ExceptedBlockNum (uint64)
  weight   : Int     -- Weight
  deriving Repr, DecidableEq

/-- result of `computePillarRewardForEpoch` -/
structure PillarReward where
  delegation : Int
  block      : Int
  total      : Int
  deriving Repr, DecidableEq

/-- `totalExpectedBlockNum`: a uint64 sum over all pillars of the epoch -/
def totalExpected (ps : List PillarStat) : Nat := (ps.map (·.expected)).sum % two64

/-- body of `computePillarRewardForEpoch` for the pillar `s`, given the total expected momentums `E`, the total
    weight `W` and the per-momentum rewards `(d, p)` of the epoch -/
def pillarRewardWith (d p : Int) (W : Int) (E : Int) (s : PillarStat) : PillarReward :=
  if s.expected = 0 then ⟨0, 0, 0⟩
  else
    let deleg : Int :=
      if W ≠ 0 then Int.tdiv (Int.tdiv (d * (s.produced : Int) * s.weight * E) (s.expected : Int)) W else 0
    let block : Int := p * (s.produced : Int)
    ⟨deleg, block, block + deleg⟩

/-- `computePillarRewardForEpoch` for one pillar `s` of the epoch statistics `ps` -/
def pillarRewardForEpoch (d p : Int) (W : Int) (ps : List PillarStat) (s : PillarStat) : PillarReward :=
  pillarRewardWith d p W (totalExpected ps) s

/-- the split of one pillar's epoch reward in `computeDetailedPillarReward`:
    `toGive = (giveBlock% * BlockReward + giveDelegate% * DelegationReward) / 100` goes to the backers pro rata to
    their delegated amounts (to the pillar when nobody delegated), the pillar keeps `TotalReward - toGive`.
    Result: (credited to the pillar's reward address, credited to each backer). -/
def pillarSplit (r : PillarReward) (giveBlock giveDelegate : Int) (backers : List Int) : Int × List Int :=
  let toGive := Int.tdiv (giveBlock * r.block + giveDelegate * r.delegation) 100
  let A := backers.sum
  if A = 0 then (r.total - toGive + toGive, [])
  else (r.total - toGive, backers.map (fun a => share toGive a A))

/-- `computeLiquidityStakeRewardsForEpoch`, one coin: the epoch amount `T` is split over the token tuples by
    `percentage / LiquidityTotalPercentages` (big.Int.Div with a positive divisor = floor), each token's part pro rata
    over the weighted stakes of that token (tokens without stake credit nothing). -/
def liquidityStakeRewards (T : Int) (totalPct : Int) (tokens : List (Int × List Int)) : List (List Int) :=
  tokens.map (fun (pct, ws) =>
    let R := (T * pct) / totalPct
    let W := ws.sum
    if W = 0 then [] else ws.map (fun w => share R w W))

end ZV.Rewards
