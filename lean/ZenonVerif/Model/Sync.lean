import ZenonVerif.Model.Proto
/-
L8 (part) — `chainBridge.InsertChain`, line by line (as of 264f72a: an empty batch returns (0, nil); a batch
whose first unknown momentum names a height the node does not hold — height 0, height 1, or frontier + 2 and
above — is refused with the link error; neither touches the node).
Stands for protocol/chain_bridge.go {InsertChain}; `applies` stands for the pair
vm/supervisor.go {ApplyBlock for every account block, ApplyMomentum} + chain {AddMomentumTransaction}
as one verdict per delivered momentum.

Abstraction. A momentum is (height, hash, previous hash, body); `body` stands for everything else that
travels with it (content, account blocks, changes hash, public key, signature). Full verification of a
delivered momentum and of its account blocks *on the state it extends* is the oracle `valid : DM → Bool`
together with the link test against the frontier it is applied to (`applies`). The node is its list of
momentums, genesis first. Heights are uint64 values.
-/
namespace ZV.Sync
open ZV ZV.Proto

structure DM where
  height : Nat
  hash : Nat
  prev : Nat
  body : Nat
  deriving DecidableEq, Repr

/-- `Momentum.Identifier()` = (hash, height) -/
def DM.id (d : DM) : Nat × Nat := (d.hash, d.height)

/-- uint64 `h - 1` -/
def pred64 (h : Nat) : Nat := if h = 0 then two64 - 1 else h - 1

/-- `Momentum.Previous()` = (previous hash, height − 1) with uint64 wrap-around at height 0 -/
def DM.prevId (d : DM) : Nat × Nat := (d.prev, pred64 d.height)

/-- a node always holds its genesis momentum -/
structure Node where
  genesis : DM
  rest : List DM
  deriving DecidableEq, Repr

def Node.chain (n : Node) : List DM := n.genesis :: n.rest

/-- `store.GetFrontierMomentum()` -/
def Node.frontier (n : Node) : DM := n.rest.getLastD n.genesis

/-- `store.GetMomentumByHeight(h)`: nil for height 0 and above the frontier -/
def Node.byHeight (n : Node) (h : Nat) : Option DM := if h = 0 then none else n.chain[h - 1]?

/-- `chain.RollbackTo(target)`: pop until the frontier is at height h (h ≥ 1) -/
def Node.rollbackTo (n : Node) (h : Nat) : Node := { n with rest := n.rest.take (h - 1) }

/-- `chain.AddMomentumTransaction` -/
def Node.push (n : Node) (d : DM) : Node := { n with rest := n.rest ++ [d] }

/-- the skip loop's test: we hold a momentum at that height and it has the same hash -/
def Node.held (n : Node) (d : DM) : Bool :=
  match n.byHeight d.height with
  | some our => our.hash == d.hash
  | none => false

/-- "remove momentums which we already have": the suffix left after the skip loop -/
def dropKnown (n : Node) : List DM → List DM
  | [] => []
  | d :: rest => if n.held d then dropKnown n rest else d :: rest

/-- one pass of the insert loop for one delivered momentum: every account block and the momentum itself
    verify (oracle) on the frontier they are applied to, which the momentum must name as its previous. -/
def applies (valid : DM → Bool) (n : Node) (d : DM) : Bool :=
  d.prevId == n.frontier.id && valid d

inductive Outcome where
  | ok             -- (0, nil)
  | errLink        -- "can't link momentums to insert"
  | errTooFar      -- "can't rollback … Too far"
  | errNotLonger   -- "won't insert side-chain which is not longer"
  | errVerify      -- error out of ApplyBlock / ApplyMomentum / Add…Transaction
  | panic          -- run-time panic (index out of range, nil dereference): what an observer of the real
                   -- call can see; the model never yields it (`C16.insert_total`)
  deriving DecidableEq, Repr

/-- "Insert momentum now": `for index, detailed := range momentums`; `i` = index + start -/
def applyLoop (valid : DM → Bool) (n : Node) : List DM → Nat → Node × Nat × Outcome
  | [], _ => (n, 0, .ok)
  | d :: rest, i =>
    if applies valid n d then applyLoop valid (n.push d) rest (i + 1) else (n, i, .errVerify)

/-- `InsertChain` after the skip loop, on the remaining suffix; `start` = number of skipped momentums -/
def insertSuffix (valid : DM → Bool) (n : Node) (suffix : List DM) (start : Nat) : Node × Nat × Outcome :=
  match suffix with
  | [] => (n, 0, .ok)                                      -- start == len(momentums)
  | head :: more =>
    let tail := (head :: more).getLastD head
    let fr := n.frontier
    if head.prevId ≠ fr.id then
      match n.byHeight (pred64 head.height) with
      | none => (n, 0, .errLink)                            -- target == nil: "can't link … no momentum at that height"
      | some target =>
        if target.id ≠ head.prevId then (n, 0, .errLink)
        else if sub64 fr.height target.height > Gen.InsertChainWindow then (n, 0, .errTooFar)
        else if tail.height ≤ fr.height then (n, 0, .errNotLonger)
        else applyLoop valid (n.rollbackTo target.height) (head :: more) start
    else applyLoop valid n (head :: more) start

/-- `chainBridge.InsertChain(momentums)` → (node after, returned index, returned error class) -/
def insertChain (valid : DM → Bool) (n : Node) (ms : List DM) : Node × Nat × Outcome :=
  match ms with
  | [] => (n, 0, .ok)                                       -- len(momentums) == 0: return 0, nil
  | _ :: _ =>
    let suffix := dropKnown n ms
    insertSuffix valid n suffix (ms.length - suffix.length)

/-- consecutive momentums link: previous hash and height + 1 -/
def Linked : List DM → Prop
  | a :: b :: rest => b.prev = a.hash ∧ b.height = a.height + 1 ∧ Linked (b :: rest)
  | _ => True

/-- a well-formed node: genesis at height 1, every momentum links to the one below it, heights are
    uint64 values -/
structure Node.WF (n : Node) : Prop where
  gen : n.genesis.height = 1
  linked : Linked n.chain
  bound : n.chain.length + 1 < two64

end ZV.Sync
