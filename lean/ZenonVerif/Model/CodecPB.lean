import ZenonVerif.Model.Codec
/-
L9 `Codec` (part 2) — protobuf form of account blocks and momentums.
Stands for chain/nom/{account_block.go Proto/DeProtoAccountBlock/Serialize/DeserializeAccountBlock,
momentum.go Proto/DeProtoMomentum/Serialize/DeserializeMomentum, momentum_content.go}, common/types
{Hash,Address,HashHeight,AccountHeader}.{Proto,DeProto…}, the generated message types in protobuf.pb.go and the
proto3 wire format as produced / consumed by google.golang.org/protobuf (proto.Marshal / proto.Unmarshal).
Field numbers come from `Gen.abProtoSchema` … (struct tags of the generated types), compared in Props/C13.lean.
-/
namespace ZV.Codec
open ZV

/-! ## generated message types (`*XProto` pointers are `Option`: nil = absent) -/

/-- `types.HashProto` / `types.AddressProto` are one `bytes` field: modelled by that field -/
abbrev BytesMsg := Bytes

/-- `types.HashHeightProto` -/
structure HashHeightPB where
  hash : Option BytesMsg
  height : Nat
deriving DecidableEq, Repr, Inhabited

/-- `types.AccountHeaderProto` -/
structure AccountHeaderPB where
  address : Option BytesMsg
  hashHeight : Option HashHeightPB
deriving DecidableEq, Repr, Inhabited

/-- `nom.AccountBlockProto` without `DescendantBlocks` -/
structure ABodyPB where
  version : Nat
  chainIdentifier : Nat
  blockType : Nat
  hash : Option BytesMsg
  previousHash : Option BytesMsg
  height : Nat
  momentumAcknowledged : Option HashHeightPB
  address : Option BytesMsg
  toAddress : Option BytesMsg
  amount : Bytes
  tokenStandard : Bytes
  fromBlockHash : Option BytesMsg
  data : Bytes
  fusedPlasma : Nat
  difficulty : Nat
  nonce : Bytes
  basePlasma : Nat
  totalPlasma : Nat
  changesHash : Option BytesMsg
  publicKey : Bytes
  signature : Bytes
deriving DecidableEq, Repr, Inhabited

/-- `nom.AccountBlockProto` -/
structure BlockPB where
  body : ABodyPB
  desc : List BlockPB
deriving Repr, Inhabited

/-- `nom.MomentumProto` -/
structure MomentumPB where
  version : Nat
  chainIdentifier : Nat
  hash : Option BytesMsg
  previousHash : Option BytesMsg
  height : Nat
  timestamp : Nat
  data : Bytes
  content : List AccountHeaderPB
  changesHash : Option BytesMsg
  publicKey : Bytes
  signature : Bytes
deriving DecidableEq, Repr, Inhabited

/-! ## `Proto()` -/

/-- `(b *HashHeight) Proto()` -/
def HashHeight.proto (h : HashHeight) : HashHeightPB := { hash := some h.hash, height := h.height }

/-- `(abh *AccountHeader) Proto()` -/
def AccountHeader.proto (h : AccountHeader) : AccountHeaderPB :=
  { address := some h.address, hashHeight := some { hash := some h.hash, height := h.height } }

/-- the composite literal of `(ab *AccountBlock) Proto()`; the amount is `BigIntToBytes` (32 bytes, or
    more for amounts ≥ 2^256; the sign is lost) -/
def ABody.proto (b : ABody) : ABodyPB := {
  version := b.version, chainIdentifier := b.chainIdentifier, blockType := b.blockType,
  hash := some b.hash, previousHash := some b.previousHash, height := b.height,
  momentumAcknowledged := some b.momentumAcknowledged.proto,
  address := some b.address, toAddress := some b.toAddress,
  amount := bigIntToBytes b.amount, tokenStandard := b.tokenStandard,
  fromBlockHash := some b.fromBlockHash, data := b.data,
  fusedPlasma := b.fusedPlasma, difficulty := b.difficulty, nonce := b.nonce,
  basePlasma := b.basePlasma, totalPlasma := b.totalPlasma,
  changesHash := some b.changesHash, publicKey := b.publicKey, signature := b.signature }

mutual
/-- `(ab *AccountBlock) Proto()` -/
def Block.proto : Block → BlockPB
  | ⟨body, ds⟩ => ⟨body.proto, protoList ds⟩
def protoList : List Block → List BlockPB
  | [] => []
  | d :: ds => d.proto :: protoList ds
end

/-- `(m *Momentum) Proto()` -/
def Momentum.proto (m : Momentum) : MomentumPB := {
  version := m.version, chainIdentifier := m.chainIdentifier, hash := some m.hash,
  previousHash := some m.previousHash, height := m.height, timestamp := m.timestampUnix, data := m.data,
  content := m.content.map AccountHeader.proto, changesHash := some m.changesHash,
  publicKey := m.publicKey, signature := m.signature }

/-! ## `DeProto…` — `none` = the Go function panics (nil sub-message, wrong width) -/

/-- `types.DeProtoHash`, `types.DeProtoAddress`, `types.BytesToZTSPanic`, `nom.DeSerializeNonce` with the
    respective width: nil pointer dereference or explicit `panic` unless the length is exactly `w` -/
def deProtoFixed (w : Nat) (m : Option BytesMsg) : Option Bytes :=
  match m with
  | none => none
  | some b => if b.length = w then some b else none

/-- `types.DeProtoHashHeight` -/
def deProtoHashHeight (m : Option HashHeightPB) : Option HashHeight :=
  match m with
  | none => none
  | some p => do
    let h ← deProtoFixed Gen.HashSize p.hash
    pure { hash := h, height := p.height }

/-- `types.DeProtoAccountHeader` -/
def deProtoAccountHeader (p : AccountHeaderPB) : Option AccountHeader := do
  let a ← deProtoFixed Gen.AddressSize p.address
  let hh ← deProtoHashHeight p.hashHeight
  pure { address := a, hash := hh.hash, height := hh.height }

/-- the composite literal of `DeProtoAccountBlock` (evaluation order of the Go literal = field order) -/
def ABodyPB.deProto (p : ABodyPB) : Option ABody := do
  let hash ← deProtoFixed Gen.HashSize p.hash
  let previousHash ← deProtoFixed Gen.HashSize p.previousHash
  let ma ← deProtoHashHeight p.momentumAcknowledged
  let address ← deProtoFixed Gen.AddressSize p.address
  let toAddress ← deProtoFixed Gen.AddressSize p.toAddress
  let ts ← deProtoFixed Gen.ZtsSize (some p.tokenStandard)
  let fromBlockHash ← deProtoFixed Gen.HashSize p.fromBlockHash
  let nonce ← deProtoFixed Gen.NonceSize (some p.nonce)
  let changesHash ← deProtoFixed Gen.HashSize p.changesHash
  pure {
    version := p.version, chainIdentifier := p.chainIdentifier, blockType := p.blockType,
    hash := hash, previousHash := previousHash, height := p.height, momentumAcknowledged := ma,
    address := address, toAddress := toAddress, amount := bytesToBigInt p.amount, tokenStandard := ts,
    fromBlockHash := fromBlockHash, data := p.data, fusedPlasma := p.fusedPlasma, difficulty := p.difficulty,
    nonce := nonce, basePlasma := p.basePlasma, totalPlasma := p.totalPlasma, changesHash := changesHash,
    publicKey := p.publicKey, signature := p.signature }

mutual
/-- `DeProtoAccountBlock` -/
def BlockPB.deProto : BlockPB → Option Block
  | ⟨body, ds⟩ => do
    let b ← body.deProto
    let ds ← deProtoList ds
    pure ⟨b, ds⟩
def deProtoList : List BlockPB → Option (List Block)
  | [] => some []
  | d :: ds => do
    let d ← d.deProto
    let ds ← deProtoList ds
    pure (d :: ds)
end

/-- `DeProtoMomentumContent` -/
def deProtoContent : List AccountHeaderPB → Option (List AccountHeader)
  | [] => some []
  | h :: hs => do
    let x ← deProtoAccountHeader h
    let xs ← deProtoContent hs
    pure (x :: xs)

/-- `DeProtoMomentum` (the caches filled by `EnsureCache` are not part of the model) -/
def MomentumPB.deProto (p : MomentumPB) : Option Momentum := do
  let hash ← deProtoFixed Gen.HashSize p.hash
  let previousHash ← deProtoFixed Gen.HashSize p.previousHash
  let content ← deProtoContent p.content
  let changesHash ← deProtoFixed Gen.HashSize p.changesHash
  pure {
    version := p.version, chainIdentifier := p.chainIdentifier, hash := hash, previousHash := previousHash,
    height := p.height, timestampUnix := p.timestamp, data := p.data, content := content,
    changesHash := changesHash, publicKey := p.publicKey, signature := p.signature }

/-! ## proto3 wire format, encoder (`proto.Marshal`: known fields in field-number order)

A message is first laid out as its list of wire records (`WField`), with proto3 default omission made
explicit, and the records are then encoded one after the other. -/

/-- base-128 varint, least significant group first, continuation bit 0x80 (`protowire.AppendVarint`) -/
def varintAux : Nat → Nat → Bytes
  | 0, _ => []
  | f + 1, n => if n < 128 then [n] else (n % 128 + 128) :: varintAux f (n / 128)

def varint (n : Nat) : Bytes := varintAux (n + 1) n

/-- value of a wire record: wire type 0 (varint), 2 (length-delimited), 1 / 5 (fixed 8 / 4 bytes) -/
inductive WVal where
  | varint (n : Nat)
  | len (b : Bytes)
  | fixed (wt : Nat) (b : Bytes)
deriving DecidableEq, Repr, Inhabited

structure WField where
  num : Nat
  val : WVal
deriving DecidableEq, Repr, Inhabited

def tag (num wt : Nat) : Bytes := varint (num * 8 + wt)

/-- one record on the wire -/
def encField (f : WField) : Bytes :=
  match f.val with
  | .varint v => tag f.num 0 ++ varint v
  | .len b => tag f.num 2 ++ (varint b.length ++ b)
  | .fixed wt b => tag f.num wt ++ b

def encFields (fs : List WField) : Bytes := (fs.map encField).flatten

/-- proto3 scalar without presence: omitted when zero -/
def fVarint (num v : Nat) : List WField := if v = 0 then [] else [⟨num, .varint v⟩]

/-- proto3 `bytes` without presence: omitted when empty -/
def fBytes (num : Nat) (b : Bytes) : List WField := if b.isEmpty then [] else [⟨num, .len b⟩]

/-- singular message field: emitted iff the pointer is non-nil (also when the message encodes to nothing) -/
def fMsg (num : Nat) (m : Option (List WField)) : List WField :=
  match m with
  | none => []
  | some fs => [⟨num, .len (encFields fs)⟩]

/-- `HashProto` / `AddressProto`: field 1, bytes -/
def bytesMsgFields (b : BytesMsg) : List WField := fBytes 1 b

def hashHeightFields (p : HashHeightPB) : List WField :=
  fMsg 1 (p.hash.map bytesMsgFields) ++ fVarint 2 p.height

def accountHeaderFields (p : AccountHeaderPB) : List WField :=
  fMsg 1 (p.address.map bytesMsgFields) ++ fMsg 2 (p.hashHeight.map hashHeightFields)

/-- fields 1–12 of `AccountBlockProto` -/
def abHeadFields (p : ABodyPB) : List WField :=
  fVarint 1 p.version ++ fVarint 2 p.chainIdentifier ++ fVarint 3 p.blockType ++
  fMsg 4 (p.hash.map bytesMsgFields) ++ fMsg 5 (p.previousHash.map bytesMsgFields) ++ fVarint 6 p.height ++
  fMsg 7 (p.momentumAcknowledged.map hashHeightFields) ++ fMsg 8 (p.address.map bytesMsgFields) ++
  fMsg 9 (p.toAddress.map bytesMsgFields) ++ fBytes 10 p.amount ++ fBytes 11 p.tokenStandard ++
  fMsg 12 (p.fromBlockHash.map bytesMsgFields)

/-- fields 14–23 of `AccountBlockProto` (there is no field 16) -/
def abTailFields (p : ABodyPB) : List WField :=
  fBytes 14 p.data ++ fVarint 15 p.fusedPlasma ++ fVarint 17 p.difficulty ++ fBytes 18 p.nonce ++
  fVarint 19 p.basePlasma ++ fVarint 20 p.totalPlasma ++ fMsg 21 (p.changesHash.map bytesMsgFields) ++
  fBytes 22 p.publicKey ++ fBytes 23 p.signature

mutual
/-- the wire records of an `AccountBlockProto` -/
def blockFields : BlockPB → List WField
  | ⟨body, ds⟩ => abHeadFields body ++ descFields ds ++ abTailFields body
/-- field 13, repeated message: one record per element -/
def descFields : List BlockPB → List WField
  | [] => []
  | d :: ds => ⟨13, .len (encFields (blockFields d))⟩ :: descFields ds
end

/-- `proto.Marshal(*AccountBlockProto)` -/
def encBlockPB (p : BlockPB) : Bytes := encFields (blockFields p)

def momentumFields (p : MomentumPB) : List WField :=
  fVarint 1 p.version ++ fVarint 2 p.chainIdentifier ++ fMsg 3 (p.hash.map bytesMsgFields) ++
  fMsg 4 (p.previousHash.map bytesMsgFields) ++ fVarint 5 p.height ++ fVarint 6 p.timestamp ++ fBytes 7 p.data ++
  p.content.map (fun h => ⟨8, .len (encFields (accountHeaderFields h))⟩) ++
  fMsg 9 (p.changesHash.map bytesMsgFields) ++ fBytes 10 p.publicKey ++ fBytes 11 p.signature

/-- `proto.Marshal(*MomentumProto)` -/
def encMomentumPB (p : MomentumPB) : Bytes := encFields (momentumFields p)

/-- `(ab *AccountBlock) Serialize()` -/
def Block.serialize (b : Block) : Bytes := encBlockPB b.proto

/-- `(m *Momentum) Serialize()` -/
def Momentum.serialize (m : Momentum) : Bytes := encMomentumPB m.proto

/-! ## proto3 wire format, decoder (`proto.Unmarshal`, package impl/decode.go + protowire) -/

/-- `protowire.ConsumeVarint`: at most 10 bytes and the 10th at most 1 (64 bits); non-minimal encodings are
    accepted; `none` = truncated or overflow. `f` counts the bytes still allowed. -/
def decVarintAux : Nat → Nat → Nat → Bytes → Option (Nat × Bytes)
  | 0, _, _, _ => none
  | _ + 1, _, _, [] => none
  | f + 1, mult, acc, b :: rest =>
    if b < 128 then
      if f = 0 ∧ 2 ≤ b then none else some (acc + mult * b, rest)
    else decVarintAux f (mult * 128) (acc + mult * (b - 128)) rest

def decVarint (b : Bytes) : Option (Nat × Bytes) := decVarintAux 10 1 0 b

/-- `protowire.MaxValidNumber` = 2^29 − 1 -/
def maxFieldNumber : Nat := 536870911

/-- one record: tag, then the value by wire type. Field numbers outside 1 … 2^29−1 are a decode error.
    Groups (wire types 3, 4) are outside the model (`none`); 6 and 7 are errors in Go too. -/
def decField (b : Bytes) : Option (WField × Bytes) := do
  let (t, rest) ← decVarint b
  let num := t / 8
  if num < 1 ∨ maxFieldNumber < num then none
  else match t % 8 with
  | 0 => do
    let (v, rest) ← decVarint rest
    pure (⟨num, .varint v⟩, rest)
  | 1 => if rest.length < 8 then none else some (⟨num, .fixed 1 (rest.take 8)⟩, rest.drop 8)
  | 2 => do
    let (l, rest) ← decVarint rest
    if rest.length < l then none else pure (⟨num, .len (rest.take l)⟩, rest.drop l)
  | 5 => if rest.length < 4 then none else some (⟨num, .fixed 5 (rest.take 4)⟩, rest.drop 4)
  | _ => none

/-- all records of a message; `fuel` ≥ number of records (`parseFields` passes the byte length) -/
def decFields : Nat → Bytes → Option (List WField)
  | _, [] => some []
  | 0, _ :: _ => none
  | f + 1, b => do
    let (fld, rest) ← decField b
    let fs ← decFields f rest
    pure (fld :: fs)

def parseFields (b : Bytes) : Option (List WField) := decFields b.length b

/-! ### messages from records

protobuf semantics of a parsed record list, per field number `k` of the schema: a scalar field takes the
LAST record of the right wire type (records of another wire type are unknown fields and are skipped); a
singular message field is the MERGE of all its records = the message read from the concatenation of their
records (each occurrence must parse on its own); a repeated field collects all records in order. -/

def lensOf (k : Nat) (fs : List WField) : List Bytes :=
  fs.filterMap fun f => if f.num = k then (match f.val with | .len b => some b | _ => none) else none

def varintsOf (k : Nat) (fs : List WField) : List Nat :=
  fs.filterMap fun f => if f.num = k then (match f.val with | .varint v => some v | _ => none) else none

def getVarint (k : Nat) (fs : List WField) : Nat := (varintsOf k fs).getLast?.getD 0

def getBytes (k : Nat) (fs : List WField) : Bytes := (lensOf k fs).getLast?.getD []

def parseAll : List Bytes → Option (List WField)
  | [] => some []
  | b :: bs => do
    let x ← parseFields b
    let xs ← parseAll bs
    pure (x ++ xs)

/-- singular message field: `some none` = absent (nil pointer), `none` = decode error -/
def getMsg (k : Nat) (fs : List WField) : Option (Option (List WField)) :=
  match lensOf k fs with
  | [] => some none
  | occ => (parseAll occ).map some

def optMapM {α β : Type} (f : α → Option β) : Option α → Option (Option β)
  | none => some none
  | some a => (f a).map some

def listMapM {α β : Type} (f : α → Option β) : List α → Option (List β)
  | [] => some []
  | a :: as => do
    let b ← f a
    let bs ← listMapM f as
    pure (b :: bs)

def bytesMsgOf (fs : List WField) : BytesMsg := getBytes 1 fs

def hashHeightOf (fs : List WField) : Option HashHeightPB := do
  let h ← getMsg 1 fs
  pure { hash := h.map bytesMsgOf, height := getVarint 2 fs }

def accountHeaderOf (fs : List WField) : Option AccountHeaderPB := do
  let a ← getMsg 1 fs
  let hh ← getMsg 2 fs
  let hh ← optMapM hashHeightOf hh
  pure { address := a.map bytesMsgOf, hashHeight := hh }

def aBodyOf (fs : List WField) : Option ABodyPB := do
  let hash ← getMsg 4 fs
  let previousHash ← getMsg 5 fs
  let ma ← getMsg 7 fs
  let ma ← optMapM hashHeightOf ma
  let address ← getMsg 8 fs
  let toAddress ← getMsg 9 fs
  let fromBlockHash ← getMsg 12 fs
  let changesHash ← getMsg 21 fs
  pure {
    version := getVarint 1 fs, chainIdentifier := getVarint 2 fs, blockType := getVarint 3 fs,
    hash := hash.map bytesMsgOf, previousHash := previousHash.map bytesMsgOf, height := getVarint 6 fs,
    momentumAcknowledged := ma, address := address.map bytesMsgOf, toAddress := toAddress.map bytesMsgOf,
    amount := getBytes 10 fs, tokenStandard := getBytes 11 fs, fromBlockHash := fromBlockHash.map bytesMsgOf,
    data := getBytes 14 fs, fusedPlasma := getVarint 15 fs, difficulty := getVarint 17 fs, nonce := getBytes 18 fs,
    basePlasma := getVarint 19 fs, totalPlasma := getVarint 20 fs, changesHash := changesHash.map bytesMsgOf,
    publicKey := getBytes 22 fs, signature := getBytes 23 fs }

/-- `fuel` bounds the nesting depth of field 13 -/
def blockOf : Nat → List WField → Option BlockPB
  | 0, _ => none
  | f + 1, fs => do
    let body ← aBodyOf fs
    let ds ← listMapM (fun b => (parseFields b).bind (blockOf f)) (lensOf 13 fs)
    pure ⟨body, ds⟩

/-- `proto.Unmarshal(data, *AccountBlockProto)`; `none` = error. (Go additionally stops at nesting depth
    10000; groups are outside the model.) -/
def decBlockPB (b : Bytes) : Option BlockPB := (parseFields b).bind (blockOf (b.length + 1))

def momentumOf (fs : List WField) : Option MomentumPB := do
  let hash ← getMsg 3 fs
  let previousHash ← getMsg 4 fs
  let content ← listMapM (fun b => (parseFields b).bind accountHeaderOf) (lensOf 8 fs)
  let changesHash ← getMsg 9 fs
  pure {
    version := getVarint 1 fs, chainIdentifier := getVarint 2 fs, hash := hash.map bytesMsgOf,
    previousHash := previousHash.map bytesMsgOf, height := getVarint 5 fs, timestamp := getVarint 6 fs,
    data := getBytes 7 fs, content := content, changesHash := changesHash.map bytesMsgOf,
    publicKey := getBytes 10 fs, signature := getBytes 11 fs }

/-- `proto.Unmarshal(data, *MomentumProto)` -/
def decMomentumPB (b : Bytes) : Option MomentumPB := (parseFields b).bind momentumOf

/-- `DeserializeAccountBlock`: outer `none` = error return, inner `none` = panic in `DeProtoAccountBlock` -/
def deserializeBlock (b : Bytes) : Option (Option Block) := (decBlockPB b).map BlockPB.deProto

/-- `DeserializeMomentum` -/
def deserializeMomentum (b : Bytes) : Option (Option Momentum) := (decMomentumPB b).map MomentumPB.deProto

/-! ## the field numbers the encoder uses, observed on probe messages with every field set -/

def wireKind (v : WVal) : String :=
  match v with
  | .varint _ => "varint"
  | .len _ => "len"
  | .fixed _ _ => "fixed"

/-- wire kind of a schema entry of `Gen.*ProtoSchema`: `bytes` and `message` are both length-delimited -/
def schemaWire (e : String × Nat × String × String) : Nat × String :=
  (e.2.1, if e.2.2.1 = "varint" then "varint" else "len")

def usedWire (fs : List WField) : List (Nat × String) := fs.map (fun f => (f.num, wireKind f.val))

def probeHashHeightPB : HashHeightPB := { hash := some [1], height := 1 }
def probeAccountHeaderPB : AccountHeaderPB := { address := some [1], hashHeight := some probeHashHeightPB }
def probeABodyPB : ABodyPB := {
  version := 1, chainIdentifier := 1, blockType := 1, hash := some [1], previousHash := some [1], height := 1,
  momentumAcknowledged := some probeHashHeightPB, address := some [1], toAddress := some [1], amount := [1],
  tokenStandard := [1], fromBlockHash := some [1], data := [1], fusedPlasma := 1, difficulty := 1, nonce := [1],
  basePlasma := 1, totalPlasma := 1, changesHash := some [1], publicKey := [1], signature := [1] }
def probeBlockPB : BlockPB := ⟨probeABodyPB, [⟨probeABodyPB, []⟩]⟩
def probeMomentumPB : MomentumPB := {
  version := 1, chainIdentifier := 1, hash := some [1], previousHash := some [1], height := 1, timestamp := 1,
  data := [1], content := [probeAccountHeaderPB], changesHash := some [1], publicKey := [1], signature := [1] }

/-- reviewed copies of the composite literals of `Proto()` / `DeProto…()` (target field, source expression) -/
def reviewed_abProtoAssign : List (String × String) := [
  ("Version", "ab.Version"), ("ChainIdentifier", "ab.ChainIdentifier"), ("BlockType", "ab.BlockType"),
  ("Hash", "ab.Hash.Proto()"), ("PreviousHash", "ab.PreviousHash.Proto()"), ("Height", "ab.Height"),
  ("MomentumAcknowledged", "ab.MomentumAcknowledged.Proto()"), ("Address", "ab.Address.Proto()"),
  ("ToAddress", "ab.ToAddress.Proto()"), ("Amount", "common.BigIntToBytes(ab.Amount)"),
  ("TokenStandard", "ab.TokenStandard.Bytes()"), ("FromBlockHash", "ab.FromBlockHash.Proto()"),
  ("DescendantBlocks", "nil"), ("Data", "ab.Data"), ("FusedPlasma", "ab.FusedPlasma"),
  ("Difficulty", "ab.Difficulty"), ("Nonce", "ab.Nonce.Serialize()"), ("BasePlasma", "ab.BasePlasma"),
  ("TotalPlasma", "ab.TotalPlasma"), ("ChangesHash", "ab.ChangesHash.Proto()"), ("PublicKey", "ab.PublicKey"),
  ("Signature", "ab.Signature")]

def reviewed_abDeProtoAssign : List (String × String) := [
  ("Version", "pb.Version"), ("ChainIdentifier", "pb.ChainIdentifier"), ("BlockType", "pb.BlockType"),
  ("Hash", "*types.DeProtoHash(pb.Hash)"), ("PreviousHash", "*types.DeProtoHash(pb.PreviousHash)"),
  ("Height", "pb.Height"), ("MomentumAcknowledged", "*types.DeProtoHashHeight(pb.MomentumAcknowledged)"),
  ("Address", "*types.DeProtoAddress(pb.Address)"), ("ToAddress", "*types.DeProtoAddress(pb.ToAddress)"),
  ("Amount", "common.BytesToBigInt(pb.Amount)"), ("TokenStandard", "types.BytesToZTSPanic(pb.TokenStandard)"),
  ("FromBlockHash", "*types.DeProtoHash(pb.FromBlockHash)"),
  ("DescendantBlocks", "make([]*AccountBlock, len(pb.DescendantBlocks))"), ("Data", "pb.Data"),
  ("FusedPlasma", "pb.FusedPlasma"), ("Difficulty", "pb.Difficulty"), ("Nonce", "DeSerializeNonce(pb.Nonce)"),
  ("BasePlasma", "pb.BasePlasma"), ("TotalPlasma", "pb.TotalPlasma"),
  ("ChangesHash", "*types.DeProtoHash(pb.ChangesHash)"), ("PublicKey", "pb.PublicKey"),
  ("Signature", "pb.Signature")]

def reviewed_momentumProtoAssign : List (String × String) := [
  ("Version", "m.Version"), ("ChainIdentifier", "m.ChainIdentifier"), ("Hash", "m.Hash.Proto()"),
  ("PreviousHash", "m.PreviousHash.Proto()"), ("Height", "m.Height"), ("Timestamp", "m.TimestampUnix"),
  ("Data", "m.Data"), ("Content", "m.Content.Proto()"), ("ChangesHash", "m.ChangesHash.Proto()"),
  ("PublicKey", "m.PublicKey"), ("Signature", "m.Signature")]

def reviewed_momentumDeProtoAssign : List (String × String) := [
  ("Version", "pb.Version"), ("ChainIdentifier", "pb.ChainIdentifier"), ("Hash", "*types.DeProtoHash(pb.Hash)"),
  ("PreviousHash", "*types.DeProtoHash(pb.PreviousHash)"), ("Height", "pb.Height"),
  ("TimestampUnix", "pb.Timestamp"), ("Data", "pb.Data"), ("Content", "DeProtoMomentumContent(pb.Content)"),
  ("ChangesHash", "*types.DeProtoHash(pb.ChangesHash)"), ("PublicKey", "pb.PublicKey"),
  ("Signature", "pb.Signature")]

/-! ## what the Go types guarantee of a generated message: `uint64` fields are below 2^64 -/

def ABodyPB.NatsOK (p : ABodyPB) : Prop :=
  p.version < two64 ∧ p.chainIdentifier < two64 ∧ p.blockType < two64 ∧ p.height < two64 ∧
  p.fusedPlasma < two64 ∧ p.difficulty < two64 ∧ p.basePlasma < two64 ∧ p.totalPlasma < two64 ∧
  ∀ m, p.momentumAcknowledged = some m → m.height < two64

mutual
def BlockPB.NatsOK : BlockPB → Prop
  | ⟨body, ds⟩ => body.NatsOK ∧ NatsOKList ds
def NatsOKList : List BlockPB → Prop
  | [] => True
  | d :: ds => d.NatsOK ∧ NatsOKList ds
end

def AccountHeaderPB.NatsOK (p : AccountHeaderPB) : Prop := ∀ hh, p.hashHeight = some hh → hh.height < two64

def MomentumPB.NatsOK (p : MomentumPB) : Prop :=
  p.version < two64 ∧ p.chainIdentifier < two64 ∧ p.height < two64 ∧ p.timestamp < two64 ∧
  ∀ h ∈ p.content, h.NatsOK

/-! ## well-formedness for the round trips: widths of ALL fixed-size fields, amount not negative -/

structure ABody.PBWF (b : ABody) : Prop where
  hash : b.hash.length = Gen.HashSize
  previousHash : b.previousHash.length = Gen.HashSize
  maHash : b.momentumAcknowledged.hash.length = Gen.HashSize
  address : b.address.length = Gen.AddressSize
  toAddress : b.toAddress.length = Gen.AddressSize
  amount : 0 ≤ b.amount
  tokenStandard : b.tokenStandard.length = Gen.ZtsSize
  fromBlockHash : b.fromBlockHash.length = Gen.HashSize
  nonce : b.nonce.length = Gen.NonceSize
  changesHash : b.changesHash.length = Gen.HashSize

mutual
def Block.PBWF : Block → Prop
  | ⟨body, ds⟩ => body.PBWF ∧ PBWFList ds
def PBWFList : List Block → Prop
  | [] => True
  | d :: ds => d.PBWF ∧ PBWFList ds
end

structure Momentum.PBWF (m : Momentum) : Prop where
  hash : m.hash.length = Gen.HashSize
  previousHash : m.previousHash.length = Gen.HashSize
  content : ∀ h ∈ m.content, h.address.length = Gen.AddressSize ∧ h.hash.length = Gen.HashSize
  changesHash : m.changesHash.length = Gen.HashSize

end ZV.Codec
