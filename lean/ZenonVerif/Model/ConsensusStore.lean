import ZenonVerif.Model.CodecPB
import ZenonVerif.Gen.ConsStore
/-
L5c `ConsensusStore` — the persistent store of the consensus layer (consensus/storage/{election_data.go, point.go,
db.go} with the generated message types of election_data.proto / point.proto): what a node keeps of its elections
(C05: "the schedule … from its cache, after a restart") and of its period / epoch statistics (C11: "the credited
amounts are a function of the chain alone").

Three layers, as in the code:
  1. values       `ElectionData` (producers, delegations), `Point` (two hashes, total weight, per-pillar details);
  2. codec        `marshalED / unmarshalED`, `marshalPoint / unmarshalPoint`: the proto3 wire form written by
                  `proto.Marshal` and read by `proto.Unmarshal` (wire layer REUSED from `Model/CodecPB.lean`: varint,
                  records, `parseFields`), plus what the hand-written Marshal/Unmarshal methods do around it
                  (`big.Int.Bytes()` / `SetBytes`, `types.BytesToAddress`, `Hash.SetBytes` only for non-empty bytes,
                  the map built entry by entry);
  3. database     a key-value map under the real keys (`CreatePointKey`: prefix byte ‖ 8-byte big-endian height,
                  `CreateElectionResultKey`: prefix byte ‖ 32-byte hash) with one LRU (hashicorp/golang-lru) per table
                  in front: `storeElection / getElection / storePoint / getPoint / deletePoint`, `reopen` = restart.

What is canonical and what is not. `ElectionData` holds slices: Marshal writes them in order, the byte string is a
function of the value (`marshalED`). `Point.Pillars` is a Go MAP and `Point.Marshal` ranges over it
(`Gen.csPointMarshalRangesOverMap`): the order of the `content` records is whatever order the runtime iterates in, so
the BYTES of a stored point are not a function of the value — only the decoded VALUE is. The model makes the
iteration order explicit: `Point.pillars` is the association list in the order Marshal met the entries (on the
decode side: the order of first insertion). Two `Point`s stand for the same Go value iff their `canon` (entries
sorted by name) agree; `Props/C05Store.lean` proves that decode∘encode does not depend on the order
(`point_value_canonical`) and shows two byte strings of one value (`point_bytes_not_canonical`). Nothing hashes or
compares these bytes: the only callers of the two Marshal methods are the two Store functions of db.go, which hand
the bytes to `db.Put` and nothing else (`Gen.csMarshalCallers`, `Gen.csMarshalResultUses`).

Aliasing. The real LRU keeps and hands out POINTERS (`cacheValue.(*Point)`): a caller that mutates what it got
mutates the cache, and a later reader gets the mutated object while a restarted node decodes the untouched bytes.
Model values are immutable, i.e. the model ASSUMES "no caller mutates an object it got from, or gave to, the store".
The assumption is not silent: it is `Store.Coherent` (every cached value is the decode of the backing bytes), proved
to be preserved by every store operation of the MODEL, and checked on the REAL objects by the `cs-pt-dec` lines of the
rewards-pure stream (the cached period points are printed after the real `LeftAppend` folds ran over them and must
still be the decode of the stored bytes) and by the `cs-db get-*` lines of the election stream (every answer is asked
twice and from a second instance).

Field order on the wire: `proto.Marshal` (google.golang.org/protobuf, impl/encode.go) writes the known fields of a message
in field-number order and the elements of a repeated field in slice order, whatever the order in which the Go code
filled the struct (ElectionData.Marshal fills `Delegations` before `Producers`; the bytes carry field 1 = producers
first). This is what `electionFields` / `pointFields` lay out and what the `cs-ed-enc` lines compare byte for byte.

Outside the model: proto3 `string` fields must be valid UTF-8 (`proto.Marshal` / `Unmarshal` fail otherwise); names
are byte strings here and the well-formedness predicate of the theorems restricts them to ASCII, which is what the
pillar contract admits. Negative weights lose their sign in `big.Int.Bytes()`; weights are balances (`Nat` here).
-/
namespace ZV.CStore
open ZV ZV.Codec

/-! ## 1. values -/

/-- `types.PillarDelegation` -/
structure Delegation where
  name : Bytes
  producing : Bytes
  weight : Nat
deriving DecidableEq, Repr, Inhabited

/-- `storage.ElectionData` -/
structure ElectionData where
  producers : List Bytes
  delegations : List Delegation
deriving DecidableEq, Repr, Inhabited

/-- `storage.ProducerDetail` (`ExpectedNum`, `FactualNum` are `uint32`) -/
structure Detail where
  expected : Nat
  factual : Nat
  weight : Nat
deriving DecidableEq, Repr, Inhabited

/-- `Point.Pillars` with the iteration order made explicit -/
abbrev PMap := List (Bytes × Detail)

/-- `storage.Point` -/
structure Point where
  prevHash : Bytes
  endHash : Bytes
  pillars : PMap
  totalWeight : Nat
deriving DecidableEq, Repr, Inhabited

/-! ## 2. codec -/

/-- `big.Int.Bytes()` of a non-negative value: big endian, minimal, EMPTY for 0 -/
def weightBytes (w : Nat) : Bytes := natBytesBE w

/-- `big.NewInt(0).SetBytes(b)` -/
def weightOf (b : Bytes) : Nat := beVal b

/-- proto3 `fixed32` without presence: wire type 5, four bytes little endian, omitted when zero -/
def fFixed32 (num v : Nat) : List WField := if v = 0 then [] else [⟨num, .fixed 5 (leBytes 4 v)⟩]

/-- `PillarDelegationProto`: 1 producingAddress (bytes), 2 name (string), 3 weight (bytes) -/
def delegationFields (d : Delegation) : List WField :=
  fBytes 1 d.producing ++ fBytes 2 d.name ++ fBytes 3 (weightBytes d.weight)

def producerRecs (ps : List Bytes) : List WField := ps.map (fun p => ⟨1, .len p⟩)

def delegationRecs (ds : List Delegation) : List WField :=
  ds.map (fun d => ⟨2, .len (encFields (delegationFields d))⟩)

/-- `ElectionDataProto`: 1 producers (repeated bytes: one record per element, also for an empty element),
    2 delegations (repeated message) -/
def electionFields (e : ElectionData) : List WField := producerRecs e.producers ++ delegationRecs e.delegations

/-- `(d *ElectionData) Marshal()` -/
def marshalED (e : ElectionData) : Bytes := encFields (electionFields e)

/-- `ProducerDetailProto`: 1 name (string), 2 factualNum (fixed32), 3 expectedNum (fixed32), 4 weight (bytes) -/
def detailFields (name : Bytes) (d : Detail) : List WField :=
  fBytes 1 name ++ fFixed32 2 d.factual ++ fFixed32 3 d.expected ++ fBytes 4 (weightBytes d.weight)

def pillarRecs (m : PMap) : List WField :=
  m.map (fun e => ⟨4, .len (encFields (detailFields e.1 e.2))⟩)

/-- `ConsensusPointProto`: 1 prevHash, 2 endHash, 3 totalWeight (bytes), 4 content (repeated message, in the order
    the `range p.Pillars` loop of Marshal appended them) -/
def pointFields (p : Point) : List WField :=
  fBytes 1 p.prevHash ++ fBytes 2 p.endHash ++ fBytes 3 (weightBytes p.totalWeight) ++ pillarRecs p.pillars

/-- `(p *Point) Marshal()` for the iteration order `p.pillars` -/
def marshalPoint (p : Point) : Bytes := encFields (pointFields p)

/-- records of field `k` with wire type 5 -/
def fixed32sOf (k : Nat) (fs : List WField) : List Bytes :=
  fs.filterMap fun f => if f.num = k then (match f.val with | .fixed 5 b => some b | _ => none) else none

/-- scalar `fixed32` field: the last record wins, 0 when absent -/
def getFixed32 (k : Nat) (fs : List WField) : Nat := ((fixed32sOf k fs).getLast?.map leVal).getD 0

/-- `types.BytesToAddress`: exactly 20 bytes -/
def addressOf (b : Bytes) : Option Bytes := if b.length = Gen.AddressSize then some b else none

/-- one element of `pb.Delegations` in `ElectionData.Unmarshal` -/
def delegationOf (fs : List WField) : Option Delegation := do
  let a ← addressOf (getBytes 1 fs)
  pure { name := getBytes 2 fs, producing := a, weight := weightOf (getBytes 3 fs) }

/-- `(d *ElectionData) Unmarshal(buf)`; `none` = error -/
def unmarshalED (b : Bytes) : Option ElectionData := do
  let fs ← parseFields b
  let ds ← listMapM (fun x => (parseFields x).bind delegationOf) (lensOf 2 fs)
  let ps ← listMapM addressOf (lensOf 1 fs)
  pure { producers := ps, delegations := ds }

def zeroHash : Bytes := List.replicate Gen.HashSize 0

/-- `if len(pb.X) > 0 { p.X.SetBytes(pb.X) }` on a fresh `Point`: absent = the zero hash, otherwise 32 bytes -/
def hashOf (b : Bytes) : Option Bytes :=
  if b.isEmpty then some zeroHash else if b.length = Gen.HashSize then some b else none

/-- one element of `pb.Content` -/
def entryOf (fs : List WField) : Bytes × Detail :=
  (getBytes 1 fs, { expected := getFixed32 3 fs, factual := getFixed32 2 fs, weight := weightOf (getBytes 4 fs) })

/-- `p.Pillars[name] = detail`: replaces the value of an existing key, appends a new one -/
def mapInsert : PMap → Bytes → Detail → PMap
  | [], k, v => [(k, v)]
  | (k', d) :: rest, k, v => if k' = k then (k', v) :: rest else (k', d) :: mapInsert rest k v

def mapOfEntries (es : List (Bytes × Detail)) : PMap := es.foldl (fun m e => mapInsert m e.1 e.2) []

/-- `(p *Point) Unmarshal(buf)` on a fresh `Point`; `none` = error -/
def unmarshalPoint (b : Bytes) : Option Point := do
  let fs ← parseFields b
  let e ← hashOf (getBytes 2 fs)
  let p ← hashOf (getBytes 1 fs)
  let es ← listMapM (fun x => (parseFields x).map entryOf) (lensOf 4 fs)
  pure { prevHash := p, endHash := e, pillars := mapOfEntries es, totalWeight := weightOf (getBytes 3 fs) }

/-! ### the value behind a `Point`: entries sorted by name (what the harness prints, `sort.Strings`) -/

def nameLe (a b : Bytes × Detail) : Bool := decide (a.1 ≤ b.1)

def insertSorted (e : Bytes × Detail) : PMap → PMap
  | [] => [e]
  | x :: xs => if nameLe e x then e :: x :: xs else x :: insertSorted e xs

def sortPillars (m : PMap) : PMap := m.foldr insertSorted []

def Point.canon (p : Point) : Point := { p with pillars := sortPillars p.pillars }

/-! ### well-formedness: what the Go types guarantee of a value taken from the ledger -/

def asciiName (n : Bytes) : Bool := n.all (fun c => decide (c < 128))

def Delegation.WF (d : Delegation) : Prop :=
  d.producing.length = Gen.AddressSize ∧ asciiName d.name = true

instance (d : Delegation) : Decidable d.WF := by unfold Delegation.WF; infer_instance

/-- addresses are 20 bytes, names ASCII, the encoding fits a Go slice -/
def ElectionData.WF (e : ElectionData) : Prop :=
  (∀ p ∈ e.producers, p.length = Gen.AddressSize) ∧ (∀ d ∈ e.delegations, d.WF) ∧
  (marshalED e).length < two64

instance (e : ElectionData) : Decidable e.WF := by unfold ElectionData.WF; infer_instance

def namesOf (m : PMap) : List Bytes := m.map (·.1)

/-- hashes are 32 bytes, counters `uint32`, names ASCII and pairwise different (keys of a map), the encoding fits -/
def Point.WF (p : Point) : Prop :=
  p.prevHash.length = Gen.HashSize ∧ p.endHash.length = Gen.HashSize ∧
  (∀ e ∈ p.pillars, asciiName e.1 = true ∧ e.2.expected < two32 ∧ e.2.factual < two32) ∧
  (namesOf p.pillars).Nodup ∧ (marshalPoint p).length < two64

instance (p : Point) : Decidable p.WF := by unfold Point.WF; infer_instance

/-! ### the two seeded variants (negative witnesses in `Props/C05Store.lean`) -/

/-- a Marshal whose producer records all alias one array: every record carries the LAST producer -/
def marshalEDAliased (e : ElectionData) : Bytes :=
  encFields (producerRecs (e.producers.map (fun _ => e.producers.getLast?.getD [])) ++ delegationRecs e.delegations)

/-- an Unmarshal that skips "incomplete" content entries: empty name or empty weight bytes -/
def unmarshalPointSkipping (b : Bytes) : Option Point := do
  let fs ← parseFields b
  let e ← hashOf (getBytes 2 fs)
  let p ← hashOf (getBytes 1 fs)
  let es ← listMapM (fun x => (parseFields x).map (fun r => (r, entryOf r))) (lensOf 4 fs)
  let kept := es.filter (fun x => !(getBytes 1 x.1).isEmpty && !(getBytes 4 x.1).isEmpty)
  pure { prevHash := p, endHash := e, pillars := mapOfEntries (kept.map (·.2)), totalWeight := weightOf (getBytes 3 fs) }

/-! ## 3. database -/

/-- `CreatePointKey(prefix, height)`: 1 + 8 bytes -/
def pointKey (pfx height : Nat) : Bytes := pfx :: u64 height

/-- `CreateElectionResultKey(hash)`: 1 + 32 bytes -/
def electionKey (hash : Bytes) : Bytes := Gen.csPrefixElectionResult :: hash

/-- the backing `db.DB` as far as the store uses it (Get / Put / Delete): newest binding first -/
abbrev KV := List (Bytes × Bytes)

def kvGet : KV → Bytes → Option Bytes
  | [], _ => none
  | (k', v) :: rest, k => if k' = k then some v else kvGet rest k

def kvPut (kv : KV) (k v : Bytes) : KV := (k, v) :: kv

def kvDel (kv : KV) (k : Bytes) : KV := kv.filter (fun e => decide (e.1 ≠ k))

/-- `lru.Cache` (hashicorp/golang-lru, simplelru): entries most recently used first, at most `cap` of them -/
structure Lru (κ α : Type) where
  cap : Nat
  items : List (κ × α)
deriving Repr

namespace Lru
variable {κ α : Type} [DecidableEq κ]

def new (cap : Nat) : Lru κ α := ⟨cap, []⟩

def find : List (κ × α) → κ → Option α
  | [], _ => none
  | (k', v) :: rest, k => if k' = k then some v else find rest k

def without (items : List (κ × α)) (k : κ) : List (κ × α) := items.filter (fun e => decide (e.1 ≠ k))

/-- `Get`: a hit moves the entry to the front and returns the cached value -/
def get? (c : Lru κ α) (k : κ) : Option (α × Lru κ α) :=
  (find c.items k).map (fun v => (v, { c with items := (k, v) :: without c.items k }))

/-- `Add`: existing key: value replaced, moved to the front; new key: pushed to the front, the oldest entry
    removed when the size is exceeded -/
def add (c : Lru κ α) (k : κ) (v : α) : Lru κ α := { c with items := ((k, v) :: without c.items k).take c.cap }

/-- `Remove` -/
def remove (c : Lru κ α) (k : κ) : Lru κ α := { c with items := without c.items k }

end Lru

/-- `storage.DB` -/
structure Store where
  kv : KV
  elect : Lru Bytes ElectionData
  points : List (Lru Nat Point)

/-- `NewConsensusDB(db, electionCacheSize, pointCacheSize)` -/
def Store.openOn (kv : KV) (ecap pcap : Nat) : Store :=
  { kv := kv, elect := Lru.new ecap, points := List.replicate Gen.csNumPointTypes (Lru.new pcap) }

/-- a restarted node: the same backing database, empty caches of the same sizes -/
def Store.reopen (s : Store) : Store :=
  { kv := s.kv, elect := Lru.new s.elect.cap, points := s.points.map (fun c => Lru.new c.cap) }

/-- `StoreElectionResultByHash`: bytes to the database, then the VALUE ITSELF into the cache -/
def storeElection (s : Store) (hash : Bytes) (e : ElectionData) : Store :=
  { s with kv := kvPut s.kv (electionKey hash) (marshalED e), elect := s.elect.add hash e }

/-- `GetElectionResultByHash`: outer `none` = error (undecodable bytes), inner `none` = not found (`nil, nil`) -/
def getElection (s : Store) (hash : Bytes) : Option (Store × Option ElectionData) :=
  match s.elect.get? hash with
  | some (v, c) => some ({ s with elect := c }, some v)
  | none =>
    match kvGet s.kv (electionKey hash) with
    | none => some (s, none)
    | some b =>
      match unmarshalED b with
      | none => none
      | some v => some ({ s with elect := s.elect.add hash v }, some v)

/-- `StorePointByHeight`; `none` = `db.pointCache[prefix]` out of range (panic) -/
def storePoint (s : Store) (pfx height : Nat) (p : Point) : Option Store :=
  match s.points[pfx]? with
  | none => none
  | some c => some { s with kv := kvPut s.kv (pointKey pfx height) (marshalPoint p),
                            points := s.points.set pfx (c.add height p) }

/-- `GetPointByHeight` -/
def getPoint (s : Store) (pfx height : Nat) : Option (Store × Option Point) :=
  match s.points[pfx]? with
  | none => none
  | some c =>
    match c.get? height with
    | some (v, c') => some ({ s with points := s.points.set pfx c' }, some v)
    | none =>
      match kvGet s.kv (pointKey pfx height) with
      | none => some (s, none)
      | some b =>
        match unmarshalPoint b with
        | none => none
        | some v => some ({ s with points := s.points.set pfx (c.add height v) }, some v)

/-- `DeletePointByHeight` -/
def deletePoint (s : Store) (pfx height : Nat) : Option Store :=
  match s.points[pfx]? with
  | none => none
  | some c => some { s with kv := kvDel s.kv (pointKey pfx height), points := s.points.set pfx (c.remove height) }

/-- what a node WITHOUT any cache answers: decode of the backing bytes (outer `none` = error) -/
def answerED (kv : KV) (hash : Bytes) : Option (Option ElectionData) :=
  match kvGet kv (electionKey hash) with
  | none => some none
  | some b => (unmarshalED b).map some

def answerPoint (kv : KV) (pfx height : Nat) : Option (Option Point) :=
  match kvGet kv (pointKey pfx height) with
  | none => some none
  | some b => (unmarshalPoint b).map some

/-- the cache invariant = the aliasing assumption made explicit: every cached value is what a cache-less node
    would decode from the backing bytes under the same key (cached heights are `uint64`s; there is one cache per
    point table) -/
def Store.Coherent (s : Store) : Prop :=
  (∀ h e, (h, e) ∈ s.elect.items → answerED s.kv h = some (some e)) ∧
  (∀ i c, s.points[i]? = some c → ∀ ht p, (ht, p) ∈ c.items →
    answerPoint s.kv i ht = some (some p) ∧ ht < two64) ∧
  s.points.length = Gen.csNumPointTypes

/-- operations of a node on its consensus database -/
inductive Op where
  | storeE (hash : Bytes) (e : ElectionData)
  | getE (hash : Bytes)
  | storeP (pfx height : Nat) (p : Point)
  | getP (pfx height : Nat)
  | delP (pfx height : Nat)
  | restart

/-- keys are a `types.Hash` / a `uint64` and one of the point tables; stored values are well formed -/
def Op.WF : Op → Prop
  | .storeE h e => h.length = Gen.HashSize ∧ e.WF
  | .getE h => h.length = Gen.HashSize
  | .storeP i ht p => i < Gen.csNumPointTypes ∧ ht < two64 ∧ p.WF
  | .getP i ht => i < Gen.csNumPointTypes ∧ ht < two64
  | .delP i ht => i < Gen.csNumPointTypes ∧ ht < two64
  | .restart => True

/-- `none` = the operation fails (error or panic) -/
def step (s : Store) : Op → Option Store
  | .storeE h e => some (storeElection s h e)
  | .getE h => (getElection s h).map (·.1)
  | .storeP i ht p => storePoint s i ht p
  | .getP i ht => (getPoint s i ht).map (·.1)
  | .delP i ht => deletePoint s i ht
  | .restart => some s.reopen

def run : Store → List Op → Option Store
  | s, [] => some s
  | s, op :: ops => (step s op).bind (fun s' => run s' ops)

/-! ### schema probes and reviewed copies (compared with the generated facts in `Props/C05Store.lean`) -/

def probeDelegation : Delegation := { name := [97], producing := [1], weight := 1 }
def probeED : ElectionData := { producers := [[1]], delegations := [probeDelegation] }
def probeDetail : Detail := { expected := 1, factual := 1, weight := 1 }
def probePoint : Point := { prevHash := [1], endHash := [1], pillars := [([97], probeDetail)], totalWeight := 1 }

def wireKind3 (v : WVal) : String :=
  match v with
  | .varint _ => "varint"
  | .len _ => "len"
  | .fixed 5 _ => "fixed32"
  | .fixed _ _ => "fixed64"

/-- wire kind of a descriptor entry (name, number, kind, cardinality) -/
def descWire (e : String × Nat × String × String) : Nat × String :=
  (e.2.1, if e.2.2.1 = "fixed32" then "fixed32"
          else if e.2.2.1 = "bytes" ∨ e.2.2.1 = "string" ∨ e.2.2.1 = "message" then "len" else "other")

def usedWire3 (fs : List WField) : List (Nat × String) := fs.map (fun f => (f.num, wireKind3 f.val))

def reviewed_delegationProtoAssign : List (String × String) := [
  ("Name", "el.Name"), ("ProducingAddress", "el.Producing.Bytes()"), ("Weight", "el.Weight.Bytes()")]

def reviewed_delegationAssign : List (String × String) := [
  ("Weight", "big.NewInt(0).SetBytes(p.Weight)"), ("Name", "p.Name"), ("Producing", "addr")]

def reviewed_producerDetailAssign : List (String × String) := [
  ("ExpectedNum", "v.ExpectedNum"), ("FactualNum", "v.FactualNum"), ("Weight", "big.NewInt(0).SetBytes(v.Weight)")]

def reviewed_CreatePointKey : String := "func CreatePointKey(prefix byte, height uint64) []byte { key := make([]byte, 1+8) key[0] = prefix binary.BigEndian.PutUint64(key[1:9], height) return key }"

def reviewed_CreateElectionResultKey : String := "func CreateElectionResultKey(hash types.Hash) []byte { key := make([]byte, 1+types.HashSize) key[0] = PrefixElectionResult copy(key[1:types.HashSize+1], hash.Bytes()) return key }"

/-- every zero-argument `.Marshal()` call of the tree and what is done with its result -/
def reviewed_marshalCallers : List String :=
  ["consensus/storage/db.go:StorePointByHeight", "consensus/storage/db.go:StoreElectionResultByHash"]

def reviewed_marshalResultUses : List String :=
  ["db.db.Put(CreatePointKey(prefix, height), bytes)", "db.db.Put(CreateElectionResultKey(hash), bytes)"]

def reviewed_cacheSizeExpr : String := "7 * 24 * 60 * 60 / (constants.ConsensusConfig.BlockTime * int64(constants.ConsensusConfig.NodeCount))"

end ZV.CStore
