import ZenonVerif.Model.Num
import ZenonVerif.Gen.Proto
/-
L8 (part) — request/reply arithmetic and dispatch of the protocol handler.
Stands for protocol/handler.go {handleMsg}, protocol/peer.go {Handshake},
protocol/chain_bridge.go {GetBlockHashesFromHash, GetBlockByNumber, GetBlock, CurrentBlock},
chain/momentum/momentum.go {GetMomentumsByHash, GetMomentumsByHeight, getMomentumsByRange}.

The local chain is abstracted to its frontier height `H` (momentums at heights 1..H, each with its own
hash). A hash in a request is given as `some h` = "the hash of our momentum at height h" or `none` =
"a hash we do not hold"; a hash in a reply is given as the height of the momentum it belongs to. (`some h` with h outside 1..H names no
momentum of ours and behaves like `none` in every handler — see `byHash`.)
All `uint64` arithmetic is written on `Nat` with explicit `% 2^64` where Go wraps around.
-/
namespace ZV.Proto
open ZV

/-- uint64 wrap-around -/
def u64 (n : Nat) : Nat := n % two64

/-- uint64 subtraction `a - b` of two uint64 values (both < 2^64): wraps around below zero.
    (Written without `a + 2^64`: a literal offset of that size on a variable sends Lean's unifier and
    kernel into unary arithmetic.) -/
def sub64 (a b : Nat) : Nat := if b ≤ a then a - b else two64 - (b - a)

/-- result of a chain-bridge call: a value, a returned error, or a Go run-time panic -/
inductive R (α : Type) where
  | ok (a : α)
  | err
  | panic
  deriving DecidableEq, Repr

/-- `momentumStore.GetMomentumByHeight`: heights 1..H are held (nil, nil otherwise). -/
def byHeight (H h : Nat) : Option Nat := if 1 ≤ h ∧ h ≤ H then some h else none

/-- Go run time: `make([]*T, 0, n)` panics ("makeslice: cap out of range") when n·8 exceeds the address
    space limit (2^48 on amd64), i.e. n > 2^45. -/
def makesliceMax : Nat := 35184372088832

/-- `momentumStore.getMomentumsByRange(from, to)`: `make(.., 0, to-from)` then one lookup per height in
    [from, to); a height that is not held appends a nil entry. -/
def momentumsByRange (H frm to : Nat) : R (List (Option Nat)) :=
  if sub64 to frm > makesliceMax then .panic
  else .ok ((List.range' frm (to - frm)).map (byHeight H))

/-- `momentumStore.GetMomentumsByHeight(height, higher = false, count)`: the (from, to) it computes. -/
def lowerRange (height count : Nat) : Nat × Nat :=
  let frm := if u64 (height + 1) ≤ count then 1 else sub64 (u64 (height + 1)) count
  (frm, u64 (height + 1))

/-- `momentumStore.GetMomentumByHash(hash)`: `some h` stands for the hash of our momentum at height h and is
    found exactly when that height is held; `none` (a hash of no momentum of ours) is never found. -/
def byHash (H : Nat) (hash : Option Nat) : Option Nat := hash.bind (byHeight H)

/-- `chainBridge.GetBlockHashesFromHash(hash, amount)` =
    `GetMomentumsByHash(hash, false, amount)` — `if momentum == nil { return nil, nil }` since d85e958: a hash
    the node does not hold yields no momentums, hence an empty list of hashes — and then `momentums[i].Hash`
    for every entry (nil entry ⇒ panic). Result: heights, ascending. -/
def hashesFromHash (H : Nat) (hash : Option Nat) (amount : Nat) : R (List Nat) :=
  match byHash H hash with
  | none => .ok []
  | some h =>
    let r := lowerRange h amount
    match momentumsByRange H r.1 r.2 with
    | .ok l => if l.all Option.isSome then .ok (l.filterMap id) else .panic
    | .err => .err
    | .panic => .panic

/-- error classes of `handleMsg` / `Handshake` (protocol/protocol.go errCode + "other") -/
inductive Err where
  | msgTooLarge | decode | invalidMsgCode | protocolVersionMismatch | networkIdMismatch
  | genesisBlockMismatch | noStatusMsg | extraStatusMsg | other
  deriving DecidableEq, Repr

/-- what the peer on the other side observes for one message -/
inductive Reply where
  | hashes (l : List Nat)      -- BlockHashesMsg carrying these hashes (as heights), in wire order
  | blocks (l : List Nat)      -- BlocksMsg carrying these momentums (as heights), in wire order
  | cont                       -- no reply, handler returned nil: the session continues
  | err (e : Err)              -- handler returned an error: this peer is dropped
  | panic                      -- run-time panic on the peer's goroutine: the process dies
  deriving DecidableEq, Repr

/-- decoded shape of a payload. `undecodable` = RLP decoding into the handler's request type fails. -/
inductive Body where
  | undecodable
  | getHashes (hash : Option Nat) (amount : Nat)            -- getBlockHashesData
  | getHashesFromNumber (number amount : Nat)               -- getBlockHashesFromNumberData
  | getBlocks (hashes : List (Option Nat)) (tailBad : Bool)  -- outer list ok; hashes decoded in order; then a decoding error?
  | items (n : Nat) (nilItem : Bool)                         -- well-formed list for the five delivery codes; TxMsg: a nil element
  deriving DecidableEq, Repr

structure Msg where
  code : Nat
  size : Nat
  body : Body
  deriving DecidableEq, Repr

/-- the part of the node a message can change in this model: the frontier height is read-only for every
    handler; deliveries are counted (what is handed to downloader / fetcher / pool), marks are the
    per-peer known-hash caches. -/
structure State where
  H : Nat
  delivered : Nat := 0
  marked : Nat := 0
  deriving DecidableEq, Repr

def capHash (amount : Nat) : Nat := if amount > Gen.MaxHashFetch then Gen.MaxHashFetch else amount

/-- `case GetBlockHashesMsg` -/
def onGetHashes (H : Nat) (hash : Option Nat) (amount : Nat) : Reply :=
  match hashesFromHash H hash (capHash amount) with
  | .ok l => .hashes l
  | .err => .err .other
  | .panic => .panic

/-- `chainBridge.CurrentBlock()`: the momentum at the frontier height — nil only for a chain that holds no
    momentum at all (H = 0), which `chain.Init` excludes: a node always holds its genesis momentum. -/
def currentBlock (H : Nat) : Option Nat := byHeight H H

/-- `case GetBlockHashesFromNumberMsg`, first half: `last, err := GetBlockByNumber(Number + Amount - 1)`;
    if that is nil: `last = CurrentBlock()` and — since 99f2642 —
    `if available := last.Height - Number + 1; available < Amount { Amount = available }` (uint64 arithmetic,
    wraps around for Number > last.Height + 1): the already capped amount is only ever reduced.
    Returns (last.Height, Amount); `none` = `last` is still nil (dereferenced by `last.Height`). -/
def fromNumberLast (H number amount1 : Nat) : Option (Nat × Nat) :=
  match byHeight H (sub64 (u64 (number + amount1)) 1) with
  | some l => some (l, amount1)
  | none =>
    match currentBlock H with
    | none => none
    | some fr =>
      let available := u64 (sub64 fr number + 1)
      some (fr, if available < amount1 then available else amount1)

/-- `case GetBlockHashesFromNumberMsg` -/
def onGetHashesFromNumber (H number amount : Nat) : Reply :=
  match fromNumberLast H number (capHash amount) with
  | none => .panic
  | some p =>
    if p.1 < number then .hashes []
    else
      match hashesFromHash H (some p.1) p.2 with
      | .ok l => .hashes l.reverse
      | .err => .err .other
      | .panic => .panic

/-
Where a `.panic` outcome of the two hash handlers can still come from, after d85e958 and 99f2642
(`C15.handler_total` proves there is nothing else):

 * `currentBlock H = none`, i.e. H = 0: `last.Height` on a nil `CurrentBlock()`. Excluded by `1 ≤ H`; a node
   cannot be in that state (`chain.Init` inserts the genesis momentum before anything is served).
 * `momentumsByRange` asked for more than `makesliceMax` entries, or meeting a height that is not held (nil
   entry, `momentums[i].Hash`). The count that reaches `lowerRange` is always a capped amount (≤ MaxHashFetch
   = 512, `fromNumberLast_amount_le`) and the height is one of a held momentum (1 ≤ h ≤ H), so the range is
   [max(1, h+1−count), h+1) ⊆ [1, H] — unless `h + 1` wraps around, which needs h = H = 2^64 − 1: then
   from = 1, to = 0 and `make(…, 0, to−from)` panics. Excluded by `H + 1 < 2^64`; unreachable for a real chain
   (2^64 − 1 momentums at one per 10 s are 5.8·10^12 years), but true of the code, so it stays a stated premise.

No premise on the REQUEST is left: every hash (held or not), every number and every amount is covered.
-/

/-- the gathering loop of `case GetBlocksMsg`: unknown hashes are skipped, stop at MaxBlockFetch blocks;
    returns the blocks and whether the loop left early (cap reached). -/
def gatherBlocks : List (Option Nat) → List Nat → List Nat × Bool
  | [], acc => (acc, false)
  | none :: rest, acc => gatherBlocks rest acc
  | some h :: rest, acc =>
    let acc' := acc ++ [h]
    if acc'.length ≥ Gen.MaxBlockFetch then (acc', true) else gatherBlocks rest acc'

/-- `case GetBlocksMsg`: a decoding error met before the cap is reached drops the peer without a reply. -/
def onGetBlocks (H : Nat) (hashes : List (Option Nat)) (tailBad : Bool) : Reply :=
  let held := hashes.map (fun o => o.bind (byHeight H))
  let (bl, early) := gatherBlocks held []
  if tailBad && !early then .err .decode else .blocks bl

/-- the `case` of `switch msg.Code` a code selects -/
inductive Kind where
  | status | newBlockHashes | tx | getHashes | blockHashes | getBlocks | blocks | newBlock
  | getHashesFromNumber | unknown
  deriving DecidableEq, Repr

def kindOf (code : Nat) : Kind :=
  if code = Gen.StatusMsg then .status
  else if code = Gen.NewBlockHashesMsg then .newBlockHashes
  else if code = Gen.TxMsg then .tx
  else if code = Gen.GetBlockHashesMsg then .getHashes
  else if code = Gen.BlockHashesMsg then .blockHashes
  else if code = Gen.GetBlocksMsg then .getBlocks
  else if code = Gen.BlocksMsg then .blocks
  else if code = Gen.NewBlockMsg then .newBlock
  else if code = Gen.GetBlockHashesFromNumberMsg then .getHashesFromNumber
  else .unknown

/-- the body of one `case` of `handleMsg` -/
def handleKind (s : State) : Kind → Body → State × Reply
  | .status, _ => (s, .err .extraStatusMsg)
  | .getHashes, .getHashes h a => (s, onGetHashes s.H h a)
  | .getHashes, _ => (s, .err .decode)
  | .getHashesFromNumber, .getHashesFromNumber n a => (s, onGetHashesFromNumber s.H n a)
  | .getHashesFromNumber, _ => (s, .err .decode)
  | .getBlocks, .getBlocks hs bad => (s, onGetBlocks s.H hs bad)
  | .getBlocks, _ => (s, .err .other)                 -- msgStream.List() error is returned as is
  | .blockHashes, .items n _ => ({ s with delivered := s.delivered + n }, .cont)
  | .blockHashes, _ => (s, .cont)                     -- decode error: `break`, handler returns nil
  | .newBlockHashes, .items n _ => ({ s with marked := s.marked + n, delivered := s.delivered + n }, .cont)
  | .newBlockHashes, _ => (s, .cont)
  | .blocks, .items n _ => ({ s with delivered := s.delivered + n }, .cont)
  | .blocks, _ => (s, .err .other)                    -- rlp error returned as is
  | .newBlock, .items n _ => ({ s with marked := s.marked + n, delivered := s.delivered + n }, .cont)
  | .newBlock, _ => (s, .err .decode)
  | .tx, .items n nilItem =>
    if nilItem then (s, .err .decode)
    else ({ s with marked := s.marked + n, delivered := s.delivered + n }, .cont)
  | .tx, _ => (s, .err .decode)
  | .unknown, _ => (s, .err .invalidMsgCode)

/-- `ProtocolManager.handleMsg` after `ReadMsg` succeeded: size gate, then the switch. -/
def handleMsg (s : State) (m : Msg) : State × Reply :=
  if m.size > Gen.ProtocolMaxMsgSize then (s, .err .msgTooLarge)
  else handleKind s (kindOf m.code) m.body

/-- `peer.Handshake` on the first message of a session: `none` = handshake accepted. -/
def handshake (code size : Nat) (decodes genesisOk networkOk versionOk : Bool) : Option Err :=
  if code ≠ Gen.StatusMsg then some .noStatusMsg
  else if size > Gen.ProtocolMaxMsgSize then some .msgTooLarge
  else if !decodes then some .decode
  else if !genesisOk then some .genesisBlockMismatch
  else if !networkOk then some .networkIdMismatch
  else if !versionOk then some .protocolVersionMismatch
  else none

/-- number of items a reply puts on the wire -/
def Reply.count : Reply → Nat
  | .hashes l => l.length
  | .blocks l => l.length
  | _ => 0

/-- the statement's reply limits: 512 hashes / 128 momentums per reply -/
def Reply.withinCaps : Reply → Prop
  | .hashes l => l.length ≤ Gen.MaxHashFetch
  | .blocks l => l.length ≤ Gen.MaxBlockFetch
  | _ => True

end ZV.Proto
