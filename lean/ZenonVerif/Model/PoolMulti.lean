import ZenonVerif.Model.Pool
/-
L7 — the WHOLE unconfirmed pool: every address, transactions with several commits. Generalises Model/Pool.lean (one
address, one-block transactions). Stands for chain/account_pool.go {addAccountBlockTransaction, canRollback, rebuild,
InsertMomentum, DeleteMomentum, GetPatch, GetAllUncommittedAccountBlocks, GetNewMomentumContent} over
common/db/versioned_db.go memdbManager {Add, Pop, GetPatch} with `nom.AccountBlockTransaction.GetCommits`.
Core Lean only.

A transaction is `nom.AccountBlockTransaction{Block}`: `GetCommits()` = the block's `DescendantBlocks` followed by the
block itself — the descendant sends of a contract receive have the LOWER heights, the receive that carries them is the
LAST commit; `Block.Identifier()` is the receive's, `Block.Previous()` is the first descendant's.
-/
namespace ZV.PoolMulti
open ZV ZV.Pool

/-- an address (the harness numbers them) -/
abbrev Addr := Nat

/-- `nom.AccountBlockTransaction`: `head` = `transaction.Block`, `desc` = `Block.DescendantBlocks` (blocks without
    descendants of their own: the VM emits none) -/
structure Tx where
  desc : List Blk
  head : Blk
  deriving DecidableEq, Repr, Inhabited

/-- `GetCommits()` -/
def Tx.commits (t : Tx) : List Blk := t.desc ++ [t.head]

/-- `transaction.Block.Identifier()` = identifier of the last commit -/
def Tx.id (t : Tx) : Id := t.head.id

/-- `transaction.Block.Previous()` = `commits[0].Previous()` -/
def Tx.prev (t : Tx) : Id :=
  match t.desc with
  | [] => t.head.prev
  | d :: _ => d.prev

/-- the blocks a list of transactions writes, in order -/
def flat (ts : List Tx) : List Blk := ts.flatMap Tx.commits

/-- `memdbManager`: `base` = the chain in `stableDB` when the manager was created, `pooled` = the transactions added since
    (the `previous` map is this stack), `patches` = the keys of the `patches` map (= keys of `versions` without the
    stable identifier): a Go map, so membership is all that matters -/
structure Mgr where
  base    : List Blk
  pooled  : List Tx
  patches : List Id
  deriving DecidableEq, Repr

/-- what the frontier database of the manager holds: every commit was written with SetFrontier, in order -/
def Mgr.view (m : Mgr) : List Blk := m.base ++ flat m.pooled

/-- `frontierIdentifier` (= `GetFrontierIdentifier(manager.Frontier())`) -/
def Mgr.frontierId (m : Mgr) : Id := lastId m.view

/-- `memdbManager.GetPatch(identifier) != nil` -/
def Mgr.hasPatch (m : Mgr) (i : Id) : Bool := m.patches.contains i

/-- `memdbManager.Add`: `commits[0].Previous()` must be the frontier identifier; every commit is registered -/
def Mgr.add (m : Mgr) (t : Tx) : Option Mgr :=
  if t.prev = m.frontierId then
    some { m with pooled := m.pooled ++ [t], patches := m.patches ++ t.commits.map Blk.id }
  else none

/-- `memdbManager.Pop` (since b940a18): refuses at the stable identifier, else drops the newest transaction and forgets
    every identifier registered with the version of its head (all its commits) -/
def Mgr.pop (m : Mgr) : Option Mgr :=
  if lastId m.base = m.frontierId then none
  else match m.pooled.getLast? with
    | none => none           -- "can't find previous" (frontier ≠ stable with nothing added: not reachable)
    | some t => some { m with pooled := m.pooled.dropLast,
                              patches := m.patches.filter (fun i => !(t.commits.map Blk.id).contains i) }

/-- VARIANT (before b940a18): `Pop` forgot the head's identifier only -/
def Mgr.popHeadOnly (m : Mgr) : Option Mgr :=
  if lastId m.base = m.frontierId then none
  else match m.pooled.getLast? with
    | none => none
    | some t => some { m with pooled := m.pooled.dropLast, patches := m.patches.filter (fun i => !(i == t.id)) }

/-- pool state of one address with the stable chain it reads (`ap.stable.GetStableAccountDB(address)`) -/
structure AState where
  confirmed : List Blk := []
  mgr       : Option Mgr := none      -- `ap.managers[address]`
  deriving DecidableEq, Repr, Inhabited

/-- `getAccountManager`: created on first use from the current stable database -/
def AState.manager (s : AState) : Mgr := s.mgr.getD ⟨s.confirmed, [], []⟩

/-- the rollback loop of `addAccountBlockTransaction` -/
def rollbackTo (pop : Mgr → Option Mgr) (previous : Id) : Nat → Mgr → Mgr × Bool
  | 0, m => (m, decide (m.frontierId = previous))
  | fuel + 1, m =>
    if m.frontierId = previous then (m, true)
    else match pop m with
      | none => (m, false)
      | some m' => rollbackTo pop previous fuel m'

/-- `canRollback(block)` with `identifier = block.Identifier()` (the HEAD's) and `previous = block.Previous()` (the first
    commit's): refused at or below the stable height; the first block of an account has nothing to look up; otherwise the
    block stored at `identifier.Height - 1` must be `previous` — for a transaction with descendants that block is looked
    up one below the HEAD while `previous` lies one below the FIRST descendant, so the test cannot succeed -/
def canRollback (conf : List Blk) (m : Mgr) (t : Tx) : Option AddRes :=
  if (lastId conf).2 ≥ t.head.height then some .olderThanStable
  else if t.head.height = 1 ∧ t.prev = zeroId then none
  else match byHeight m.view (t.head.height - 1) with
    | none => some .missingPrevious
    | some tp => if tp.id ≠ t.prev then some .previousMismatch else none

/-- REPAIRED `canRollback` (candidate fix of FDF1): the transaction starts right after `previous`, so "too old" also
    means `stable.Height > previous.Height`, the first transaction of an account is the one whose previous is the zero
    identifier, and the block that must be `previous` is the one stored at `previous.Height`. For one-block
    transactions this is the rule above. -/
def canRollbackR (conf : List Blk) (m : Mgr) (t : Tx) : Option AddRes :=
  if (lastId conf).2 ≥ t.head.height ∨ (lastId conf).2 > t.prev.2 then some .olderThanStable
  else if t.prev = zeroId then none
  else match byHeight m.view t.prev.2 with
    | none => some .missingPrevious
    | some tp => if tp.id ≠ t.prev then some .previousMismatch else none

/-- REPAIRED competitor lookup: the block that carries the pooled transaction whose first commit is stored at height
    `h` — the first block at or above `h` that is not a ContractSend (descendants lie below their receive); heights are
    natural numbers here (the uint64 counter would have to pass a stored ContractSend at height 2^64-1 to wrap) -/
def headAt (view : List Blk) : Nat → Nat → Option Blk
  | 0, _ => none
  | fuel + 1, h =>
    match byHeight view h with
    | none => none
    | some b => if isContractSend b.btype then headAt view fuel (h + 1) else some b

/-- `addAccountBlockTransaction(transaction, forceAdd)` for the address of the transaction; `pop` = the manager's Pop,
    `canRb` = canRollback, `rivalOf m t trueBlock` = the block `higherPriority` compares the transaction's head with -/
def addTxWith (pop : Mgr → Option Mgr) (canRb : List Blk → Mgr → Tx → Option AddRes)
    (rivalOf : Mgr → Tx → Option Blk → Option Blk) (s : AState) (t : Tx) (force : Bool) : AState × AddRes :=
  let m := s.manager
  let s1 : AState := { s with mgr := some m }            -- getFrontierAccountStore created the manager
  if t.prev = m.frontierId then
    match m.add t with
    | some m' => ({ s with mgr := some m' }, .fastForward)
    | none => (s1, .addFailed)
  else
    let trueBlock := byHeight m.view t.head.height
    if trueBlock.map Blk.id = some t.id then (s1, .already)
    else match canRb s.confirmed m t with
      | some e => (s1, e)
      | none =>
        match rivalOf m t trueBlock with
        | none => (s1, .nilDeref)
        | some tb =>
          let pr := higherPriority t.head tb
          if !force && pr = .ratioWorse then (s1, .ratioWorse)
          else if !force && pr = .hashTieBreak then (s1, .hashTieBreak)
          else
            let (m', reached) := rollbackTo pop t.prev (m.pooled.length + 1) m
            if !reached then ({ s with mgr := some m' }, .cantPopStable)
            else match m'.add t with
              | some m'' => ({ s with mgr := some m'' }, .replaced)
              | none => ({ s with mgr := some m' }, .addFailed)

/-- the code as it is: `higherPriority(block, trueBlock)` with the block stored at the HEAD's height -/
def addTx : AState → Tx → Bool → AState × AddRes := addTxWith Mgr.pop canRollback (fun _ _ tb => tb)

/-- the REPAIRED rule (candidate fix of FDF1, fdf1_fix.diff): the head is compared with the block that carries the pooled
    transaction starting right after `Previous()`; a missing competitor is an error, not a nil dereference -/
def addTxR : AState → Tx → Bool → AState × AddRes :=
  addTxWith Mgr.pop canRollbackR (fun m t _ => headAt m.view (m.view.length + 1) (t.prev.2 + 1))

/-- the transaction `rebuild` re-adds for the block it read at some height: the stored block carries its descendant
    blocks (they are part of its serialisation), i.e. it is the last pooled transaction with that head; a block that
    was written as a descendant carries none -/
def txOf (old : Mgr) (b : Blk) : Tx := (old.pooled.reverse.find? (fun t => t.head == b)).getD ⟨[], b⟩

/-- re-adding transactions to a fresh manager; none = "Unable to re-apply block" -/
def addAll (m : Mgr) : List Tx → Option Mgr
  | [] => some m
  | t :: ts => match m.add t with
    | none => none
    | some m' => addAll m' ts

/-- `rebuild` for one address (the body of its address loop), the stable database being `s.confirmed` already; blocks of
    type ContractSend are not re-applied on their own (since eef54d2): they come back with the receive that carries them.
    `split = true` is the VARIANT before eef54d2 (every stored block re-applied as a transaction of its own). -/
def rebuildWith (split : Bool) (s : AState) : AState × RebuildRes :=
  match s.mgr with
  | none => (s, .noManager)
  | some old =>
    let lo := (lastId s.confirmed).2 + 1
    let hi := (lastId old.view).2
    match uncommittedOf old.view lo (hi + 1 - lo) with
    | none => ({ s with mgr := none }, .nilDeref)
    | some [] => ({ s with mgr := none }, .emptied)
    | some unc =>
      let txs := if split then unc.map (txOf old) else (unc.filter (fun b => !isContractSend b.btype)).map (txOf old)
      match addAll ⟨s.confirmed, [], []⟩ txs with
      | none => ({ s with mgr := none }, .failed)
      | some m => ({ s with mgr := some m }, .rebuilt)

def rebuildAddr : AState → AState × RebuildRes := rebuildWith false

/-- `getUncommittedAccountBlocksByAddress` (heights stable+1 … frontier of the frontier store) -/
def uncommittedBlocks (s : AState) : Option (List Blk) :=
  let m := s.manager
  let lo := (lastId s.confirmed).2 + 1
  uncommittedOf m.view lo ((lastId m.view).2 + 1 - lo)

/-! ### the pool over all addresses -/

abbrev PoolSt := Addr → AState

def PoolSt.empty : PoolSt := fun _ => {}

def upd (s : PoolSt) (a : Addr) (x : AState) : PoolSt := fun b => if b = a then x else s b

/-- `AddAccountBlockTransaction` / `ForceAddAccountBlockTransaction` of a transaction of address `a` -/
def addAt (s : PoolSt) (a : Addr) (t : Tx) (force : Bool) : PoolSt × AddRes :=
  let r := addTx (s a) t force
  (upd s a r.1, r.2)

/-- the same with the REPAIRED rule -/
def addAtR (s : PoolSt) (a : Addr) (t : Tx) (force : Bool) : PoolSt × AddRes :=
  let r := addTxR (s a) t force
  (upd s a r.1, r.2)

/-- the account blocks a momentum confirms for address `a`, in the order of its content (descendants included) -/
def contentOf (content : List (Addr × Blk)) (a : Addr) : List Blk := (content.filter (fun e => e.1 == a)).map (·.2)

/-- the chain stores the momentum: every stable account database grows by the momentum's blocks of that address -/
def confirmAll (s : PoolSt) (content : List (Addr × Blk)) : PoolSt :=
  fun a => { s a with confirmed := (s a).confirmed ++ contentOf content a }

/-- one iteration of the address loop of `rebuild` -/
def rebuildAt (s : PoolSt) (a : Addr) : PoolSt := upd s a (rebuildAddr (s a)).1

/-- the address loop of `rebuild` for one enumeration `order` of the keys of `ap.managers` (Go map order) -/
def rebuildLoop (s : PoolSt) (order : List Addr) : PoolSt := order.foldl rebuildAt s

/-- VARIANT (before 38e1b1b): the loop returns at the first address whose blocks cannot be re-applied (its manager is
    already deleted), the addresses behind it keep their old managers -/
def rebuildLoopEarly (s : PoolSt) : List Addr → PoolSt
  | [] => s
  | a :: rest =>
    let r := rebuildAddr (s a)
    if r.2 = .failed then upd s a r.1 else rebuildLoopEarly (upd s a r.1) rest

/-- `InsertMomentum` after the chain stored the momentum: every address is rebuilt on its own
    (`rebuild_order_independent`: this is `rebuildLoop` for every enumeration of the managers) -/
def insertMomentum (s : PoolSt) (content : List (Addr × Blk)) : PoolSt :=
  fun a => (rebuildAddr (confirmAll s content a)).1

/-- `DeleteMomentum` after the chain rolled back: every manager is dropped, the stable chains are cut -/
def deleteMomentum (s : PoolSt) (keep : Addr → Nat) : PoolSt :=
  fun a => { confirmed := (s a).confirmed.take (keep a), mgr := none }

/-- `GetPatch(address, identifier) != nil` -/
def hasPatch (s : PoolSt) (a : Addr) (i : Id) : Bool := (s a).manager.hasPatch i

/-- `GetAllUncommittedAccountBlocks` for one enumeration `order` of the managers; none = a height is missing -/
def allUncommitted (s : PoolSt) : List Addr → Option (List (Addr × Blk))
  | [] => some []
  | a :: rest => do
    let bs ← uncommittedBlocks (s a)
    let more ← allUncommitted s rest
    pure (bs.map (fun b => (a, b)) ++ more)

/-- `GetNewMomentumContent` = `filterBlocksToCommit(GetAllUncommittedAccountBlocks())` -/
def offered (max : Nat) (s : PoolSt) (order : List Addr) : Option (List (Addr × Blk)) :=
  (allUncommitted s order).map (fun bs => filterGo (fun e => isContractSend e.2.btype) max bs [] [])

inductive Op where
  | add (a : Addr) (t : Tx) (force : Bool)
  | insert (content : List (Addr × Blk))
  | delete (keep : Addr → Nat)

def step (s : PoolSt) : Op → PoolSt
  | .add a t f => (addAt s a t f).1
  | .insert c => insertMomentum s c
  | .delete k => deleteMomentum s k

end ZV.PoolMulti
