import ZenonVerif.Model.Codec
/-
L9 `Codec` (part 4) — RLP form of account blocks, momentums and `nom.DetailedMomentum` as sent over p2p
(protocol/peer.go SendBlocks / SendNewMomentum / SendTransactions through p2p.Send → rlp.EncodeToReader).
Stands for github.com/ethereum/go-ethereum/rlp applied by reflection to the Go structs: a struct is the list of
its exported fields without `rlp:"-"` (so `producer`, `Timestamp` are absent), `uint64` and `*big.Int` are
minimal big-endian byte strings, `[N]byte` and `[]byte` are byte strings, slices of pointers are lists,
`Nonce` is a struct with one `[8]byte` field, the embedded `HashHeight` of `AccountHeader` is a nested list.
-/
namespace ZV.Codec
open ZV

inductive RItem where
  | str (b : Bytes)
  | list (l : List RItem)
deriving Repr, Inhabited

/-- header byte(s): `base + len` up to 55, else `base + 55 + |len|` followed by the big-endian length -/
def rlpHead (base len : Nat) : Bytes :=
  if len ≤ 55 then [base + len] else
    let lb := natBytesBE len
    (base + 55 + lb.length) :: lb

/-- a byte string: a single byte below 0x80 is its own encoding -/
def rlpStr (b : Bytes) : Bytes :=
  match b with
  | [x] => if x < 128 then [x] else rlpHead 128 1 ++ [x]
  | _ => rlpHead 128 b.length ++ b

mutual
def rlpEnc : RItem → Bytes
  | .str b => rlpStr b
  | .list l => let p := rlpEncList l; rlpHead 192 p.length ++ p
def rlpEncList : List RItem → Bytes
  | [] => []
  | x :: xs => rlpEnc x ++ rlpEncList xs
end

/-- `uint64` / non-negative `*big.Int` (nil encodes like 0): minimal big-endian bytes, empty for 0 -/
def rNat (n : Nat) : RItem := .str (natBytesBE n)

def rlpOfBody (b : ABody) (desc : List RItem) : RItem := .list [
  rNat b.version, rNat b.chainIdentifier, rNat b.blockType, .str b.hash, .str b.previousHash, rNat b.height,
  .list [.str b.momentumAcknowledged.hash, rNat b.momentumAcknowledged.height], .str b.address, .str b.toAddress,
  rNat b.amount.toNat, .str b.tokenStandard, .str b.fromBlockHash, .list desc, .str b.data, rNat b.fusedPlasma,
  rNat b.difficulty, .list [.str b.nonce], rNat b.basePlasma, rNat b.totalPlasma, .str b.changesHash,
  .str b.publicKey, .str b.signature]

mutual
def rlpOfBlock : Block → RItem
  | ⟨body, ds⟩ => rlpOfBody body (rlpOfBlocks ds)
def rlpOfBlocks : List Block → List RItem
  | [] => []
  | d :: ds => rlpOfBlock d :: rlpOfBlocks ds
end

mutual
/-- go-ethereum refuses to encode a negative `*big.Int` ("rlp: cannot encode negative big.Int") -/
def Block.amountsNonneg : Block → Bool
  | ⟨body, ds⟩ => decide (0 ≤ body.amount) && amountsNonnegList ds
def amountsNonnegList : List Block → Bool
  | [] => true
  | d :: ds => d.amountsNonneg && amountsNonnegList ds
end

def rlpOfHeader (h : AccountHeader) : RItem := .list [.str h.address, .list [.str h.hash, rNat h.height]]

def rlpOfMomentum (m : Momentum) : RItem := .list [
  rNat m.version, rNat m.chainIdentifier, .str m.hash, .str m.previousHash, rNat m.height, rNat m.timestampUnix,
  .str m.data, .list (m.content.map rlpOfHeader), .str m.changesHash, .str m.publicKey, .str m.signature]

/-- `rlp.EncodeToBytes(*nom.DetailedMomentum)`; `none` = encoder error -/
def rlpDetailed (m : Momentum) (blocks : List Block) : Option Bytes :=
  if amountsNonnegList blocks then some (rlpEnc (.list [rlpOfMomentum m, .list (rlpOfBlocks blocks)])) else none

/-- `rlp.EncodeToBytes(*nom.AccountBlock)` -/
def rlpBlock (b : Block) : Option Bytes :=
  if b.amountsNonneg then some (rlpEnc (rlpOfBlock b)) else none

end ZV.Codec

namespace ZV.Codec
open ZV

/-! ## decoder (generic items, canonical form enforced as in go-ethereum `rlp.Split` / `Stream`) -/

/-- long form: `ll` length bytes, big endian, no leading zero, value above 55 (`ErrCanonSize` otherwise) -/
def rlpReadLong (isList : Bool) (ll : Nat) (t : Bytes) : Option (Bool × Bytes × Bytes) :=
  if t.length < ll then none
  else
    let lb := t.take ll
    let n := beVal lb
    if lb.headD 0 = 0 then none
    else if n ≤ 55 then none
    else
      let t' := t.drop ll
      if t'.length < n then none else some (isList, t'.take n, t'.drop n)

/-- `rlp.Split`: kind, content and rest of the first item; `none` = error -/
def rlpSplit (b : Bytes) : Option (Bool × Bytes × Bytes) :=
  match b with
  | [] => none
  | h :: t =>
    if h < 128 then some (false, [h], t)
    else if h ≤ 183 then
      let n := h - 128
      if t.length < n then none
      else if n = 1 ∧ t.headD 0 < 128 then none
      else some (false, t.take n, t.drop n)
    else if h ≤ 191 then rlpReadLong false (h - 183) t
    else if h ≤ 247 then
      let n := h - 192
      if t.length < n then none else some (true, t.take n, t.drop n)
    else if h ≤ 255 then rlpReadLong true (h - 247) t
    else none

mutual
def rlpDecItem : Nat → Bytes → Option (RItem × Bytes)
  | 0, _ => none
  | f + 1, b => do
    let (isList, payload, rest) ← rlpSplit b
    if isList then do
      let items ← rlpDecItems f payload
      pure (.list items, rest)
    else pure (.str payload, rest)
def rlpDecItems : Nat → Bytes → Option (List RItem)
  | _, [] => some []
  | 0, _ :: _ => none
  | f + 1, b => do
    let (x, rest) ← rlpDecItem f b
    let xs ← rlpDecItems f rest
    pure (x :: xs)
end

/-- decode exactly one item, nothing may follow (`rlp.DecodeBytes`) -/
def rlpDec (b : Bytes) : Option RItem :=
  match rlpDecItem (2 * b.length) b with
  | some (x, []) => some x
  | _ => none

end ZV.Codec
