import ZenonVerif.Model.Num
import ZenonVerif.Gen.Consts
/-
L10 — RPC paging arithmetic. Stands for rpc/api/utils.go GetRange.
-/
namespace ZV.Rpc
open ZV

/-- the statement's slice: [min(i*c, n), min(i*c + c, n)) over unbounded integers -/
def rangeSpec (i c n : Nat) : Nat × Nat := (min (i * c) n, min (i * c + c) n)

/-- `api.GetRange(index, count, listLen uint32)` as coded: the product and the sum are
    computed in a 64-bit type, so no wrap-around for uint32 inputs. -/
def getRange (i c n : Nat) : Nat × Nat :=
  let start := i * c
  if start ≥ n then (n, n)
  else
    let e := start + c
    if e ≥ n then (start, n) else (start, e)

/-- pre-fix behaviour (uint32 wrap of `index*count` and `start+count`), kept as the negative witness -/
def getRange32 (i c n : Nat) : Nat × Nat :=
  let start := (i * c) % two32
  if start ≥ n then (n, n)
  else
    let e := (start + c) % two32
    if e ≥ n then (start, n) else (start, e)

end ZV.Rpc

namespace ZV.Rpc
open ZV

/-- Request arithmetic of `GetAccountBlocksByPage` / `GetMomentumsByPage` (rpc/api/ledger.go): `pageIndex+1` is
    computed in uint32, everything else in int64 (no overflow for H < 2^63, index, size < 2^32).
    `none` = the call answers an empty page directly; `some (start, count)` = the height range handed on. -/
def pageRequest (H i c : Nat) : Option (Nat × Nat) :=
  let ip1 : Int := ((i + 1) % two32 : Nat)
  let start : Int := (H : Int) - ip1 * (c : Int) + 1
  let count : Int := c
  let tooMuch : Int := 1 - start
  let start' : Int := if tooMuch > 0 then 1 else start
  let count' : Int := if tooMuch > 0 then count - tooMuch else count
  if count' < 1 then none else some (start'.toNat, count'.toNat)

/-- heights a page shows, newest first: the requested range intersected with 1..H, reversed -/
def pageHeights (H i c : Nat) : List Nat :=
  match pageRequest H i c with
  | none => []
  | some (s, n) => ((List.range n).map (· + s)).filter (· ≤ H) |>.reverse

/-- `GetMomentumsByHeight` / `GetAccountBlocksByHeight`: the heights h … h+count−1 that exist. Nothing wraps around:
    the momentum variant iterates `for i := from; i < to` with `to = from + count` (empty when that wraps, and then
    from > H anyway), the account variant stops when `height + i` wraps. -/
def byHeight (H h count : Nat) : List Nat :=
  ((List.range count).map (fun k => h + k)).filter (fun x => 1 ≤ x ∧ x ≤ H ∧ x < two64)

end ZV.Rpc
