import ZenonVerif.Model.Num
import ZenonVerif.Gen.Consts
/-
L10 — RPC paging arithmetic. Stands for rpc/api/utils.go GetRange.
-/
namespace ZV.Rpc
open ZV

/-- the statement's slice: [min(i*c, n), min(i*c + c, n)) over unbounded integers -/
def rangeSpec (i c n : Nat) : Nat × Nat := (min (i * c) n, min (i * c + c) n)

/-- `api.GetRange(index, count, listLen uint32)` as coded: the product and the sum are
    computed in a 64-bit type, so no wrap-around for uint32 inputs. -/
def getRange (i c n : Nat) : Nat × Nat :=
  let start := i * c
  if start ≥ n then (n, n)
  else
    let e := start + c
    if e ≥ n then (start, n) else (start, e)

/-- pre-fix behaviour (uint32 wrap of `index*count` and `start+count`), kept as the negative witness -/
def getRange32 (i c n : Nat) : Nat × Nat :=
  let start := (i * c) % two32
  if start ≥ n then (n, n)
  else
    let e := (start + c) % two32
    if e ≥ n then (start, n) else (start, e)

end ZV.Rpc
