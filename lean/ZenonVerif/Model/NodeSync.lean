/-
L9 — node-level model of how ledger data reaches a node (C02). Stands for
  protocol/chain_bridge.go   {AddAccountBlocks, InsertChain (without the rollback branch: C06/C16)}
  vm/supervisor.go           {newBlockContext, ApplyBlock, ApplyMomentum/packMomentum}
  vm/vm.go                   {applyMomentum}
  verifier/momentum.go       {rawMomentumVerifier.content, momentumTransactionVerifier.changesHash}
  chain/account_pool.go      {GetPatch, GetAccountStore, addAccountBlockTransaction(force), rebuild after InsertMomentum}
Core Lean only.

Abstraction. One `Block` is one pool transaction: a user block, or a contract receive together with the descendant
blocks it carries (`BlockTypeContractSend` blocks are skipped by both loops of the bridge and travel inside their
receive); its `height` is its position in the account chain counted in transactions and its `id`/`prev` stand for
`Identifier()`/`Previous()`. The VM — verifier + execution, everything `Supervisor.ApplyBlock` does once the context
exists — is the PARAMETER `exec`: an arbitrary function of (ledger as of the acknowledged momentum, account chain up to
the stated previous block, block). Nothing is assumed about it; that the Go VM reads nothing else is the
correspondence/AST side of C02. `pack` (applyMomentum + `context.Changes()`), `hash` (`db.PatchHash`), `mvalid` (the
other momentum checks: producer, signature, …, as a function of the ledger before the momentum) and `prio`
(`higherPriority`) are parameters too.
-/
namespace ZV.NodeSync

/-- the fields of an account-block transaction the mechanism looks at; `payload` is the rest of the content -/
structure Block where
  acct    : Nat
  height  : Nat
  prev    : Nat
  ack     : Nat
  payload : Nat
  id      : Nat
  deriving DecidableEq, Repr, Inhabited

/-- `types.AccountHeader`: (address, identifier) -/
abbrev Hdr := Nat × Nat

def Block.hdr (b : Block) : Hdr := (b.acct, b.id)

structure Momentum where
  id          : Nat
  height      : Nat
  prev        : Nat
  content     : List Hdr
  changesHash : Nat
  deriving DecidableEq, Repr, Inhabited

/-- `nom.DetailedMomentum`: what a peer serves -/
structure DM where
  m      : Momentum
  blocks : List Block
  deriving DecidableEq, Repr, Inhabited

/-- a block with the patch its execution produced (`nom.AccountBlockTransaction`) -/
abbrev Tx (P : Type) := Block × P

/-- the world a node lives in: genesis and the deterministic functions of the implementation -/
structure VM (P L : Type) where
  /-- ledger of the genesis momentum -/
  init    : L
  /-- `AddMomentumTransaction`: ledger before → momentum → its changes → ledger after -/
  commit  : L → Momentum → P → L
  /-- identifier of the genesis momentum -/
  gid     : Nat
  /-- account chains of the genesis momentum -/
  gconf   : Nat → List (Tx P)
  /-- verifier + VM: ledger as of `MomentumAcknowledged` → account chain up to `Previous()` → block → patch (none = refused) -/
  exec    : L → List (Tx P) → Block → Option P
  /-- `applyMomentum` + `context.Changes()`: ledger before the momentum → its transactions → total patch -/
  pack    : L → List (Tx P) → P
  /-- `db.PatchHash` -/
  hash    : P → Nat
  /-- every other check of the momentum verifier, as a function of the ledger before the momentum -/
  mvalid  : L → Momentum → Bool
  /-- `higherPriority challenger current == nil` -/
  prio    : Block → Block → Bool

/-- an accepted momentum as the node stores it: its transactions (in content order) and its redo patch -/
structure Entry (P : Type) where
  m     : Momentum
  txs   : List (Tx P)
  patch : P

/-- node state: accepted momentums after genesis, NEWEST FIRST, and the unconfirmed pool: per account the stack of
    transactions on top of the confirmed account chain (`memdbManager` over the stable database) -/
structure Node (P : Type) where
  hist : List (Entry P)
  pool : Nat → List (Tx P)

def Node.init {P : Type} : Node P := ⟨[], fun _ => []⟩

/-- accepted momentum sequence, newest first -/
def Node.chain {P : Type} (s : Node P) : List Momentum := s.hist.map (·.m)

variable {P L : Type}

/-- frontier ledger: fold of the accepted momentums' patches over the genesis ledger -/
def ledger (W : VM P L) : List (Entry P) → L
  | [] => W.init
  | e :: older => W.commit (ledger W older) e.m e.patch

/-- `GetMomentumStore(identifier)`: the ledger as of that momentum (oldest match), none when it is not on the chain -/
def ledgerAt (W : VM P L) : List (Entry P) → Nat → Option L
  | [], x => if x = W.gid then some W.init else none
  | e :: older, x =>
    match ledgerAt W older x with
    | some l => some l
    | none => if e.m.id = x then some (ledger W (e :: older)) else none

def frontierId (W : VM P L) : List (Entry P) → Nat
  | [] => W.gid
  | e :: _ => e.m.id

def upd {α : Type} (f : Nat → α) (a : Nat) (v : α) : Nat → α := fun x => if x = a then v else f x

/-- per-account chains after appending the transactions in order -/
def pushAll (views : Nat → List (Tx P)) (ts : List (Tx P)) (a : Nat) : List (Tx P) :=
  views a ++ ts.filter (fun t => t.1.acct == a)

/-- confirmed account chains (the stable account databases) -/
def conf (W : VM P L) : List (Entry P) → Nat → List (Tx P)
  | [] => W.gconf
  | e :: older => pushAll (conf W older) e.txs

/-- frontier identifier of an account chain (`ZeroHashHeight` = 0 for an empty one) -/
def lastId (v : List (Tx P)) : Nat :=
  match v.getLast? with
  | some t => t.1.id
  | none => 0

/-- Where the block links: `GetAccountStore(address, Previous())` / `canRollback` over the confirmed chain `cf` and the
    pooled stack `st`. The block at position `height - 1` of `cf ++ st` must be the stated previous and must not lie
    below the confirmed frontier. Result: (pooled transactions below the block, pooled transactions it competes with). -/
def splitFor (cf st : List (Tx P)) (b : Block) : Option (List (Tx P) × List (Tx P)) :=
  let k := b.height - 1 - cf.length
  if cf.length + 1 ≤ b.height ∧ b.height ≤ cf.length + st.length + 1 ∧ lastId (cf ++ st.take k) = b.prev
  then some (st.take k, st.drop k) else none

/-- One iteration of the loops of `AddAccountBlocks` (`force = false`) / `InsertChain` (`force = true`):
    pooled under the same identifier → nothing to do; else build the context, execute, insert.
    `ctxAtPrev = true` is the code (`newBlockContext`: account store at `block.Previous()`); `false` is the variant that
    executes on the pool frontier (negative witness only). none = refused, the state is unchanged. -/
def addBlock (W : VM P L) (ctxAtPrev force : Bool) (s : Node P) (b : Block) : Option (Node P) :=
  let st := s.pool b.acct
  if st.any (fun t => t.1.id == b.id) then some s
  else
    let cf := conf W s.hist b.acct
    match ledgerAt W s.hist b.ack, splitFor cf st b with
    | some l, some (kept, popped) =>
      match W.exec l (if ctxAtPrev then cf ++ kept else cf ++ st) b with
      | none => none
      | some p =>
        let s' : Node P := { s with pool := upd s.pool b.acct (kept ++ [(b, p)]) }
        match popped with
        | [] => some s'                                             -- fast-forward on top of the pool frontier
        | c :: _ => if force || W.prio b c.1 then some s' else none -- competitor (and its descendants) displaced
    | _, _ => none

/-- `applyMomentum` + `rawMomentumVerifier.content` + the pool rebuild of `InsertMomentum`, in one pass over the content:
    every header must be the bottom transaction of its account's pooled stack; it is taken out of the pool (it is
    confirmed now) and its pooled patch goes into the momentum. -/
def consume (pool : Nat → List (Tx P)) : List Hdr → Option ((Nat → List (Tx P)) × List (Tx P))
  | [] => some (pool, [])
  | h :: hs =>
    match pool h.1 with
    | [] => none
    | t :: rest =>
      if t.1.id = h.2 then
        match consume (upd pool h.1 rest) hs with
        | some (q, ts) => some (q, t :: ts)
        | none => none
      else none

/-- `rawMomentumVerifier.content`: the delivered blocks are the content -/
def contentOk (d : DM) : Bool :=
  d.blocks.length == d.m.content.length && d.m.content.all (fun h => d.blocks.any (fun b => b.hdr == h))

/-- the block loop of `InsertChain` for one momentum; false = a block was refused (earlier insertions stay) -/
def blockLoop (W : VM P L) (ctxAtPrev force : Bool) (s : Node P) : List Block → Node P × Bool
  | [] => (s, true)
  | b :: bs =>
    match addBlock W ctxAtPrev force s b with
    | some s' => blockLoop W ctxAtPrev force s' bs
    | none => (s, false)

/-- one momentum of `InsertChain`: block loop, `ApplyMomentum` (changes hash recomputed and compared),
    `AddMomentumTransaction` -/
def stepMomentum (W : VM P L) (ctxAtPrev force : Bool) (s : Node P) (d : DM) : Node P × Bool :=
  match blockLoop W ctxAtPrev force s d.blocks with
  | (s1, false) => (s1, false)
  | (s1, true) =>
    if d.m.prev ≠ frontierId W s1.hist ∨ contentOk d = false then (s1, false)
    else
      match consume s1.pool d.m.content with
      | none => (s1, false)
      | some (q, txs) =>
        let l := ledger W s1.hist
        let tp := W.pack l txs
        if W.hash tp = d.m.changesHash ∧ W.mvalid l d.m = true then
          ({ hist := ⟨d.m, txs, tp⟩ :: s1.hist, pool := q }, true)
        else (s1, false)

/-- the momentum loop; `idx` = index reported on failure -/
def deliverGo (W : VM P L) (ctxAtPrev force : Bool) : Node P → Nat → List DM → Node P × Option Nat
  | s, _, [] => (s, none)
  | s, idx, d :: rest =>
    match stepMomentum W ctxAtPrev force s d with
    | (s', true) => deliverGo W ctxAtPrev force s' (idx + 1) rest
    | (s', false) => (s', some idx)

/-- "remove momentums which we already have" -/
def known (hist : List (Entry P)) (m : Momentum) : Bool :=
  hist.any (fun e => e.m.height == m.height && e.m.id == m.id)

/-- `InsertChain`. A batch whose first unknown momentum does not extend the frontier is the side-chain case
    (rollback: C06/C16) and is refused here. Result: new state and `none` = nil error / `some i` = refused at index i. -/
def deliver (W : VM P L) (ctxAtPrev force : Bool) (s : Node P) (batch : List DM) : Node P × Option Nat :=
  let todo := batch.dropWhile (fun d => known s.hist d.m)
  match todo with
  | [] => (s, none)
  | d :: _ =>
    if d.m.prev ≠ frontierId W s.hist then (s, some 0)
    else deliverGo W ctxAtPrev force s (batch.length - todo.length) todo

/-- what can happen to a node, in any order -/
inductive Op where
  | gossip (b : Block)            -- `AddAccountBlocks [b]`
  | deliver (batch : List DM)     -- `InsertChain batch`
  | restart                       -- the pool lives in memory only
  deriving Repr

/-- the code: context at the stated previous, priority rule for gossip, force on delivery -/
def step (W : VM P L) (s : Node P) : Op → Node P
  | .gossip b => (addBlock W true false s b).getD s
  | .deliver batch => (deliver W true true s batch).1
  | .restart => { s with pool := fun _ => [] }

def run (W : VM P L) (ops : List Op) : Node P := ops.foldl (step W) Node.init

/-- every block an operation sequence mentions -/
def opBlocks : List Op → List Block
  | [] => []
  | .gossip b :: ops => b :: opBlocks ops
  | .deliver batch :: ops => batch.flatMap (·.blocks) ++ opBlocks ops
  | .restart :: ops => opBlocks ops

/-- `GenerateMomentum` on a node: content taken from the own pool (bottom-up per account), patches as pooled, changes
    hash computed from them. `m0` supplies identifier, height and content; none = the content is not poolable. -/
def produce (W : VM P L) (s : Node P) (m0 : Momentum) : Option DM :=
  match consume s.pool m0.content with
  | none => none
  | some (_, txs) =>
    let l := ledger W s.hist
    let m : Momentum := { m0 with prev := frontierId W s.hist, changesHash := W.hash (W.pack l txs) }
    some ⟨m, txs.map (·.1)⟩

end ZV.NodeSync
