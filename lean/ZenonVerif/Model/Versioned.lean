import ZenonVerif.Model.Kv
/-
L2 — the versioned store (ldbManager) and the tree of views handed out by it.
Stands for common/db/versioned_db.go (ldbManager.{Get,Frontier,Add,Pop}), store.go (SetFrontier, GetFrontierIdentifier,
GetIdentifierByHash) and the view constructors in enable_delete.go (Snapshot, Subset).

The l1/l2 caches are NOT part of the model: `get` always rebuilds the rollback overlay from the stored undo
patches. The real code with its caches is compared against this by the `vdb` correspondence stream.
The identifier hash is abstracted to a byte string; the value stored under the frontier-identifier key is
`hash ‖ be64 height` instead of the protobuf bytes (never compared byte-wise, only parsed back).
-/
namespace ZV.Versioned
open ZV ZV.Kv

structure Id where
  height : Nat
  hash : Bytes
  deriving DecidableEq, Repr

def Id.zero : Id := ⟨0, []⟩
def Id.isZero (i : Id) : Bool := i.height == 0 && i.hash.isEmpty

def keyFrontierId : Bytes := Gen.frontierIdentifierKey
def keyHeightByHash (h : Bytes) : Bytes := Gen.heightByHashPrefix ++ h
def keyEntryByHeight (n : Nat) : Bytes := Gen.entryByHeightPrefix ++ beBytes 8 n

def encId (i : Id) : Bytes := beBytes 8 i.height ++ i.hash
def decId (b : Bytes) : Id := ⟨beVal (b.take 8), b.drop 8⟩

/-- the three writes of SetFrontier, in the key order in which the temporary memdb dumps them -/
def frontierOps (i : Id) : Patch :=
  [Op.put keyFrontierId (encId i), Op.put (keyHeightByHash i.hash) (beBytes 8 i.height),
   Op.put (keyEntryByHeight i.height) i.hash]

structure Ldb where
  frontier : Raw                       -- raw key space under frontierByte (prefix stripped); tombstones stay forever
  rollbacks : List (Nat × Patch)       -- rollbackByte ‖ height ↦ undo patch
  patches : List (Nat × Patch)         -- patchByte ‖ height ↦ redo patch
  deriving DecidableEq, Repr

def Ldb.empty : Ldb := ⟨[], [], []⟩

def lookupH (l : List (Nat × Patch)) (h : Nat) : Option Patch :=
  match l with
  | [] => none
  | (h', p) :: t => if h' = h then some p else lookupH t h

/-- GetFrontierIdentifier on a logical getter -/
def frontierIdOf (get : Bytes → Option Bytes) : Id :=
  match get keyFrontierId with
  | none => Id.zero
  | some v => decId v

def Ldb.frontierId (s : Ldb) : Id := frontierIdOf (fun k => edDecode (rget s.frontier k))

/-- the root of a view -/
inductive Root where
  | mem                                  -- db.NewMemDB()
  | front (base : Raw)                   -- snapshot of the frontier key space
  | hist (rb : Raw) (base : Raw)         -- rollback overlay over the frontier snapshot (merged, overlay first)
  deriving Repr

/-- fold the undo patches of heights lo+1 … hi (ascending) into the overlay, never overriding -/
def buildOverlay (rollbacks : List (Nat × Patch)) (lo : Nat) : Nat → Raw → Raw
  | 0, rb => rb
  | n + 1, rb =>
    match lookupH rollbacks (lo + 1) with
    | none => rb
    | some p => buildOverlay rollbacks (lo + 1) n (woApply rb p)

/-- ldbManager.Get(identifier): `none` = nil -/
def Ldb.get (s : Ldb) (i : Id) : Option Root :=
  if i.isZero then some Root.mem
  else if i = s.frontierId then some (Root.front s.frontier)
  else
    match edDecode (rget s.frontier (keyHeightByHash i.hash)) with
    | none => none
    | some hb =>
      if beVal hb ≠ i.height then none
      else some (Root.hist (buildOverlay s.rollbacks i.height (s.frontierId.height - i.height) []) s.frontier)

/-- logical read through a root (enableDelete ∘ merged layers) -/
def Root.rawGet : Root → Bytes → Option Bytes
  | .mem, _ => none
  | .front base, k => rget base k
  | .hist rb base, k => mget2 rb base k

def Root.get (r : Root) (k : Bytes) : Option Bytes := edDecode (r.rawGet k)

/-- raw ordered scan through a root (what the iterator UNDER the delete-enabled iterator yields: tombstones of the
    overlay hide the entries of the snapshot here and are dropped, like all tombstones, by `edEntries` on top) -/
def Root.rawScan : Root → Bytes → Raw
  | .mem, _ => []
  | .front base, p => rscan base p
  | .hist rb base, p => merge2 (rscan rb p) (rscan base p)

/-- ldbManager.Add for a single-commit transaction. Returns the new state; the call reports success also when
    the parent is not the frontier (nothing is written then). `none` = error "can't find prev". -/
def Ldb.add (s : Ldb) (prev id : Id) (ops : Patch) : Option Ldb :=
  match s.get prev with
  | none => none
  | some view =>
    let patch := ops ++ frontierOps id
    let rb := rollbackPatch view.get patch
    if prev = s.frontierId then
      some { frontier := edApply s.frontier patch,
             rollbacks := (id.height, rb) :: s.rollbacks.filter (fun e => e.1 ≠ id.height),
             patches := (id.height, patch) :: s.patches.filter (fun e => e.1 ≠ id.height) }
    else some s

/-- ldbManager.Pop: apply the undo patch of the frontier height, drop the stored patches of that height -/
def Ldb.pop (s : Ldb) : Option Ldb :=
  let f := s.frontierId
  match lookupH s.rollbacks f.height with
  | none => none
  | some rb =>
    some { frontier := edApply s.frontier rb,
           rollbacks := s.rollbacks.filter (fun e => e.1 ≠ f.height),
           patches := s.patches.filter (fun e => e.1 ≠ f.height) }

/-! ### the tree of views (driver level) -/

/-- a node is either a layer with its own top memdb over a parent / a root, or a Subset window onto its parent -/
inductive Node where
  | layer (top : Raw) (parent : Option String) (root : Root)
  | sub (parent : String) (pre : Bytes)
  deriving Repr

abbrev Views := List (String × Node)

def findNode (vs : Views) (n : String) : Option Node :=
  match vs with
  | [] => none
  | (m, x) :: t => if m = n then some x else findNode t n

def setNode (vs : Views) (n : String) (x : Node) : Views :=
  match vs with
  | [] => [(n, x)]
  | (m, y) :: t => if m = n then (n, x) :: t else (m, y) :: setNode t n x

/-- raw read through the chain of layers (fuel = number of views; parents are created before children) -/
def rawGetV (vs : Views) : Nat → String → Bytes → Option Bytes
  | 0, _, _ => none
  | f + 1, n, k =>
    match findNode vs n with
    | none => none
    | some (.sub p pre) => rawGetV vs f p (pre ++ k)
    | some (.layer top parent root) =>
      match rget top k with
      | some v => some v
      | none =>
        match parent with
        | some p => rawGetV vs f p k
        | none => root.rawGet k

def getV (vs : Views) (n : String) (k : Bytes) : Option Bytes := edDecode (rawGetV vs (vs.length + 1) n k)

/-- raw ordered scan through the chain of layers -/
def rawScanV (vs : Views) : Nat → String → Bytes → Raw
  | 0, _, _ => []
  | f + 1, n, p =>
    match findNode vs n with
    | none => []
    | some (.sub par pre) => stripKeys pre.length (rawScanV vs f par (pre ++ p))
    | some (.layer top parent root) =>
      merge2 (rscan top p)
        (match parent with
         | some par => rawScanV vs f par p
         | none => root.rawScan p)

def scanV (vs : Views) (n : String) (p : Bytes) : Raw := edEntries (rawScanV vs (vs.length + 1) n p)

/-- write through a view: goes to the nearest own top, with Subset prefixes prepended on the way -/
def writeV (vs : Views) : Nat → String → Op → Views
  | 0, _, _ => vs
  | f + 1, n, o =>
    match findNode vs n with
    | none => vs
    | some (.sub p pre) =>
      writeV vs f p (match o with | .put k v => .put (pre ++ k) v | .del k => .del (pre ++ k))
    | some (.layer top parent root) => setNode vs n (.layer (edApplyOp top o) parent root)

def applyV (vs : Views) (n : String) (p : Patch) : Views :=
  p.foldl (fun acc o => writeV acc (acc.length + 1) n o) vs

/-- changesInternal(prefix): raw dump of the nearest own top restricted to the accumulated prefix, prefix removed -/
def rawChangesV (vs : Views) : Nat → String → Bytes → Raw
  | 0, _, _ => []
  | f + 1, n, pre =>
    match findNode vs n with
    | none => []
    | some (.sub p q) => stripKeys q.length (rawChangesV vs f p (q ++ pre))
    | some (.layer top _ _) => rscan top pre

def changesV (vs : Views) (n : String) : Patch := edChanges (rawChangesV vs (vs.length + 1) n [])

end ZV.Versioned
