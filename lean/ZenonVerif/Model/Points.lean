/-
L5b — consensus points: the statistics of an election period (`consensus/storage.Point`: per pillar the expected and
the produced momentums and the delegated weight) and their aggregation into the statistics of an epoch
(`Point.LeftAppend`, `compoundPoints.generatePointFromLower` in consensus/points.go). The epoch point is what
`PillarReader.EpochStats` reports and what the pillar contract splits the epoch's emission with (C11).

In the code the points are objects kept in an LRU cache (`storage.DB.pointCache`); the aggregation must treat the lower
points as VALUES — `LeftAppend` copies a `ProducerDetail` it takes over (`v.Copy()`) and only ever mutates details it
created itself. The model is that value semantics: `compound` is a function of the list of lower points, so the same
question has the same answer however often and in whatever order it is asked. The driver recomputes every fold the
harness performs on the real `Point` objects (twice on the same cached objects, and again after the cache is dropped).

Counters are `uint32` in the code; the model uses unbounded naturals (an epoch has 8640 momentums in production, the
stream stays far below 2^32).
-/
namespace ZV.Points

/-- `storage.ProducerDetail` -/
structure Detail where
  expected : Nat
  factual : Nat
  weight : Nat
  deriving DecidableEq, Repr

/-- `ProducerDetail.Merge` -/
def Detail.merge (d c : Detail) : Detail := ⟨d.expected + c.expected, d.factual + c.factual, d.weight + c.weight⟩

/-- `Point.Pillars` as an association list with unique keys (pillar names are numbered by the harness) -/
abbrev PMap := List (Nat × Detail)

/-- `storage.Point` without the two hashes (they only guard the adjacency of the points) -/
structure Point where
  pillars : PMap
  total : Nat
  deriving DecidableEq, Repr

def empty : Point := ⟨[], 0⟩

/-- one iteration of the loop of `LeftAppend`: merge into the entry of `k`, or take over a copy of `v` -/
def upsert : PMap → Nat → Detail → PMap
  | [], k, v => [(k, v)]
  | (k', d) :: rest, k, v => if k' = k then (k', d.merge v) :: rest else (k', d) :: upsert rest k v

/-- `p.LeftAppend(left)` -/
def leftAppend (p left : Point) : Point :=
  ⟨left.pillars.foldl (fun m e => upsert m e.1 e.2) p.pillars, p.total + left.total⟩

/-- `generatePointFromLower`: `lowers` are the lower points that have started, newest first; the weights are averaged
    over their number and the total weight is the sum of the averaged weights -/
def compound (lowers : List Point) : Point :=
  let r := lowers.foldl leftAppend empty
  let n := lowers.length
  let ps := r.pillars.map (fun e => (e.1, ({ e.2 with weight := e.2.weight / n } : Detail)))
  ⟨ps, (ps.map (fun e => e.2.weight)).sum⟩

/-! ### what an epoch point counts -/

def sumFactual (m : PMap) : Nat := (m.map (fun e => e.2.factual)).sum
def sumExpected (m : PMap) : Nat := (m.map (fun e => e.2.expected)).sum

theorem sumFactual_upsert (m : PMap) (k : Nat) (v : Detail) : sumFactual (upsert m k v) = sumFactual m + v.factual := by
  induction m with
  | nil => simp [upsert, sumFactual]
  | cons e rest ih =>
    obtain ⟨k', d⟩ := e
    unfold upsert
    split
    · simp only [sumFactual, List.map_cons, List.sum_cons, Detail.merge]; omega
    · simp only [sumFactual, List.map_cons, List.sum_cons] at ih ⊢; omega

theorem sumExpected_upsert (m : PMap) (k : Nat) (v : Detail) : sumExpected (upsert m k v) = sumExpected m + v.expected := by
  induction m with
  | nil => simp [upsert, sumExpected]
  | cons e rest ih =>
    obtain ⟨k', d⟩ := e
    unfold upsert
    split
    · simp only [sumExpected, List.map_cons, List.sum_cons, Detail.merge]; omega
    · simp only [sumExpected, List.map_cons, List.sum_cons] at ih ⊢; omega

theorem sumFactual_foldl (l m : PMap) :
    sumFactual (l.foldl (fun m e => upsert m e.1 e.2) m) = sumFactual m + sumFactual l := by
  induction l generalizing m with
  | nil => simp [sumFactual]
  | cons e rest ih =>
    simp only [List.foldl_cons, ih, sumFactual_upsert]
    simp only [sumFactual, List.map_cons, List.sum_cons]; omega

theorem sumExpected_foldl (l m : PMap) :
    sumExpected (l.foldl (fun m e => upsert m e.1 e.2) m) = sumExpected m + sumExpected l := by
  induction l generalizing m with
  | nil => simp [sumExpected]
  | cons e rest ih =>
    simp only [List.foldl_cons, ih, sumExpected_upsert]
    simp only [sumExpected, List.map_cons, List.sum_cons]; omega

theorem sumFactual_leftAppend (p l : Point) : sumFactual (leftAppend p l).pillars = sumFactual p.pillars + sumFactual l.pillars :=
  sumFactual_foldl l.pillars p.pillars

theorem sumExpected_leftAppend (p l : Point) : sumExpected (leftAppend p l).pillars = sumExpected p.pillars + sumExpected l.pillars :=
  sumExpected_foldl l.pillars p.pillars

theorem sumFactual_fold (ls : List Point) (p : Point) :
    sumFactual (ls.foldl leftAppend p).pillars = sumFactual p.pillars + (ls.map (fun l => sumFactual l.pillars)).sum := by
  induction ls generalizing p with
  | nil => simp
  | cons l rest ih => simp only [List.foldl_cons, ih, sumFactual_leftAppend, List.map_cons, List.sum_cons]; omega

theorem sumExpected_fold (ls : List Point) (p : Point) :
    sumExpected (ls.foldl leftAppend p).pillars = sumExpected p.pillars + (ls.map (fun l => sumExpected l.pillars)).sum := by
  induction ls generalizing p with
  | nil => simp
  | cons l rest ih => simp only [List.foldl_cons, ih, sumExpected_leftAppend, List.map_cons, List.sum_cons]; omega

theorem sumFactual_mapWeight (m : PMap) (f : Detail → Nat) :
    sumFactual (m.map (fun e => (e.1, ({ e.2 with weight := f e.2 } : Detail)))) = sumFactual m := by
  induction m with
  | nil => rfl
  | cons e rest ih => simp only [sumFactual, List.map_cons, List.sum_cons] at ih ⊢; omega

theorem sumExpected_mapWeight (m : PMap) (f : Detail → Nat) :
    sumExpected (m.map (fun e => (e.1, ({ e.2 with weight := f e.2 } : Detail)))) = sumExpected m := by
  induction m with
  | nil => rfl
  | cons e rest ih => simp only [sumExpected, List.map_cons, List.sum_cons] at ih ⊢; omega

/-- an epoch point counts exactly the momentums its period points count: nothing is counted twice -/
theorem compound_factual (ls : List Point) :
    sumFactual (compound ls).pillars = (ls.map (fun l => sumFactual l.pillars)).sum := by
  have h := sumFactual_fold ls empty
  simp only [compound]
  rw [sumFactual_mapWeight _ (fun d => d.weight / ls.length), h]
  simp [empty, sumFactual]

/-- … and expects exactly the slots its period points expect -/
theorem compound_expected (ls : List Point) :
    sumExpected (compound ls).pillars = (ls.map (fun l => sumExpected l.pillars)).sum := by
  have h := sumExpected_fold ls empty
  simp only [compound]
  rw [sumExpected_mapWeight _ (fun d => d.weight / ls.length), h]
  simp [empty, sumExpected]

/-- the total weight of an epoch point is the sum of its pillars' weights (premise of the pillar reward bound) -/
theorem compound_total (ls : List Point) :
    (compound ls).total = ((compound ls).pillars.map (fun e => e.2.weight)).sum := rfl

end ZV.Points
