import ZenonVerif.Model.Rewards
import ZenonVerif.Model.EpochCursor
/-
L5 — the reward computation of one epoch COMPOSED with the epoch cursor and the reward deposits. Core Lean only.

One state machine per reward contract. Stands for vm/embedded/implementation:
  stake.go      computeStakeRewardsForEpoch (getWeightedStake)            → `stakeCredits`, `stakeAfter`
  sentinel.go   computeSentinelRewardsForEpoch (getWeightedSentinel)      → `sentinelCredits`
  pillars.go    computeDetailedPillarReward / computePillarsRewardForEpoch / computePillarRewardForEpoch
                                                                          → `pillarCredits`
  liquidity.go  computeLiquidityRewardsForEpoch (origin / accelerator tables: the whole amount is minted to the contract)
                computeLiquidityStakeRewardsForEpoch (bridge&liquidity spork onwards)
                                                                          → `liqOriginOut`, `liqStakeOut`
  common.go     addReward (→ `EpochCursor.credit`), checkAndPerformUpdate / checkAndPerformUpdateEpoch and the
                `update*Rewards` loops (→ `EpochCursor.update` / `advance`), CollectRewardMethod (→ `EpochCursor.collect`)
  vm/vm.go      generateEmbeddedReceive / rollbackEmbedded: an error returned by the method resets EVERY change of the
                call (cursor, deposits, deleted entries) → `update = none`, state unchanged

The arithmetic is the one of Model/Rewards.lean (big.Int, `Quo` truncating, int64 subtraction of unix seconds wrapping);
what this module adds is where the inputs come from (the contract's own entries, the epoch's consensus statistics), who
is credited, which entries are deleted afterwards, and that the credits land in the deposit map the cursor model owns.

Amounts read from storage are ABI uint256 / unsigned bytes (`Nat`); timestamps are int64 unix seconds (`Int`);
percentages are uint8 / uint32 (`Nat`). A credit is computed in `Int` (big.Int) and converted by `toCoins`: a negative
credit cannot be represented in a RewardDeposit (uint256) — `none`, outside the model (the only subtraction is the pillar's
`TotalReward - toGive`, negative only for a give-percentage above 100, which Register/UpdatePillar refuse).
-/
namespace ZV.RewardEpoch
open ZV ZV.Rewards ZV.EpochCursor

/-- first component of `EpochTicker().ToTime(e)` -/
def epochStart (c : Cfg) (e : Int) : Int := c.genesis + c.epochSec * e

/-! ### credits -/

/-- an `addReward` call: (address, znn, qsr) as big.Int -/
abbrev ICredit := Addr × Int × Int
/-- an `addReward` call whose amounts fit a RewardDeposit -/
abbrev Credit := Addr × Coins

def toCoins (z q : Int) : Option Coins := if 0 ≤ z ∧ 0 ≤ q then some ⟨z.toNat, q.toNat⟩ else none

def toCredits : List ICredit → Option (List Credit)
  | [] => some []
  | (a, z, q) :: r =>
    match toCoins z q, toCredits r with
    | some x, some rs => some ((a, x) :: rs)
    | _, _ => none

def isumZ (cs : List ICredit) : Int := (cs.map (fun x => x.2.1)).sum
def isumQ (cs : List ICredit) : Int := (cs.map (fun x => x.2.2)).sum
def sumZ (cs : List Credit) : Nat := (cs.map (fun x => x.2.znn)).sum
def sumQ (cs : List Credit) : Nat := (cs.map (fun x => x.2.qsr)).sum

/-- what a credit list adds up to for one address -/
def creditedTo (a : Addr) (cs : List Credit) : Coins :=
  cs.foldr (fun x acc => (if x.1 = a then x.2 else Coins.zero) + acc) Coins.zero

/-! ### stake -/

/-- `definition.StakeInfo` (fields the reward reads) -/
structure StakeEntry where
  addr     : Addr
  start    : Int     -- StartTime
  revoke   : Int     -- RevokeTime, 0 = not cancelled
  weighted : Nat     -- WeightedAmount (computed when the stake was received)
  deriving DecidableEq, Repr

/-- `getWeightedStakeAmount(amount, stakingTime)`, evaluated when the stake is received and stored as `WeightedAmount`:
    `big.NewInt(9 + stakingTime/StakeTimeUnitSec)` (int64), `Mul amount`, `Div 10`. `unit` = constants.StakeTimeUnitSec
    (a package variable; live value `Gen.StakeTimeUnitSec`). none = integer divide by zero. -/
def stakeWeightedAmount (unit : Int) (amount : Nat) (stakingTime : Int) : Option Int :=
  (div64 stakingTime unit).map (fun m => (wrap64 (9 + m) * (amount : Int)) / 10)

/-- `getWeightedStake(info, startTime, endTime)` for epoch `e` -/
def stakeW (c : Cfg) (e : Int) (x : StakeEntry) : Int :=
  weightedStake x.start x.revoke x.weighted (epochStart c e) (epochEnd c e)

/-- `stakeInfo.RevokeTime != 0 && stakeInfo.RevokeTime < endTime.Unix()` → the entry is deleted -/
def expired (revoke endTime : Int) : Bool := decide (revoke ≠ 0 ∧ revoke < endTime)

/-- `computeStakeRewardsForEpoch`: first pass cumulates the weighted stakes; `cumulatedStake.Sign() == 0` → return;
    second pass credits `totalAmount * weight / cumulated` QSR per ENTRY (an address with several entries is credited
    several times) -/
def stakeCredits (c : Cfg) (es : List StakeEntry) (e : Nat) : Option (List ICredit) :=
  match stakeQsrRewardPerEpoch e with
  | none => none
  | some T =>
    let W := (es.map (stakeW c e)).sum
    if W = 0 then some [] else some (es.map (fun x => (x.addr, (0 : Int), share T (stakeW c e x) W)))

/-- the entries left after the epoch: the second pass (only run when the cumulated weight is not zero) deletes what was
    cancelled before the epoch's end -/
def stakeAfter (c : Cfg) (es : List StakeEntry) (e : Nat) : List StakeEntry :=
  if (es.map (stakeW c e)).sum = 0 then es else es.filter (fun x => !expired x.revoke (epochEnd c e))

/-! ### sentinel -/

/-- `definition.SentinelInfo` -/
structure SentinelEntry where
  owner  : Addr
  reg    : Int     -- RegistrationTimestamp
  revoke : Int     -- RevokeTimestamp, 0 = active
  deriving DecidableEq, Repr

def sentinelW (c : Cfg) (e : Int) (x : SentinelEntry) : Int :=
  weightedSentinel x.reg x.revoke (epochStart c e) (epochEnd c e)

/-- `computeSentinelRewardsForEpoch`: entries of weight 0 are skipped, the others credited both coins; nothing is deleted -/
def sentinelCredits (c : Cfg) (es : List SentinelEntry) (e : Nat) : Option (List ICredit) :=
  match sentinelRewardForEpoch e with
  | none => none
  | some (Tz, Tq) =>
    let W := (es.map (sentinelW c e)).sum
    if W = 0 then some []
    else some ((es.filter (fun x => sentinelW c e x ≠ 0)).map
      (fun x => (x.owner, share Tz (sentinelW c e x) W, share Tq (sentinelW c e x) W)))

/-! ### pillar -/

/-- `definition.PillarInfo` (fields the reward reads); storage key = hash of the name -/
structure PillarInfo where
  name         : String
  withdraw     : Addr    -- RewardWithdrawAddress
  giveBlock    : Nat     -- GiveBlockRewardPercentage (uint8)
  giveDelegate : Nat     -- GiveDelegateRewardPercentage (uint8)
  deriving DecidableEq, Repr

/-- `api.EpochStats` of one epoch: `Pillars` is a Go map name → statistics -/
structure EpochStats where
  pillars     : List (String × PillarStat)
  totalWeight : Int
  deriving Repr

/-- `GetPillarDelegationsByEpoch`: Go map pillar name → (Go map backer → amount) -/
abbrev Delegs := List (String × List (Addr × Nat))

/-- what the pillar contract reads from the node's consensus for an epoch -/
structure Cons where
  stats  : Nat → EpochStats
  delegs : Nat → Delegs

/-- `constants.PillarRewardPerMomentum` with `constants.MomentumsPerEpoch = mpe` (a package variable) -/
def pillarPerMomentum (mpe : Int) (epoch : Nat) : Option (Int × Int) :=
  match networkZnnRewardPerEpoch epoch with
  | none => none
  | some n =>
    match pctOf n Gen.DelegationZnnRewardPercentage, pctOf n Gen.MomentumProducingZnnRewardPercentage with
    | some a, some b =>
      match div64 a mpe, div64 b mpe with
      | some d, some p => some (d, p)
      | _, _ => none
    | _, _ => none

/-- `toGiveN = (GiveBlockRewardPercentage * BlockReward + GiveDelegateRewardPercentage * DelegationReward) / 100` -/
def toGiveOf (i : PillarInfo) (r : PillarReward) : Int :=
  Int.tdiv ((i.giveBlock : Int) * r.block + (i.giveDelegate : Int) * r.delegation) 100

/-- `pillarReward[pillar.Name]` for the registered pillars, in storage order: `!ok → continue` -/
def foundPillars (d p : Int) (st : EpochStats) (infos : List PillarInfo) : List (PillarInfo × PillarReward) :=
  infos.filterMap (fun i =>
    (st.pillars.lookup i.name).map (fun s => (i, pillarRewardForEpoch d p st.totalWeight (st.pillars.map (·.2)) s)))

/-- the backers' part of one pillar: nobody delegated → the pillar's own reward address (first registered pillar of
    that name), else pro rata, truncating -/
def backerCredits (infos : List PillarInfo) (name : String) (toBackers : Int) (backers : List (Addr × Nat)) : List ICredit :=
  let A : Int := (backers.map (fun b => (b.2 : Int))).sum
  if A = 0 then
    match infos.find? (fun i => i.name == name) with
    | some i => [(i.withdraw, toBackers, 0)]
    | none => []
  else backers.map (fun b => (b.1, share toBackers (b.2 : Int) A, 0))

/-- the loop over `details`; `none` = "can't find amount to backers for pillar" -/
def delegCredits (infos : List PillarInfo) (toGive : List (String × Int)) : Delegs → Option (List ICredit)
  | [] => some []
  | (name, backers) :: rest =>
    match toGive.lookup name, delegCredits infos toGive rest with
    | some tb, some more => some (backerCredits infos name tb backers ++ more)
    | _, _ => none

/-- `computeDetailedPillarReward`. `none`: a panic of the constants, "some pillar rewards were not distributed"
    (`len(toGive) != len(pillarReward)`: a pillar of the statistics is not registered) or a delegation record for an
    unknown pillar. -/
def pillarCredits (mpe : Int) (infos : List PillarInfo) (st : EpochStats) (dl : Delegs) (e : Nat) : Option (List ICredit) :=
  match pillarPerMomentum mpe e with
  | none => none
  | some (d, p) =>
    let found := foundPillars d p st infos
    let own : List ICredit := found.map (fun x => (x.1.withdraw, x.2.total - toGiveOf x.1 x.2, 0))
    let toGive : List (String × Int) := found.map (fun x => (x.1.name, toGiveOf x.1 x.2))
    if found.length ≠ st.pillars.length then none
    else
      match delegCredits infos toGive dl with
      | none => none
      | some back => some (own ++ back)

/-! ### liquidity -/

/-- `definition.TokenTuple` -/
structure TokenTuple where
  zts    : String
  znnPct : Nat     -- ZnnPercentage (uint32)
  qsrPct : Nat
  deriving DecidableEq, Repr

/-- `definition.LiquidityStakeEntry` -/
structure LiqEntry where
  addr     : Addr
  zts      : String
  start    : Int
  revoke   : Int
  weighted : Nat
  deriving DecidableEq, Repr

/-- what `computeLiquidityStakeRewardsForEpoch` reads -/
structure LiqState where
  halted  : Bool
  addZnn  : Nat      -- LiquidityInfo.ZnnReward (additional reward, taken from the contract's own balance and burned)
  addQsr  : Nat
  balZnn  : Nat      -- context.GetBalance
  balQsr  : Nat
  tuples  : List TokenTuple
  entries : List LiqEntry
  deriving Repr

def liqW (c : Cfg) (e : Int) (x : LiqEntry) : Int :=
  weightedStake x.start x.revoke x.weighted (epochStart c e) (epochEnd c e)

/-- `znnRewards[token.TokenStandard]` / `qsrRewards[...]`: a Go map filled in tuple order, a later tuple of the same
    token overwrites an earlier one -/
def tokenRewards (Tz Tq : Int) (ts : List TokenTuple) : List (String × Int × Int) :=
  (ts.map (fun t => (t.zts, (Tz * (t.znnPct : Int)) / (Gen.LiquidityZnnTotalPercentages : Int),
                            (Tq * (t.qsrPct : Int)) / (Gen.LiquidityQsrTotalPercentages : Int)))).reverse

/-- `cumulatedStake[zts]` -/
def cumulated (c : Cfg) (e : Int) (es : List LiqEntry) (zts : String) : Int :=
  ((es.filter (fun x => x.zts == zts)).map (liqW c e)).sum

/-- is the entry credited (reaches `addReward`), and with what -/
def liqCredit (c : Cfg) (e : Int) (rw : List (String × Int × Int)) (all : List LiqEntry) (x : LiqEntry) : Option ICredit :=
  match rw.lookup x.zts with
  | none => none
  | some (Rz, Rq) =>
    let W := cumulated c e all x.zts
    if W = 0 then none else some (x.addr, share Rz (liqW c e x) W, share Rq (liqW c e x) W)

/-- outcome of one epoch of the liquidity contract -/
structure LiqOut where
  credits : List ICredit
  mintZ   : Int      -- minted to the liquidity contract itself
  mintQ   : Int
  burnZ   : Nat      -- burned from the contract's balance (additional reward)
  burnQ   : Nat
  entries : List LiqEntry
  deriving Repr

/-- `computeLiquidityRewardsForEpoch` (origin / accelerator): the epoch's amount is minted to the contract -/
def liqOriginOut (st : LiqState) (e : Nat) : Option LiqOut :=
  match liquidityRewardForEpoch e with
  | none => none
  | some (Tz, Tq) => some ⟨[], Tz, Tq, 0, 0, st.entries⟩

/-- the additional reward (`LiquidityInfo.ZnnReward/QsrReward`) is added to the epoch's amounts, and burned from the
    contract's balance, only when the balance covers both coins -/
def liqBurn (st : LiqState) : Nat × Nat :=
  if st.addZnn ≤ st.balZnn ∧ st.addQsr ≤ st.balQsr then (st.addZnn, st.addQsr) else (0, 0)

/-- the part of `computeLiquidityStakeRewardsForEpoch` after the totals `(Tz, Tq)` are known: per-token amounts, credits
    pro rata per token, `totalFunds > totalAmount → ErrInvalidRewards` (`none`), the remainder is minted to the contract -/
def liqSplit (c : Cfg) (st : LiqState) (e : Nat) (Tz Tq : Int) (bz bq : Nat) : Option LiqOut :=
  let rw := tokenRewards Tz Tq st.tuples
  let credits := st.entries.filterMap (liqCredit c e rw st.entries)
  if isumZ credits > Tz ∨ isumQ credits > Tq then none
  else
    some ⟨credits, Tz - isumZ credits, Tq - isumQ credits, bz, bq,
      st.entries.filter (fun x => !((liqCredit c e rw st.entries x).isSome && expired x.revoke (epochEnd c e)))⟩

/-- `computeLiquidityStakeRewardsForEpoch`; `none` = panic of the constants or ErrInvalidRewards -/
def liqStakeOut (c : Cfg) (st : LiqState) (e : Nat) : Option LiqOut :=
  match liquidityRewardForEpoch e with
  | none => none
  | some (Tz0, Tq0) =>
    if st.halted then some ⟨[], Tz0, Tq0, 0, 0, st.entries⟩
    else liqSplit c st e (Tz0 + ((liqBurn st).1 : Int)) (Tq0 + ((liqBurn st).2 : Int)) (liqBurn st).1 (liqBurn st).2

/-! ### one contract, one epoch -/

inductive Kind where
  | stake | sentinel | pillar
  | liqOrigin     -- liquidity below the bridge&liquidity spork
  | liqStake      -- liquidity from the spork on
  deriving DecidableEq, Repr

def variantOf : Kind → Variant
  | .liqOrigin => .liqOrigin
  | .liqStake => .liqOne
  | _ => .loop

/-- the storage the reward computations read (each contract uses its own part) -/
structure Store where
  stakes    : List StakeEntry
  sentinels : List SentinelEntry
  pillars   : List PillarInfo
  liq       : LiqState
  deriving Repr

/-- the parameters: cursor configuration plus `constants.MomentumsPerEpoch` -/
structure RCfg where
  c   : Cfg
  mpe : Int

def RCfg.live (genesis : Int) : RCfg := ⟨Cfg.live genesis, Gen.MomentumsPerEpoch⟩

/-- what one `compute…ForEpoch` call does -/
structure EpochOut where
  credits : List Credit     -- the `addReward` calls, in order
  mint    : Int × Int       -- requested for the contract itself (liquidity)
  burn    : Nat × Nat       -- burned from the contract's balance (liquidity, additional reward)
  store   : Store

/-- the reward computation of epoch `e` on storage `st` with consensus input `cons` -/
def updateEpoch (k : Kind) (rc : RCfg) (cons : Cons) (st : Store) (e : Nat) : Option EpochOut :=
  match k with
  | .stake =>
    match stakeCredits rc.c st.stakes e with
    | none => none
    | some ic => (toCredits ic).map (fun cs => ⟨cs, (0, 0), (0, 0), { st with stakes := stakeAfter rc.c st.stakes e }⟩)
  | .sentinel =>
    match sentinelCredits rc.c st.sentinels e with
    | none => none
    | some ic => (toCredits ic).map (fun cs => ⟨cs, (0, 0), (0, 0), st⟩)
  | .pillar =>
    match pillarCredits rc.mpe st.pillars (cons.stats e) (cons.delegs e) e with
    | none => none
    | some ic => (toCredits ic).map (fun cs => ⟨cs, (0, 0), (0, 0), st⟩)
  | .liqOrigin =>
    match liqOriginOut st.liq e with
    | none => none
    | some o => (toCredits o.credits).map (fun cs => ⟨cs, (o.mintZ, o.mintQ), (o.burnZ, o.burnQ), st⟩)
  | .liqStake =>
    match liqStakeOut rc.c st.liq e with
    | none => none
    | some o => (toCredits o.credits).map (fun cs =>
        ⟨cs, (o.mintZ, o.mintQ), (o.burnZ, o.burnQ), { st with liq := { st.liq with entries := o.entries } }⟩)

/-- the protocol emission of epoch `e` for the contract, per coin (znn, qsr): what vm/constants hands out -/
def emission (k : Kind) (mpe : Int) (e : Nat) : Option (Int × Int) :=
  match k with
  | .stake => (stakeQsrRewardPerEpoch e).map (fun q => (0, q))
  | .sentinel => sentinelRewardForEpoch e
  | .pillar => (pillarPerMomentum mpe e).map (fun dp => ((dp.1 + dp.2) * mpe, 0))
  | .liqOrigin => liquidityRewardForEpoch e
  | .liqStake => liquidityRewardForEpoch e

/-! ### the composed machine -/

structure RState where
  cs    : CState
  store : Store

/-- `compute…ForEpoch` for every epoch the cursor loop names, in order, each on the storage the previous one left -/
def rewardAll (k : Kind) (rc : RCfg) (cons : Cons) : Store → List Int → Option (Store × List (Int × EpochOut))
  | st, [] => some (st, [])
  | st, e :: es =>
    match updateEpoch k rc cons st e.toNat with     -- `uint64(lastEpoch.LastEpoch)`
    | none => none
    | some o =>
      match rewardAll k rc cons o.store es with
      | none => none
      | some (st', rest) => some (st', (e, o) :: rest)

/-- all `addReward` calls of one Update -/
def creditsOf (outs : List (Int × EpochOut)) : List Credit := outs.flatMap (fun x => x.2.credits)

def creditAll (s : CState) (cs : List Credit) : CState := cs.foldl (fun s x => credit s x.1 x.2) s

/-- `Update` of a reward contract received with frontier momentum (height, ts). `none` = the call fails
    (ErrUpdateTooRecent, or an error / panic inside a reward computation): the VM resets every change. -/
def update (k : Kind) (rc : RCfg) (cons : Cons) (s : RState) (height : Nat) (ts : Int) :
    Option (RState × List (Int × EpochOut)) :=
  match EpochCursor.update rc.c (variantOf k) s.cs height ts with
  | none => none
  | some (cs', es) =>
    match rewardAll k rc cons s.store es with
    | none => none
    | some (st', outs) => some (⟨creditAll cs' (creditsOf outs), st'⟩, outs)

/-- what can happen to one contract -/
inductive ROp where
  | update (height : Nat) (ts : Int)
  | collect (a : Addr)
  /-- any other method of the contract (Stake, Cancel, Register, Revoke, Delegate, SetTokenTuple, …) and any change
      of its balance: the reward-relevant storage becomes `st` -/
  | mutate (st : Store)

inductive ROut where
  | rewarded (outs : List (Int × EpochOut))
  | refused
  | minted (ms : List Mint)
  | mutated

def step (k : Kind) (rc : RCfg) (cons : Cons) (s : RState) : ROp → RState × ROut
  | .update h ts =>
    match update k rc cons s h ts with
    | some (s', outs) => (s', .rewarded outs)
    | none => (s, .refused)
  | .collect a =>
    match collect s.cs a with
    | some (ms, cs') => ({ s with cs := cs' }, .minted ms)
    | none => (s, .refused)
  | .mutate st => ({ s with store := st }, .mutated)

def run (k : Kind) (rc : RCfg) (cons : Cons) (s : RState) : List ROp → RState × List ROut
  | [] => (s, [])
  | o :: os =>
    let r := step k rc cons s o
    let rest := run k rc cons r.1 os
    (rest.1, r.2 :: rest.2)

/-- every (epoch, outcome) of a trace, in order -/
def epochOuts : List ROut → List (Int × EpochOut)
  | [] => []
  | .rewarded outs :: os => outs ++ epochOuts os
  | _ :: os => epochOuts os

/-- the epochs rewarded along a trace, in order -/
def rewardedEpochs (os : List ROut) : List Int := (epochOuts os).map (·.1)

/-- everything credited along a trace -/
def allCredits (os : List ROut) : List Credit := creditsOf (epochOuts os)

/-- everything minted by CollectReward along a trace -/
def allMints : List ROut → List Mint
  | [] => []
  | .minted ms :: os => ms ++ allMints os
  | _ :: os => allMints os

/-- the same history as calls of the cursor/deposit machine of Model/EpochCursor.lean: an Update, followed by the
    `addReward` calls it made; a failed call leaves no trace -/
def lower (k : Kind) (rc : RCfg) (cons : Cons) : RState → List ROp → List Op
  | _, [] => []
  | s, .update h ts :: os =>
    match update k rc cons s h ts with
    | some (s', outs) => Op.update h ts :: ((creditsOf outs).map (fun x => Op.credit x.1 x.2) ++ lower k rc cons s' os)
    | none => lower k rc cons s os
  | s, .collect a :: os => Op.collect a :: lower k rc cons (step k rc cons s (.collect a)).1 os
  | s, .mutate st :: os => lower k rc cons { s with store := st } os

end ZV.RewardEpoch
