/-
L0 — Go integer/byte helpers used by all models. Core Lean only.
-/
namespace ZV

abbrev Bytes := List Nat   -- each element < 256 (well-formedness predicate `Bytes.WF`)

def Bytes.WF (b : Bytes) : Prop := ∀ x ∈ b, x < 256

instance (b : Bytes) : Decidable (Bytes.WF b) := by unfold Bytes.WF; infer_instance

def two64 : Nat := 18446744073709551616
def two63 : Nat := 9223372036854775808
def two32 : Nat := 4294967296
def two31 : Nat := 2147483648

theorem two64_eq : two64 = 2 ^ 64 := by decide
theorem two32_eq : two32 = 2 ^ 32 := by decide

/-- little-endian value of a byte list -/
def leVal : Bytes → Nat
  | [] => 0
  | b :: bs => b + 256 * leVal bs

/-- big-endian value of a byte list -/
def beVal (b : Bytes) : Nat := leVal b.reverse

/-- little-endian encoding, fixed width -/
def leBytes : Nat → Nat → Bytes
  | 0, _ => []
  | w + 1, n => (n % 256) :: leBytes w (n / 256)

/-- big-endian encoding, fixed width (binary.BigEndian.PutUint64 for w = 8) -/
def beBytes (w n : Nat) : Bytes := (leBytes w n).reverse

theorem leBytes_length (w n : Nat) : (leBytes w n).length = w := by
  induction w generalizing n with
  | zero => rfl
  | succ w ih => simp [leBytes, ih]

theorem leBytes_wf (w n : Nat) : Bytes.WF (leBytes w n) := by
  induction w generalizing n with
  | zero => intro x hx; simp [leBytes] at hx
  | succ w ih =>
    intro x hx
    simp [leBytes] at hx
    rcases hx with h | h
    · omega
    · exact ih _ x h

theorem leVal_leBytes (w n : Nat) : leVal (leBytes w n) = n % 256 ^ w := by
  induction w generalizing n with
  | zero => simp [leBytes, leVal, Nat.mod_one]
  | succ w ih =>
    simp only [leBytes, leVal, ih]
    rw [Nat.pow_succ, Nat.mul_comm (256 ^ w) 256, Nat.mod_mul]

theorem leVal_lt (b : Bytes) (h : b.WF) : leVal b < 256 ^ b.length := by
  induction b with
  | nil => simp [leVal]
  | cons x xs ih =>
    have hx : x < 256 := h x (by simp)
    have hxs : leVal xs < 256 ^ xs.length := ih (fun y hy => h y (by simp [hy]))
    simp only [leVal, List.length_cons, Nat.pow_succ]
    omega

/-- hex rendering helpers for the driver -/
def hexDigit (n : Nat) : Char :=
  if n < 10 then Char.ofNat (48 + n) else Char.ofNat (87 + n)

def toHex (b : Bytes) : String :=
  String.ofList (b.flatMap fun x => [hexDigit (x / 16), hexDigit (x % 16)])

def hexVal (c : Char) : Option Nat :=
  if '0' ≤ c ∧ c ≤ '9' then some (c.toNat - 48)
  else if 'a' ≤ c ∧ c ≤ 'f' then some (c.toNat - 87)
  else if 'A' ≤ c ∧ c ≤ 'F' then some (c.toNat - 55)
  else none

def ofHexChars : List Char → Option Bytes
  | [] => some []
  | [_] => none
  | a :: b :: rest => do
    let x ← hexVal a
    let y ← hexVal b
    let r ← ofHexChars rest
    pure ((16 * x + y) :: r)

/-- "-" denotes the empty byte string on the wire (so tokens are never empty) -/
def ofHex (s : String) : Option Bytes :=
  if s = "-" then some [] else ofHexChars s.toList

def showHex (b : Bytes) : String := if b.isEmpty then "-" else toHex b

/-- lexicographic comparison = bytes.Compare -/
def bytesLt : Bytes → Bytes → Bool
  | [], [] => false
  | [], _ :: _ => true
  | _ :: _, [] => false
  | a :: as, b :: bs => if a < b then true else if b < a then false else bytesLt as bs

def bytesLe (a b : Bytes) : Bool := !bytesLt b a

def isPrefix : Bytes → Bytes → Bool
  | [], _ => true
  | _ :: _, [] => false
  | a :: as, b :: bs => a == b && isPrefix as bs

end ZV
