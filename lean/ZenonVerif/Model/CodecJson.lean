import ZenonVerif.Model.Codec
import ZenonVerif.Model.CodecText
import ZenonVerif.Model.JsonRpc
/-
L9 `Codec` (part 5) — the JSON OBJECT form of account blocks and momentums.
Stands for chain/nom/account_block.go {AccountBlockMarshal, ToNomMarshalJson, MarshalJSON, UnmarshalJSON},
chain/nom/momentum.go (struct tags of Momentum; no custom marshaller), common/types {hash.go HexToHash /
MarshalText / UnmarshalText, hash_height.go, account_header.go (embedded HashHeight is flattened)} and the part of
encoding/json (Go 1.23) that fills a struct from an object: members in document order, matched to the tags by exact
name first and by case-folded name second, a repeated member overwrites (a nested struct is MERGED member-wise, a
repeated array re-uses the elements already present), unknown members are skipped, missing members keep the zero
value, `null` into a non-pointer non-slice field is a no-op, `null` into a slice gives nil, `null` as an element of a
slice of pointers gives a nil pointer.

The text forms of addresses and token standards (bech32) are NOT modelled: they are the parameter `Leaves`, and so
are hash (hex) and `[]byte` (base64) so that the theorems need only `Leaves.WF`; executable instances for hex and
base64 are given (`hexHashText`, `b64Text`, …) and used by the driver, which takes the bech32 forms from an oracle
table supplied by the harness.

`Block` has no nil / empty distinction for byte slices: `marshal` prints the empty string for an empty `data`,
`publicKey`, `signature` (Go prints `null` for a nil slice and `""` for an empty one) and `[]` for an empty momentum
content (Go prints `null` for nil); the stream compares modulo this.
NOT modelled: a JSON array of numbers given for a `[]byte` member (Go accepts it; here `Err.notModelled`), more than
two occurrences of the momentum member `content` (stale elements beyond the truncated length would be re-used).
-/
namespace ZV.CodecJson
open ZV ZV.Codec ZV.JsonRpc

/-- the leaf text codecs -/
structure Leaves where
  addrText : Bytes → String
  addrParse : String → Option Bytes
  ztsText : Bytes → String
  ztsParse : String → Option Bytes
  b64Text : Bytes → String
  b64Parse : String → Option Bytes
  hashText : Bytes → String
  hashParse : String → Option Bytes

/-- `parse (text x) = some x` for the values the Go types can hold -/
structure Leaves.WF (L : Leaves) : Prop where
  addr : ∀ x : Bytes, x.WF → x.length = Gen.AddressSize → L.addrParse (L.addrText x) = some x
  zts : ∀ x : Bytes, x.WF → x.length = Gen.ZtsSize → L.ztsParse (L.ztsText x) = some x
  b64 : ∀ x : Bytes, x.WF → L.b64Parse (L.b64Text x) = some x
  hash : ∀ x : Bytes, x.WF → x.length = Gen.HashSize → L.hashParse (L.hashText x) = some x

inductive Err
  | typeMismatch    -- *json.UnmarshalTypeError: string for number, number for string, bool, array/object for a scalar …
  | badNumber       -- number literal that is not a uint64 (sign, fraction, exponent, > 2^64-1)
  | badHash | badAddress | badZts | badBase64   -- UnmarshalText / base64 error
  | badNonce        -- `ab.Nonce.UnmarshalText` (a missing member is the empty string: "invalid nonce length")
  | nilDescendant   -- err == nil, but a `null` element of descendantBlocks left a nil pointer in the result
  | nilContent      -- err == nil, but a `null` element of content left a nil pointer
  | notModelled
deriving DecidableEq, Repr, Inhabited

/-! ## leaves -/

def natLit (n : Nat) : String := String.ofList ((natDigitsLE (n + 1) n).reverse.map digitChar)

/-- a JSON number literal decoded into a `uint64`: `strconv.ParseUint(lit, 10, 64)` -/
def parseU64 (lit : String) : Option Nat :=
  let cs := lit.toList
  if cs.isEmpty then none
  else match parseDigitsAux 0 cs with
    | some n => if n < two64 then some n else none
    | none => none

def decU64 : Json → Nat → Except Err Nat
  | .null, cur => .ok cur
  | .num lit, _ => match parseU64 lit with
    | some n => .ok n
    | none => .error .badNumber
  | _, _ => .error .typeMismatch

/-- a field whose type implements encoding.TextUnmarshaler (Hash, Address, ZenonTokenStandard) -/
def decText (parse : String → Option Bytes) (e : Err) : Json → Bytes → Except Err Bytes
  | .null, cur => .ok cur
  | .str s, _ => match parse s with
    | some b => .ok b
    | none => .error e
  | _, _ => .error .typeMismatch

/-- `[]byte`: base64 string; `null` gives nil -/
def decBytes (L : Leaves) : Json → Except Err Bytes
  | .null => .ok []
  | .str s => match L.b64Parse s with
    | some b => .ok b
    | none => .error .badBase64
  | .arr _ => .error .notModelled
  | _ => .error .typeMismatch

def decString : Json → String → Except Err String
  | .null, cur => .ok cur
  | .str s, _ => .ok s
  | _, _ => .error .typeMismatch

def zeros (n : Nat) : Bytes := List.replicate n 0

/-- exact name first, case-folded name second (`byExactName`, `byFoldedName`) -/
def fieldOf {F : Type} (tags : List (String × F)) (k : String) : Option F :=
  match tags.lookup k with
  | some f => some f
  | none => (tags.find? (fun t => foldKey t.1 == foldKey k)).map (·.2)

/-! ## types.HashHeight -/

inductive HF | hash | height
deriving DecidableEq, Repr

def hhTags : List (String × HF) := [("hash", .hash), ("height", .height)]

def hhZero : HashHeight := ⟨zeros Gen.HashSize, 0⟩

def hhFill (L : Leaves) : List (String × Json) → HashHeight → Except Err HashHeight
  | [], h => .ok h
  | (k, v) :: rest, h =>
    match fieldOf hhTags k with
    | none => hhFill L rest h
    | some .hash => do let x ← decText L.hashParse .badHash v h.hash; hhFill L rest { h with hash := x }
    | some .height => do let x ← decU64 v h.height; hhFill L rest { h with height := x }

/-- a struct-typed member: `null` no-op, an object is merged into the current value -/
def decHashHeight (L : Leaves) : Json → HashHeight → Except Err HashHeight
  | .null, cur => .ok cur
  | .obj ms, cur => hhFill L ms cur
  | _, _ => .error .typeMismatch

def u64J (n : Nat) : Json := .num (natLit n)

def marHashHeight (L : Leaves) (h : HashHeight) : Json :=
  .obj [("hash", .str (L.hashText h.hash)), ("height", u64J h.height)]

/-! ## nom.AccountBlock -/

inductive AF
  | version | chainIdentifier | blockType | hash | previousHash | height | momentumAcknowledged | address
  | toAddress | amount | tokenStandard | fromBlockHash | descendantBlocks | data | fusedPlasma | difficulty
  | nonce | basePlasma | totalPlasma | changesHash | publicKey | signature
deriving DecidableEq, Repr

/-- (json name, member) of `AccountBlockMarshal` in declaration order; pinned against `Gen.abJsonMembers` -/
def abTags : List (String × AF) := [
  ("version", .version), ("chainIdentifier", .chainIdentifier), ("blockType", .blockType), ("hash", .hash),
  ("previousHash", .previousHash), ("height", .height), ("momentumAcknowledged", .momentumAcknowledged),
  ("address", .address), ("toAddress", .toAddress), ("amount", .amount), ("tokenStandard", .tokenStandard),
  ("fromBlockHash", .fromBlockHash), ("descendantBlocks", .descendantBlocks), ("data", .data),
  ("fusedPlasma", .fusedPlasma), ("difficulty", .difficulty), ("nonce", .nonce), ("basePlasma", .basePlasma),
  ("usedPlasma", .totalPlasma), ("changesHash", .changesHash), ("publicKey", .publicKey),
  ("signature", .signature)]

/-- `aux := new(AccountBlockMarshal)`: the body fields (its `amount` and `nonce` are not used), the two string
    members, the descendants decoded so far and whether a nil pointer is among them -/
structure Aux where
  body : ABody
  amount : String
  nonce : String
  desc : List Block
  nilSeen : Bool

def bodyZero : ABody := {
  version := 0, chainIdentifier := 0, blockType := 0, hash := zeros Gen.HashSize,
  previousHash := zeros Gen.HashSize, height := 0, momentumAcknowledged := hhZero,
  address := zeros Gen.AddressSize, toAddress := zeros Gen.AddressSize, amount := 0,
  tokenStandard := zeros Gen.ZtsSize, fromBlockHash := zeros Gen.HashSize, data := [], fusedPlasma := 0,
  difficulty := 0, nonce := zeros Gen.NonceSize, basePlasma := 0, totalPlasma := 0,
  changesHash := zeros Gen.HashSize, publicKey := [], signature := [] }

def auxZero : Aux := ⟨bodyZero, "", "", [], false⟩

/-- one member other than `descendantBlocks` stored into `aux` -/
def setLeaf (L : Leaves) (f : AF) (v : Json) (a : Aux) : Except Err Aux :=
  let b := a.body
  match f with
  | .version => do let x ← decU64 v b.version; pure { a with body := { b with version := x } }
  | .chainIdentifier => do let x ← decU64 v b.chainIdentifier; pure { a with body := { b with chainIdentifier := x } }
  | .blockType => do let x ← decU64 v b.blockType; pure { a with body := { b with blockType := x } }
  | .hash => do let x ← decText L.hashParse .badHash v b.hash; pure { a with body := { b with hash := x } }
  | .previousHash => do
      let x ← decText L.hashParse .badHash v b.previousHash; pure { a with body := { b with previousHash := x } }
  | .height => do let x ← decU64 v b.height; pure { a with body := { b with height := x } }
  | .momentumAcknowledged => do
      let x ← decHashHeight L v b.momentumAcknowledged; pure { a with body := { b with momentumAcknowledged := x } }
  | .address => do let x ← decText L.addrParse .badAddress v b.address; pure { a with body := { b with address := x } }
  | .toAddress => do
      let x ← decText L.addrParse .badAddress v b.toAddress; pure { a with body := { b with toAddress := x } }
  | .amount => do let x ← decString v a.amount; pure { a with amount := x }
  | .tokenStandard => do
      let x ← decText L.ztsParse .badZts v b.tokenStandard; pure { a with body := { b with tokenStandard := x } }
  | .fromBlockHash => do
      let x ← decText L.hashParse .badHash v b.fromBlockHash; pure { a with body := { b with fromBlockHash := x } }
  | .descendantBlocks => pure a
  | .data => do let x ← decBytes L v; pure { a with body := { b with data := x } }
  | .fusedPlasma => do let x ← decU64 v b.fusedPlasma; pure { a with body := { b with fusedPlasma := x } }
  | .difficulty => do let x ← decU64 v b.difficulty; pure { a with body := { b with difficulty := x } }
  | .nonce => do let x ← decString v a.nonce; pure { a with nonce := x }
  | .basePlasma => do let x ← decU64 v b.basePlasma; pure { a with body := { b with basePlasma := x } }
  | .totalPlasma => do let x ← decU64 v b.totalPlasma; pure { a with body := { b with totalPlasma := x } }
  | .changesHash => do
      let x ← decText L.hashParse .badHash v b.changesHash; pure { a with body := { b with changesHash := x } }
  | .publicKey => do let x ← decBytes L v; pure { a with body := { b with publicKey := x } }
  | .signature => do let x ← decBytes L v; pure { a with body := { b with signature := x } }

/-- the field-by-field copy of `(ab *AccountBlock) UnmarshalJSON` after `json.Unmarshal(data, aux)` succeeded:
    `common.StringToBigInt(aux.Amount)` (0 when the text does not parse) and `ab.Nonce.UnmarshalText` whose error
    IS returned -/
def finish (a : Aux) : Except Err Block :=
  match nonceUnmarshalText a.nonce.toList with
  | none => .error .badNonce
  | some n =>
    if a.nilSeen then .error .nilDescendant
    else .ok ⟨{ a.body with amount := stringToBigInt a.amount.toList, nonce := n }, a.desc⟩

mutual
/-- `(ab *AccountBlock) UnmarshalJSON` on one JSON value (anything that is not an object fails: a type error, or
    for `null` the missing nonce) -/
def unmarshalBlock (L : Leaves) : Json → Except Err Block
  | .obj ms => do
      let a ← unmMembers L ms auxZero
      finish a
  | .null => .error .badNonce
  | _ => .error .typeMismatch
/-- the members of the object in document order -/
def unmMembers (L : Leaves) : List (String × Json) → Aux → Except Err Aux
  | [], a => .ok a
  | (k, v) :: rest, a =>
    match fieldOf abTags k with
    | none => unmMembers L rest a
    | some .descendantBlocks =>
      match v with
      | .null => unmMembers L rest { a with desc := [] }
      | .arr js => do
          let r ← unmBlocks L js
          unmMembers L rest { a with desc := r.1, nilSeen := a.nilSeen || r.2 }
      | _ => .error .typeMismatch
    | some f => do
        let a' ← setLeaf L f v a
        unmMembers L rest a'
/-- `[]*AccountBlock`: a `null` element is a nil pointer (flag), every other element goes through
    `UnmarshalJSON` of a fresh block; a descendant that itself holds a nil pointer is flagged too -/
def unmBlocks (L : Leaves) : List Json → Except Err (List Block × Bool)
  | [] => .ok ([], false)
  | j :: js =>
    match j with
    | .null => do
        let r ← unmBlocks L js
        pure (r.1, true)
    | j' =>
      match unmarshalBlock L j' with
      | .ok b => do
          let r ← unmBlocks L js
          pure (b :: r.1, r.2)
      | .error .nilDescendant => do
          let r ← unmBlocks L js
          pure (r.1, true)
      | .error e => .error e
end

def amountJ (a : Int) : Json := .str (String.ofList (showAmount a))
def nonceJ (n : Bytes) : Json := .str (String.ofList (hexChars n))

mutual
/-- `json.Marshal(ab.ToNomMarshalJson())`: members in declaration order of `AccountBlockMarshal` -/
def marshalBlock (L : Leaves) : Block → Json
  | ⟨b, ds⟩ => .obj [
      ("version", u64J b.version), ("chainIdentifier", u64J b.chainIdentifier), ("blockType", u64J b.blockType),
      ("hash", .str (L.hashText b.hash)), ("previousHash", .str (L.hashText b.previousHash)),
      ("height", u64J b.height), ("momentumAcknowledged", marHashHeight L b.momentumAcknowledged),
      ("address", .str (L.addrText b.address)), ("toAddress", .str (L.addrText b.toAddress)),
      ("amount", amountJ b.amount), ("tokenStandard", .str (L.ztsText b.tokenStandard)),
      ("fromBlockHash", .str (L.hashText b.fromBlockHash)), ("descendantBlocks", .arr (marshalBlocks L ds)),
      ("data", .str (L.b64Text b.data)), ("fusedPlasma", u64J b.fusedPlasma), ("difficulty", u64J b.difficulty),
      ("nonce", nonceJ b.nonce), ("basePlasma", u64J b.basePlasma), ("usedPlasma", u64J b.totalPlasma),
      ("changesHash", .str (L.hashText b.changesHash)), ("publicKey", .str (L.b64Text b.publicKey)),
      ("signature", .str (L.b64Text b.signature))]
def marshalBlocks (L : Leaves) : List Block → List Json
  | [] => []
  | d :: ds => marshalBlock L d :: marshalBlocks L ds
end

/-- member names of an object -/
def memberNames : Json → List String
  | .obj ms => ms.map (·.1)
  | _ => []

/-! ## nom.Momentum -/

inductive AHF | address | hash | height
deriving DecidableEq, Repr

/-- `types.AccountHeader`: `Address` and the promoted members of the embedded `HashHeight` -/
def ahTags : List (String × AHF) := [("address", .address), ("hash", .hash), ("height", .height)]

def ahZero : AccountHeader := ⟨zeros Gen.AddressSize, zeros Gen.HashSize, 0⟩

def ahFill (L : Leaves) : List (String × Json) → AccountHeader → Except Err AccountHeader
  | [], h => .ok h
  | (k, v) :: rest, h =>
    match fieldOf ahTags k with
    | none => ahFill L rest h
    | some .address => do let x ← decText L.addrParse .badAddress v h.address; ahFill L rest { h with address := x }
    | some .hash => do let x ← decText L.hashParse .badHash v h.hash; ahFill L rest { h with hash := x }
    | some .height => do let x ← decU64 v h.height; ahFill L rest { h with height := x }

/-- one element of `[]*types.AccountHeader`; `cur` = the element already at this index (a repeated `content`
    member decodes INTO the existing elements) -/
def decHeader (L : Leaves) : Json → Option AccountHeader → Except Err (Option AccountHeader)
  | .null, _ => .ok none
  | .obj ms, cur => do let h ← ahFill L ms (cur.getD ahZero); pure (some h)
  | _, _ => .error .typeMismatch

def decHeaders (L : Leaves) : List Json → List (Option AccountHeader) → Except Err (List (Option AccountHeader))
  | [], _ => .ok []
  | j :: js, cur => do
      let h ← decHeader L j (cur.head?.join)
      let r ← decHeaders L js cur.tail
      pure (h :: r)

def decContent (L : Leaves) : Json → List (Option AccountHeader) → Except Err (List (Option AccountHeader))
  | .null, _ => .ok []
  | .arr js, cur => decHeaders L js cur
  | _, _ => .error .typeMismatch

inductive MF
  | version | chainIdentifier | hash | previousHash | height | timestamp | data | content | changesHash
  | publicKey | signature
deriving DecidableEq, Repr

/-- (json name, member) of `nom.Momentum` in declaration order (`Timestamp` has `json:"-"`, `producer` is
    unexported); pinned against `Gen.momJsonMembers` -/
def momTags : List (String × MF) := [
  ("version", .version), ("chainIdentifier", .chainIdentifier), ("hash", .hash), ("previousHash", .previousHash),
  ("height", .height), ("timestamp", .timestamp), ("data", .data), ("content", .content),
  ("changesHash", .changesHash), ("publicKey", .publicKey), ("signature", .signature)]

structure MAux where
  m : Momentum                          -- `content` not used
  content : List (Option AccountHeader)

def momZero : Momentum := {
  version := 0, chainIdentifier := 0, hash := zeros Gen.HashSize, previousHash := zeros Gen.HashSize, height := 0,
  timestampUnix := 0, data := [], content := [], changesHash := zeros Gen.HashSize, publicKey := [],
  signature := [] }

def momFill (L : Leaves) : List (String × Json) → MAux → Except Err MAux
  | [], a => .ok a
  | (k, v) :: rest, a =>
    let m := a.m
    match fieldOf momTags k with
    | none => momFill L rest a
    | some .version => do let x ← decU64 v m.version; momFill L rest { a with m := { m with version := x } }
    | some .chainIdentifier => do
        let x ← decU64 v m.chainIdentifier; momFill L rest { a with m := { m with chainIdentifier := x } }
    | some .hash => do
        let x ← decText L.hashParse .badHash v m.hash; momFill L rest { a with m := { m with hash := x } }
    | some .previousHash => do
        let x ← decText L.hashParse .badHash v m.previousHash
        momFill L rest { a with m := { m with previousHash := x } }
    | some .height => do let x ← decU64 v m.height; momFill L rest { a with m := { m with height := x } }
    | some .timestamp => do
        let x ← decU64 v m.timestampUnix; momFill L rest { a with m := { m with timestampUnix := x } }
    | some .data => do let x ← decBytes L v; momFill L rest { a with m := { m with data := x } }
    | some .content => do let x ← decContent L v a.content; momFill L rest { a with content := x }
    | some .changesHash => do
        let x ← decText L.hashParse .badHash v m.changesHash
        momFill L rest { a with m := { m with changesHash := x } }
    | some .publicKey => do let x ← decBytes L v; momFill L rest { a with m := { m with publicKey := x } }
    | some .signature => do let x ← decBytes L v; momFill L rest { a with m := { m with signature := x } }

/-- all elements non-nil -/
def allSome : List (Option AccountHeader) → Option (List AccountHeader)
  | [] => some []
  | none :: _ => none
  | some h :: r => (allSome r).map (h :: ·)

/-- `json.Unmarshal(text, new(nom.Momentum))` -/
def unmarshalMomentum (L : Leaves) : Json → Except Err Momentum
  | .obj ms => do
      let a ← momFill L ms ⟨momZero, []⟩
      match allSome a.content with
      | none => .error .nilContent
      | some c => pure { a.m with content := c }
  | .null => .ok momZero
  | _ => .error .typeMismatch

def marHeader (L : Leaves) (h : AccountHeader) : Json :=
  .obj [("address", .str (L.addrText h.address)), ("hash", .str (L.hashText h.hash)), ("height", u64J h.height)]

/-- `json.Marshal(m)` -/
def marshalMomentum (L : Leaves) (m : Momentum) : Json :=
  .obj [("version", u64J m.version), ("chainIdentifier", u64J m.chainIdentifier),
    ("hash", .str (L.hashText m.hash)), ("previousHash", .str (L.hashText m.previousHash)),
    ("height", u64J m.height), ("timestamp", u64J m.timestampUnix), ("data", .str (L.b64Text m.data)),
    ("content", .arr (m.content.map (marHeader L))), ("changesHash", .str (L.hashText m.changesHash)),
    ("publicKey", .str (L.b64Text m.publicKey)), ("signature", .str (L.b64Text m.signature))]

/-! ## executable leaves: hex (types.Hash) and base64 (encoding/base64 StdEncoding) -/

def hexHashText (b : Bytes) : String := String.ofList (hexChars b)

/-- `types.HexToHash`: exactly 64 characters, `hex.DecodeString` (either case), no prefix -/
def hexHashParse (s : String) : Option Bytes :=
  let cs := s.toList
  if cs.length = 2 * Gen.HashSize then ofHexChars cs else none

def b64Alphabet : List Char :=
  "ABCDEFGHIJKLMNOPQRSTUVWXYZabcdefghijklmnopqrstuvwxyz0123456789+/".toList

def b64Char (n : Nat) : Char := b64Alphabet.getD n 'A'

def b64Val (c : Char) : Option Nat :=
  if 'A' ≤ c ∧ c ≤ 'Z' then some (c.toNat - 65)
  else if 'a' ≤ c ∧ c ≤ 'z' then some (c.toNat - 97 + 26)
  else if '0' ≤ c ∧ c ≤ '9' then some (c.toNat - 48 + 52)
  else if c = '+' then some 62
  else if c = '/' then some 63
  else none

def b64EncChars : Bytes → List Char
  | [] => []
  | [a] => [b64Char (a / 4), b64Char (a % 4 * 16), '=', '=']
  | [a, b] => [b64Char (a / 4), b64Char (a % 4 * 16 + b / 16), b64Char (b % 16 * 4), '=']
  | a :: b :: c :: r =>
    b64Char (a / 4) :: b64Char (a % 4 * 16 + b / 16) :: b64Char (b % 16 * 4 + c / 64) :: b64Char (c % 64)
      :: b64EncChars r

def b64Text (b : Bytes) : String := String.ofList (b64EncChars b)

/-- `base64.StdEncoding.Decode` after the removal of '\r' and '\n' (which the decoder skips): quanta of four
    alphabet characters; the last quantum may be `xx==` or `xxx=` (non-zero trailing bits are accepted: the
    encoding is not `Strict`); anything after the padding, a missing padding or a foreign character is an error -/
def b64DecChars : List Char → Option Bytes
  | [] => some []
  | [a, b, '=', '='] => do
      let x ← b64Val a
      let y ← b64Val b
      pure [(x * 4 + y / 16) % 256]
  | [a, b, c, '='] => do
      let x ← b64Val a
      let y ← b64Val b
      let z ← b64Val c
      pure [(x * 4 + y / 16) % 256, (y % 16 * 16 + z / 4) % 256]
  | a :: b :: c :: d :: r => do
      let x ← b64Val a
      let y ← b64Val b
      let z ← b64Val c
      let w ← b64Val d
      let t ← b64DecChars r
      pure ((x * 4 + y / 16) % 256 :: (y % 16 * 16 + z / 4) % 256 :: (z % 4 * 64 + w) % 256 :: t)
  | _ => none

def b64Parse (s : String) : Option Bytes :=
  b64DecChars (s.toList.filter (fun c => c ≠ '\r' ∧ c ≠ '\n'))

end ZV.CodecJson
