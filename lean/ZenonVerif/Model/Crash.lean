import ZenonVerif.Model.Versioned
/-
C08 — the write plan of a commit / rollback on the leveldb-backed manager.
Stands for the leveldb writes issued by ldbManager.Add / ldbManager.Pop (common/db/versioned_db.go): one
`leveldb.Batch` holding the redo record (patchByte ‖ height), the undo record (rollbackByte ‖ height) and one
Put per key of the frontier key space (frontierByte ‖ key) — tombstones are Puts of the empty value.
The abstract disk is `Ldb` itself (frontier key space + stored redo/undo records).
-/
namespace ZV.Crash
open ZV ZV.Kv ZV.Versioned

/-- one key-level write inside a batch -/
inductive W where
  | redo (h : Nat) (p : Option Patch)     -- Put / Delete of patchByte ‖ be64 h
  | undo (h : Nat) (p : Option Patch)     -- Put / Delete of rollbackByte ‖ be64 h
  | front (k : Bytes) (raw : Bytes)       -- Put of frontierByte ‖ k with the raw (marker-prefixed or empty) value
  deriving DecidableEq, Repr

/-- an atomic leveldb write -/
abbrev Batch := List W

def putH (l : List (Nat × Patch)) (h : Nat) (p : Option Patch) : List (Nat × Patch) :=
  match p with
  | some p => (h, p) :: l.filter (fun e => e.1 ≠ h)
  | none => l.filter (fun e => e.1 ≠ h)

def applyW (s : Ldb) : W → Ldb
  | .redo h p => { s with patches := putH s.patches h p }
  | .undo h p => { s with rollbacks := putH s.rollbacks h p }
  | .front k raw => { s with frontier := rput s.frontier k raw }

def applyBatch (s : Ldb) (b : Batch) : Ldb := b.foldl applyW s

/-- raw value enableDeleteDB writes for a patch operation -/
def rawOf : Op → Bytes
  | .put _ v => 0 :: v
  | .del _ => []

def frontWrites (p : Patch) : Batch := p.map (fun o => W.front o.key (rawOf o))

/-- the writes of `ldbManager.Add` (single-commit transaction) when the parent is the frontier: ONE batch -/
def planAdd (s : Ldb) (prev id : Id) (ops : Patch) : List Batch :=
  match s.get prev with
  | none => []
  | some view =>
    if prev = s.frontierId then
      let patch := ops ++ frontierOps id
      [W.redo id.height (some patch) :: W.undo id.height (some (rollbackPatch view.get patch)) :: frontWrites patch]
    else []

/-- the writes of `ldbManager.Pop`: ONE batch -/
def planPop (s : Ldb) : List Batch :=
  let f := s.frontierId
  match lookupH s.rollbacks f.height with
  | none => []
  | some rb => [frontWrites rb ++ [W.redo f.height none, W.undo f.height none]]

/-- the disk after the first k writes of a plan reached leveldb -/
def afterWrites (s : Ldb) (plan : List Batch) (k : Nat) : Ldb := (plan.take k).foldl applyBatch s

/-- pre-fix behaviour, kept for the negative witness: every write is its own leveldb call -/
def splitPlan (plan : List Batch) : List Batch := plan.flatten.map (fun w => [w])

end ZV.Crash
