import ZenonVerif.Model.Num
import ZenonVerif.Model.Codec
import ZenonVerif.Gen.Frame
/-
C15-T4 — what an untrusted peer's bytes go through before any protocol handler sees them:

  * p2p/rlpx.go   `rlpxFrameRW.ReadMsg` / `WriteMsg`, `updateMAC`, `readInt24` / `putInt24`, `readProtocolHandshake`
  * p2p/discover/udp.go   `decodePacket`, `handlePacket`, the `handle` methods up to and including the expiry /
    version test, `expired`, the stuffing loop of `init()` that computes `maxNeighbors`, the chunking loop of
    `findnode.handle`
  * p2p/peer.go   `readLoop` / `run`: what an error of `ReadMsg` leads to (node-level state = one reader state per peer)

The cryptography is a PARAMETER (`Crypto`: the running Keccak state of the ingress/egress MAC with `Sum` and `Write`,
the AES block of `macCipher`, the two AES-CTR key streams; `DCrypto`: Keccak-256 and public-key recovery). Everything
else — which bytes go where, in which order the checks stand, every slice expression with its bounds check — follows the
Go code statement by statement (`Gen.ReadMsgShape`, `Gen.DecodePacketShape`, … pin the statement lists).

Outcome of the reader on the bytes that are available on the connection: `msg` (a message, the unread rest of the stream,
the successor state), `needMore` (an `io.ReadFull` does not get its bytes: the real reader blocks until the read
dead-line and then fails), `reject r` (the function returns an error), `panic` (a bounds check of Go would fail).
-/
namespace ZV.Frame
open ZV

/-- result of a Go expression that may panic -/
inductive Res (α : Type) where
  | ok (v : α)
  | panic
  deriving Repr, DecidableEq

/-- Go `b[lo:hi]` (bounds by length, see Model/Abi.lean for the capacity remark) -/
def goSlice (b : Bytes) (lo hi : Nat) : Res Bytes :=
  if lo ≤ hi ∧ hi ≤ b.length then .ok ((b.drop lo).take (hi - lo)) else .panic

/-- Go `b[lo:]` -/
def goSliceFrom (b : Bytes) (lo : Nat) : Res Bytes := goSlice b lo b.length

/-- Go `b[i]` -/
def goIndex (b : Bytes) (i : Nat) : Res Nat :=
  if i < b.length then .ok (b.getD i 0) else .panic

/-- `io.ReadFull(conn, buf)` with `len(buf) = n` on the bytes available: `none` = not enough bytes -/
def readFull (inp : Bytes) (n : Nat) : Option (Bytes × Bytes) :=
  if inp.length < n then none else some (inp.take n, inp.drop n)

/-! ## constants (generated) -/

def headerLen : Nat := Gen.FrHeaderLen          -- `headbuf := make([]byte, 32)`
def macLen : Nat := Gen.FrAesBlockSize          -- 16: `headbuf[:16]`, `headbuf[16:]`, `mac.Sum(nil)[:16]`
def maxUint24 : Nat := Gen.FrMaxUint24

/-! ## the cryptographic parameters -/

/-- one direction of an RLPx session. `μ`: state of the running MAC hash (`hash.Hash`, legacy Keccak-256),
    `κ`: state of an AES-CTR stream (`cipher.Stream`). -/
structure Crypto (μ κ : Type) where
  /-- `mac.Sum(nil)` -/
  sum : μ → Bytes
  /-- `mac.Write(b)` -/
  write : μ → Bytes → μ
  /-- `macCipher.Encrypt(dst, src)` (one AES block of `src`) -/
  block : Bytes → Bytes
  /-- `enc.XORKeyStream(dst, src)` of the writing side -/
  enc : κ → Bytes → κ × Bytes
  /-- `dec.XORKeyStream(dst, src)` of the reading side -/
  dec : κ → Bytes → κ × Bytes

/-- what the code relies on (contracts of `hash.Hash`, `cipher.Block`, `cipher.Stream`; AES-CTR with the same key and
    IV on both sides). These are hypotheses of the theorems, satisfied by the toy instance of Props/C15Frame.lean. -/
structure Lawful {μ κ : Type} (C : Crypto μ κ) : Prop where
  sum_len : ∀ m, (C.sum m).length = Gen.FrHashSize
  block_len : ∀ b, (C.block b).length = Gen.FrAesBlockSize
  enc_len : ∀ k b, (C.enc k b).2.length = b.length
  dec_len : ∀ k b, (C.dec k b).2.length = b.length
  dec_wf : ∀ k b, b.WF → (C.dec k b).2.WF
  /-- decrypting what was encrypted from the same stream position gives the plain text and the same next position -/
  dec_enc : ∀ k b, C.dec k (C.enc k b).2 = ((C.enc k b).1, b)
  /-- a key stream is consumed left to right: one call on `a ++ b` = a call on `a`, then one on `b` -/
  dec_append : ∀ k a b, C.dec k (a ++ b) = ((C.dec (C.dec k a).1 b).1, (C.dec k a).2 ++ (C.dec (C.dec k a).1 b).2)
  /-- `h.Write(a); h.Write(b)` = `h.Write(a ++ b)` -/
  write_append : ∀ m a b, C.write (C.write m a) b = C.write m (a ++ b)

/-- `aesbuf[i] ^= seed[i]` for `i` over `aesbuf` -/
def xorBytes (a b : Bytes) : Bytes := List.zipWith (· ^^^ ·) a b

/-- `updateMAC(mac, block, seed)`:
      aesbuf := make([]byte, aes.BlockSize); block.Encrypt(aesbuf, mac.Sum(nil))     (panics on a sum shorter than a block)
      for i := range aesbuf { aesbuf[i] ^= seed[i] }                                (panics on a seed shorter than a block)
      mac.Write(aesbuf); return mac.Sum(nil)[:16] -/
def updateMAC {μ κ : Type} (C : Crypto μ κ) (m : μ) (seed : Bytes) : Res (μ × Bytes) :=
  if (C.sum m).length < Gen.FrAesBlockSize then .panic
  else if seed.length < Gen.FrAesBlockSize then .panic
  else
    let aesbuf := xorBytes ((C.block (C.sum m)).take Gen.FrAesBlockSize) seed
    let m' := C.write m aesbuf
    match goSlice (C.sum m') 0 macLen with
    | .ok t => .ok (m', t)
    | .panic => .panic

/-- the same without the bounds checks (equal to `updateMAC` for a lawful `C` and a seed of at least a block) -/
def tag {μ κ : Type} (C : Crypto μ κ) (m : μ) (seed : Bytes) : μ × Bytes :=
  let m' := C.write m (xorBytes ((C.block (C.sum m)).take Gen.FrAesBlockSize) seed)
  (m', (C.sum m').take macLen)

/-! ## 24-bit sizes -/

/-- `readInt24(b)`: `uint32(b[2]) | uint32(b[1])<<8 | uint32(b[0])<<16` (bytes: the three fields do not overlap) -/
def readInt24 (b : Bytes) : Res Nat :=
  match goIndex b 2, goIndex b 1, goIndex b 0 with
  | .ok b2, .ok b1, .ok b0 => .ok (b2 + b1 * 256 + b0 * 65536)
  | _, _, _ => .panic

/-- `putInt24(v, b)`: the three bytes written to `b[0..2]` -/
def putInt24 (v : Nat) : Bytes := [v / 65536 % 256, v / 256 % 256, v % 256]

/-! ## the message code (`rlp.Decode(content, &msg.Code)`, `rlp.EncodeToBytes(msg.Code)`) -/

/-- go-ethereum rlp `Stream.uint(64)` on the front of `c` (a `*bytes.Reader`: the stream is limited to `len(c)`):
    a single byte 1..0x7f; 0x80 (zero); 0x81..0x88 followed by that many bytes, no leading zero, a single byte ≥ 0x80.
    Everything else is an error: empty input, 0x00, a string longer than what is left or than 8 bytes, non-canonical
    integers, long strings (0xb8..0xbf), lists (≥ 0xc0). Returns the code and the unread rest. -/
def decodeCode (c : Bytes) : Option (Nat × Bytes) :=
  match c with
  | [] => none
  | b :: t =>
    if b < 128 then (if b = 0 then none else some (b, t))
    else if b < 184 then
      let size := b - 128
      if size > t.length then none
      else if size > 8 then none
      else if size = 0 then some (0, t)
      else if size = 1 then (if t.headD 0 < 128 then none else some (t.headD 0, t.drop 1))
      else if t.headD 0 = 0 then none
      else some (beVal (t.take size), t.drop size)
    else none

/-- `rlp.EncodeToBytes(code)` for a `uint64` -/
def encodeCode (code : Nat) : Bytes :=
  if code = 0 then [128]
  else if code < 128 then [code]
  else (128 + (Codec.natBytesBE code).length) :: Codec.natBytesBE code

/-! ## rlpxFrameRW -/

/-- the state `ReadMsg` (or `WriteMsg`) works on: this connection's ingress (egress) MAC and its key stream -/
structure RW (μ κ : Type) where
  mac : μ
  ks : κ

inductive Reason where
  | badHeaderMAC | badFrameMAC | badCode
  deriving Repr, DecidableEq

inductive Out (μ κ : Type) where
  | msg (code size : Nat) (payload rest : Bytes) (st : RW μ κ)
  | needMore
  | reject (r : Reason)
  | panic

/-- first half of `ReadMsg`: up to `fsize := readInt24(headbuf)` -/
inductive HOut (μ κ : Type) where
  | hdr (m1 : μ) (k1 : κ) (fsize : Nat) (rest : Bytes)
  | needMore
  | reject (r : Reason)
  | panic

/-- `rsize`: the frame size rounded up to the 16-byte boundary (`uint32`; `fsize < 2^24` so nothing wraps) -/
def roundUp16 (fsize : Nat) : Nat := if fsize % 16 > 0 then fsize + (16 - fsize % 16) else fsize

def readHeader {μ κ : Type} (C : Crypto μ κ) (st : RW μ κ) (inp : Bytes) : HOut μ κ :=
  match readFull inp headerLen with                       -- io.ReadFull(rw.conn, headbuf)
  | none => .needMore
  | some (headbuf, inp1) =>
    match goSlice headbuf 0 macLen, goSliceFrom headbuf macLen with
    | .ok h16, .ok hmac =>
      match updateMAC C st.mac h16 with                   -- shouldMAC := updateMAC(rw.ingressMAC, rw.macCipher, headbuf[:16])
      | .panic => .panic
      | .ok (m1, shouldMAC) =>
        if shouldMAC ≠ hmac then .reject .badHeaderMAC    -- !hmac.Equal(shouldMAC, headbuf[16:])
        else
          let (k1, hdec) := C.dec st.ks h16               -- rw.dec.XORKeyStream(headbuf[:16], headbuf[:16])
          match readInt24 hdec with                       -- fsize := readInt24(headbuf)
          | .panic => .panic
          | .ok fsize => .hdr m1 k1 fsize inp1
    | _, _ => .panic

/-- second half of `ReadMsg` -/
def readBody {μ κ : Type} (C : Crypto μ κ) (m1 : μ) (k1 : κ) (fsize : Nat) (inp1 : Bytes) : Out μ κ :=
  match readFull inp1 (roundUp16 fsize) with              -- framebuf := make([]byte, rsize); io.ReadFull(rw.conn, framebuf)
  | none => .needMore
  | some (framebuf, inp2) =>
    let m2 := C.write m1 framebuf                         -- rw.ingressMAC.Write(framebuf)
    let fmacseed := C.sum m2                              -- fmacseed := rw.ingressMAC.Sum(nil)
    match readFull inp2 macLen with                       -- io.ReadFull(rw.conn, headbuf[:16])
    | none => .needMore
    | some (fmac, rest) =>
      match updateMAC C m2 fmacseed with                  -- shouldMAC = updateMAC(rw.ingressMAC, rw.macCipher, fmacseed)
      | .panic => .panic
      | .ok (m3, shouldMAC) =>
        if shouldMAC ≠ fmac then .reject .badFrameMAC     -- !hmac.Equal(shouldMAC, headbuf[:16])
        else
          let (k2, plain) := C.dec k1 framebuf            -- rw.dec.XORKeyStream(framebuf, framebuf)
          match goSlice plain 0 fsize with                -- framebuf[:fsize]
          | .panic => .panic
          | .ok content =>
            match decodeCode content with                 -- rlp.Decode(content, &msg.Code)
            | none => .reject .badCode
            | some (code, payload) =>
              .msg code (payload.length % two32) payload rest ⟨m3, k2⟩   -- msg.Size = uint32(content.Len())

/-- `rlpxFrameRW.ReadMsg` on the bytes `inp` available on the connection -/
def readMsg {μ κ : Type} (C : Crypto μ κ) (st : RW μ κ) (inp : Bytes) : Out μ κ :=
  match readHeader C st inp with
  | .hdr m1 k1 fsize inp1 => readBody C m1 k1 fsize inp1
  | .needMore => .needMore
  | .reject r => .reject r
  | .panic => .panic

inductive WOut (μ κ : Type) where
  | ok (wire : Bytes) (st : RW μ κ)
  | err                                   -- "message size overflows uint24"
  | panic

/-- the 16 plain header bytes: `putInt24(fsize, headbuf); copy(headbuf[3:], zeroHeader)`, zeros behind -/
def plainHeader (fsize : Nat) : Bytes :=
  putInt24 fsize ++ Gen.FrZeroHeader ++ List.replicate (macLen - 3 - Gen.FrZeroHeader.length) 0

/-- `zero16[:16-padding]` when `padding := fsize % 16` is positive -/
def padding (fsize : Nat) : Bytes := if fsize % 16 > 0 then List.replicate (16 - fsize % 16) 0 else []

/-- `rlpxFrameRW.WriteMsg(msg)` with `msg.Code = code`, `msg.Size = size` and a `msg.Payload` that yields `payload`.
    `fsize` is `uint32` arithmetic. The three `tee.Write` calls encrypt, send and feed the egress MAC in turn. -/
def writeMsg {μ κ : Type} (C : Crypto μ κ) (st : RW μ κ) (code size : Nat) (payload : Bytes) : WOut μ κ :=
  let ptype := encodeCode code
  let fsize := (ptype.length + size) % two32
  if fsize > maxUint24 then .err
  else
    let (k1, henc) := C.enc st.ks (plainHeader fsize)
    match updateMAC C st.mac henc with
    | .panic => .panic
    | .ok (m1, hmac) =>
      let (k2, c1) := C.enc k1 ptype
      let m2 := C.write m1 c1
      let (k3, c2) := C.enc k2 payload
      let m3 := C.write m2 c2
      let (k4, c3) := C.enc k3 (padding fsize)
      let m4 := C.write m3 c3
      match updateMAC C m4 (C.sum m4) with
      | .panic => .panic
      | .ok (m5, fmac) => .ok (henc ++ hmac ++ (c1 ++ c2 ++ c3) ++ fmac) ⟨m5, k4⟩

/-! ## readProtocolHandshake (the first message of a session) -/

inductive HsOut where
  | readErr            -- ReadMsg failed
  | tooBig             -- msg.Size > baseProtocolMaxMsgSize
  | disc               -- a disconnect message
  | notHandshake       -- any other code
  | decode             -- handed to msg.Decode(&hs) (its result is not modelled)
  deriving Repr, DecidableEq

/-- the tests of `readProtocolHandshake` in their order, up to `msg.Decode` -/
def protoHandshakeGate (readOk : Bool) (code size : Nat) : HsOut :=
  if !readOk then .readErr
  else if size > Gen.FrBaseProtocolMaxMsgSize then .tooBig
  else if code = Gen.FrDiscMsg then .disc
  else if code ≠ Gen.FrHandshakeMsg then .notHandshake
  else .decode

/-! ## node-level state: one reader per peer (p2p/peer.go `readLoop`, `run`) -/

/-- the sessions of a node: peer id ↦ the reader state of its connection -/
abbrev Node (μ κ : Type) := Nat → Option (RW μ κ)

inductive Delivery where
  | message (code size : Nat) (payload : Bytes)
  | waiting
  | dropped
  | noSuchPeer
  deriving Repr, DecidableEq

/-- one turn of peer `p`'s `readLoop` on the bytes its connection holds: a message goes on to `handle`, an error is
    sent on `readErr`, which ends `run`'s loop for THIS peer: `p.rw.close(reason)`, the session is gone. -/
def nodeRead {μ κ : Type} (C : Crypto μ κ) (node : Node μ κ) (p : Nat) (inp : Bytes) : Node μ κ × Delivery :=
  match node p with
  | none => (node, .noSuchPeer)
  | some st =>
    match readMsg C st inp with
    | .msg code size payload _ st' => (fun q => if q = p then some st' else node q, .message code size payload)
    | .needMore => (node, .waiting)
    | .reject _ => (fun q => if q = p then none else node q, .dropped)
    | .panic => (fun q => if q = p then none else node q, .dropped)

/-! ## discovery datagrams (p2p/discover/udp.go) -/

def macSize : Nat := Gen.DiscMacSize
def sigSize : Nat := Gen.DiscSigSize
def headSize : Nat := Gen.DiscHeadSize

/-- the decoded request as far as the `handle` methods look at it before touching the table -/
structure Req where
  expiration : Nat
  version : Nat := 0          -- ping only
  deriving Repr, DecidableEq

structure DCrypto where
  /-- `crypto.Keccak256` -/
  hash : Bytes → Bytes
  /-- `recoverNodeID(hash, sig)`: `none` = error -/
  recover : Bytes → Bytes → Option Bytes
  /-- `rlp.DecodeBytes(sigdata[1:], req)` for the request type of the packet-type byte: `none` = error -/
  body : Nat → Bytes → Option Req

inductive DReason where
  | tooSmall | badHash | badSig | unknownType | badBody
  deriving Repr, DecidableEq

inductive DOut where
  | ok (ptype : Nat) (fromID hash : Bytes) (req : Req)
  | reject (r : DReason)
  | panic
  deriving Repr, DecidableEq

def knownTypes : List Nat := [Gen.DiscPingPacket, Gen.DiscPongPacket, Gen.DiscFindnodePacket, Gen.DiscNeighborsPacket]

/-- `decodePacket(buf)` -/
def decodePacket (D : DCrypto) (buf : Bytes) : DOut :=
  if buf.length < headSize + 1 then .reject .tooSmall
  else
    -- hash, sig, sigdata := buf[:macSize], buf[macSize:headSize], buf[headSize:]
    match goSlice buf 0 macSize, goSlice buf macSize headSize, goSliceFrom buf headSize, goSliceFrom buf macSize with
    | .ok hash, .ok sig, .ok sigdata, .ok hashed =>
      if hash ≠ D.hash hashed then .reject .badHash                 -- shouldhash := crypto.Keccak256(buf[macSize:])
      else
        match D.recover (D.hash sigdata) sig with                   -- recoverNodeID(crypto.Keccak256(buf[headSize:]), sig)
        | none => .reject .badSig
        | some fromID =>
          match goIndex sigdata 0 with                              -- switch ptype := sigdata[0]
          | .panic => .panic
          | .ok ptype =>
            if ptype ∈ knownTypes then
              match goSliceFrom sigdata 1 with                      -- rlp.DecodeBytes(sigdata[1:], req)
              | .panic => .panic
              | .ok b =>
                match D.body ptype b with
                | none => .reject .badBody
                | some req => .ok ptype fromID hash req
            else .reject .unknownType
    | _, _, _, _ => .panic

/-- Go `int64(x)` of a `uint64` -/
def toInt64 (x : Nat) : Int := if x % two64 < two63 then (x % two64 : Nat) else ((x % two64 : Nat) : Int) - (two64 : Nat)

/-- 64-bit two's complement wrap of an `int64` sum -/
def wrap64 (x : Int) : Int := (x + (two63 : Nat)) % (two64 : Nat) - (two63 : Nat)

/-- `expired(ts)`: `time.Unix(int64(ts), 0).Before(time.Now())`. `time.Unix` stores `sec + unixToInternal` (an `int64`
    addition that wraps), `Before` compares seconds, then nanoseconds. `nowSec`/`nowNsec`: the wall clock. -/
def expired (ts : Nat) (nowSec : Int) (nowNsec : Nat) : Bool :=
  let s := wrap64 (toInt64 ts + (Gen.UnixToInternal : Nat))
  let n := nowSec + (Gen.UnixToInternal : Nat)
  decide (s < n) || (decide (s = n) && decide (0 < nowNsec))

def discVersion : Nat := Gen.DiscVersion

inductive POut where
  | reject (r : DReason)
  | expired
  | badVersion
  | handled (ptype : Nat)       -- past the tests on the datagram itself: the table decides (reply, unsolicited, unknown node)
  | panic
  deriving Repr, DecidableEq

/-- `handlePacket`: `decodePacket`, then the first tests of the request's `handle` -/
def handlePacket (D : DCrypto) (nowSec : Int) (nowNsec : Nat) (version : Nat) (buf : Bytes) : POut :=
  match decodePacket D buf with
  | .reject r => .reject r
  | .panic => .panic
  | .ok ptype _ _ req =>
    if expired req.expiration nowSec nowNsec then .expired
    else if ptype = Gen.DiscPingPacket ∧ req.version ≠ version then .badVersion
    else .handled ptype

/-! ### the size of a neighbors datagram -/

/-- RLP length prefix of a payload of `n` bytes -/
def rlpHdrLen (n : Nat) : Nat := if n < 56 then 1 else 1 + (Codec.natBytesBE n).length

/-- encoded size of an unsigned integer -/
def rlpUintLen (n : Nat) : Nat := if n < 128 then 1 else 1 + (Codec.natBytesBE n).length

/-- encoded size of a byte string -/
def rlpBytesLen (b : Bytes) : Nat :=
  if b.length = 1 ∧ b.headD 0 < 128 then 1 else rlpHdrLen b.length + b.length

/-- `rpcNode` -/
structure RpcNode where
  ip : Bytes
  udp : Nat
  tcp : Nat
  id : Bytes

def nodeLen (n : RpcNode) : Nat :=
  let p := rlpBytesLen n.ip + rlpUintLen n.udp + rlpUintLen n.tcp + rlpBytesLen n.id
  rlpHdrLen p + p

def nodesLen : List RpcNode → Nat
  | [] => 0
  | n :: ns => nodeLen n + nodesLen ns

/-- `rlp.Encode(neighbors{Nodes, Expiration})` -/
def neighborsLen (nodes : List RpcNode) (exp : Nat) : Nat :=
  let q := (rlpHdrLen (nodesLen nodes) + nodesLen nodes) + rlpUintLen exp
  rlpHdrLen q + q

/-- `encodePacket`: head space, the packet-type byte, the body -/
def neighborsPacketLen (nodes : List RpcNode) (exp : Nat) : Nat := headSize + 1 + neighborsLen nodes exp

/-- `maxSizeNode` of `init()`: 16 zero bytes of IP, both ports 0xffff, a zero NodeID -/
def maxSizeNode : RpcNode := ⟨List.replicate 16 0, 65535, 65535, List.replicate Gen.DiscNodeIDBytes 0⟩

/-- the loop of `init()`: `for n := 0; ; n++ { p.Nodes = append(p.Nodes, maxSizeNode); if headSize+size+1 >= 1280 { maxNeighbors = n; break } }` -/
def stuff : Nat → Nat → Option Nat
  | 0, _ => none
  | fuel + 1, n =>
    if neighborsPacketLen (List.replicate (n + 1) maxSizeNode) (two64 - 1) ≥ Gen.DiscDatagramLimit then some n
    else stuff fuel (n + 1)

/-- the chunking loop of `findnode.handle`: the node lists of the datagrams sent.
    `for i, n := range closest { p.Nodes = append(p.Nodes, n); if len(p.Nodes) == maxNeighbors || i == len(closest)-1 { send; p.Nodes = p.Nodes[:0] } }` -/
def chunkLoop {α : Type} (maxN : Nat) : List α → List α → List (List α)
  | _, [] => []
  | acc, n :: rest =>
    let acc' := acc ++ [n]
    if acc'.length = maxN ∨ rest = [] then acc' :: chunkLoop maxN [] rest
    else chunkLoop maxN acc' rest

/-! ## a checksum for the driver (FNV-1a, 64 bit) -/

def fnv64 (b : Bytes) : Nat :=
  b.foldl (fun h x => ((h ^^^ x) * 1099511628211) % two64) 14695981039346656037

end ZV.Frame
