import ZenonVerif.Model.Contracts
import ZenonVerif.Model.Ledger
/-
L5 joint — all modelled embedded contracts side by side, every receive of every method interleaved.

State: the storage of plasma, stake, htlc, pillar, sentinel, liquidity, bridge (the state machines of Model/Contracts.lean,
not copied) and, per contract, its balances on the abstract ledger. One step = ONE contract receive: the frontier
momentum and the send block (`Ctx`) and the method that the VM dispatches to. Every receive goes through
`Contracts.vmStep` (= vm.go generateEmbeddedReceive / rollbackEmbedded), whatever the method is:

  * a MODELLED method is one of the definitions of Model/Contracts.lean or of this file
    (reward `Update` of the stake / liquidity contracts with the deletion of cancelled entries, `CollectReward`,
    `Donate`, the reward `Update` of pillar / sentinel, legacy pillar registration);
  * a method that is NOT modelled is an ARBITRARY `Method σ` of its contract: it may rewrite the contract's own
    storage in any way and emit any descendant sends; what the VM skeleton guarantees whatever the method does is what
    `vmStep` does with its result — the contract's balance moves by + amount − Σ descendant sends, every descendant is
    funded, a failing method or an unfunded descendant leaves the storage as it was and returns the amount.

OTHER contracts' storage and balances are untouched by a receive: a method writes through `context.Storage()` of its
own address and balance mutators are called by the token contract only — regenerated AST facts
(Gen/ContractsFrame.lean, pinned in Props/C10Joint.lean). A contract's balance moves in no other way: a send TO a
contract is credited by the contract's own receive (`vmStep` credits the amount first).

`ofLedgerReceive` reads the same step off the abstract dual ledger (Model/Ledger.lean `crecv`): the receive of any
contract other than the token contract, judged by the ledger with the method's observed outcome.
-/
namespace ZV.ContractsJoint
open ZV.Contracts

/-- the contracts whose storage is modelled -/
inductive CId where
  | plasma | stake | htlc | pillar | sentinel | liquidity | bridge
  deriving DecidableEq, Repr

structure JState where
  plasma : Plasma := {}
  stake : Stake := {}
  htlc : Htlc := {}
  pillar : Pillar := {}
  sentinel : Sentinel := {}
  liquidity : Liquidity := {}
  bridge : Bridge := {}
  bal : CId → Bal := fun _ => []

/-- the balances of one contract replaced, everybody else's kept -/
def setB (bal : CId → Bal) (i : CId) (b : Bal) : CId → Bal := fun j => if j = i then b else bal j

/-! ### methods modelled here (beyond Model/Contracts.lean) -/

/-- computeStakeRewardsForEpoch, the deletion loop: `if stakeInfo.RevokeTime != 0 && stakeInfo.RevokeTime < endTime.Unix()
    { stakeInfo.Delete }` over all entries, for one epoch ending at `endT` -/
def sweepStake (endT : Int) : List ((Addr × Hash) × StakeE) → List ((Addr × Hash) × StakeE)
  | [] => []
  | (k, e) :: r => if e.revoke ≠ 0 ∧ e.revoke < endT then sweepStake endT r else (k, e) :: sweepStake endT r

/-- UpdateEmbeddedStakeMethod.ReceiveBlock as far as the entries go: one deletion pass per finished epoch (`ends` =
    the end times of the epochs the call catches up with — decided by the epoch cursor, C11, here an input). The
    rewards it computes go to the reward-deposit storage (minted only by CollectReward): no descendant block. -/
def stakeUpdate (ends : List Int) : Method Stake := fun s c =>
  if c.amount ≠ 0 then none
  else some ({ entries := ends.foldl (fun l e => sweepStake e l) s.entries }, [])

/-- computeLiquidityStakeRewardsForEpoch, the same deletion loop over the liquidity stake entries -/
def sweepLStake (endT : Int) : List ((Addr × Hash) × LStakeE) → List ((Addr × Hash) × LStakeE)
  | [] => []
  | (k, e) :: r => if e.revoke ≠ 0 ∧ e.revoke < endT then sweepLStake endT r else (k, e) :: sweepLStake endT r

/-- liquidity UpdateEmbedded as far as the stake entries go; the ZNN / QSR of the epoch are MINTED to the contract by
    descendant Mint calls of amount 0 and token standard zero (`mints` = token, amount, recipient; what is minted to the contract itself arrives
    through a later receive of the contract: + amount, no new liability) -/
def liquidityUpdate (ends : List Int) (mints : List (Tok × Nat × Addr)) : Method Liquidity := fun s c =>
  if c.amount ≠ 0 then none
  else some ({ s with entries := ends.foldl (fun l e => sweepLStake e l) s.entries },
             mints.map fun m => ⟨tokenContract, zeroTok, 0, .mint m.1 m.2.1 m.2.2⟩)

/-- CollectRewardMethod.ReceiveBlock (common.go): the reward deposit of the caller is deleted (reward storage, not part
    of the modelled entries) and minted to the caller by the token contract — descendant Mint calls carrying amount 0;
    `rewards` = the non-zero parts of the deposit ([] = ErrNothingToWithdraw). The contract's balance is not used. -/
def collectReward {σ : Type} (rewards : List (Tok × Nat)) : Method σ := fun s c =>
  if c.amount ≠ 0 then none
  else if rewards.isEmpty then none
  else some (s, rewards.map fun m => ⟨tokenContract, znnTok, 0, .mint m.1 m.2 c.sender⟩)

/-- DonateMethod.ReceiveBlock (common.go): `return nil, nil` — the amount stays with the contract, nothing is recorded -/
def donate {σ : Type} : Method σ := fun s _ => some (s, [])

/-- the reward `Update` of the pillar and sentinel contracts: epoch cursor, reward deposits and history only (C11);
    no entry of the modelled storage is written, no descendant block; `ok` = the method's own outcome -/
def rewardUpdate {σ : Type} (ok : Bool) : Method σ := fun s c =>
  if c.amount ≠ 0 then none else if ok then some (s, []) else none

/-- LegacyRegisterMethod.ReceiveBlock (pillars.go). `slotOk` = a legacy entry exists for the key that signed the call
    (the signature is checked at send time; the slot counter is legacy storage, not part of the modelled entries).
    The ZNN collateral comes with the call exactly like `Register`; the QSR is the constant base amount, consumed from
    the caller's QSR deposit (checkAndConsumeQsr) and burned — NOT the cost of the next normal pillar. -/
def registerLegacyPillar (P : Params) (name : Hash) (producer reward : Addr) (pctBlock pctDelegate : Nat) (nameOk slotOk : Bool) : Method Pillar := fun s c =>
  if !nameOk then none
  else if pctBlock > 100 ∨ pctDelegate > 100 then none
  else if c.token ≠ znnTok ∨ c.amount ≠ P.pillarStakeAmount then none
  else if !slotOk then none
  else if (lookup name s.pillars).isSome then none
  else if !producerAvailable s producer name then none
  else match consumeQsr s.deposits c.sender P.pillarQsrBase with
    | none => none
    | some d' =>
      some ({ s with pillars := put name ⟨c.sender, P.pillarStakeAmount, c.now, 0, producer, reward, ZV.Gen.LegacyPillarType, pctBlock, pctDelegate⟩ s.pillars,
                     producing := put producer name s.producing,
                     deposits := d' },
            [⟨tokenContract, qsrTok, P.pillarQsrBase, .burn⟩])

/-! ### one receive -/

/-- the method a receive is dispatched to, per contract. `other` = a receive of an embedded contract whose storage is
    not modelled (token, accelerator, swap, spork): none of the modelled storage or balances moves. -/
inductive Call where
  | plasma (m : Method Plasma)
  | stake (m : Method Stake)
  | htlc (m : Method Htlc)
  | pillar (m : Method Pillar)
  | sentinel (m : Method Sentinel)
  | liquidity (m : Method Liquidity)
  | bridge (m : Method Bridge)
  | other

def Call.cid : Call → Option CId
  | .plasma _ => some .plasma | .stake _ => some .stake | .htlc _ => some .htlc | .pillar _ => some .pillar
  | .sentinel _ => some .sentinel | .liquidity _ => some .liquidity | .bridge _ => some .bridge | .other => none

/-- one contract receive on the joint state -/
def step (s : JState) (x : Call × Ctx) : JState :=
  match x with
  | (.plasma m, c) => let r := vmStep m s.plasma (s.bal .plasma) c; { s with plasma := r.st, bal := setB s.bal .plasma r.bal }
  | (.stake m, c) => let r := vmStep m s.stake (s.bal .stake) c; { s with stake := r.st, bal := setB s.bal .stake r.bal }
  | (.htlc m, c) => let r := vmStep m s.htlc (s.bal .htlc) c; { s with htlc := r.st, bal := setB s.bal .htlc r.bal }
  | (.pillar m, c) => let r := vmStep m s.pillar (s.bal .pillar) c; { s with pillar := r.st, bal := setB s.bal .pillar r.bal }
  | (.sentinel m, c) => let r := vmStep m s.sentinel (s.bal .sentinel) c; { s with sentinel := r.st, bal := setB s.bal .sentinel r.bal }
  | (.liquidity m, c) => let r := vmStep m s.liquidity (s.bal .liquidity) c; { s with liquidity := r.st, bal := setB s.bal .liquidity r.bal }
  | (.bridge m, c) => let r := vmStep m s.bridge (s.bal .bridge) c; { s with bridge := r.st, bal := setB s.bal .bridge r.bal }
  | (.other, _) => s

/-- a history of receives over all contracts, in the order the momentums confirm them -/
def runJ (s : JState) : List (Call × Ctx) → JState
  | [] => s
  | x :: r => runJ (step s x) r

/-! ### the methods that are modelled, by contract -/

/-- the receive is dispatched to a method that has a definition in Model/Contracts.lean or in this file -/
inductive Call.Modelled (P : Params) (H : HashFn) : Call → Prop where
  | plasma (op : PlasmaOp) : Modelled P H (.plasma (op.method P))
  | plasmaDonate : Modelled P H (.plasma donate)
  | stake (op : StakeOp) : Modelled P H (.stake (op.method P))
  | stakeUpdate (ends : List Int) : Modelled P H (.stake (stakeUpdate ends))
  | stakeCollect (rw : List (Tok × Nat)) : Modelled P H (.stake (collectReward rw))
  | stakeDonate : Modelled P H (.stake donate)
  | htlc (op : HtlcOp) : Modelled P H (.htlc (op.method H))
  | htlcDonate : Modelled P H (.htlc donate)
  | pillar (op : PillarOp) : Modelled P H (.pillar (op.method P))
  | pillarLegacy (name : Hash) (producer reward : Addr) (pb pd : Nat) (nameOk slotOk : Bool) :
      Modelled P H (.pillar (registerLegacyPillar P name producer reward pb pd nameOk slotOk))
  | pillarUpdate (ok : Bool) : Modelled P H (.pillar (rewardUpdate ok))
  | pillarCollect (rw : List (Tok × Nat)) : Modelled P H (.pillar (collectReward rw))
  | pillarDonate : Modelled P H (.pillar donate)
  | sentinel (op : SentinelOp) : Modelled P H (.sentinel (op.method P))
  | sentinelUpdate (ok : Bool) : Modelled P H (.sentinel (rewardUpdate ok))
  | sentinelCollect (rw : List (Tok × Nat)) : Modelled P H (.sentinel (collectReward rw))
  | sentinelDonate : Modelled P H (.sentinel donate)
  | liquidity (op : LiquidityOp) : Modelled P H (.liquidity (op.method P))
  | liquidityUpdate (ends : List Int) (mints : List (Tok × Nat × Addr)) : Modelled P H (.liquidity (liquidityUpdate ends mints))
  | liquidityCollect (rw : List (Tok × Nat)) : Modelled P H (.liquidity (collectReward rw))
  | liquidityDonate : Modelled P H (.liquidity donate)
  | bridge (m : Method Bridge) : Modelled P H (.bridge m)      -- the property asks no backing of the bridge
  | other : Modelled P H .other

/-! ### the same step read off the abstract ledger (Model/Ledger.lean) -/

/-- the balances of contract `a` on the abstract ledger, as the per-contract balance function of `vmStep` -/
def ledgerBal (L : ZV.Ledger.State) (a : ZV.Ledger.Addr) (t : Tok) : Nat := ZV.Ledger.getBal L.bal a t

end ZV.ContractsJoint
