import ZenonVerif.Model.Num
import ZenonVerif.Gen.Consts
/-
L1 — raw key/value layers, tombstone encoding, patches.
Stands for common/db/{memdb,enable_delete,merged,subdb,patch}.go. (skip_deleted.go is no longer on any path of
the store: since 734ff49 deleted entries are skipped by the delete-enabled iterator alone, see `edEntries`.)

Raw values (what memdb / leveldb really hold):   []        = tombstone (deleted)
                                                 0x00 :: v = present with logical value v (v may be empty)
A raw layer is an association list kept sorted by key (memdb and leveldb iterate in bytes.Compare order).
-/
namespace ZV.Kv
open ZV

abbrev Raw := List (Bytes × Bytes)

/-- memdb.Get / leveldb Get: first (only) entry for the key -/
def rget : Raw → Bytes → Option Bytes
  | [], _ => none
  | (k', v) :: t, k => if k' = k then some v else rget t k

def rhas (s : Raw) (k : Bytes) : Bool := (rget s k).isSome

/-- memdb.Put: sorted insert, replacing an existing entry -/
def rput : Raw → Bytes → Bytes → Raw
  | [], k, v => [(k, v)]
  | (k', v') :: t, k, v =>
    if bytesLt k k' then (k, v) :: (k', v') :: t
    else if k = k' then (k, v) :: t
    else (k', v') :: rput t k v

/-- NewIterator(prefix): entries whose key starts with the prefix, in key order -/
def rscan (s : Raw) (p : Bytes) : Raw := s.filter (fun e => isPrefix p e.1)

/-- mergedIterator over two layers: smallest key first, the first layer wins on equal keys.
    (The k-way iterator of merged.go picks the lowest index among equal keys and advances all of them;
    that is the right-nested two-way merge.) -/
def merge2 : Raw → Raw → Raw
  | [], b => b
  | a :: ta, [] => a :: ta
  | (ka, va) :: ta, (kb, vb) :: tb =>
    if bytesLt ka kb then (ka, va) :: merge2 ta ((kb, vb) :: tb)
    else if bytesLt kb ka then (kb, vb) :: merge2 ((ka, va) :: ta) tb
    else (ka, va) :: merge2 ta tb
termination_by a b => a.length + b.length

/-- mergedDB.Get over two layers: the first layer that *has* the key answers (tombstones included) -/
def mget2 (a b : Raw) (k : Bytes) : Option Bytes :=
  match rget a k with
  | some v => some v
  | none => rget b k

/-- enableDeleteDB.Get on a raw answer: empty raw value = not found, else drop the marker byte -/
def edDecode : Option Bytes → Option Bytes
  | none => none
  | some [] => none
  | some (_ :: v) => some v

/-- enableDeleteIterator over a raw scan: `Next` skips the entries whose raw value is empty (a delete is stored as
    the empty raw value), `Value` drops the marker byte. A present key holding the empty value (raw `[0x00]`) is
    listed, with the empty value. -/
def edEntries (s : Raw) : Raw :=
  s.filterMap (fun e => match e.2 with | [] => none | _ :: v => some (e.1, v))

inductive Op where
  | put (k v : Bytes)
  | del (k : Bytes)
  deriving DecidableEq, Repr

def Op.key : Op → Bytes
  | .put k _ => k
  | .del k => k

abbrev Patch := List Op

/-- enableDeleteDB.Put / Delete on the top raw layer -/
def edApplyOp (top : Raw) : Op → Raw
  | .put k v => rput top k (0 :: v)
  | .del k => rput top k []

/-- patchApplier: replay a patch through Put/Delete -/
def edApply (top : Raw) (p : Patch) : Raw := p.foldl edApplyOp top

/-- patchApplierWO (ApplyWithoutOverride): only keys the layer does not hold yet are written;
    Put writes 0x00::v, Delete writes a tombstone -/
def woApplyOp (rb : Raw) : Op → Raw
  | .put k v => if rhas rb k then rb else rput rb k (0 :: v)
  | .del k => if rhas rb k then rb else rput rb k []

def woApply (rb : Raw) (p : Patch) : Raw := p.foldl woApplyOp rb

/-- enableDeleteDB.Changes: dump of the top layer in key order, tombstone ⇒ Delete, else Put of the value -/
def edChanges (top : Raw) : Patch :=
  top.map (fun e => match e.2 with | [] => Op.del e.1 | _ :: v => Op.put e.1 v)

/-- RollbackPatch(db, patch): for every operation of the patch, what the key held in `get` before -/
def undoOp (get : Bytes → Option Bytes) (o : Op) : Op :=
  match get o.key with
  | none => Op.del o.key
  | some v => Op.put o.key v

def rollbackPatch (get : Bytes → Option Bytes) (p : Patch) : Patch := p.map (undoOp get)

/-- strip a prefix of known length from the keys of a scan (subIterator.Key) -/
def stripKeys (n : Nat) (s : Raw) : Raw := s.map (fun e => (e.1.drop n, e.2))

end ZV.Kv
