import ZenonVerif.Gen.Fetcher
/-!
# The block fetcher (protocol/fetcher/fetcher.go) as a transition system  —  C15 (bloat / stall / blame), C16 (nothing unverified kept)

The announce → fetch → queue → import pipeline behind `NewBlockHashesMsg` (`Notify`), `NewBlockMsg` (`Enqueue`) and
`BlocksMsg` (`Filter`).  One event = one wake-up of `loop`'s `select` followed by the head of the next iteration
(expiry of the pending fetches, import pass over the priority queue): `step v s e = head v (handle v s e)`.

What is a parameter:
* the code variant `Variant` (`code` reads the generated fact `FeTimerCountsFetching`: true since the repair of finding FGD1;
  `beforeFGD1` is the tree before that repair, fixed by hand — the negative witnesses of the finding are about it; the other
  two flags are the hand mutations that serve as negative witnesses);
* the chain: `known` (hashes `getBlock` answers) and `height` (`chainHeight()`) are part of the state, changed by a
  successful import (`finish`: the new height is the environment's answer) and by `chain` (any other writer: downloader);
* the verdicts of `validateBlock` / `insertChain` travel with the block (`vOk`, `iOk`): a function of the block.

Representation choices (all checked by the correspondence stream `fetcher`):
* Go maps with unique keys are lists; `f.announced` (hash ↦ slice) is the flat list of announcements in arrival order, so a
  map value is the non-empty group of one hash (no statement of the Go file stores an empty slice: `announces[0]` and
  `rand.Intn(len(announces))` cannot panic); the per-peer counter maps are total functions to `Int` (Go's `int`, a missing
  key reads 0, `delete` at 0 is the same function) — a NEGATIVE value is representable, and reachable for `beforeFGD1`;
* `f.queue` (prque ordered by −float32(height)) and `f.queued` are one list: an entry is either waiting in the priority
  queue (`st = none`) or popped with its import goroutine running (`st = some h`, h = chain height read by that pass).
  The import pass takes every waiting entry of height ≤ height+1 (premise: heights below 2^24, where float32 is exact);
* the goroutine of `insert` and the `done` it sends are one event (`finish`); heights are below 2^63 (`int64(...)`).
-/
namespace ZV.Fetcher
open ZV.Gen

structure Variant where
  /-- the timer case raises `f.announces[origin]` when it stores `f.fetching[hash] = announce` (the repair of finding FGD1;
      `code`: the generated fact) -/
  countFetching : Bool
  /-- `forgetBlock` lowers `f.queues[origin]` (code: yes) -/
  decOnForget : Bool
  /-- `enqueue` tests the distance to the chain height (code: yes) -/
  distTest : Bool
deriving DecidableEq, Repr

/-- the working tree: whether the timer case counts the fetch it stores is what the regenerated fact says -/
def code : Variant := ⟨FeTimerCountsFetching, true, true⟩
/-- the tree BEFORE the repair of finding FGD1 (fixed by hand, independent of the facts): the timer case stored
`f.fetching[hash] = announce` without raising the announcer's counter -/
def beforeFGD1 : Variant := ⟨false, true, true⟩
/-- the repair "count the fetch when it is stored" — what `code` is as long as the fact is true (`timer_case_in_code`) -/
def repaired : Variant := ⟨true, true, true⟩
def noDec : Variant := ⟨true, false, true⟩
def noDist : Variant := ⟨true, true, false⟩

structure Ann where
  hash : Nat
  origin : Nat
  time : Int
deriving DecidableEq, Repr

structure Blk where
  hash : Nat
  height : Nat
  parent : Nat
  vOk : Bool
  iOk : Bool
deriving DecidableEq, Repr

structure Inj where
  origin : Nat
  blk : Blk
  /-- ghost: chain height when `enqueue` accepted it -/
  hAt : Nat
  /-- `none`: waiting in `f.queue`; `some h`: popped by an import pass that read chain height `h`, goroutine running -/
  st : Option Nat
deriving DecidableEq, Repr

structure St where
  now : Int := 0
  announces : Nat → Int := fun _ => 0
  announced : List Ann := []
  fetching : List Ann := []
  queues : Nat → Int := fun _ => 0
  queued : List Inj := []
  known : List Nat := []
  height : Nat := 0
  /-- log: arguments of `dropPeer` (latest first) -/
  dropped : List Nat := []
  /-- log: entries handed to `insertChain` (latest first) -/
  handed : List Inj := []
  /-- log: `broadcastBlock(block, propagate)` (latest first) -/
  bcast : List (Nat × Bool) := []

def dec (f : Nat → Int) (p : Nat) : Nat → Int := fun q => if q = p then f q - 1 else f q
def setc (f : Nat → Int) (p : Nat) (v : Int) : Nat → Int := fun q => if q = p then v else f q

/-- number of entries of peer `p` -/
def cntA (l : List Ann) (p : Nat) : Nat := l.countP (fun a => a.origin == p)
def cntQ (l : List Inj) (p : Nat) : Nat := l.countP (fun i => i.origin == p)

/-- `forgetHash`: every announcement of the hash lowers its origin's counter, the group is deleted; a pending fetch of
the hash lowers its origin's counter too (whether or not it was ever counted) and is deleted. -/
def forgetHash (s : St) (h : Nat) : St :=
  let gone := s.announced.filter (fun a => a.hash == h)
  let a1 : Nat → Int := fun q => s.announces q - (cntA gone q : Nat)
  let keep := s.announced.filter (fun a => !(a.hash == h))
  match s.fetching.find? (fun a => a.hash == h) with
  | some a => { s with announces := dec a1 a.origin, announced := keep, fetching := s.fetching.eraseP (fun a => a.hash == h) }
  | none => { s with announces := a1, announced := keep }

/-- `forgetBlock` -/
def forgetBlock (v : Variant) (s : St) (h : Nat) : St :=
  match s.queued.find? (fun i => i.blk.hash == h) with
  | some i => { s with queues := if v.decOnForget then dec s.queues i.origin else s.queues,
                       queued := s.queued.eraseP (fun i => i.blk.hash == h) }
  | none => s

/-- the `notify` case of `loop` -/
def onNotify (s : St) (p h : Nat) (t : Int) : St :=
  let count := s.announces p + 1
  if count > (FeHashLimit : Int) then s
  else if s.fetching.any (fun a => a.hash == h) then s
  else { s with announces := setc s.announces p count, announced := s.announced ++ [⟨h, p, t⟩] }

/-- `enqueue` -/
def enqueue (v : Variant) (s : St) (p : Nat) (b : Blk) : St :=
  let count := s.queues p + 1
  if count > (FeBlockLimit : Int) then s
  else
    let dist : Int := (b.height : Int) - (s.height : Int)
    if v.distTest && (decide (dist < -(FeMaxUncleDist : Int)) || decide (dist > (FeMaxQueueDist : Int))) then s
    else if s.queued.any (fun i => i.blk.hash == b.hash) then s
    else { s with queues := setc s.queues p count, queued := s.queued ++ [⟨p, b, s.height, none⟩] }

/-- the timer case of `loop` for one key of `f.announced` -/
def timerOne (v : Variant) (pick : Nat) (s : St) (h : Nat) : St :=
  match s.announced.filter (fun a => a.hash == h) with
  | [] => s
  | a0 :: rest =>
    if s.now - a0.time > (FeArriveTimeoutMs : Int) - (FeGatherSlackMs : Int) then
      let a := (a0 :: rest).getD (pick % (rest.length + 1)) a0
      let s1 := forgetHash s h
      if s1.known.contains h then s1
      else { s1 with fetching := s1.fetching ++ [a],
                     announces := if v.countFetching then setc s1.announces a.origin (s1.announces a.origin + 1) else s1.announces }
    else s

def onTimer (v : Variant) (s : St) (pick : Nat) : St :=
  ((s.announced.map (·.hash)).eraseDups).foldl (timerOne v pick) s

/-- the filter case of `loop`: first pass (known blocks of pending fetches are forgotten), second pass (`enqueue` in the
name of the announcer the block is being fetched from) -/
def isExplicit (s : St) (b : Blk) : Bool :=
  s.fetching.any (fun a => a.hash == b.hash) && !(s.queued.any (fun i => i.blk.hash == b.hash))

def deliverTwo (v : Variant) (s : St) (b : Blk) : St :=
  match s.fetching.find? (fun a => a.hash == b.hash) with
  | some a => enqueue v s a.origin b
  | none => s

def onDeliver (v : Variant) (s : St) (bs : List Blk) : St :=
  let s1 := ((bs.filter (fun b => isExplicit s b && s.known.contains b.hash)).map (·.hash)).foldl forgetHash s
  (bs.filter (fun b => isExplicit s b && !(s.known.contains b.hash))).foldl (deliverTwo v) s1

/-- the goroutine of `insert` for the popped entry `i`: parent lookup, validateBlock (+ propagation), insertChain (+ announcement) -/
def goroutine (s : St) (i : Inj) (newHeight : Nat) : St :=
  if !(s.known.contains i.blk.parent) then s
  else if !i.blk.vOk then { s with dropped := i.origin :: s.dropped }
  else if i.blk.iOk then
    { s with handed := i :: s.handed, bcast := (i.blk.hash, false) :: (i.blk.hash, true) :: s.bcast,
             known := i.blk.hash :: s.known, height := newHeight }
  else { s with handed := i :: s.handed, bcast := (i.blk.hash, true) :: s.bcast }

/-- the goroutine of `insert` for the popped entry of hash `h` ends, then the `done` case (deferred send: whatever happened) -/
def onFinish (v : Variant) (s : St) (h newHeight : Nat) : St :=
  match s.queued.find? (fun i => i.blk.hash == h && i.st.isSome) with
  | none => s
  | some i => forgetBlock v (forgetHash (goroutine s i newHeight) h) h

inductive Ev where
  | notify (p h : Nat) (t : Int)
  | enqueue (p : Nat) (b : Blk)
  | timer (pick : Nat)
  | deliver (bs : List Blk)
  | finish (h newHeight : Nat)
  | tick (d : Nat)
  | chain (known : List Nat) (height : Nat)
  /-- a peer disconnects: the fetcher is not told (no entry point); its entries stay until time-out / import -/
  | leave (p : Nat)
deriving Repr

def handle (v : Variant) (s : St) : Ev → St
  | .notify p h t => onNotify s p h t
  | .enqueue p b => enqueue v s p b
  | .timer pick => onTimer v s pick
  | .deliver bs => onDeliver v s bs
  | .finish h nh => onFinish v s h nh
  | .tick d => { s with now := s.now + d }
  | .chain k h => { s with known := k, height := h }
  | .leave _ => s

/-- head of `loop`, first half: pending fetches older than fetchTimeout are forgotten -/
def expire (s : St) : St :=
  ((s.fetching.filter (fun a => decide (s.now - a.time > (FeFetchTimeoutMs : Int)))).map (·.hash)).foldl forgetHash s

/-- `f.queue.PopItem()` returned entry `i`, `f.insert` starts its goroutine: the entry stays in `f.queued`, marked -/
def markPopped (s : St) (i : Inj) (height : Nat) : St :=
  { s with queued := s.queued.map (fun j => if j == i then { j with st := some height } else j) }

/-- head of `loop`, second half: every waiting entry that fits (height ≤ chain height + 1) is popped; too old or known:
forgotten; otherwise `insert` -/
def importOne (v : Variant) (height : Nat) (s : St) (i : Inj) : St :=
  if decide (i.blk.height + FeMaxUncleDist < height) || s.known.contains i.blk.hash then forgetBlock v s i.blk.hash
  else markPopped s i height

def importPass (v : Variant) (s : St) : St :=
  (s.queued.filter (fun i => i.st.isNone && decide (i.blk.height ≤ s.height + 1))).foldl (importOne v s.height) s

def head (v : Variant) (s : St) : St := importPass v (expire s)

def step (v : Variant) (s : St) (e : Ev) : St := head v (handle v s e)

def run (v : Variant) (s : St) (es : List Ev) : St := es.foldl (step v) s

inductive Reach (v : Variant) : St → Prop where
  | init (known : List Nat) (height : Nat) : Reach v { known := known, height := height }
  | step {s : St} (e : Ev) : Reach v s → Reach v (step v s e)

/-- the waiting entries (content of the priority queue) -/
def waiting (s : St) : List Inj := s.queued.filter (fun i => i.st.isNone)
/-- the entries whose import goroutine runs -/
def inflight (s : St) : List Inj := s.queued.filter (fun i => i.st.isSome)

/-! ## known sets of a peer (protocol/peer.go: `lru.New(maxKnownBlocks)`, `MarkBlock` = `Add`) -/

/-- `lru.Cache.Add`: a present key moves to the front; otherwise it is added and the oldest entry evicted when over size -/
def lruAdd (cap : Nat) (l : List Nat) (h : Nat) : List Nat :=
  if l.contains h then h :: l.erase h
  else (h :: l).take cap

end ZV.Fetcher
