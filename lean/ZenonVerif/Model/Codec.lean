import ZenonVerif.Model.Num
import ZenonVerif.Gen.HashFields
/-
L9 `Codec` (part 1) — account blocks, momentums and their hash pre-images.
Stands for chain/nom/account_block.go {AccountBlock, ComputeHash, DescendantBlocksHash},
chain/nom/momentum.go {Momentum, ComputeHash}, chain/nom/momentum_content.go {Bytes, Hash},
common/types {HashHeight.Bytes, AccountHeader.Bytes}, common/bytes.go {Uint64ToBytes, BigIntToBytes, JoinBytes}
and go-ethereum common.LeftPadBytes.  The hash function (SHA3-256, `types.NewHash`) is the parameter `H`.
-/
namespace ZV.Codec
open ZV

/-! ## byte helpers -/

/-- `common.Uint64ToBytes`: 8 bytes, big endian (binary.BigEndian.PutUint64). A Go `uint64` is `n < 2^64`;
    for larger `n` the definition truncates like the Go conversion would. -/
def u64 (n : Nat) : Bytes := beBytes 8 n

/-- little-endian minimal digits of `n` in base 256 (`fuel` ≥ number of digits; `natBytesLE` passes `n`). -/
def natBytesLEAux : Nat → Nat → Bytes
  | 0, _ => []
  | f + 1, n => if n = 0 then [] else (n % 256) :: natBytesLEAux f (n / 256)

/-- `big.Int.Bytes()` of |x| = n: big-endian, no leading zero, empty for 0. -/
def natBytesBE (n : Nat) : Bytes := (natBytesLEAux n n).reverse

/-- go-ethereum `common.LeftPadBytes(slice, l)`: `if l <= len(slice) { return slice }` — a longer slice is
    returned unchanged (NOT truncated); otherwise zeros in front up to length `l`. -/
def leftPad (l : Nat) (s : Bytes) : Bytes :=
  if l ≤ s.length then s else List.replicate (l - s.length) 0 ++ s

/-- `common.BigIntToBytes`: `LeftPadBytes(int.Bytes(), 32)`; `Bytes()` is the absolute value, so the sign
    is dropped here. (A nil `*big.Int` takes the `Big0` branch and gives the same bytes as 0.) -/
def bigIntToBytes (a : Int) : Bytes := leftPad Gen.BigIntPadWidth (natBytesBE a.natAbs)

/-- `common.BytesToBigInt`: `big.Int.SetBytes` = unsigned big-endian value; 0 for the empty slice. -/
def bytesToBigInt (b : Bytes) : Int := (beVal b : Nat)

/-! ## data -/

/-- `types.HashHeight` -/
structure HashHeight where
  hash : Bytes
  height : Nat
deriving DecidableEq, Repr, Inhabited

/-- `types.AccountHeader` (Address + embedded HashHeight) -/
structure AccountHeader where
  address : Bytes
  hash : Bytes
  height : Nat
deriving DecidableEq, Repr, Inhabited

/-- every field of `nom.AccountBlock` except `DescendantBlocks` (kept apart because it is the recursive one)
    and the `producer` cache (a pure function of `PublicKey`, never serialised). Order = Go struct order. -/
structure ABody where
  version : Nat
  chainIdentifier : Nat
  blockType : Nat
  hash : Bytes
  previousHash : Bytes
  height : Nat
  momentumAcknowledged : HashHeight
  address : Bytes
  toAddress : Bytes
  amount : Int
  tokenStandard : Bytes
  fromBlockHash : Bytes
  data : Bytes
  fusedPlasma : Nat
  difficulty : Nat
  nonce : Bytes
  basePlasma : Nat
  totalPlasma : Nat
  changesHash : Bytes
  publicKey : Bytes
  signature : Bytes
deriving DecidableEq, Repr, Inhabited

/-- `nom.AccountBlock` -/
structure Block where
  body : ABody
  desc : List Block
deriving Repr, Inhabited

/-- `nom.Momentum` without the two caches (`Timestamp`, `producer`) -/
structure Momentum where
  version : Nat
  chainIdentifier : Nat
  hash : Bytes
  previousHash : Bytes
  height : Nat
  timestampUnix : Nat
  data : Bytes
  content : List AccountHeader
  changesHash : Bytes
  publicKey : Bytes
  signature : Bytes
deriving DecidableEq, Repr, Inhabited

/-! ## hash pre-images

Each part of a pre-image carries the name of the Go struct member it reads and the encoder expression
around it, exactly in the form the facts generator prints them (`Gen.abHashFields`), so that the order and
the encoders of the model are compared with the working tree by a theorem. -/

structure Part where
  field : String
  enc : String
  bytes : Bytes

/-- `(b *HashHeight) Bytes()` -/
def hashHeightParts (h : HashHeight) : List Part := [
  ⟨"Hash", "_.Bytes()", h.hash⟩,
  ⟨"Height", "common.Uint64ToBytes(_)", u64 h.height⟩]

def joinParts (ps : List Part) : Bytes := (ps.map (·.bytes)).flatten

def hashHeightBytes (h : HashHeight) : Bytes := joinParts (hashHeightParts h)

/-- `(abh *AccountHeader) Bytes()` — note the order address, height, hash -/
def accountHeaderParts (h : AccountHeader) : List Part := [
  ⟨"Address", "_.Bytes()", h.address⟩,
  ⟨"Height", "common.Uint64ToBytes(_)", u64 h.height⟩,
  ⟨"Hash", "_.Bytes()", h.hash⟩]

def accountHeaderBytes (h : AccountHeader) : Bytes := joinParts (accountHeaderParts h)

/-- the `source` of `(ab *AccountBlock) DescendantBlocksHash()`: the stored `Hash` fields of the descendants,
    concatenated (NOT their recomputed hashes) -/
def descSource (ds : List Block) : Bytes := (ds.map (·.body.hash)).flatten

/-- `(mc *MomentumContent) Bytes()` -/
def contentBytes (c : List AccountHeader) : Bytes := (c.map accountHeaderBytes).flatten

/-- the arguments of `common.JoinBytes` in `(ab *AccountBlock) ComputeHash()` -/
def abHashParts (H : Bytes → Bytes) (b : Block) : List Part := [
  ⟨"Version", "common.Uint64ToBytes(_)", u64 b.body.version⟩,
  ⟨"ChainIdentifier", "common.Uint64ToBytes(_)", u64 b.body.chainIdentifier⟩,
  ⟨"BlockType", "common.Uint64ToBytes(_)", u64 b.body.blockType⟩,
  ⟨"PreviousHash", "_.Bytes()", b.body.previousHash⟩,
  ⟨"Height", "common.Uint64ToBytes(_)", u64 b.body.height⟩,
  ⟨"MomentumAcknowledged", "_.Bytes()", hashHeightBytes b.body.momentumAcknowledged⟩,
  ⟨"Address", "_.Bytes()", b.body.address⟩,
  ⟨"ToAddress", "_.Bytes()", b.body.toAddress⟩,
  ⟨"Amount", "common.BigIntToBytes(_)", bigIntToBytes b.body.amount⟩,
  ⟨"TokenStandard", "_.Bytes()", b.body.tokenStandard⟩,
  ⟨"FromBlockHash", "_.Bytes()", b.body.fromBlockHash⟩,
  ⟨"DescendantBlocksHash", "_().Bytes()", H (descSource b.desc)⟩,
  ⟨"Data", "types.NewHash(_).Bytes()", H b.body.data⟩,
  ⟨"FusedPlasma", "common.Uint64ToBytes(_)", u64 b.body.fusedPlasma⟩,
  ⟨"Difficulty", "common.Uint64ToBytes(_)", u64 b.body.difficulty⟩,
  ⟨"Nonce", "_.Data[:]", b.body.nonce⟩]

/-- width of the account-block pre-image without the amount part -/
def abPreimageRestWidth : Nat :=
  8 + 8 + 8 + Gen.HashSize + 8 + (Gen.HashSize + 8) + Gen.AddressSize + Gen.AddressSize +
    Gen.ZtsSize + Gen.HashSize + Gen.HashSize + Gen.HashSize + 8 + 8 + Gen.NonceSize

/-- width of the account-block pre-image when the amount fits the pad width -/
def abPreimageWidth : Nat := abPreimageRestWidth + Gen.BigIntPadWidth

/-- the byte string `(ab *AccountBlock) ComputeHash()` hashes -/
def abPreimage (H : Bytes → Bytes) (b : Block) : Bytes := joinParts (abHashParts H b)

/-- `(ab *AccountBlock) ComputeHash()` -/
def abComputeHash (H : Bytes → Bytes) (b : Block) : Bytes := H (abPreimage H b)

/-- the arguments of `common.JoinBytes` in `(m *Momentum) ComputeHash()` -/
def momentumHashParts (H : Bytes → Bytes) (m : Momentum) : List Part := [
  ⟨"Version", "common.Uint64ToBytes(_)", u64 m.version⟩,
  ⟨"ChainIdentifier", "common.Uint64ToBytes(_)", u64 m.chainIdentifier⟩,
  ⟨"PreviousHash", "_.Bytes()", m.previousHash⟩,
  ⟨"Height", "common.Uint64ToBytes(_)", u64 m.height⟩,
  ⟨"TimestampUnix", "common.Uint64ToBytes(_)", u64 m.timestampUnix⟩,
  ⟨"Data", "types.NewHash(_).Bytes()", H m.data⟩,
  ⟨"Content", "_.Hash().Bytes()", H (contentBytes m.content)⟩,
  ⟨"ChangesHash", "_.Bytes()", m.changesHash⟩]

def momentumPreimage (H : Bytes → Bytes) (m : Momentum) : Bytes := joinParts (momentumHashParts H m)

/-- `(m *Momentum) ComputeHash()` -/
def momentumComputeHash (H : Bytes → Bytes) (m : Momentum) : Bytes := H (momentumPreimage H m)

/-! ## reviewed field coverage -/

/-- which struct field a pre-image member stands for: `DescendantBlocksHash()` is a method that reads
    `DescendantBlocks` (see `reviewed_DescendantBlocksHash`), everything else is the field itself -/
def coveredStructField (member : String) : String :=
  if member = "DescendantBlocksHash" then "DescendantBlocks" else member

/-- reviewed: fields of `nom.AccountBlock` that are NOT in the hash (by reading account_block.go) -/
def abUncoveredFields : List String :=
  ["Hash", "BasePlasma", "TotalPlasma", "ChangesHash", "producer", "PublicKey", "Signature"]

/-- reviewed: fields of `nom.Momentum` that are NOT in the hash; `Timestamp` is the `*time.Time` cache of
    `TimestampUnix` (which is covered). `ChangesHash` IS covered for momentums. -/
def momentumUncoveredFields : List String :=
  ["Hash", "Timestamp", "producer", "PublicKey", "Signature"]

/-- reviewed source of the helpers the pre-image goes through: if one of them changes in the tree the
    comparison theorem in Props/C13.lean fails and the model has to be re-read against the new source -/
def reviewed_DescendantBlocksHash : String := "func (ab *AccountBlock) DescendantBlocksHash() types.Hash { source := make([]byte, 0, types.HashSize*len(ab.DescendantBlocks)) for _, dBlock := range ab.DescendantBlocks { source = append(source, dBlock.Hash.Bytes()...) } return types.NewHash(source) }"
def reviewed_MomentumContentBytes : String := "func (mc *MomentumContent) Bytes() []byte { arr := ([]*types.AccountHeader)(*mc) source := make([]byte, 0, len(arr)*AccountBlockHeaderRawLen) for _, header := range arr { source = append(source, header.Bytes()...) } return source }"
def reviewed_MomentumContentHash : String := "func (mc *MomentumContent) Hash() types.Hash { return types.NewHash(mc.Bytes()) }"
def reviewed_BigIntToBytes : String := "func BigIntToBytes(int *big.Int) []byte { if int == nil { return common.LeftPadBytes(Big0.Bytes(), 32) } else { return common.LeftPadBytes(int.Bytes(), 32) } }"
def reviewed_BytesToBigInt : String := "func BytesToBigInt(bytes []byte) *big.Int { if len(bytes) == 0 { return big.NewInt(0) } else { return new(big.Int).SetBytes(bytes) } }"
def reviewed_Uint64ToBytes : String := "func Uint64ToBytes(height uint64) []byte { bytes := make([]byte, 8) binary.BigEndian.PutUint64(bytes, height) return bytes }"
def reviewed_JoinBytes : String := "func JoinBytes(data ...[]byte) []byte { var newData []byte for _, d := range data { newData = append(newData, d...) } return newData }"
def reviewed_StringToBigInt : String := "func StringToBigInt(str string) *big.Int { x := new(big.Int) _, ok := x.SetString(str, 10) if !ok { x.SetInt64(0) } return x }"
def reviewed_NewHash : String := "func NewHash(data []byte) Hash { h, _ := BytesToHash(crypto.Hash(data)) return h }"

/-! ## well-formedness (what the Go types guarantee) -/

def HashHeight.WF (h : HashHeight) : Prop := h.hash.length = Gen.HashSize ∧ h.height < two64

def AccountHeader.WF (h : AccountHeader) : Prop :=
  h.address.length = Gen.AddressSize ∧ h.hash.length = Gen.HashSize ∧ h.height < two64

/-- widths of the fixed-size Go types of the covered fields: `uint64`, `types.Hash`, `types.Address`,
    `types.ZenonTokenStandard`, `[8]byte` -/
structure ABody.WF (b : ABody) : Prop where
  version : b.version < two64
  chainIdentifier : b.chainIdentifier < two64
  blockType : b.blockType < two64
  hash : b.hash.length = Gen.HashSize
  previousHash : b.previousHash.length = Gen.HashSize
  height : b.height < two64
  momentumAcknowledged : b.momentumAcknowledged.WF
  address : b.address.length = Gen.AddressSize
  toAddress : b.toAddress.length = Gen.AddressSize
  tokenStandard : b.tokenStandard.length = Gen.ZtsSize
  fromBlockHash : b.fromBlockHash.length = Gen.HashSize
  fusedPlasma : b.fusedPlasma < two64
  difficulty : b.difficulty < two64
  nonce : b.nonce.length = Gen.NonceSize

structure Momentum.WF (m : Momentum) : Prop where
  version : m.version < two64
  chainIdentifier : m.chainIdentifier < two64
  hash : m.hash.length = Gen.HashSize
  previousHash : m.previousHash.length = Gen.HashSize
  height : m.height < two64
  timestampUnix : m.timestampUnix < two64
  content : ∀ h ∈ m.content, h.WF
  changesHash : m.changesHash.length = Gen.HashSize

/-! ## what "equal covered fields" and "hash-consistent" mean, recursively through descendants -/

/-- erase the fields the hash does not cover (`BasePlasma`, `TotalPlasma`, `ChangesHash`, `PublicKey`,
    `Signature`); `Hash` is kept: it is what is compared -/
def ABody.strip (b : ABody) : ABody :=
  { b with basePlasma := 0, totalPlasma := 0, changesHash := [], publicKey := [], signature := [] }

mutual
def Block.strip : Block → Block
  | ⟨body, ds⟩ => ⟨body.strip, stripList ds⟩
def stripList : List Block → List Block
  | [] => []
  | d :: ds => d.strip :: stripList ds
end

mutual
/-- the `Hash` field of the block and of every descendant is the computed hash -/
def Block.Consistent (H : Bytes → Bytes) : Block → Prop
  | ⟨body, ds⟩ => body.hash = abComputeHash H ⟨body, ds⟩ ∧ ConsistentList H ds
def ConsistentList (H : Bytes → Bytes) : List Block → Prop
  | [] => True
  | d :: ds => d.Consistent H ∧ ConsistentList H ds
end

mutual
/-- Go type widths at every level, and amounts that are not negative (a negative amount is rejected by
    verifier/account_block.go `amounts()`; `BigIntToBytes` drops the sign) -/
def Block.DeepWF : Block → Prop
  | ⟨body, ds⟩ => body.WF ∧ 0 ≤ body.amount ∧ DeepWFList ds
def DeepWFList : List Block → Prop
  | [] => True
  | d :: ds => d.DeepWF ∧ DeepWFList ds
end

mutual
/-- every byte string handed to the hash function while the hashes of a block and its descendants are
    computed: the inputs on which the hash function has to be collision-free -/
def Block.hashInputs (H : Bytes → Bytes) : Block → List Bytes
  | ⟨body, ds⟩ => abPreimage H ⟨body, ds⟩ :: body.data :: descSource ds :: hashInputsList H ds
def hashInputsList (H : Bytes → Bytes) : List Block → List Bytes
  | [] => []
  | d :: ds => d.hashInputs H ++ hashInputsList H ds
end

def Momentum.hashInputs (H : Bytes → Bytes) (m : Momentum) : List Bytes :=
  [momentumPreimage H m, m.data, contentBytes m.content]

/-- erase what the momentum hash does not cover (`PublicKey`, `Signature`; `Hash` is what is compared) -/
def Momentum.strip (m : Momentum) : Momentum := { m with publicKey := [], signature := [] }

/-- `H` has no collision among the inputs in `S` -/
def InjOn (H : Bytes → Bytes) (S : Bytes → Prop) : Prop := ∀ x y, S x → S y → H x = H y → x = y

end ZV.Codec
