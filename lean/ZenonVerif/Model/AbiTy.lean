/-
C09 — type AST of the embedded-contract ABI (vm/abi/type.go `Type`), shared by the generated fact Gen/Abi.lean and the
decoder model Model/Abi.lean.  `NewType` refuses more than one pair of brackets, so the live ABIs only ever contain
`slice e` / `array n e` with an elementary `e`; the AST (and the decoder model) is nevertheless fully recursive.
-/
namespace ZV.Abi

inductive Ty where
  | uint (bits : Nat)          -- UintTy; Kind = Uint8/16/32/64 for those widths, *big.Int otherwise
  | int (bits : Nat)           -- IntTy;  Kind = Int8/16/32/64 for those widths, *big.Int otherwise
  | bool
  | string
  | address
  | tokenStandard
  | hash
  | bytes
  | fixedBytes (n : Nat)
  | slice (e : Ty)
  | array (n : Nat) (e : Ty)
  deriving Repr, DecidableEq, Inhabited

end ZV.Abi
