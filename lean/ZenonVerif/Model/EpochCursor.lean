import ZenonVerif.Gen.Rewards
import ZenonVerif.Gen.RewardsNode
/-
L5 (part) — the epoch cursor shared by the reward contracts, and the reward deposits. Core Lean only.

Stands for vm/embedded/implementation:
  common.go    CanPerformUpdate / checkAndPerformUpdate (at most one Update every UpdateMinNumMomentums momentums),
               CanPerformEpochUpdate / checkAndPerformUpdateEpoch (the cursor `LastEpochUpdate.LastEpoch`, −1 initially,
               advanced by exactly one when the next epoch has ended `RewardTimeLimit` seconds before the frontier momentum),
               addReward (RewardDeposit), CollectRewardMethod.ReceiveBlock
  pillars.go   updatePillarRewards      ┐
  stake.go     updateStakeRewards       ├ `for { advance-or-return; reward the epoch the cursor now names }`
  sentinel.go  updateSentinelRewards    ┘
  liquidity.go updateLiquidityRewards (origin and accelerator tables): the same loop, with the `len(result) >=
               MaxEpochsPerUpdate` test evaluated AFTER `checkAndPerformUpdateEpoch` has already advanced and saved the cursor
               updateLiquidityStakeRewards (bridge&liquidity spork onwards): one step, no loop

The amounts credited per epoch are not computed here (Model/Rewards.lean does the arithmetic); this module is about
which epochs are rewarded, when, how often, and what a deposit can be turned into.

Time is unix seconds as `Int` (Go: `time.Time.Unix()`, int64; the ticker multiplies a `time.Duration` by the epoch number,
which stays in range for 292 years of epochs — not modelled). `uint64(LastEpoch + 1)` is the identity because the cursor
never drops below −1 (theorem `cursor_ge_neg_one`).
-/
namespace ZV.EpochCursor

/-- the chain/configuration parameters the cursor depends on -/
structure Cfg where
  /-- timestamp of the genesis momentum = start of epoch 0 (`consensus.NewConsensus`: `common.NewTicker(genesis, EpochDuration)`) -/
  genesis   : Int
  /-- `consensus.EpochDuration` in seconds -/
  epochSec  : Int
  /-- `constants.RewardTimeLimit` -/
  rtl       : Int
  /-- `constants.UpdateMinNumMomentums` -/
  updMin    : Nat
  /-- `constants.MaxEpochsPerUpdate` — compared with a number of *blocks* (two per epoch) in `updateLiquidityRewards` -/
  maxBlocks : Nat
  /-- a ticker with a non-positive interval does not exist in a running node (`ToTick` divides by it) -/
  epochSec_pos : 0 < epochSec

/-- the live configuration: every parameter is a generated constant of the tree -/
def Cfg.live (genesis : Int) : Cfg :=
  ⟨genesis, Gen.EpochDurationSec, Gen.RewardTimeLimit, Gen.UpdateMinNumMomentums, Gen.MaxEpochsPerUpdate, by decide⟩

/-- second component of `EpochTicker().ToTime(e)`: the (exclusive) end of epoch `e` -/
def epochEnd (c : Cfg) (e : Int) : Int := c.genesis + c.epochSec * (e + 1)

/-- `CanPerformEpochUpdate` for the epoch after `cursor` at a frontier momentum with timestamp `ts`:
    `frontier.Unix() < end(cursor+1) + RewardTimeLimit → ErrEpochUpdateTooRecent` -/
def tooRecent (c : Cfg) (cursor ts : Int) : Bool := decide (ts < epochEnd c (cursor + 1) + c.rtl)

/-- `checkAndPerformUpdateEpoch`: `none` = ErrEpochUpdateTooRecent, `some cursor'` = the cursor was advanced (and saved) -/
def checkAndPerformUpdateEpoch (c : Cfg) (cursor ts : Int) : Option Int :=
  if tooRecent c cursor ts then none else some (cursor + 1)

/-- well-founded measure of the catch-up loops: seconds by which the next epoch is overdue, plus one epoch -/
def overdue (c : Cfg) (cursor ts : Int) : Nat := (ts - c.rtl - epochEnd c (cursor + 1) + c.epochSec).toNat

theorem overdue_decreases (c : Cfg) (cursor ts : Int) (h : tooRecent c cursor ts = false) :
    overdue c (cursor + 1) ts < overdue c cursor ts := by
  have hp := c.epochSec_pos
  unfold overdue
  simp only [tooRecent, decide_eq_false_iff_not, Int.not_lt] at h
  have e : epochEnd c (cursor + 1 + 1) = epochEnd c (cursor + 1) + c.epochSec := by
    unfold epochEnd; rw [Int.mul_add, Int.mul_add, Int.mul_add]; omega
  rw [e]
  omega

/-- `updatePillarRewards` / `updateStakeRewards` / `updateSentinelRewards`:
    `for { if checkAndPerformUpdateEpoch = TooRecent { return }; compute…RewardsForEpoch(LastEpoch) }`.
    Result: (final cursor, epochs rewarded in order). -/
def catchUp (c : Cfg) (ts : Int) (cursor : Int) : Int × List Int :=
  if h : tooRecent c cursor ts then (cursor, [])
  else
    let r := catchUp c ts (cursor + 1)
    (r.1, (cursor + 1) :: r.2)
termination_by overdue c cursor ts
decreasing_by exact overdue_decreases c cursor ts (by simpa using h)

/-- `updateLiquidityRewards` (origin table): `blocks` = `len(result)` so far; every rewarded epoch appends two mint blocks.
    The condition `err == ErrEpochUpdateTooRecent || len(result) >= MaxEpochsPerUpdate` is tested after
    `checkAndPerformUpdateEpoch` ran: when the cap stops the loop the cursor has already moved to an epoch that gets nothing. -/
def liqOrigin (c : Cfg) (ts : Int) (cursor : Int) (blocks : Nat) : Int × List Int :=
  if h : tooRecent c cursor ts then (cursor, [])
  else if c.maxBlocks ≤ blocks then (cursor + 1, [])
  else
    let r := liqOrigin c ts (cursor + 1) (blocks + 2)
    (r.1, (cursor + 1) :: r.2)
termination_by overdue c cursor ts
decreasing_by exact overdue_decreases c cursor ts (by simpa using h)

/-- `updateLiquidityStakeRewards` (bridge&liquidity spork onwards): at most one epoch per call -/
def liqOne (c : Cfg) (ts : Int) (cursor : Int) : Int × List Int :=
  match checkAndPerformUpdateEpoch c cursor ts with
  | none => (cursor, [])
  | some cur => (cur, [cur])

/-- which `update*Rewards` a contract runs -/
inductive Variant where
  | loop        -- pillar, stake, sentinel
  | liqOrigin   -- liquidity before the bridge&liquidity spork
  | liqOne      -- liquidity from the bridge&liquidity spork
  deriving DecidableEq, Repr

def advance (c : Cfg) (v : Variant) (ts cursor : Int) : Int × List Int :=
  match v with
  | .loop => catchUp c ts cursor
  | .liqOrigin => liqOrigin c ts cursor 0
  | .liqOne => liqOne c ts cursor

abbrev Addr := String

/-- (znn, qsr) of a `RewardDeposit`; ABI type uint256, never negative -/
structure Coins where
  znn : Nat
  qsr : Nat
  deriving DecidableEq, Repr

instance : Add Coins := ⟨fun a b => ⟨a.znn + b.znn, a.qsr + b.qsr⟩⟩
def Coins.zero : Coins := ⟨0, 0⟩

/-- the reward-related storage of one contract -/
structure CState where
  /-- `LastEpochUpdate.LastEpoch` (−1 when the key is absent) -/
  cursor     : Int
  /-- `LastUpdateVariable.Height` (0 when absent) -/
  lastUpdate : Nat
  /-- `RewardDeposit` per address (zero when absent) -/
  dep        : Addr → Coins

def CState.init : CState := ⟨-1, 0, fun _ => Coins.zero⟩

/-- `Update` of a reward contract received with frontier momentum (height, ts):
    `checkAndPerformUpdate` (`lastUpdate + UpdateMinNumMomentums <= height`, else ErrUpdateTooRecent = `none`: the VM
    resets every change), then the contract's `update*Rewards`. Result: new state and the epochs rewarded, in order. -/
def update (c : Cfg) (v : Variant) (s : CState) (height : Nat) (ts : Int) : Option (CState × List Int) :=
  if s.lastUpdate + c.updMin ≤ height then
    let r := advance c v ts s.cursor
    some ({ s with cursor := r.1, lastUpdate := height }, r.2)
  else none

/-- `addReward`: the deposit of `a` grows by `x` -/
def credit (s : CState) (a : Addr) (x : Coins) : CState :=
  { s with dep := fun b => if b = a then s.dep a + x else s.dep b }

/-- a mint request to the token contract: (is QSR, amount, beneficiary) -/
structure Mint where
  qsr    : Bool
  amount : Nat
  to     : Addr
  deriving DecidableEq, Repr

/-- `CollectRewardMethod.ReceiveBlock` for caller `a`: `none` = ErrNothingToWithdraw; otherwise one mint request per
    coin with a positive deposit, for exactly the deposit, and the deposit entry is deleted. -/
def collect (s : CState) (a : Addr) : Option (List Mint × CState) :=
  let d := s.dep a
  if d.znn = 0 ∧ d.qsr = 0 then none
  else
    let mz := if 0 < d.znn then [Mint.mk false d.znn a] else []
    let mq := if 0 < d.qsr then [Mint.mk true d.qsr a] else []
    some (mz ++ mq, { s with dep := fun b => if b = a then Coins.zero else s.dep b })

/-- what a list of mint requests pays to `a` -/
def paid (ms : List Mint) (a : Addr) : Coins :=
  ms.foldl (fun acc m => if m.to = a then (if m.qsr then ⟨acc.znn, acc.qsr + m.amount⟩ else ⟨acc.znn + m.amount, acc.qsr⟩) else acc) Coins.zero

/-! ### traces: what can happen to one contract -/

/-- one received call -/
inductive Op where
  | update (height : Nat) (ts : Int)
  | credit (a : Addr) (x : Coins)     -- issued by the reward computation of an epoch
  | collect (a : Addr)

/-- observable outcome of a call -/
inductive Out where
  | rewarded (epochs : List Int)
  | refused
  | credited
  | minted (ms : List Mint)

def step (c : Cfg) (v : Variant) (s : CState) : Op → CState × Out
  | .update h ts =>
    match update c v s h ts with
    | some (s', es) => (s', .rewarded es)
    | none => (s, .refused)
  | .credit a x => (credit s a x, .credited)
  | .collect a =>
    match collect s a with
    | some (ms, s') => (s', .minted ms)
    | none => (s, .refused)

def run (c : Cfg) (v : Variant) (s : CState) : List Op → CState × List Out
  | [] => (s, [])
  | o :: os =>
    let r := step c v s o
    let rest := run c v r.1 os
    (rest.1, r.2 :: rest.2)

/-- all epochs rewarded along a trace, in order -/
def rewardedOf : List Out → List Int
  | [] => []
  | .rewarded es :: os => es ++ rewardedOf os
  | _ :: os => rewardedOf os

/-- everything minted to `a` along a trace -/
def mintedOf (a : Addr) : List Out → Coins
  | [] => Coins.zero
  | .minted ms :: os => paid ms a + mintedOf a os
  | _ :: os => mintedOf a os

/-- everything credited to `a` along a list of calls -/
def creditedOf (a : Addr) : List Op → Coins
  | [] => Coins.zero
  | .credit b x :: os => (if b = a then x else Coins.zero) + creditedOf a os
  | _ :: os => creditedOf a os

end ZV.EpochCursor
