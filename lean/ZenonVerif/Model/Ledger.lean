/-
L3/L4/L5(token) — abstract dual ledger: balances, confirmed sends, receive markers, the token contract.
Stands for vm/vm.go {applySend, applyReceive, generateEmbeddedReceive, rollbackEmbedded}, vm/vm_context/balance.go,
verifier/account_block.go {amounts, fromHash, sequencer}, chain/momentum/ledger_store.go AddAccountBlockTransaction
(pending / received bookkeeping) and vm/embedded/implementation/token.go {Issue, Mint, Burn, UpdateToken}.
Hashes, addresses and token standards are opaque names; amounts are unbounded naturals (Go *big.Int).
Methods of the other embedded contracts are parameters: their observed outcome (status, descendant sends) is an
input of `crecv`, which only checks what the VM skeleton enforces (funding of every descendant, exact refund).
-/
namespace ZV.Ledger

/-- addresses, token standards and block hashes are opaque identifiers (interned by the driver).
    Embedded contract addresses are the identifiers below `embeddedBound` (the real test is the address prefix byte). -/
abbrev Addr := Nat
abbrev Tok := Nat
abbrev Hash := Nat

def embeddedBound : Nat := 16
def tokenContract : Addr := 0
def zeroTok : Tok := 0
def znnTok : Tok := 1
def qsrTok : Tok := 2
def isEmbedded (a : Addr) : Bool := a < embeddedBound

/-- decoded call data of a send addressed to the token contract -/
inductive TokCall where
  | none                                                     -- not a token-contract call
  | issue (total max : Nat) (mintable burnable : Bool)
  | mint (tok : Tok) (amt : Nat) (to : Addr)
  | burn
  | update (tok : Tok) (owner : Addr) (mintable burnable : Bool)
  deriving DecidableEq, Repr

structure Send where
  hash : Hash
  src : Addr
  dst : Addr
  tok : Tok
  amt : Nat
  call : TokCall
  deriving DecidableEq, Repr

structure TokInfo where
  supply : Nat
  max : Nat
  mintable : Bool
  burnable : Bool
  owner : Addr
  deriving DecidableEq, Repr

/-- a descendant send emitted by a contract receive: destination, token, amount, hash, decoded token call -/
structure Desc where
  dst : Addr
  tok : Tok
  amt : Nat
  hash : Hash
  call : TokCall
  deriving DecidableEq, Repr

structure State where
  bal : List ((Addr × Tok) × Nat)      -- absent = 0; at most one entry per (address, token)
  sends : List Send                    -- every confirmed send block, in confirmation order
  recv : List (Addr × Hash)            -- receive markers: (receiving account, hash of the send)
  toks : List (Tok × TokInfo)          -- token contract storage
  gate : Bool                          -- frontier height ≥ ReceiverMismatchEnforcementHeight
  deriving DecidableEq, Repr

def State.init (gate : Bool) : State := ⟨[], [], [], [], gate⟩

def getBal (b : List ((Addr × Tok) × Nat)) (a : Addr) (t : Tok) : Nat :=
  match b with
  | [] => 0
  | (k, v) :: r => if k = (a, t) then v else getBal r a t

def setBal (b : List ((Addr × Tok) × Nat)) (a : Addr) (t : Tok) (v : Nat) : List ((Addr × Tok) × Nat) :=
  match b with
  | [] => [((a, t), v)]
  | (k, w) :: r => if k = (a, t) then (k, v) :: r else (k, w) :: setBal r a t v

def getTok (l : List (Tok × TokInfo)) (t : Tok) : Option TokInfo :=
  match l with
  | [] => none
  | (k, v) :: r => if k = t then some v else getTok r t

def setTok (l : List (Tok × TokInfo)) (t : Tok) (i : TokInfo) : List (Tok × TokInfo) :=
  match l with
  | [] => [(t, i)]
  | (k, v) :: r => if k = t then (k, i) :: r else (k, v) :: setTok r t i

def findSend (l : List Send) (h : Hash) : Option Send :=
  match l with
  | [] => none
  | s :: r => if s.hash = h then some s else findSend r h

def State.credit (s : State) (a : Addr) (t : Tok) (n : Nat) : State :=
  { s with bal := setBal s.bal a t (getBal s.bal a t + n) }

def State.debit (s : State) (a : Addr) (t : Tok) (n : Nat) : State :=
  { s with bal := setBal s.bal a t (getBal s.bal a t - n) }

/-- received by anybody -/
def State.isReceived (s : State) (h : Hash) : Bool := s.recv.any (fun m => m.2 == h)

/-- confirmed sends nobody has received yet -/
def State.unreceived (s : State) : List Send := s.sends.filter (fun x => !s.isReceived x.hash)

inductive Err where
  | embeddedUser | ztsMissing | funds | fromMissing | receiverMismatch | alreadyReceived | notNext
  | badStatus | badRefund | unfunded | tokenPredicts (status : Nat) (n : Nat)
  deriving DecidableEq, Repr

/-- applySend on any account: funds check then debit; the send becomes a confirmed, unreceived send -/
def applySend (s : State) (src dst : Addr) (tok : Tok) (amt : Nat) (h : Hash) (call : TokCall) : Except Err State :=
  if amt > 0 && tok == zeroTok then .error .ztsMissing
  else if tok != zeroTok && getBal s.bal src tok < amt then .error .funds
  else .ok { (s.debit src tok amt) with sends := s.sends ++ [⟨h, src, dst, tok, amt, call⟩] }

/-- user send block -/
def usend (s : State) (src dst : Addr) (tok : Tok) (amt : Nat) (h : Hash) (call : TokCall) : Except Err State :=
  if isEmbedded src then .error .embeddedUser else applySend s src dst tok amt h call

/-- checks of `fromHash` shared by user and contract receives -/
def checkFrom (s : State) (a : Addr) (h : Hash) : Except Err Send :=
  match findSend s.sends h with
  | none => .error .fromMissing
  | some snd =>
    if s.gate && snd.dst != a then .error .receiverMismatch
    else if s.recv.contains (a, h) then .error .alreadyReceived
    else .ok snd

/-- user receive block: applyReceive -/
def urecv (s : State) (a : Addr) (h : Hash) : Except Err State :=
  if isEmbedded a then .error .embeddedUser
  else do
    let snd ← checkFrom s a h
    pure { (s.credit a snd.tok snd.amt) with recv := (a, h) :: s.recv }

/-- the contract inbox: first confirmed send to `c` that `c` has not received -/
def nextInLine (s : State) (c : Addr) : Option Send :=
  s.sends.find? (fun x => x.dst == c && !s.recv.contains (c, x.hash))

def applyDescs (s : State) (c : Addr) : List Desc → Except Err State
  | [] => .ok s
  | d :: ds => do
    let s' ← (match applySend s c d.dst d.tok d.amt d.hash d.call with
              | .ok x => .ok x
              | .error _ => .error Err.unfunded)
    applyDescs s' c ds

def refundOf (snd : Send) : List (Addr × Tok × Nat) :=
  if snd.amt > 0 then [(snd.src, snd.tok, snd.amt)] else []

def descShape (ds : List Desc) : List (Addr × Tok × Nat) := ds.map (fun d => (d.dst, d.tok, d.amt))

/-- outcome of a token-contract method: `none` = the method fails (refund), else new storage, amount minted into /
    burned from the contract's own balance, and the descendant sends (destination, token, amount) -/
structure TokOutcome where
  toks : List (Tok × TokInfo)
  mintTok : Tok
  mint : Nat
  burn : Nat
  descs : List (Addr × Tok × Nat)

def tokenMethod (toks : List (Tok × TokInfo)) (snd : Send) (newTok : Tok) : Option TokOutcome :=
  match snd.call with
  | .none => none
  | .issue total max mintable burnable =>
    match getTok toks newTok with
    | some _ => none
    | none => some ⟨setTok toks newTok ⟨total, max, mintable, burnable, snd.src⟩, newTok, total, 0, [(snd.src, newTok, total)]⟩
  | .mint tok amt to =>
    match getTok toks tok with
    | none => none
    | some i =>
      if !i.mintable then none
      else if i.max - i.supply < amt then none
      else if (tok == znnTok || tok == qsrTok) && !isEmbedded snd.src then none
      else if !(tok == znnTok || tok == qsrTok) && i.owner != snd.src then none
      else some ⟨setTok toks tok { i with supply := i.supply + amt }, tok, amt, 0, [(to, tok, amt)]⟩
  | .burn =>
    match getTok toks snd.tok with
    | none => none
    | some i =>
      if !i.burnable && i.owner != snd.src then none
      else some ⟨setTok toks snd.tok { i with supply := i.supply - snd.amt, max := if i.mintable then i.max else i.max - snd.amt },
                 snd.tok, 0, snd.amt, []⟩
  | .update tok owner mintable burnable =>
    match getTok toks tok with
    | none => none
    | some i =>
      if i.owner != snd.src then none
      else if i.mintable != mintable && !i.mintable then none
      else
        let i' := if i.mintable != mintable then { i with mintable := mintable, max := i.supply } else i
        some ⟨setTok toks tok { i' with owner := owner, burnable := burnable }, tok, 0, 0, []⟩

/-- contract receive block (generateEmbeddedReceive / rollbackEmbedded / finalizeEmbedded).
    `status` 1 = applied, 2 = failed and refunded; `descs` = observed descendant sends. -/
def crecv (s : State) (c : Addr) (h : Hash) (status : Nat) (descs : List Desc) : Except Err State :=
  match nextInLine s c with
  | none => .error .notNext
  | some nxt =>
    if nxt.hash != h then .error .notNext
    else do
      let snd ← checkFrom s c h
      let s1 := { (s.credit c snd.tok snd.amt) with recv := (c, h) :: s.recv }
      if status != 1 && status != 2 then .error .badStatus
      else if c == tokenContract then
        let newTok := match descs with | d :: _ => d.tok | [] => zeroTok
        match tokenMethod s1.toks snd newTok with
        | none =>
          if status != 2 || descShape descs != refundOf snd then .error (.tokenPredicts 2 (refundOf snd).length)
          else applyDescs s1 c descs
        | some out =>
          -- a descendant addressed to an embedded contract must also pass that contract's send-time validation
          -- (method lookup, ValidateSendBlock), which is outside this model: the whole call may then fail and refund
          if status == 2 && descShape descs == refundOf snd && out.descs.any (fun d => isEmbedded d.1) then
            applyDescs s1 c descs
          else if status != 1 || descShape descs != out.descs then .error (.tokenPredicts 1 out.descs.length)
          else
            let s2 := { (s1.credit c out.mintTok out.mint) with toks := out.toks }
            if getBal s2.bal c out.mintTok < out.burn then .error .unfunded
            else applyDescs (s2.debit c out.mintTok out.burn) c descs
      else if status == 2 then
        if descShape descs != refundOf snd then .error .badRefund else applyDescs s1 c descs
      else applyDescs s1 c descs

def nonZeroBalances (s : State) : Nat := (s.bal.filter (fun e => e.2 != 0)).length

end ZV.Ledger
