import ZenonVerif.Model.CodecRLP
/-
L9 `Codec` (part 5) — the TYPED layer of go-ethereum's RLP decoder (rlp/decode.go, v1.10.22, reflection over the Go structs)
for `nom.AccountBlock`: from the generic item tree (`rlpDec`, part 4) to a block.
  struct                      a list with EXACTLY as many elements as the struct has exported fields without `rlp:"-"`
                              ("too few elements" / "input list has too many elements")
  uint64                      a byte string of at most 8 bytes without a leading zero byte (ErrCanonInt, errUintOverflow)
  *big.Int                    a byte string without a leading zero byte, any length
  [N]byte (Hash, Address,     a byte string of exactly N bytes ("input string too long / too short")
   ZenonTokenStandard, nonce)
  []byte, ed25519.PublicKey   any byte string
  Nonce                       struct with one [8]byte field
  HashHeight                  struct {Hash, Height}
  []*AccountBlock             a list of blocks
A list where a string is expected (or the reverse) is an error. `none` = error.
-/
namespace ZV.Codec
open ZV

/-- decodeUint with 64 bits -/
def rU64 : RItem → Option Nat
  | .str b => if b.length ≤ 8 ∧ b.headD 1 ≠ 0 then some (beVal b) else none
  | .list _ => none

/-- decodeBigInt -/
def rBig : RItem → Option Int
  | .str b => if b.headD 1 ≠ 0 then some ((beVal b : Nat) : Int) else none
  | .list _ => none

/-- decodeByteArray -/
def rArr (n : Nat) : RItem → Option Bytes
  | .str b => if b.length = n then some b else none
  | .list _ => none

/-- decodeByteSlice -/
def rBytes : RItem → Option Bytes
  | .str b => some b
  | .list _ => none

def rHashHeight : RItem → Option HashHeight
  | .list [h, ht] => do
    let h ← rArr Gen.HashSize h
    let ht ← rU64 ht
    pure ⟨h, ht⟩
  | _ => none

def rNonce : RItem → Option Bytes
  | .list [n] => rArr Gen.NonceSize n
  | _ => none

/-- the 21 non-recursive fields; the descendant list is handed back undecoded -/
def unrlpBody : List RItem → Option (ABody × RItem)
  | [v, ci, bt, h, ph, ht, ma, a, ta, am, ts, fh, desc, d, fp, df, n, bp, tp, ch, pk, sg] => do
    let v ← rU64 v; let ci ← rU64 ci; let bt ← rU64 bt
    let h ← rArr Gen.HashSize h; let ph ← rArr Gen.HashSize ph; let ht ← rU64 ht
    let ma ← rHashHeight ma
    let a ← rArr Gen.AddressSize a; let ta ← rArr Gen.AddressSize ta
    let am ← rBig am
    let ts ← rArr Gen.ZtsSize ts; let fh ← rArr Gen.HashSize fh
    let d ← rBytes d; let fp ← rU64 fp; let df ← rU64 df; let n ← rNonce n
    let bp ← rU64 bp; let tp ← rU64 tp; let ch ← rArr Gen.HashSize ch
    let pk ← rBytes pk; let sg ← rBytes sg
    pure ({ version := v, chainIdentifier := ci, blockType := bt, hash := h, previousHash := ph, height := ht,
            momentumAcknowledged := ma, address := a, toAddress := ta, amount := am, tokenStandard := ts,
            fromBlockHash := fh, data := d, fusedPlasma := fp, difficulty := df, nonce := n, basePlasma := bp,
            totalPlasma := tp, changesHash := ch, publicKey := pk, signature := sg }, desc)
  | _ => none

mutual
/-- `rlp.DecodeBytes(data, *nom.AccountBlock)` after the generic split; `fuel` bounds the nesting depth -/
def unrlpBlock : Nat → RItem → Option Block
  | 0, _ => none
  | f + 1, .list items =>
    match unrlpBody items with
    | some (body, .list desc) => (unrlpBlocks f desc).map (fun ds => ⟨body, ds⟩)
    | _ => none
  | _ + 1, .str _ => none
def unrlpBlocks : Nat → List RItem → Option (List Block)
  | _, [] => some []
  | 0, _ :: _ => none
  | f + 1, x :: xs =>
    match unrlpBlock f x, unrlpBlocks f xs with
    | some b, some bs => some (b :: bs)
    | _, _ => none
end

mutual
/-- nesting depth + width bound used as fuel -/
def Block.rlpFuel : Block → Nat
  | ⟨_, ds⟩ => rlpFuelList ds + 1
def rlpFuelList : List Block → Nat
  | [] => 0
  | d :: ds => d.rlpFuel + rlpFuelList ds + 1
end

/-- typed decode of the bytes: generic split, then the typed layer -/
def rlpDecodeBlock (data : Bytes) : Option Block :=
  match rlpDec data with
  | some x => unrlpBlock (2 * data.length + 2) x
  | none => none

/-- what the Go types guarantee for every field that travels (all fields but the caches) -/
structure ABody.RlpWF (b : ABody) : Prop where
  wf : b.WF
  amount : 0 ≤ b.amount
  basePlasma : b.basePlasma < two64
  totalPlasma : b.totalPlasma < two64
  changesHash : b.changesHash.length = Gen.HashSize

mutual
def Block.RlpWF : Block → Prop
  | ⟨body, ds⟩ => body.RlpWF ∧ RlpWFList ds
def RlpWFList : List Block → Prop
  | [] => True
  | d :: ds => d.RlpWF ∧ RlpWFList ds
end

end ZV.Codec
