import ZenonVerif.Model.Versioned
import ZenonVerif.Gen.VdbCache
/-
L2 — the versioned store WITH its two-level rollback-overlay cache (ldbManager of common/db/versioned_db.go).

`CLdb` = the cache-free manager `Ldb` (Model/Versioned.lean) plus
  * a heap of overlay objects (`rawChanges`: Go pointers to memdbs; indices are append-only, the objects are MUTABLE:
    `Get` extends a cached object IN PLACE with `ApplyWithoutOverride` and files the same pointer again),
  * the two caches `l1Cache` / `l2Cache`: identifier ↦ `*rollbackCache{frontier, raw}` = (tag, heap index),
  * the views handed out so far: (identifier, the leveldb snapshot taken at hand-out, heap index). A view keeps the POINTER
    to the overlay object together with its OLD snapshot, so it sees every later in-place extension of the object.

The LRU replacement policy is not modelled as a policy: `CLdb.evict` may remove any entry of any level at any time, and the
theorems quantify over all interleavings of evictions (capacities are irrelevant then; recency order too).
`Cfg` carries what the AST of the working tree says about `Pop` (does it purge l1 / l2: `Gen.VdbPopPurgesL1/L2`) and the
level boundary `Gen.maximumCacheHeightDifference`; the variant with `purgeL1 = purgeL2 = false` is the code before fix 961d8c2.
-/
namespace ZV.VersionedCache
open ZV ZV.Kv ZV.Versioned

structure Cfg where
  purgeL1 : Bool
  purgeL2 : Bool
  maxDiff : Nat
  deriving DecidableEq, Repr

/-- the configuration of the code in the working tree -/
def Cfg.code : Cfg := ⟨Gen.VdbPopPurgesL1, Gen.VdbPopPurgesL2, Gen.maximumCacheHeightDifference⟩

/-- `lru` entry: key `id`, value `&rollbackCache{frontier: tag, raw: heap[obj]}` -/
structure CEnt where
  id : Id
  tag : Id
  obj : Nat
  deriving DecidableEq, Repr

/-- a historical view handed out by `Get`: merged(heap[obj], snap) under the delete-enabled wrapper -/
structure CView where
  id : Id
  snap : Raw
  obj : Nat
  deriving DecidableEq, Repr

structure CLdb where
  ldb : Ldb := Ldb.empty
  heap : List Raw := []
  l1 : List CEnt := []
  l2 : List CEnt := []
  views : List CView := []
  stopped : Bool := false
  deriving DecidableEq, Repr

def CLdb.empty : CLdb := {}

/-- what `Get` returns: like `Root`, but a historical root holds a POINTER to its overlay object -/
inductive CRoot where
  | mem
  | front (base : Raw)
  | hist (obj : Nat) (base : Raw)
  deriving DecidableEq, Repr

def objAt (heap : List Raw) (o : Nat) : Raw := heap[o]?.getD []

/-- dereference the overlay pointer in the heap of the moment of the READ (not of the hand-out) -/
def CRoot.resolve (heap : List Raw) : CRoot → Root
  | .mem => Root.mem
  | .front b => Root.front b
  | .hist o b => Root.hist (objAt heap o) b

def CView.root (v : CView) : CRoot := CRoot.hist v.obj v.snap

/-- lru.Cache.Get (the recency update is irrelevant: eviction is nondeterministic) -/
def lookupC : List CEnt → Id → Option CEnt
  | [], _ => none
  | e :: t, i => if e.id = i then some e else lookupC t i

/-- lru.Cache.Add: the value of an existing key is replaced -/
def cacheAdd (l : List CEnt) (e : CEnt) : List CEnt := e :: l.filter (fun x => x.id ≠ e.id)

def cacheEvict (l : List CEnt) (i : Id) : List CEnt := l.filter (fun x => x.id ≠ i)

/-- absDiff of versioned_db.go -/
def absDiff (x y : Nat) : Nat := if x < y then y - x else x - y

/-- the cached part of `Get`, for an identifier that is on the chain below the frontier: l1 hit, else l2 hit, else a fresh
    object; extend the object in place by the undo patches of heights tag.height+1 … frontier height; file it under the
    frontier identifier in l1 or l2 (the other level is left as it is); hand out (object pointer, snapshot) -/
def CLdb.getHist (cfg : Cfg) (s : CLdb) (i : Id) : CLdb × Option CRoot :=
  let f := s.ldb.frontierId
  let hit : Id × Nat × List Raw :=
    match lookupC s.l1 i with
    | some e => (e.tag, e.obj, s.heap)
    | none =>
      match lookupC s.l2 i with
      | some e => (e.tag, e.obj, s.heap)
      | none => (i, s.heap.length, s.heap ++ [[]])
  let to := hit.1
  let o := hit.2.1
  let heap0 := hit.2.2
  let raw := buildOverlay s.ldb.rollbacks to.height (f.height - to.height) (objAt heap0 o)
  let heap1 := heap0.set o raw
  let e : CEnt := ⟨i, f, o⟩
  let near := decide (absDiff i.height f.height < cfg.maxDiff)
  ({ s with heap := heap1,
            l1 := if near then cacheAdd s.l1 e else s.l1,
            l2 := if near then s.l2 else cacheAdd s.l2 e,
            views := ⟨i, s.ldb.frontier, o⟩ :: s.views },
   some (CRoot.hist o s.ldb.frontier))

/-- ldbManager.Get(identifier): `none` = nil -/
def CLdb.get (cfg : Cfg) (s : CLdb) (i : Id) : CLdb × Option CRoot :=
  if s.stopped then (s, none)
  else if i.isZero then (s, some CRoot.mem)
  else if i = s.ldb.frontierId then (s, some (CRoot.front s.ldb.frontier))
  else
    match edDecode (rget s.ldb.frontier (keyHeightByHash i.hash)) with
    | none => (s, none)
    | some hb =>
      if beVal hb ≠ i.height then (s, none)
      else s.getHist cfg i

/-- ldbManager.Add for a single-commit transaction: `Get(previous)` goes through the caches like any other `Get`
    (a commit on a stale parent files an overlay), the undo patch is computed through the view it returns.
    `none` = error "can't find prev" -/
def CLdb.add (cfg : Cfg) (s : CLdb) (prev id : Id) (ops : Patch) : Option CLdb :=
  let g := s.get cfg prev
  match g.2 with
  | none => none
  | some cr =>
    let s1 := g.1
    let view := cr.resolve s1.heap
    let patch := ops ++ frontierOps id
    let rb := rollbackPatch view.get patch
    if prev = s1.ldb.frontierId then
      some { s1 with ldb :=
        { frontier := edApply s1.ldb.frontier patch,
          rollbacks := (id.height, rb) :: s1.ldb.rollbacks.filter (fun e => e.1 ≠ id.height),
          patches := (id.height, patch) :: s1.ldb.patches.filter (fun e => e.1 ≠ id.height) } }
    else some s1

/-- ldbManager.Pop: the store is rolled back, then the two levels are purged (as far as `cfg` says the code does) -/
def CLdb.pop (cfg : Cfg) (s : CLdb) : Option CLdb :=
  if s.stopped then none
  else
    match s.ldb.pop with
    | none => none
    | some l =>
      some { s with ldb := l,
                    l1 := if cfg.purgeL1 then [] else s.l1,
                    l2 := if cfg.purgeL2 then [] else s.l2 }

/-- ldbManager.Stop: nothing is served afterwards, the caches are dropped -/
def CLdb.stop (s : CLdb) : CLdb := { s with stopped := true, l1 := [], l2 := [] }

/-- LRU replacement as nondeterminism: any entry of any level may disappear at any time -/
def CLdb.evict (s : CLdb) (level1 : Bool) (i : Id) : CLdb :=
  if level1 then { s with l1 := cacheEvict s.l1 i } else { s with l2 := cacheEvict s.l2 i }

/-! ### operation sequences (for the theorems about whole runs and for the driver) -/

inductive COp where
  | add (prev id : Id) (ops : Patch)
  | pop
  | get (i : Id)
  | evict (level1 : Bool) (i : Id)
  | stop
  deriving DecidableEq, Repr

/-- the observable answer of an operation; a view is observed through its root as resolved at hand-out -/
inductive CAns where
  | ok
  | err
  | view (r : Option Root)
  | silent
  deriving Repr

def CLdb.step (cfg : Cfg) (s : CLdb) : COp → CLdb × CAns
  | .add prev id ops =>
    match s.add cfg prev id ops with
    | none => (s, CAns.err)
    | some s' => (s', CAns.ok)
  | .pop =>
    match s.pop cfg with
    | none => (s, CAns.err)
    | some s' => (s', CAns.ok)
  | .get i =>
    let g := s.get cfg i
    (g.1, CAns.view (g.2.map (CRoot.resolve g.1.heap)))
  | .evict l i => (s.evict l i, CAns.silent)
  | .stop => (s.stop, CAns.silent)

end ZV.VersionedCache
