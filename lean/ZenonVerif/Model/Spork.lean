import ZenonVerif.Gen.Spork
/-
L5 (spork) — the spork contract's state machine, activity test and the spork-dependent method tables.
Stands for vm/embedded/implementation/spork.go {CreateSporkMethod, ActivateSporkMethod}, chain/momentum/embedded.go
IsSporkActive, chain/momentum_pool.go GotAllActiveSporksImplemented and the table selection of
vm/embedded/embedded.go GetEmbeddedMethod (the tables themselves are generated from the real function).
-/
namespace ZV.Spork

structure SporkInfo where
  id : Nat
  activated : Bool
  enf : Nat                -- EnforcementHeight
  deriving DecidableEq, Repr

abbrev SState := List SporkInfo

inductive Sender where
  | sporkKey          -- genesis spork address
  | community         -- CommunitySporkAddress
  | other
  deriving DecidableEq, Repr

/-- who may call the spork contract: checked at send time (ValidateSendBlock) and again at receive time;
    the community address additionally only while the frontier height is inside [Start, End) -/
def authorised (s : Sender) (frontierHeight : Nat) : Bool :=
  match s with
  | .sporkKey => true
  | .community => Gen.CommunitySporkAddressStartHeight ≤ frontierHeight && frontierHeight < Gen.CommunitySporkAddressEndHeight
  | .other => false

def find (st : SState) (id : Nat) : Option SporkInfo := st.find? (·.id = id)

/-- CreateSporkMethod.ReceiveBlock: `none` = error (call refunded) -/
def create (st : SState) (s : Sender) (frontierHeight : Nat) (id : Nat) : Option SState :=
  if !authorised s frontierHeight then none
  else some (⟨id, false, 0⟩ :: st.filter (·.id ≠ id))

/-- ActivateSporkMethod.ReceiveBlock: frontierHeight = height of the momentum the receive block acknowledges -/
def activate (st : SState) (s : Sender) (frontierHeight : Nat) (id : Nat) : Option SState :=
  if !authorised s frontierHeight then none
  else match find st id with
    | none => none                                  -- ErrDataNonExistent
    | some sp =>
      if sp.activated then none                     -- ErrAlreadyActivated
      else some (⟨id, true, frontierHeight + Gen.SporkMinHeightDelay⟩ :: st.filter (·.id ≠ id))

/-- The same three definitions with the community key's window `[w.1, w.2)` as a parameter. The window is a pair of
    package variables of the real code (definition.CommunitySporkAddressStartHeight / …EndHeight); the mainnet values
    (`mainnetWindow`, regenerated) cannot be reached on a test chain, so the correspondence stream runs the real
    contract with a window of a few momentums and the driver evaluates these. `createW mainnetWindow = create` and
    `activateW mainnetWindow = activate` hold by `rfl` (Props/C17). -/
def authorisedW (w : Nat × Nat) (s : Sender) (frontierHeight : Nat) : Bool :=
  match s with
  | .sporkKey => true
  | .community => w.1 ≤ frontierHeight && frontierHeight < w.2
  | .other => false

def mainnetWindow : Nat × Nat := (Gen.CommunitySporkAddressStartHeight, Gen.CommunitySporkAddressEndHeight)

def createW (w : Nat × Nat) (st : SState) (s : Sender) (frontierHeight : Nat) (id : Nat) : Option SState :=
  if !authorisedW w s frontierHeight then none
  else some (⟨id, false, 0⟩ :: st.filter (·.id ≠ id))

def activateW (w : Nat × Nat) (st : SState) (s : Sender) (frontierHeight : Nat) (id : Nat) : Option SState :=
  if !authorisedW w s frontierHeight then none
  else match find st id with
    | none => none
    | some sp =>
      if sp.activated then none
      else some (⟨id, true, frontierHeight + Gen.SporkMinHeightDelay⟩ :: st.filter (·.id ≠ id))

/-- chain/genesis/account_block.go genesisSporkContractConfig: a spork of GenesisConfig.SporkConfig is written into the
    spork contract's storage exactly as the configuration has it - `Activated` and `EnforcementHeight` are NOT derived
    from a height (a network that starts with a feature switched on defines the spork with Activated = true and
    EnforcementHeight = 0). The contract state of the genesis momentum is the fold of this over the configured list. -/
def defineGenesis (st : SState) (id : Nat) (activated : Bool) (enf : Nat) : SState :=
  ⟨id, activated, enf⟩ :: st.filter (·.id ≠ id)

/-- momentumStore.IsSporkActive for the store whose frontier height is `h` -/
def isActive (st : SState) (h : Nat) (id : Nat) : Bool :=
  h != 1 && st.any (fun sp => sp.activated && sp.enf ≤ h && sp.id = id)

/-- GotAllActiveSporksImplemented: the activated, enforced sporks this binary does not implement -/
def unimplemented (st : SState) (h : Nat) (implemented : List Nat) : List SporkInfo :=
  st.filter (fun sp => sp.activated && sp.enf ≤ h && !implemented.contains sp.id)

/-- The chain as the spork contract sees it: the contract's state as of every momentum height this node holds
    (newest first). `histAt` is the state a block acknowledging the momentum of height `h` is judged against
    (GetMomentumStore(id of height h)); `none` = this node has no momentum of that height. -/
abbrev Hist := List (Nat × SState)

def histAt (hist : Hist) (h : Nat) : Option SState := (hist.find? (·.1 = h)).map (·.2)

/-- chain.RollbackTo: the momentums above `h` are popped, nothing about them is kept -/
def rollbackHist (hist : Hist) (h : Nat) : Hist := hist.filter (·.1 ≤ h)

/-- a reorganisation down to height `h`: the contract state becomes the one recorded for `h`, the abandoned heights
    are forgotten (`none`: no momentum of height `h` on this node) -/
def rollbackTo (hist : Hist) (h : Nat) : Option (SState × Hist) :=
  match histAt hist h with
  | some st => some (st, rollbackHist hist h)
  | none => none

/-- regime index used by the generated table: acc + 2*bridge + 4*htlc -/
def regime (acc bridge htlc : Bool) : Nat := acc.toNat + 2 * bridge.toNat + 4 * htlc.toNat

/-- methods resolved under a regime (generated from the real GetEmbeddedMethod) -/
def methodsOf (r : Nat) : List Nat := (Gen.methodTable.filter (·.1 = r)).map (·.2.1)

def available (r : Nat) (m : Nat) : Bool := (methodsOf r).contains m

/-- r ⊑ r' : every spork active in r is active in r' -/
def regimeLe (r r' : Nat) : Bool := r &&& r' == r

/-! ### The reviewed gate table (C17): which spork introduces which (contract, method)

`introducedBy` is written by hand and REVIEWED - it is NOT derived from the regenerated tables (a table derived from
the code under test cannot notice a method that leaks into an earlier table). 0 = part of the protocol from genesis,
1 = accelerator spork, 2 = bridge&liquidity spork, 3 = htlc spork. Methods a spork adds to a contract that already
exists count like those of a new contract: accelerator.* except Donate and liquidity.Fund / liquidity.BurnZnn
(accelerator spork), the liquidity staking / administration methods (bridge&liquidity spork).
Props/C17Table.lean proves that the regenerated tables of all 8 regimes are exactly what this table says. -/
def introducedBy : List (String × Nat) := [
  ("accelerator.AddPhase", 1), ("accelerator.CreateProject", 1), ("accelerator.Donate", 0), ("accelerator.Update", 1),
  ("accelerator.UpdatePhase", 1), ("accelerator.VoteByName", 1), ("accelerator.VoteByProdAddress", 1),
  ("bridge.ChangeAdministrator", 2), ("bridge.ChangeTssECDSAPubKey", 2), ("bridge.Emergency", 2), ("bridge.Halt", 2),
  ("bridge.NominateGuardians", 2), ("bridge.ProposeAdministrator", 2), ("bridge.Redeem", 2), ("bridge.RemoveNetwork", 2),
  ("bridge.RemoveTokenPair", 2), ("bridge.RevokeUnwrapRequest", 2), ("bridge.SetAllowKeyGen", 2),
  ("bridge.SetBridgeMetadata", 2), ("bridge.SetNetwork", 2), ("bridge.SetNetworkMetadata", 2),
  ("bridge.SetOrchestratorInfo", 2), ("bridge.SetTokenPair", 2), ("bridge.Unhalt", 2), ("bridge.UnwrapToken", 2),
  ("bridge.UpdateWrapRequest", 2), ("bridge.WrapToken", 2),
  ("htlc.AllowProxyUnlock", 3), ("htlc.Create", 3), ("htlc.DenyProxyUnlock", 3), ("htlc.Reclaim", 3), ("htlc.Unlock", 3),
  ("liquidity.BurnZnn", 1), ("liquidity.CancelLiquidityStake", 2), ("liquidity.ChangeAdministrator", 2),
  ("liquidity.CollectReward", 2), ("liquidity.Donate", 0), ("liquidity.Emergency", 2), ("liquidity.Fund", 1),
  ("liquidity.LiquidityStake", 2), ("liquidity.NominateGuardians", 2), ("liquidity.ProposeAdministrator", 2),
  ("liquidity.SetAdditionalReward", 2), ("liquidity.SetIsHalted", 2), ("liquidity.SetTokenTuple", 2),
  ("liquidity.UnlockLiquidityStakeEntries", 2), ("liquidity.Update", 0),
  ("pillar.CollectReward", 0), ("pillar.Delegate", 0), ("pillar.DepositQsr", 0), ("pillar.Register", 0),
  ("pillar.RegisterLegacy", 0), ("pillar.Revoke", 0), ("pillar.Undelegate", 0), ("pillar.Update", 0),
  ("pillar.UpdatePillar", 0), ("pillar.WithdrawQsr", 0), ("plasma.CancelFuse", 0), ("plasma.Fuse", 0),
  ("sentinel.CollectReward", 0), ("sentinel.DepositQsr", 0), ("sentinel.Register", 0), ("sentinel.Revoke", 0),
  ("sentinel.Update", 0), ("sentinel.WithdrawQsr", 0), ("spork.ActivateSpork", 0), ("spork.CreateSpork", 0),
  ("stake.Cancel", 0), ("stake.CollectReward", 0), ("stake.Stake", 0), ("stake.Update", 0), ("swap.RetrieveAssets", 0),
  ("token.Burn", 0), ("token.IssueToken", 0), ("token.Mint", 0), ("token.UpdateToken", 0)]

/-- the spork (0..3) that introduces the method; `none`: not a method of the protocol -/
def ownerOf (key : String) : Option Nat := (introducedBy.find? (·.1 == key)).map (·.2)

/-- is the spork with index k (0 = none needed) enforced, given the three activity flags -/
def sporkOn (k : Nat) (acc bridge htlc : Bool) : Bool :=
  match k with
  | 0 => true
  | 1 => acc
  | 2 => bridge
  | 3 => htlc
  | _ => false

/-- GetEmbeddedMethod's table selection `if htlc … else if bridge … else if accelerator … else origin`: the regime's
    LEVEL is the index of the last enforced spork in the order accelerator < bridge&liquidity < htlc -/
def level (acc bridge htlc : Bool) : Nat := if htlc then 3 else if bridge then 2 else if acc then 1 else 0

def regimeAcc (r : Nat) : Bool := r % 2 == 1
def regimeBridge (r : Nat) : Bool := r / 2 % 2 == 1
def regimeHtlc (r : Nat) : Bool := r / 4 % 2 == 1
def levelOfRegime (r : Nat) : Nat := level (regimeAcc r) (regimeBridge r) (regimeHtlc r)

/-- send-time availability by the REVIEWED table: the method's spork is at or below the regime's level
    (this is the code's rule, finding F17 included: a LATER spork switches the earlier sporks' methods on) -/
def availableSpec (acc bridge htlc : Bool) (key : String) : Option Bool :=
  (ownerOf key).map (fun k => decide (k ≤ level acc bridge htlc))

/-- REVIEWED: the spork-introduced methods whose ReceiveBlock tests its own spork AGAIN (liquidity.go: the body of Fund
    and BurnZnn runs under `if context.IsAcceleratorSporkEnforced()`): for these F17 stops at send-time acceptance - the
    call is answered but moves nothing while the accelerator spork is not enforced for the acknowledged momentum -/
def receiveGated : List String := ["liquidity.BurnZnn", "liquidity.Fund"]

/-- receive time: may a call of the method, answered by a receive block acknowledging a momentum with these activity
    flags, change anything (contract storage, balances other than the refund)? -/
def mayExecute (acc bridge htlc : Bool) (key : String) : Option Bool :=
  (ownerOf key).map (fun k => decide (k ≤ level acc bridge htlc) &&
    (if receiveGated.contains key then sporkOn k acc bridge htlc else true))

/-- the verdict the driver gives on an observed receive (`S-exec` line): `effect` = the receive block changed the
    contract's storage or emitted a block other than the refund; `designed` = the harness built the call so that it must
    take effect when the feature is on -/
def execVerdict (acc bridge htlc : Bool) (key : String) (effect designed : Bool) : Option String :=
  (mayExecute acc bridge htlc key).map (fun may =>
    if effect && !may then "forbidden" else if designed && may && !effect then "missing" else "ok")

end ZV.Spork
