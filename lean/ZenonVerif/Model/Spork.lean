import ZenonVerif.Gen.Spork
/-
L5 (spork) — the spork contract's state machine, activity test and the spork-dependent method tables.
Stands for vm/embedded/implementation/spork.go {CreateSporkMethod, ActivateSporkMethod}, chain/momentum/embedded.go
IsSporkActive, chain/momentum_pool.go GotAllActiveSporksImplemented and the table selection of
vm/embedded/embedded.go GetEmbeddedMethod (the tables themselves are generated from the real function).
-/
namespace ZV.Spork

structure SporkInfo where
  id : Nat
  activated : Bool
  enf : Nat                -- EnforcementHeight
  deriving DecidableEq, Repr

abbrev SState := List SporkInfo

inductive Sender where
  | sporkKey          -- genesis spork address
  | community         -- CommunitySporkAddress
  | other
  deriving DecidableEq, Repr

/-- who may call the spork contract: checked at send time (ValidateSendBlock) and again at receive time;
    the community address additionally only while the frontier height is inside [Start, End) -/
def authorised (s : Sender) (frontierHeight : Nat) : Bool :=
  match s with
  | .sporkKey => true
  | .community => Gen.CommunitySporkAddressStartHeight ≤ frontierHeight && frontierHeight < Gen.CommunitySporkAddressEndHeight
  | .other => false

def find (st : SState) (id : Nat) : Option SporkInfo := st.find? (·.id = id)

/-- CreateSporkMethod.ReceiveBlock: `none` = error (call refunded) -/
def create (st : SState) (s : Sender) (frontierHeight : Nat) (id : Nat) : Option SState :=
  if !authorised s frontierHeight then none
  else some (⟨id, false, 0⟩ :: st.filter (·.id ≠ id))

/-- ActivateSporkMethod.ReceiveBlock: frontierHeight = height of the momentum the receive block acknowledges -/
def activate (st : SState) (s : Sender) (frontierHeight : Nat) (id : Nat) : Option SState :=
  if !authorised s frontierHeight then none
  else match find st id with
    | none => none                                  -- ErrDataNonExistent
    | some sp =>
      if sp.activated then none                     -- ErrAlreadyActivated
      else some (⟨id, true, frontierHeight + Gen.SporkMinHeightDelay⟩ :: st.filter (·.id ≠ id))

/-- The same three definitions with the community key's window `[w.1, w.2)` as a parameter. The window is a pair of
    package variables of the real code (definition.CommunitySporkAddressStartHeight / …EndHeight); the mainnet values
    (`mainnetWindow`, regenerated) cannot be reached on a test chain, so the correspondence stream runs the real
    contract with a window of a few momentums and the driver evaluates these. `createW mainnetWindow = create` and
    `activateW mainnetWindow = activate` hold by `rfl` (Props/C17). -/
def authorisedW (w : Nat × Nat) (s : Sender) (frontierHeight : Nat) : Bool :=
  match s with
  | .sporkKey => true
  | .community => w.1 ≤ frontierHeight && frontierHeight < w.2
  | .other => false

def mainnetWindow : Nat × Nat := (Gen.CommunitySporkAddressStartHeight, Gen.CommunitySporkAddressEndHeight)

def createW (w : Nat × Nat) (st : SState) (s : Sender) (frontierHeight : Nat) (id : Nat) : Option SState :=
  if !authorisedW w s frontierHeight then none
  else some (⟨id, false, 0⟩ :: st.filter (·.id ≠ id))

def activateW (w : Nat × Nat) (st : SState) (s : Sender) (frontierHeight : Nat) (id : Nat) : Option SState :=
  if !authorisedW w s frontierHeight then none
  else match find st id with
    | none => none
    | some sp =>
      if sp.activated then none
      else some (⟨id, true, frontierHeight + Gen.SporkMinHeightDelay⟩ :: st.filter (·.id ≠ id))

/-- chain/genesis/account_block.go genesisSporkContractConfig: a spork of GenesisConfig.SporkConfig is written into the
    spork contract's storage exactly as the configuration has it - `Activated` and `EnforcementHeight` are NOT derived
    from a height (a network that starts with a feature switched on defines the spork with Activated = true and
    EnforcementHeight = 0). The contract state of the genesis momentum is the fold of this over the configured list. -/
def defineGenesis (st : SState) (id : Nat) (activated : Bool) (enf : Nat) : SState :=
  ⟨id, activated, enf⟩ :: st.filter (·.id ≠ id)

/-- momentumStore.IsSporkActive for the store whose frontier height is `h` -/
def isActive (st : SState) (h : Nat) (id : Nat) : Bool :=
  h != 1 && st.any (fun sp => sp.activated && sp.enf ≤ h && sp.id = id)

/-- GotAllActiveSporksImplemented: the activated, enforced sporks this binary does not implement -/
def unimplemented (st : SState) (h : Nat) (implemented : List Nat) : List SporkInfo :=
  st.filter (fun sp => sp.activated && sp.enf ≤ h && !implemented.contains sp.id)

/-- The chain as the spork contract sees it: the contract's state as of every momentum height this node holds
    (newest first). `histAt` is the state a block acknowledging the momentum of height `h` is judged against
    (GetMomentumStore(id of height h)); `none` = this node has no momentum of that height. -/
abbrev Hist := List (Nat × SState)

def histAt (hist : Hist) (h : Nat) : Option SState := (hist.find? (·.1 = h)).map (·.2)

/-- chain.RollbackTo: the momentums above `h` are popped, nothing about them is kept -/
def rollbackHist (hist : Hist) (h : Nat) : Hist := hist.filter (·.1 ≤ h)

/-- a reorganisation down to height `h`: the contract state becomes the one recorded for `h`, the abandoned heights
    are forgotten (`none`: no momentum of height `h` on this node) -/
def rollbackTo (hist : Hist) (h : Nat) : Option (SState × Hist) :=
  match histAt hist h with
  | some st => some (st, rollbackHist hist h)
  | none => none

/-- regime index used by the generated table: acc + 2*bridge + 4*htlc -/
def regime (acc bridge htlc : Bool) : Nat := acc.toNat + 2 * bridge.toNat + 4 * htlc.toNat

/-- methods resolved under a regime (generated from the real GetEmbeddedMethod) -/
def methodsOf (r : Nat) : List Nat := (Gen.methodTable.filter (·.1 = r)).map (·.2.1)

def available (r : Nat) (m : Nat) : Bool := (methodsOf r).contains m

/-- r ⊑ r' : every spork active in r is active in r' -/
def regimeLe (r r' : Nat) : Bool := r &&& r' == r

end ZV.Spork
