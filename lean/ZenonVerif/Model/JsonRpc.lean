import ZenonVerif.Gen.RpcServer
/-
L18 — the dispatch logic of the JSON-RPC server (rpc/server, the geth-derived server): from one syntactically valid
JSON value to the shape of what is written back. Stands for

  json.go     jsonrpcMessage, isNotification / isCall / isResponse / hasValidID, isSubscribe / isUnsubscribe, namespace,
              jsonCodec.readBatch, parseMessage, isBatch, parsePositionalArguments, parseSubscriptionName
  handler.go  handleBatch, handleMsg, handleImmediate, handleCallMsg, handleCall, handleSubscribe
  server.go   serveSingleRequest (HTTP: one request, subscriptions refused); client.go dispatch (stream connections)
  service.go  serviceRegistry.callback / subscription
  errors.go   the error codes

What is modelled is the SHAPE of the answer: whether a body is written, one object or an array, how many reply objects,
in which order, which id each carries, and for each reply either a definite protocol error code or `app` — the callback
stage was entered with an acceptable number of positional arguments; what comes back from there (a result, error −32602
"invalid argument i" from the typed decoding of an argument, or the method's own error, −32000 unless it names a code) is
the business of the API and not of this model.

Every place where the Go code dereferences a pointer that CAN be nil or slices with an index that CAN be out of range has a
`panic` outcome here (a nil *jsonrpcMessage reaching handleImmediate, `reqs[0]` of an empty slice, `msg.Method[0:-1]` in
namespace()); `ZV.C18Rpc.respond_total` proves them unreachable. The variant without the nil repair of readBatch is kept as
the negative witness (`respondUnrepaired`): there the panic IS reached by `[null]`.

How `encoding/json` fills a `jsonrpcMessage` (checked against Go 1.23, the toolchain of the repository):
  * JSON null into a *jsonrpcMessage sets the pointer to nil (single message and batch element alike);
  * a number, string, boolean or array is a type error that leaves the message at its zero value — the error is ignored;
  * an object: members are matched to the fields case-insensitively (`"ID"`, `"Method"` work; U+017F folds to `s`), in
    order, a repeated member overwrites; `id`, `params`, `result` are json.RawMessage and take ANY value including null
    (the four bytes `null`, hence non-nil); `method` takes a string, ignores null and keeps its value on any other kind (type
    error, ignored); `error` (*jsonError) is nil after null and non-nil after ANY other value (the pointer is allocated
    before the kind is looked at); `jsonrpc` is never looked at.
-/
namespace ZV.JsonRpc

/-- a JSON value as the harness prints it: numbers keep their literal, strings are decoded, objects keep the order and
    repetitions of their members -/
inductive Json where
  | null
  | bool (b : Bool)
  | num (lit : String)
  | str (s : String)
  | arr (items : List Json)
  | obj (fields : List (String × Json))
  deriving Inhabited

def Json.isNull : Json → Bool
  | .null => true
  | _ => false

def Json.isObj : Json → Bool
  | .obj _ => true
  | _ => false

def Json.isArr : Json → Bool
  | .arr _ => true
  | _ => false

/-- an id as it is echoed: the raw bytes of a scalar -/
inductive Id where
  | null
  | bool (b : Bool)
  | num (lit : String)
  | str (s : String)
  deriving DecidableEq, Repr, Inhabited

/-- `msg.ID` (json.RawMessage): nil, a value whose first byte is neither `{` nor `[`, or an object / array -/
inductive IdField where
  | absent
  | scalar (i : Id)
  | compound
  deriving DecidableEq, Repr, Inhabited

def Json.toIdField : Json → IdField
  | .null => .scalar .null
  | .bool b => .scalar (.bool b)
  | .num l => .scalar (.num l)
  | .str s => .scalar (.str s)
  | .arr _ => .compound
  | .obj _ => .compound

/-- the fields of `jsonrpcMessage` -/
inductive Field where
  | version | id | method | params | error | result
  deriving DecidableEq, Repr

/-- encoding/json's name folding restricted to what can reach an ASCII letter of the six member names: upper case → lower
    case, and U+017F (long s) → s. (U+212A, the Kelvin sign, folds to k, which no member name contains.) -/
def lowerChar (c : Char) : Char := if c = 'ſ' then 's' else c.toLower

def foldKey (k : String) : List Char := k.toList.map lowerChar

def fieldOf (k : String) : Option Field :=
  let f := foldKey k
  if f = "jsonrpc".toList then some .version
  else if f = "id".toList then some .id
  else if f = "method".toList then some .method
  else if f = "params".toList then some .params
  else if f = "error".toList then some .error
  else if f = "result".toList then some .result
  else none

/-- a decoded `jsonrpcMessage`, as far as the dispatch looks at it -/
structure Msg where
  id : IdField := .absent
  method : String := ""
  params : Option Json := none      -- nil / the raw value
  hasError : Bool := false          -- Error != nil
  hasResult : Bool := false         -- Result != nil
  deriving Inhabited

/-- the zero value `new(jsonrpcMessage)` -/
def Msg.zero : Msg := {}

/-- one object member stored into the message -/
def setField (m : Msg) (kv : String × Json) : Msg :=
  match fieldOf kv.1 with
  | none => m
  | some .version => m
  | some .id => { m with id := kv.2.toIdField }
  | some .method =>
    match kv.2 with
    | .str s => { m with method := s }
    | _ => m
  | some .params => { m with params := some kv.2 }
  | some .error => { m with hasError := !kv.2.isNull }
  | some .result => { m with hasResult := true }

/-- `json.Unmarshal(raw, &msg)` with `msg *jsonrpcMessage` non-nil before the call: `none` = the pointer is nil afterwards -/
def decodeMsg : Json → Option Msg
  | .null => none
  | .obj fs => some (fs.foldl setField Msg.zero)
  | _ => some Msg.zero

/-- `parseMessage`: the messages (possibly nil pointers) and the batch flag; `isBatch` = the first byte is `[` -/
def parseMessage (j : Json) : List (Option Msg) × Bool :=
  match j with
  | .arr items => (items.map decodeMsg, true)
  | _ => ([decodeMsg j], false)

/-- the loop of `readBatch`: `if msg == nil { messages[i] = new(jsonrpcMessage) }` -/
def repairNil : Option Msg → Option Msg
  | none => some Msg.zero
  | some m => some m

/-- `jsonCodec.readBatch` after the syntax check -/
def readBatch (j : Json) : List (Option Msg) × Bool :=
  let (ms, b) := parseMessage j
  (ms.map repairNil, b)

/-- the message an element stands for once it has passed readBatch -/
def msgOf (j : Json) : Msg := (decodeMsg j).getD Msg.zero

-- ---- classification (json.go) ----------------------------------------------------------------------------------

def Msg.hasValidID (m : Msg) : Bool :=
  match m.id with
  | .scalar _ => true
  | _ => false

def Msg.idAbsent (m : Msg) : Bool :=
  match m.id with
  | .absent => true
  | _ => false

def Msg.isNotification (m : Msg) : Bool := m.idAbsent && m.method != ""

def Msg.isCall (m : Msg) : Bool := m.hasValidID && m.method != ""

def Msg.isResponse (m : Msg) : Bool :=
  m.hasValidID && m.method == "" && m.params.isNone && (m.hasResult || m.hasError)

inductive MsgKind where
  | notification | call | response | invalid
  deriving DecidableEq, Repr

def Msg.kind (m : Msg) : MsgKind :=
  if m.isNotification then .notification
  else if m.isCall then .call
  else if m.isResponse then .response
  else .invalid

/-- one JSON value classified exactly as the code classifies the message decoded from it -/
def classify (j : Json) : MsgKind := (msgOf j).kind

/-- the id a reply to this message carries: `msg.ID` when it is valid, `null` (errorMessage) otherwise -/
def Msg.echoId (m : Msg) : Id :=
  match m.id with
  | .scalar i => i
  | _ => .null

def echoId (j : Json) : Id := (msgOf j).echoId

-- ---- method names ----------------------------------------------------------------------------------------------

/-- `strings.LastIndex(s, ".")` as a split: `none` = −1, else (s[:i], s[i+1:]) -/
def splitLastDot : List Char → Option (List Char × List Char)
  | [] => none
  | c :: cs =>
    match splitLastDot cs with
    | some (a, b) => some (c :: a, b)
    | none => if c = '.' then some ([], cs) else none

def hasSuffix (s : String) (suf : String) : Bool := suf.toList.isSuffixOf s.toList

def Msg.isSubscribe (m : Msg) : Bool := hasSuffix m.method ".subscribe"
def Msg.isUnsubscribe (m : Msg) : Bool := hasSuffix m.method ".unsubscribe"
def Msg.isSubscriptionNotification (m : Msg) : Bool := hasSuffix m.method ".subscription"

-- ---- registry (service.go) -------------------------------------------------------------------------------------

/-- a registered callback: service name, method name (first letter lower-cased), and per positional parameter (receiver and
    context.Context excluded) whether its type is a pointer, i.e. whether it may be left out -/
structure Callback where
  service : String
  name : String
  optional : List Bool
  deriving Repr, DecidableEq

structure Registry where
  methods : List Callback
  subscriptions : List Callback

def findCallback (l : List Callback) (svc name : List Char) : Option Callback :=
  l.find? (fun c => c.service.toList = svc && c.name.toList = name)

/-- `serviceRegistry.callback(method)`: split at the LAST separator; no separator = nil -/
def Registry.callbackL (r : Registry) (method : List Char) : Option Callback :=
  match splitLastDot method with
  | none => none
  | some (svc, name) => findCallback r.methods svc name

def Registry.callback (r : Registry) (method : String) : Option Callback := r.callbackL method.toList

/-- `serviceRegistry.subscription(service, name)` -/
def Registry.subscription (r : Registry) (svc : List Char) (name : String) : Option Callback :=
  findCallback r.subscriptions svc name.toList

-- ---- outcomes --------------------------------------------------------------------------------------------------

def parseErrorCode : Int := -32700
def invalidRequest : Int := -32600
def methodNotFound : Int := -32601
def invalidParams : Int := -32602
def defaultErrorCode : Int := -32000

inductive Outcome where
  | app                  -- the callback stage: result, or an error of the typed argument decoding / of the method
  | err (code : Int)     -- a definite error of the protocol layer
  deriving DecidableEq, Repr, Inhabited

/-- the connection kinds: serveSingleRequest sets allowSubscribe = false -/
inductive Transport where
  | http | stream
  deriving DecidableEq, Repr

/-- `parsePositionalArguments` as far as the NUMBER of arguments decides: absent and null params are no arguments, an array
    gives its length, anything else is "non-array args"; more arguments than parameters, or a missing non-pointer
    parameter, is −32602 whatever the typed decoding of the arguments before says (it can only fail with −32602 too) -/
def argsOutcome (params : Option Json) (optional : List Bool) : Outcome :=
  let n? : Option Nat :=
    match params with
    | none => some 0
    | some .null => some 0
    | some (.arr xs) => some xs.length
    | some _ => none
  match n? with
  | none => .err invalidParams
  | some n =>
    if n > optional.length then .err invalidParams
    else if (optional.drop n).all id then .app
    else .err invalidParams

/-- `parseSubscriptionName`: the params must be an array whose first element is a string -/
def subscriptionName? : Option Json → Option String
  | some (.arr (.str s :: _)) => some s
  | _ => none

inductive CallRes where
  | out (o : Outcome)
  | panic
  deriving DecidableEq, Repr

/-- `handleSubscribe`; `msg.namespace()` = `msg.Method[0:strings.LastIndex(msg.Method, ".")]` panics on −1 -/
def handleSubscribe (reg : Registry) (tr : Transport) (m : Msg) : CallRes :=
  match tr with
  | .http => .out (.err defaultErrorCode)          -- ErrNotificationsUnsupported
  | .stream =>
    match subscriptionName? m.params with
    | none => .out (.err invalidParams)
    | some name =>
      match splitLastDot m.method.toList with
      | none => .panic                               -- slice bounds out of range [:-1]
      | some (ns, _) =>
        match reg.subscription ns name with
        | none => .out (.err methodNotFound)         -- subscriptionNotFoundError
        | some cb => .out (argsOutcome m.params (false :: cb.optional))

/-- `handleCall` -/
def handleCall (reg : Registry) (tr : Transport) (m : Msg) : CallRes :=
  if m.isSubscribe then handleSubscribe reg tr m
  else if m.isUnsubscribe then .out (argsOutcome m.params [false])   -- h.unsubscribe(ctx, id ID)
  else
    match reg.callback m.method with
    | none => .out (.err methodNotFound)
    | some cb => .out (argsOutcome m.params cb.optional)

/-- what one message contributes to the answer -/
inductive R where
  | none
  | reply (id : Id) (o : Outcome)
  | panic
  deriving DecidableEq, Repr

/-- `handleImmediate`: true = consumed without an answer (a subscription notification of the peer, a response) -/
def handleImmediate (m : Msg) : Bool :=
  if m.isNotification then m.isSubscriptionNotification
  else m.isResponse

/-- `handleCallMsg` -/
def handleCallMsg (reg : Registry) (tr : Transport) (m : Msg) : R :=
  if m.isNotification then
    match handleCall reg tr m with
    | .panic => .panic
    | .out _ => .none
  else if m.isCall then
    match handleCall reg tr m with
    | .panic => .panic
    | .out o => .reply m.echoId o
  else if m.hasValidID then .reply m.echoId (.err invalidRequest)
  else .reply .null (.err invalidRequest)

/-- what is written back for one request -/
inductive Response where
  | noBody
  | single (id : Id) (o : Outcome)
  | batch (rs : List (Id × Outcome))
  | panic
  deriving DecidableEq, Repr

def Response.replies : Response → List (Id × Outcome)
  | .noBody => []
  | .single i o => [(i, o)]
  | .batch rs => rs
  | .panic => []

/-- `handleMsg` on a possibly nil pointer: `msg.isNotification()` reads `msg.ID` -/
def handleMsg (reg : Registry) (tr : Transport) : Option Msg → Response
  | none => .panic
  | some m =>
    if handleImmediate m then .noBody
    else
      match handleCallMsg reg tr m with
      | .none => .noBody
      | .reply i o => .single i o
      | .panic => .panic

/-- the first loop of handleBatch dereferences every element in turn -/
def derefAll : List (Option Msg) → Option (List Msg)
  | [] => some []
  | none :: _ => none
  | some m :: rest => (derefAll rest).map (m :: ·)

/-- the answers of the call goroutine, in order; `none` = one of them panicked -/
def collect : List R → Option (List (Id × Outcome))
  | [] => some []
  | .panic :: _ => none
  | .none :: rest => collect rest
  | .reply i o :: rest => (collect rest).map ((i, o) :: ·)

/-- `handleBatch` -/
def handleBatch (reg : Registry) (tr : Transport) (msgs : List (Option Msg)) : Response :=
  if msgs.isEmpty then .single .null (.err invalidRequest)     -- "empty batch", checked first
  else
    match derefAll msgs with
    | none => .panic
    | some ms =>
      let calls := ms.filter (fun m => !handleImmediate m)
      if calls.isEmpty then .noBody
      else
        match collect (calls.map (handleCallMsg reg tr)) with
        | none => .panic
        | some [] => .noBody
        | some rs => .batch rs

/-- serveSingleRequest / Client.dispatch after a successful readBatch: `h.handleBatch(reqs)` or `h.handleMsg(reqs[0])` -/
def dispatch (reg : Registry) (tr : Transport) (rb : List (Option Msg) × Bool) : Response :=
  if rb.2 then handleBatch reg tr rb.1
  else
    match rb.1 with
    | [] => .panic                                   -- index out of range [0]
    | m :: _ => handleMsg reg tr m

/-- the answer to one syntactically valid JSON request -/
def respond (reg : Registry) (tr : Transport) (j : Json) : Response :=
  dispatch reg tr (readBatch j)

/-- negative witness: readBatch without its nil repair in the batch branch (the single-message branch repaired) — the shape
    of the seeded change C18-r2-3 -/
def readBatchUnrepaired (j : Json) : List (Option Msg) × Bool :=
  match j with
  | .arr items => (items.map decodeMsg, true)
  | _ => ([repairNil (decodeMsg j)], false)

def respondUnrepaired (reg : Registry) (tr : Transport) (j : Json) : Response :=
  dispatch reg tr (readBatchUnrepaired j)

-- ---- specification side ----------------------------------------------------------------------------------------

/-- an element of a batch (or a single message) is due an answer unless it is a notification or response-shaped -/
def due (j : Json) : Bool :=
  match classify j with
  | .notification => false
  | .response => false
  | _ => true

/-- the outcome of the reply to a message that is due one -/
def outcomeOf (reg : Registry) (tr : Transport) (m : Msg) : Outcome :=
  if m.isCall then
    match handleCall reg tr m with
    | .out o => o
    | .panic => .err 0
  else .err invalidRequest

def replyOf (reg : Registry) (tr : Transport) (j : Json) : Id × Outcome :=
  (echoId j, outcomeOf reg tr (msgOf j))

-- ---- the canonical shape compared with the real server ---------------------------------------------------------

/-- the class of a reply object as the harness prints it: the protocol errors the dispatch alone decides keep their code;
    a result and every other error code (−32602 can also come from the typed decoding of an argument, −32000 from the
    method) are `app` -/
def Outcome.canon : Outcome → String
  | .app => "app"
  | .err c =>
    if c = parseErrorCode then "e-32700"
    else if c = invalidRequest then "e-32600"
    else if c = methodNotFound then "e-32601"
    else "app"

-- ---- the registry of the rpcserver stream (generated facts) -----------------------------------------------------

def ofFacts (l : List (String × String × List Bool)) : List Callback :=
  l.map (fun (s, n, o) => { service := s, name := n, optional := o })

/-- what the harness's server has registered: Gen/RpcServer.lean, reflected from rpc.GetApis("ledger", "embedded") and the
    server's own "rpc" service with the criteria of service.go -/
def servedRegistry : Registry :=
  { methods := ofFacts Gen.rpcsrvMethods, subscriptions := ofFacts Gen.rpcsrvSubscriptions }

end ZV.JsonRpc
