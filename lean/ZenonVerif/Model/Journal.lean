/-
C08 — the journal (write-ahead log) under the versioned store: goleveldb's log format and its reader.
Stands for github.com/syndtr/goleveldb/leveldb/journal/journal.go (the version pinned by /repo's go.mod) as used by
leveldb.OpenFile → recoverJournal with the DEFAULT options of db.NewLevelDBManager
(Strict = DefaultStrict: journal checksums verified, StrictJournal NOT set).

Format (Writer): the file is a sequence of blocks of `B` bytes (B = 32768 in goleveldb; a parameter here so that small
instances are decidable). One `Write` call of the database = one journal RECORD = the serialised batch. A record is
stored as one chunk (FULL = 1) or as FIRST = 2, MIDDLE = 3 …, LAST = 4 chunks; a chunk never crosses a block:
    chunk = checksum(4, little endian) ‖ length(2, little endian) ‖ type(1) ‖ payload(length)
    checksum = crc (type ‖ payload)          (masked CRC-32C in goleveldb: `leveldbCrc` below; a parameter of the model)
Writer.Next: when fewer than 7 bytes are left in the block they are filled with zeros and the record starts in the next
block. singleWriter.Write: the chunk is closed as FIRST/MIDDLE only when the block is full AND more payload follows,
so a record that ends exactly at the end of a block is FULL/LAST there, and a record that starts with exactly 7 bytes
left in the block gets a FIRST chunk with an empty payload.

Reader (non-strict, checksums on): chunks are read in order and reassembled; a header with type 0 (this includes the
all-zero header) or an unknown type, a length that overflows what is left of the block, or a checksum mismatch make the
reader DROP THE REST OF THE BLOCK together with the record under assembly and go on with the next block; a
MIDDLE/LAST chunk met when no record is under assembly is skipped ("orphan"); when the file ends - fewer than 7 bytes
left in the last block, or nothing left - a record under assembly is dropped ("missing chunk part") and reading stops.
While a record is under assembly goleveldb does not look at the type beyond "FULL or LAST ends the record"
(journal.go: `r.last = chunkType == fullChunkType || chunkType == lastChunkType`): the model does the same.
The STRICT reader (opt.StrictJournal, part of opt.StrictAll) returns an error in every one of the cases above except
the orphan chunk: `recoverStrict`.

What is modelled exactly: every behaviour of the reader on arbitrary bytes as far as journal.go defines it (so the
driver can replay truncated images followed by zero / arbitrary tails). What the theorems cover: journals produced by
the writer, cut at an arbitrary byte, optionally followed by zeros. Arbitrary corruption in the middle of a journal
(bit rot) is evaluated by the model but no theorem speaks about it.
-/
namespace ZV.Journal

abbrev Bytes := List UInt8
/-- a journal record = the payload of one database write call (a serialised batch) -/
abbrev Record := Bytes

/-- little-endian 16-bit field read -/
def rd16 (a b : UInt8) : Nat := a.toNat + 256 * b.toNat
/-- little-endian 32-bit field read -/
def rd32 (a b c d : UInt8) : UInt32 :=
  UInt32.ofNat (a.toNat + 256 * b.toNat + 65536 * c.toNat + 16777216 * d.toNat)

/-- FULL = 1, FIRST = 2, MIDDLE = 3, LAST = 4 -/
def validTy (ty : UInt8) : Bool := ty == 1 || ty == 2 || ty == 3 || ty == 4

structure Chunk where
  ty : UInt8
  payload : Bytes
  deriving DecidableEq, Repr

/-- header (checksum, length, type) ‖ payload -/
def encChunk (crc : Bytes → UInt32) (ty : UInt8) (p : Bytes) : Bytes :=
  UInt8.ofNat (crc (ty :: p)).toNat :: UInt8.ofNat ((crc (ty :: p)).toNat / 256) ::
  UInt8.ofNat ((crc (ty :: p)).toNat / 65536) :: UInt8.ofNat ((crc (ty :: p)).toNat / 16777216) ::
  UInt8.ofNat p.length :: UInt8.ofNat (p.length / 256) :: ty :: p

/-! ### chunk level: what the reader does with a sequence of accepted chunks -/

/-- reader state transition on an accepted chunk: (record completed by it, record under assembly afterwards) -/
def onChunk (acc : Option Record) (ty : UInt8) (p : Bytes) : Option Record × Option Record :=
  match acc with
  | none =>
    if ty = 1 then (some p, none)          -- FULL
    else if ty = 2 then (none, some p)     -- FIRST
    else (none, none)                      -- orphan MIDDLE / LAST: skipped
  | some a =>
    if ty = 1 ∨ ty = 4 then (some (a ++ p), none)
    else (none, some (a ++ p))

def emit (o : Option Record) (l : List Record) : List Record :=
  match o with
  | some r => r :: l
  | none => l

/-- records delivered from a chunk sequence; a record still under assembly at the end is dropped -/
def recoverChunks : List Chunk → Option Record → List Record
  | [], _ => []
  | c :: cs, acc => emit (onChunk acc c.ty c.payload).1 (recoverChunks cs (onChunk acc c.ty c.payload).2)

/-- chunks of a record already begun, given the remaining payload pieces -/
def contChunks : List Bytes → List Chunk
  | [] => []
  | [p] => [⟨4, p⟩]
  | p :: q :: ps => ⟨3, p⟩ :: contChunks (q :: ps)

/-- chunks of a record whose payload is cut into the given pieces -/
def recChunks : List Bytes → List Chunk
  | [] => []
  | [p] => [⟨1, p⟩]
  | p :: q :: ps => ⟨2, p⟩ :: contChunks (q :: ps)

/-! ### byte layout: blocks, padding, where a record is cut -/

inductive Seg where
  | pad (n : Nat)          -- n zero bytes at the end of a block
  | chunk (c : Chunk)
  deriving DecidableEq, Repr

def Seg.enc (crc : Bytes → UInt32) : Seg → Bytes
  | .pad n => List.replicate n 0
  | .chunk c => encChunk crc c.ty c.payload

def Seg.size : Seg → Nat
  | .pad n => n
  | .chunk c => 7 + c.payload.length

/-- offset inside the block after `n` more bytes (a full block wraps to 0) -/
def adv (B off n : Nat) : Nat := if off + n < B then off + n else 0

def Seg.next (B off : Nat) : Seg → Nat
  | .pad _ => 0
  | .chunk c => adv B off (7 + c.payload.length)

def encSegs (crc : Bytes → UInt32) : List Seg → Bytes
  | [] => []
  | s :: ss => s.enc crc ++ encSegs crc ss

def segsSize : List Seg → Nat
  | [] => 0
  | s :: ss => s.size + segsSize ss

/-- offset inside the block after a sequence of segments that starts at `off` -/
def segsEnd (B : Nat) : Nat → List Seg → Nat
  | off, [] => off
  | off, s :: ss => segsEnd B (s.next B off) ss

/-- pieces of the rest of a record written from the start of a block on (`cap` = B - 7 payload bytes per block);
    the fuel is the length of the payload (every step consumes `cap ≥ 1` bytes) -/
def contPieces (cap : Nat) : Nat → Bytes → List Bytes
  | 0, p => [p]
  | f + 1, p => if p.length ≤ cap then [p] else p.take cap :: contPieces cap f (p.drop cap)

/-- pieces of a record whose first header starts at offset `off` of a block (`off + 7 ≤ B`) -/
def pieces (B off : Nat) (r : Record) : List Bytes :=
  if r.length ≤ B - off - 7 then [r]
  else r.take (B - off - 7) :: contPieces (B - 7) r.length (r.drop (B - off - 7))

/-- layout of one record appended at block offset `off` -/
def recSegs (B off : Nat) (r : Record) : List Seg :=
  if B - off < 7 then Seg.pad (B - off) :: (recChunks (pieces B 0 r)).map Seg.chunk
  else (recChunks (pieces B off r)).map Seg.chunk

def journalSegs (B : Nat) : Nat → List Record → List Seg
  | _, [] => []
  | off, r :: rs => recSegs B off r ++ journalSegs B (segsEnd B off (recSegs B off r)) rs

/-- bytes appended to the journal for record `r` when the journal so far ends at block offset `off` -/
def encodeRecord (B : Nat) (crc : Bytes → UInt32) (off : Nat) (r : Record) : Bytes := encSegs crc (recSegs B off r)

/-- the journal file after the write calls `rs` -/
def encodeJournal (B : Nat) (crc : Bytes → UInt32) (rs : List Record) : Bytes := encSegs crc (journalSegs B 0 rs)

/-- size of that file (independent of the checksum function) -/
def journalSize (B : Nat) (rs : List Record) : Nat := segsSize (journalSegs B 0 rs)

/-- number of records of `rs` whose encoding ends at or before byte `n` of the journal -/
def completeAt (B : Nat) (rs : List Record) (n : Nat) : Nat :=
  ((List.range rs.length).filter (fun i => decide (journalSize B (rs.take (i + 1)) ≤ n))).length

/-- the same number, computed along the layout -/
def wholeRecs (B : Nat) : Nat → List Record → Nat → Nat
  | _, [], _ => 0
  | off, r :: rs, n =>
    if segsSize (recSegs B off r) ≤ n then
      1 + wholeRecs B (segsEnd B off (recSegs B off r)) rs (n - segsSize (recSegs B off r))
    else 0

/-! ### the reader -/

inductive Parsed where
  | short                       -- fewer than 7 bytes left in this block
  | bad                         -- the rest of the block is dropped
  | ok (ty : UInt8) (p : Bytes)
  deriving DecidableEq, Repr

/-- Reader.nextChunk on the bytes `rest` of which `avail` belong to the current block -/
def parse (crc : Bytes → UInt32) (avail : Nat) (rest : Bytes) : Parsed :=
  if avail < 7 then .short
  else match rest with
    | c0 :: c1 :: c2 :: c3 :: l0 :: l1 :: ty :: body =>
      if validTy ty = false then .bad                                  -- "zero header" / "invalid chunk type"
      else if avail < 7 + rd16 l0 l1 then .bad                         -- "chunk length overflows block"
      else if rd32 c0 c1 c2 c3 ≠ crc (ty :: body.take (rd16 l0 l1)) then .bad   -- "checksum mismatch"
      else .ok ty (body.take (rd16 l0 l1))
    | _ => .short

/-- the non-strict reader: `off` = offset in the current block, `rest` = unread bytes of the file,
    `acc` = record under assembly. One unit of fuel per chunk / block switch. -/
def readAux (B : Nat) (crc : Bytes → UInt32) : Nat → Nat → Bytes → Option Record → List Record
  | 0, _, _, _ => []
  | f + 1, off, rest, acc =>
    match parse crc (min (B - off) rest.length) rest with
    | .short =>
      if rest.length ≤ B - off then []                                  -- end of file: the partial record is dropped
      else readAux B crc f 0 (rest.drop (B - off)) acc                   -- trailer of a block: next block
    | .bad => readAux B crc f 0 (rest.drop (min (B - off) rest.length)) none
    | .ok ty p =>
      emit (onChunk acc ty p).1
        (readAux B crc f (adv B off (7 + p.length)) (rest.drop (7 + p.length)) (onChunk acc ty p).2)

/-- what goleveldb replays when it reopens a database whose journal file holds `data` -/
def recover (B : Nat) (crc : Bytes → UInt32) (data : Bytes) : List Record :=
  readAux B crc (data.length + 1) 0 data none

/-- the strict reader (opt.StrictJournal): `none` = leveldb.OpenFile returns an error -/
def strictAux (B : Nat) (crc : Bytes → UInt32) : Nat → Nat → Bytes → Option Record → Option (List Record)
  | 0, _, _, _ => some []
  | f + 1, off, rest, acc =>
    match parse crc (min (B - off) rest.length) rest with
    | .short =>
      if rest.length ≤ B - off then (if acc.isSome then none else some [])   -- "missing chunk part"
      else strictAux B crc f 0 (rest.drop (B - off)) acc
    | .bad => none
    | .ok ty p =>
      (strictAux B crc f (adv B off (7 + p.length)) (rest.drop (7 + p.length)) (onChunk acc ty p).2).map
        (emit (onChunk acc ty p).1)

def recoverStrict (B : Nat) (crc : Bytes → UInt32) (data : Bytes) : Option (List Record) :=
  strictAux B crc (data.length + 1) 0 data none

/-! ### layout invariants (hypotheses of the reader lemmas; proved for `journalSegs`) -/

/-- every chunk lies inside one block, padding fills exactly a trailer shorter than a header -/
def WF (B : Nat) : Nat → List Seg → Prop
  | _, [] => True
  | off, .pad n :: ss => off < B ∧ B - off < 7 ∧ n = B - off ∧ WF B 0 ss
  | off, .chunk c :: ss =>
    off + 7 + c.payload.length ≤ B ∧ validTy c.ty = true ∧ WF B (adv B off (7 + c.payload.length)) ss

/-- the chunks that lie completely inside the first `n` bytes of a layout -/
def wholeChunks : Nat → List Seg → List Chunk
  | _, [] => []
  | n, .pad k :: ss => if k ≤ n then wholeChunks (n - k) ss else []
  | n, .chunk c :: ss =>
    if 7 + c.payload.length ≤ n then c :: wholeChunks (n - (7 + c.payload.length)) ss else []

/-- hypothesis of the zero-tail theorem: if byte `n` of the layout falls into the payload of a chunk, that chunk with
    its missing bytes replaced by zeros does not pass the checksum test (with CRC-32C: the missing part was not all
    zeros already, up to a 2^-32 collision) -/
def TornDetected (crc : Bytes → UInt32) : Nat → List Seg → Prop
  | _, [] => True
  | n, .pad k :: ss => if k ≤ n then TornDetected crc (n - k) ss else True
  | n, .chunk c :: ss =>
    if 7 + c.payload.length ≤ n then TornDetected crc (n - (7 + c.payload.length)) ss
    else 7 ≤ n →
      crc (c.ty :: c.payload) ≠
        crc (c.ty :: (c.payload.take (n - 7) ++ List.replicate (c.payload.length - (n - 7)) 0))

/-! ### the checksum goleveldb uses (driver instance of `crc`) -/

def crcStep (c : UInt32) : UInt32 := if c &&& 1 = 1 then (c >>> 1) ^^^ 0x82F63B78 else c >>> 1

def crcByte (c : UInt32) (b : UInt8) : UInt32 :=
  crcStep (crcStep (crcStep (crcStep (crcStep (crcStep (crcStep (crcStep (c ^^^ b.toUInt32))))))))

/-- CRC-32C (Castagnoli), bit-reflected, init and final xor 0xFFFFFFFF -/
def crc32c (bs : Bytes) : UInt32 := (bs.foldl crcByte 0xFFFFFFFF) ^^^ 0xFFFFFFFF

/-- goleveldb util.CRC.Value: rotate right by 15 and add a constant -/
def leveldbCrc (bs : Bytes) : UInt32 :=
  let c := crc32c bs
  ((c >>> 15) ||| (c <<< 17)) + 0xa282ead8

end ZV.Journal
